import EoNVerif.Model.EffDegAgg
import EoNVerif.Model.PrefMixDiscrete
import EoNVerif.Proofs.ODE2
import Mathlib.Algebra.BigOperators.Intervals
import Mathlib.Data.Nat.Choose.Sum
import Mathlib.Algebra.Polynomial.Derivative
import Mathlib.Algebra.Polynomial.Eval.Defs
import Mathlib.Tactic.Ring
import Mathlib.Tactic.FieldSimp
import Mathlib.Tactic.Linarith
import Mathlib.Tactic.LinearCombination
/-!
Helper lemmas for C07 (aggregation of the SIR effective-degree model to the compact effective-degree model).
-/
namespace ODE
open Finset

/-! ## `sumTo` / `sum2` as `Finset` sums -/

theorem sumTo_eq_sum (K : Nat) (f : Nat → Rat) : sumTo K f = ∑ k ∈ range K, f k := by
  induction K with
  | zero => simp [sumTo_zero_left]
  | succ K ih => rw [sumTo_succ, sum_range_succ, ih]

theorem sum2_eq_sum (A B : Nat) (f : Nat → Nat → Rat) :
    sum2 A B f = ∑ s ∈ range A, ∑ i ∈ range B, f s i := by
  unfold sum2; simp only [sumTo_eq_sum]

theorem binom_eq_choose (n k : Nat) : binom n k = Nat.choose n k := by
  induction n generalizing k with
  | zero => cases k <;> simp [binom]
  | succ n ih => cases k with
    | zero => simp [binom]
    | succ k => simp [binom, ih, Nat.choose_succ_succ]

/-! ## binomial moments -/

/-- the binomial weight `C(n,i) x^i y^(n-i)` -/
def bw (x y : Rat) (n i : Nat) : Rat := (Nat.choose n i : Rat) * x ^ i * y ^ (n - i)

theorem bw_M0 (x y : Rat) (n : Nat) : ∑ i ∈ range (n + 1), bw x y n i = (x + y) ^ n := by
  rw [add_pow]
  apply sum_congr rfl; intro i _; unfold bw; ring

theorem bw_succ (x y : Rat) (n i : Nat) :
    ((i : Rat) + 1) * bw x y (n + 1) (i + 1) = ((n : Rat) + 1) * x * bw x y n i := by
  unfold bw
  have h : ((n + 1 : Nat) : Rat) * (Nat.choose n i : Rat) = (Nat.choose (n + 1) (i + 1) : Rat) * ((i + 1 : Nat) : Rat) := by
    exact_mod_cast Nat.add_one_mul_choose_eq n i
  push_cast at h
  rw [Nat.add_sub_add_right, pow_succ]
  linear_combination (-(x ^ i * x * y ^ (n - i))) * h

theorem bw_M1 (x y : Rat) (n : Nat) :
    ∑ i ∈ range (n + 1), (i : Rat) * bw x y n i = n * x * (x + y) ^ (n - 1) := by
  cases n with
  | zero => simp
  | succ n =>
    rw [sum_range_succ']
    simp only [Nat.cast_zero, zero_mul, add_zero, Nat.add_sub_cancel, Nat.cast_add, Nat.cast_one]
    rw [sum_congr rfl (fun i _ => bw_succ x y n i), ← mul_sum, bw_M0]

theorem bw_M2 (x y : Rat) (n : Nat) :
    ∑ i ∈ range (n + 1), ((i : Rat) * ((i : Rat) - 1)) * bw x y n i = n * ((n : Rat) - 1) * x ^ 2 * (x + y) ^ (n - 2) := by
  cases n with
  | zero => simp
  | succ n =>
    rw [sum_range_succ']
    simp only [Nat.cast_zero, zero_mul, add_zero, Nat.cast_add, Nat.cast_one]
    have e : ∀ i ∈ range (n + 1), (((i : Rat) + 1) * ((i : Rat) + 1 - 1)) * bw x y (n + 1) (i + 1)
        = (((n : Rat) + 1) * x) * ((i : Rat) * bw x y n i) := by
      intro i _
      have := bw_succ x y n i
      linear_combination (i : Rat) * this
    rw [sum_congr rfl e, ← mul_sum, bw_M1]
    cases n with
    | zero => simp
    | succ n =>
      have a1 : n + 1 - 1 = n := by omega
      have a2 : n + 1 + 1 - 2 = n := by omega
      rw [a1, a2]; push_cast; ring

/-- expectation of a quadratic `α + β i + δ i(i-1)` under the binomial weights with `x + y = 1` -/
theorem bw_quad (e : Rat) (n : Nat) (α β δ : Rat) :
    ∑ i ∈ range (n + 1), (α + β * i + δ * ((i : Rat) * ((i : Rat) - 1))) * bw e (1 - e) n i
      = α + β * (n * e) + δ * (n * ((n : Rat) - 1) * e ^ 2) := by
  have h0 := bw_M0 e (1 - e) n
  have h1 := bw_M1 e (1 - e) n
  have h2 := bw_M2 e (1 - e) n
  have e1 : e + (1 - e) = 1 := by ring
  rw [e1, one_pow] at h0 h1 h2
  rw [mul_one] at h1 h2
  have split : ∑ i ∈ range (n + 1), (α + β * i + δ * ((i : Rat) * ((i : Rat) - 1))) * bw e (1 - e) n i
      = α * ∑ i ∈ range (n + 1), bw e (1 - e) n i + β * ∑ i ∈ range (n + 1), (i : Rat) * bw e (1 - e) n i
        + δ * ∑ i ∈ range (n + 1), ((i : Rat) * ((i : Rat) - 1)) * bw e (1 - e) n i := by
    rw [mul_sum, mul_sum, mul_sum, ← sum_add_distrib, ← sum_add_distrib]
    apply sum_congr rfl; intro i _; ring
  rw [split, h0, h1, h2, mul_one]

/-! ## diagonal sums -/

/-- `diag κ F = Σ_{s+i=κ} F s i` -/
def diag (κ : Nat) (F : Nat → Nat → Rat) : Rat := ∑ i ∈ range (κ + 1), F (κ - i) i

theorem aggSk_eq_diag (X : Nat → Nat → Rat) (κ : Nat) : aggSk X κ = diag κ X := by
  unfold aggSk diag; rw [sumTo_eq_sum]

theorem diag_congr (κ : Nat) (F G : Nat → Nat → Rat) (h : ∀ s i, s + i = κ → F s i = G s i) : diag κ F = diag κ G := by
  unfold diag
  apply sum_congr rfl; intro i hi
  exact h _ _ (by have := mem_range.1 hi; omega)

theorem diag_zero_of_support (A κ : Nat) (F : Nat → Nat → Rat) (hF : ∀ s i, A ≤ s + i → F s i = 0) (hκ : A ≤ κ) :
    diag κ F = 0 := by
  unfold diag
  apply sum_eq_zero; intro i hi
  exact hF _ _ (by have := mem_range.1 hi; omega)

/-- reindexing of the full double sum by diagonals on the feasible support -/
theorem sum_eq_sum_diag (A : Nat) (F : Nat → Nat → Rat) (hF : ∀ s i, A ≤ s + i → F s i = 0) :
    ∑ s ∈ range A, ∑ i ∈ range A, F s i = ∑ κ ∈ range A, diag κ F := by
  unfold diag
  have h := sum_range_diag_flip A (fun i s => F s i)
  beta_reduce at h
  rw [h, sum_comm]
  apply sum_congr rfl; intro i hi
  symm
  apply sum_subset
  · intro x hx; rw [mem_range] at *; omega
  · intro x hx hx'
    rw [mem_range] at *
    exact hF _ _ (by omega)

theorem sum2_eq_sumTo_aggSk (A : Nat) (X : Nat → Nat → Rat) (hX : ∀ s i, A ≤ s + i → X s i = 0) :
    sum2 A A X = sumTo A (aggSk X) := by
  rw [sum2_eq_sum, sumTo_eq_sum, sum_eq_sum_diag A X hX]
  apply sum_congr rfl; intro κ _; rw [aggSk_eq_diag]

/-- shift along the diagonal in the `i` direction -/
theorem diag_succ (κ : Nat) (F : Nat → Nat → Rat) :
    diag (κ + 1) F = ∑ i ∈ range (κ + 1), F (κ - i) (i + 1) + F (κ + 1) 0 := by
  unfold diag
  rw [sum_range_succ']
  simp only [Nat.add_sub_add_right, Nat.sub_zero]

/-- shift along the diagonal in the `s` direction -/
theorem diag_dn (κ : Nat) (F : Nat → Nat → Rat) :
    ∑ i ∈ range (κ + 1), (if i = 0 then 0 else F (κ - i + 1) (i - 1)) = diag κ F - F 0 κ := by
  unfold diag
  rw [sum_range_succ', sum_range_succ]
  simp only [if_true, Nat.add_one_ne_zero, if_false, Nat.add_sub_cancel, Nat.sub_self, add_zero, add_sub_cancel_right]
  apply sum_congr rfl; intro j hj
  have : κ - (j + 1) + 1 = κ - j := by have := mem_range.1 hj; omega
  rw [this]

/-! ## the effective-degree right-hand side on the feasible support -/

/-- `ISS_over_SS` of `_dSIR_effective_degree_` -/
def effR1 (A : Nat) (X : Nat → Nat → Rat) : Rat :=
  if sum2 A A (fun s i => kf s * X s i) = 0 then 0
  else sum2 A A (fun s i => kf i * kf s * X s i) / sum2 A A (fun s i => kf s * X s i)

/-- on the feasible support the array-boundary tests of the loop body are redundant -/
theorem sirEffDeg_fst (A : Nat) (tau gamma N : Rat) (S : Nat → Nat → Rat) (R : Rat)
    (hS : ∀ s i, A ≤ s + i → S s i = 0) (s i : Nat) :
    (sirEffDeg A A tau gamma N S R).1 s i
      = -tau * kf i * S s i + gamma * ((kf i + 1) * S s (i + 1) - kf i * S s i)
        + tau * effR1 A S * ((kf s + 1) * (if i = 0 then 0 else S (s + 1) (i - 1)) - kf s * S s i) := by
  dsimp only [sirEffDeg, effR1]
  have ip1 : (if i + 1 = A then 0 else S s (i + 1)) = S s (i + 1) := by
    split
    · rw [hS _ _ (by omega)]
    · rfl
  have dn : (if s + 1 = A ∨ i = 0 then 0 else S (s + 1) (i - 1)) = if i = 0 then 0 else S (s + 1) (i - 1) := by
    by_cases h : i = 0
    · simp [h]
    · by_cases h' : s + 1 = A
      · simp only [h, h', true_or, if_true, if_false]
        rw [hS _ _ (by omega)]
      · simp [h, h']
  rw [ip1, dn]

/-- the right-hand side vanishes outside the feasible support -/
theorem sirEffDeg_support (A : Nat) (tau gamma N : Rat) (S : Nat → Nat → Rat) (R : Rat)
    (hS : ∀ s i, A ≤ s + i → S s i = 0) (s i : Nat) (h : A ≤ s + i) :
    (sirEffDeg A A tau gamma N S R).1 s i = 0 := by
  rw [sirEffDeg_fst A tau gamma N S R hS, hS s i h, hS s (i + 1) (by omega)]
  by_cases h0 : i = 0
  · simp [h0]
  · rw [if_neg h0, hS (s + 1) (i - 1) (by omega)]; ring

/-- diagonal sum of the `w(i)`-weighted right-hand side (no closure assumption) -/
theorem diag_w_deriv (A : Nat) (tau gamma N : Rat) (S : Nat → Nat → Rat) (R : Rat)
    (hS : ∀ s i, A ≤ s + i → S s i = 0) (w : Nat → Rat) (κ : Nat) :
    diag κ (fun s i => w i * (sirEffDeg A A tau gamma N S R).1 s i)
      = -tau * diag κ (fun s i => w i * kf i * S s i)
        + gamma * (diag (κ + 1) (fun s i => w (i - 1) * kf i * S s i) - diag κ (fun s i => w i * kf i * S s i))
        + tau * effR1 A S * (diag κ (fun s i => w (i + 1) * kf s * S s i) - diag κ (fun s i => w i * kf s * S s i)) := by
  have h2 := diag_succ κ (fun s i => w (i - 1) * kf i * S s i)
  have h3 := diag_dn κ (fun s i => w (i + 1) * kf s * S s i)
  simp only [kf_zero, mul_zero, zero_mul, add_zero, sub_zero, Nat.add_sub_cancel] at h2 h3
  rw [h2, ← h3]
  unfold diag
  rw [mul_sum, ← sum_sub_distrib, ← sum_sub_distrib, mul_sum, mul_sum, ← sum_add_distrib, ← sum_add_distrib]
  apply sum_congr rfl; intro i _
  beta_reduce
  rw [sirEffDeg_fst A tau gamma N S R hS]
  by_cases h0 : i = 0
  · simp only [h0, if_true, kf_zero, kf_succ]; ring
  · have e : i - 1 + 1 = i := by omega
    simp only [h0, if_false, e, kf_succ]; ring

/-! ## components of the aggregated right-hand side without any closure assumption -/

theorem sum_diag_shift (A : Nat) (F : Nat → Nat → Rat) (hF : ∀ s i, A ≤ s + i → F s i = 0) (h0 : F 0 0 = 0) :
    ∑ κ ∈ range A, diag (κ + 1) F = ∑ κ ∈ range A, diag κ F := by
  have h1 := sum_range_succ' (fun κ => diag κ F) A
  have h2 := sum_range_succ (fun κ => diag κ F) A
  have z1 : diag A F = 0 := diag_zero_of_support A A F hF (le_refl _)
  have z2 : diag 0 F = 0 := by simp [diag, h0]
  rw [z1] at h2; rw [z2] at h1
  linarith

/-- the exact (unclosed) equation for `S_κ`: with `m1 κ = Σ_{s+i=κ} i S[s,i]` (S–I edges at effective-degree-κ
nodes), `d S_κ/dt = -(τ+γ) m1 κ + γ m1 (κ+1)` -/
theorem effDeg_agg_dSk (A : Nat) (tau gamma N : Rat) (S : Nat → Nat → Rat) (R : Rat)
    (hS : ∀ s i, A ≤ s + i → S s i = 0) (κ : Nat) :
    aggSk (sirEffDeg A A tau gamma N S R).1 κ
      = -(tau + gamma) * aggSk (fun s i => kf i * S s i) κ + gamma * aggSk (fun s i => kf i * S s i) (κ + 1) := by
  have h := diag_w_deriv A tau gamma N S R hS (fun _ => 1) κ
  simp only [one_mul] at h
  rw [aggSk_eq_diag, aggSk_eq_diag, aggSk_eq_diag, h]
  ring

/-- total number of susceptible nodes: `d/dt Σ S[s,i] = -τ [SI]`, no closure needed -/
theorem effDeg_total_dS (A : Nat) (tau gamma N : Rat) (S : Nat → Nat → Rat) (R : Rat)
    (hS : ∀ s i, A ≤ s + i → S s i = 0) :
    sum2 A A (sirEffDeg A A tau gamma N S R).1 = -tau * aggSI A S := by
  have hF : ∀ s i, A ≤ s + i → (fun s i => kf i * S s i) s i = 0 := fun s i h => by
    show kf i * S s i = 0
    rw [hS s i h, mul_zero]
  rw [sum2_eq_sumTo_aggSk A _ (sirEffDeg_support A tau gamma N S R hS), sumTo_eq_sum]
  rw [sum_congr rfl (fun κ _ => effDeg_agg_dSk A tau gamma N S R hS κ)]
  simp only [aggSk_eq_diag]
  rw [sum_add_distrib, ← mul_sum, ← mul_sum, sum_diag_shift A _ hF (by simp [kf_zero])]
  unfold aggSI
  rw [sum2_eq_sum, sum_eq_sum_diag A _ hF]
  ring

/-- the compact model: `Σ_κ dS_κ = -τ [SI]` when `Σ κ S_κ ≠ 0` -/
theorem compactED_total_dS (K : Nat) (tau gamma N : Rat) (Sk : Nat → Rat) (R SI : Rat)
    (hX : sumTo K (fun k => Sk k * kf k) ≠ 0) :
    sumTo K (sirCompactED K tau gamma N Sk R SI).1 = -tau * SI := by
  dsimp only [sirCompactED]
  rw [sumTo_mul_left]
  have e1 : sumTo K (fun k => -(tau + gamma) * kf k * Sk k + gamma * (if k + 1 < K then kf (k + 1) * Sk (k + 1) else 0))
      = -(tau + gamma) * sumTo K (fun k => Sk k * kf k) + gamma * sumTo K (fun k => if k + 1 < K then kf (k + 1) * Sk (k + 1) else 0) := by
    rw [← sumTo_mul_left, ← sumTo_mul_left, ← sumTo_add]
    apply ODE.sumTo_congr; intro k _; ring
  have e2 : sumTo K (fun k => if k + 1 < K then kf (k + 1) * Sk (k + 1) else 0) = sumTo K (fun k => Sk k * kf k) := by
    rcases Nat.eq_zero_or_pos K with h | h
    · subst h; simp [sumTo_zero_left]
    · rw [sumTo_shift_trunc K (fun k => kf k * Sk k) h, kf_zero, zero_mul, sub_zero]
      apply ODE.sumTo_congr; intro k _; ring
  rw [e1, e2]
  field_simp
  ring

/-- the exact (unclosed) equation for `[SI]`: `d[SI]/dt = -τ Σ i² S[s,i] - γ [SI] + τ (ISS/SS) [SS]` -/
theorem effDeg_agg_dSI (A : Nat) (tau gamma N : Rat) (S : Nat → Nat → Rat) (R : Rat)
    (hS : ∀ s i, A ≤ s + i → S s i = 0) :
    aggSI A (sirEffDeg A A tau gamma N S R).1
      = -tau * sum2 A A (fun s i => kf i * kf i * S s i) - gamma * aggSI A S
        + tau * effR1 A S * sum2 A A (fun s i => kf s * S s i) := by
  have supp : ∀ (c : Nat → Nat → Rat), ∀ s i, A ≤ s + i → (fun s i => c s i * S s i) s i = 0 := fun c s i h => by
    show c s i * S s i = 0
    rw [hS s i h, mul_zero]
  have hd : ∀ s i, A ≤ s + i → (fun s i => kf i * (sirEffDeg A A tau gamma N S R).1 s i) s i = 0 := fun s i h => by
    show kf i * _ = 0
    rw [sirEffDeg_support A tau gamma N S R hS s i h, mul_zero]
  unfold aggSI
  simp only [sum2_eq_sum]
  rw [sum_eq_sum_diag A _ hd, sum_congr rfl (fun κ _ => diag_w_deriv A tau gamma N S R hS kf κ)]
  rw [sum_add_distrib, sum_add_distrib, ← mul_sum, ← mul_sum, ← mul_sum, sum_sub_distrib, sum_sub_distrib,
    sum_diag_shift A _ (supp (fun _ i => kf (i - 1) * kf i)) (by simp [kf_zero]),
    ← sum_eq_sum_diag A _ (supp (fun _ i => kf (i - 1) * kf i)),
    ← sum_eq_sum_diag A _ (supp (fun _ i => kf i * kf i)),
    ← sum_eq_sum_diag A _ (supp (fun s i => kf (i + 1) * kf s)),
    ← sum_eq_sum_diag A _ (supp (fun s i => kf i * kf s))]
  have e1 : ∑ s ∈ range A, ∑ i ∈ range A, kf (i - 1) * kf i * S s i - ∑ s ∈ range A, ∑ i ∈ range A, kf i * kf i * S s i
      = -∑ s ∈ range A, ∑ i ∈ range A, kf i * S s i := by
    rw [← sum_sub_distrib, ← sum_neg_distrib]
    apply sum_congr rfl; intro s _
    rw [← sum_sub_distrib, ← sum_neg_distrib]
    apply sum_congr rfl; intro i _
    cases i with
    | zero => simp [kf_zero]
    | succ i => rw [Nat.add_sub_cancel, kf_succ]; ring
  have e2 : ∑ s ∈ range A, ∑ i ∈ range A, kf (i + 1) * kf s * S s i - ∑ s ∈ range A, ∑ i ∈ range A, kf i * kf s * S s i
      = ∑ s ∈ range A, ∑ i ∈ range A, kf s * S s i := by
    rw [← sum_sub_distrib]
    apply sum_congr rfl; intro s _
    rw [← sum_sub_distrib]
    apply sum_congr rfl; intro i _
    rw [kf_succ]; ring
  rw [e1, e2]
  ring

/-! ## the binomial closure -/

/-- the closure assumption of the compact model, with class sizes `a κ` and infected-stub probability `e`:
`S[s,i] = a_{s+i} C(s+i,i) e^i (1-e)^s` on the feasible support -/
def Closed (A : Nat) (S : Nat → Nat → Rat) (a : Nat → Rat) (e : Rat) : Prop :=
  ∀ s i, s + i < A → S s i = a (s + i) * (Nat.choose (s + i) i : Rat) * e ^ i * (1 - e) ^ s

theorem diag_closed (A : Nat) (S : Nat → Nat → Rat) (a : Nat → Rat) (e : Rat) (hcl : Closed A S a e)
    (κ : Nat) (hκ : κ < A) (α β δ : Rat) (F : Nat → Nat → Rat)
    (hF : ∀ s i, s + i = κ → F s i = (α + β * i + δ * ((i : Rat) * ((i : Rat) - 1))) * S s i) :
    diag κ F = a κ * (α + β * (κ * e) + δ * (κ * ((κ : Rat) - 1) * e ^ 2)) := by
  unfold diag
  rw [← bw_quad e κ α β δ, mul_sum]
  apply sum_congr rfl; intro i hi
  have hi' : i ≤ κ := by have := mem_range.1 hi; omega
  have hs : κ - i + i = κ := Nat.sub_add_cancel hi'
  rw [hF _ _ hs, hcl _ _ (by omega), hs]
  unfold bw; ring

theorem sum_closed (A : Nat) (S : Nat → Nat → Rat) (a : Nat → Rat) (e : Rat)
    (hS : ∀ s i, A ≤ s + i → S s i = 0) (hcl : Closed A S a e)
    (α β δ : Nat → Rat) (F : Nat → Nat → Rat)
    (hF : ∀ s i, F s i = (α (s + i) + β (s + i) * i + δ (s + i) * ((i : Rat) * ((i : Rat) - 1))) * S s i) :
    sum2 A A F = ∑ κ ∈ range A, a κ * (α κ + β κ * (κ * e) + δ κ * (κ * ((κ : Rat) - 1) * e ^ 2)) := by
  rw [sum2_eq_sum, sum_eq_sum_diag A F (fun s i h => by rw [hF, hS s i h, mul_zero])]
  apply sum_congr rfl; intro κ hκ
  exact diag_closed A S a e hcl κ (mem_range.1 hκ) _ _ _ F (fun s i h => by rw [hF, h])

section Core
variable (A : Nat) (S : Nat → Nat → Rat) (a : Nat → Rat) (e : Rat)
  (hS : ∀ s i, A ≤ s + i → S s i = 0) (hcl : Closed A S a e)
include hS hcl

omit hS in
theorem closed_aggSk (κ : Nat) (hκ : κ < A) : aggSk S κ = a κ := by
  rw [aggSk_eq_diag, diag_closed A S a e hcl κ hκ 1 0 0 S (fun s i _ => by ring)]
  ring

theorem closed_SI : aggSI A S = e * sumTo A (fun k => a k * kf k) := by
  unfold aggSI
  rw [sum_closed A S a e hS hcl (fun _ => 0) (fun _ => 1) (fun _ => 0) _ (fun s i => by simp only [kf]; ring),
    sumTo_eq_sum, mul_sum]
  apply sum_congr rfl; intro κ _; simp only [kf]; ring

theorem closed_T2 : sum2 A A (fun s i => kf i * kf i * S s i)
    = e * sumTo A (fun k => a k * kf k) + e ^ 2 * sumTo A (fun k => kf k * (kf k - 1) * a k) := by
  rw [sum_closed A S a e hS hcl (fun _ => 0) (fun _ => 1) (fun _ => 1) _ (fun s i => by simp only [kf]; ring),
    sumTo_eq_sum, sumTo_eq_sum, mul_sum, mul_sum, ← sum_add_distrib]
  apply sum_congr rfl; intro κ _; simp only [kf]; ring

theorem closed_SS : sum2 A A (fun s i => kf s * S s i) = (1 - e) * sumTo A (fun k => a k * kf k) := by
  rw [sum_closed A S a e hS hcl (fun κ => (κ : Rat)) (fun _ => -1) (fun _ => 0) _
      (fun s i => by simp only [kf]; push_cast; ring),
    sumTo_eq_sum, mul_sum]
  apply sum_congr rfl; intro κ _; simp only [kf]; ring

theorem closed_ISS : sum2 A A (fun s i => kf i * kf s * S s i)
    = e * (1 - e) * sumTo A (fun k => kf k * (kf k - 1) * a k) := by
  rw [sum_closed A S a e hS hcl (fun _ => 0) (fun κ => (κ : Rat) - 1) (fun _ => -1) _
      (fun s i => by simp only [kf]; push_cast; ring),
    sumTo_eq_sum, mul_sum]
  apply sum_congr rfl; intro κ _; simp only [kf]; ring

/-- `(ISS/SS)·[SS] = [ISS]` in a closed state, including the repaired `SS = 0` branch -/
theorem closed_r1 (hX : sumTo A (fun k => a k * kf k) ≠ 0) :
    effR1 A S * ((1 - e) * sumTo A (fun k => a k * kf k))
      = e * (1 - e) * sumTo A (fun k => kf k * (kf k - 1) * a k) := by
  unfold effR1
  rw [closed_SS A S a e hS hcl, closed_ISS A S a e hS hcl]
  split
  · next h =>
    have h1 : 1 - e = 0 := by
      rcases mul_eq_zero.1 h with h | h
      · exact h
      · exact absurd h hX
    rw [h1]; ring
  · next h => rw [div_mul_cancel₀ _ h]

/-- semiconjugacy on closed states, generic class sizes `a` and probability `e` -/
theorem effDeg_to_compactED_core (tau gamma N R : Rat) (hX : sumTo A (fun k => a k * kf k) ≠ 0) :
    (∀ κ, κ < A → aggSk (sirEffDeg A A tau gamma N S R).1 κ
        = (sirCompactED A tau gamma N a R (e * sumTo A (fun k => a k * kf k))).1 κ) ∧
    (sirEffDeg A A tau gamma N S R).2 = (sirCompactED A tau gamma N a R (e * sumTo A (fun k => a k * kf k))).2.1 ∧
    aggSI A (sirEffDeg A A tau gamma N S R).1
        = (sirCompactED A tau gamma N a R (e * sumTo A (fun k => a k * kf k))).2.2 := by
  have heff : e * sumTo A (fun k => a k * kf k) / sumTo A (fun k => a k * kf k) = e := mul_div_cancel_right₀ e hX
  refine ⟨?_, ?_, ?_⟩
  · intro κ hκ
    rw [effDeg_agg_dSk A tau gamma N S R hS κ, aggSk_eq_diag, aggSk_eq_diag,
      diag_closed A S a e hcl κ hκ 0 1 0 _ (fun s i _ => by simp only [kf]; ring)]
    dsimp only [sirCompactED]
    rw [heff]
    by_cases h : κ + 1 < A
    · rw [diag_closed A S a e hcl (κ + 1) h 0 1 0 _ (fun s i _ => by simp only [kf]; ring), if_pos h]
      simp only [kf]; push_cast; ring
    · rw [diag_zero_of_support A (κ + 1) _ (fun s i h => by rw [hS s i h, mul_zero]) (by omega), if_neg h]
      simp only [kf]; ring
  · dsimp only [sirEffDeg, sirCompactED]
    rw [sum2_eq_sumTo_aggSk A S hS, ODE.sumTo_congr A (aggSk S) a (fun κ hκ => closed_aggSk A S a e hcl κ hκ)]
    ring
  · rw [effDeg_agg_dSI A tau gamma N S R hS, closed_T2 A S a e hS hcl, closed_SI A S a e hS hcl,
      closed_SS A S a e hS hcl]
    dsimp only [sirCompactED]
    rw [heff]
    linear_combination tau * closed_r1 A S a e hS hcl hX

end Core

/-- **semiconjugacy** of the SIR effective-degree model onto the compact effective-degree model under the
aggregation map `S_κ = Σ_{s+i=κ} S[s,i]`, `[SI] = Σ i S[s,i]`, `R ↦ R`, on states satisfying the closure assumption
of the compact model (`effectiveI = [SI]/Σ κ S_κ`) -/
theorem effDeg_to_compactED_aux (A : Nat) (tau gamma N R : Rat) (S : Nat → Nat → Rat)
    (hS : ∀ s i, A ≤ s + i → S s i = 0)
    (hX : sumTo A (fun k => aggSk S k * kf k) ≠ 0)
    (hcl : ∀ s i, s + i < A →
      S s i = aggSk S (s + i) * (Nat.choose (s + i) i : Rat) * aggEff A S ^ i * (1 - aggEff A S) ^ s) :
    (∀ κ, κ < A → aggSk (sirEffDeg A A tau gamma N S R).1 κ
        = (sirCompactED A tau gamma N (aggSk S) R (aggSI A S)).1 κ) ∧
    (sirEffDeg A A tau gamma N S R).2 = (sirCompactED A tau gamma N (aggSk S) R (aggSI A S)).2.1 ∧
    aggSI A (sirEffDeg A A tau gamma N S R).1 = (sirCompactED A tau gamma N (aggSk S) R (aggSI A S)).2.2 := by
  have h := effDeg_to_compactED_core A S (aggSk S) (aggEff A S) hS hcl tau gamma N R hX
  have e : aggEff A S * sumTo A (fun k => aggSk S k * kf k) = aggSI A S := by
    unfold aggEff; exact div_mul_cancel₀ _ hX
  rw [e] at h
  exact h

/-! ## the binomial states satisfy every hypothesis -/

theorem binomState_support (A : Nat) (Sk : Nat → Rat) (e : Rat) (s i : Nat) (h : A ≤ s + i) :
    binomState A Sk e s i = 0 := by
  unfold binomState; rw [if_neg (by omega)]

theorem binomState_closed (A : Nat) (Sk : Nat → Rat) (e : Rat) : Closed A (binomState A Sk e) Sk e := by
  intro s i h
  unfold binomState; rw [if_pos h, binom_eq_choose]

theorem binomState_aggSk (A : Nat) (Sk : Nat → Rat) (e : Rat) (κ : Nat) (hκ : κ < A) :
    aggSk (binomState A Sk e) κ = Sk κ :=
  closed_aggSk A _ Sk e (binomState_closed A Sk e) κ hκ

theorem binomState_Xs (A : Nat) (Sk : Nat → Rat) (e : Rat) :
    sumTo A (fun k => aggSk (binomState A Sk e) k * kf k) = sumTo A (fun k => Sk k * kf k) :=
  ODE.sumTo_congr A _ _ (fun k hk => by rw [binomState_aggSk A Sk e k hk])

theorem binomState_aggSI (A : Nat) (Sk : Nat → Rat) (e : Rat) :
    aggSI A (binomState A Sk e) = e * sumTo A (fun k => Sk k * kf k) :=
  closed_SI A _ Sk e (binomState_support A Sk e) (binomState_closed A Sk e)

theorem binomState_aggEff (A : Nat) (Sk : Nat → Rat) (e : Rat) (hX : sumTo A (fun k => Sk k * kf k) ≠ 0) :
    aggEff A (binomState A Sk e) = e := by
  unfold aggEff
  rw [binomState_Xs, binomState_aggSI]
  exact mul_div_cancel_right₀ e hX

/-- the closure hypothesis of `effDeg_to_compactED_aux` holds for every binomial state -/
theorem binomState_hcl (A : Nat) (Sk : Nat → Rat) (e : Rat) (hX : sumTo A (fun k => Sk k * kf k) ≠ 0)
    (s i : Nat) (h : s + i < A) :
    binomState A Sk e s i = aggSk (binomState A Sk e) (s + i) * (Nat.choose (s + i) i : Rat)
      * aggEff A (binomState A Sk e) ^ i * (1 - aggEff A (binomState A Sk e)) ^ s := by
  rw [binomState_aggEff A Sk e hX, binomState_aggSk A Sk e _ h]
  exact binomState_closed A Sk e s i h

/-! ## invariance of the closed states: the effective-degree vector field is tangent to them -/

/-- formal time derivative of `binomState A a e` when the class sizes `a` move with velocity `da` and the probability
`e` with velocity `de` (product and chain rule applied to `a_{s+i} · C(s+i,i) · e^i · (1-e)^s`) -/
def binomStateVel (A : Nat) (a da : Nat → Rat) (e de : Rat) : Nat → Nat → Rat :=
  fun s i => if s + i < A then
    da (s + i) * (Nat.choose (s + i) i : Rat) * e ^ i * (1 - e) ^ s
      + a (s + i) * (Nat.choose (s + i) i : Rat)
        * (kf i * e ^ (i - 1) * (1 - e) ^ s - kf s * e ^ i * (1 - e) ^ (s - 1)) * de
  else 0

theorem binomState_val (A : Nat) (a : Nat → Rat) (e : Rat) (s i : Nat) (h : s + i < A) :
    binomState A a e s i = a (s + i) * (Nat.choose (s + i) i : Rat) * e ^ i * (1 - e) ^ s :=
  binomState_closed A a e s i h

theorem binomState_ip1 (A : Nat) (a : Nat → Rat) (e : Rat) (s i : Nat) :
    (kf i + 1) * binomState A a e s (i + 1)
      = (if s + i + 1 < A then kf (s + i + 1) * a (s + i + 1) else 0) * e
        * ((Nat.choose (s + i) i : Rat) * e ^ i * (1 - e) ^ s) := by
  have hc : ((s + i + 1 : Nat) : Rat) * (Nat.choose (s + i) i : Rat)
      = (Nat.choose (s + i + 1) (i + 1) : Rat) * ((i + 1 : Nat) : Rat) := by
    exact_mod_cast Nat.add_one_mul_choose_eq (s + i) i
  by_cases h : s + i + 1 < A
  · rw [if_pos h, binomState_val A a e s (i + 1) h]
    simp only [kf] at *
    rw [show s + (i + 1) = s + i + 1 from rfl, pow_succ]
    push_cast at hc ⊢
    linear_combination (-(a (s + i + 1) * e ^ i * e * (1 - e) ^ s)) * hc
  · rw [if_neg h, binomState_support A a e s (i + 1) (by omega)]; ring

theorem binomState_dn (A : Nat) (a : Nat → Rat) (e : Rat) (s i : Nat) (h : s + i < A) :
    (kf s + 1) * (if i = 0 then 0 else binomState A a e (s + 1) (i - 1))
      = a (s + i) * (Nat.choose (s + i) i : Rat) * (kf i * e ^ (i - 1)) * ((1 - e) ^ s * (1 - e)) := by
  cases i with
  | zero => simp [kf_zero]
  | succ j =>
    have hidx : s + 1 + j = s + (j + 1) := by omega
    have hc : (Nat.choose (s + (j + 1)) (j + 1) : Rat) * ((j + 1 : Nat) : Rat)
        = (Nat.choose (s + (j + 1)) j : Rat) * ((s + 1 : Nat) : Rat) := by
      have := Nat.choose_succ_right_eq (s + (j + 1)) j
      have e2 : s + (j + 1) - j = s + 1 := by omega
      rw [e2] at this
      exact_mod_cast this
    rw [if_neg (Nat.succ_ne_zero j), Nat.add_sub_cancel, binomState_val A a e (s + 1) j (by omega), hidx, pow_succ]
    simp only [kf]
    push_cast at hc ⊢
    linear_combination (-(a (s + (j + 1)) * e ^ j * ((1 - e) ^ s * (1 - e)))) * hc

/-- `Σ κ · dS_κ` of the compact model -/
theorem kdS_sum (K : Nat) (eff tau gamma : Rat) (a : Nat → Rat) :
    sumTo K (fun k => kf k * (eff * (-(tau + gamma) * kf k * a k
        + gamma * (if k + 1 < K then kf (k + 1) * a (k + 1) else 0))))
      = eff * (-(tau + gamma) * (sumTo K (fun k => kf k * (kf k - 1) * a k) + sumTo K (fun k => a k * kf k))
          + gamma * sumTo K (fun k => kf k * (kf k - 1) * a k)) := by
  have e3 : sumTo K (fun k => if k + 1 < K then kf k * (kf (k + 1) * a (k + 1)) else 0)
      = sumTo K (fun k => kf k * (kf k - 1) * a k) := by
    rcases Nat.eq_zero_or_pos K with h | h
    · subst h; simp [sumTo_zero_left]
    · have := sumTo_shift_trunc K (fun k => kf (k - 1) * (kf k * a k)) h
      simp only [Nat.add_sub_cancel, kf_zero, zero_mul, mul_zero, sub_zero] at this
      rw [this]
      apply ODE.sumTo_congr; intro k _
      cases k with
      | zero => simp [kf_zero]
      | succ k => rw [Nat.add_sub_cancel, kf_succ]; ring
  have e1 : sumTo K (fun k => kf k * (eff * (-(tau + gamma) * kf k * a k
        + gamma * (if k + 1 < K then kf (k + 1) * a (k + 1) else 0))))
      = eff * (-(tau + gamma) * sumTo K (fun k => kf k * kf k * a k)
          + gamma * sumTo K (fun k => if k + 1 < K then kf k * (kf (k + 1) * a (k + 1)) else 0)) := by
    rw [← sumTo_mul_left, ← sumTo_mul_left, ← sumTo_add, ← sumTo_mul_left]
    apply ODE.sumTo_congr; intro k _
    split <;> ring
  have e2 : sumTo K (fun k => kf k * kf k * a k)
      = sumTo K (fun k => kf k * (kf k - 1) * a k) + sumTo K (fun k => a k * kf k) := by
    rw [← sumTo_add]
    apply ODE.sumTo_congr; intro k _; ring
  rw [e1, e2, e3]

/-- **tangency**: at a closed state the derivative returned by `_dSIR_effective_degree_` is the velocity of the closed
state whose parameters `S_κ`, `[SI]` move as `_dSIR_compact_effective_degree_` prescribes (and `e = [SI]/Σ κ S_κ` by
the quotient rule) -/
theorem effDeg_closed_tangent_aux (A : Nat) (tau gamma N R : Rat) (a : Nat → Rat) (e : Rat)
    (hX : sumTo A (fun k => a k * kf k) ≠ 0) (s i : Nat) :
    (sirEffDeg A A tau gamma N (binomState A a e) R).1 s i
      = binomStateVel A a (sirCompactED A tau gamma N a R (e * sumTo A (fun k => a k * kf k))).1 e
          (((sirCompactED A tau gamma N a R (e * sumTo A (fun k => a k * kf k))).2.2
            - e * sumTo A (fun k => kf k * (sirCompactED A tau gamma N a R (e * sumTo A (fun k => a k * kf k))).1 k))
            / sumTo A (fun k => a k * kf k)) s i := by
  have hS := binomState_support A a e
  have hcl := binomState_closed A a e
  by_cases h : s + i < A
  swap
  · rw [sirEffDeg_support A tau gamma N _ R hS s i (by omega)]
    unfold binomStateVel; rw [if_neg h]
  have hr := closed_r1 A (binomState A a e) a e hS hcl hX
  have heff : e * sumTo A (fun k => a k * kf k) / sumTo A (fun k => a k * kf k) = e := mul_div_cancel_right₀ e hX
  have hde : ((sirCompactED A tau gamma N a R (e * sumTo A (fun k => a k * kf k))).2.2
      - e * sumTo A (fun k => kf k * (sirCompactED A tau gamma N a R (e * sumTo A (fun k => a k * kf k))).1 k))
      / sumTo A (fun k => a k * kf k)
      = tau * (effR1 A (binomState A a e) * (1 - e)) - (tau + gamma) * e * (1 - e) := by
    dsimp only [sirCompactED]
    rw [heff, kdS_sum, div_eq_iff hX]
    linear_combination (-tau) * hr
  rw [hde, sirEffDeg_fst A tau gamma N _ R hS, binomState_ip1, binomState_dn A a e s i h, binomState_val A a e s i h]
  unfold binomStateVel
  rw [if_pos h]
  dsimp only [sirCompactED]
  rw [heff]
  have hk : kf (s + i) = kf s + kf i := by simp [kf]
  rw [hk]
  have P1 := kf_pow_pred i e
  have P2 := kf_pow_pred s (1 - e)
  generalize (if s + i + 1 < A then kf (s + i + 1) * a (s + i + 1) else 0) = w
  generalize effR1 A (binomState A a e) = r1
  linear_combination ((tau + gamma) * a (s + i) * (Nat.choose (s + i) i : Rat) * (1 - e) ^ s * (1 - e)) * P1
    + (-(tau + gamma) * a (s + i) * (Nat.choose (s + i) i : Rat) * e ^ i * e
        + tau * r1 * a (s + i) * (Nat.choose (s + i) i : Rat) * e ^ i) * P2

/-! ### `binomStateVel` really is the derivative of `binomState` along a line of parameters -/
section Poly
open Polynomial

/-- the entry `(s,i)` of `binomState A (a + h·da) (e + h·de)` as a polynomial in `h` -/
noncomputable def binomStatePoly (A : Nat) (a da : Nat → Rat) (e de : Rat) (s i : Nat) : ℚ[X] :=
  if s + i < A then
    (C (a (s + i)) + C (da (s + i)) * X) * C (Nat.choose (s + i) i : Rat) * (C e + C de * X) ^ i
      * (C (1 - e) - C de * X) ^ s
  else 0

theorem binomStatePoly_eval (A : Nat) (a da : Nat → Rat) (e de h : Rat) (s i : Nat) :
    (binomStatePoly A a da e de s i).eval h = binomState A (fun k => a k + h * da k) (e + h * de) s i := by
  unfold binomStatePoly binomState
  split
  · simp [binom_eq_choose]; ring
  · simp

theorem binomStatePoly_derivative (A : Nat) (a da : Nat → Rat) (e de : Rat) (s i : Nat) :
    (derivative (binomStatePoly A a da e de s i)).eval 0 = binomStateVel A a da e de s i := by
  unfold binomStatePoly binomStateVel
  split
  · simp [derivative_mul, derivative_pow, kf]
    ring
  · simp

end Poly

/-! ## discrete preferential mixing with uncorrelated mixing (`EBCM_pref_mix_discrete` vs `EBCM_discrete`) -/

/-- `Σ_{d' ∈ l} (d' P_{d'}/⟨k⟩) · x ** (d'-1) = ψ'(x)/⟨k⟩` for a key list `l` containing every degree that carries
edges (the `d' = 0` key, where Python computes `x ** -1`, has coefficient 0) -/
theorem sumRat_nks_psiHP (K : Nat) (l : List Nat) (hl : l.Nodup) (hK : ∀ d ∈ l, d < K) (Pk : Nat → Rat)
    (h0 : ∀ d, d ∉ l → (d : Rat) * Pk d = 0) (kave : Rat) (th : Nat → Rat) (x : Rat) (hth : ∀ d ∈ l, th d = x) :
    sumRat (l.map fun d' : Nat => (d' : Rat) * Pk d' / kave * powPred (th d') d') = psiHP K Pk x / kave := by
  unfold psiHP
  rw [div_eq_mul_inv, ← sumTo_mul_right,
    sumTo_eq_sumRat_of_support K l hl hK (fun k => kf k * Pk k * x ^ (k - 1) * kave⁻¹)
      (fun d hd => by simp only [kf]; rw [h0 d hd]; ring)]
  apply sumRat_map_congr; intro d hd
  rw [hth d hd]; unfold powPred
  by_cases h : d = 0
  · subst h; simp [kf]
  · rw [if_neg h]; simp only [kf]; ring

/-- φ_S and φ_R as functions of the common θ (uncorrelated mixing, φ_S(0) = 1-ρ, φ_R(0) = 0) -/
def pmPhiS (K : Nat) (Pk : Nat → Rat) (rho x : Rat) : Rat := (1 - rho) * psiHP K Pk x / psiHP K Pk 1
def pmPhiR (p x : Rat) : Rat := (1 - p) * (1 - x) / p

/-- the degree-independent states: `θ_d = x`, `φR_d = (1-p)(1-x)/p`, `φI_d = x - φ_S(x) - φR_d` for every key `d` -/
def PMInv (ks : List Nat) (K : Nat) (Pk : Nat → Rat) (rho p : Rat) (st : PrefMixDiscState) (x : Rat) : Prop :=
  ∀ d ∈ ks, st.theta d = x ∧ st.phiR d = pmPhiR p x ∧ st.phiI d = x - pmPhiS K Pk rho x - pmPhiR p x

/-- the new θ of `EBCM_discrete` in the variables of the preferential-mixing code -/
theorem ebcmDiscreteStep_theta (K : Nat) (Pk : Nat → Rat) (N rho p x I R : Rat)
    (hp : p ≠ 0) (hmean : psiHP K Pk 1 ≠ 0) :
    (ebcmDiscreteStep K (fun k => (1 - rho) * Pk k) N p (1 - rho) 0 x I R).1
      = x - p * (x - pmPhiS K Pk rho x - pmPhiR p x) := by
  dsimp only [ebcmDiscreteStep, pmPhiS, pmPhiR]
  rw [psiHP_smul, psiHP_smul]
  field_simp
  ring

section PrefMixStep
variable (ks : List Nat) (hks : ks.Nodup) (K : Nat) (hK : ∀ d ∈ ks, d < K)
  (nks : Nat → List Nat) (hnd : ∀ d ∈ ks, (nks d).Nodup) (hsub : ∀ d ∈ ks, ∀ d' ∈ nks d, d' ∈ ks)
  (N rho p : Rat) (Pk : Nat → Rat) (hP0 : ∀ d, d ∉ ks → Pk d = 0)
  (hfull : ∀ d ∈ ks, ∀ d', d' ∉ nks d → (d' : Rat) * Pk d' = 0)
  (st : PrefMixDiscState) (x : Rat) (hinv : PMInv ks K Pk rho p st x)
include hks hK hnd hsub hP0 hfull hinv

/-- one pass of the preferential-mixing loop on a degree-independent state, in closed form -/
theorem prefMixDiscStep_on_inv (hp : p ≠ 0) :
    let th' := x - p * (x - pmPhiS K Pk rho x - pmPhiR p x)
    let st' := prefMixDiscStep ks nks N rho p Pk (fun _ d' => (d' : Rat) * Pk d' / psiHP K Pk 1) st
    PMInv ks K Pk rho p st' th' ∧ st'.S = N * (1 - rho) * psiH K Pk th' ∧ st'.R = st.R + st.I ∧
    st'.I = N - (st.R + st.I) - N * (1 - rho) * psiH K Pk th' ∧ ∀ d ∈ ks, st'.phiS d = pmPhiS K Pk rho th' := by
  intro th' st'
  have hnt : ∀ d ∈ ks, st.theta d - p * st.phiI d = th' := fun d hd => by
    rw [(hinv d hd).1, (hinv d hd).2.2]
  have hS : st'.S = N * (1 - rho) * psiH K Pk th' := by
    show N * (1 - rho) * sumRat (ks.map fun k => Pk k * (st.theta k - p * st.phiI k) ^ k) = _
    rw [sumRat_map_congr ks _ (fun d => Pk d * th' ^ d) (fun d hd => by rw [hnt d hd]),
      sumRat_ks_psiH K ks hks hK Pk hP0]
  have hphiS : ∀ d ∈ ks, st'.phiS d = pmPhiS K Pk rho th' := fun d hd => by
    show (1 - rho) * sumRat ((nks d).map fun k2 : Nat => (k2 : Rat) * Pk k2 / psiHP K Pk 1
      * powPred (st.theta k2 - p * st.phiI k2) k2) = _
    rw [sumRat_nks_psiHP K (nks d) (hnd d hd) (fun d' hd' => hK d' (hsub d hd d' hd')) Pk (hfull d hd)
      (psiHP K Pk 1) (fun k2 => st.theta k2 - p * st.phiI k2) th' (fun d' hd' => hnt d' (hsub d hd d' hd'))]
    unfold pmPhiS; ring
  have hphiR : ∀ d ∈ ks, st'.phiR d = pmPhiR p th' := fun d hd => by
    show st.phiR d + (1 - p) * st.phiI d = _
    rw [(hinv d hd).2.1, (hinv d hd).2.2]
    simp only [th']
    unfold pmPhiR
    field_simp
    ring
  refine ⟨fun d hd => ⟨hnt d hd, hphiR d hd, ?_⟩, hS, rfl, ?_, hphiS⟩
  · show st.theta d - p * st.phiI d - st'.phiS d - st'.phiR d = _
    rw [hnt d hd, hphiS d hd, hphiR d hd]
  · show N - (st.R + st.I) - st'.S = _
    rw [hS]

/-- one pass of `EBCM_pref_mix_discrete` on a degree-independent state = one pass of `EBCM_discrete` -/
theorem ebcmDiscrete_prefmix_step_aux (hp : p ≠ 0) (hmean : psiHP K Pk 1 ≠ 0) :
    let st' := prefMixDiscStep ks nks N rho p Pk (fun _ d' => (d' : Rat) * Pk d' / psiHP K Pk 1) st
    let e := ebcmDiscreteStep K (fun k => (1 - rho) * Pk k) N p (1 - rho) 0 x st.I st.R
    PMInv ks K Pk rho p st' e.1 ∧ st'.S = e.2.1 ∧ st'.I = e.2.2.1 ∧ st'.R = e.2.2.2 ∧
    ∀ d ∈ ks, st'.phiS d = pmPhiS K Pk rho e.1 := by
  intro st' e
  have h := prefMixDiscStep_on_inv ks hks K hK nks hnd hsub N rho p Pk hP0 hfull st x hinv hp
  have e1 : e.1 = x - p * (x - pmPhiS K Pk rho x - pmPhiR p x) :=
    ebcmDiscreteStep_theta K Pk N rho p x st.I st.R hp hmean
  have e2 : e.2.1 = N * psiH K (fun k => (1 - rho) * Pk k) e.1 := rfl
  have e3 : e.2.2.1 = N - (st.R + st.I) - e.2.1 := rfl
  have e4 : e.2.2.2 = st.R + st.I := rfl
  rw [e3, e4, e2, e1, psiH_smul]
  obtain ⟨a, b, c, d, f⟩ := h
  exact ⟨a, by rw [b]; ring, by rw [d]; ring, c, f⟩

end PrefMixStep

/-- the state before the loop of `EBCM_pref_mix_discrete` is degree-independent with θ = 1 -/
theorem prefMixDiscInit_inv (ks : List Nat) (K : Nat) (Pk : Nat → Rat) (N rho p : Rat) (hmean : psiHP K Pk 1 ≠ 0) :
    PMInv ks K Pk rho p (prefMixDiscInit N rho) 1 := by
  intro d _
  refine ⟨rfl, ?_, ?_⟩
  · show (0 : Rat) = pmPhiR p 1
    unfold pmPhiR; simp
  · show rho = 1 - pmPhiS K Pk rho 1 - pmPhiR p 1
    unfold pmPhiR pmPhiS
    rw [mul_div_assoc, div_self hmean]; simp

/-- whole trajectories: `EBCM_pref_mix_discrete` with uncorrelated mixing = `EBCM_discrete` -/
theorem ebcmDiscrete_prefmix_run_aux (ks : List Nat) (hks : ks.Nodup) (K : Nat) (hK : ∀ d ∈ ks, d < K)
    (nks : Nat → List Nat) (hnd : ∀ d ∈ ks, (nks d).Nodup) (hsub : ∀ d ∈ ks, ∀ d' ∈ nks d, d' ∈ ks)
    (N rho p : Rat) (Pk : Nat → Rat) (hP0 : ∀ d, d ∉ ks → Pk d = 0)
    (hfull : ∀ d ∈ ks, ∀ d', d' ∉ nks d → (d' : Rat) * Pk d' = 0)
    (hp : p ≠ 0) (hmean : psiHP K Pk 1 ≠ 0) (hsum : psiH K Pk 1 = 1) (n : Nat) :
    let st := prefMixDiscRun ks nks N rho p Pk (fun _ d' => (d' : Rat) * Pk d' / psiHP K Pk 1) n
    let y := ebcmDiscRun K (fun k => (1 - rho) * Pk k) N p (1 - rho) 0 0 n
    PMInv ks K Pk rho p st y.1 ∧ st.S = y.2.1 ∧ st.I = y.2.2.1 ∧ st.R = y.2.2.2 := by
  induction n with
  | zero =>
    refine ⟨prefMixDiscInit_inv ks K Pk N rho p hmean, ?_, ?_, rfl⟩
    · show N * (1 - rho) = N * psiH K (fun k => (1 - rho) * Pk k) 1
      rw [psiH_smul, hsum]; ring
    · show N * rho = N - N * psiH K (fun k => (1 - rho) * Pk k) 1 - 0
      rw [psiH_smul, hsum]; ring
  | succ n ih =>
    obtain ⟨i1, _, i3, i4⟩ := ih
    have h := ebcmDiscrete_prefmix_step_aux ks hks K hK nks hnd hsub N rho p Pk hP0 hfull _ _ i1 hp hmean
    rw [i3, i4] at h
    exact ⟨h.1, h.2.1, h.2.2.1, h.2.2.2.1⟩

end ODE
