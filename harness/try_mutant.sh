#!/bin/bash
# usage: try_mutant.sh <dir with patch.diff and demo.py> <property ids...>
# confirms the demo (PASS on /repo, FAIL with patch), applies the patch to /repo, runs the given checks, reverts.
d=$1; shift
cd /repo || exit 2
git diff --quiet || { echo "repo dirty"; exit 2; }
echo "== demo on original:"; PYTHONPATH=/repo /venv/bin/python $d/demo.py 2>&1 | tail -2; echo "exit=$?"
git apply $d/patch.diff || { echo "patch does not apply"; exit 2; }
echo "== demo on mutant:"; PYTHONPATH=/repo /venv/bin/python $d/demo.py 2>&1 | tail -2
cd /verif
for p in "$@"; do
  for s in 0 1; do
    VERIF_SEED=$s /venv/bin/python harness/check.py $p --tier ${TIER:-quick} 2>&1 | grep -E "VIOLATION|quick:|thorough:|Traceback" | cut -c1-200
  done
done
git -C /repo checkout -- .
# the checks regenerate lean/EoNVerif/Gen/*.lean from /repo: bring them back to the clean tree
for t in py2lean py2lean_loops pyclass2lean pyfunc2lean pyevent2lean pyinit2lean pyinvest2lean pysimple2lean pydisc2lean pyperc2lean pyargs2lean pyfsir2lean pyglue2lean pyhelp2lean pymat2lean pywrap2lean pyglue3lean pypm2lean pysi2lean; do /venv/bin/python /verif/harness/$t.py >/dev/null 2>&1; done
git -C /repo diff --quiet && echo "== repo restored"
# evidence files written while the mutant was applied describe the mutated tree: bring back the committed ones
git -C /verif checkout -- evidence 2>/dev/null
