#!/usr/bin/env python3
"""stand-alone runner of the generated-code stream of harness/genglue2.py:  test_genglue2.py [quick|thorough] [seed] [fn ...]"""
import sys, os, time, json
sys.path.insert(0, os.path.dirname(os.path.abspath(__file__)))
import common, genglue2


def main():
    tier = sys.argv[1] if len(sys.argv) > 1 else "quick"
    seed = int(sys.argv[2]) if len(sys.argv) > 2 else 1
    only = set(sys.argv[3:]) or None
    ctx = common.Ctx("C06", tier, seed)
    t0 = time.time()
    genglue2.run_stream(ctx, only=only)
    dt = time.time() - t0
    for k in sorted(ctx.hist):
        print("  %-70s %d" % (k, ctx.hist[k]))
    for stream, rep in ctx.disagreements[:12]:
        print("DISAGREEMENT", stream, json.dumps(rep, default=str)[:700])
    print("test_genglue2: tier=%s seed=%d cases=%d distinct=%d disagreements=%d  (%.1f s)"
          % (tier, seed, ctx.evaluations, len(ctx.nontrivial), len(ctx.disagreements), dt))
    return 1 if ctx.disagreements else 0


if __name__ == "__main__":
    sys.exit(main())
