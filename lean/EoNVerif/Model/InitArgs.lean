import EoNVerif.Model.Tape
/-!
Argument normalisation shared by every SIR/SIS simulator (e.g. simulation.py 3148–3158):

    if initial_infecteds is None:
        if rho is None: initial_number = 1
        else: initial_number = int(round(G.order()*rho))
        initial_infecteds = random.sample(list(G), initial_number)
    elif G.has_node(initial_infecteds): initial_infecteds = [initial_infecteds]

and the both-given test `rho is not None and initial_infecteds is not None → EoNError`.
-/

/-- the ways a caller can specify the initially infected nodes -/
inductive InitSpec
  | nodes (l : List Node)       -- any sized collection of nodes
  | single (u : Node)           -- a single node of G
  | rho (r : Rat)               -- fraction
  | default                     -- neither given
  | both (l : List Node) (r : Rat)   -- both given: must be rejected
deriving Repr

namespace InitArgs

/-- Python's `round` on an exactly represented value: round half to even -/
def roundHalfEven (x : Rat) : Int :=
  let f := x.floor
  let d := x - f
  if d < 1/2 then f else if d > 1/2 then f + 1 else if f % 2 = 0 then f else f + 1

/-- the normalised list of initially infected nodes (indices into `list(G)`), or an error -/
def normInit (n : Nat) : InitSpec → TM (List Node)
  | .nodes l => pure l
  | .single u => pure [u]
  | .default => TM.popSample n 1
  | .rho r =>
    let k := roundHalfEven ((n : Rat) * r)
    if k < 0 then TM.fail "ValueError" else TM.popSample n k.toNat
  | .both _ _ => TM.fail "EoNError"

end InitArgs
