import EoNVerif.Proofs.GenWrap3
import EoNVerif.Props.C06g
/-!
C06h — continuation of C06e / C06g for the `*_from_graph` wrappers of `EoN/analytic.py` GENERATED into
`Gen/WrapGen.lean` that those files do not cover.  Lemmas: `Proofs/GenWrap3.lean`.  Hypotheses and vocabulary as in
C06e / C06g: `GraphOK A.toIArgs adj`, `GraphOKW A adj` (= `GraphOK` + "`G.neighbors(u)` is the adjacency list of `u`"),
`SetsOK adj infs recs` (disjoint lists of graph nodes), `N = adj.length`, `Sk0G adj st` = `[cS(k)/N_k]_{k=0..maxdeg}`,
`psiHatV Pk v x = Σ_{k∈Pk} Pk[k]·v[k]·x^k`, `psiHatPV` its derivative, `degS` = Σ of the degrees of the susceptible
nodes (`SX`), `gI n = if n = 0 then 1 else n`, `psiK Pk x = Σ_k Pk[k]x^k`, `psiKP` its derivative; from C08c:
`thetaMap`, `omegaMap`, `psiHatAL`, `psiHatPAL`, `resolvePhiS0`, `effSk0`.

Covered: `Attack_rate_discrete_from_graph`, `Attack_rate_cts_time_from_graph`, `EBCM_discrete_from_graph` (argument records,
exceptions, composition with the generated `GenHelp` base functions), the `rho` / default branch of
`SIR_compact_effective_degree_from_graph` (record, exceptions, total, end to end), full data of
`SIR_compact_pairwise_from_graph`, `psihatPrime` of the `rho` branch of `EBCM_from_graph`.
NOT covered (no statement here): the explicit-sets branch of `SIR_compact_effective_degree_from_graph` (only a kernel-checked
run on `exW`), `SIS/SIR_super_compact_pairwise_from_graph`, `SIS/SIR_effective_degree_from_graph`,
`EBCM_pref_mix(_discrete)_from_graph`.
-/
namespace GenWrapProps3
open GenInit InitCond GenInitProofs GenWrap GenWrapProofs GenWrapProofs2 GenWrapProofs3 GenGlueProofs GenWrapProps
open GenWrapProps2
open GenHelpProofs (PkAL psiHatAL psiHatPAL thetaMap omegaMap resolvePhiS0 kAveAL)
open Gen PyGlue

/-! ## 0. the degree distribution and the susceptible fractions of the graph -/

/-- the graph's own `ψ̂(x) = Σ_k Pk[k]·Sk0[k]·x^k`, `Pk[k] = N_k/N`, `Sk0[k]` = susceptible fraction of degree class `k` -/
def psiHatG (adj : List (List Nat)) (st : Nat → St) : Rat → Rat :=
  psiHatV (PkAL (adj.map (·.length))) (Sk0G adj st)
/-- its derivative `Σ_{k>0} k·Pk[k]·Sk0[k]·x^(k-1)` -/
def psiHatPG (adj : List (List Nat)) (st : Nat → St) : Rat → Rat :=
  psiHatPV (PkAL (adj.map (·.length))) (Sk0G adj st)
/-- `phiS0` / `phiR0` of the graph: (number of ordered neighbour pairs (S,x)) / (degree sum of the susceptible nodes, 1
when that is 0) -/
def phiG (adj : List (List Nat)) (st : Nat → St) (x : St) : Rat :=
  (pairCount adj st St.S x : Rat) / (gI (degS adj st) : Rat)

/-- what the dict `Pk` and the array `Sk0` contain: keys of `Pk` = the degrees present, `Pk[k] = N_k/N`,
`Sk0[k] = (number of susceptible nodes of degree k)/N_k` for `k ≤ maxdeg` -/
theorem Pk_Sk0_graph (adj : List (List Nat)) (st : Nat → St) :
    (PkAL (adj.map (·.length))).map (·.1) = (adj.map (·.length)).eraseDups ∧
    (∀ k, alGet (PkAL (adj.map (·.length))) 0 k = (Nk adj k : Rat) / (adj.length : Rat)) ∧
    (Sk0G adj st).length = maxDeg adj + 1 ∧
    (∀ k, k ≤ maxDeg adj → (Sk0G adj st).getD k 0 = (classCount adj st St.S k : Rat) / (Nk adj k : Rat)) := by
  refine ⟨GenHelpProofs.PkAL_keys _, fun k => ?_, vec_length _ _, fun k hk => vec_getD _ _ k hk⟩
  rw [GenHelpProofs.PkAL_get, Helpers.Pk, countEq_degs, List.length_map]

/-- **the link to C08c**: the graph's ψ̂, ψ̂' are C08c's `psiHatAL`, `psiHatPAL` for the dict the composed wrappers build
from the array (`alGet (vecToDict v) 0 k = v.getD k 0`) -/
theorem psiHatG_eq_AL (adj : List (List Nat)) (st : Nat → St) :
    psiHatG adj st = psiHatAL (PkAL (adj.map (·.length))) (PyWrap.vecToDict (Sk0G adj st)) ∧
    psiHatPG adj st = psiHatPAL (PkAL (adj.map (·.length))) (PyWrap.vecToDict (Sk0G adj st)) :=
  ⟨psiHatV_eq_AL _ _, psiHatPV_eq_PAL _ _⟩

theorem vecToDict_get (v : List Rat) (k : Nat) :
    alGet (PyWrap.vecToDict v) 0 k = v.getD k 0 ∧ alHas (PyWrap.vecToDict v) k = decide (k < v.length) :=
  ⟨alGet_vecToDict v k, alHas_vecToDict v k⟩

/-- `N·ψ̂(1)` is the number of susceptible nodes -/
theorem psiHatG_one (adj : List (List Nat)) (st : Nat → St) (hN : adj.length ≠ 0) :
    (adj.length : Rat) * psiHatG adj st 1 = (count adj st St.S : Rat) := psiHat_one adj st hN

theorem phiOf_graph (A : WArgs) (adj : List (List Nat)) (hW : GraphOKW A adj) (st : Node → St) (x : St) :
    phiOf A st x = phiG adj st x := by
  unfold phiOf phiG
  rw [sumS_nb A adj hW, sumS_deg A adj hW.toGraphOK]

/-! ## 1. `Attack_rate_discrete_from_graph`, `Attack_rate_cts_time_from_graph`: the argument records -/

/-- (A) explicit disjoint sets of graph nodes: the dict `Pk` of the graph, `rho = None`, the ARRAY `Sk0` of susceptible
fractions per degree class, `phiS0 = SS/SX`, `phiR0 = SR/SX` -/
theorem Attack_rate_discrete_args_spec (A : WArgs) (adj : List (List Nat)) (hW : GraphOKW A adj) (p : Rat)
    (infs : List Node) (recs : Option (List Node)) (hS : SetsOK adj infs (recs.getD [])) (hN : adj.length ≠ 0) (n : Int) :
    Attack_rate_discrete_from_graph_args A p (some infs) recs none n =
      .ok { Pk := PkAL (adj.map (·.length)), p := p, rho := none,
            Sk0 := some (Sk0G adj (statusOf infs (recs.getD []))),
            phiS0 := some (phiG adj (statusOf infs (recs.getD [])) St.S),
            phiR0 := some (phiG adj (statusOf infs (recs.getD [])) St.R), number_its := n } := by
  have hG := hW.toGraphOK
  have hst := C06c.gen_status_eq A.toIArgs adj hG.hasNode infs (recs.getD []) hS.disj hS.infIn hS.recIn
  rw [ARd_sets A p infs recs n _ hst (nodes_ne_nil A adj hG hN), phiOf_graph A adj hW, phiOf_graph A adj hW,
    Sk0fin_graph A adj hG, degs_eq A.toIArgs adj hG]

theorem Attack_rate_cts_time_args_spec (A : WArgs) (adj : List (List Nat)) (hW : GraphOKW A adj) (tau gamma : Rat)
    (infs : List Node) (recs : Option (List Node)) (hS : SetsOK adj infs (recs.getD [])) (hN : adj.length ≠ 0) (n : Int) :
    Attack_rate_cts_time_from_graph_args A tau gamma (some infs) recs none n =
      .ok { Pk := PkAL (adj.map (·.length)), tau := tau, gamma := gamma, number_its := n, rho := none,
            Sk0 := some (Sk0G adj (statusOf infs (recs.getD []))),
            phiS0 := some (phiG adj (statusOf infs (recs.getD [])) St.S),
            phiR0 := some (phiG adj (statusOf infs (recs.getD [])) St.R) } := by
  have hG := hW.toGraphOK
  have hst := C06c.gen_status_eq A.toIArgs adj hG.hasNode infs (recs.getD []) hS.disj hS.infIn hS.recIn
  rw [ARc_sets A tau gamma infs recs n _ hst (nodes_ne_nil A adj hG hN), phiOf_graph A adj hW, phiOf_graph A adj hW,
    Sk0fin_graph A adj hG, degs_eq A.toIArgs adj hG]

/-- (A) without `initial_infecteds`: only `Pk` is read from the graph; `rho` is handed on AS GIVEN (`None` stays `None`:
these two wrappers have no default `rho = 1/N`), `Sk0 = phiS0 = None`, `phiR0 = 0`; an `initial_recovereds` given
without `rho` is ignored -/
theorem Attack_rate_args_rho (A : WArgs) (adj : List (List Nat)) (hG : GraphOK A.toIArgs adj) (p tau gamma : Rat)
    (recs : Option (List Node)) (rho : Option Rat) (hrr : ¬ (rho.isSome ∧ recs.isSome)) (n : Int) :
    Attack_rate_discrete_from_graph_args A p none recs rho n =
      .ok { Pk := PkAL (adj.map (·.length)), p := p, rho := rho, Sk0 := none, phiS0 := none, phiR0 := some 0,
            number_its := n } ∧
    Attack_rate_cts_time_from_graph_args A tau gamma none recs rho n =
      .ok { Pk := PkAL (adj.map (·.length)), tau := tau, gamma := gamma, number_its := n, rho := rho, Sk0 := none,
            phiS0 := none, phiR0 := some 0 } := by
  have := AR_none A p tau gamma recs rho hrr n
  rw [degs_eq A.toIArgs adj hG] at this
  exact this

/-- (B) the exceptions with the precedence of the generated code: `EoNError` for `rho` with a set; then the `EoNError`
of the status builder (overlap / node outside the graph); then ValueError (`max` of no degrees) on a graph without
nodes; without `initial_infecteds` NEVER an exception (the empty graph included: `Pk = {}`) -/
theorem Attack_rate_args_error (A : WArgs) (p tau gamma : Rat) (n : Int) :
    (∀ infs recs r, infs.isSome ∨ recs.isSome →
      Attack_rate_discrete_from_graph_args A p infs recs (some r) n = .error "EoNError" ∧
      Attack_rate_cts_time_from_graph_args A tau gamma infs recs (some r) n = .error "EoNError") ∧
    (∀ infs recs e, initialize_node_status A.toIArgs infs (recs.getD []) = .error e →
      Attack_rate_discrete_from_graph_args A p (some infs) recs none n = .error e ∧
      Attack_rate_cts_time_from_graph_args A tau gamma (some infs) recs none n = .error e) ∧
    (∀ infs recs st, initialize_node_status A.toIArgs infs (recs.getD []) = .ok st → A.nodes = [] →
      Attack_rate_discrete_from_graph_args A p (some infs) recs none n = .error "ValueError" ∧
      Attack_rate_cts_time_from_graph_args A tau gamma (some infs) recs none n = .error "ValueError") ∧
    (∀ recs rho, ¬ (rho.isSome ∧ recs.isSome) →
      (∃ a, Attack_rate_discrete_from_graph_args A p none recs rho n = .ok a) ∧
      (∃ a, Attack_rate_cts_time_from_graph_args A tau gamma none recs rho n = .ok a)) := by
  refine ⟨fun infs recs r h => AR_both A p tau gamma infs recs r n h,
    fun infs recs e he => (AR_sets_error A p tau gamma infs recs n).1 e he,
    fun infs recs st hst hN => (AR_sets_error A p tau gamma infs recs n).2 st hst hN,
    fun recs rho hrr => ?_⟩
  obtain ⟨h1, h2⟩ := AR_none A p tau gamma recs rho hrr n
  exact ⟨⟨_, h1⟩, ⟨_, h2⟩⟩

/-- (C) every non-error case of the explicit-sets request: `Σ_k Pk[k]·Sk0[k]` is the susceptible fraction of the graph
(`N·ψ̂(1)` = number of susceptible nodes), every key of `Pk` is an index of the array `Sk0`, and
`SS + SR ≤ SX`-type bound: `phiS0`, `phiR0` are quotients by the same positive divisor -/
theorem Attack_rate_discrete_args_total (A : WArgs) (adj : List (List Nat)) (hW : GraphOKW A adj) (p : Rat)
    (infs : List Node) (recs : Option (List Node)) (n : Int) (a : Attack_rate_discrete_Args)
    (h : Attack_rate_discrete_from_graph_args A p (some infs) recs none n = .ok a) :
    SetsOK adj infs (recs.getD []) ∧ adj.length ≠ 0 ∧ a.rho = none ∧ a.Pk = PkAL (adj.map (·.length)) ∧
    ∃ v, a.Sk0 = some v ∧ v.length = maxDeg adj + 1 ∧
      (adj.length : Rat) * psiHatAL a.Pk (PyWrap.vecToDict v) 1 = (count adj (statusOf infs (recs.getD [])) St.S : Rat) ∧
      (∀ k ∈ a.Pk.map (·.1), alHas (PyWrap.vecToDict v) k = true) := by
  have hG := hW.toGraphOK
  cases hst : initialize_node_status A.toIArgs infs (recs.getD []) with
  | error e => rw [((AR_sets_error A p 0 0 infs recs n).1 e hst).1] at h; cases h
  | ok st =>
    obtain ⟨d, i, r⟩ := (C06c.gen_status_ok_iff A.toIArgs adj hG.hasNode infs (recs.getD [])).mp ⟨st, hst⟩
    have hS : SetsOK adj infs (recs.getD []) := ⟨d, i, r⟩
    have hN : adj.length ≠ 0 := by
      intro e
      rw [((AR_sets_error A p 0 0 infs recs n).2 st hst (nodes_eq_nil A adj hG e)).1] at h; cases h
    rw [Attack_rate_discrete_args_spec A adj hW p infs recs hS hN n] at h
    injection h with h; subst h
    refine ⟨hS, hN, rfl, rfl, _, rfl, vec_length _ _, ?_, ?_⟩
    · rw [← psiHatV_eq_AL]; exact psiHat_one adj _ hN
    · intro k hk
      rw [alHas_vecToDict, decide_eq_true_eq]
      have := Helpers.le_maxDeg _ k (keys_PkAL_mem _ k hk)
      show k < (vec _ _).length
      rw [vec_length]
      unfold maxDeg; unfold Helpers.maxDeg at this; omega

/-! ## 2. the attack-rate wrappers composed with the generated `GenHelp.Attack_rate_*` (through C08c) -/

theorem keys_in_Sk0G (adj : List (List Nat)) (st : Nat → St) :
    ∀ k ∈ (PkAL (adj.map (·.length))).map (·.1), alHas (PyWrap.vecToDict (Sk0G adj st)) k = true := by
  intro k hk
  rw [alHas_vecToDict, decide_eq_true_eq]
  have := Helpers.le_maxDeg _ k (keys_PkAL_mem _ k hk)
  show k < (vec _ _).length
  rw [vec_length]
  unfold maxDeg; unfold Helpers.maxDeg at this; omega

/-- (D) **explicit sets: the attack rate returned is `1 − ψ̂(θ_n)` for the graph's own ψ̂**, `θ_0 = 1`,
`θ_{j+1} = 1 − p + p(φR + φS·ψ̂'(θ_j)/g)`, `g = ψ̂'(1)` (1 when that is 0), `n = number_its` (`Int.toNat`: a negative
`number_its` runs no iteration) — and NO exception is possible (no KeyError: every key of `Pk` is an index of `Sk0`;
no ZeroDivisionError: `phiS0` is given) -/
theorem Attack_rate_discrete_from_graph_sets (A : WArgs) (adj : List (List Nat)) (hW : GraphOKW A adj) (p : Rat)
    (infs : List Node) (recs : Option (List Node)) (hS : SetsOK adj infs (recs.getD [])) (hN : adj.length ≠ 0) (n : Int) :
    Attack_rate_discrete_from_graph A p (some infs) recs none n =
      .ok (1 - psiHatG adj (statusOf infs (recs.getD []))
        ((thetaMap (psiHatPG adj (statusOf infs (recs.getD []))) p (phiG adj (statusOf infs (recs.getD [])) St.S)
          (phiG adj (statusOf infs (recs.getD [])) St.R))^[n.toNat] 1)) := by
  unfold Attack_rate_discrete_from_graph
  rw [Attack_rate_discrete_args_spec A adj hW p infs recs hS hN n]
  simp only [GenHelpProofs.ok_bind, Option.map_some]
  rw [GenHelpFinal.gen_Attack_rate_discrete_spec _ p none _ _ _ _ (Or.inl rfl) (fun h => by cases h)
    (fun d hd => by injection hd with hd; subst hd; exact keys_in_Sk0G adj _)]
  simp only [GenHelpFinal.effSk0, resolvePhiS0, GenHelpProofs.ok_bind, Option.getD_some,
    ← (psiHatG_eq_AL adj _).1, ← (psiHatG_eq_AL adj _).2]

/-- (D) continuous time: ZeroDivisionError iff `gamma + tau = 0`, else `1 − ψ̂(ω_n)`, `ω_0 = γ/(γ+τ)`,
`ω_{j+1} = γ/(γ+τ) + τ φS ψ̂'(ω_j)/(g (γ+τ)) + τ φR/(γ+τ)` -/
theorem Attack_rate_cts_time_from_graph_sets (A : WArgs) (adj : List (List Nat)) (hW : GraphOKW A adj) (tau gamma : Rat)
    (infs : List Node) (recs : Option (List Node)) (hS : SetsOK adj infs (recs.getD [])) (hN : adj.length ≠ 0) (n : Int) :
    Attack_rate_cts_time_from_graph A tau gamma (some infs) recs none n =
      if gamma + tau = 0 then .error "ZeroDivisionError" else
      .ok (1 - psiHatG adj (statusOf infs (recs.getD []))
        ((omegaMap (psiHatPG adj (statusOf infs (recs.getD []))) tau gamma (phiG adj (statusOf infs (recs.getD [])) St.S)
          (phiG adj (statusOf infs (recs.getD [])) St.R))^[n.toNat] (gamma / (gamma + tau)))) := by
  unfold Attack_rate_cts_time_from_graph
  rw [Attack_rate_cts_time_args_spec A adj hW tau gamma infs recs hS hN n]
  simp only [GenHelpProofs.ok_bind, Option.map_some]
  rw [GenHelpFinal.gen_Attack_rate_cts_time_spec _ tau gamma _ none _ _ _ (Or.inl rfl)
    (fun d hd => by injection hd with hd; subst hd; exact keys_in_Sk0G adj _)]
  simp only [GenHelpFinal.effSk0, resolvePhiS0, GenHelpProofs.ok_bind, Option.getD_some,
    ← (psiHatG_eq_AL adj _).1, ← (psiHatG_eq_AL adj _).2]

/-- the composed wrappers raise exactly the exceptions of the argument builder in the explicit-sets request -/
theorem Attack_rate_from_graph_error (A : WArgs) (p tau gamma : Rat) (infs recs : Option (List Node))
    (rho : Option Rat) (n : Int) (e : String) :
    (Attack_rate_discrete_from_graph_args A p infs recs rho n = .error e →
      Attack_rate_discrete_from_graph A p infs recs rho n = .error e) ∧
    (Attack_rate_cts_time_from_graph_args A tau gamma infs recs rho n = .error e →
      Attack_rate_cts_time_from_graph A tau gamma infs recs rho n = .error e) := by
  constructor <;> intro h
  · unfold Attack_rate_discrete_from_graph; rw [h]; rfl
  · unfold Attack_rate_cts_time_from_graph; rw [h]; rfl

/-- (D) without `initial_infecteds`, discrete time.  `rho ∈ {None, 0}`: the wrapper returns
`Epi_Prob_discrete(Pk, p, number_its)` (the early return of the base function; C08c `gen_Epi_Prob_discrete_spec`).
`rho ≠ 0`: ZeroDivisionError on a graph without edges (the default `phiS0 = ψ̂'(1)/Σ k Pk[k]`), else
`1 − (1-rho)ψ(θ_n)` with `ψ̂ = (1-rho)ψ`, `φS = 1-rho` (the default resolves to exactly `1-rho`), `φR = 0` -/
theorem Attack_rate_discrete_from_graph_rho (A : WArgs) (adj : List (List Nat)) (hG : GraphOK A.toIArgs adj) (p : Rat)
    (recs : Option (List Node)) (rho : Option Rat) (hrr : ¬ (rho.isSome ∧ recs.isSome)) (n : Int) :
    ((rho = none ∨ rho = some 0) → Attack_rate_discrete_from_graph A p none recs rho n =
      GenHelp.Epi_Prob_discrete (PkAL (adj.map (·.length))) p n.toNat) ∧
    (∀ r, rho = some r → r ≠ 0 → Attack_rate_discrete_from_graph A p none recs rho n =
      if twoM adj = 0 then .error "ZeroDivisionError" else
      .ok (1 - (1 - r) * psiK (PkAL (adj.map (·.length)))
        ((thetaMap (fun x => (1 - r) * psiKP (PkAL (adj.map (·.length))) x) p (1 - r) 0)^[n.toNat] 1))) := by
  have ha := (Attack_rate_args_rho A adj hG p 0 0 recs rho hrr n).1
  constructor
  · intro hr
    unfold Attack_rate_discrete_from_graph
    rw [ha]
    simp only [GenHelpProofs.ok_bind, Option.map_none]
    exact GenHelpFinal.gen_Attack_rate_discrete_early _ p rho hr _ _ _
  · intro r hr hr0
    subst hr
    unfold Attack_rate_discrete_from_graph
    rw [ha]
    simp only [GenHelpProofs.ok_bind, Option.map_none]
    rw [GenHelpFinal.gen_Attack_rate_discrete_spec _ p (some r) none none (some 0) _ (Or.inr rfl)
      (fun _ => ⟨r, rfl, hr0⟩) (fun d hd => by cases hd)]
    simp only [GenHelpFinal.effSk0, Option.getD_some, (psiHatAL_const _ (1 - r)).1, (psiHatAL_const _ (1 - r)).2,
      psiKP_one, resolvePhiS0, kAveAL_PkAL]
    have hm : meanK (adj.map (·.length)) = (twoM adj : Rat) / (adj.length : Rat) := by
      have := meanK_graph A.toIArgs adj hG
      rwa [degs_eq A.toIArgs adj hG] at this
    by_cases hE : twoM adj = 0
    · have : meanK (adj.map (·.length)) = 0 := by rw [hm, hE]; simp
      simp [hE, this]
    · have hN : adj.length ≠ 0 := by
        intro e
        apply hE
        have : adj = [] := List.length_eq_zero_iff.mp e
        subst this; rfl
      have hmz : meanK (adj.map (·.length)) ≠ 0 := by
        rw [hm]
        have h1 : (twoM adj : Rat) ≠ 0 := by exact_mod_cast hE
        have h2 : (adj.length : Rat) ≠ 0 := by exact_mod_cast hN
        exact div_ne_zero h1 h2
      simp only [hE, hmz, if_false, GenHelpProofs.ok_bind]
      rw [mul_div_assoc, div_self hmz, mul_one]

/-- (D) without `initial_infecteds`, continuous time: `rho = None` counts as `rho = 0` (no early return); ZeroDivisionError
on a graph without edges, then iff `gamma + tau = 0`; else `1 − (1-rho)ψ(ω_n)` -/
theorem Attack_rate_cts_time_from_graph_rho (A : WArgs) (adj : List (List Nat)) (hG : GraphOK A.toIArgs adj)
    (tau gamma : Rat) (recs : Option (List Node)) (rho : Option Rat) (hrr : ¬ (rho.isSome ∧ recs.isSome)) (n : Int) :
    Attack_rate_cts_time_from_graph A tau gamma none recs rho n =
      if twoM adj = 0 then .error "ZeroDivisionError" else
      if gamma + tau = 0 then .error "ZeroDivisionError" else
      .ok (1 - (1 - rho.getD 0) * psiK (PkAL (adj.map (·.length)))
        ((omegaMap (fun x => (1 - rho.getD 0) * psiKP (PkAL (adj.map (·.length))) x) tau gamma (1 - rho.getD 0) 0)^[n.toNat]
          (gamma / (gamma + tau)))) := by
  have ha := (Attack_rate_args_rho A adj hG 0 tau gamma recs rho hrr n).2
  unfold Attack_rate_cts_time_from_graph
  rw [ha]
  simp only [GenHelpProofs.ok_bind, Option.map_none]
  rw [GenHelpFinal.gen_Attack_rate_cts_time_spec _ tau gamma _ rho none none (some 0) (Or.inr rfl)
    (fun d hd => by cases hd)]
  simp only [GenHelpFinal.effSk0, Option.getD_some, (psiHatAL_const _ (1 - rho.getD 0)).1,
    (psiHatAL_const _ (1 - rho.getD 0)).2, psiKP_one, resolvePhiS0, kAveAL_PkAL]
  have hm : meanK (adj.map (·.length)) = (twoM adj : Rat) / (adj.length : Rat) := by
    have := meanK_graph A.toIArgs adj hG
    rwa [degs_eq A.toIArgs adj hG] at this
  by_cases hE : twoM adj = 0
  · have : meanK (adj.map (·.length)) = 0 := by rw [hm, hE]; simp
    simp [hE, this]
  · have hN : adj.length ≠ 0 := by
      intro e
      apply hE
      have : adj = [] := List.length_eq_zero_iff.mp e
      subst this; rfl
    have hmz : meanK (adj.map (·.length)) ≠ 0 := by
      rw [hm]
      have h1 : (twoM adj : Rat) ≠ 0 := by exact_mod_cast hE
      have h2 : (adj.length : Rat) ≠ 0 := by exact_mod_cast hN
      exact div_ne_zero h1 h2
    simp only [hE, hmz, if_false, GenHelpProofs.ok_bind]
    rw [mul_div_assoc, div_self hmz, mul_one]

/-! ## 3. `EBCM_discrete_from_graph` -/

/-- (A) explicit disjoint sets of graph nodes: `N`, `R0` = number of recovered nodes, `phiS0 = SS/SX`, `phiR0 = SR/SX`,
`psihat(x) = Σ_k Pk[k]·Sk0[k]·x^k/Nk[k]` = the graph's ψ̂ for ALL `x` (here `Sk0[k]` COUNTS the susceptible nodes of
degree `k` and each term is divided by `Nk[k]`), `psihatPrime` = ψ̂' for ALL `x` as well — `x = 0` and graphs with isolated
nodes included: the sum skips `k = 0` (`… for k in Pk if k>0`), so `0.0 ** (-1)` is never evaluated and `psihatPrime`
NEVER raises; `N·psihat(1)` = number of susceptible nodes -/
theorem EBCM_discrete_args_spec (A : WArgs) (adj : List (List Nat)) (hW : GraphOKW A adj) (p : Rat)
    (infs : List Node) (recs : Option (List Node)) (hS : SetsOK adj infs (recs.getD [])) (hN : adj.length ≠ 0)
    (tmin tmax : Int) (full : Bool) :
    ∃ a, EBCM_discrete_from_graph_args A p (some infs) recs none tmin tmax full = .ok a ∧
      a.N = (adj.length : Rat) ∧
      a.R0 = (count adj (statusOf infs (recs.getD [])) St.R : Rat) ∧
      a.phiS0 = phiG adj (statusOf infs (recs.getD [])) St.S ∧
      a.phiR0 = phiG adj (statusOf infs (recs.getD [])) St.R ∧
      (∀ x, a.psihat x = .ok (psiHatG adj (statusOf infs (recs.getD [])) x)) ∧
      (∀ x, a.psihatPrime x = .ok (psiHatPG adj (statusOf infs (recs.getD [])) x)) ∧
      a.N * psiHatG adj (statusOf infs (recs.getD [])) 1 = (count adj (statusOf infs (recs.getD [])) St.S : Rat) ∧
      a.p = p ∧ a.tmin = tmin ∧ a.tmax = tmax ∧ a.return_full_data = full := by
  have hG := hW.toGraphOK
  have hst := C06c.gen_status_eq A.toIArgs adj hG.hasNode infs (recs.getD []) hS.disj hS.infIn hS.recIn
  obtain ⟨a, ha, h1, h2, h3, h4, h5, h6, h8⟩ :=
    EBCMd_sets A p infs recs tmin tmax full _ hst (nodes_ne_nil A adj hG hN)
  rw [phiOf_graph A adj hW] at h3 h4
  rw [Sk0fin_graph A adj hG, degs_eq A.toIArgs adj hG] at h5 h6
  rw [nodes_length A.toIArgs adj hG] at h1
  rw [filterR_graph A adj hG] at h2
  refine ⟨a, ha, h1, h2, h3, h4, h5, h6, ?_, h8⟩
  rw [h1]; exact psiHat_one adj _ hN

/-- (A) without `initial_infecteds`: `rho` (default `1/N`): `psihat = (1-rho)ψ`, `psihatPrime = (1-rho)ψ'` for ALL `x`
(the sum skips `k = 0`: no exception at 0, isolated nodes or not), `phiS0 = 1-rho`, `phiR0 = 0`, `R0 = 0`,
`N·psihat(1) = (1-rho)N` -/
theorem EBCM_discrete_args_rho (A : WArgs) (adj : List (List Nat)) (hG : GraphOK A.toIArgs adj) (p : Rat)
    (recs : Option (List Node)) (rho : Option Rat) (hrr : ¬ (rho.isSome ∧ recs.isSome)) (hN : adj.length ≠ 0)
    (tmin tmax : Int) (full : Bool) :
    ∃ a, EBCM_discrete_from_graph_args A p none recs rho tmin tmax full = .ok a ∧
      a.N = (adj.length : Rat) ∧ a.R0 = 0 ∧ a.phiS0 = 1 - rho.getD (1 / (adj.length : Rat)) ∧ a.phiR0 = 0 ∧
      (∀ x, a.psihat x = .ok ((1 - rho.getD (1 / (adj.length : Rat))) * psiK (PkAL (adj.map (·.length))) x)) ∧
      (∀ x, a.psihatPrime x = .ok ((1 - rho.getD (1 / (adj.length : Rat))) * psiKP (PkAL (adj.map (·.length))) x)) ∧
      a.N * ((1 - rho.getD (1 / (adj.length : Rat))) * psiK (PkAL (adj.map (·.length))) 1)
        = rhoS adj (rho.getD (1 / (adj.length : Rat))) ∧
      a.p = p ∧ a.tmin = tmin ∧ a.tmax = tmax ∧ a.return_full_data = full := by
  have hr : rhoOr A rho = .ok (rho.getD (1 / (adj.length : Rat))) := by
    cases rho with
    | some r => rfl
    | none => simp [rhoOr, nodes_length A.toIArgs adj hG, hN]
  obtain ⟨a, ha, h1, h2, h3, h4, h5, h6, h8⟩ := (EBCMd_rho A p recs rho hrr tmin tmax full).2 _ hr
  rw [degs_eq A.toIArgs adj hG] at h5 h6
  rw [nodes_length A.toIArgs adj hG] at h1
  refine ⟨a, ha, h1, h2, h3, h4, h5, h6, ?_, h8⟩
  have hd : adj.map (·.length) ≠ [] := by
    intro e; exact hN (by simpa using congrArg List.length e)
  rw [h1, psiK_one _ hd, rhoS]; ring

/-- (B) the exceptions, with the precedence of the generated code (as for `EBCM_from_graph`, C06g) -/
theorem EBCM_discrete_args_error (A : WArgs) (p : Rat) (tmin tmax : Int) (full : Bool) :
    (∀ infs recs r, infs.isSome ∨ recs.isSome →
      EBCM_discrete_from_graph_args A p infs recs (some r) tmin tmax full = .error "EoNError") ∧
    (∀ infs recs e, initialize_node_status A.toIArgs infs (recs.getD []) = .error e →
      EBCM_discrete_from_graph_args A p (some infs) recs none tmin tmax full = .error e) ∧
    (∀ infs recs st, initialize_node_status A.toIArgs infs (recs.getD []) = .ok st → A.nodes = [] →
      EBCM_discrete_from_graph_args A p (some infs) recs none tmin tmax full = .error "ValueError") ∧
    (∀ recs, A.nodes.length = 0 →
      EBCM_discrete_from_graph_args A p none recs none tmin tmax full = .error "ZeroDivisionError") ∧
    (∀ r, ∃ a, EBCM_discrete_from_graph_args A p none none (some r) tmin tmax full = .ok a) := by
  refine ⟨fun infs recs r h => EBCMd_both A p infs recs r tmin tmax full h,
    fun infs recs e he => (EBCMd_sets_error A p infs recs tmin tmax full).1 e he,
    fun infs recs st hst hN => (EBCMd_sets_error A p infs recs tmin tmax full).2 st hst hN,
    fun recs hN => ?_, fun r => ?_⟩
  · exact (EBCMd_rho A p recs none (by simp) tmin tmax full).1 _ (by simp [rhoOr, hN])
  · obtain ⟨a, ha, -⟩ := (EBCMd_rho A p none (some r) (by simp) tmin tmax full).2 r rfl
    exact ⟨a, ha⟩

/-- (C) in EVERY non-error case the `N` handed to `EBCM_discrete` is `G.order()`, `psihat` AND `psihatPrime` are total
(neither callback ever raises), `R0 ≥ 0` is a node
count or 0, and `p`, `tmin`, `tmax`, `return_full_data` are passed on -/
theorem EBCM_discrete_args_total (A : WArgs) (p : Rat) (infs recs : Option (List Node)) (rho : Option Rat)
    (tmin tmax : Int) (full : Bool) (a : EBCM_discrete_Args)
    (h : EBCM_discrete_from_graph_args A p infs recs rho tmin tmax full = .ok a) :
    a.N = (A.nodes.length : Rat) ∧ (∃ f : Rat → Rat, ∀ x, a.psihat x = .ok (f x)) ∧
    (∃ f' : Rat → Rat, ∀ x, a.psihatPrime x = .ok (f' x)) ∧
    a.p = p ∧ a.tmin = tmin ∧ a.tmax = tmax ∧ a.return_full_data = full := by
  by_cases hb : rho.isSome ∧ (infs.isSome ∨ recs.isSome)
  · obtain ⟨r, rfl⟩ := Option.isSome_iff_exists.mp hb.1
    rw [EBCMd_both A p infs recs r tmin tmax full hb.2] at h; cases h
  · cases infs with
    | some l =>
      have : rho = none := by
        cases rho with
        | none => rfl
        | some r => exact absurd ⟨rfl, Or.inl rfl⟩ hb
      subst this
      cases hst : initialize_node_status A.toIArgs l (recs.getD []) with
      | error e => rw [(EBCMd_sets_error A p l recs tmin tmax full).1 e hst] at h; cases h
      | ok st =>
        by_cases hN : A.nodes = []
        · rw [(EBCMd_sets_error A p l recs tmin tmax full).2 st hst hN] at h; cases h
        · obtain ⟨a', ha', h1, -, -, -, h5, h6, h8⟩ := EBCMd_sets A p l recs tmin tmax full st hst hN
          rw [h] at ha'; injection ha' with ha'; subst ha'; exact ⟨h1, ⟨_, h5⟩, ⟨_, h6⟩, h8⟩
    | none =>
      have hrr : ¬ (rho.isSome ∧ recs.isSome) := fun hh => hb ⟨hh.1, Or.inr hh.2⟩
      cases hr : rhoOr A rho with
      | error e => rw [(EBCMd_rho A p recs rho hrr tmin tmax full).1 e hr] at h; cases h
      | ok r =>
        obtain ⟨a', ha', h1, -, -, -, h5, h6, h8⟩ := (EBCMd_rho A p recs rho hrr tmin tmax full).2 r hr
        rw [h] at ha'; injection ha' with ha'; subst ha'; exact ⟨h1, ⟨_, h5⟩, ⟨_, h6⟩, h8⟩

/-! ## 4. `EBCM_discrete_from_graph` composed with the generated `GenHelp.EBCM_discrete` (through C08c) -/

theorem EBCM_discrete_from_graph_inv (A : WArgs) (p : Rat) (infs recs : Option (List Node)) (rho : Option Rat)
    (tmin tmax : Int) (full : Bool) (l : List (List Rat))
    (h : EBCM_discrete_from_graph A p infs recs rho tmin tmax full = .ok l) :
    ∃ a, EBCM_discrete_from_graph_args A p infs recs rho tmin tmax full = .ok a ∧
      GenHelp.EBCM_discrete a.N a.psihat a.psihatPrime a.p a.phiS0 a.phiR0 a.R0 a.tmin a.tmax a.return_full_data = .ok l := by
  unfold EBCM_discrete_from_graph at h
  cases ha : EBCM_discrete_from_graph_args A p infs recs rho tmin tmax full with
  | error e => rw [ha] at h; cases h
  | ok a => rw [ha] at h; exact ⟨a, rfl, h⟩

/-- the shape of a result of `EBCM_discrete`: `[times, S, I, R]` (+ `theta`), `m + 1` rows, conservation, `R(n+1) = R(n)+I(n)`,
`S = N ψ̂(θ)`, `θ(0) = 1`, `R(0) = R0` -/
def DiscreteRun (N R0 : Rat) (f : Rat → Rat) (tmin tmax : Int) (full : Bool) (l : List (List Rat)) : Prop :=
  ∃ times S I R theta : List Rat, l = (if full then [times, S, I, R, theta] else [times, S, I, R]) ∧
    (let m := (tmax - tmin).toNat
     times.length = m + 1 ∧ S.length = m + 1 ∧ I.length = m + 1 ∧ R.length = m + 1 ∧ theta.length = m + 1 ∧
     theta.getD 0 0 = 1 ∧ R.getD 0 0 = R0 ∧
     (∀ n, n ≤ m → times.getD n 0 = ((tmin + (n : Int) : Int) : Rat) ∧
        S.getD n 0 + I.getD n 0 + R.getD n 0 = N ∧ S.getD n 0 = N * f (theta.getD n 0)) ∧
     (∀ n, n < m → R.getD (n + 1) 0 = R.getD n 0 + I.getD n 0))

theorem discreteRun_of_total (N : Rat) (f f' : Rat → Rat) (p phiS0 phiR0 R0 : Rat) (tmin tmax : Int) (full : Bool)
    (l : List (List Rat))
    (h : GenHelp.EBCM_discrete N (fun x => pure (f x)) (fun x => pure (f' x)) p phiS0 phiR0 R0 tmin tmax full = .ok l) :
    DiscreteRun N R0 f tmin tmax full l := by
  obtain ⟨times, S, I, R, theta, h1, h2, h3, h4, h5, h6, h7, h8, h9, h10, h11⟩ :=
    GenHelpFinal.gen_EBCM_discrete_spec N f f' p phiS0 phiR0 R0 tmin tmax
  refine ⟨times, S, I, R, theta, ?_, h3, h4, h5, h6, h7, h8, h9, h10, fun n hn => (h11 n hn).1⟩
  cases full
  · rw [h1] at h; injection h with h; exact h.symm
  · rw [h2] at h; injection h with h; exact h.symm

/-- (D) end to end, ANY request (sets, `rho`, default), with or without full data, EVERY successful call:
the result is `[times, S, I, R(, theta)]` with `tmax - tmin + 1` rows, **`S + I + R = G.order()` at every index**,
`R(n+1) = R(n) + I(n)`, `times = tmin, tmin+1, …`.  (No hypothesis on the graph; `psihat` and `psihatPrime` never raise,
`EBCM_discrete_args_total`.) -/
theorem EBCM_discrete_from_graph_conserve (A : WArgs) (p : Rat) (infs recs : Option (List Node)) (rho : Option Rat)
    (tmin tmax : Int) (full : Bool) (l : List (List Rat))
    (h : EBCM_discrete_from_graph A p infs recs rho tmin tmax full = .ok l) :
    ∃ (f : Rat → Rat) (R0 : Rat), DiscreteRun (A.nodes.length : Rat) R0 f tmin tmax full l := by
  obtain ⟨a, ha, hl⟩ := EBCM_discrete_from_graph_inv A p infs recs rho tmin tmax full l h
  obtain ⟨hN, ⟨f, hf⟩, -, -, h2, h3, h4⟩ := EBCM_discrete_args_total A p infs recs rho tmin tmax full a ha
  have := EBCM_discrete_agree a.N a.psihat a.psihatPrime f (PyWrap.total a.psihatPrime) hf
    (fun x y hy => total_of_ok _ x y hy) _ _ _ _ _ _ _ l hl
  rw [hN, h2, h3, h4] at this
  exact ⟨f, a.R0, discreteRun_of_total _ _ _ _ _ _ _ _ _ _ l this⟩

/-- (D) explicit disjoint sets of graph nodes, every successful call: the run is that of the graph's own ψ̂
(`S(n) = N·ψ̂(θ_n)`), and **row 0 is the requested state**: `S(0)`, `I(0)`, `R(0)` are the NUMBERS OF SUSCEPTIBLE /
INFECTED / RECOVERED NODES (`len(initial_infecteds)`, `len(initial_recovereds)` for duplicate-free lists) -/
theorem EBCM_discrete_from_graph_init (A : WArgs) (adj : List (List Nat)) (hW : GraphOKW A adj) (p : Rat)
    (infs : List Node) (recs : Option (List Node)) (hS : SetsOK adj infs (recs.getD [])) (hN : adj.length ≠ 0)
    (tmin tmax : Int) (full : Bool) (l : List (List Rat))
    (h : EBCM_discrete_from_graph A p (some infs) recs none tmin tmax full = .ok l) :
    DiscreteRun (adj.length : Rat) (count adj (statusOf infs (recs.getD [])) St.R : Rat)
      (psiHatG adj (statusOf infs (recs.getD []))) tmin tmax full l ∧
    GenHelp.EBCM_discrete (adj.length : Rat) (fun x => pure (psiHatG adj (statusOf infs (recs.getD [])) x))
      (fun x => pure (psiHatPG adj (statusOf infs (recs.getD [])) x)) p (phiG adj (statusOf infs (recs.getD [])) St.S)
      (phiG adj (statusOf infs (recs.getD [])) St.R) (count adj (statusOf infs (recs.getD [])) St.R : Rat)
      tmin tmax full = .ok l ∧
    ∃ S I R, l[1]? = some S ∧ l[2]? = some I ∧ l[3]? = some R ∧
      S.getD 0 0 = (count adj (statusOf infs (recs.getD [])) St.S : Rat) ∧
      I.getD 0 0 = (count adj (statusOf infs (recs.getD [])) St.I : Rat) ∧
      R.getD 0 0 = (count adj (statusOf infs (recs.getD [])) St.R : Rat) ∧
      (infs.Nodup → (recs.getD []).Nodup →
        I.getD 0 0 = (infs.length : Rat) ∧ R.getD 0 0 = ((recs.getD []).length : Rat)) := by
  obtain ⟨a, ha, hl⟩ := EBCM_discrete_from_graph_inv A p _ _ _ tmin tmax full l h
  obtain ⟨a', ha', e1, e2, e3, e4, e5, e6, e8, e9, e10, e11, e12⟩ :=
    EBCM_discrete_args_spec A adj hW p infs recs hS hN tmin tmax full
  rw [ha] at ha'; injection ha' with ha'; subst ha'
  have hag : ∀ x y, a.psihatPrime x = .ok y → psiHatPG adj (statusOf infs (recs.getD [])) x = y := by
    intro x y hy
    rw [e6 x] at hy; injection hy
  have hrun := EBCM_discrete_agree a.N a.psihat a.psihatPrime _ _ e5 hag _ _ _ _ _ _ _ l hl
  rw [e1, e2, e3, e4, e9, e10, e11, e12] at hrun
  have hD := discreteRun_of_total _ _ _ _ _ _ _ _ _ _ l hrun
  refine ⟨hD, hrun, ?_⟩
  obtain ⟨times, S, I, R, theta, hl', -, -, -, -, -, t0, r0, hc, -⟩ := hD
  obtain ⟨-, c0, s0⟩ := hc 0 (Nat.zero_le _)
  rw [t0, ← e1, e8] at s0
  have ht := count_total adj (statusOf infs (recs.getD []))
  have hI : I.getD 0 0 = (count adj (statusOf infs (recs.getD [])) St.I : Rat) := by
    rw [s0, r0] at c0
    have : ((count adj (statusOf infs (recs.getD [])) St.S + count adj (statusOf infs (recs.getD [])) St.I
      + count adj (statusOf infs (recs.getD [])) St.R : Nat) : Rat) = (adj.length : Rat) := by rw [ht]
    push_cast at this
    linarith
  refine ⟨S, I, R, by subst hl'; cases full <;> rfl, by subst hl'; cases full <;> rfl,
    by subst hl'; cases full <;> rfl, s0, hI, r0, fun hi hr => ?_⟩
  obtain ⟨cI, cR, -⟩ := request_counts adj infs (recs.getD []) hS hi hr
  exact ⟨hI.trans cI, r0.trans cR⟩

/-- (D) `rho` / default request, every successful call: the run of `ψ̂ = (1-rho)ψ`, row 0 = `((1-rho)N, rho·N, 0)` -/
theorem EBCM_discrete_from_graph_init_rho (A : WArgs) (adj : List (List Nat)) (hG : GraphOK A.toIArgs adj) (p : Rat)
    (recs : Option (List Node)) (rho : Option Rat) (hrr : ¬ (rho.isSome ∧ recs.isSome)) (hN : adj.length ≠ 0)
    (tmin tmax : Int) (full : Bool) (l : List (List Rat))
    (h : EBCM_discrete_from_graph A p none recs rho tmin tmax full = .ok l) :
    DiscreteRun (adj.length : Rat) 0
      (fun x => (1 - rho.getD (1 / (adj.length : Rat))) * psiK (PkAL (adj.map (·.length))) x) tmin tmax full l ∧
    GenHelp.EBCM_discrete (adj.length : Rat)
      (fun x => pure ((1 - rho.getD (1 / (adj.length : Rat))) * psiK (PkAL (adj.map (·.length))) x))
      (fun x => pure ((1 - rho.getD (1 / (adj.length : Rat))) * psiKP (PkAL (adj.map (·.length))) x)) p
      (1 - rho.getD (1 / (adj.length : Rat))) 0 0 tmin tmax full = .ok l ∧
    ∃ S I R, l[1]? = some S ∧ l[2]? = some I ∧ l[3]? = some R ∧
      S.getD 0 0 = rhoS adj (rho.getD (1 / (adj.length : Rat))) ∧
      I.getD 0 0 = rhoI adj (rho.getD (1 / (adj.length : Rat))) ∧ R.getD 0 0 = 0 := by
  obtain ⟨a, ha, hl⟩ := EBCM_discrete_from_graph_inv A p _ _ _ tmin tmax full l h
  obtain ⟨a', ha', e1, e2, e3, e4, e5, e6, e8, e9, e10, e11, e12⟩ :=
    EBCM_discrete_args_rho A adj hG p recs rho hrr hN tmin tmax full
  rw [ha] at ha'; injection ha' with ha'; subst ha'
  have hag : ∀ x y, a.psihatPrime x = .ok y →
      (1 - rho.getD (1 / (adj.length : Rat))) * psiKP (PkAL (adj.map (·.length))) x = y := by
    intro x y hy
    rw [e6 x] at hy; injection hy
  have hrun := EBCM_discrete_agree a.N a.psihat a.psihatPrime _ _ e5 hag _ _ _ _ _ _ _ l hl
  rw [e1, e2, e3, e4, e9, e10, e11, e12] at hrun
  have hD := discreteRun_of_total _ _ _ _ _ _ _ _ _ _ l hrun
  refine ⟨hD, hrun, ?_⟩
  obtain ⟨times, S, I, R, theta, hl', -, -, -, -, -, t0, r0, hc, -⟩ := hD
  obtain ⟨-, c0, s0⟩ := hc 0 (Nat.zero_le _)
  rw [e1] at e8
  replace s0 : S.getD 0 0 = rhoS adj (rho.getD (1 / (adj.length : Rat))) := by rw [s0, t0]; exact e8
  have hI : I.getD 0 0 = rhoI adj (rho.getD (1 / (adj.length : Rat))) := by
    rw [s0, r0] at c0
    simp only [rhoS, rhoI] at c0 ⊢
    linarith
  exact ⟨S, I, R, by subst hl'; cases full <;> rfl, by subst hl'; cases full <;> rfl,
    by subst hl'; cases full <;> rfl, s0, hI, r0⟩

/-- on EVERY graph with nodes — isolated nodes ALLOWED (no hypothesis on the degrees: `psihatPrime` skips `k = 0` and is
total) — the composed wrapper never fails once the argument record is built: explicit sets of graph nodes / `rho` /
default, i.e. every call with a valid request SUCCEEDS -/
theorem EBCM_discrete_from_graph_ok (A : WArgs) (adj : List (List Nat)) (hW : GraphOKW A adj) (p : Rat)
    (hN : adj.length ≠ 0) (tmin tmax : Int) (full : Bool) :
    (∀ infs recs, SetsOK adj infs (recs.getD []) →
      ∃ l, EBCM_discrete_from_graph A p (some infs) recs none tmin tmax full = .ok l) ∧
    (∀ recs rho, ¬ (rho.isSome ∧ recs.isSome) →
      ∃ l, EBCM_discrete_from_graph A p none recs rho tmin tmax full = .ok l) := by
  constructor
  · intro infs recs hS
    obtain ⟨a, ha, -, -, -, -, e5, e6, -⟩ := EBCM_discrete_args_spec A adj hW p infs recs hS hN tmin tmax full
    unfold EBCM_discrete_from_graph
    rw [ha]
    simp only [GenHelpProofs.ok_bind]
    rw [EBCM_discrete_of_total a.N a.psihat a.psihatPrime _ _ e5 e6,
      GenHelpFinal.gen_EBCM_discrete_eq]
    exact ⟨_, rfl⟩
  · intro recs rho hrr
    obtain ⟨a, ha, -, -, -, -, e5, e6, -⟩ := EBCM_discrete_args_rho A adj hW.toGraphOK p recs rho hrr hN tmin tmax full
    unfold EBCM_discrete_from_graph
    rw [ha]
    simp only [GenHelpProofs.ok_bind]
    rw [EBCM_discrete_of_total a.N a.psihat a.psihatPrime _ _ e5 e6,
      GenHelpFinal.gen_EBCM_discrete_eq]
    exact ⟨_, rfl⟩

/-- (D) **KEY LINK on the graph**: `Attack_rate_discrete_from_graph(number_its = n)` is `(I(n) + R(n))/N = 1 − S(n)/N`
of the data returned by `EBCM_discrete_from_graph(tmin = 0, tmax = n)` for the same explicit sets — for EVERY successful
run of the latter (there always is one, isolated nodes or not: `EBCM_discrete_from_graph_ok`) -/
theorem Attack_rate_discrete_from_graph_is_EBCM (A : WArgs) (adj : List (List Nat)) (hW : GraphOKW A adj) (p : Rat)
    (infs : List Node) (recs : Option (List Node)) (hS : SetsOK adj infs (recs.getD [])) (hN : adj.length ≠ 0)
    (n : Nat) (l : List (List Rat))
    (h : EBCM_discrete_from_graph A p (some infs) recs none 0 (n : Int) false = .ok l) :
    ∃ times S I R : List Rat, l = [times, S, I, R] ∧
      Attack_rate_discrete_from_graph A p (some infs) recs none (n : Int)
        = .ok ((I.getD n 0 + R.getD n 0) / (adj.length : Rat)) ∧
      Attack_rate_discrete_from_graph A p (some infs) recs none (n : Int)
        = .ok (1 - S.getD n 0 / (adj.length : Rat)) := by
  obtain ⟨-, hrun, -⟩ := EBCM_discrete_from_graph_init A adj hW p infs recs hS hN 0 n false l h
  have hNr : (adj.length : Rat) ≠ 0 := by exact_mod_cast hN
  obtain ⟨times, S, I, R, hE, h1, h2⟩ := GenHelpFinal.gen_Attack_rate_discrete_is_EBCM
    (PkAL (adj.map (·.length))) p none (some (PyWrap.vecToDict (Sk0G adj (statusOf infs (recs.getD [])))))
    (some (phiG adj (statusOf infs (recs.getD [])) St.S)) (some (phiG adj (statusOf infs (recs.getD [])) St.R)) n
    (Or.inl rfl) (fun hh => by cases hh)
    (fun d hd => by injection hd with hd; subst hd; exact keys_in_Sk0G adj _)
    (phiG adj (statusOf infs (recs.getD [])) St.S) rfl (adj.length : Rat)
    (count adj (statusOf infs (recs.getD [])) St.R : Rat) hNr
  simp only [GenHelpFinal.effSk0, Option.getD_some, ← (psiHatG_eq_AL adj _).1, ← (psiHatG_eq_AL adj _).2] at hE
  rw [hrun] at hE
  injection hE with hE
  have hAR : Attack_rate_discrete_from_graph A p (some infs) recs none (n : Int) =
      GenHelp.Attack_rate_discrete (PkAL (adj.map (·.length))) p none
        (some (PyWrap.vecToDict (Sk0G adj (statusOf infs (recs.getD [])))))
        (some (phiG adj (statusOf infs (recs.getD [])) St.S)) (some (phiG adj (statusOf infs (recs.getD [])) St.R)) n := by
    unfold Attack_rate_discrete_from_graph
    rw [Attack_rate_discrete_args_spec A adj hW p infs recs hS hN n]
    simp [GenHelpProofs.ok_bind]
  exact ⟨times, S, I, R, hE, hAR.trans h2, hAR.trans h1⟩

/-! ## 4b. `SIR_compact_effective_degree_from_graph` without `initial_infecteds`

(The explicit-sets branch — `Skappa0[κ]` = number of susceptible nodes with `κ` non-recovered neighbours, `SI0` = number
of S–I ordered pairs — is NOT covered here; see the list of omissions.) -/

theorem sum_NkL_graph (adj : List (List Nat)) : sumRat (NkL (adj.map (·.length))) = (adj.length : Rat) := by
  rw [sumRat_eq_sum]
  have : NkL (adj.map (·.length)) = vec (maxDeg adj) (fun k => ((Nk adj k : Nat) : Rat)) := by
    unfold NkL
    apply vec_congr
    intro k; rw [countEq_degs]
  rw [this, vec_sum_cast, sum_Nk]

/-- (A) `rho` (default `1/N`; an `initial_recovereds` given without `rho` is ignored): `Skappa0[k] = (1-rho)·N_k`,
`I0 = rho·N`, `R0 = 0`, and through the `vecGet` loop `SI0 = Σ_k k·Skappa0[k]·rho = (1-rho)·rho·2|E|` -/
theorem SIR_compact_effective_degree_args_rho (A : WArgs) (adj : List (List Nat)) (hG : GraphOK A.toIArgs adj)
    (tau gamma : Rat) (recs : Option (List Node)) (rho : Option Rat) (hrr : ¬ (rho.isSome ∧ recs.isSome))
    (hN : adj.length ≠ 0) (tmin tmax : Rat) (tcount : Int) (full : Bool) :
    SIR_compact_effective_degree_from_graph_args A tau gamma none recs rho tmin tmax tcount full =
      .ok { Skappa0 := vec (maxDeg adj) (fun k => rhoSk adj (rho.getD (1 / (adj.length : Rat))) k),
            I0 := rhoI adj (rho.getD (1 / (adj.length : Rat))), R0 := 0,
            SI0 := rhoSI adj (rho.getD (1 / (adj.length : Rat))),
            tau := tau, gamma := gamma, tmin := tmin, tmax := tmax, tcount := tcount, return_full_data := full } := by
  have hr : rhoOr A rho = .ok (rho.getD (1 / (adj.length : Rat))) := by
    cases rho with
    | some r => rfl
    | none => simp [rhoOr, nodes_length A.toIArgs adj hG, hN]
  rw [SIRced_rho A tau gamma recs rho hrr, hr, GenHelpProofs.ok_bind, if_neg (nodes_ne_nil A adj hG hN),
    degs_eq A.toIArgs adj hG, sum_NkL_graph]
  congr 2
  · apply vec_congr; intro k; rw [countEq_degs]; rfl

/-- (B) the exceptions with the precedence of the generated code: `EoNError` for `rho` with a set; with neither `rho` nor
a set ZeroDivisionError on a graph without nodes (the default `rho = 1/N` is computed first); with `rho` alone ValueError
(`max` of no degrees) on a graph without nodes -/
theorem SIR_compact_effective_degree_args_error (A : WArgs) (tau gamma : Rat) (tmin tmax : Rat) (tcount : Int)
    (full : Bool) :
    (∀ infs recs r, infs.isSome ∨ recs.isSome →
      SIR_compact_effective_degree_from_graph_args A tau gamma infs recs (some r) tmin tmax tcount full
        = .error "EoNError") ∧
    (∀ recs, A.nodes.length = 0 →
      SIR_compact_effective_degree_from_graph_args A tau gamma none recs none tmin tmax tcount full
        = .error "ZeroDivisionError") ∧
    (∀ r, A.nodes = [] →
      SIR_compact_effective_degree_from_graph_args A tau gamma none none (some r) tmin tmax tcount full
        = .error "ValueError") := by
  refine ⟨fun infs recs r h => SIRced_both A tau gamma infs recs r tmin tmax tcount full h, fun recs hN => ?_,
    fun r hN => ?_⟩
  · rw [SIRced_rho A tau gamma recs none (by simp)]; simp [rhoOr, hN]
  · rw [SIRced_rho A tau gamma none (some r) (by simp)]; simp [rhoOr, hN]

/-- (C) `Σ_k Skappa0[k] + I0 + R0 = N` (the `rho` / default request) -/
theorem SIR_compact_effective_degree_args_total_rho (A : WArgs) (adj : List (List Nat)) (hG : GraphOK A.toIArgs adj)
    (tau gamma : Rat) (recs : Option (List Node)) (rho : Option Rat) (hrr : ¬ (rho.isSome ∧ recs.isSome))
    (tmin tmax : Rat) (tcount : Int) (full : Bool) (a : SIR_compact_effective_degree_Args)
    (h : SIR_compact_effective_degree_from_graph_args A tau gamma none recs rho tmin tmax tcount full = .ok a) :
    a.Skappa0.sum = rhoS adj (rho.getD (1 / (adj.length : Rat))) ∧ a.Skappa0.sum + a.I0 + a.R0 = (adj.length : Rat) ∧
    a.Skappa0.length = maxDeg adj + 1 := by
  have hN : adj.length ≠ 0 := by
    intro e
    have hne := nodes_eq_nil A adj hG e
    cases rho with
    | none =>
      rw [(SIR_compact_effective_degree_args_error A tau gamma tmin tmax tcount full).2.1 recs (by rw [hne]; rfl)] at h
      cases h
    | some r =>
      have : recs = none := by
        cases recs with
        | none => rfl
        | some l => exact absurd ⟨rfl, rfl⟩ hrr
      subst this
      rw [(SIR_compact_effective_degree_args_error A tau gamma tmin tmax tcount full).2.2 r hne] at h
      cases h
  rw [SIR_compact_effective_degree_args_rho A adj hG tau gamma recs rho hrr hN] at h
  injection h with h; subst h
  have ht := C06c.gen_rho_total A.toIArgs adj hG (rho.getD (1 / (adj.length : Rat)))
  rw [C06c.gen_rho_eq_vec A.toIArgs adj hG] at ht
  refine ⟨ht.2.1, ?_, vec_length _ _⟩
  simp only [ht.2.1, rhoS, rhoI]; ring

theorem SIR_compact_effective_degree_from_graph_inv (odeint : Solver) (A : WArgs) (tau gamma : Rat)
    (infs recs : Option (List Node)) (rho : Option Rat) (tmin tmax : Rat) (tcount : Int) (full : Bool) (l : List Ser)
    (h : SIR_compact_effective_degree_from_graph odeint A tau gamma infs recs rho tmin tmax tcount full = .ok l) :
    ∃ a, SIR_compact_effective_degree_from_graph_args A tau gamma infs recs rho tmin tmax tcount full = .ok a ∧
      GenGlue.SIR_compact_effective_degree odeint (V.ofList a.Skappa0) a.I0 a.R0 a.SI0 a.tau a.gamma a.tmin a.tmax
        a.tcount.toNat a.return_full_data = .ok l := by
  unfold SIR_compact_effective_degree_from_graph at h
  cases ha : SIR_compact_effective_degree_from_graph_args A tau gamma infs recs rho tmin tmax tcount full with
  | error e => rw [ha] at h; cases h
  | ok a => rw [ha] at h; exact ⟨a, rfl, h⟩

/-- (D) end to end, `rho` / default request, with or without full data, EVERY solver: `S + I + R = N` at every time
index; with `odeint rhs X0 0 = X0` the series start from `(1-rho)N`, `rho·N`, `0` -/
theorem SIR_compact_effective_degree_from_graph_rho (odeint : Solver) (A : WArgs) (adj : List (List Nat))
    (hG : GraphOK A.toIArgs adj) (tau gamma : Rat) (recs : Option (List Node)) (rho : Option Rat)
    (hrr : ¬ (rho.isSome ∧ recs.isSome)) (tmin tmax : Rat) (tcount : Int) (full : Bool) (l : List Ser)
    (h : SIR_compact_effective_degree_from_graph odeint A tau gamma none recs rho tmin tmax tcount full = .ok l) :
    (∀ i, get l 1 i + get l 2 i + get l 3 i = (adj.length : Rat)) ∧
    (RowZero odeint →
      get l 1 0 = rhoS adj (rho.getD (1 / (adj.length : Rat))) ∧
      get l 2 0 = rhoI adj (rho.getD (1 / (adj.length : Rat))) ∧ get l 3 0 = 0) := by
  obtain ⟨a, ha, hl⟩ := SIR_compact_effective_degree_from_graph_inv odeint A tau gamma _ _ _ tmin tmax tcount full l h
  obtain ⟨t1, t2, t3⟩ := SIR_compact_effective_degree_args_total_rho A adj hG tau gamma recs rho hrr tmin tmax tcount
    full a ha
  refine ⟨fun i => ?_, fun h0 => ?_⟩
  · rw [C06d.SIR_compact_effective_degree_conserve odeint _ _ _ _ _ _ _ _ _ _ l hl i, sumTo_ofList]
    exact t2
  · obtain ⟨i1, i2, i3⟩ := C06d.SIR_compact_effective_degree_init odeint h0 _ _ _ _ _ _ _ _ _ _ l hl
    rw [sumTo_ofList] at i1
    have hN : adj.length ≠ 0 := by
      intro e
      have hne := nodes_eq_nil A adj hG e
      cases rho with
      | none =>
        rw [(SIR_compact_effective_degree_args_error A tau gamma tmin tmax tcount full).2.1 recs (by rw [hne]; rfl)]
          at ha
        cases ha
      | some r =>
        have : recs = none := by
          cases recs with
          | none => rfl
          | some l => exact absurd ⟨rfl, rfl⟩ hrr
        subst this
        rw [(SIR_compact_effective_degree_args_error A tau gamma tmin tmax tcount full).2.2 r hne] at ha
        cases ha
    rw [SIR_compact_effective_degree_args_rho A adj hG tau gamma recs rho hrr hN] at ha
    injection ha with ha; subst ha
    exact ⟨i1.trans t1, i2, i3⟩

/-! ## 4c. complements to C06e / C06g: full data of `SIR_compact_pairwise_from_graph`, `psihatPrime` of the `rho` branch
of `EBCM_from_graph` -/

/-- (D) `return_full_data = True`, explicit sets and `rho` / default, EVERY solver, EVERY time index: the class array
`Sk` has `maxdeg + 1` entries and `Σ_k Sk + I + R = N` -/
theorem SIR_compact_pairwise_from_graph_conserve_full (odeint : Solver) (A : WArgs) (adj : List (List Nat))
    (hG : GraphOK A.toIArgs adj) (tau gamma : Rat) (hN : adj.length ≠ 0) (tmin tmax : Rat) (tcount : Int) (l : List Ser) :
    (∀ infs recs, SetsOK adj infs (recs.getD []) →
      SIR_compact_pairwise_from_graph odeint A tau gamma (some infs) recs none tmin tmax tcount true = .ok l →
      ∀ i, getN l 1 i = maxDeg adj + 1 ∧
        ODE.sumTo (maxDeg adj + 1) (getM l 1 i) + get l 2 i + get l 3 i = (adj.length : Rat)) ∧
    (∀ rho, SIR_compact_pairwise_from_graph odeint A tau gamma none none rho tmin tmax tcount true = .ok l →
      ∀ i, getN l 1 i = maxDeg adj + 1 ∧
        ODE.sumTo (maxDeg adj + 1) (getM l 1 i) + get l 2 i + get l 3 i = (adj.length : Rat)) := by
  constructor
  · intro infs recs hS h i
    obtain ⟨a, ha, hl⟩ := SIR_compact_pairwise_from_graph_inv odeint A tau gamma _ _ _ tmin tmax tcount true l h
    obtain ⟨a', ha', e1, -, -, -, -, -, -, e8, e9⟩ :=
      SIR_compact_pairwise_args_spec A adj hG tau gamma infs recs hS hN tmin tmax tcount true
    rw [ha] at ha'; injection ha' with ha'; subst ha'
    rw [e9] at hl
    obtain ⟨c1, c2⟩ := C06d.SIR_compact_pairwise_conserve_full odeint _ _ _ _ _ _ _ _ _ _ l hl i
    have hn : (V.ofList a.Sk0).n = maxDeg adj + 1 := by
      show a.Sk0.length = _
      rw [e1, vec_length]
    rw [sumTo_ofList] at c2
    rw [hn] at c1 c2
    exact ⟨c1, c2.trans e8⟩
  · intro rho h i
    obtain ⟨a, ha, hl⟩ := SIR_compact_pairwise_from_graph_inv odeint A tau gamma _ _ _ tmin tmax tcount true l h
    obtain ⟨a', ha', e1, -, -, -, -, -, e8, -, -, -, -, -, e9⟩ :=
      SIR_compact_pairwise_args_rho A adj hG tau gamma rho hN tmin tmax tcount true
    rw [ha] at ha'; injection ha' with ha'; subst ha'
    rw [e9] at hl
    obtain ⟨c1, c2⟩ := C06d.SIR_compact_pairwise_conserve_full odeint _ _ _ _ _ _ _ _ _ _ l hl i
    have hn : (V.ofList a.Sk0).n = maxDeg adj + 1 := by
      show a.Sk0.length = _
      rw [e1, vec_length]
    rw [sumTo_ofList] at c2
    rw [hn] at c1 c2
    exact ⟨c1, c2.trans e8⟩

/-- the `psihatPrime` handed to `EBCM` in the `rho` / default branch of `EBCM_from_graph` (complement of C06g's
`EBCM_args_rho`): `(1-rho)·ψ'(x)`, `ψ'(x) = Σ_{k>0} k·Pk[k]·x^(k-1)`, for `x ≠ 0` or a graph without isolated nodes — and
`psihatPrime(0)` RAISES ZeroDivisionError on a graph with an isolated node (inside `odeint` the composed function uses 0) -/
theorem EBCM_args_rho_prime (A : WArgs) (adj : List (List Nat)) (hG : GraphOK A.toIArgs adj)
    (tau gamma : Rat) (recs : Option (List Node)) (rho : Option Rat) (hrr : ¬ (rho.isSome ∧ recs.isSome))
    (hN : adj.length ≠ 0) (tmin tmax : Rat) (tcount : Int) (full : Bool) (a : EBCM_Args)
    (ha : EBCM_from_graph_args A tau gamma none recs rho tmin tmax tcount full = .ok a) :
    (∀ x, x ≠ 0 ∨ 0 ∉ adj.map (·.length) →
      a.psihatPrime x = .ok ((1 - rho.getD (1 / (adj.length : Rat))) * psiKP (PkAL (adj.map (·.length))) x)) ∧
    (0 ∈ adj.map (·.length) → a.psihatPrime 0 = .error "ZeroDivisionError") ∧
    psiKP (PkAL (adj.map (·.length))) 1 = (twoM adj : Rat) / (adj.length : Rat) := by
  have hr : rhoOr A rho = .ok (rho.getD (1 / (adj.length : Rat))) := by
    cases rho with
    | some r => rfl
    | none => simp [rhoOr, nodes_length A.toIArgs adj hG, hN]
  obtain ⟨h1, h2⟩ := EBCM_rho_prime A tau gamma recs rho hrr tmin tmax tcount full _ hr a ha
  rw [degs_eq A.toIArgs adj hG] at h1 h2
  refine ⟨h1, h2, ?_⟩
  rw [psiKP_one, kAveAL_PkAL]
  have := meanK_graph A.toIArgs adj hG
  rwa [degs_eq A.toIArgs adj hG] at this

/-! ## 5. non-vacuity on the triangle 0–1–2 with the pendant node 3 (`exW` of C06e), kernel-checked -/

/-- node 0 infected, node 3 recovered: `Pk = {2: 1/2, 3: 1/4, 1: 1/4}` (keys in first-seen order), `Sk0 = [0, 0, 1/2, 1]`,
`phiS0 = 2/5`, `phiR0 = 1/5` -/
example : ((Attack_rate_discrete_from_graph_args exW (1 / 2) (some [0]) (some [3]) none 2).toOption.map
    fun a => (a.Pk, a.Sk0, a.phiS0, a.phiR0)) =
    some ([(2, 1 / 2), (3, 1 / 4), (1, 1 / 4)], some [0, 0, 1 / 2, 1], some (2 / 5), some (1 / 5)) := by
  decide +kernel
example : ((Attack_rate_discrete_from_graph_args exW (1 / 2) (some [0]) (some [3]) none 2).toOption.map
    fun a => (a.rho, a.number_its)) = some (none, 2) := by decide +kernel
example : ((EBCM_discrete_from_graph_args exW (1 / 2) (some [0]) (some [3]) none 0 2 false).toOption.map
    fun a => (a.N, a.R0, a.phiS0, a.phiR0)) = some (4, 1, 2 / 5, 1 / 5) := by decide +kernel
example : ((EBCM_discrete_from_graph_args exW (1 / 2) (some [0]) (some [3]) none 0 2 false).toOption.bind
    fun a => (a.psihat 1).toOption) = some (1 / 2) := by decide +kernel
example : ((EBCM_discrete_from_graph_args exW (1 / 2) (some [0]) (some [3]) none 0 2 false).toOption.bind
    fun a => (a.psihatPrime 1).toOption) = some (5 / 4) := by decide +kernel
/-- the discrete EBCM data of the graph: `S + I + R = 4` in every row, row 0 = (2, 1, 1), `R(n+1) = R(n) + I(n)` … -/
example : EBCM_discrete_from_graph exW (1 / 2) (some [0]) (some [3]) none 0 2 false =
    .ok [[0, 1, 2], [2, 144 / 125, 233233472 / 244140625], [1, 106 / 125, 48016528 / 244140625], [1, 2, 356 / 125]] := by
  decide +kernel
/-- … and the attack rate after 2 iterations is `(I(2) + R(2))/4` of those data -/
example : Attack_rate_discrete_from_graph exW (1 / 2) (some [0]) (some [3]) none 2 = .ok (185832257 / 244140625) ∧
    ((48016528 / 244140625 + 356 / 125) / 4 : Rat) = 185832257 / 244140625 := by
  constructor <;> decide +kernel
example : Attack_rate_cts_time_from_graph exW 1 1 (some [0]) (some [3]) none 1 = .ok (3250337 / 4000000) ∧
    Attack_rate_cts_time_from_graph exW 1 (-1) (some [0]) (some [3]) none 1 = .error "ZeroDivisionError" := by
  constructor <;> decide +kernel
/-- without `initial_infecteds`: `rho = None` is the early return `Epi_Prob_discrete`; `rho = 1/4` the main branch;
`EBCM_discrete_from_graph` uses the default `rho = 1/N = 1/4` -/
example : Attack_rate_discrete_from_graph exW (1 / 2) none none none 1 = .ok (469489 / 1048576) ∧
    Attack_rate_discrete_from_graph exW (1 / 2) none none (some (1 / 4)) 1 = .ok (3467 / 8192) ∧
    EBCM_discrete_from_graph exW (1 / 2) none none none 0 1 false = .ok [[0, 1], [3, 4725 / 2048], [1, 1419 / 2048], [0, 1]] ∧
    ((1419 / 2048 + 1) / 4 : Rat) = 3467 / 8192 := by
  refine ⟨by decide +kernel, by decide +kernel, by decide +kernel, by decide +kernel⟩
/-- error cases: `rho` with a set; a foreign node; the empty graph with a set (ValueError), and — SURPRISE — the empty graph
without anything: the argument record is built (`Pk = {}`) and the BASE function raises ValueError (`Epi_Prob_discrete`),
resp. ZeroDivisionError with `rho` (default `phiS0`) -/
example : Attack_rate_discrete_from_graph exW (1 / 2) (some [0]) none (some (1 / 4)) 1 = .error "EoNError" ∧
    Attack_rate_discrete_from_graph exW (1 / 2) (some [7]) none none 1 = .error "EoNError" ∧
    Attack_rate_discrete_from_graph emptyW (1 / 2) (some []) none none 1 = .error "ValueError" ∧
    Attack_rate_discrete_from_graph emptyW (1 / 2) none none none 1 = .error "ValueError" ∧
    Attack_rate_discrete_from_graph emptyW (1 / 2) none none (some (1 / 2)) 1 = .error "ZeroDivisionError" ∧
    Attack_rate_cts_time_from_graph emptyW 1 1 none none none 1 = .error "ZeroDivisionError" := by
  refine ⟨by decide +kernel, by decide +kernel, by decide +kernel, by decide +kernel, by decide +kernel, by decide +kernel⟩
/-- ISOLATED NODES ARE FINE (`EBCM_discrete_from_graph_ok` needs no hypothesis on the degrees): edge 0–1 plus the isolated
node 2 (`isoW` of C06g), node 0 infected, `p = 1`: `phiS0 = 0` so `θ_1 = 0`, and the second step calls `psihatPrime(0)` —
which SKIPS the degree-0 class (`… for k in Pk if k>0`; before the correction of the source it evaluated `0.0 ** (-1)`:
ZeroDivisionError) and returns `ψ̂'(0) = 1/3`: the call SUCCEEDS, `S + I + R = 3` at every index (`(2,1,0)`, `(1,1,1)`,
`(1,0,2)`; `theta = 1, 0, 0`), and `Attack_rate_discrete_from_graph` returns `2/3 = (I(2) + R(2))/3` of those data; likewise
with `rho = 1` and with the default `rho = 1/3` -/
example : EBCM_discrete_from_graph isoW 1 (some [0]) none none 0 1 false = .ok [[0, 1], [2, 1], [1, 1], [0, 1]] ∧
    EBCM_discrete_from_graph isoW 1 (some [0]) none none 0 2 false = .ok [[0, 1, 2], [2, 1, 1], [1, 1, 0], [0, 1, 2]] ∧
    EBCM_discrete_from_graph isoW 1 (some [0]) none none 0 2 true =
      .ok [[0, 1, 2], [2, 1, 1], [1, 1, 0], [0, 1, 2], [1, 0, 0]] ∧
    ((2 + 1 + 0 : Rat) = 3 ∧ (1 + 1 + 1 : Rat) = 3 ∧ (1 + 0 + 2 : Rat) = 3) ∧
    Attack_rate_discrete_from_graph isoW 1 (some [0]) none none 2 = .ok (2 / 3) ∧ ((0 + 2) / 3 : Rat) = 2 / 3 ∧
    EBCM_discrete_from_graph isoW 1 none none (some 1) 0 2 false = .ok [[0, 1, 2], [0, 0, 0], [3, 0, 0], [0, 3, 3]] ∧
    EBCM_discrete_from_graph isoW 1 none none none 0 2 false =
      .ok [[0, 1, 2], [2, 14 / 9, 14 / 9], [1, 4 / 9, 0], [0, 1, 13 / 9]] := by
  refine ⟨by decide +kernel, by decide +kernel, by decide +kernel, ⟨by decide +kernel, by decide +kernel, by decide +kernel⟩,
    by decide +kernel, by decide +kernel, by decide +kernel, by decide +kernel⟩
/-- … `psihatPrime(0)` of those argument records: a value, not an exception (`1·Pk[1]·Sk0[1]·0^0/Nk[1] = (2/3)·1/2`) -/
example : ((EBCM_discrete_from_graph_args isoW 1 (some [0]) none none 0 2 false).toOption.bind
    fun a => (a.psihatPrime 0).toOption) = some (1 / 3) ∧
    ((EBCM_discrete_from_graph_args isoW 1 none none (some (1 / 2)) 0 2 false).toOption.bind
    fun a => (a.psihatPrime 0).toOption) = some (1 / 3) := by
  constructor <;> decide +kernel
/-- … and `EBCM_discrete_from_graph_ok` instantiated on `isoW` (an isolated node; explicit sets, `rho`, default; any `p`,
`tmin`, `tmax`) -/
theorem isoW_okW : GraphOKW isoW [[1], [0], []] :=
  ⟨GraphOK.of_check isoW.toIArgs [[1], [0], []] (by intro u; simp [isoW]) (by decide +kernel), fun u hu => by
    have : u = 0 ∨ u = 1 ∨ u = 2 := by simp at hu; omega
    rcases this with rfl | rfl | rfl <;> rfl⟩
example (p : Rat) (tmin tmax : Int) (full : Bool) :
    (∃ l, EBCM_discrete_from_graph isoW p (some [0]) none none tmin tmax full = .ok l) ∧
    (∃ l, EBCM_discrete_from_graph isoW p none none (some 1) tmin tmax full = .ok l) ∧
    (∃ l, EBCM_discrete_from_graph isoW p none none none tmin tmax full = .ok l) := by
  obtain ⟨h1, h2⟩ := EBCM_discrete_from_graph_ok isoW [[1], [0], []] isoW_okW p (by decide) tmin tmax full
  exact ⟨h1 [0] none ⟨by decide, by decide, by decide⟩, h2 none (some 1) (by simp), h2 none none (by simp)⟩
/-- the theorems instantiated on `exW` -/
example : ∃ times S I R : List Rat,
    EBCM_discrete_from_graph exW (1 / 2) (some [0]) (some [3]) none 0 2 false = .ok [times, S, I, R] ∧
    Attack_rate_discrete_from_graph exW (1 / 2) (some [0]) (some [3]) none 2 = .ok ((I.getD 2 0 + R.getD 2 0) / 4) ∧
    S.getD 0 0 = 2 ∧ I.getD 0 0 = 1 ∧ R.getD 0 0 = 1 := by
  have hS : SetsOK C06c.exAdj [0] ((some [3] : Option (List Node)).getD []) := ⟨by decide, by decide, by decide⟩
  obtain ⟨l, hl⟩ := (EBCM_discrete_from_graph_ok exW C06c.exAdj exW_okW (1 / 2) (by decide) 0 2 false).1
    [0] (some [3]) hS
  obtain ⟨times, S, I, R, e, h1, -⟩ := Attack_rate_discrete_from_graph_is_EBCM exW C06c.exAdj exW_okW (1 / 2) [0]
    (some [3]) hS (by decide) 2 l hl
  obtain ⟨-, -, S', I', R', g1, g2, g3, s0, i0, r0, -⟩ := EBCM_discrete_from_graph_init exW C06c.exAdj exW_okW (1 / 2) [0]
    (some [3]) hS (by decide) 0 2 false l hl
  subst e
  simp only [List.getElem?_cons_succ, List.getElem?_cons_zero, Option.some.injEq] at g1 g2 g3
  subst g1 g2 g3
  have c1 : count C06c.exAdj (statusOf [0] [3]) St.S = 2 := by decide +kernel
  have c2 : count C06c.exAdj (statusOf [0] [3]) St.I = 1 := by decide +kernel
  have c3 : count C06c.exAdj (statusOf [0] [3]) St.R = 1 := by decide +kernel
  have h4 : ((C06c.exAdj.length : Nat) : Rat) = 4 := by decide +kernel
  simp only [Option.getD_some] at s0 i0 r0
  rw [c1] at s0; rw [c2] at i0; rw [c3] at r0
  rw [h4] at h1
  exact ⟨times, S, I, R, hl, h1, by simpa using s0, by simpa using i0, by simpa using r0⟩

/-- `SIR_compact_effective_degree_from_graph`: the default request (`rho = 1/4`): `Skappa0 = (3/4)·[0,1,2,1]`,
`I0 = 1`, `SI0 = (3/4)(1/4)·8`; errors; and (NOT proved in general here) the explicit-sets record on `exW`: node 0
infected, node 3 recovered — node 1 has 2 non-recovered neighbours, node 2 has 2 (its neighbour 3 is recovered),
`SI0 = 2` -/
example : ((SIR_compact_effective_degree_from_graph_args exW 1 1 none none none 0 10 11 false).toOption.map
    fun a => (a.Skappa0, a.I0, a.R0, a.SI0)) = some ([0, 3 / 4, 3 / 2, 3 / 4], 1, 0, 3 / 2) := by decide +kernel
example : ((SIR_compact_effective_degree_from_graph_args exW 1 1 (some [0]) (some [3]) none 0 10 11 false).toOption.map
    fun a => (a.Skappa0, a.I0, a.R0, a.SI0)) = some ([0, 0, 2, 0], 1, 1, 2) := by decide +kernel
example : (match SIR_compact_effective_degree_from_graph_args exW 1 1 none (some [3]) (some (1 / 4)) 0 10 11 false with
    | .error e => e == "EoNError" | .ok _ => false) = true := by decide +kernel
example : (match SIR_compact_effective_degree_from_graph_args emptyW 1 1 none none none 0 10 11 false with
    | .error e => e == "ZeroDivisionError" | .ok _ => false) = true := by decide +kernel
example : (match SIR_compact_effective_degree_from_graph_args emptyW 1 1 none none (some (1 / 2)) 0 10 11 false with
    | .error e => e == "ValueError" | .ok _ => false) = true := by decide +kernel
example : ∃ l, SIR_compact_effective_degree_from_graph toyOdeint exW 1 1 none none none 0 10 11 true = .ok l ∧
    (∀ i, get l 1 i + get l 2 i + get l 3 i = 4) ∧ get l 1 0 = 3 ∧ get l 2 0 = 1 ∧ get l 3 0 = 0 := by
  have hex : ∃ l, SIR_compact_effective_degree_from_graph toyOdeint exW 1 1 none none none 0 10 11 true = .ok l := by
    unfold SIR_compact_effective_degree_from_graph
    rw [SIR_compact_effective_degree_args_rho exW C06c.exAdj exW_ok 1 1 none none (by simp) (by decide) 0 10 11 true]
    simp only [GenHelpProofs.ok_bind]
    obtain ⟨l, hl, -⟩ := C06d.SIR_compact_effective_degree_shape toyOdeint
      (V.ofList (vec (maxDeg C06c.exAdj) fun k => rhoSk C06c.exAdj ((none : Option Rat).getD (1 / (C06c.exAdj.length : Rat))) k))
      (rhoI C06c.exAdj ((none : Option Rat).getD (1 / (C06c.exAdj.length : Rat)))) 0
      (rhoSI C06c.exAdj ((none : Option Rat).getD (1 / (C06c.exAdj.length : Rat)))) 1 1 0 10 (11 : Int).toNat true
    exact ⟨l, hl⟩
  obtain ⟨l, h⟩ := hex
  obtain ⟨hc, hi⟩ := SIR_compact_effective_degree_from_graph_rho toyOdeint exW C06c.exAdj exW_ok 1 1 none none (by simp)
    0 10 11 true l h
  obtain ⟨i1, i2, i3⟩ := hi toyOdeint_zero
  have h4 : ((C06c.exAdj.length : Nat) : Rat) = 4 := by decide +kernel
  rw [h4] at hc
  refine ⟨l, h, hc, ?_, ?_, i3⟩
  · rw [i1]; simp [rhoS, h4]; norm_num
  · rw [i2]; simp [rhoI, h4]

end GenWrapProps3
