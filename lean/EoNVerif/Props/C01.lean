import EoNVerif.Model.Gillespie
