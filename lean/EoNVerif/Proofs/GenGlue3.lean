import EoNVerif.Proofs.GenGlue2
import EoNVerif.Model.PrefMixDiscrete
import Mathlib.Tactic.Ring
import Mathlib.Tactic.Linarith
/-!
Helper definitions and lemmas for C06i (`Props/C06i.lean`): the general loop of the GENERATED `EBCM_pref_mix_discrete`
(`Gen/OdeGlue2.lean`).

* degree-keyed dicts (association lists): `lkD` (lookup with default), `dGet` / `dSet` on dicts of the form
  `ks.map (k ↦ (k, F k))`;
* `List.mapM` in `Except`: all-ok / first-error lemmas;
* the `theta[k].append(newtheta[k])` loop;
* the concrete loop state `conc` that represents a model state `ODE.PrefMixDiscState` together with the lists built so
  far, and the loop lemmas `pm_loop_ok` / `pm_loop_err` for any body that satisfies the one-pass specification.
-/
namespace GenGlue3Proofs
open Gen PyGlue2 GenGlue2Proofs
open ODE (sumTo PrefMixDiscState prefMixDiscStep prefMixDiscRun prefMixDiscInit powPred)

/-! ## dicts -/

/-- `d.get(k, dflt)`: the value of the first entry with key `k` -/
def lkD {α : Type} (d : List (Nat × α)) (k : Nat) (dflt : α) : α :=
  match d.find? (fun kv => kv.1 == k) with
  | some kv => kv.2
  | none => dflt

/-- `d.keys()` -/
def keys {α : Type} (d : List (Nat × α)) : List Nat := d.map (·.1)

theorem dGet_cons_ne {α : Type} (a : Nat × α) (t : List (Nat × α)) (k : Nat) (h : a.1 ≠ k) :
    dGet (a :: t) k = dGet t k := by
  unfold dGet
  rw [List.find?_cons_of_neg (by simpa using h)]

theorem dGet_cons_eq {α : Type} (a : Nat × α) (t : List (Nat × α)) (k : Nat) (h : a.1 = k) :
    dGet (a :: t) k = .ok a.2 := by
  unfold dGet
  rw [List.find?_cons_of_pos (by simpa using h)]
  rfl

theorem lkD_cons_ne {α : Type} (a : Nat × α) (t : List (Nat × α)) (k : Nat) (dflt : α) (h : a.1 ≠ k) :
    lkD (a :: t) k dflt = lkD t k dflt := by
  unfold lkD
  rw [List.find?_cons_of_neg (by simpa using h)]

theorem lkD_cons_eq {α : Type} (a : Nat × α) (t : List (Nat × α)) (k : Nat) (dflt : α) (h : a.1 = k) :
    lkD (a :: t) k dflt = a.2 := by
  unfold lkD
  rw [List.find?_cons_of_pos (by simpa using h)]

theorem dGet_eq_ite {α : Type} (d : List (Nat × α)) (k : Nat) (dflt : α) :
    dGet d k = if k ∈ keys d then .ok (lkD d k dflt) else .error "KeyError" := by
  induction d with
  | nil => simp [dGet, keys]
  | cons a t ih =>
    by_cases h : a.1 = k
    · rw [dGet_cons_eq _ _ _ h, lkD_cons_eq _ _ _ _ h, if_pos (by simp [keys, h])]
    · have h' : ¬ k = a.1 := fun e => h e.symm
      rw [dGet_cons_ne _ _ _ h, lkD_cons_ne _ _ _ _ h, ih]
      have hm : (k ∈ keys (a :: t)) = (k ∈ keys t) := by simp [keys, h']
      simp only [hm]

theorem dGet_of_mem {α : Type} (d : List (Nat × α)) (k : Nat) (dflt : α) (h : k ∈ keys d) :
    dGet d k = .ok (lkD d k dflt) := by rw [dGet_eq_ite d k dflt, if_pos h]

theorem dGet_of_not_mem {α : Type} [Inhabited α] (d : List (Nat × α)) (k : Nat) (h : k ∉ keys d) :
    dGet d k = .error "KeyError" := by rw [dGet_eq_ite d k default, if_neg h]

/-- the dict `{k: F k for k in ks}` -/
def mkD {α : Type} (ks : List Nat) (F : Nat → α) : List (Nat × α) := ks.map fun k => (k, F k)

@[simp] theorem keys_mkD {α : Type} (ks : List Nat) (F : Nat → α) : keys (mkD ks F) = ks := by
  simp [keys, mkD, Function.comp_def]

theorem lkD_mkD {α : Type} (ks : List Nat) (F : Nat → α) (k : Nat) (dflt : α) (h : k ∈ ks) :
    lkD (mkD ks F) k dflt = F k := by
  induction ks with
  | nil => cases h
  | cons a t ih =>
    by_cases e : a = k
    · subst e
      exact lkD_cons_eq _ _ _ _ rfl
    · have : k ∈ t := by
        rcases List.mem_cons.mp h with h | h
        · exact absurd h.symm e
        · exact h
      have ih' := ih this
      have : mkD (a :: t) F = (a, F a) :: mkD t F := rfl
      rw [this, lkD_cons_ne _ _ _ _ e, ih']

theorem dGet_mkD {α : Type} (ks : List Nat) (F : Nat → α) (k : Nat) (h : k ∈ ks) : dGet (mkD ks F) k = .ok (F k) := by
  rw [dGet_of_mem _ _ (F k) (by simpa using h), lkD_mkD _ _ _ _ h]

theorem dGet_mkD_not {α : Type} (ks : List Nat) (F : Nat → α) (k : Nat) (h : k ∉ ks) :
    dGet (mkD ks F) k = .error "KeyError" := by
  rw [dGet_eq_ite _ _ (F k), if_neg (by simpa using h)]

theorem dGet_mkD_ite {α : Type} (ks : List Nat) (F : Nat → α) (k : Nat) :
    dGet (mkD ks F) k = if k ∈ ks then .ok (F k) else .error "KeyError" := by
  by_cases h : k ∈ ks
  · rw [if_pos h, dGet_mkD _ _ _ h]
  · rw [if_neg h, dGet_mkD_not _ _ _ h]

/-- `d[k] = x` on a dict with distinct keys that has the key `k` -/
theorem dSet_mkD {α : Type} (ks : List Nat) (hK : ks.Nodup) (F : Nat → α) (k : Nat) (x : α) (h : k ∈ ks) :
    dSet (mkD ks F) k x = mkD ks (fun a => if a = k then x else F a) := by
  induction ks with
  | nil => cases h
  | cons a t ih =>
    have hK' := List.nodup_cons.mp hK
    by_cases e : a = k
    · subst e
      have : mkD t (fun b => if b = a then x else F b) = mkD t F := by
        unfold mkD
        apply List.map_congr_left
        intro b hb
        have : b ≠ a := fun e => hK'.1 (e ▸ hb)
        simp [this]
      simp only [mkD, List.map_cons, dSet, if_true] at this ⊢
      rw [this]
    · have hk : k ∈ t := by
        rcases List.mem_cons.mp h with h | h
        · exact absurd h.symm e
        · exact h
      have ih' := ih hK'.2 hk
      simp only [mkD, List.map_cons, dSet, e, if_false] at ih' ⊢
      rw [ih']

theorem dlAppend_mkD (ks : List Nat) (hK : ks.Nodup) (F : Nat → List Rat) (k : Nat) (x : Rat) (h : k ∈ ks) :
    dlAppend (mkD ks F) k x = .ok (mkD ks (fun a => if a = k then F k ++ [x] else F a)) := by
  unfold dlAppend
  rw [dGet_mkD _ _ _ h, ok_bind, pure_eq_ok, dSet_mkD _ hK _ _ _ h]

@[simp] theorem lastE_concat {α : Type} (l : List α) (a : α) : lastE (l ++ [a]) = .ok a := by
  simp [lastE]

/-! ## `List.mapM` in `Except` -/

theorem mapM_ok_of_forall {α β : Type} (f : α → Except String β) (g : α → β) (l : List α)
    (h : ∀ a ∈ l, f a = .ok (g a)) : l.mapM f = .ok (l.map g) := by
  induction l with
  | nil => rfl
  | cons a t ih =>
    rw [List.mapM_cons, h a (List.mem_cons_self), ok_bind, ih (fun b hb => h b (List.mem_cons_of_mem _ hb))]
    rfl

/-- a failing `mapM` fails with the exception of one of its elements -/
theorem mapM_error_mem {α β : Type} (f : α → Except String β) (l : List α) (e : String)
    (h : l.mapM f = .error e) : ∃ a ∈ l, f a = .error e := by
  induction l with
  | nil => cases h
  | cons a t ih =>
    rw [List.mapM_cons] at h
    cases ha : f a with
    | error e' =>
      rw [ha, err_bind] at h
      injection h with h
      exact ⟨a, List.mem_cons_self, by rw [ha, h]⟩
    | ok y =>
      rw [ha, ok_bind] at h
      cases ht : t.mapM f with
      | error e' =>
        rw [ht, err_bind] at h
        injection h with h
        obtain ⟨b, hb, hb'⟩ := ih (by rw [ht, h])
        exact ⟨b, List.mem_cons_of_mem _ hb, hb'⟩
      | ok ys => rw [ht, ok_bind] at h; cases h

/-- `mapM` succeeds iff every element does -/
theorem mapM_ok_iff {α β : Type} (f : α → Except String β) (l : List α) :
    (∃ ys, l.mapM f = .ok ys) ↔ ∀ a ∈ l, ∃ y, f a = .ok y := by
  constructor
  · rintro ⟨ys, h⟩
    induction l generalizing ys with
    | nil => intro a ha; cases ha
    | cons a t ih =>
      rw [List.mapM_cons] at h
      cases ha : f a with
      | error e' => rw [ha, err_bind] at h; cases h
      | ok y =>
        rw [ha, ok_bind] at h
        cases ht : t.mapM f with
        | error e' => rw [ht, err_bind] at h; cases h
        | ok ys' =>
          intro b hb
          rcases List.mem_cons.mp hb with rfl | hb
          · exact ⟨y, ha⟩
          · exact ih ys' ht b hb
  · intro h
    induction l with
    | nil => exact ⟨[], rfl⟩
    | cons a t ih =>
      obtain ⟨y, hy⟩ := h a List.mem_cons_self
      obtain ⟨ys, hys⟩ := ih (fun b hb => h b (List.mem_cons_of_mem _ hb))
      exact ⟨y :: ys, by rw [List.mapM_cons, hy, ok_bind, hys]; rfl⟩

/-! ## the loop `for k in newtheta.keys(): theta[k].append(newtheta[k])` -/

theorem theta_loop_aux (ks : List Nat) (hK : ks.Nodup) (v : Nat → Rat) (l : List Nat) (hl : l.Nodup)
    (hsub : ∀ k ∈ l, k ∈ ks) (F : Nat → List Rat) :
    forIn l (mkD ks F) (fun k s => do
        let t ← dGet (mkD ks v) k
        let th ← dlAppend s k t
        Except.ok (ForInStep.yield th))
      = Except.ok (mkD ks fun k => if k ∈ l then F k ++ [v k] else F k) := by
  induction l generalizing F with
  | nil => simp [List.forIn_nil]
  | cons a t ih =>
    have hl' := List.nodup_cons.mp hl
    have ha : a ∈ ks := hsub a List.mem_cons_self
    rw [List.forIn_cons, dGet_mkD _ _ _ ha, ok_bind, dlAppend_mkD _ hK _ _ _ ha, ok_bind, ok_bind]
    simp only []
    rw [ih hl'.2 (fun k hk => hsub k (List.mem_cons_of_mem _ hk))]
    congr 1
    unfold mkD
    apply List.map_congr_left
    intro k _
    by_cases e : k = a
    · subst e; simp [hl'.1]
    · simp [e]

theorem theta_loop (ks : List Nat) (hK : ks.Nodup) (v : Nat → Rat) (F : Nat → List Rat) :
    forIn ks (mkD ks F) (fun k s => do
        let t ← dGet (mkD ks v) k
        let th ← dlAppend s k t
        Except.ok (ForInStep.yield th))
      = Except.ok (mkD ks fun k => F k ++ [v k]) := by
  rw [theta_loop_aux ks hK v ks hK (fun _ h => h) F]
  congr 1
  unfold mkD
  apply List.map_congr_left
  intro k hk
  simp [hk]

/-! ## `x ** (k − 1)` -/

theorem zpowE_pred (x : Rat) (k : Nat) :
    zpowE x (((k : Nat) : Int) - 1) = if k = 0 ∧ x = 0 then .error "ZeroDivisionError" else .ok (powPred x k) := by
  unfold zpowE powPred
  by_cases hk : k = 0
  · subst hk
    by_cases hx : x = 0
    · subst hx; simp
    · simp [hx]
  · have h1 : ((k : Nat) : Int) - 1 ≥ 0 := by omega
    have h2 : (((k : Nat) : Int) - 1).toNat = k - 1 := by omega
    simp [hk, h2]

/-! ## the loop of `EBCM_pref_mix_discrete` -/

/-- the loop-carried tuple of the generated code: `times, theta, R, S, I, phiS, phiI, phiR, newtheta, newR, newS, newI` -/
abbrev CS : Type :=
  List Int × List (Nat × List Rat) × List Rat × List Rat × List Rat × List (Nat × Rat) × List (Nat × Rat) ×
    List (Nat × Rat) × List (Nat × Rat) × Rat × Rat × Rat

/-- `Pnk[k1][k2] * theta[k2][-1] ** (k2 - 1)` as evaluated by the generated code -/
def phiSInner (Pnk : List (Nat × List (Nat × Rat))) (th : List (Nat × List Rat)) (k1 k2 : Nat) : Except String Rat := do
  let t_10 ← dGet Pnk k1
  let t_11 ← dGet t_10 k2
  let t_12 ← dGet th k2
  let t_13 ← lastE t_12
  let t_14 ← zpowE t_13 (((k2 : Nat) : Int) - 1)
  Except.ok (t_11 * t_14)

/-- the entry `k1` of the dict comprehension that defines the new `phiS` -/
def phiSElem (Pnk : List (Nat × List (Nat × Rat))) (r : Rat) (th : List (Nat × List Rat)) (k1 : Nat) :
    Except String (Nat × Rat) := do
  let t_9 ← dGet Pnk k1
  let l_7 ← (t_9.map (·.1)).mapM (phiSInner Pnk th k1)
  Except.ok (k1, (1 - r) * sumRat l_7)

/-- the dict comprehension that defines the new `phiS` (the only statement of the loop that can raise) -/
def phiSE (Pk : List (Nat × Rat)) (Pnk : List (Nat × List (Nat × Rat))) (r : Rat) (th : List (Nat × List Rat)) :
    Except String (List (Nat × Rat)) :=
  (Pk.map (·.1)).mapM (phiSElem Pnk r th)

/-- the loop body of the generated `EBCM_pref_mix_discrete` (with `rho` resolved to `r`) -/
def pmBody (N : Rat) (Pk : List (Nat × Rat)) (Pnk : List (Nat × List (Nat × Rat))) (p r : Rat) (time : Int) (s : CS) :
    Except String (ForInStep CS) := do
  let l_5 ← (Pk.map (·.1)).mapM (fun k_4 => do
      let t_1 ← dGet s.2.1 k_4
      let t_2 ← lastE t_1
      let t_3 ← dGet s.2.2.2.2.2.2.1 k_4
      Except.ok (k_4, t_2 - p * t_3))
  let t_4 ← lastE s.2.2.1
  let t_5 ← lastE s.2.2.2.2.1
  let l_6 ← (Pk.map (·.1)).mapM (fun k_5 => do
      let t_6 ← dGet Pk k_5
      let t_7 ← dGet l_5 k_5
      Except.ok (t_6 * t_7 ^ k_5))
  let s_1 ← forIn (l_5.map (·.1)) s.2.1 (fun k_6 s' => do
      let t_8 ← dGet l_5 k_6
      let theta ← dlAppend s' k_6 t_8
      Except.ok (ForInStep.yield theta))
  let l_8 ← phiSE Pk Pnk r s_1
  let l_9 ← (Pk.map (·.1)).mapM (fun k_7 => do
      let t_15 ← dGet s.2.2.2.2.2.2.2.1 k_7
      let t_16 ← dGet s.2.2.2.2.2.2.1 k_7
      Except.ok (k_7, t_15 + (1 - p) * t_16))
  let l_10 ← (Pk.map (·.1)).mapM (fun k_8 => do
      let t_17 ← dGet s_1 k_8
      let t_18 ← lastE t_17
      let t_19 ← dGet l_8 k_8
      let t_20 ← dGet l_9 k_8
      Except.ok (k_8, t_18 - t_19 - t_20))
  Except.ok (ForInStep.yield
    (s.1 ++ [time], s_1, s.2.2.1 ++ [t_4 + t_5], s.2.2.2.1 ++ [N * (1 - r) * sumRat l_6],
      s.2.2.2.2.1 ++ [N - (t_4 + t_5) - N * (1 - r) * sumRat l_6], l_8, l_10, l_9, l_5, t_4 + t_5,
      N * (1 - r) * sumRat l_6, N - (t_4 + t_5) - N * (1 - r) * sumRat l_6))

/-- the tuple before the loop -/
def pmInitCS (N : Rat) (Pk : List (Nat × Rat)) (r : Rat) (tmin : Int) : CS :=
  ([tmin], mkD (keys Pk) (fun _ => [1]), [0], [N * (1 - r)], [N * r], mkD (keys Pk) (fun _ => 1 - r),
    mkD (keys Pk) (fun _ => r), mkD (keys Pk) (fun _ => 0), [], 0, 0, 0)

/-- what is returned from the final tuple -/
def pmOut (full : Bool) (s : CS) : V × List Out :=
  if full then
    (PyGlue2.V0, [Out.v (V.ofList (s.1.map fun (z : Int) => (z : Rat))), Out.v (V.ofList s.2.2.2.1),
      Out.v (V.ofList s.2.2.2.2.1), Out.v (V.ofList s.2.2.1), Out.dl s.2.1])
  else
    (PyGlue2.V0, [Out.v (V.ofList (s.1.map fun (z : Int) => (z : Rat))), Out.v (V.ofList s.2.2.2.1),
      Out.v (V.ofList s.2.2.2.2.1), Out.v (V.ofList s.2.2.1)])

theorem mapM_ok_eq' {α β : Type} (g : α → β) (l : List α) :
    l.mapM (fun a => (Except.ok (g a) : Except String β)) = .ok (l.map g) :=
  mapM_ok_of_forall _ g l (fun _ _ => rfl)

/-- the generated function with `rho` given is the loop `pmBody` from `pmInitCS`, then `pmOut` -/
theorem gen_eq_forIn (odeint myodeint : GenGlueProofs.Solver) (N : Rat) (Pk : List (Nat × Rat))
    (Pnk : List (Nat × List (Nat × Rat))) (p r : Rat) (tmin tmax : Int) (full : Bool) :
    GenGlue2.EBCM_pref_mix_discrete odeint myodeint N Pk Pnk p (some r) tmin tmax full =
      (forIn (irange (tmin + 1) (tmax + 1)) (pmInitCS N Pk r tmin) (pmBody N Pk Pnk p r)) >>= fun s =>
        .ok (pmOut full s) := by
  unfold GenGlue2.EBCM_pref_mix_discrete
  simp only [Option.isNone_some, Bool.false_eq_true, if_false, need_some, ok_bind, pure_eq_ok, mapM_ok_eq']
  cases full <;> rfl

theorem mapM_mkD {α : Type} (f : Nat → Except String (Nat × α)) (g : Nat → α) (l : List Nat)
    (h : ∀ a ∈ l, f a = .ok (a, g a)) : l.mapM f = .ok (mkD l g) :=
  mapM_ok_of_forall f (fun a => (a, g a)) l h

theorem map_fst_mkD {α : Type} (ks : List Nat) (F : Nat → α) : (mkD ks F).map (·.1) = ks := keys_mkD ks F

/-- `Pk[k]` (0 for a missing key) -/
def pkF (Pk : List (Nat × Rat)) : Nat → Rat := fun k => lkD Pk k 0
/-- `Pnk[k1].keys()` (empty for a missing key) -/
def nksF (Pnk : List (Nat × List (Nat × Rat))) : Nat → List Nat := fun k1 => keys (lkD Pnk k1 [])
/-- `Pnk[k1][k2]` (0 for a missing key) -/
def pnkF (Pnk : List (Nat × List (Nat × Rat))) : Nat → Nat → Rat := fun k1 k2 => lkD (lkD Pnk k1 []) k2 0

/-- one pass of the hand model `ODE.prefMixDiscStep` on the dicts of the generated code -/
def pmStep (N : Rat) (Pk : List (Nat × Rat)) (Pnk : List (Nat × List (Nat × Rat))) (p r : Rat) :
    PrefMixDiscState → PrefMixDiscState :=
  prefMixDiscStep (keys Pk) (nksF Pnk) N r p (pkF Pk) (pnkF Pnk)

/-- every key of `Pk` is a key of `Pnk`, and every key of `Pnk[k1]` (`k1` a key of `Pk`) is a key of `Pk` -/
def KeysOK (Pk : List (Nat × Rat)) (Pnk : List (Nat × List (Nat × Rat))) : Prop :=
  ∀ k1 ∈ keys Pk, k1 ∈ keys Pnk ∧ ∀ k2 ∈ nksF Pnk k1, k2 ∈ keys Pk

/-- `theta[0] ** (0 - 1)` is not evaluated at `theta[0] = 0`: degree 0 is not a key of any `Pnk[k1]` used, or
`theta[0] ≠ 0` -/
def ZeroOK (Pk : List (Nat × Rat)) (Pnk : List (Nat × List (Nat × Rat))) (θ : Nat → Rat) : Prop :=
  (∃ k1 ∈ keys Pk, 0 ∈ nksF Pnk k1) → 0 ∈ keys Pk → θ 0 ≠ 0

/-- the tuple that represents the model state `st`, the lists built so far and the last computed `new…` values -/
def conc (ks : List Nat) (tm : List Int) (Th : Nat → List Rat) (Rl Sl Il : List Rat) (st : PrefMixDiscState)
    (j1 : List (Nat × Rat)) (j2 j3 j4 : Rat) : CS :=
  (tm, mkD ks (fun k => Th k ++ [st.theta k]), Rl ++ [st.R], Sl ++ [st.S], Il ++ [st.I], mkD ks st.phiS,
    mkD ks st.phiI, mkD ks st.phiR, j1, j2, j3, j4)

/-- closed form of one term of the new `phiS[k1]` (for a key `k1` of `Pnk` and a key `k2` of `Pnk[k1]`) -/
theorem phiSInner_eq (ks : List Nat) (Pnk : List (Nat × List (Nat × Rat))) (L : Nat → List Rat) (θ : Nat → Rat)
    (k1 k2 : Nat) (h1 : k1 ∈ keys Pnk) (h2 : k2 ∈ nksF Pnk k1) :
    phiSInner Pnk (mkD ks fun k => L k ++ [θ k]) k1 k2 =
      if k2 ∈ ks then
        (if k2 = 0 ∧ θ k2 = 0 then .error "ZeroDivisionError" else .ok (pnkF Pnk k1 k2 * powPred (θ k2) k2))
      else .error "KeyError" := by
  unfold phiSInner
  rw [dGet_of_mem Pnk k1 [] h1, ok_bind, dGet_of_mem _ k2 0 h2, ok_bind, dGet_mkD_ite]
  by_cases hk2 : k2 ∈ ks
  · rw [if_pos hk2, if_pos hk2, ok_bind, lastE_concat, ok_bind, zpowE_pred]
    by_cases hz : k2 = 0 ∧ θ k2 = 0
    · rw [if_pos hz, if_pos hz]; rfl
    · rw [if_neg hz, if_neg hz]; rfl
  · rw [if_neg hk2, if_neg hk2]; rfl

/-- **the new `phiS`, normal case** -/
theorem phiSE_ok (Pk : List (Nat × Rat)) (Pnk : List (Nat × List (Nat × Rat))) (r : Rat) (hk : KeysOK Pk Pnk)
    (L : Nat → List Rat) (θ : Nat → Rat) (hz : ZeroOK Pk Pnk θ) :
    phiSE Pk Pnk r (mkD (keys Pk) fun k => L k ++ [θ k]) =
      .ok (mkD (keys Pk) fun k1 =>
        (1 - r) * sumRat ((nksF Pnk k1).map fun k2 => pnkF Pnk k1 k2 * powPred (θ k2) k2)) := by
  unfold phiSE
  apply mapM_mkD
  intro k1 hk1
  unfold phiSElem
  rw [dGet_of_mem Pnk k1 [] (hk k1 hk1).1, ok_bind]
  rw [mapM_ok_of_forall _ (fun k2 => pnkF Pnk k1 k2 * powPred (θ k2) k2) _ (fun k2 hk2 => by
    have hk2' : k2 ∈ keys Pk := (hk k1 hk1).2 k2 hk2
    rw [phiSInner_eq _ _ _ _ _ _ (hk k1 hk1).1 hk2, if_pos hk2', if_neg]
    rintro ⟨rfl, h0⟩
    exact hz ⟨k1, hk1, hk2⟩ hk2' h0)]
  rfl

/-- **the new `phiS`, exceptions**: when the key condition or the zero condition fails the comprehension raises;
`KeyError` only if the key condition fails, `ZeroDivisionError` only if the zero condition fails -/
theorem phiSE_err (Pk : List (Nat × Rat)) (Pnk : List (Nat × List (Nat × Rat))) (r : Rat)
    (L : Nat → List Rat) (θ : Nat → Rat) (h : ¬ (KeysOK Pk Pnk ∧ ZeroOK Pk Pnk θ)) :
    ∃ e, phiSE Pk Pnk r (mkD (keys Pk) fun k => L k ++ [θ k]) = .error e ∧
      ((e = "KeyError" ∧ ¬ KeysOK Pk Pnk) ∨ (e = "ZeroDivisionError" ∧ ¬ ZeroOK Pk Pnk θ)) := by
  -- what the failure of one element says
  have elem : ∀ k1 ∈ keys Pk, ∀ e, phiSElem Pnk r (mkD (keys Pk) fun k => L k ++ [θ k]) k1 = .error e →
      ((e = "KeyError" ∧ ¬ KeysOK Pk Pnk) ∨ (e = "ZeroDivisionError" ∧ ¬ ZeroOK Pk Pnk θ)) := by
    intro k1 hk1 e he
    unfold phiSElem at he
    by_cases h1 : k1 ∈ keys Pnk
    · rw [dGet_of_mem Pnk k1 [] h1, ok_bind] at he
      cases hm : ((lkD Pnk k1 []).map (·.1)).mapM (phiSInner Pnk (mkD (keys Pk) fun k => L k ++ [θ k]) k1) with
      | ok ys => rw [hm, ok_bind] at he; cases he
      | error e' =>
        rw [hm, err_bind] at he
        injection he with he
        subst he
        obtain ⟨k2, hk2, hk2e⟩ := mapM_error_mem _ _ _ hm
        rw [phiSInner_eq _ _ _ _ _ _ h1 hk2] at hk2e
        by_cases hk2' : k2 ∈ keys Pk
        · rw [if_pos hk2'] at hk2e
          by_cases hz : k2 = 0 ∧ θ k2 = 0
          · rw [if_pos hz] at hk2e
            injection hk2e with hk2e
            obtain ⟨rfl, h0⟩ := hz
            exact Or.inr ⟨hk2e.symm, fun hz' => hz' ⟨k1, hk1, hk2⟩ hk2' h0⟩
          · rw [if_neg hz] at hk2e; cases hk2e
        · rw [if_neg hk2'] at hk2e
          injection hk2e with hk2e
          exact Or.inl ⟨hk2e.symm, fun hk => hk2' ((hk k1 hk1).2 k2 hk2)⟩
    · rw [dGet_eq_ite Pnk k1 [], if_neg h1, err_bind] at he
      injection he with he
      exact Or.inl ⟨he.symm, fun hk => h1 (hk k1 hk1).1⟩
  cases hm : phiSE Pk Pnk r (mkD (keys Pk) fun k => L k ++ [θ k]) with
  | error e =>
    obtain ⟨k1, hk1, hk1e⟩ := mapM_error_mem _ _ _ hm
    exact ⟨e, rfl, elem k1 hk1 e hk1e⟩
  | ok ys =>
    exfalso
    apply h
    have hall := (mapM_ok_iff _ _).mp ⟨ys, hm⟩
    have key : ∀ k1 ∈ keys Pk, k1 ∈ keys Pnk ∧ ∀ k2 ∈ nksF Pnk k1, k2 ∈ keys Pk ∧ ¬ (k2 = 0 ∧ θ k2 = 0) := by
      intro k1 hk1
      obtain ⟨y, hy⟩ := hall k1 hk1
      unfold phiSElem at hy
      by_cases h1 : k1 ∈ keys Pnk
      · refine ⟨h1, ?_⟩
        rw [dGet_of_mem Pnk k1 [] h1, ok_bind] at hy
        cases hm' : ((lkD Pnk k1 []).map (·.1)).mapM (phiSInner Pnk (mkD (keys Pk) fun k => L k ++ [θ k]) k1) with
        | error e' => rw [hm', err_bind] at hy; cases hy
        | ok zs =>
          have hall' := (mapM_ok_iff _ _).mp ⟨zs, hm'⟩
          intro k2 hk2
          obtain ⟨z, hz⟩ := hall' k2 hk2
          rw [phiSInner_eq _ _ _ _ _ _ h1 hk2] at hz
          by_cases hk2' : k2 ∈ keys Pk
          · refine ⟨hk2', fun hzz => ?_⟩
            rw [if_pos hk2', if_pos hzz] at hz
            cases hz
          · rw [if_neg hk2'] at hz; cases hz
      · rw [dGet_eq_ite Pnk k1 [], if_neg h1, err_bind] at hy
        cases hy
    refine ⟨fun k1 hk1 => ⟨(key k1 hk1).1, fun k2 hk2 => ((key k1 hk1).2 k2 hk2).1⟩, ?_⟩
    rintro ⟨k1, hk1, h0⟩ _ hθ
    exact ((key k1 hk1).2 0 h0).2 ⟨rfl, hθ⟩

/-- **one pass, normal case** -/
theorem pmBody_ok (N : Rat) (Pk : List (Nat × Rat)) (Pnk : List (Nat × List (Nat × Rat))) (p r : Rat)
    (hK : (keys Pk).Nodup) (hk : KeysOK Pk Pnk) (st : PrefMixDiscState)
    (hz : ZeroOK Pk Pnk (pmStep N Pk Pnk p r st).theta)
    (tm : List Int) (Th : Nat → List Rat) (Rl Sl Il : List Rat) (j1 : List (Nat × Rat)) (j2 j3 j4 : Rat) (t : Int) :
    pmBody N Pk Pnk p r t (conc (keys Pk) tm Th Rl Sl Il st j1 j2 j3 j4) =
      .ok (.yield (conc (keys Pk) (tm ++ [t]) (fun k => Th k ++ [st.theta k]) (Rl ++ [st.R]) (Sl ++ [st.S])
        (Il ++ [st.I]) (pmStep N Pk Pnk p r st) (mkD (keys Pk) (pmStep N Pk Pnk p r st).theta)
        (pmStep N Pk Pnk p r st).R (pmStep N Pk Pnk p r st).S (pmStep N Pk Pnk p r st).I)) := by
  have hks : Pk.map (·.1) = keys Pk := rfl
  unfold pmBody conc
  simp only [hks]
  rw [mapM_mkD _ (fun k => st.theta k - p * st.phiI k) _
    (fun k hk => by rw [dGet_mkD _ _ _ hk, ok_bind, lastE_concat, ok_bind, dGet_mkD _ _ _ hk, ok_bind])]
  rw [ok_bind, lastE_concat, ok_bind, lastE_concat, ok_bind]
  rw [mapM_ok_of_forall _ (fun k => pkF Pk k * (st.theta k - p * st.phiI k) ^ k) _
    (fun k hk => by rw [dGet_of_mem Pk k 0 hk, ok_bind, dGet_mkD _ _ _ hk, ok_bind]; rfl)]
  rw [ok_bind, map_fst_mkD, theta_loop _ hK, ok_bind]
  rw [phiSE_ok Pk Pnk r hk _ (fun k => st.theta k - p * st.phiI k) hz, ok_bind]
  rw [mapM_mkD _ (pmStep N Pk Pnk p r st).phiR _
    (fun k hk => by rw [dGet_mkD _ _ _ hk, ok_bind, dGet_mkD _ _ _ hk, ok_bind]; rfl)]
  rw [ok_bind]
  rw [mapM_mkD _ (pmStep N Pk Pnk p r st).phiI _
    (fun k hk => by
      rw [dGet_mkD _ _ _ hk, ok_bind, lastE_concat, ok_bind, dGet_mkD _ _ _ hk, ok_bind, dGet_mkD _ _ _ hk, ok_bind]; rfl)]
  rfl

/-- **one pass, exceptions**: raised by the `phiS` comprehension, after `theta`, `R`, `S`, `I` were extended -/
theorem pmBody_err (N : Rat) (Pk : List (Nat × Rat)) (Pnk : List (Nat × List (Nat × Rat))) (p r : Rat)
    (hK : (keys Pk).Nodup) (st : PrefMixDiscState)
    (h : ¬ (KeysOK Pk Pnk ∧ ZeroOK Pk Pnk (pmStep N Pk Pnk p r st).theta))
    (tm : List Int) (Th : Nat → List Rat) (Rl Sl Il : List Rat) (j1 : List (Nat × Rat)) (j2 j3 j4 : Rat) (t : Int) :
    ∃ e, pmBody N Pk Pnk p r t (conc (keys Pk) tm Th Rl Sl Il st j1 j2 j3 j4) = .error e ∧
      ((e = "KeyError" ∧ ¬ KeysOK Pk Pnk) ∨
        (e = "ZeroDivisionError" ∧ ¬ ZeroOK Pk Pnk (pmStep N Pk Pnk p r st).theta)) := by
  obtain ⟨e, he, hd⟩ := phiSE_err Pk Pnk r (fun k => Th k ++ [st.theta k]) (fun k => st.theta k - p * st.phiI k) h
  refine ⟨e, ?_, hd⟩
  have hks : Pk.map (·.1) = keys Pk := rfl
  unfold pmBody conc
  simp only [hks]
  rw [mapM_mkD _ (fun k => st.theta k - p * st.phiI k) _
    (fun k hk => by rw [dGet_mkD _ _ _ hk, ok_bind, lastE_concat, ok_bind, dGet_mkD _ _ _ hk, ok_bind])]
  rw [ok_bind, lastE_concat, ok_bind, lastE_concat, ok_bind]
  rw [mapM_ok_of_forall _ (fun k => pkF Pk k * (st.theta k - p * st.phiI k) ^ k) _
    (fun k hk => by rw [dGet_of_mem Pk k 0 hk, ok_bind, dGet_mkD _ _ _ hk, ok_bind]; rfl)]
  rw [ok_bind, map_fst_mkD, theta_loop _ hK, ok_bind, he]
  rfl

/-- the condition under which pass number `j + 1` from the state `st` does not raise -/
def Good (N : Rat) (Pk : List (Nat × Rat)) (Pnk : List (Nat × List (Nat × Rat))) (p r : Rat) (st : PrefMixDiscState) :
    Prop :=
  KeysOK Pk Pnk ∧ ZeroOK Pk Pnk (pmStep N Pk Pnk p r st).theta

theorem range_succ_map_append {α : Type} (F : Nat → α) (m : Nat) (a : List α) :
    a ++ [F 0] ++ (List.range m).map (fun j => F (j + 1)) = a ++ (List.range (m + 1)).map F := by
  rw [List.range_succ_eq_map, List.map_cons, List.map_map, List.append_assoc]
  rfl

/-- **the loop, normal case**: every pass extends the lists by the next model state -/
theorem pm_loop_ok (N : Rat) (Pk : List (Nat × Rat)) (Pnk : List (Nat × List (Nat × Rat))) (p r : Rat)
    (hK : (keys Pk).Nodup) (steps : List Int) (st : PrefMixDiscState)
    (hg : ∀ j, j < steps.length → Good N Pk Pnk p r ((pmStep N Pk Pnk p r)^[j] st))
    (tm : List Int) (Th : Nat → List Rat) (Rl Sl Il : List Rat) (j1 : List (Nat × Rat)) (j2 j3 j4 : Rat) :
    ∃ j1' j2' j3' j4', forIn steps (conc (keys Pk) tm Th Rl Sl Il st j1 j2 j3 j4) (pmBody N Pk Pnk p r) =
      .ok (conc (keys Pk) (tm ++ steps)
        (fun k => Th k ++ (List.range steps.length).map (fun j => ((pmStep N Pk Pnk p r)^[j] st).theta k))
        (Rl ++ (List.range steps.length).map (fun j => ((pmStep N Pk Pnk p r)^[j] st).R))
        (Sl ++ (List.range steps.length).map (fun j => ((pmStep N Pk Pnk p r)^[j] st).S))
        (Il ++ (List.range steps.length).map (fun j => ((pmStep N Pk Pnk p r)^[j] st).I))
        ((pmStep N Pk Pnk p r)^[steps.length] st) j1' j2' j3' j4') := by
  induction steps generalizing st tm Th Rl Sl Il j1 j2 j3 j4 with
  | nil => exact ⟨j1, j2, j3, j4, by simp [List.forIn_nil]⟩
  | cons t ts ih =>
    have h0 := hg 0 (by simp)
    rw [Function.iterate_zero, id_eq] at h0
    rw [List.forIn_cons, pmBody_ok N Pk Pnk p r hK h0.1 st h0.2, ok_bind]
    simp only []
    obtain ⟨j1', j2', j3', j4', h⟩ := ih (pmStep N Pk Pnk p r st)
      (fun j hj => by
        have := hg (j + 1) (by simp; omega)
        rwa [Function.iterate_succ_apply] at this)
      (tm ++ [t]) (fun k => Th k ++ [st.theta k]) (Rl ++ [st.R]) (Sl ++ [st.S]) (Il ++ [st.I])
      (mkD (keys Pk) (pmStep N Pk Pnk p r st).theta) (pmStep N Pk Pnk p r st).R (pmStep N Pk Pnk p r st).S
      (pmStep N Pk Pnk p r st).I
    refine ⟨j1', j2', j3', j4', ?_⟩
    rw [h]
    simp only [List.length_cons, ← Function.iterate_succ_apply]
    have e1 := fun k => range_succ_map_append (fun j => ((pmStep N Pk Pnk p r)^[j] st).theta k) ts.length (Th k)
    have e2 := range_succ_map_append (fun j => ((pmStep N Pk Pnk p r)^[j] st).R) ts.length Rl
    have e3 := range_succ_map_append (fun j => ((pmStep N Pk Pnk p r)^[j] st).S) ts.length Sl
    have e4 := range_succ_map_append (fun j => ((pmStep N Pk Pnk p r)^[j] st).I) ts.length Il
    simp only [Function.iterate_zero, id_eq] at e1 e2 e3 e4
    simp only [e1, e2, e3, e4, List.append_assoc, List.singleton_append]

/-- **the loop, exceptions**: the first pass whose condition fails raises -/
theorem pm_loop_err (N : Rat) (Pk : List (Nat × Rat)) (Pnk : List (Nat × List (Nat × Rat))) (p r : Rat)
    (hK : (keys Pk).Nodup) (steps : List Int) (st : PrefMixDiscState) (j0 : Nat) (hj0 : j0 < steps.length)
    (hg : ∀ j, j < j0 → Good N Pk Pnk p r ((pmStep N Pk Pnk p r)^[j] st))
    (hb : ¬ Good N Pk Pnk p r ((pmStep N Pk Pnk p r)^[j0] st))
    (tm : List Int) (Th : Nat → List Rat) (Rl Sl Il : List Rat) (j1 : List (Nat × Rat)) (j2 j3 j4 : Rat) :
    ∃ e, forIn steps (conc (keys Pk) tm Th Rl Sl Il st j1 j2 j3 j4) (pmBody N Pk Pnk p r) = .error e ∧
      ((e = "KeyError" ∧ ¬ KeysOK Pk Pnk) ∨
        (e = "ZeroDivisionError" ∧ ¬ ZeroOK Pk Pnk ((pmStep N Pk Pnk p r)^[j0 + 1] st).theta)) := by
  induction steps generalizing st j0 tm Th Rl Sl Il j1 j2 j3 j4 with
  | nil => simp at hj0
  | cons t ts ih =>
    cases j0 with
    | zero =>
      rw [Function.iterate_zero, id_eq] at hb
      obtain ⟨e, he, hd⟩ := pmBody_err N Pk Pnk p r hK st hb tm Th Rl Sl Il j1 j2 j3 j4 t
      exact ⟨e, by rw [List.forIn_cons, he]; rfl, hd⟩
    | succ j0 =>
      have h0 := hg 0 (by omega)
      rw [Function.iterate_zero, id_eq] at h0
      rw [List.forIn_cons, pmBody_ok N Pk Pnk p r hK h0.1 st h0.2, ok_bind]
      simp only []
      obtain ⟨e, he, hd⟩ := ih (pmStep N Pk Pnk p r st) j0 (by simp at hj0; omega)
        (fun j hj => by
          have := hg (j + 1) (by omega)
          rwa [Function.iterate_succ_apply] at this)
        (by rwa [Function.iterate_succ_apply] at hb)
        (tm ++ [t]) (fun k => Th k ++ [st.theta k]) (Rl ++ [st.R]) (Sl ++ [st.S]) (Il ++ [st.I])
        (mkD (keys Pk) (pmStep N Pk Pnk p r st).theta) (pmStep N Pk Pnk p r st).R (pmStep N Pk Pnk p r st).S
        (pmStep N Pk Pnk p r st).I
      refine ⟨e, he, ?_⟩
      rw [Function.iterate_succ_apply]
      exact hd

/-! ## the whole function -/

/-- the hand model `ODE.prefMixDiscRun` on the dicts of the generated code: the state after `n` passes -/
def pmRun (N : Rat) (Pk : List (Nat × Rat)) (Pnk : List (Nat × List (Nat × Rat))) (p r : Rat) (n : Nat) :
    PrefMixDiscState :=
  prefMixDiscRun (keys Pk) (nksF Pnk) N r p (pkF Pk) (pnkF Pnk) n

theorem pmRun_eq_iterate (N : Rat) (Pk : List (Nat × Rat)) (Pnk : List (Nat × List (Nat × Rat))) (p r : Rat) (n : Nat) :
    pmRun N Pk Pnk p r n = (pmStep N Pk Pnk p r)^[n] (prefMixDiscInit N r) := by
  induction n with
  | zero => rfl
  | succ n ih =>
    rw [Function.iterate_succ_apply', ← ih]
    rfl

theorem irange_length (tmin tmax : Int) : (irange (tmin + 1) (tmax + 1)).length = (tmax - tmin).toNat := by
  simp [irange]

theorem times_eq (tmin tmax : Int) :
    ([tmin] ++ irange (tmin + 1) (tmax + 1)).map (fun (z : Int) => (z : Rat)) =
      (List.range ((tmax - tmin).toNat + 1)).map (fun (j : Nat) => ((tmin + (j : Int) : Int) : Rat)) := by
  have h : (tmax + 1 - (tmin + 1)).toNat = (tmax - tmin).toNat := by omega
  unfold irange
  rw [h, List.range_succ_eq_map]
  simp only [List.map_cons, List.map_map, List.singleton_append]
  congr 1
  · simp
  · apply List.map_congr_left
    intro j _
    simp only [Function.comp_apply, Int.ofNat_eq_natCast]
    push_cast
    ring

/-- the value returned after `m = (tmax − tmin).toNat` passes: `times`, `S`, `I`, `R` (and the dict `theta`) are the
columns of the model run `pmRun 0 … pmRun m` -/
def pmResult (N : Rat) (Pk : List (Nat × Rat)) (Pnk : List (Nat × List (Nat × Rat))) (p r : Rat) (tmin : Int) (m : Nat)
    (full : Bool) : V × List Out :=
  let times := (List.range (m + 1)).map (fun (j : Nat) => ((tmin + (j : Int) : Int) : Rat))
  let S := (List.range (m + 1)).map (fun j => (pmRun N Pk Pnk p r j).S)
  let I := (List.range (m + 1)).map (fun j => (pmRun N Pk Pnk p r j).I)
  let R := (List.range (m + 1)).map (fun j => (pmRun N Pk Pnk p r j).R)
  let theta := mkD (keys Pk) (fun k => (List.range (m + 1)).map (fun j => (pmRun N Pk Pnk p r j).theta k))
  if full then (PyGlue2.V0, [Out.v (V.ofList times), Out.v (V.ofList S), Out.v (V.ofList I), Out.v (V.ofList R),
    Out.dl theta])
  else (PyGlue2.V0, [Out.v (V.ofList times), Out.v (V.ofList S), Out.v (V.ofList I), Out.v (V.ofList R)])

theorem range_succ_map' {α : Type} (F : Nat → α) (m : Nat) :
    (List.range m).map F ++ [F m] = (List.range (m + 1)).map F := by
  rw [List.range_succ, List.map_append]; rfl

/-- **`rho` given, no pass raises**: the generated function returns the columns of the model run -/
theorem pmd_ok (odeint myodeint : GenGlueProofs.Solver) (N : Rat) (Pk : List (Nat × Rat))
    (Pnk : List (Nat × List (Nat × Rat))) (p r : Rat) (tmin tmax : Int) (full : Bool) (hK : (keys Pk).Nodup)
    (hg : ∀ j, j < (tmax - tmin).toNat → Good N Pk Pnk p r (pmRun N Pk Pnk p r j)) :
    GenGlue2.EBCM_pref_mix_discrete odeint myodeint N Pk Pnk p (some r) tmin tmax full =
      .ok (pmResult N Pk Pnk p r tmin (tmax - tmin).toNat full) := by
  rw [gen_eq_forIn]
  have hinit : pmInitCS N Pk r tmin = conc (keys Pk) [tmin] (fun _ => []) [] [] [] (prefMixDiscInit N r) [] 0 0 0 := rfl
  have hlen := irange_length tmin tmax
  obtain ⟨j1, j2, j3, j4, h⟩ := pm_loop_ok N Pk Pnk p r hK (irange (tmin + 1) (tmax + 1)) (prefMixDiscInit N r)
    (fun j hj => by rw [← pmRun_eq_iterate]; exact hg j (by rwa [hlen] at hj)) [tmin] (fun _ => []) [] [] [] [] 0 0 0
  rw [hinit, h, ok_bind, hlen]
  simp only [← pmRun_eq_iterate]
  unfold pmOut conc pmResult
  simp only [List.nil_append, range_succ_map', times_eq]

/-- **`rho` given, pass `j0 + 1` is the first whose condition fails**: the exception -/
theorem pmd_err (odeint myodeint : GenGlueProofs.Solver) (N : Rat) (Pk : List (Nat × Rat))
    (Pnk : List (Nat × List (Nat × Rat))) (p r : Rat) (tmin tmax : Int) (full : Bool) (hK : (keys Pk).Nodup)
    (j0 : Nat) (hj0 : j0 < (tmax - tmin).toNat)
    (hg : ∀ j, j < j0 → Good N Pk Pnk p r (pmRun N Pk Pnk p r j))
    (hb : ¬ Good N Pk Pnk p r (pmRun N Pk Pnk p r j0)) :
    ∃ e, GenGlue2.EBCM_pref_mix_discrete odeint myodeint N Pk Pnk p (some r) tmin tmax full = .error e ∧
      ((e = "KeyError" ∧ ¬ KeysOK Pk Pnk) ∨
        (e = "ZeroDivisionError" ∧ ¬ ZeroOK Pk Pnk (pmRun N Pk Pnk p r (j0 + 1)).theta)) := by
  rw [gen_eq_forIn]
  have hinit : pmInitCS N Pk r tmin = conc (keys Pk) [tmin] (fun _ => []) [] [] [] (prefMixDiscInit N r) [] 0 0 0 := rfl
  have hlen := irange_length tmin tmax
  obtain ⟨e, he, hd⟩ := pm_loop_err N Pk Pnk p r hK (irange (tmin + 1) (tmax + 1)) (prefMixDiscInit N r) j0
    (by rwa [hlen])
    (fun j hj => by rw [← pmRun_eq_iterate]; exact hg j hj) (by rwa [← pmRun_eq_iterate])
    [tmin] (fun _ => []) [] [] [] [] 0 0 0
  rw [← pmRun_eq_iterate] at hd
  exact ⟨e, by rw [hinit, he]; rfl, hd⟩

end GenGlue3Proofs
