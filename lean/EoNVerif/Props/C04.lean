import EoNVerif.Model.Investigation
import EoNVerif.Proofs.Gillespie
import EoNVerif.Proofs.GillespieOut
import EoNVerif.Proofs.GillespieOut2
import EoNVerif.Props.C01
import EoNVerif.Props.C12
import EoNVerif.Props.C13
import EoNVerif.Props.C02b
import EoNVerif.Props.C04b
/-!
C04 / C05 / C09 — target statements for the Gillespie_SIR / Gillespie_SIS model: the executable predicates
`Pred.wellFormed`, `Pred.initialOK`, `Pred.transmissionsValid` hold of every output of the model.

`Gillespie.TapeNonneg` (every `expovariate` value on the tape is non-negative) and `Gillespie.initName` (initial
status names for the history model) are defined, unchanged, in `EoNVerif/Proofs/GillespieOut.lean`.
-/
namespace Gillespie
open Pred Invest

/-- counters of the model state track the statuses -/
theorem counts_track (P : GParams) (h : WF P) (infs recs : List Node) (tmin : Rat) (tmax : ERat) (fuel cfuel : Nat)
    (hi : infs.Nodup) (him : ∀ u ∈ infs, u ∈ P.nodes) (hrn : recs.Nodup) (hr : ∀ u ∈ recs, u ∈ P.nodes)
    (hdis : ∀ u ∈ infs, u ∉ recs) (hsis : P.sis = true → recs = []) (ts ts' : TapeSt) (s' : GState)
    (hrun : run P infs recs tmin tmax fuel cfuel ts = .ok (s', ts')) :
    hd s'.S = ((P.nodes.filter fun u => s'.status u = St.S).length : Int) ∧
    hd s'.I = ((P.nodes.filter fun u => s'.status u = St.I).length : Int) ∧
    (P.sis = false → hd s'.R = ((P.nodes.filter fun u => s'.status u = St.R).length : Int)) :=
  have hc := counts_run P h infs recs tmin tmax fuel cfuel hi him hrn hr hdis hsis ts ts' s' hrun
  ⟨hc.cS, hc.cI, hc.cR⟩

/-- **C04**: the returned arrays are well-formed -/
theorem wf_gillespie (P : GParams) (h : WF P) (infs recs : List Node) (tmin : Rat) (tmax : ERat) (fuel cfuel : Nat)
    (hi : infs.Nodup) (him : ∀ u ∈ infs, u ∈ P.nodes) (hrn : recs.Nodup) (hr : ∀ u ∈ recs, u ∈ P.nodes)
    (hdis : ∀ u ∈ infs, u ∉ recs) (hsis : P.sis = true → recs = []) (htm : ERat.lt (some tmin) tmax = true)
    (ts ts' : TapeSt) (hts : TapeNonneg ts) (s' : GState)
    (hrun : run P infs recs tmin tmax fuel cfuel ts = .ok (s', ts')) :
    wellFormed (if P.sis then TrajKind.sisCont else TrajKind.sirCont) P.nodes.length tmin tmax false false (gTraj P s') = true :=
  trajInv_wellFormed P tmin tmax s'
    (wf_run P h infs recs tmin tmax fuel cfuel hi him hrn hr hdis hsis htm ts ts' hts s' hrun).2

/-- **C04, termination with no infected node**: when the loop stops before the horizon it is because no node is
infectious (unbounded horizon, positive recovery rates: the loop's only other exit is total rate 0, which with
`gamma·w_u > 0` for all `u` means no infectious node) -/
theorem ends_without_infecteds (P : GParams) (h : WF P) (s : GState) (hs : Inv P s)
    (hg : 0 < P.gamma) (hw : ∀ f, P.nw = some f → ∀ u, 0 < f u) (h0 : totalRate P s = 0) :
    s.inf.items = [] :=
  ends_without_infecteds' P h s hs hg hw h0

set_option linter.unusedVariables false in -- only `hsis`, `h0` are needed
/-- **C05**: row 0 is the requested initial condition -/
theorem ic_gillespie (P : GParams) (h : WF P) (infs recs : List Node) (tmin : Rat)
    (hi : infs.Nodup) (him : ∀ u ∈ infs, u ∈ P.nodes) (hrn : recs.Nodup) (hr : ∀ u ∈ recs, u ∈ P.nodes)
    (hdis : ∀ u ∈ infs, u ∉ recs) (hsis : P.sis = true → recs = []) (s0 : GState) (h0 : init P infs recs tmin = some s0) :
    initialOK P.nodes.length infs recs (Pred.row (gTraj P s0).cols 0) none (!P.sis) = true ∧
    (∀ v, s0.status v = initStatus infs recs v) :=
  ic_gillespie' P infs recs tmin hsis s0 h0

set_option linter.unusedVariables false in -- `hr` is not needed
/-- **C05**: initially recovered nodes are never infected later -/
theorem recovered_never_infected (P : GParams) (h : WF P) (infs recs : List Node) (tmin : Rat) (tmax : ERat) (fuel cfuel : Nat)
    (hi : infs.Nodup) (him : ∀ u ∈ infs, u ∈ P.nodes) (hr : ∀ u ∈ recs, u ∈ P.nodes)
    (hdis : ∀ u ∈ infs, u ∉ recs) (hsis : P.sis = false) (ts ts' : TapeSt) (s' : GState)
    (hrun : run P infs recs tmin tmax fuel cfuel ts = .ok (s', ts')) :
    ∀ e ∈ s'.log, ∀ u v, e.2 = GEvent.transmit u v → v ∉ recs :=
  recovered_never_infected' P h infs recs tmin tmax fuel cfuel hi him hdis hsis ts ts' s' hrun

set_option linter.unusedVariables false in -- `hrn`, `hr` are not needed
/-- **C09**: the transmission list of the model is causally valid and complete (SIR: a forest rooted at the initial
nodes), for strictly positive waiting times -/
theorem tv_gillespie (P : GParams) (h : WF P) (infs recs : List Node) (tmin : Rat) (tmax : ERat) (fuel cfuel : Nat)
    (hi : infs.Nodup) (him : ∀ u ∈ infs, u ∈ P.nodes) (hrn : recs.Nodup) (hr : ∀ u ∈ recs, u ∈ P.nodes)
    (hdis : ∀ u ∈ infs, u ∉ recs) (hsis : P.sis = true → recs = [])
    (hrange : P.nodes = List.range P.nodes.length)
    (ts ts' : TapeSt) (hts : ∀ d ∈ ts.tape, ∀ x, d = Draw.expo x → 0 < x) (s' : GState)
    (hrun : run P infs recs tmin tmax fuel cfuel ts = .ok (s', ts')) :
    transmissionsValid (if P.sis then sisSpec else sirSpec) (!P.sis) 0 P.nodes.length P.nbrs tmin infs
      (histories tmin (initName infs recs) (gLog P s') P.nodes) (gTrans tmin infs s') = true :=
  tv_run P h infs recs tmin tmax fuel cfuel hi him hdis hsis hrange ts ts'
    (fun d hd x hx => le_of_lt (hts d hd x hx)) s' hrun

end Gillespie

/-! non-vacuity: on the weighted 4-node path `exP` of `Props/C01` (which satisfies `Gillespie.WF`), a tape with
strictly positive waiting times makes `run` succeed with one transmission and one recovery, and the predicates
evaluate to `true` on that output (as the theorems above say they must) -/
def c04Tape : TapeSt :=
  { tape := [.expo 1, .unif (99/100), .choice 0, .unif 0, .expo (1/2), .unif 0, .choice 0, .unif 0, .expo 100] }

example : (match Gillespie.run exP [1, 3] [0] 0 (some 10) 5 5 c04Tape with
    | .ok (s, _) =>
      s.log == [(3/2, GEvent.recover 1), (1, GEvent.transmit 1 2)]
      && Pred.wellFormed .sirCont 4 0 (some 10) false false (Invest.gTraj exP s)
      && Pred.transmissionsValid Pred.sirSpec true 0 4 exP.nbrs 0 [1, 3]
          (Invest.histories 0 (Gillespie.initName [1, 3] [0]) (Invest.gLog exP s) exP.nodes) (Invest.gTrans 0 [1, 3] s)
    | .error _ => false) = true := by decide +kernel
