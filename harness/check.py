#!/venv/bin/python
"""Entry point: check.py Cxx [--tier quick|thorough] [--replay path]"""
import argparse, importlib, json, os, sys, traceback
sys.path.insert(0, os.path.dirname(os.path.abspath(__file__)))
import common


def main():
    ap = argparse.ArgumentParser()
    ap.add_argument("pid")
    ap.add_argument("--tier", default=os.environ.get("VERIF_TIER", "quick"))
    ap.add_argument("--replay")
    a = ap.parse_args()
    seed = int(os.environ.get("VERIF_SEED", "0"))
    try:
        mod = importlib.import_module(a.pid.lower())
        if a.replay:
            with open(a.replay) as f:
                rep = json.load(f)
            return mod.replay(rep) if hasattr(mod, "replay") else print(json.dumps(rep, indent=1)) or 0
        ctx = common.Ctx(a.pid, a.tier, seed)
        common.lake_build()
        audit = common.proof_audit(a.pid, thorough=ctx.thorough)
        mod.run(ctx)
        return ctx.finish(audit, getattr(mod, "EXTRA_COV", None), getattr(mod, "ASSUMPTIONS", None))
    except Exception:
        traceback.print_exc()
        return 2


if __name__ == "__main__":
    sys.exit(main())
