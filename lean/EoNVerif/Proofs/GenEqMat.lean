import EoNVerif.Gen.AnalyticMat
import EoNVerif.Model.ODE2
import EoNVerif.Proofs.GenEq
import Mathlib.Tactic.Ring
/-!
The matrix-valued right-hand sides generated from `EoN/analytic.py` by `harness/pymat2lean.py` (`Gen/AnalyticMat.lean`)
compute exactly the hand-written heterogeneous pairwise models of `Model/ODE2.lean` (`sisHetPW`, `sirHetPW`), for every
number of degree classes, every state and every parameter.  The state vector is packed the way the solvers pack it:
`S ++ [SS] row-major ++ [SI] row-major` (SIS) and `S ++ I ++ [SS] row-major ++ [SI] row-major` (SIR).
-/
set_option linter.unusedTactic false
set_option linter.unreachableTactic false
set_option linter.unusedSimpArgs false
set_option linter.unusedVariables false
namespace GenEqMat
open Gen ODE GenEq

/-! ### row-major indexing -/

theorem rm_div (K k l : Nat) (hl : l < K) : (k * K + l) / K = k := by
  have hK : 0 < K := by omega
  rw [Nat.add_comm, Nat.add_mul_div_right _ _ hK, Nat.div_eq_of_lt hl, Nat.zero_add]

theorem rm_mod (K k l : Nat) (hl : l < K) : (k * K + l) % K = l := by
  rw [Nat.add_comm, Nat.add_mul_mod_self_right, Nat.mod_eq_of_lt hl]

theorem rm_lt (K k l : Nat) (hk : k < K) (hl : l < K) : k * K + l < K ^ 2 := by
  have h1 : (k + 1) * K ≤ K * K := Nat.mul_le_mul_right K hk
  have h2 : (k + 1) * K = k * K + K := by rw [Nat.add_mul, Nat.one_mul]
  have h3 : K ^ 2 = K * K := by rw [Nat.pow_two]
  omega

/-- a row-major flattened matrix, `M.reshape(K*K)` -/
def flat (K : Nat) (M : Nat → Nat → Rat) : V := ⟨K ^ 2, fun i => M (i / K) (i % K)⟩

theorem flat_f (K : Nat) (M : Nat → Nat → Rat) (k l : Nat) (hl : l < K) : (flat K M).f (k * K + l) = M k l := by
  simp only [flat, rm_div K k l hl, rm_mod K k l hl]

/-- the generated guard `a[a == 0] = 1` is the model's `nz` -/
theorem guard_nz (x : Rat) : (if x = 0 then (1 : Rat) else x) = nz x := rfl

/-! ### SIS -/

/-- the packing of `SIS_heterogeneous_pairwise`:
`np.concatenate((Sk0[:,None], SkSl0.reshape(K²,1), SkIl0.reshape(K²,1))).T[0]` -/
def packSIS (K : Nat) (S : Nat → Rat) (SS SI : Nat → Nat → Rat) : V :=
  V.append ⟨K, S⟩ (V.append ⟨K ^ 2, fun i => SS (i / K) (i % K)⟩ ⟨K ^ 2, fun i => SI (i / K) (i % K)⟩)

theorem packSIS_S (K : Nat) (S : Nat → Rat) (SS SI : Nat → Nat → Rat) (j : Nat) (hj : j < K) :
    (packSIS K S SS SI).f (0 + j) = S j := by
  rw [Nat.zero_add]; exact V.append_f_lt _ _ j hj

theorem packSIS_SS (K : Nat) (S : Nat → Rat) (SS SI : Nat → Nat → Rat) (k l : Nat) (hk : k < K) (hl : l < K) :
    (packSIS K S SS SI).f (K + (k * K + l)) = SS k l := by
  unfold packSIS
  rw [append_f_ge' _ _ K _ rfl, V.append_f_lt _ _ _ (rm_lt K k l hk hl)]
  exact flat_f K SS k l hl

theorem packSIS_SI (K : Nat) (S : Nat → Rat) (SS SI : Nat → Nat → Rat) (k l : Nat) (hk : k < K) (hl : l < K) :
    (packSIS K S SS SI).f ((K + K ^ 2) + (k * K + l)) = SI k l := by
  unfold packSIS
  rw [Nat.add_assoc, append_f_ge' _ _ K _ rfl, append_f_ge' _ _ (K ^ 2) _ rfl]
  exact flat_f K SI k l hl

theorem packSIS_rowsum (K : Nat) (S : Nat → Rat) (SS SI : Nat → Nat → Rat) (k : Nat) (hk : k < K) :
    sumTo K (fun l => (packSIS K S SS SI).f ((K + K ^ 2) + (k * K + l))) = sumTo K (fun l => SI k l) :=
  ODE.sumTo_congr _ _ _ (fun l hl => packSIS_SI K S SS SI k l hk hl)

theorem gen_sisHetPW (K : Nat) (tau gamma : Rat) (Ks Nk : Nat → Rat) (NkNl : Nat → Nat → Rat)
    (S : Nat → Rat) (SS SI : Nat → Nat → Rat) :
    let X := V.append ⟨K, S⟩ (V.append ⟨K ^ 2, fun i => SS (i / K) (i % K)⟩ ⟨K ^ 2, fun i => SI (i / K) (i % K)⟩)
    let r := GenMat.dSIS_heterogeneous_pairwise X ⟨K, Nk⟩ NkNl tau gamma ⟨K, Ks⟩
    let m := sisHetPW K tau gamma Ks Nk NkNl S SS SI
    r.n = K + K ^ 2 + K ^ 2 ∧
    (∀ k, k < K → r.f k = m.1 k) ∧
    ∀ k l, k < K → l < K →
      r.f (K + (k * K + l)) = m.2.1 k l ∧ r.f (K + K ^ 2 + (k * K + l)) = m.2.2 k l := by
  intro X r m
  have hX : X = packSIS K S SS SI := rfl
  refine ⟨by simp [r, GenMat.dSIS_heterogeneous_pairwise, Nat.add_assoc], ?_, ?_⟩
  · intro k hk
    simp only [r, GenMat.dSIS_heterogeneous_pairwise, hX]
    rw [V.append_f_lt _ _ k hk]
    simp only [packSIS_S K S SS SI k hk, packSIS_rowsum K S SS SI k hk, m, sisHetPW]
  intro k l hk hl
  refine ⟨?_, ?_⟩
  · simp only [r, GenMat.dSIS_heterogeneous_pairwise, hX]
    rw [append_f_ge' _ _ K _ rfl, V.append_f_lt _ _ _ (rm_lt K k l hk hl)]
    simp only [rm_div K k l hl, rm_mod K k l hl,
      packSIS_S K S SS SI k hk, packSIS_S K S SS SI l hl,
      packSIS_SS K S SS SI k l hk hl, packSIS_SS K S SS SI l k hl hk,
      packSIS_SI K S SS SI k l hk hl, packSIS_SI K S SS SI l k hl hk,
      packSIS_rowsum K S SS SI k hk, packSIS_rowsum K S SS SI l hl, one_mul, guard_nz, m, sisHetPW]
  · simp only [r, GenMat.dSIS_heterogeneous_pairwise, hX]
    rw [Nat.add_assoc, append_f_ge' _ _ K _ rfl, append_f_ge' _ _ (K ^ 2) _ rfl]
    simp only [rm_div K k l hl, rm_mod K k l hl,
      packSIS_S K S SS SI k hk, packSIS_S K S SS SI l hl,
      packSIS_SS K S SS SI k l hk hl, packSIS_SS K S SS SI l k hl hk,
      packSIS_SI K S SS SI k l hk hl, packSIS_SI K S SS SI l k hl hk,
      packSIS_rowsum K S SS SI k hk, packSIS_rowsum K S SS SI l hl, one_mul, guard_nz, m, sisHetPW]

/-! ### SIR -/

/-- the packing of `SIR_heterogeneous_pairwise`:
`np.concatenate((Sk0[:,None], Ik0[:,None], SkSl0.reshape(K²,1), SkIl0.reshape(K²,1))).T[0]` -/
def packSIR (K : Nat) (S I : Nat → Rat) (SS SI : Nat → Nat → Rat) : V :=
  V.append ⟨K, S⟩ (V.append ⟨K, I⟩
    (V.append ⟨K ^ 2, fun i => SS (i / K) (i % K)⟩ ⟨K ^ 2, fun i => SI (i / K) (i % K)⟩))

theorem packSIR_S (K : Nat) (S I : Nat → Rat) (SS SI : Nat → Nat → Rat) (j : Nat) (hj : j < K) :
    (packSIR K S I SS SI).f (0 + j) = S j := by
  rw [Nat.zero_add]; exact V.append_f_lt _ _ j hj

theorem packSIR_I (K : Nat) (S I : Nat → Rat) (SS SI : Nat → Nat → Rat) (j : Nat) (hj : j < K) :
    (packSIR K S I SS SI).f (K + j) = I j := by
  unfold packSIR
  rw [append_f_ge' _ _ K _ rfl]; exact V.append_f_lt _ _ j hj

theorem packSIR_SS (K : Nat) (S I : Nat → Rat) (SS SI : Nat → Nat → Rat) (k l : Nat) (hk : k < K) (hl : l < K) :
    (packSIR K S I SS SI).f (2 * K + (k * K + l)) = SS k l := by
  unfold packSIR
  rw [Nat.two_mul, Nat.add_assoc, append_f_ge' _ _ K _ rfl, append_f_ge' _ _ K _ rfl,
    V.append_f_lt _ _ _ (rm_lt K k l hk hl)]
  exact flat_f K SS k l hl

theorem packSIR_SI (K : Nat) (S I : Nat → Rat) (SS SI : Nat → Nat → Rat) (k l : Nat) (hk : k < K) (hl : l < K) :
    (packSIR K S I SS SI).f ((2 * K + K ^ 2) + (k * K + l)) = SI k l := by
  unfold packSIR
  rw [Nat.two_mul, Nat.add_assoc, Nat.add_assoc, append_f_ge' _ _ K _ rfl, append_f_ge' _ _ K _ rfl,
    append_f_ge' _ _ (K ^ 2) _ rfl]
  exact flat_f K SI k l hl

theorem packSIR_rowsum (K : Nat) (S I : Nat → Rat) (SS SI : Nat → Nat → Rat) (k : Nat) (hk : k < K) :
    sumTo K (fun l => (packSIR K S I SS SI).f ((2 * K + K ^ 2) + (k * K + l))) = sumTo K (fun l => SI k l) :=
  ODE.sumTo_congr _ _ _ (fun l hl => packSIR_SI K S I SS SI k l hk hl)

theorem gen_sirHetPW (K : Nat) (tau gamma : Rat) (Ks Nk : Nat → Rat) (S I : Nat → Rat) (SS SI : Nat → Nat → Rat) :
    let X := V.append ⟨K, S⟩ (V.append ⟨K, I⟩
      (V.append ⟨K ^ 2, fun i => SS (i / K) (i % K)⟩ ⟨K ^ 2, fun i => SI (i / K) (i % K)⟩))
    let r := GenMat.dSIR_heterogeneous_pairwise X tau gamma ⟨K, Nk⟩ ⟨K, Ks⟩
    let m := sirHetPW K tau gamma Ks S I SS SI
    r.n = K + K + K ^ 2 + K ^ 2 ∧
    (∀ k, k < K → r.f k = m.1 k ∧ r.f (K + k) = m.2.1 k) ∧
    ∀ k l, k < K → l < K →
      r.f (K + K + (k * K + l)) = m.2.2.1 k l ∧ r.f (K + K + K ^ 2 + (k * K + l)) = m.2.2.2 k l := by
  intro X r m
  have hX : X = packSIR K S I SS SI := rfl
  refine ⟨by simp [r, GenMat.dSIR_heterogeneous_pairwise, Nat.add_assoc], ?_, ?_⟩
  · intro k hk
    constructor
    · simp only [r, GenMat.dSIR_heterogeneous_pairwise, hX]
      rw [V.append_f_lt _ _ k hk]
      simp only [packSIR_rowsum K S I SS SI k hk, m, sirHetPW, zero_sub]
    · simp only [r, GenMat.dSIR_heterogeneous_pairwise, hX]
      rw [append_f_ge' _ _ K _ rfl, V.append_f_lt _ _ k hk]
      simp only [packSIR_I K S I SS SI k hk, packSIR_rowsum K S I SS SI k hk, m, sirHetPW]
  intro k l hk hl
  refine ⟨?_, ?_⟩
  · simp only [r, GenMat.dSIR_heterogeneous_pairwise, hX]
    rw [Nat.add_assoc, append_f_ge' _ _ K _ rfl, append_f_ge' _ _ K _ rfl, V.append_f_lt _ _ _ (rm_lt K k l hk hl)]
    simp only [rm_div K k l hl, rm_mod K k l hl,
      packSIR_S K S I SS SI k hk, packSIR_S K S I SS SI l hl,
      packSIR_SS K S I SS SI k l hk hl, packSIR_SS K S I SS SI l k hl hk,
      packSIR_SI K S I SS SI k l hk hl, packSIR_SI K S I SS SI l k hl hk,
      packSIR_rowsum K S I SS SI k hk, packSIR_rowsum K S I SS SI l hl, one_mul, guard_nz, zero_sub, m, sirHetPW]
  · simp only [r, GenMat.dSIR_heterogeneous_pairwise, hX]
    rw [Nat.add_assoc, Nat.add_assoc, append_f_ge' _ _ K _ rfl, append_f_ge' _ _ K _ rfl,
      append_f_ge' _ _ (K ^ 2) _ rfl]
    simp only [rm_div K k l hl, rm_mod K k l hl,
      packSIR_S K S I SS SI k hk, packSIR_S K S I SS SI l hl,
      packSIR_SS K S I SS SI k l hk hl, packSIR_SS K S I SS SI l k hl hk,
      packSIR_SI K S I SS SI k l hk hl, packSIR_SI K S I SS SI l k hl hk,
      packSIR_rowsum K S I SS SI k hk, packSIR_rowsum K S I SS SI l hl, one_mul, guard_nz, zero_sub, m, sirHetPW]

end GenEqMat
