import EoNVerif.Gen.EventSIRGen
import EoNVerif.Model.EventSIR
import EoNVerif.Proofs.EventSIRFinal
/-!
Refinement: the code generated statement by statement from `myQueue`, `_process_trans_SIR_`, `_process_rec_SIR_`
and `fast_nonMarkov_SIR` (`EoNVerif/Gen/EventSIRGen.lean`, namespace `GenESIR`) computes the same thing as the
hand-written model `EventSIR` (`EoNVerif/Model/EventSIR.lean`) run with `heapq`'s tie-breaking `sel = fun _ => 0`.
-/
open EventSIR

namespace GenESIR

/-! ### the tape monad -/

theorem tm_pure {α : Type} (a : α) (ts : TapeSt) : (pure a : TM α) ts = .ok (a, ts) := rfl

theorem tm_bind_ok {α β : Type} {x : TM α} {f : α → TM β} {ts ts' : TapeSt} {a : α} (h : x ts = .ok (a, ts')) :
    (x >>= f) ts = f a ts' := by
  simp only [bind, StateT.bind, h, Except.bind]

theorem tm_bind_err {α β : Type} {x : TM α} {f : α → TM β} {ts : TapeSt} {e : String} (h : x ts = .error e) :
    (x >>= f) ts = .error e := by
  simp only [bind, StateT.bind, h, Except.bind]

theorem liftE_ok {α : Type} (a : α) (ts : TapeSt) : PyTM.liftE (.ok a) ts = .ok (a, ts) := rfl

theorem listLast_reverse_cons {α : Type} (a : α) (l : List α) : PyTM.listLast (a :: l).reverse = .ok a := by
  unfold PyTM.listLast
  simp
  rfl

/-! ### the order `before` on queue entries -/

theorem eratlt_asymm {a b : ERat} (h : ERat.lt a b = true) : ERat.lt b a = false := by
  cases a <;> cases b <;> simp_all
  exact le_of_lt h

theorem eratlt_nt {a c : ERat} (b : ERat) (h : ERat.lt a c = true) : ERat.lt a b = true ∨ ERat.lt b c = true := by
  cases a <;> cases b <;> cases c <;> simp_all
  rename_i x y z
  by_cases hxy : x < y
  · exact Or.inl hxy
  · exact Or.inr (lt_of_le_of_lt (not_lt.1 hxy) h)

theorem eratlt_irrefl (a : ERat) : ERat.lt a a = false := by
  cases a <;> simp

theorem before_iff (a b : ERat × Nat × Ev) :
    MyQueue.before a b = true ↔ (ERat.lt a.1 b.1 = true ∨ (a.1 = b.1 ∧ a.2.1 < b.2.1)) := by
  unfold MyQueue.before
  simp

theorem before_asymm {a b : ERat × Nat × Ev} (h : MyQueue.before a b = true) : MyQueue.before b a = false := by
  rw [Bool.eq_false_iff, Ne, before_iff]
  rw [before_iff] at h
  rintro (h' | ⟨h1, h2⟩)
  · rcases h with h | ⟨g1, _⟩
    · rw [eratlt_asymm h] at h'; cases h'
    · rw [g1, eratlt_irrefl] at h'; cases h'
  · rcases h with h | ⟨_, g2⟩
    · rw [h1, eratlt_irrefl] at h; cases h
    · omega

theorem before_nt {a c : ERat × Nat × Ev} (b : ERat × Nat × Ev) (h : MyQueue.before a c = true) :
    MyQueue.before a b = true ∨ MyQueue.before b c = true := by
  rw [before_iff] at h
  rw [before_iff, before_iff]
  rcases h with h | ⟨h1, h2⟩
  · rcases eratlt_nt b.1 h with g | g
    · exact Or.inl (Or.inl g)
    · exact Or.inr (Or.inl g)
  · by_cases hab : ERat.lt a.1 b.1 = true
    · exact Or.inl (Or.inl hab)
    · by_cases hbc : ERat.lt b.1 c.1 = true
      · exact Or.inr (Or.inl hbc)
      · -- a.1 = b.1 = c.1
        have e1 : a.1 = b.1 := by
          rw [← h1] at hbc
          revert hab hbc
          cases a.1 <;> cases b.1 <;> simp
          intro h3 h4; exact le_antisymm h4 h3
        by_cases hn : a.2.1 < b.2.1
        · exact Or.inl (Or.inr ⟨e1, hn⟩)
        · exact Or.inr (Or.inr ⟨by rw [← e1, h1], by omega⟩)

/-- the left fold that keeps the smaller element returns a minimal element of the list -/
theorem foldl_min_spec {α : Type} (lt : α → α → Bool)
    (hasym : ∀ a b, lt a b = true → lt b a = false)
    (hnt : ∀ a b c, lt a c = true → lt a b = true ∨ lt b c = true) :
    ∀ (xs : List α) (x : α),
      xs.foldl (fun m y => if lt y m then y else m) x ∈ x :: xs ∧
      ∀ y ∈ x :: xs, lt y (xs.foldl (fun m y => if lt y m then y else m) x) = false := by
  intro xs
  induction xs with
  | nil =>
    intro x
    refine ⟨by simp, ?_⟩
    intro y hy
    simp only [List.mem_singleton] at hy
    subst hy
    simp only [List.foldl_nil]
    cases h : lt y y
    · rfl
    · have := hasym y y h; rw [h] at this; cases this
  | cons y ys ih =>
    intro x
    simp only [List.foldl_cons]
    obtain ⟨h1, h2⟩ := ih (if lt y x = true then y else x)
    set m := ys.foldl (fun m y => if lt y m then y else m) (if lt y x = true then y else x) with hm
    by_cases hyx : lt y x = true
    · rw [if_pos hyx] at h1 h2
      refine ⟨?_, ?_⟩
      · rcases List.mem_cons.1 h1 with h | h
        · rw [h]; simp
        · exact List.mem_cons_of_mem _ (List.mem_cons_of_mem _ h)
      · intro z hz
        rcases List.mem_cons.1 hz with rfl | hz
        · -- ¬ y < m, y < z ⟹ ¬ z < m
          have hym := h2 y (List.mem_cons_self ..)
          cases hzm : lt z m
          · rfl
          · rcases hnt y m z hyx with g | g
            · rw [hym] at g; cases g
            · rw [hasym _ _ hzm] at g; cases g
        · exact h2 z hz
    · rw [if_neg hyx] at h1 h2
      refine ⟨?_, ?_⟩
      · rcases List.mem_cons.1 h1 with h | h
        · rw [h]; simp
        · exact List.mem_cons_of_mem _ (List.mem_cons_of_mem _ h)
      · intro z hz
        rcases List.mem_cons.1 hz with rfl | hz
        · exact h2 z (List.mem_cons_self ..)
        · rcases List.mem_cons.1 hz with rfl | hz
          · have hxm := h2 x (List.mem_cons_self ..)
            cases hzm : lt z m
            · rfl
            · rcases hnt z x m hzm with g | g
              · exact absurd g hyx
              · rw [hxm] at g; cases g
          · exact h2 z (List.mem_cons_of_mem _ hz)

theorem popMin_spec (q : MyQueue) (hne : q.q ≠ []) :
    ∃ m, MyQueue.popMin q = .ok (m, { q with q := q.q.erase m }) ∧ m ∈ q.q ∧
      ∀ y ∈ q.q, MyQueue.before y m = false := by
  unfold MyQueue.popMin
  cases hq : q.q with
  | nil => exact absurd hq hne
  | cons x xs =>
    obtain ⟨h1, h2⟩ := foldl_min_spec MyQueue.before (fun a b => before_asymm) (fun a b c => before_nt b) xs x
    exact ⟨_, rfl, h1, h2⟩

/-! ### the model's `pop 0` takes the first entry of minimal time -/

theorem minTime_mid (pre post : List QItem) (x : QItem) (h1 : ∀ y ∈ pre, x.time ≤ y.time)
    (h2 : ∀ y ∈ post, x.time ≤ y.time) : minTime (pre ++ x :: post) = some x.time := by
  rcases minTime_spec (pre ++ x :: post) with ⟨_, h0⟩ | ⟨m, h0, hle, y, hy, hym⟩
  · simp at h0
  · rw [h0]
    congr 1
    apply le_antisymm
    · exact hle x (by simp)
    · rw [← hym]
      rcases List.mem_append.1 hy with hy | hy
      · exact h1 y hy
      · rcases List.mem_cons.1 hy with rfl | hy
        · exact le_refl _
        · exact h2 y hy

theorem minIdxs_mid (pre post : List QItem) (x : QItem) (h1 : ∀ y ∈ pre, x.time < y.time)
    (h2 : ∀ y ∈ post, x.time ≤ y.time) : ∃ c, minIdxs (pre ++ x :: post) = pre.length :: c := by
  unfold minIdxs
  rw [minTime_mid pre post x (fun y hy => le_of_lt (h1 y hy)) h2]
  simp only [List.length_append, List.length_cons]
  rw [List.range_add, List.filter_append, List.range_succ_eq_map, List.map_cons, List.filter_cons]
  have hnil : (List.range pre.length).filter
      (fun i => ((pre ++ x :: post)[i]?.map (·.time)) == some x.time) = [] := by
    rw [List.filter_eq_nil_iff]
    intro j hj
    rw [List.mem_range] at hj
    rw [List.getElem?_append_left hj, List.getElem?_eq_getElem hj]
    have := h1 pre[j] (List.getElem_mem hj)
    simp only [Option.map_some, beq_iff_eq, Option.some.injEq]
    exact ne_of_gt this
  rw [hnil]
  have hx : (((pre ++ x :: post)[pre.length + 0]?.map (·.time)) == some x.time) = true := by
    simp
  rw [if_pos hx]
  exact ⟨_, rfl⟩

theorem pop_zero_mid (pre post : List QItem) (x : QItem) (h1 : ∀ y ∈ pre, x.time < y.time)
    (h2 : ∀ y ∈ post, x.time ≤ y.time) : pop 0 (pre ++ x :: post) = some (x, pre ++ post) := by
  obtain ⟨c, hc⟩ := minIdxs_mid pre post x h1 h2
  unfold pop
  simp only [hc, List.length_cons, Nat.zero_mod, List.getElem?_cons_zero]
  rw [List.eraseIdx_append_of_length_le (le_refl _)]
  simp

/-! ### the queue relation -/

def encEv : QEv → Ev
  | .trans s t => .trans s t
  | .recov u => .recov u

/-- what the generated queue stores for a model item (without the counter) -/
def enc (x : QItem) : ERat × Ev := (some x.time, encEv x.ev)

/-- the generated `myQueue` object `q` represents the model queue `l` (a list in insertion order) -/
structure QRel (tmax : ERat) (q : MyQueue) (l : List QItem) : Prop where
  tmax : q.tmax = tmax
  sorted : q.q.Pairwise (fun a b => a.2.1 < b.2.1)
  bound : ∀ e ∈ q.q, e.2.1 < q.counter
  ents : q.q.map (fun e => (e.1, e.2.2)) = l.map enc

theorem QRel.init (tmax : ERat) : QRel tmax (MyQueue.init tmax) [] :=
  ⟨rfl, List.Pairwise.nil, (by intro e he; cases he), rfl⟩

theorem QRel.nil_iff {tmax : ERat} {q : MyQueue} {l : List QItem} (h : QRel tmax q l) : q.q = [] ↔ l = [] := by
  have := congrArg List.length h.ents
  simp only [List.length_map] at this
  rw [← List.length_eq_zero_iff, ← List.length_eq_zero_iff (l := l), this]

theorem QRel.add {tmax : ERat} {q : MyQueue} {l : List QItem} (h : QRel tmax q l) (t : Rat) (e : QEv) :
    QRel tmax (q.add (some t) (encEv e)) (qadd tmax l t e) := by
  unfold MyQueue.add qadd
  rw [h.tmax]
  split
  · refine ⟨rfl, ?_, ?_, ?_⟩
    · simp only [List.pairwise_append, List.pairwise_cons, List.mem_singleton, List.not_mem_nil, false_imp_iff,
        implies_true, List.Pairwise.nil, and_true, true_and]
      refine ⟨h.sorted, ?_⟩
      intro a ha b hb
      subst hb
      exact h.bound a ha
    · intro a ha
      simp only [List.mem_append, List.mem_singleton] at ha
      rcases ha with ha | rfl
      · exact Nat.lt_succ_of_lt (h.bound a ha)
      · exact Nat.lt_succ_self _
    · simp only [List.map_append, h.ents, List.map_cons, List.map_nil]
      rfl
  · exact h

theorem add_none (q : MyQueue) (e : Ev) : q.add none e = q := by
  unfold MyQueue.add
  simp

/-- **key lemma**: on related queues `heappop` returns the entry the model's `pop 0` returns, and the
remaining queues are related -/
theorem popMin_refines {tmax : ERat} {q : MyQueue} {l : List QItem} (h : QRel tmax q l) (hne : q.q ≠ []) :
    ∃ m q' x l', MyQueue.popMin q = .ok (m, q') ∧ pop 0 l = some (x, l') ∧
      m.1 = some x.time ∧ m.2.2 = encEv x.ev ∧ QRel tmax q' l' := by
  obtain ⟨m, hpop, hmem, hmin⟩ := popMin_spec q hne
  obtain ⟨pre', post', hq⟩ := List.append_of_mem hmem
  have hents := h.ents
  rw [hq, List.map_append, List.map_cons] at hents
  obtain ⟨pre, rest, hl, hpre, hrest⟩ := List.append_eq_map_iff.1 hents
  obtain ⟨x, post, hrest', hx, hpost⟩ := List.map_eq_cons_iff.1 hrest
  subst hrest'
  have hsorted := h.sorted
  rw [hq, List.pairwise_append, List.pairwise_cons] at hsorted
  obtain ⟨spre, ⟨sm, spost⟩, scross⟩ := hsorted
  have hx1 : m.1 = some x.time := (congrArg Prod.fst hx).symm
  have hx2 : m.2.2 = encEv x.ev := (congrArg Prod.snd hx).symm
  have hmpre : m ∉ pre' := by
    intro hm
    have := scross m hm m (List.mem_cons_self ..)
    omega
  -- strictly later before, not earlier after
  have t1 : ∀ y ∈ pre, x.time < y.time := by
    intro y hy
    have : enc y ∈ pre.map enc := List.mem_map_of_mem hy
    rw [hpre] at this
    obtain ⟨e, he, hey⟩ := List.mem_map.1 this
    have hb := hmin e (by rw [hq]; exact List.mem_append_left _ he)
    have hc := scross e he m (List.mem_cons_self ..)
    have he1 : e.1 = some y.time := congrArg Prod.fst hey
    rw [Bool.eq_false_iff, Ne, before_iff, hx1, he1] at hb
    simp only [ERat.lt_some_some, decide_eq_true_eq, Option.some.injEq, not_or, not_and, not_lt] at hb
    rcases lt_or_eq_of_le hb.1 with g | g
    · exact g
    · exact absurd (hb.2 g.symm) (by omega)
  have t2 : ∀ y ∈ post, x.time ≤ y.time := by
    intro y hy
    have : enc y ∈ post.map enc := List.mem_map_of_mem hy
    rw [hpost] at this
    obtain ⟨e, he, hey⟩ := List.mem_map.1 this
    have hb := hmin e (by rw [hq]; exact List.mem_append_right _ (List.mem_cons_of_mem _ he))
    have he1 : e.1 = some y.time := congrArg Prod.fst hey
    rw [Bool.eq_false_iff, Ne, before_iff, hx1, he1] at hb
    simp only [ERat.lt_some_some, decide_eq_true_eq, Option.some.injEq, not_or, not_and, not_lt] at hb
    exact hb.1
  refine ⟨m, _, x, pre ++ post, hpop, ?_, hx1, hx2, ?_⟩
  · rw [hl]; exact pop_zero_mid pre post x t1 t2
  · have herase : q.q.erase m = pre' ++ post' := by
      rw [hq, List.erase_append_right _ hmpre, List.erase_cons_head]
    refine ⟨h.tmax, ?_, ?_, ?_⟩
    · show (q.q.erase m).Pairwise _
      rw [herase, List.pairwise_append]
      exact ⟨spre, spost, fun a ha b hb => scross a ha b (List.mem_cons_of_mem _ hb)⟩
    · intro e he
      exact h.bound e (List.mem_of_mem_erase he)
    · show (q.q.erase m).map _ = _
      rw [herase, List.map_append, List.map_append, hpre, hpost]

theorem QRel.addE {tmax : ERat} {q : MyQueue} {l : List QItem} (h : QRel tmax q l) (T : ERat) (e : QEv) :
    QRel tmax (q.add T (encEv e)) (match T with | some t => qadd tmax l t e | none => l) := by
  cases T with
  | none => rw [add_none]; exact h
  | some t => exact h.add t e

/-! ### the state relation -/

/-- the arguments of the generated function describe the model's parameters -/
structure Agree (A : EArgs) (P : ESParams) : Prop where
  nbrs : A.nbrs = P.nbrs
  order : A.order = P.nodes.length
  tmin : A.tmin = P.tmin
  tmax : A.tmax = P.tmax
  rule : ∀ u sus, A.transRec u sus = pure (P.joint u sus)

/-- the user rule called for `u` returns a Python `dict`: every key once -/
def KeysOK (P : ESParams) (u : Node) : Prop :=
  ∀ p : Node → Bool, ((P.joint u ((P.nbrs u).filter p)).1.map (·.1)).Nodup

/-- the user rule returns a Python `dict`: every key once -/
def WFJ (P : ESParams) : Prop := ∀ u : Node, KeysOK P u

def encT (e : Rat × Option Node × Node) : ERat × Option Node × Node := (some e.1, e.2.1, e.2.2)

/-- the shared objects of the generated code represent the model state (the generated lists grow at the end, the
model's at the front) -/
structure Rel (P : ESParams) (σ : Loc) (s : ESState) : Prop where
  status : σ.status = s.status
  recTime : σ.rec_time = s.recTime
  predInf : σ.pred_inf_time = s.predInf
  queue : QRel P.tmax σ.Q s.queue
  times : σ.times = s.times.reverse.map some
  S : σ.S = s.S.reverse
  I : σ.I = s.I.reverse
  R : σ.R = s.R.reverse
  trans : σ.transmissions = s.trans.reverse.map encT
  neS : s.S ≠ []
  neI : s.I ≠ []
  neR : s.R ≠ []

theorem liftE_ok_eq_pure {α : Type} (a : α) : PyTM.liftE (Except.ok a) = (pure a : TM α) := rfl

theorem liftE_pure {α : Type} (a : α) : PyTM.liftE (pure a : Except String α) = (pure a : TM α) := rfl

theorem fset_self {α β : Type} [DecidableEq α] (f : α → β) (x : α) (v : β) : fset f x v x = v := by simp [fset]

theorem hd_cons (a : Int) (l : List Int) : hd (a :: l) = a := rfl

/-! ### `_process_rec_SIR_` -/

theorem process_rec_refines {A : EArgs} {P : ESParams} {σ : Loc} {s : ESState} (hR : Rel P σ s) (t : Rat) (u : Node)
    (ts : TapeSt) :
    ∃ σ', process_rec A (some t) u σ ts = .ok (σ', ts) ∧ Rel P σ' (processRec s t u) := by
  obtain ⟨h1, h2, h3, h4, h5, h6, h7, h8, h9, n1, n2, n3⟩ := hR
  obtain ⟨st, rt, pr, Q, tm, S, I, R, tr, nir⟩ := σ
  obtain ⟨st', rt', pr', q', tm', S', I', R', tr'⟩ := s
  simp only at h1 h2 h3 h4 h5 h6 h7 h8 h9 n1 n2 n3
  subst h1 h2 h3 h5 h6 h7 h8 h9
  obtain ⟨a, S', rfl⟩ := List.exists_cons_of_ne_nil n1
  obtain ⟨b, I', rfl⟩ := List.exists_cons_of_ne_nil n2
  obtain ⟨c, R', rfl⟩ := List.exists_cons_of_ne_nil n3
  apply Exists.intro
  apply And.intro
  · unfold process_rec
    simp only [listLast_reverse_cons]
    rfl
  · unfold processRec
    constructor <;> simp [hd_cons, h4]

/-! ### the loop `for v in trans_delay:` -/

theorem alFind_of_nodup {κ ν : Type} [DecidableEq κ] : ∀ (d : List (κ × ν)), (d.map (·.1)).Nodup →
    ∀ p ∈ d, PyRT.alFind? d p.1 = some p.2 := by
  intro d
  induction d with
  | nil => intro _ p hp; cases hp
  | cons a d ih =>
    intro hn p hp
    obtain ⟨k, v⟩ := a
    rw [List.map_cons, List.nodup_cons] at hn
    unfold PyRT.alFind?
    rcases List.mem_cons.1 hp with h | hp'
    · rw [h]; simp
    · have hne : k ≠ p.1 := by
        intro hk
        apply hn.1
        rw [hk]
        exact List.mem_map.2 ⟨p, hp', rfl⟩
      simp only [hne, if_false]
      exact ih hn.2 p hp'

/-- one round of the generated loop body, as a pure function (`d` is the looked-up delay) -/
def schedStep (time : ERat) (target : Node) (d : ERat) (σ : Loc) (v : Node) : Loc :=
  if (ERat.le (ERat.add time d) (σ.rec_time target) && ERat.lt (ERat.add time d) (σ.pred_inf_time v)
      && ERat.le (ERat.add time d) σ.Q.tmax) = true then
    { σ with Q := MyQueue.add σ.Q (ERat.add time d) (Ev.trans (some target) v),
             pred_inf_time := fset σ.pred_inf_time v (ERat.add time d) }
  else σ

theorem sched_refines {tmax : ERat} (time : Rat) (target : Node) (delays : List (Node × ERat))
    (body : Loc → Node → TM Loc)
    (hb : ∀ σ v ts d, PyRT.alFind? delays v = some d → body σ v ts = .ok (schedStep (some time) target d σ v, ts)) :
    ∀ (rest : List (Node × ERat)) (σ : Loc) (q : List QItem) (ts : TapeSt),
      (∀ p ∈ rest, PyRT.alFind? delays p.1 = some p.2) → QRel tmax σ.Q q →
      ∃ Q', (rest.map (·.1)).foldlM body σ ts =
          .ok ({ σ with Q := Q', pred_inf_time :=
                  (schedule tmax time target (σ.rec_time target) rest σ.pred_inf_time q).1 }, ts) ∧
        QRel tmax Q' (schedule tmax time target (σ.rec_time target) rest σ.pred_inf_time q).2 := by
  intro rest
  induction rest with
  | nil =>
    intro σ q ts _ hq
    exact ⟨σ.Q, rfl, hq⟩
  | cons a rest ih =>
    intro σ q ts hmem hq
    obtain ⟨v, d⟩ := a
    have hd := hmem (v, d) (List.mem_cons_self ..)
    have hmem' : ∀ p ∈ rest, PyRT.alFind? delays p.1 = some p.2 := fun p hp => hmem p (List.mem_cons_of_mem _ hp)
    rw [List.map_cons, List.foldlM_cons, tm_bind_ok (hb σ v ts d hd)]
    unfold schedule
    simp only
    unfold schedStep
    rw [hq.tmax]
    by_cases hc : (ERat.le (ERat.add (some time) d) (σ.rec_time target) &&
        ERat.lt (ERat.add (some time) d) (σ.pred_inf_time v) && ERat.le (ERat.add (some time) d) tmax) = true
    · have hc' : ERat.le (ERat.add (some time) d) (σ.rec_time target) = true ∧
          ERat.lt (ERat.add (some time) d) (σ.pred_inf_time v) = true ∧ ERat.le (ERat.add (some time) d) tmax = true := by
        simpa [Bool.and_eq_true, and_assoc] using hc
      rw [if_pos hc, if_pos hc']
      cases hT : ERat.add (some time) d with
      | none => rw [hT] at hc'; simp at hc'
      | some t' =>
        simp only
        have hq' := hq.add t' (QEv.trans (some target) v)
        obtain ⟨Q', e1, e2⟩ := ih { σ with Q := MyQueue.add σ.Q (some t') (Ev.trans (some target) v), pred_inf_time := fset σ.pred_inf_time v (some t') } _ ts hmem' hq'
        exact ⟨Q', e1, e2⟩
    · have hc' : ¬ (ERat.le (ERat.add (some time) d) (σ.rec_time target) = true ∧
          ERat.lt (ERat.add (some time) d) (σ.pred_inf_time v) = true ∧ ERat.le (ERat.add (some time) d) tmax = true) := by
        intro h; apply hc; simpa [Bool.and_eq_true, and_assoc] using h
      rw [if_neg hc, if_neg hc']
      exact ih σ q ts hmem' hq

theorem sched_apply {tmax : ERat} (time : Rat) (target : Node) (delays : List (Node × ERat))
    (body : Loc → Node → TM Loc)
    (hb : ∀ σ v ts d, PyRT.alFind? delays v = some d → body σ v ts = .ok (schedStep (some time) target d σ v, ts))
    (hn : (delays.map (·.1)).Nodup) (σ : Loc) (q : List QItem) (ts : TapeSt) (hq : QRel tmax σ.Q q)
    (G : Loc → Prop)
    (hG : ∀ Q', QRel tmax Q' (schedule tmax time target (σ.rec_time target) delays σ.pred_inf_time q).2 →
      G { σ with Q := Q', pred_inf_time :=
                  (schedule tmax time target (σ.rec_time target) delays σ.pred_inf_time q).1 }) :
    ∃ σ', (delays.map (·.1)).foldlM body σ ts = .ok (σ', ts) ∧ G σ' := by
  obtain ⟨Q', e1, e2⟩ := sched_refines (tmax := tmax) time target delays body hb delays σ q ts
    (alFind_of_nodup delays hn) hq
  exact ⟨_, e1, hG Q' e2⟩

/-! ### `_process_trans_SIR_` -/

theorem process_trans_refines {A : EArgs} {P : ESParams} (hA : Agree A P) {σ : Loc} {s : ESState}
    (hR : Rel P σ s) (t : Rat) (src : Option Node) (tgt : Node) (hW : KeysOK P tgt) (ts : TapeSt) :
    ∃ σ', process_trans A (some t) src tgt σ ts = .ok (σ', ts) ∧ Rel P σ' (processTrans P s t src tgt) := by
  by_cases hst : s.status tgt = St.S
  · obtain ⟨h1, h2, h3, h4, h5, h6, h7, h8, h9, n1, n2, n3⟩ := hR
    obtain ⟨st, rt, pr, Q, tm, S, I, R, tr, nir⟩ := σ
    obtain ⟨st', rt', pr', q', tm', S', I', R', tr'⟩ := s
    simp only at h1 h2 h3 h4 h5 h6 h7 h8 h9 n1 n2 n3 hst
    subst h1 h2 h3 h5 h6 h7 h8 h9
    obtain ⟨a, S', rfl⟩ := List.exists_cons_of_ne_nil n1
    obtain ⟨b, I', rfl⟩ := List.exists_cons_of_ne_nil n2
    obtain ⟨c, R', rfl⟩ := List.exists_cons_of_ne_nil n3
    obtain ⟨e1, e2, e3, e4, e5⟩ := hA
    obtain ⟨nodes, nbrs, joint, tmin, tmax⟩ := P
    simp only at e1 e2 e3 e4 e5 h4
    unfold KeysOK at hW
    simp only at hW
    unfold process_trans processTrans
    simp only [e5, e1]
    simp only [hst, decide_true, if_true, listLast_reverse_cons, liftE_ok_eq_pure, pure_bind,
      fset_self, h4.tmax, hd_cons]
    have hWJ := hW (fun v => decide (fset st tgt St.I v = St.S))
    generalize joint tgt (List.filter (fun v => decide (fset st tgt St.I v = St.S)) (nbrs tgt)) = J at hWJ ⊢
    obtain ⟨delays, recDelay⟩ := J
    simp only at hWJ ⊢
    have hq1 : QRel tmax
        (if ERat.le (ERat.add (some t) recDelay) tmax = true
          then Q.add (ERat.add (some t) recDelay) (Ev.recov tgt) else Q)
        (if ERat.le (ERat.add (some t) recDelay) tmax = true then
          (match ERat.add (some t) recDelay with
           | some t => qadd tmax q' t (QEv.recov tgt)
           | none => q') else q') := by
      split
      · exact h4.addE _ (QEv.recov tgt)
      · exact h4
    by_cases hc : ERat.le (ERat.add (some t) recDelay) tmax = true
    · simp only [if_pos hc, pure_bind] at hq1 ⊢
      refine sched_apply t tgt delays _ ?_ hWJ _ _ ts hq1 _ ?_
      · intro σ v ts d hd
        simp only [PyRT.dictGet, hd, liftE_pure, pure_bind]
        unfold schedStep
        split <;> rfl
      · intro Q' hQ'
        simp only [fset_self] at hQ'
        constructor
        all_goals first | rfl | exact hQ' | (simp only [fset_self]; done) | (simp only [fset_self]; rfl) | simp [encT]
    · simp only [if_neg hc, pure_bind] at hq1 ⊢
      refine sched_apply t tgt delays _ ?_ hWJ _ _ ts hq1 _ ?_
      · intro σ v ts d hd
        simp only [PyRT.dictGet, hd, liftE_pure, pure_bind]
        unfold schedStep
        split <;> rfl
      · intro Q' hQ'
        simp only [fset_self] at hQ'
        constructor
        all_goals first | rfl | exact hQ' | (simp only [fset_self]; done) | simp [encT]
  · refine ⟨σ, ?_, ?_⟩
    · unfold process_trans
      rw [← hR.status] at hst
      simp only [hst, decide_false]
      rfl
    · unfold processTrans
      rw [if_neg hst]
      exact hR

/-! ### one event: `pop_and_run` against `step … 0` -/

theorem Rel.setQ {P : ESParams} {σ : Loc} {s : ESState} (hR : Rel P σ s) {q : MyQueue} {l : List QItem}
    (hq : QRel P.tmax q l) : Rel P { σ with Q := q } { s with queue := l } :=
  ⟨hR.status, hR.recTime, hR.predInf, hq, hR.times, hR.S, hR.I, hR.R, hR.trans, hR.neS, hR.neI, hR.neR⟩

theorem step_refines {A : EArgs} {P : ESParams} (hA : Agree A P) {σ : Loc} {s : ESState}
    (hR : Rel P σ s) (hW : ∀ x ∈ s.queue, ∀ src tgt, x.ev = QEv.trans src tgt → KeysOK P tgt)
    (hne : σ.Q.q ≠ []) (ts : TapeSt) :
    ∃ σ1 s1, pop_and_run A σ ts = .ok (σ1, ts) ∧ step P 0 s = some s1 ∧ Rel P σ1 s1 := by
  obtain ⟨m, q', x, l', hpop, hmod, hm1, hm2, hq'⟩ := popMin_refines hR.queue hne
  have hR' := hR.setQ hq'
  have hxmem : x ∈ s.queue := by
    obtain ⟨l1, l2, e1, _, _⟩ := pop_some hmod
    rw [e1]; simp
  obtain ⟨mt, mc, me⟩ := m
  simp only at hm1 hm2
  subst hm1 hm2
  unfold pop_and_run step
  rw [hpop, hmod, liftE_ok_eq_pure, pure_bind]
  simp only
  cases hev : x.ev with
  | trans src tgt =>
    obtain ⟨σ1, h1, h2⟩ := process_trans_refines hA hR' x.time src tgt (hW x hxmem src tgt hev) ts
    exact ⟨σ1, _, h1, rfl, h2⟩
  | recov u =>
    obtain ⟨σ1, h1, h2⟩ := process_rec_refines (A := A) hR' x.time u ts
    exact ⟨σ1, _, h1, rfl, h2⟩

/-! ### the event loop -/

theorem loop_succ_nonempty (A : EArgs) (fuel : Nat) (σ : Loc) (h : σ.Q.q ≠ []) :
    loop A (fuel + 1) σ = (pop_and_run A σ >>= fun σ => loop A fuel σ) := by
  rw [loop]
  have : decide (MyQueue.len σ.Q > 0) = true := by
    simp only [MyQueue.len, gt_iff_lt, decide_eq_true_eq]
    exact List.length_pos_of_ne_nil h
  simp only [this, if_true]

theorem loop_succ_empty (A : EArgs) (fuel : Nat) (σ : Loc) (h : σ.Q.q = []) :
    loop A (fuel + 1) σ = pure σ := by
  rw [loop]
  have : decide (MyQueue.len σ.Q > 0) = false := by
    simp [MyQueue.len, h]
  simp only [this]
  rfl

theorem model_loop_empty (P : ESParams) (sel : Nat → Nat) (fuel k : Nat) (s : ESState) (h : s.queue = []) :
    EventSIR.loop P sel fuel k s = s := by
  cases fuel with
  | zero => rfl
  | succ fuel =>
    rw [EventSIR.loop]
    have : step P (sel k) s = none := by
      unfold step pop minIdxs
      rw [h]
      simp [minTime]
    rw [this]

/-- an invariant of the model's event loop (under `heapq` tie-breaking) which guarantees that the user rule is only
called where it returns a proper `dict` -/
structure StepInv (P : ESParams) (J : ESState → Prop) : Prop where
  step : ∀ s s', J s → step P 0 s = some s' → J s'
  keys : ∀ s, J s → ∀ x ∈ s.queue, ∀ src tgt, x.ev = QEv.trans src tgt → KeysOK P tgt

theorem StepInv.ofWFJ {P : ESParams} (hW : WFJ P) : StepInv P (fun _ => True) :=
  ⟨fun _ _ _ _ => trivial, fun _ _ _ _ _ tgt _ => hW tgt⟩

/-- forward: whenever the generated loop returns, the model loop (same fuel, `heapq` tie-breaking) has emptied its
queue and ends in the related state; the tape is untouched -/
theorem loop_refines {A : EArgs} {P : ESParams} {J : ESState → Prop} (hA : Agree A P) (hJ : StepInv P J) :
    ∀ (fuel k : Nat) (σ : Loc) (s : ESState) (ts : TapeSt) (σ' : Loc) (ts' : TapeSt), Rel P σ s → J s →
      loop A fuel σ ts = .ok (σ', ts') →
      ts' = ts ∧ Rel P σ' (EventSIR.loop P (fun _ => 0) fuel k s) ∧
        (EventSIR.loop P (fun _ => 0) fuel k s).queue = [] := by
  intro fuel
  induction fuel with
  | zero =>
    intro k σ s ts σ' ts' _ _ h
    cases h
  | succ fuel ih =>
    intro k σ s ts σ' ts' hR hJs h
    by_cases hne : σ.Q.q = []
    · rw [loop_succ_empty A fuel σ hne, tm_pure] at h
      injection h with h
      injection h with h1 h2
      subst h1 h2
      have hs : s.queue = [] := hR.queue.nil_iff.1 hne
      rw [model_loop_empty P _ _ _ s hs]
      exact ⟨rfl, hR, hs⟩
    · obtain ⟨σ1, s1, h1, h2, h3⟩ := step_refines hA hR (hJ.keys s hJs) hne ts
      rw [loop_succ_nonempty A fuel σ hne, tm_bind_ok h1] at h
      rw [EventSIR.loop]
      simp only [h2]
      exact ih (k + 1) σ1 s1 ts σ' ts' h3 (hJ.step s s1 hJs h2) h

/-- backward: if the model loop empties its queue within `fuel` steps, the generated loop with one more unit of fuel
returns normally, in the related state -/
theorem loop_refines_back {A : EArgs} {P : ESParams} {J : ESState → Prop} (hA : Agree A P) (hJ : StepInv P J) :
    ∀ (fuel k : Nat) (σ : Loc) (s : ESState) (ts : TapeSt), Rel P σ s → J s →
      (EventSIR.loop P (fun _ => 0) fuel k s).queue = [] →
      ∃ σ', loop A (fuel + 1) σ ts = .ok (σ', ts) ∧ Rel P σ' (EventSIR.loop P (fun _ => 0) fuel k s) := by
  intro fuel
  induction fuel with
  | zero =>
    intro k σ s ts hR _ hq
    have hs : s.queue = [] := hq
    have hne : σ.Q.q = [] := hR.queue.nil_iff.2 hs
    refine ⟨σ, ?_, hR⟩
    rw [loop_succ_empty A 0 σ hne]; rfl
  | succ fuel ih =>
    intro k σ s ts hR hJs hq
    by_cases hne : σ.Q.q = []
    · have hs : s.queue = [] := hR.queue.nil_iff.1 hne
      rw [model_loop_empty P _ _ _ s hs]
      refine ⟨σ, ?_, hR⟩
      rw [loop_succ_empty A _ σ hne]; rfl
    · obtain ⟨σ1, s1, h1, h2, h3⟩ := step_refines hA hR (hJ.keys s hJs) hne ts
      rw [loop_succ_nonempty A _ σ hne, tm_bind_ok h1]
      rw [EventSIR.loop] at hq ⊢
      simp only [h2] at hq ⊢
      exact ih (k + 1) σ1 s1 ts h3 (hJ.step s s1 hJs h2) hq

/-! ### initialisation -/

theorem foldlM_pure_tm {α β : Type} (f : β → α → β) (l : List α) (b : β) :
    l.foldlM (m := TM) (fun b a => pure (f b a)) b = pure (l.foldl f b) := by
  induction l generalizing b with
  | nil => rfl
  | cons a l ih => rw [List.foldlM_cons, pure_bind, ih, List.foldl_cons]

/-- the loop over `initial_recovereds` -/
def recStep (tmin : Rat) (σ : Loc) (node : Node) : Loc :=
  { σ with status := fset σ.status node St.R, rec_time := fset σ.rec_time node (some tmin),
           number_initially_recovered := σ.number_initially_recovered + 1 }

theorem foldl_recStep (tmin : Rat) (recs : List Node) (σ : Loc) :
    recs.foldl (recStep tmin) σ =
      { σ with status := fun v => if v ∈ recs then St.R else σ.status v,
               rec_time := fun v => if v ∈ recs then some tmin else σ.rec_time v,
               number_initially_recovered := σ.number_initially_recovered + (recs.length : Int) } := by
  induction recs generalizing σ with
  | nil => simp
  | cons a l ih =>
    rw [List.foldl_cons, ih]
    unfold recStep
    simp only [List.length_cons, List.mem_cons]
    congr 1
    · funext v
      by_cases h1 : v ∈ l
      · simp [h1]
      · by_cases h2 : v = a <;> simp [h1, h2, fset]
    · funext v
      by_cases h1 : v ∈ l
      · simp [h1]
      · by_cases h2 : v = a <;> simp [h1, h2, fset]
    · omega

/-- the loop over `initial_infecteds` -/
def infStep (tmin : Rat) (σ : Loc) (u : Node) : Loc :=
  { σ with pred_inf_time := fset σ.pred_inf_time u (some tmin),
           Q := MyQueue.add σ.Q (some tmin) (Ev.trans none u) }

theorem foldl_infStep (P : ESParams) (infs : List Node) (σ : Loc) (q : List QItem) (hq : QRel P.tmax σ.Q q) :
    ∃ Q', infs.foldl (infStep P.tmin) σ =
      { σ with pred_inf_time := fun v => if v ∈ infs then some P.tmin else σ.pred_inf_time v, Q := Q' } ∧
      QRel P.tmax Q' (initQueue P infs q) := by
  induction infs generalizing σ q with
  | nil => exact ⟨σ.Q, by simp, hq⟩
  | cons a l ih =>
    have hq' : QRel P.tmax (infStep P.tmin σ a).Q (qadd P.tmax q P.tmin (QEv.trans none a)) :=
      hq.add P.tmin (QEv.trans none a)
    obtain ⟨Q', e1, e2⟩ := ih (infStep P.tmin σ a) _ hq'
    refine ⟨Q', ?_, e2⟩
    rw [List.foldl_cons, e1]
    unfold infStep
    simp only [List.mem_cons]
    congr 1
    funext v
    by_cases h1 : v ∈ l
    · simp [h1]
    · by_cases h2 : v = a <;> simp [h1, h2, fset]

/-- the generated state when the event loop is entered -/
def genInit (A : EArgs) (infs recs : List Node) : Loc :=
  let σ : Loc := Loc.init
  let σ := { σ with status := (fun _ => St.S) }
  let σ := { σ with rec_time := (fun _ => some (A.tmin - 1)) }
  let σ := { σ with number_initially_recovered := 0 }
  let σ := recs.foldl (recStep A.tmin) σ
  let σ := { σ with pred_inf_time := (fun _ => none) }
  let σ := { σ with Q := (MyQueue.init A.tmax) }
  let σ := { σ with times := [some A.tmin] }
  let σ := { σ with S := [((A.order : Int) - σ.number_initially_recovered)] }
  let σ := { σ with I := [0] }
  let σ := { σ with R := [σ.number_initially_recovered] }
  let σ := { σ with transmissions := [] }
  infs.foldl (infStep A.tmin) σ

/-- the final slicing `times[len(initial_infecteds):]` … -/
def dropRows (k : Nat) (σ : Loc) : Loc :=
  { σ with times := σ.times.drop k, S := σ.S.drop k, I := σ.I.drop k, R := σ.R.drop k }

theorem run_eq (A : EArgs) (infs recs : List Node) (fuel : Nat) :
    run A infs recs fuel = (loop A fuel (genInit A infs recs) >>= fun σ => pure (dropRows infs.length σ)) := by
  unfold run
  have h1 := foldlM_pure_tm (recStep A.tmin) recs
  have h2 := foldlM_pure_tm (infStep A.tmin) infs
  unfold recStep at h1
  unfold infStep at h2
  simp only [h1, h2, pure_bind]
  rfl

theorem genInit_rel {A : EArgs} {P : ESParams} (hA : Agree A P) (infs recs : List Node) :
    Rel P (genInit A infs recs) (init P infs recs) := by
  unfold genInit
  simp only [foldl_recStep, hA.tmin, hA.tmax, hA.order]
  obtain ⟨Q', e1, e2⟩ := foldl_infStep P infs
    { status := fun v => if v ∈ recs then St.R else St.S,
      rec_time := fun v => if v ∈ recs then some P.tmin else some (P.tmin - 1),
      pred_inf_time := fun _ => none, Q := MyQueue.init P.tmax, times := [some P.tmin],
      S := [(P.nodes.length : Int) - (0 + (recs.length : Int))], I := [0], R := [0 + (recs.length : Int)],
      transmissions := [], number_initially_recovered := 0 + (recs.length : Int) } [] (QRel.init P.tmax)
  rw [e1]
  unfold EventSIR.init
  constructor
  all_goals first | rfl | exact e2 | simp

/-! ### the whole function -/

/-- the returned objects against the model's final state: the four arrays are the model's `rows`, the queue is
empty, everything else is as in `Rel` -/
structure OutRel (k : Nat) (σ : Loc) (s : ESState) : Prop where
  times : σ.times = (rows s k).1.map some
  S : σ.S = (rows s k).2.1
  I : σ.I = (rows s k).2.2.1
  R : σ.R = (rows s k).2.2.2
  trans : σ.transmissions = s.trans.reverse.map encT
  status : σ.status = s.status
  recTime : σ.rec_time = s.recTime
  predInf : σ.pred_inf_time = s.predInf
  queue : σ.Q.q = []

theorem Rel.out {P : ESParams} {σ : Loc} {s : ESState} (hR : Rel P σ s) (hq : s.queue = []) (k : Nat) :
    OutRel k (dropRows k σ) s where
  times := by show σ.times.drop k = _; rw [hR.times, rows, List.map_drop]
  S := by show σ.S.drop k = _; rw [hR.S, rows]
  I := by show σ.I.drop k = _; rw [hR.I, rows]
  R := by show σ.R.drop k = _; rw [hR.R, rows]
  trans := hR.trans
  status := hR.status
  recTime := hR.recTime
  predInf := hR.predInf
  queue := hR.queue.nil_iff.2 hq

/-- **refinement, forward**: whenever the generated `fast_nonMarkov_SIR` returns normally, it has not touched the
random tape, the model run (same fuel, `heapq` tie-breaking) has emptied its queue, and the returned objects are the
model's. -/
theorem run_refines {A : EArgs} {P : ESParams} {J : ESState → Prop} (hA : Agree A P) (hJ : StepInv P J)
    (infs recs : List Node) (h0 : J (init P infs recs)) (fuel : Nat)
    (ts : TapeSt) (σ : Loc) (ts' : TapeSt) (h : run A infs recs fuel ts = .ok (σ, ts')) :
    ts' = ts ∧ (EventSIR.run P (fun _ => 0) infs recs fuel).queue = [] ∧
      OutRel infs.length σ (EventSIR.run P (fun _ => 0) infs recs fuel) := by
  rw [run_eq] at h
  cases hl : loop A fuel (genInit A infs recs) ts with
  | error e => rw [tm_bind_err hl] at h; cases h
  | ok r =>
    obtain ⟨σ1, ts1⟩ := r
    rw [tm_bind_ok hl, tm_pure] at h
    injection h with h
    injection h with h1 h2
    subst h1 h2
    obtain ⟨g1, g2, g3⟩ := loop_refines hA hJ fuel 0 _ _ ts σ1 ts1 (genInit_rel hA infs recs) h0 hl
    exact ⟨g1, g3, g2.out g3 _⟩

/-- **refinement, backward**: if the model run empties its queue within `fuel` events, the generated function called
with one more unit of fuel returns normally (no `IndexError`/`KeyError`, no "fuel"), with the model's objects. -/
theorem run_refines_back {A : EArgs} {P : ESParams} {J : ESState → Prop} (hA : Agree A P) (hJ : StepInv P J)
    (infs recs : List Node) (h0 : J (init P infs recs))
    (fuel : Nat) (ts : TapeSt) (hq : (EventSIR.run P (fun _ => 0) infs recs fuel).queue = []) :
    ∃ σ, run A infs recs (fuel + 1) ts = .ok (σ, ts) ∧
      OutRel infs.length σ (EventSIR.run P (fun _ => 0) infs recs fuel) := by
  obtain ⟨σ1, h1, h2⟩ := loop_refines_back hA hJ fuel 0 _ _ ts (genInit_rel hA infs recs) h0 hq
  refine ⟨dropRows infs.length σ1, ?_, h2.out hq _⟩
  rw [run_eq, tm_bind_ok h1]
  rfl

/-- the only way the generated loop can fail from a related state is by running out of fuel -/
theorem loop_total {A : EArgs} {P : ESParams} {J : ESState → Prop} (hA : Agree A P) (hJ : StepInv P J) :
    ∀ (fuel : Nat) (σ : Loc) (s : ESState) (ts : TapeSt), Rel P σ s → J s →
      (∃ σ', loop A fuel σ ts = .ok (σ', ts)) ∨ loop A fuel σ ts = .error "fuel" := by
  intro fuel
  induction fuel with
  | zero => intro σ s ts _ _; exact Or.inr rfl
  | succ fuel ih =>
    intro σ s ts hR hJs
    by_cases hne : σ.Q.q = []
    · left; exact ⟨σ, by rw [loop_succ_empty A fuel σ hne]; rfl⟩
    · obtain ⟨σ1, s1, h1, h2, h3⟩ := step_refines hA hR (hJ.keys s hJs) hne ts
      rw [loop_succ_nonempty A fuel σ hne, tm_bind_ok h1]
      exact ih σ1 s1 ts h3 (hJ.step s s1 hJs h2)

/-- no Python exception (`IndexError` from `S[-1]`/`heappop`, `KeyError` from `trans_delay[v]`) can be raised -/
theorem run_total {A : EArgs} {P : ESParams} {J : ESState → Prop} (hA : Agree A P) (hJ : StepInv P J)
    (infs recs : List Node) (h0 : J (init P infs recs)) (fuel : Nat) (ts : TapeSt) :
    (∃ σ, run A infs recs fuel ts = .ok (σ, ts)) ∨ run A infs recs fuel ts = .error "fuel" := by
  rw [run_eq]
  rcases loop_total hA hJ fuel _ _ ts (genInit_rel hA infs recs) h0 with ⟨σ', h⟩ | h
  · left; exact ⟨dropRows infs.length σ', by rw [tm_bind_ok h]; rfl⟩
  · right; rw [tm_bind_err h]

/-! ### reading the output of the generated code -/

def decT (e : ERat × Option Node × Node) : Option (Rat × Option Node × Node) := e.1.map fun t => (t, e.2.1, e.2.2)

/-- the transmissions `(t, infector, node)` reported by the generated code, most recent first (the order in which
the model keeps them); all reported times are finite (`OutRel.trans_eq`) -/
def genTrans (σ : Loc) : List (Rat × Option Node × Node) := (σ.transmissions.filterMap decT).reverse

/-- the recoveries reported by the generated code: `rec_time` of the nodes whose final status is `R`
(the counterpart of `EventSIR.recoveriesOf`) -/
def genRecov (nodes recs : List Node) (σ : Loc) : List (Rat × Node) :=
  nodes.filterMap fun v =>
    if σ.status v = St.R ∧ v ∉ recs then (match σ.rec_time v with | some t => some (t, v) | none => none) else none

theorem filterMap_decT_encT (l : List (Rat × Option Node × Node)) : (l.map encT).filterMap decT = l := by
  induction l with
  | nil => rfl
  | cons a l ih =>
    rw [List.map_cons, List.filterMap_cons]
    simp only [decT, encT, Option.map_some, ih]

theorem OutRel.genTrans_eq {k : Nat} {σ : Loc} {s : ESState} (h : OutRel k σ s) : genTrans σ = s.trans := by
  unfold genTrans
  rw [h.trans, filterMap_decT_encT, List.reverse_reverse]

theorem OutRel.trans_eq {k : Nat} {σ : Loc} {s : ESState} (h : OutRel k σ s) :
    σ.transmissions = (genTrans σ).reverse.map encT := by
  rw [h.genTrans_eq, h.trans]

theorem OutRel.genRecov_eq {k : Nat} {σ : Loc} {s : ESState} (h : OutRel k σ s) (nodes recs : List Node) :
    genRecov nodes recs σ = recoveriesOf nodes recs s := by
  unfold genRecov recoveriesOf
  rw [h.status, h.recTime]
  rfl

/-- table-driven rules (`_find_trans_and_rec_delays_SIR_`) return a dict with the susceptible neighbours as keys -/
theorem KeysOK_table (nodes : List Node) (nbrs : Node → List Node) (delay : Node → Node → ERat) (dur : Node → ERat)
    (tmin : Rat) (tmax : ERat) (u : Node) (hN : (nbrs u).Nodup) :
    KeysOK (tableParams nodes nbrs delay dur tmin tmax) u := by
  intro p
  show ((((nbrs u).filter p).map fun v => (v, delay u v)).map (·.1)).Nodup
  rw [List.map_map]
  have : ((fun x : Node × ERat => x.1) ∘ fun v => (v, delay u v)) = id := rfl
  rw [this, List.map_id]
  exact hN.filter _

theorem WFJ_table (nodes : List Node) (nbrs : Node → List Node) (delay : Node → Node → ERat) (dur : Node → ERat)
    (tmin : Rat) (tmax : ERat) (hN : ∀ u, (nbrs u).Nodup) : WFJ (tableParams nodes nbrs delay dur tmin tmax) :=
  fun u => KeysOK_table nodes nbrs delay dur tmin tmax u (hN u)

/-- for well-formed table inputs the C11 invariant `Inv` is a step invariant: every queued transmission targets a
node of the graph, whose neighbour list is duplicate-free -/
theorem StepInv.table {nodes : List Node} {nbrs : Node → List Node} {delay : Node → Node → ERat} {dur : Node → ERat}
    {infs recs : List Node} (h : WF nodes nbrs delay dur infs recs) (tmin : Rat) (tmax : ERat) :
    StepInv (tableParams nodes nbrs delay dur tmin tmax) (Inv nodes nbrs delay dur tmin tmax infs recs) where
  step := fun _ _ hI hs => hI.step h hs
  keys := by
    intro s hI x hx src tgt hev
    have hmem : tgt ∈ nodes := (InvC.q_tr hI x hx src tgt hev).1
    exact KeysOK_table nodes nbrs delay dur tmin tmax tgt (h.nbr_nodup tgt hmem)

/-- the arguments of a call with table-driven rules: `trans_and_rec_time_fxn` is a pure table lookup -/
def tableArgs (nodes : List Node) (nbrs : Node → List Node) (delay : Node → Node → ERat) (dur : Node → ERat)
    (tmin : Rat) (tmax : ERat) : EArgs :=
  { nbrs := nbrs, order := nodes.length, tmin := tmin, tmax := tmax,
    transRec := fun u sus => pure (jointOfTables delay dur u sus) }

theorem agree_tableArgs (nodes : List Node) (nbrs : Node → List Node) (delay : Node → Node → ERat) (dur : Node → ERat)
    (tmin : Rat) (tmax : ERat) :
    Agree (tableArgs nodes nbrs delay dur tmin tmax) (tableParams nodes nbrs delay dur tmin tmax) :=
  ⟨rfl, rfl, rfl, rfl, fun _ _ => rfl⟩

/-! ### `find?` on a list in which the key occurs at most once does not depend on the order -/

theorem find?_reverse_of_le_one {α : Type} (p : α → Bool) : ∀ (l : List α), (l.filter p).length ≤ 1 →
    l.reverse.find? p = l.find? p := by
  intro l
  induction l with
  | nil => intro _; rfl
  | cons a l ih =>
    intro h
    rw [List.reverse_cons, List.find?_append, List.find?_cons]
    by_cases ha : p a = true
    · rw [List.filter_cons, if_pos ha, List.length_cons] at h
      have hnil : l.filter p = [] := List.length_eq_zero_iff.1 (by omega)
      have hnone : l.reverse.find? p = none := by
        rw [List.find?_eq_none]
        intro x hx hpx
        have : x ∈ l.filter p := List.mem_filter.2 ⟨List.mem_reverse.1 hx, hpx⟩
        rw [hnil] at this; cases this
      rw [hnone, ha]
      simp [ha]
    · have ha' : p a = false := by simpa using ha
      rw [List.filter_cons, if_neg ha] at h
      rw [ih h, ha']
      simp [ha']

/-- `isFPP` does not depend on the order of the transmission list when each node is reported at most once -/
theorem isFPP_reverse (nodes : List Node) (nbrs : Node → List Node) (delay : Node → Node → ERat) (dur : Node → ERat)
    (tmin : Rat) (tmax : ERat) (infs recs : List Node) (tr : List (Rat × Option Node × Node))
    (rc : List (Rat × Node)) (huniq : ∀ v, (tr.filter fun e => e.2.2 == v).length ≤ 1) :
    isFPP nodes nbrs delay dur tmin tmax infs recs tr.reverse rc =
      isFPP nodes nbrs delay dur tmin tmax infs recs tr rc := by
  have hfind : ∀ v, (tr.reverse.find? fun e => e.2.2 == v) = tr.find? fun e => e.2.2 == v :=
    fun v => find?_reverse_of_le_one _ tr (huniq v)
  unfold isFPP
  simp only [hfind, List.filter_reverse, List.length_reverse, List.all_reverse]

end GenESIR
