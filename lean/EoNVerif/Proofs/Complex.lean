import EoNVerif.Model.Complex
import EoNVerif.Model.ListDictLaw
import EoNVerif.Proofs.ListDict
import EoNVerif.Proofs.Gillespie
import Mathlib.Tactic.Ring
import Mathlib.Tactic.Linarith
import Mathlib.Algebra.Order.Field.Rat
import Mathlib.Data.List.Nodup
/-!
Helper lemmas for C15 (`Gillespie_complex_contagion`): the specification of `_ListDict_.insert` with a weight
(replace; weight 0 removes), batches of such inserts, the invariant of the candidate structure and its
preservation by `init`, `applyEvent`, `loop`, `run`, and the clock identity.
-/

/-! ### `insert` with a weight -/
namespace LD
variable {α : Type} [DecidableEq α]

theorem insert_eq (s : LD α) (x : α) (w : Option Rat) :
    s.insert x w = (if x ∈ s.items then s.remove x else some s).bind
      (fun s1 => if w ≠ some 0 then s1.update x w else some s1) := by
  unfold insert
  by_cases hx : x ∈ s.items
  · simp only [hx, if_true]; rfl
  · simp only [hx, if_false]; rfl

/-- `insert(x, weight=w)` on a weighted structure: never fails, `x` is a candidate afterwards iff `w ≠ 0`, with
weight exactly `w`; every other candidate is untouched -/
theorem insert_spec (s : LD α) (h : Inv s) (hwt : s.weighted = true) (x : α) (w : Rat) (hw : 0 ≤ w) :
    ∃ s', s.insert x (some w) = some s' ∧ Inv s' ∧ s'.weighted = true ∧
      (∀ y, y ∈ s'.items ↔ ((y ≠ x ∧ y ∈ s.items) ∨ (y = x ∧ w ≠ 0))) ∧
      (w ≠ 0 → s'.getW x = w) ∧ (∀ y, y ≠ x → s'.getW y = s.getW y) := by
  -- step 1: remove if present
  have step1 : ∃ s1, (if x ∈ s.items then s.remove x else some s) = some s1 ∧ Inv s1 ∧ s1.weighted = true ∧
      (∀ y, y ∈ s1.items ↔ (y ≠ x ∧ y ∈ s.items)) ∧ (∀ y, y ≠ x → s1.getW y = s.getW y) := by
    by_cases hx : x ∈ s.items
    · obtain ⟨s1, hs1, hinv1, hwd1, hmem1, hget1⟩ := remove_any s x h hx
      refine ⟨s1, by rw [if_pos hx]; exact hs1, hinv1, hwd1.trans hwt, ?_, hget1⟩
      intro y; rw [hmem1]; exact and_comm
    · refine ⟨s, by rw [if_neg hx], h, hwt, ?_, fun _ _ => rfl⟩
      intro y
      constructor
      · intro hy; exact ⟨fun hc => hx (hc ▸ hy), hy⟩
      · exact fun hy => hy.2
  obtain ⟨s1, hs1, hinv1, hwt1, hmem1, hget1⟩ := step1
  have hx1 : x ∉ s1.items := fun hc => ((hmem1 x).1 hc).1 rfl
  by_cases hw0 : w = 0
  · refine ⟨s1, ?_, hinv1, hwt1, ?_, fun hc => absurd hw0 hc, hget1⟩
    · rw [insert_eq, hs1]
      simp [hw0]
    · intro y; rw [hmem1]
      constructor
      · exact Or.inl
      · rintro (hy | hy)
        · exact hy
        · exact absurd hw0 hy.2
  · obtain ⟨s2, hs2⟩ := update_some_exists s1 x w hwt1
    have hinv2 := inv_update_some s1 s2 x w hinv1 hw hs2
    obtain ⟨-, hwt2, -⟩ := update_shape s1 s2 x w hs2
    refine ⟨s2, ?_, hinv2, hwt2, ?_, ?_, ?_⟩
    · rw [insert_eq, hs1]
      have : (some w : Option Rat) ≠ some 0 := fun hc => hw0 (Option.some.inj hc)
      simp only [Option.bind_some, if_pos this]
      exact hs2
    · intro y
      rw [update_mem s1 s2 x w hs2, hmem1]
      constructor
      · rintro (hy | hy)
        · exact Or.inl hy
        · exact Or.inr ⟨hy, hw0⟩
      · rintro (hy | hy)
        · exact Or.inl hy
        · exact Or.inr hy.1
    · intro _
      rw [update_getW_self s1 s2 x w hs2, getW_of_not_mem s1 hinv1 hwt1 x hx1]; ring
    · intro y hy
      rw [update_getW_ne s1 s2 x y w hs2 hy, hget1 y hy]

end LD

/-! ### sums over a duplicate-free node list -/

theorem sumRat_filter_split {γ : Type} (l : List γ) (p : γ → Bool) (f : γ → Rat) :
    sumRat (l.map f) = sumRat ((l.filter p).map f) + sumRat ((l.filter fun c => !p c).map f) := by
  induction l with
  | nil => simp
  | cons a t ih =>
    cases hp : p a with
    | true => simp [hp, ih]; ring
    | false => simp [hp, ih]; ring

theorem sumRat_pos_of_mem {γ : Type} (l : List γ) (f : γ → Rat) (hnn : ∀ c ∈ l, 0 ≤ f c)
    (x : γ) (hx : x ∈ l) (hp : 0 < f x) : 0 < sumRat (l.map f) := by
  induction l with
  | nil => simp at hx
  | cons a t ih =>
    simp only [List.map_cons, sumRat_cons]
    have h1 := hnn a (by simp)
    have h2 := sumRat_map_nonneg t f (fun c hc => hnn c (by simp [hc]))
    rcases List.mem_cons.1 hx with rfl | hx'
    · linarith
    · have := ih (fun c hc => hnn c (by simp [hc])) hx'
      linarith

namespace Complex
variable {σ : Type} [DecidableEq σ]

/-- the hypothesis of the property: the influence set (evaluated on the new statuses) covers every *other* node whose
rate changes when `u` changes status -/
def InfluenceCovers (P : CCParams σ) : Prop :=
  ∀ (st : Node → σ) (u : Node), ∀ x ∈ P.nodes, x ≠ u →
    P.rate (fset st u (P.choose st u)) x ≠ P.rate st x → x ∈ P.infl (fset st u (P.choose st u)) u

structure WF (P : CCParams σ) : Prop where
  nodup : P.nodes.Nodup
  rate_nonneg : ∀ st u, 0 ≤ P.rate st u
  infl_mem : ∀ st u, ∀ x ∈ P.infl st u, x ∈ P.nodes
  covers : InfluenceCovers P

/-- the candidate structure holds exactly the nodes of positive rate, with weight = the rate function on the
*current* statuses -/
structure Inv (P : CCParams σ) (s : CCState σ) : Prop where
  ldInv : LD.Inv s.ld
  weighted : s.ld.weighted = true
  items_mem : ∀ x ∈ s.ld.items, x ∈ P.nodes
  pos : ∀ x ∈ P.nodes, 0 < P.rate s.status x → x ∈ s.ld.items ∧ s.ld.getW x = P.rate s.status x
  zero : ∀ x ∈ P.nodes, P.rate s.status x = 0 → x ∉ s.ld.items
  counts : s.data.length = P.ret.length ∧
    ∀ i, i < P.ret.length → (s.data.getD i []).headD 0 = countSt P s.status (P.ret.getD i (s.status 0))

/-! ### batches of inserts -/

omit [DecidableEq σ] in
/-- `insert(u, weight=rate(u))` for every `u` of a list (repetitions allowed): never fails; afterwards the listed
nodes are candidates iff their rate is non-zero, with weight = rate; the other nodes are untouched -/
theorem insertAll_spec (P : CCParams σ) (st : Node → σ) (hnn : ∀ u, 0 ≤ P.rate st u) (l : List Node)
    (ld : LD Node) (h : LD.Inv ld) (hwt : ld.weighted = true) :
    ∃ ld', insertAll P st l ld = some ld' ∧ LD.Inv ld' ∧ ld'.weighted = true ∧
      (∀ y ∈ l, (y ∈ ld'.items ↔ P.rate st y ≠ 0) ∧ (P.rate st y ≠ 0 → ld'.getW y = P.rate st y)) ∧
      (∀ y, y ∉ l → (y ∈ ld'.items ↔ y ∈ ld.items) ∧ ld'.getW y = ld.getW y) := by
  induction l generalizing ld with
  | nil => exact ⟨ld, rfl, h, hwt, by simp, fun _ _ => ⟨Iff.rfl, rfl⟩⟩
  | cons u rest ih =>
    obtain ⟨ld1, hs1, hinv1, hwt1, hmem1, hself1, hne1⟩ := LD.insert_spec ld h hwt u (P.rate st u) (hnn u)
    obtain ⟨ld', hs', hinv', hwt', hin', hout'⟩ := ih ld1 hinv1 hwt1
    refine ⟨ld', ?_, hinv', hwt', ?_, ?_⟩
    · simp only [insertAll, hs1]; exact hs'
    · intro y hy
      by_cases hyr : y ∈ rest
      · exact hin' y hyr
      · have hyu : y = u := by
          rcases List.mem_cons.1 hy with h1 | h1
          · exact h1
          · exact absurd h1 hyr
        subst hyu
        obtain ⟨h1, h2⟩ := hout' y hyr
        refine ⟨?_, fun hr => by rw [h2]; exact hself1 hr⟩
        rw [h1, hmem1]
        constructor
        · rintro (hc | hc)
          · exact absurd rfl hc.1
          · exact hc.2
        · exact fun hr => Or.inr ⟨rfl, hr⟩
    · intro y hy
      have hyu : y ≠ u := fun hc => hy (by simp [hc])
      have hyr : y ∉ rest := fun hc => hy (by simp [hc])
      obtain ⟨h1, h2⟩ := hout' y hyr
      refine ⟨?_, by rw [h2]; exact hne1 y hyu⟩
      rw [h1, hmem1]
      constructor
      · rintro (hc | hc)
        · exact hc.2
        · exact absurd hc.1 hyu
      · exact fun hc => Or.inl ⟨hyu, hc⟩

omit [DecidableEq σ] in
/-- the initial loop is the batch insert of the nodes of positive rate -/
theorem initLD_eq (P : CCParams σ) (st : Node → σ) (l : List Node) (ld : LD Node) :
    initLD P st l ld = insertAll P st (l.filter fun u => decide (P.rate st u > 0)) ld := by
  induction l generalizing ld with
  | nil => rfl
  | cons u rest ih =>
    by_cases hu : P.rate st u > 0
    · simp only [initLD, hu, if_true, List.filter_cons, decide_true, insertAll]
      cases ld.insert u (some (P.rate st u)) with
      | none => rfl
      | some ld1 => exact ih ld1
    · simp only [initLD, hu, if_false, List.filter_cons, decide_false]
      exact ih ld

/-! ### the status counters -/

theorem filter_fset_length (l : List Node) (hl : l.Nodup) (st : Node → σ) (node : Node) (new x : σ) :
    ((l.filter fun u => decide (fset st node new u = x)).length : Int) =
      ((l.filter fun u => decide (st u = x)).length : Int) +
        (if node ∈ l then (if new = x then 1 else 0) - (if st node = x then 1 else 0) else 0) := by
  induction l with
  | nil => simp
  | cons a t ih =>
    rw [List.nodup_cons] at hl
    have ih' := ih hl.2
    by_cases ha : a = node
    · subst ha
      have hnt : a ∉ t := hl.1
      rw [if_neg hnt] at ih'
      simp only [List.filter_cons, Gillespie.fset_self, List.mem_cons, true_or, if_true]
      by_cases h1 : new = x <;> by_cases h2 : st a = x <;>
        simp only [h1, h2, decide_true, decide_false, if_true, if_false, Bool.false_eq_true,
          List.length_cons, Nat.cast_succ] at ih' ⊢ <;> omega
    · have hne : node ≠ a := fun hc => ha hc.symm
      simp only [List.filter_cons, Gillespie.fset_ne st node a new ha, List.mem_cons, hne, false_or]
      by_cases h2 : st a = x <;>
        simp only [h2, decide_true, decide_false, if_true, if_false, Bool.false_eq_true,
          List.length_cons, Nat.cast_succ] <;> omega

theorem countSt_fset (P : CCParams σ) (hnd : P.nodes.Nodup) (st : Node → σ) (node : Node) (hn : node ∈ P.nodes)
    (new x : σ) :
    countSt P (fset st node new) x =
      (if new = x then (if st node = x then countSt P st x - 1 else countSt P st x) + 1
       else (if st node = x then countSt P st x - 1 else countSt P st x)) := by
  unfold countSt
  rw [filter_fset_length P.nodes hnd st node new x, if_pos hn]
  by_cases h1 : new = x <;> by_cases h2 : st node = x <;> simp only [h1, h2, if_true, if_false] <;> omega

/-! ### `init` -/

theorem init_inv' (P : CCParams σ) (h : WF P) (ic : Node → σ) (tmin : Rat) :
    ∃ s, init P ic tmin = some s ∧ Inv P s ∧ s.status = ic := by
  obtain ⟨ld, hld, hinv, hwt, hin, hout⟩ := insertAll_spec P ic (h.rate_nonneg ic)
    (P.nodes.filter fun u => decide (P.rate ic u > 0)) (LD.empty true) (LD.inv_empty true) rfl
  have hfil : ∀ y, y ∈ P.nodes.filter (fun u => decide (P.rate ic u > 0)) ↔ (y ∈ P.nodes ∧ 0 < P.rate ic y) := by
    intro y; simp [List.mem_filter]
  refine ⟨{ status := ic, ld := ld, times := [tmin], data := P.ret.map fun x => [countSt P ic x], log := [] },
    by simp only [init, initLD_eq, hld], ⟨hinv, hwt, ?_, ?_, ?_, ?_⟩, rfl⟩
  · intro x hx
    by_contra hxn
    have hnf : x ∉ P.nodes.filter (fun u => decide (P.rate ic u > 0)) := fun hc => hxn ((hfil x).1 hc).1
    have := ((hout x hnf).1).1 hx
    simp [LD.empty] at this
  · intro x hx hp
    have hf := (hfil x).2 ⟨hx, hp⟩
    have hne : P.rate ic x ≠ 0 := ne_of_gt hp
    exact ⟨((hin x hf).1).2 hne, (hin x hf).2 hne⟩
  · intro x _ h0 hc
    have hnf : x ∉ P.nodes.filter (fun u => decide (P.rate ic u > 0)) := by
      intro hf; have := ((hfil x).1 hf).2; rw [h0] at this; exact lt_irrefl _ this
    have := ((hout x hnf).1).1 hc
    simp [LD.empty] at this
  · refine ⟨by simp, ?_⟩
    intro i hi
    simp [List.getD_eq_getElem?_getD, hi]

/-! ### one event -/

theorem applyEvent_eq (P : CCParams σ) (s : CCState σ) (node : Node) (t : Rat) :
    applyEvent P s node t =
      (insertAll P (fset s.status node (P.choose s.status node))
        (node :: P.infl (fset s.status node (P.choose s.status node)) node) s.ld).map fun ld2 =>
        { status := fset s.status node (P.choose s.status node), ld := ld2, times := t :: s.times,
          data := (List.zip P.ret s.data).map fun (x, col) =>
            let v := col.headD 0
            let v := if s.status node = x then v - 1 else v
            let v := if P.choose s.status node = x then v + 1 else v
            v :: col,
          log := (t, node, P.choose s.status node) :: s.log } := by
  unfold applyEvent
  simp only [insertAll]
  cases s.ld.insert node (some (P.rate (fset s.status node (P.choose s.status node)) node)) with
  | none => rfl
  | some ld1 =>
    dsimp only
    cases insertAll P (fset s.status node (P.choose s.status node))
      (P.infl (fset s.status node (P.choose s.status node)) node) ld1 with
    | none => rfl
    | some ld2 => rfl

theorem applyEvent_inv' (P : CCParams σ) (h : WF P) (s : CCState σ) (hs : Inv P s) (node : Node) (t : Rat)
    (hn : node ∈ s.ld.items) :
    ∃ s', applyEvent P s node t = some s' ∧ Inv P s' ∧
      s'.status = fset s.status node (P.choose s.status node) := by
  have hnode : node ∈ P.nodes := hs.items_mem node hn
  obtain ⟨ld2, hld, hinv, hwt, hin, hout⟩ := insertAll_spec P (fset s.status node (P.choose s.status node))
    (h.rate_nonneg _) (node :: P.infl (fset s.status node (P.choose s.status node)) node) s.ld hs.ldInv hs.weighted
  rw [applyEvent_eq, hld]
  refine ⟨_, rfl, ⟨hinv, hwt, ?_, ?_, ?_, ?_⟩, rfl⟩
  · intro x hx
    change x ∈ ld2.items at hx
    by_cases hl : x ∈ node :: P.infl (fset s.status node (P.choose s.status node)) node
    · rcases List.mem_cons.1 hl with rfl | hl'
      · exact hnode
      · exact h.infl_mem _ _ x hl'
    · exact hs.items_mem x (((hout x hl).1).1 hx)
  · intro x hx hp
    change 0 < P.rate (fset s.status node (P.choose s.status node)) x at hp
    change x ∈ ld2.items ∧ ld2.getW x = P.rate (fset s.status node (P.choose s.status node)) x
    by_cases hl : x ∈ node :: P.infl (fset s.status node (P.choose s.status node)) node
    · have hne : P.rate (fset s.status node (P.choose s.status node)) x ≠ 0 := ne_of_gt hp
      exact ⟨((hin x hl).1).2 hne, (hin x hl).2 hne⟩
    · have hxn : x ≠ node := fun hc => hl (by simp [hc])
      have hxi : x ∉ P.infl (fset s.status node (P.choose s.status node)) node := fun hc => hl (by simp [hc])
      have hr : P.rate (fset s.status node (P.choose s.status node)) x = P.rate s.status x := by
        by_contra hc; exact hxi (h.covers s.status node x hx hxn hc)
      rw [hr] at hp ⊢
      obtain ⟨h1, h2⟩ := hs.pos x hx hp
      exact ⟨((hout x hl).1).2 h1, by rw [(hout x hl).2]; exact h2⟩
  · intro x hx h0
    change P.rate (fset s.status node (P.choose s.status node)) x = 0 at h0
    change x ∉ ld2.items
    by_cases hl : x ∈ node :: P.infl (fset s.status node (P.choose s.status node)) node
    · intro hc; exact ((hin x hl).1).1 hc h0
    · have hxn : x ≠ node := fun hc => hl (by simp [hc])
      have hxi : x ∉ P.infl (fset s.status node (P.choose s.status node)) node := fun hc => hl (by simp [hc])
      have hr : P.rate (fset s.status node (P.choose s.status node)) x = P.rate s.status x := by
        by_contra hc; exact hxi (h.covers s.status node x hx hxn hc)
      rw [hr] at h0
      intro hc
      exact hs.zero x hx h0 (((hout x hl).1).1 hc)
  · obtain ⟨hlen, hcnt⟩ := hs.counts
    refine ⟨by simp [hlen], ?_⟩
    intro i hi
    have hi' : i < s.data.length := hlen ▸ hi
    have hci := hcnt i hi
    have hret : ∀ d, P.ret.getD i d = P.ret[i] := by
      intro d; simp [List.getD_eq_getElem?_getD, hi]
    have hdat : s.data.getD i [] = s.data[i] := by
      simp [List.getD_eq_getElem?_getD, hi']
    rw [hret, hdat] at hci
    dsimp only
    rw [hret, countSt_fset P h.nodup s.status node hnode, ← hci]
    simp [List.getD_eq_getElem?_getD, hi, hi']

/-! ### the loop -/

theorem loop_inv' (P : CCParams σ) (h : WF P) (tmax : ERat) (cfuel fuel : Nat) (s s' : CCState σ) (t : ERat)
    (ts ts' : TapeSt) (hs : Inv P s) (hl : loop P tmax cfuel fuel s t ts = .ok (s', ts')) : Inv P s' := by
  induction fuel generalizing s t ts with
  | zero => rw [loop] at hl; exact absurd hl (TM.fail_ne_ok _ _ _)
  | succ fuel ih =>
    cases t with
    | none =>
      rw [loop] at hl
      obtain ⟨rfl, -⟩ := TM.pure_ok _ _ _ _ hl; exact hs
    | some tv =>
      rw [loop] at hl
      split at hl
      · obtain ⟨rfl, -⟩ := TM.pure_ok _ _ _ _ hl; exact hs
      · obtain ⟨node, ts1, h1, h2⟩ := TM.bind_ok _ _ _ _ _ hl
        obtain ⟨s1, hs1, hinv1, -⟩ :=
          applyEvent_inv' P h s hs node tv (Gillespie.chooseTM_mem _ _ _ _ _ _ h1)
        rw [hs1] at h2
        dsimp only at h2
        split at h2
        · obtain ⟨d, ts2, -, h4⟩ := TM.bind_ok _ _ _ _ _ h2
          exact ih s1 _ ts2 hinv1 h4
        · exact ih s1 _ ts1 hinv1 h2

/-- the loop never raises `KeyError` from a state satisfying the invariant -/
theorem loop_no_keyerror (P : CCParams σ) (h : WF P) (tmax : ERat) (cfuel fuel : Nat) (s : CCState σ) (t : ERat)
    (ts : TapeSt) (hs : Inv P s) : loop P tmax cfuel fuel s t ts ≠ .error "KeyError" := by
  induction fuel generalizing s t ts with
  | zero =>
    rw [loop]; simp only [TM.fail]; intro hc
    injection hc with hc
    exact absurd hc (by decide)
  | succ fuel ih =>
    intro hl
    cases t with
    | none => rw [loop] at hl; exact absurd hl (TM.pure_ne_err _ _ _)
    | some tv =>
      rw [loop] at hl
      split at hl
      · exact absurd hl (TM.pure_ne_err _ _ _)
      · rcases TM.bind_err _ _ _ _ hl with h1 | ⟨node, ts1, h1, h2⟩
        · exact Gillespie.chooseTM_err _ _ _ _ _ h1 rfl
        · obtain ⟨s1, hs1, hinv1, -⟩ :=
            applyEvent_inv' P h s hs node tv (Gillespie.chooseTM_mem _ _ _ _ _ _ h1)
          rw [hs1] at h2
          dsimp only at h2
          split at h2
          · rcases TM.bind_err _ _ _ _ h2 with h3 | ⟨d, ts2, -, h4⟩
            · exact TM.popExpo_err _ _ _ h3 rfl
            · exact ih s1 _ ts2 hinv1 h4
          · exact ih s1 _ ts1 hinv1 h2

theorem run_inv' (P : CCParams σ) (h : WF P) (ic : Node → σ) (tmin : Rat) (tmax : ERat) (fuel cfuel : Nat)
    (ts ts' : TapeSt) (s' : CCState σ) (hr : run P ic tmin tmax fuel cfuel ts = .ok (s', ts')) : Inv P s' := by
  obtain ⟨s0, h0, hinv0, -⟩ := init_inv' P h ic tmin
  unfold run at hr
  rw [h0] at hr
  dsimp only at hr
  split at hr
  · obtain ⟨d, ts1, -, h2⟩ := TM.bind_ok _ _ _ _ _ hr
    exact loop_inv' P h tmax cfuel fuel s0 s' _ ts1 ts' hinv0 h2
  · exact loop_inv' P h tmax cfuel fuel s0 s' _ ts ts' hinv0 hr

/-! ### the clock, the guard and the selection law -/

/-- candidates are exactly the nodes of positive rate -/
theorem mem_items_iff (P : CCParams σ) (h : WF P) (s : CCState σ) (hs : Inv P s) (x : Node) :
    x ∈ s.ld.items ↔ (x ∈ P.nodes ∧ 0 < P.rate s.status x) := by
  constructor
  · intro hx
    have hxn := hs.items_mem x hx
    refine ⟨hxn, lt_of_le_of_ne (h.rate_nonneg _ _) ?_⟩
    intro h0; exact hs.zero x hxn h0.symm hx
  · rintro ⟨hxn, hp⟩; exact (hs.pos x hxn hp).1

theorem getW_eq_rate (P : CCParams σ) (h : WF P) (s : CCState σ) (hs : Inv P s) (x : Node) (hx : x ∈ s.ld.items) :
    s.ld.getW x = P.rate s.status x := by
  obtain ⟨hxn, hp⟩ := (mem_items_iff P h s hs x).1 hx
  exact (hs.pos x hxn hp).2

theorem weightSum_eq (P : CCParams σ) (h : WF P) (s : CCState σ) (hs : Inv P s) :
    s.ld.weightSum = sumRat (P.nodes.map (P.rate s.status)) := by
  unfold LD.weightSum
  rw [sumRat_map_congr s.ld.items s.ld.getW (P.rate s.status) (getW_eq_rate P h s hs),
    sumRat_filter_split P.nodes (fun x => decide (x ∈ s.ld.items)) (P.rate s.status)]
  have hz : sumRat ((P.nodes.filter fun c => !decide (c ∈ s.ld.items)).map (P.rate s.status)) = 0 := by
    apply sumRat_map_zero
    intro c hc
    rw [List.mem_filter] at hc
    have hci : c ∉ s.ld.items := by simpa using hc.2
    have hle : ¬ 0 < P.rate s.status c := fun hp => hci (hs.pos c hc.1 hp).1
    exact le_antisymm (not_lt.1 hle) (h.rate_nonneg _ _)
  rw [hz, add_zero]
  apply sumRat_perm
  apply List.Perm.map
  rw [List.perm_ext_iff_of_nodup hs.ldInv.nodup (h.nodup.filter _)]
  intro a
  rw [List.mem_filter]
  constructor
  · intro ha; exact ⟨hs.items_mem a ha, by simpa using ha⟩
  · intro ha; simpa using ha.2

theorem clock_eq' (P : CCParams σ) (h : WF P) (s : CCState σ) (hs : Inv P s) :
    s.ld.totalWeight = sumRat (P.nodes.map (P.rate s.status)) := by
  unfold LD.totalWeight
  rw [if_pos hs.weighted, hs.ldInv.total hs.weighted]
  exact weightSum_eq P h s hs

theorem stop_iff' (P : CCParams σ) (h : WF P) (s : CCState σ) (hs : Inv P s) :
    (0 < s.ld.totalWeight) ↔ ∃ x ∈ P.nodes, 0 < P.rate s.status x := by
  rw [clock_eq' P h s hs]
  constructor
  · exact exists_pos_of_sumRat_pos _ _
  · rintro ⟨x, hx, hp⟩
    exact sumRat_pos_of_mem _ _ (fun c _ => h.rate_nonneg _ _) x hx hp

theorem next_node_law' (P : CCParams σ) (h : WF P) (s : CCState σ) (hs : Inv P s) (x : Node) (hx : x ∈ P.nodes)
    (hpos : 0 < P.rate s.status x) (k : Nat) :
    Dist.mass (s.ld.chooseDist k) (fun o => o == some x) =
      P.rate s.status x / sumRat (P.nodes.map (P.rate s.status)) * (1 - s.ld.rejProb ^ k) := by
  obtain ⟨hxi, hw⟩ := hs.pos x hx hpos
  have hsum : 0 < s.ld.weightSum := by
    rw [weightSum_eq P h s hs]
    exact sumRat_pos_of_mem _ _ (fun c _ => h.rate_nonneg _ _) x hx hpos
  rw [LD.choose_law s.ld hs.ldInv hs.weighted hsum x hxi k, hw, weightSum_eq P h s hs]

theorem zero_rate_never' (P : CCParams σ) (_h : WF P) (s : CCState σ) (hs : Inv P s) (x : Node) (hx : x ∈ P.nodes)
    (h0 : P.rate s.status x = 0) (k : Nat) :
    Dist.mass (s.ld.chooseDist k) (fun o => o == some x) = 0 :=
  LD.chooseDist_not_mem s.ld x (hs.zero x hx h0) k

end Complex
