"""C20 — subsample / get_time_shift / get_Pk / get_Pnk / PGF helpers / estimate_R0 against the Lean models and specs."""
from fractions import Fraction as F
import numpy as np, networkx as nx, networkx as nx
import common, gen
from common import fr, rs
from sims import err_enum

TOL = F(1, 10 ** 11)


def grid(rng, n, tie_p):
    t = F(rng.choice([0, 0, 1, -2]))
    out = []
    for _ in range(n):
        out.append(t)
        if rng.random() >= tie_p:
            t += F(rng.randrange(1, 9), 4)
    return out


def close(a, b):
    return abs(fr(a) - F(b)) <= TOL * max(1, abs(F(b)))


def generated_model(ctx, reqs, metas):
    """the Lean code GENERATED from auxiliary.subsample / get_time_shift (harness/pyinvest2lean.py -> Gen/InvestGen.lean),
    run by its own driver on the same inputs as the Python functions: results and exception kinds must coincide"""
    import fcntl, subprocess, os, json, pyinvest2lean
    lean = common.LEAN
    os.makedirs(os.path.join(lean, ".audit"), exist_ok=True)
    with open(os.path.join(lean, ".audit", "geninv.lock"), "w") as lock:
        fcntl.flock(lock, fcntl.LOCK_EX)
        try:
            _, errors = pyinvest2lean.regenerate()
        except Exception as e:
            errors = {"translator": "crashed: %r" % e}
        errors = {k: v for k, v in errors.items() if k in ("subsample", "get_time_shift", "translator", "auxiliary.py")}
        if errors:
            ctx.disagreement("generated-aux:translation", dict(entry="subsample/get_time_shift", errors=errors))
            return
        p = common.lake(["build", "driverinv"])
    if p.returncode != 0:
        ctx.disagreement("generated-aux:build", dict(entry="subsample/get_time_shift", log=(p.stdout + p.stderr)[-800:]))
        return
    exe = os.path.join(lean, ".lake", "build", "bin", "driverinv")
    sel = [(r, m) for r, m in zip(reqs, metas) if m[0] in ("subsample", "timeshift")]
    data = "\n".join(json.dumps(r, separators=(",", ":")) for r, _ in sel) + "\n"
    q = subprocess.run([exe], input=data, capture_output=True, text=True)
    lines = q.stdout.splitlines()
    if q.returncode != 0 or len(lines) != len(sel):
        raise RuntimeError("driverinv crashed: " + q.stderr[-1000:])
    for (r, (kind, rep, impl)), line in zip(sel, lines):
        g = json.loads(line)
        ctx.count("generated-model-runs:" + kind)
        if kind == "subsample":
            same = (impl["ok"] and g.get("ok") and impl["outs"] == g["outs"]) or (not impl["ok"] and not g.get("ok") and impl["err"] == g.get("err"))
        else:
            same = (impl["ok"] and g.get("ok") and impl["t"] == g["t"]) or (not impl["ok"] and not g.get("ok") and impl["err"] == g.get("err"))
        if not same:
            ctx.disagreement("generated-" + kind, dict(rep, impl=impl, generated=g))


def run(ctx):
    import EoN
    drv = common.LeanDriver()
    reqs, metas = [], []
    # ---- subsample
    for _ in range(ctx.scale(2000, 20000)):
        r = ctx.rng
        times = grid(r, r.randint(1, 12), r.choice([0, 0.2, 0.5]))
        kind = r.random()
        report = grid(r, r.randint(1, 10), r.choice([0, 0.3]))
        shift = times[0] - report[0] + (F(r.randrange(0, 12), 4) if kind > 0.1 else -F(r.randrange(1, 5), 4))
        report = [x + shift for x in report]
        if r.random() < 0.3:
            report[-1] = times[-1] + r.randrange(0, 5)          # beyond the end
            report.sort()
        # one case in five: an observation ONE ULP after (or before) a report time — "at or before" is an exact comparison of the
        # two floats, so the observation an ulp later does not count and the one an ulp earlier does (times accumulated by
        # t += dt against a decimal report grid look like this: 0.1 + 0.2 = 0.30000000000000004 > 0.3)
        if len(times) >= 2 and r.random() < 0.2:
            i = r.randrange(1, len(times))
            x = times[i]
            up = r.random() < 0.7
            y = F(float(np.nextafter(float(x), np.inf if up else -np.inf)))
            lo = times[i - 1]
            hi = times[i + 1] if i + 1 < len(times) else None
            if lo <= y and (hi is None or y <= hi):
                times[i] = y
                if x >= report[0] and x not in report:
                    report = sorted(report + [x])
                ctx.count("subsample:observation one ulp %s a report time" % ("after" if up else "before") if x in report
                          else "subsample:ulp-perturbed observation")
        nser = r.randint(1, 3)
        series = [[r.randrange(0, 20) for _ in times] for _ in range(nser)]
        rep = dict(entry="subsample", report=[str(x) for x in report], times=[str(x) for x in times], series=series)
        # mixed kinds: the first series integer counts (what the simulators return), the later ones FLOAT fractions k/8 (a
        # proportion, an ODE curve) — every series must come back as the values it had, whatever the kind of the first one
        floaty = nser >= 2 and r.random() < 0.5
        rep["float_series"] = floaty
        ctx.count("subsample:float later series" if floaty else "subsample:int series")
        try:
            res = EoN.subsample(np.array([float(x) for x in report]), np.array([float(x) for x in times]),
                                *[(np.array(s) / 8.0 if (floaty and j >= 1) else np.array(s)) for j, s in enumerate(series)])
            if nser == 1:
                res = (res,)
            # back to the integers the model works with (exact: k/8 is dyadic); a value that is no longer k/8 stays a float
            def back(j, x):
                y = float(x) * (8.0 if (floaty and j >= 1) else 1.0)
                return int(y) if y == int(y) else y
            impl = dict(ok=True, outs=[[back(j, x) for x in a] for j, a in enumerate(res)])
        except Exception as e:
            impl = dict(ok=False, err=err_enum(e))
        ctx.count("subsample:%s" % ("ok" if impl["ok"] else impl["err"]))
        ctx.count("subsample:series=%d" % nser)
        reqs.append(dict(op="subsample", report=rep["report"], times=rep["times"], series=series))
        metas.append(("subsample", rep, impl))
    # ---- time shift
    for _ in range(ctx.scale(600, 6000)):
        r = ctx.rng
        times = grid(r, r.randint(1, 10), 0.1)
        L = [F(r.randrange(0, 12), 2) for _ in times]
        thr = F(r.randrange(0, 14), 2)
        rep = dict(entry="get_time_shift", times=[str(x) for x in times], L=[str(x) for x in L], thr=str(thr))
        try:
            t = EoN.get_time_shift(np.array([float(x) for x in times]), np.array([float(x) for x in L]), float(thr))
            impl = dict(ok=True, t=rs(t))
        except Exception as e:
            impl = dict(ok=False, err=err_enum(e))
        ctx.count("timeshift:%s" % ("reached" if any(x >= thr for x in L) else "never"))
        reqs.append(dict(op="timeshift", times=rep["times"], L=rep["L"], thr=rep["thr"]))
        metas.append(("timeshift", rep, impl))
    # ---- degree helpers
    def graphs():
        r = ctx.rng
        for _ in range(ctx.scale(150, 1000)):
            yield gen.random_graph(r, 1, 10), "fresh"
        # histories: ONE graph object edited in place between calls (degree-changing rewires that keep the node and
        # edge counts, edge/node insertions and removals) — the helpers must describe the graph as it is now
        for _ in range(ctx.scale(40, 300)):
            G = gen.random_graph(r, 4, 10)
            for step in range(4):
                yield G, "history-step%d" % step
                es, non = list(G.edges()), list(nx.non_edges(G))
                kind = r.choice(["rewire", "rewire", "add-edge", "del-edge", "add-node"])
                if kind == "rewire" and es and non:
                    G.remove_edge(*r.choice(es))
                    non = list(nx.non_edges(G))
                    G.add_edge(*r.choice(non))
                elif kind == "add-edge" and non:
                    G.add_edge(*r.choice(non))
                elif kind == "del-edge" and es:
                    G.remove_edge(*r.choice(es))
                else:
                    G.add_node(max(G) + 1)
        # views: the argument is a networkx VIEW (subgraph / edge_subgraph / filtered view) of a parent graph that is
        # edited between calls; a view is a graph object of its own whose degrees change with the parent
        for _ in range(ctx.scale(40, 300)):
            P = gen.random_graph(r, 6, 12)
            nodes = list(P)
            keep = r.sample(nodes, r.randint(3, len(nodes) - 1))
            vk = r.choice(["subgraph", "subgraph", "subgraph_view", "edge_subgraph"])
            if vk == "subgraph":
                H = P.subgraph(keep)
            elif vk == "subgraph_view":
                ks = set(keep)
                H = nx.subgraph_view(P, filter_node=lambda u, ks=ks: u in ks)
            else:
                es = list(P.edges())
                if not es:
                    continue
                H = P.edge_subgraph(r.sample(es, r.randint(1, len(es))))
                keep = list(H)
            for step in range(3):
                if H.order() > 0:
                    yield H, "view:%s-step%d" % (vk, step)
                inside = [u for u in keep if u in P]
                es = [e for e in P.edges() if e[0] in inside and e[1] in inside]
                non = [(u, v) for i, u in enumerate(inside) for v in inside[i + 1:] if not P.has_edge(u, v)]
                kind = r.choice(["add-edge", "add-edge", "del-edge", "del-node"])
                if kind == "add-edge" and non and vk != "edge_subgraph":
                    P.add_edge(*r.choice(non))
                elif kind == "del-edge" and es:
                    P.remove_edge(*r.choice(es))
                elif kind == "del-node" and len(inside) > 2:
                    P.remove_node(r.choice(inside))
                elif es:
                    P.remove_edge(*r.choice(es))
    for G, tag in graphs():
        r = ctx.rng
        if G.number_of_edges() == 0 and r.random() < 0.7:
            continue
        ctx.count("degree:" + tag)
        idx = gen.index_of(G)
        adj = gen.adj_lists(G, idx)
        xs = [F(r.randrange(1, 17), 16) for _ in range(4)] + [F(1)]
        tau, gamma = F(r.randrange(1, 8), 4), F(r.randrange(1, 8), 4)
        T = tau / (tau + gamma)
        rep = dict(entry="degree-helpers", adj=adj, xs=[str(x) for x in xs], T=str(T))
        impl = {}
        try:
            Pk = EoN.get_Pk(G)
            Pnk = EoN.get_Pnk(G)
            maxk = max(Pk)
            impl["Pk"] = [Pk.get(k, 0) for k in range(maxk + 1)]
            impl["Pnk"] = [[(Pnk[k1][k2] if (k1 in Pnk and k2 in Pnk[k1]) else 0) for k2 in range(maxk + 1)] for k1 in range(maxk + 1)]
            psi, psiP, psiDP = EoN.get_PGF(Pk), EoN.get_PGFPrime(Pk), EoN.get_PGFDPrime(Pk)
            impl["psi"] = [float(psi(float(x))) for x in xs]
            impl["psiP"] = [float(psiP(float(x))) for x in xs]
            impl["psiDP"] = [float(psiDP(float(x))) for x in xs]
            impl["R0"] = float(EoN.estimate_R0(G, tau=float(tau), gamma=float(gamma))) if G.number_of_edges() else None
            impl["R0T"] = float(EoN.estimate_R0(G, transmissibility=float(T))) if G.number_of_edges() else None
            # a transmissibility of exactly 0 is a number, not "not given": R0 = 0 whatever tau and gamma say
            impl["R0T0"] = [float(EoN.estimate_R0(G, transmissibility=0.0)), float(EoN.estimate_R0(G, tau=float(tau), gamma=float(gamma), transmissibility=0.0)),
                            float(EoN.estimate_R0(G, tau=float(tau), gamma=float(gamma), transmissibility=0))] if G.number_of_edges() else None
            impl["ok"] = True
        except Exception as e:
            impl = dict(ok=False, err=err_enum(e))
        ctx.count("degree:n=%d" % G.order())
        reqs.append(dict(op="degree", adj=adj, xs=rep["xs"], T=rep["T"]))
        metas.append(("degree", rep, impl))
    generated_model(ctx, reqs, metas)
    import genhelp
    genhelp.run_stream(ctx, "degree")
    # ---- compare
    for (kind, rep, impl), m in zip(metas, drv.batch(reqs)):
        ctx.traces += 1
        if kind == "subsample":
            ctx.case(rep, nontrivial=impl["ok"], sample=rep)
            if not impl["ok"]:
                if m.get("ok") or m.get("err") != impl["err"]:
                    # does the property demand a result here?  only when report[0] >= times[0]
                    if F(rep["report"][0]) >= F(rep["times"][0]):
                        ctx.violation("subsample raised %s on ordered report times not before the first observation" % impl["err"], rep)
                    else:
                        ctx.disagreement("subsample-error", dict(rep, impl=impl, model=m))
                continue
            if not m.get("ok"):
                ctx.disagreement("subsample", dict(rep, impl=impl, model=m))
                continue
            if impl["outs"] != m["spec"]:
                ctx.violation("subsample differs from 'last observation at or before the report time'", dict(rep, impl=impl["outs"], spec=m["spec"]))
            elif impl["outs"] != m["outs"]:
                ctx.disagreement("subsample", dict(rep, impl=impl["outs"], model=m["outs"]))
        elif kind == "timeshift":
            ctx.case(rep, nontrivial=True)
            times, L, thr = [F(x) for x in rep["times"]], [F(x) for x in rep["L"]], F(rep["thr"])
            first = next((t for t, l in zip(times, L) if l >= thr), None)
            if impl["ok"] and first is not None and F(impl["t"]) != first:
                ctx.violation("get_time_shift is not the first time the series reaches the threshold", dict(rep, impl=impl, spec=str(first)))
            elif impl != {k: v for k, v in m.items() if k in impl}:
                ctx.disagreement("timeshift", dict(rep, impl=impl, model=m))
        else:
            ctx.case(rep, nontrivial=True)
            if not impl["ok"]:
                ctx.violation("degree helper raised %s" % impl["err"], dict(rep, impl=impl))
                continue
            bad = []
            for key in ("Pk", "psi", "psiP", "psiDP"):
                if len(impl[key]) != len(m[key]) or not all(close(a, b) for a, b in zip(impl[key], m[key])):
                    bad.append(key)
            if len(impl["Pnk"]) != len(m["Pnk"]) or not all(close(a, b) for ra, rb in zip(impl["Pnk"], m["Pnk"]) for a, b in zip(ra, rb)):
                bad.append("Pnk")
            if m["R0"] is not None and impl["R0"] is not None and not (close(impl["R0"], m["R0"]) and close(impl["R0T"], m["R0"])):
                bad.append("R0")
            # property-level facts on the implementation's numbers
            prop = []
            degs = [len(a) for a in rep["adj"]]
            hist = [F(sum(1 for d in degs if d == k), len(degs)) for k in range(max(degs) + 1)]
            if len(impl["Pk"]) != len(hist) or not all(close(a, b) for a, b in zip(impl["Pk"], hist)):
                prop.append("get_Pk differs from the degree histogram of the graph as it is now")
            if not close(sum(fr(x) for x in impl["Pk"]), 1):
                prop.append("sum Pk != 1")
            for k1, row in enumerate(impl["Pnk"]):
                if k1 > 0 and fr(impl["Pk"][k1]) > 0 and not close(sum(fr(x) for x in row), 1):
                    prop.append("Pnk row %d does not sum to 1" % k1)
            if not close(impl["psi"][-1], 1):
                prop.append("psi(1) != 1")
            if not close(impl["psiP"][-1], m["meank"]):
                prop.append("psi'(1) != <k>")
            if not close(impl["psiDP"][-1], m["meank2mk"]):
                prop.append("psi''(1) != <k^2-k>")
            if m["R0"] is not None and F(m["meank"]) > 0 and not close(impl["R0"], F(rep["T"]) * F(m["meank2mk"]) / F(m["meank"])):
                prop.append("R0 != T<k^2-k>/<k>")
            if impl.get("R0T0") is not None and any(x != 0 for x in impl["R0T0"]):
                prop.append("estimate_R0(transmissibility=0) = %s, not T<k^2-k>/<k> = 0" % impl["R0T0"])
            if prop:
                ctx.violation("degree helpers: %s" % prop, dict(rep, impl=impl))
            elif bad:
                ctx.disagreement("degree:" + ",".join(bad), dict(rep, impl=impl, model=m))
