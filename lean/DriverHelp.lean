import Driver
import EoNVerif.Gen.HelpersGen
open Lean Drv

/-! JSON-lines driver for the code GENERATED from the degree-distribution helpers and the final-size / discrete-time
EBCM functions (Gen/HelpersGen.lean). -/
namespace DrvGenHelp
open GenHelp

def getDict (j : Json) : Except String (List (Nat × Rat)) :=
  getList (fun e => do match ← getArr e with
    | [k, v] => pure ((← getNat k), (← getRat v))
    | _ => .error "bad dict entry") j

def optRat (j : Json) (k : String) : Except String (Option Rat) :=
  match fldOpt j k with
  | some .null => pure none
  | none => pure none
  | some x => (getRat x).map some

def optDict (j : Json) (k : String) : Except String (Option (List (Nat × Rat))) :=
  match fldOpt j k with
  | some .null => pure none
  | none => pure none
  | some x => (getDict x).map some

def poly (c : List (Nat × Rat)) : Rat → Except String Rat := fun x => pure (sumRat (c.map fun kv => kv.2 * x ^ kv.1))
def jDict (d : List (Nat × Rat)) : Json := jArr (fun kv => Json.arr #[jNat kv.1, jRat kv.2]) d
def res (r : Except String Json) : Json := match r with | .ok j => j | .error e => errObj e
def okRat (x : Rat) : Json := Json.mkObj [("ok", Json.bool true), ("value", jRat x)]

def run (j : Json) : Except String Json := do
  match ← getStr (← fld j "op") with
  | "degree" =>
    let nbrdegs ← getList (getList getNat) (← fld j "nbrdegs")
    let degs := nbrdegs.map (·.length)
    let xs ← getList getRat (← fld j "xs")
    pure (res (do
      let Pk ← get_Pk degs
      let psi ← get_PGF Pk
      let psiP ← get_PGFPrime Pk
      let psiDP ← get_PGFDPrime Pk
      let Pnk ← get_Pnk nbrdegs
      pure (Json.mkObj [("ok", Json.bool true), ("Pk", jDict Pk), ("psi", jArr (fun x => jRat (psi x)) xs),
        ("psiP", jArr (fun x => jRat (psiP x)) xs), ("psiDP", jArr (fun x => jRat (psiDP x)) xs),
        ("Pnk", jArr (fun row => Json.arr #[jNat row.1, jDict row.2]) Pnk)])))
  | "R0" =>
    let degs ← getList getNat (← fld j "degs")
    pure (res ((estimate_R0 degs (← optRat j "tau") (← optRat j "gamma") (← optRat j "T")).map okRat))
  | "pgf" =>
    let Pk ← getDict (← fld j "Pk")
    let xs ← getList getRat (← fld j "xs")
    pure (res (do
      let psi ← get_PGF Pk
      let psiP ← get_PGFPrime Pk
      let psiDP ← get_PGFDPrime Pk
      pure (Json.mkObj [("ok", Json.bool true), ("psi", jArr (fun x => jRat (psi x)) xs),
        ("psiP", jArr (fun x => jRat (psiP x)) xs), ("psiDP", jArr (fun x => jRat (psiDP x)) xs)])))
  | "epi_disc" =>
    pure (res ((Epi_Prob_discrete (← getDict (← fld j "Pk")) (← getRat (← fld j "p")) (← getNat (← fld j "its"))).map okRat))
  | "attack_disc" =>
    pure (res ((Attack_rate_discrete (← getDict (← fld j "Pk")) (← getRat (← fld j "p")) (← optRat j "rho") (← optDict j "Sk0")
      (← optRat j "phiS0") (← optRat j "phiR0") (← getNat (← fld j "its"))).map okRat))
  | "attack_cts" =>
    pure (res ((Attack_rate_cts_time (← getDict (← fld j "Pk")) (← getRat (← fld j "tau")) (← getRat (← fld j "gamma")) (← getNat (← fld j "its"))
      (← optRat j "rho") (← optDict j "Sk0") (← optRat j "phiS0") (← optRat j "phiR0")).map okRat))
  | "ebcm_disc" =>
    let r := EBCM_discrete (← getRat (← fld j "N")) (poly (← getDict (← fld j "psihat"))) (poly (← getDict (← fld j "psihatPrime")))
      (← getRat (← fld j "p")) (← getRat (← fld j "phiS0")) (← getRat (← fld j "phiR0")) (← getRat (← fld j "R0"))
      (← (← fld j "tmin").getInt?) (← (← fld j "tmax").getInt?) (← getBool (← fld j "full"))
    pure (res (r.map fun l => Json.mkObj [("ok", Json.bool true), ("out", jArr (jArr jRat) l)]))
  | "ebcm_uniform" =>
    let r := EBCM_discrete_uniform_introduction (← getRat (← fld j "N")) (poly (← getDict (← fld j "psi"))) (poly (← getDict (← fld j "psiPrime")))
      (← getRat (← fld j "p")) (← getRat (← fld j "rho")) (← (← fld j "tmax").getInt?) (← getBool (← fld j "full"))
    pure (res (r.map fun l => Json.mkObj [("ok", Json.bool true), ("out", jArr (jArr jRat) l)]))
  | o => .error ("op " ++ o)

def handle (line : String) : String :=
  match Json.parse line with
  | .ok j => match run j with
    | .ok r => r.compress
    | .error e => (errObj ("driverhelp:" ++ e)).compress
  | .error e => (errObj ("parse:" ++ e)).compress
end DrvGenHelp
