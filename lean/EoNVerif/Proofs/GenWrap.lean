import EoNVerif.Gen.WrapGen
import EoNVerif.Proofs.GenInitCond
import EoNVerif.Proofs.GenGlue
import EoNVerif.Proofs.GenHelp
import Mathlib.Tactic.Ring
import Mathlib.Tactic.Linarith
import Mathlib.Tactic.FieldSimp
import Mathlib.Algebra.Order.Field.Rat
/-!
Lemmas for C06e (`Props/C06e.lean`): the twenty `*_from_graph` wrappers GENERATED into `Gen/WrapGen.lean`
(namespace `GenWrap`).  Closed forms of the argument records (`…_closed`), counting lemmas tying `len(initial_infecteds)`
to the status counts of `Model/InitCond.lean`, the mean degree `Σ_k k·Pk[k]`, and `Σ_k k·N_k = 2|E|`.
-/
namespace GenWrapProofs
open GenInit InitCond GenInitProofs GenWrap
open GenHelpProofs (ok_bind err_bind pure_eq_ok throw_eq_err PkAL kAveAL)

/-! ## the initial sets -/

/-- the hypotheses of C06c on the initial sets: disjoint lists of graph nodes -/
structure SetsOK (adj : List (List Nat)) (infs recs : List Node) : Prop where
  disj : ∀ u ∈ infs, u ∉ recs
  infIn : ∀ u ∈ infs, u < adj.length
  recIn : ∀ u ∈ recs, u < adj.length

theorem SetsOK.nil_recs {adj : List (List Nat)} {infs : List Node} (h : ∀ u ∈ infs, u < adj.length) :
    SetsOK adj infs [] := ⟨fun _ _ => by simp, h, fun _ hu => by simp at hu⟩

/-- number of positions `< N` lying in a duplicate-free list of positions `< N` -/
theorem filter_range_mem (N : Nat) (l : List Nat) (hn : l.Nodup) (hl : ∀ u ∈ l, u < N) :
    ((List.range N).filter (fun u => u ∈ l)).length = l.length := by
  have hp : ((List.range N).filter (fun u => decide (u ∈ l))).Perm l := by
    rw [List.perm_ext_iff_of_nodup (List.nodup_range.filter _) hn]
    intro u
    simp only [List.mem_filter, List.mem_range, decide_eq_true_eq]
    exact ⟨fun h => h.2, fun h => ⟨hl u h, h⟩⟩
  exact hp.length_eq

/-- `len(initial_recovereds)` is the number of recovered nodes (duplicate-free list of graph nodes) -/
theorem count_R (adj : List (List Nat)) (infs recs : List Node) (hn : recs.Nodup) (hr : ∀ u ∈ recs, u < adj.length) :
    count adj (statusOf infs recs) St.R = recs.length := by
  unfold count
  rw [← filter_range_mem adj.length recs hn hr]
  congr 1
  apply List.filter_congr
  intro u _
  unfold statusOf
  by_cases h1 : u ∈ recs
  · simp [h1]
  · by_cases h2 : u ∈ infs <;> simp [h1, h2]

/-- `len(initial_infecteds)` is the number of infected nodes (duplicate-free, disjoint from the recovered ones) -/
theorem count_I (adj : List (List Nat)) (infs recs : List Node) (hn : infs.Nodup) (hS : SetsOK adj infs recs) :
    count adj (statusOf infs recs) St.I = infs.length := by
  unfold count
  rw [← filter_range_mem adj.length infs hn hS.infIn]
  congr 1
  apply List.filter_congr
  intro u _
  unfold statusOf
  by_cases h2 : u ∈ infs
  · have h1 : u ∉ recs := hS.disj u h2
    simp [h1, h2]
  · by_cases h1 : u ∈ recs <;> simp [h1, h2]

/-- `N - len(infs) - len(recs)` is the number of susceptible nodes -/
theorem count_S (adj : List (List Nat)) (infs recs : List Node) (hi : infs.Nodup) (hr : recs.Nodup)
    (hS : SetsOK adj infs recs) :
    (count adj (statusOf infs recs) St.S : Int) = (adj.length : Int) - infs.length - recs.length := by
  have := count_total adj (statusOf infs recs)
  rw [count_I adj infs recs hi hS, count_R adj infs recs hr hS.recIn] at this
  omega

/-- without initial recovered nodes nobody has status `R` -/
theorem statusOf_nil_ne_R (infs : List Node) (v : Nat) : statusOf infs [] v ≠ St.R := by
  unfold statusOf
  by_cases h : v ∈ infs <;> simp [h]

/-! ## graph sizes -/

theorem twoM_eq_sum_deg (adj : List (List Nat)) : twoM adj = ((List.range adj.length).map (deg adj)).sum := by
  rw [twoM, map_range_deg]

theorem length_opairs (adj : List (List Nat)) : (opairs adj).length = twoM adj := by
  unfold opairs
  rw [twoM_eq_sum_deg]
  generalize List.range adj.length = l
  induction l with
  | nil => rfl
  | cons a t ih =>
    simp only [List.flatMap_cons, List.length_append, List.length_map, List.map_cons, List.sum_cons, ih]
    rfl

/-- `2·G.size() = Σ_u deg u` -/
theorem two_edges (A : IArgs) (adj : List (List Nat)) (hG : GraphOK A adj) : A.edges.length * 2 = twoM adj := by
  rw [← length_opairs, (opairs_perm A adj hG).length_eq]
  simp; omega

theorem nodes_length (A : IArgs) (adj : List (List Nat)) (hG : GraphOK A adj) : A.nodes.length = adj.length := by
  rw [hG.nodes]; simp

theorem degs_eq (A : IArgs) (adj : List (List Nat)) (hG : GraphOK A adj) :
    A.nodes.map A.degree = adj.map (·.length) := by
  rw [hG.nodes, ← map_range_deg]
  apply List.map_congr_left
  intro u hu; exact hG.degree u (List.mem_range.mp hu)

theorem sumRat_eq_sum (l : List Rat) : sumRat l = l.sum := by
  induction l with
  | nil => rfl
  | cons a t ih => simp [ih]

theorem sumRat_cast_nat (l : List Nat) : sumRat (l.map fun k => ((k : Nat) : Rat)) = ((l.sum : Nat) : Rat) := by
  induction l with
  | nil => simp
  | cons a t ih => simp [ih]

/-! ## the homogeneous mean-field wrappers -/

/-- `2·G.size()/G.order()` as the wrappers compute it -/
def kave (A : WArgs) : Rat := (A.edges.length : Rat) * 2 / (A.nodes.length : Rat)

theorem fdiv_N (a : Rat) (n : Nat) :
    PyTM.fdiv a ((n : Nat) : Rat) = if n = 0 then .error "ZeroDivisionError" else .ok (a / (n : Rat)) := by
  unfold PyTM.fdiv
  by_cases h : n = 0
  · subst h; simp
  · have : ((n : Nat) : Rat) ≠ 0 := by exact_mod_cast h
    simp [h]

/-- closed form of `SIS_homogeneous_meanfield_from_graph` (all inputs) -/
theorem SIS_hom_mf_closed (A : WArgs) (tau gamma : Rat) (infs : Option (List Node)) (rho : Option Rat)
    (tmin tmax : Rat) (tcount : Int) :
    SIS_homogeneous_meanfield_from_graph_args A tau gamma infs rho tmin tmax tcount =
      if rho.isSome ∧ infs.isSome then .error "EoNError" else
      if A.nodes.length = 0 then .error "ZeroDivisionError" else
      let I0 : Rat := match infs, rho with
        | some l, _ => (l.length : Rat)
        | none, some r => r * (A.nodes.length : Rat)
        | none, none => 1
      .ok { S0 := (A.nodes.length : Rat) - I0, I0 := I0, n := kave A, tau := tau, gamma := gamma,
            tmin := tmin, tmax := tmax, tcount := tcount } := by
  unfold SIS_homogeneous_meanfield_from_graph_args
  by_cases hN : A.nodes.length = 0
  · cases infs <;> cases rho <;> simp [hN]
  · cases infs <;> cases rho <;> simp [fdiv_N, hN, kave]

/-- closed form of `SIR_homogeneous_meanfield_from_graph` (all inputs) -/
theorem SIR_hom_mf_closed (A : WArgs) (tau gamma : Rat) (infs recs : Option (List Node)) (rho : Option Rat)
    (tmin tmax : Rat) (tcount : Int) :
    SIR_homogeneous_meanfield_from_graph_args A tau gamma infs recs rho tmin tmax tcount =
      if rho.isSome ∧ infs.isSome then .error "EoNError" else
      if rho.isSome ∧ recs.isSome then .error "EoNError" else
      if A.nodes.length = 0 then .error "ZeroDivisionError" else
      let I0 : Rat := match infs, rho with
        | some l, _ => (l.length : Rat)
        | none, some r => r * (A.nodes.length : Rat)
        | none, none => 1
      let R0 : Rat := (((recs.getD []).length : Nat) : Rat)
      .ok { S0 := (A.nodes.length : Rat) - I0 - R0, I0 := I0, R0 := R0, n := kave A, tau := tau, gamma := gamma,
            tmin := tmin, tmax := tmax, tcount := tcount } := by
  unfold SIR_homogeneous_meanfield_from_graph_args
  by_cases hN : A.nodes.length = 0
  · cases infs <;> cases recs <;> cases rho <;> simp [hN]
  · cases infs <;> cases recs <;> cases rho <;> simp [fdiv_N, hN, kave]

/-! ## the mean degree `n = Σ_{k ∈ Pk} k·Pk[k]` -/

theorem foldlM_of_pure {σ ι : Type} (f : σ → ι → Except String σ) (g : σ → ι → σ)
    (h : ∀ a x, f a x = .ok (g a x)) (l : List ι) (a : σ) : l.foldlM f a = .ok (l.foldl g a) := by
  have : f = fun s i => (Except.ok (g s i) : Except String σ) := by funext a x; exact h a x
  rw [this, GenHelpProofs.foldlM_pure]

theorem wdictGet_key (Pk : List (Nat × Rat)) (k : Nat) (hk : k ∈ Pk.map (·.1)) :
    PyWrap.dictGet Pk ((k : Nat) : Int) = .ok (alGet Pk 0 k) := by
  unfold PyWrap.dictGet
  rw [if_neg (by omega), Int.toNat_natCast,
    GenHelpProofs.dictGet_of_has Pk k 0 (GenHelpProofs.alHas_of_mem_keys Pk k hk)]

/-- the mean degree of the degree list -/
def meanK (degs : List Nat) : Rat := ((degs.sum : Nat) : Rat) / ((degs.length : Nat) : Rat)

theorem kAveAL_PkAL (degs : List Nat) : kAveAL (PkAL degs) = meanK degs := by
  unfold kAveAL
  rw [GenHelpProofs.PkAL_keys]
  have h1 : sumRat (degs.eraseDups.map fun k => ((k : Nat) : Rat) * alGet (PkAL degs) 0 k)
      = ODE.sumTo (Helpers.maxDeg degs + 1) (fun k => Helpers.Pk degs k * ((k : Nat) : Rat)) := by
    rw [← GenHelpProofs.sumRat_keys_eq_sumTo degs.eraseDups (GenHelpProofs.nodup_eraseDups degs)]
    · apply sumRat_map_congr
      intro k _
      rw [GenHelpProofs.PkAL_get]; ring
    · intro k hk
      have := Helpers.le_maxDeg degs k (List.mem_eraseDups.mp hk)
      omega
    · intro k hk
      have hk' : k ∉ degs := fun h => hk (List.mem_eraseDups.mpr h)
      have : Helpers.countEq degs k = 0 := by
        unfold Helpers.countEq
        rw [List.length_eq_zero_iff, List.filter_eq_nil_iff]
        intro a ha
        have : a ≠ k := fun e => hk' (e ▸ ha)
        simpa using this
      simp [Helpers.Pk, this]
  rw [h1, ODE.sumTo, Helpers.sumRat_Pk_mul, Helpers.meanDeg, sumRat_cast_nat]
  rfl

theorem meanK_graph (A : IArgs) (adj : List (List Nat)) (hG : GraphOK A adj) :
    meanK (A.nodes.map A.degree) = (twoM adj : Rat) / (adj.length : Rat) := by
  unfold meanK
  rw [degs_eq A adj hG, List.length_map]
  rfl

/-! ## the homogeneous pairwise wrappers -/

/-- one iteration of the edge loop of `SIS_homogeneous_pairwise_from_graph` on `(SI0, SS0, II0)` -/
def sisPwStep (st : Node → St) (acc : Int × Int × Int) (e : Node × Node) : Int × Int × Int :=
  if st e.1 = st e.2 then
    (if st e.1 = St.S then (acc.1, acc.2.1 + 2, acc.2.2) else (acc.1, acc.2.1, acc.2.2 + 2))
  else (acc.1 + 1, acc.2.1, acc.2.2)

theorem sisPwStep_eq (st : Node → St) (hR : ∀ v, st v ≠ St.R) (a b c : Int) (e : Node × Node) :
    sisPwStep st (a, b, c) e =
      (a + (((if st e.1 = St.S ∧ st e.2 = St.I then 1 else 0 : Nat) : Int) +
            ((if st e.1 = St.I ∧ st e.2 = St.S then 1 else 0 : Nat) : Int)),
       b + 2 * ((if st e.1 = St.S ∧ st e.2 = St.S then 1 else 0 : Nat) : Int),
       c + 2 * ((if st e.1 = St.I ∧ st e.2 = St.I then 1 else 0 : Nat) : Int)) := by
  have h1 := hR e.1
  have h2 := hR e.2
  unfold sisPwStep
  cases h1' : st e.1 <;> cases h2' : st e.2 <;> simp_all

theorem foldl_sisPwStep (st : Node → St) (hR : ∀ v, st v ≠ St.R) (l : List (Node × Node)) : ∀ (a b c : Int),
    l.foldl (sisPwStep st) (a, b, c) =
      (a + (ec st l St.S St.I + ec st l St.I St.S), b + 2 * ec st l St.S St.S, c + 2 * ec st l St.I St.I) := by
  induction l with
  | nil => intro a b c; simp [ec]
  | cons e t ih =>
    intro a b c
    rw [List.foldl_cons, sisPwStep_eq st hR, ih]
    simp only [ec_cons]
    refine Prod.ext ?_ (Prod.ext ?_ ?_) <;> simp only [] <;> push_cast <;> ring

/-- one iteration of the edge loop of `SIR_homogeneous_pairwise_from_graph` on `(SS0, SI0)` -/
def sirPwStep (st : Node → St) (acc : Int × Int) (e : Node × Node) : Int × Int :=
  if st e.1 = St.S ∧ st e.2 = St.S then (acc.1 + 2, acc.2)
  else if (st e.1 = St.S ∧ st e.2 = St.I) ∨ (st e.1 = St.I ∧ st e.2 = St.S) then (acc.1, acc.2 + 1)
  else acc

theorem sirPwStep_eq (st : Node → St) (a b : Int) (e : Node × Node) :
    sirPwStep st (a, b) e =
      (a + 2 * ((if st e.1 = St.S ∧ st e.2 = St.S then 1 else 0 : Nat) : Int),
       b + (((if st e.1 = St.S ∧ st e.2 = St.I then 1 else 0 : Nat) : Int) +
            ((if st e.1 = St.I ∧ st e.2 = St.S then 1 else 0 : Nat) : Int))) := by
  unfold sirPwStep
  cases h1' : st e.1 <;> cases h2' : st e.2 <;> simp

theorem foldl_sirPwStep (st : Node → St) (l : List (Node × Node)) : ∀ (a b : Int),
    l.foldl (sirPwStep st) (a, b) =
      (a + 2 * ec st l St.S St.S, b + (ec st l St.S St.I + ec st l St.I St.S)) := by
  induction l with
  | nil => intro a b; simp [ec]
  | cons e t ih =>
    intro a b
    rw [List.foldl_cons, sirPwStep_eq, ih]
    simp only [ec_cons]
    refine Prod.ext ?_ ?_ <;> simp only [] <;> push_cast <;> ring

/-- the `rho` used when neither `rho` nor `initial_infecteds` is given: `1/G.order()` (ZeroDivisionError on the empty
graph) -/
def rhoOr (A : WArgs) (rho : Option Rat) : Except String Rat :=
  match rho with
  | some r => .ok r
  | none => if A.nodes.length = 0 then .error "ZeroDivisionError" else .ok (1 / (A.nodes.length : Rat))

/-- `SIS_homogeneous_pairwise_from_graph`, explicit initial set, status map built -/
theorem SIS_hom_pw_sets (A : WArgs) (tau gamma : Rat) (infs : List Node) (tmin tmax : Rat) (tcount : Int) (full : Bool)
    (st : Node → St) (hst : initialize_node_status A.toIArgs infs [] = .ok st) :
    SIS_homogeneous_pairwise_from_graph_args A tau gamma (some infs) none tmin tmax tcount full =
      .ok { S0 := (A.nodes.length : Rat) - (infs.length : Rat), I0 := (infs.length : Rat),
            SI0 := (((A.edges.foldl (sisPwStep st) (0, 0, 0)).1 : Int) : Rat),
            SS0 := (((A.edges.foldl (sisPwStep st) (0, 0, 0)).2.1 : Int) : Rat),
            n := meanK (A.nodes.map A.degree), tau := tau, gamma := gamma, tmin := tmin, tmax := tmax,
            tcount := tcount, return_full_data := full } := by
  unfold SIS_homogeneous_pairwise_from_graph_args
  simp only [Option.isSome_none, Bool.false_and, Bool.false_eq_true, if_false, GenHelpProofs.get_Pk_eq, ok_bind]
  rw [GenHelpProofs.fold_keys_ok _ (fun k => ((k : Nat) : Rat) * alGet (PkAL (A.nodes.map A.degree)) 0 k)]
  · simp only [ok_bind, Option.getD_none, hst]
    rw [foldlM_of_pure _ (sisPwStep st)]
    · simp only [ok_bind, pure_eq_ok, zero_add]
      rw [← kAveAL_PkAL]
      simp [kAveAL]
    · rintro ⟨a, b, c⟩ ⟨u, v⟩
      unfold sisPwStep
      cases h1 : st u <;> cases h2 : st v <;> simp <;> rfl
  · intro k hk acc
    simp [wdictGet_key _ k hk]

theorem SIS_hom_pw_sets_error (A : WArgs) (tau gamma : Rat) (infs : List Node) (tmin tmax : Rat) (tcount : Int)
    (full : Bool) (e : String) (hst : initialize_node_status A.toIArgs infs [] = .error e) :
    SIS_homogeneous_pairwise_from_graph_args A tau gamma (some infs) none tmin tmax tcount full = .error e := by
  unfold SIS_homogeneous_pairwise_from_graph_args
  simp only [Option.isSome_none, Bool.false_and, Bool.false_eq_true, if_false, GenHelpProofs.get_Pk_eq, ok_bind]
  rw [GenHelpProofs.fold_keys_ok _ (fun k => ((k : Nat) : Rat) * alGet (PkAL (A.nodes.map A.degree)) 0 k)]
  · simp only [ok_bind, Option.getD_none, hst, err_bind]
  · intro k hk acc
    simp [wdictGet_key _ k hk]

theorem SIS_hom_pw_both (A : WArgs) (tau gamma : Rat) (infs : List Node) (r : Rat) (tmin tmax : Rat) (tcount : Int)
    (full : Bool) :
    SIS_homogeneous_pairwise_from_graph_args A tau gamma (some infs) (some r) tmin tmax tcount full
      = .error "EoNError" := rfl

/-- `SIS_homogeneous_pairwise_from_graph` without `initial_infecteds` -/
theorem SIS_hom_pw_rho (A : WArgs) (tau gamma : Rat) (rho : Option Rat) (tmin tmax : Rat) (tcount : Int) (full : Bool) :
    SIS_homogeneous_pairwise_from_graph_args A tau gamma none rho tmin tmax tcount full =
      (rhoOr A rho >>= fun r =>
        let N : Rat := (A.nodes.length : Rat)
        let n := meanK (A.nodes.map A.degree)
        .ok { S0 := (1 - r) * N, I0 := r * N, SI0 := (1 - r) * N * n * r, SS0 := (1 - r) * N * n * (1 - r),
              n := n, tau := tau, gamma := gamma, tmin := tmin, tmax := tmax, tcount := tcount,
              return_full_data := full }) := by
  unfold SIS_homogeneous_pairwise_from_graph_args
  simp only [Option.isSome_none, Bool.and_false, Bool.false_eq_true, if_false, GenHelpProofs.get_Pk_eq, ok_bind]
  rw [GenHelpProofs.fold_keys_ok _ (fun k => ((k : Nat) : Rat) * alGet (PkAL (A.nodes.map A.degree)) 0 k)]
  · have hn : (0 : Rat) + sumRat ((List.map (·.1) (PkAL (A.nodes.map A.degree))).map
        (fun k => ((k : Nat) : Rat) * alGet (PkAL (A.nodes.map A.degree)) 0 k)) = meanK (A.nodes.map A.degree) := by
      rw [← kAveAL_PkAL]; simp [kAveAL]
    simp only [ok_bind, hn]
    cases rho with
    | some r => simp [rhoOr]
    | none =>
      by_cases hN : A.nodes.length = 0
      · simp [rhoOr, hN]
      · simp [rhoOr, hN, fdiv_N]
  · intro k hk acc
    simp [wdictGet_key _ k hk]

theorem getD_eq_match (recs : Option (List Node)) :
    (match recs with
      | some r => (pure r : Except String (List Node))
      | none => do
        let initial_recovereds : List Node := ([] : List Node)
        pure initial_recovereds) = .ok (recs.getD []) := by
  cases recs <;> rfl

/-- `SIR_homogeneous_pairwise_from_graph`, explicit initial sets, status map built -/
theorem SIR_hom_pw_sets (A : WArgs) (tau gamma : Rat) (infs : List Node) (recs : Option (List Node))
    (tmin tmax : Rat) (tcount : Int) (full : Bool)
    (st : Node → St) (hst : initialize_node_status A.toIArgs infs (recs.getD []) = .ok st) :
    SIR_homogeneous_pairwise_from_graph_args A tau gamma (some infs) recs none tmin tmax tcount full =
      .ok { S0 := (A.nodes.length : Rat) - (infs.length : Rat) - ((recs.getD []).length : Rat),
            I0 := (infs.length : Rat), R0 := ((recs.getD []).length : Rat),
            SI0 := (((A.edges.foldl (sirPwStep st) (0, 0)).2 : Int) : Rat),
            SS0 := (((A.edges.foldl (sirPwStep st) (0, 0)).1 : Int) : Rat),
            n := meanK (A.nodes.map A.degree), tau := tau, gamma := gamma, tmin := tmin, tmax := tmax,
            tcount := tcount, return_full_data := full } := by
  unfold SIR_homogeneous_pairwise_from_graph_args
  simp only [Option.isSome_none, Bool.false_and, Bool.false_eq_true, if_false, GenHelpProofs.get_Pk_eq, ok_bind]
  rw [GenHelpProofs.fold_keys_ok _ (fun k => ((k : Nat) : Rat) * alGet (PkAL (A.nodes.map A.degree)) 0 k)]
  · cases recs <;>
    · simp only [Option.getD_none, Option.getD_some] at hst
      simp only [ok_bind, pure_eq_ok, hst]
      rw [foldlM_of_pure _ (sirPwStep st)]
      · simp only [ok_bind, pure_eq_ok, zero_add]
        rw [← kAveAL_PkAL]
        simp [kAveAL]
      · rintro ⟨a, b⟩ ⟨u, v⟩
        unfold sirPwStep
        cases h1 : st u <;> cases h2 : st v <;> simp <;> rfl
  · intro k hk acc
    simp [wdictGet_key _ k hk]

theorem SIR_hom_pw_sets_error (A : WArgs) (tau gamma : Rat) (infs : List Node) (recs : Option (List Node))
    (tmin tmax : Rat) (tcount : Int) (full : Bool) (e : String)
    (hst : initialize_node_status A.toIArgs infs (recs.getD []) = .error e) :
    SIR_homogeneous_pairwise_from_graph_args A tau gamma (some infs) recs none tmin tmax tcount full = .error e := by
  unfold SIR_homogeneous_pairwise_from_graph_args
  simp only [Option.isSome_none, Bool.false_and, Bool.false_eq_true, if_false, GenHelpProofs.get_Pk_eq, ok_bind]
  rw [GenHelpProofs.fold_keys_ok _ (fun k => ((k : Nat) : Rat) * alGet (PkAL (A.nodes.map A.degree)) 0 k)]
  · cases recs <;>
    · simp only [Option.getD_none, Option.getD_some] at hst
      simp only [ok_bind, pure_eq_ok, hst, err_bind]
  · intro k hk acc
    simp [wdictGet_key _ k hk]

theorem SIR_hom_pw_both (A : WArgs) (tau gamma : Rat) (infs recs : Option (List Node)) (r : Rat) (tmin tmax : Rat)
    (tcount : Int) (full : Bool) (h : infs.isSome ∨ recs.isSome) :
    SIR_homogeneous_pairwise_from_graph_args A tau gamma infs recs (some r) tmin tmax tcount full
      = .error "EoNError" := by
  unfold SIR_homogeneous_pairwise_from_graph_args
  cases infs <;> cases recs <;> simp at h ⊢

/-- `SIR_homogeneous_pairwise_from_graph` without `initial_infecteds` (`initial_recovereds`, if given without `rho`, is
ignored) -/
theorem SIR_hom_pw_rho (A : WArgs) (tau gamma : Rat) (recs : Option (List Node)) (rho : Option Rat)
    (hrr : ¬ (rho.isSome ∧ recs.isSome)) (tmin tmax : Rat) (tcount : Int) (full : Bool) :
    SIR_homogeneous_pairwise_from_graph_args A tau gamma none recs rho tmin tmax tcount full =
      (rhoOr A rho >>= fun r =>
        let N : Rat := (A.nodes.length : Rat)
        let n := meanK (A.nodes.map A.degree)
        .ok { S0 := (1 - r) * N, I0 := r * N, R0 := 0, SI0 := (1 - r) * N * n * r, SS0 := (1 - r) * N * n * (1 - r),
              n := n, tau := tau, gamma := gamma, tmin := tmin, tmax := tmax, tcount := tcount,
              return_full_data := full }) := by
  unfold SIR_homogeneous_pairwise_from_graph_args
  have h2 : (rho.isSome && recs.isSome) = false := by
    cases rho <;> cases recs <;> simp at hrr ⊢
  simp only [Option.isSome_none, Bool.and_false, Bool.false_eq_true, if_false, h2, GenHelpProofs.get_Pk_eq, ok_bind]
  rw [GenHelpProofs.fold_keys_ok _ (fun k => ((k : Nat) : Rat) * alGet (PkAL (A.nodes.map A.degree)) 0 k)]
  · have hn : (0 : Rat) + sumRat ((List.map (·.1) (PkAL (A.nodes.map A.degree))).map
        (fun k => ((k : Nat) : Rat) * alGet (PkAL (A.nodes.map A.degree)) 0 k)) = meanK (A.nodes.map A.degree) := by
      rw [← kAveAL_PkAL]; simp [kAveAL]
    simp only [ok_bind, hn]
    cases rho with
    | some r => simp [rhoOr]
    | none =>
      by_cases hN : A.nodes.length = 0
      · simp [rhoOr, hN]
      · simp [rhoOr, hN, fdiv_N]
  · intro k hk acc
    simp [wdictGet_key _ k hk]

/-! ## `_get_Nk_and_IC_as_arrays_` as the wrappers call it -/

theorem maxKey_counter (l : List Nat) :
    PyWrap.maxKey (PyHelp.counter l) = if l = [] then .error "ValueError" else .ok ((Helpers.maxDeg l : Nat) : Int) := by
  unfold PyWrap.maxKey
  by_cases h : l = []
  · subst h; rfl
  · have hne : PyHelp.counter l ≠ [] := by
      intro e
      have := GenHelpProofs.counter_keys l
      rw [e] at this
      cases l with
      | nil => exact h rfl
      | cons a t => simp [List.eraseDups_cons] at this
    rw [GenHelpProofs.maxKey_ok _ hne, if_neg h, GenHelpProofs.maxKeyVal, GenHelpProofs.counter_keys,
      GenHelpProofs.maxDeg_congr _ _ (fun x => List.mem_eraseDups)]
    rfl

/-- closed form of the generated `get_Nk_and_IC_as_arrays` for all inputs: the three `EoNError` checks, then ValueError
for a graph without nodes (`max` of no degrees), then the builders of C06c -/
theorem arrays_closed (A : WArgs) (infs recs : Option (List Node)) (rho : Option Rat) (SIR : Bool) :
    get_Nk_and_IC_as_arrays A infs recs rho SIR =
      if rho.isSome ∧ infs.isSome then .error "EoNError" else
      if rho.isSome ∧ recs.isSome then .error "EoNError" else
      if SIR = false ∧ recs.isSome then .error "EoNError" else
      if A.nodes = [] then .error "ValueError" else
      match infs with
      | some l => get_Nk_and_IC_sets A.toIArgs l (recs.getD [])
      | none => .ok (get_Nk_and_IC_rho A.toIArgs (rho.getD (1 / (A.nodes.length : Rat)))) := by
  unfold get_Nk_and_IC_as_arrays
  dsimp only
  rw [maxKey_counter]
  have hm : (A.nodes.map A.degree = []) ↔ A.nodes = [] := List.map_eq_nil_iff
  by_cases hN : A.nodes = []
  · cases infs <;> cases recs <;> cases rho <;> cases SIR <;> simp [hN]
  · have hl : A.nodes.length ≠ 0 := fun e => hN (List.length_eq_zero_iff.mp e)
    cases infs <;> cases recs <;> cases rho <;> cases SIR <;> simp [hN, fdiv_N, hl]

/-! ## heterogeneous mean-field and compact pairwise wrappers: reduction to the builders -/

theorem SIS_het_mf_closed (A : WArgs) (tau gamma : Rat) (infs : Option (List Node)) (rho : Option Rat)
    (tmin tmax : Rat) (tcount : Int) (full : Bool) :
    SIS_heterogeneous_meanfield_from_graph_args A tau gamma infs rho tmin tmax tcount full =
      (get_Nk_and_IC_as_arrays A infs none rho false >>= fun r =>
        .ok { Sk0 := r.2.1, Ik0 := r.2.2.1, tau := tau, gamma := gamma, tmin := tmin, tmax := tmax, tcount := tcount,
              return_full_data := full }) := by
  unfold SIS_heterogeneous_meanfield_from_graph_args
  by_cases h : rho.isSome ∧ infs.isSome
  · rw [arrays_closed, if_pos h]
    simp [h]
  · have h' : (rho.isSome && infs.isSome) = false := by
      cases rho <;> cases infs <;> simp at h ⊢
    simp only [h', Bool.false_eq_true, if_false]
    cases get_Nk_and_IC_as_arrays A infs none rho false <;> rfl

theorem SIR_het_mf_closed (A : WArgs) (tau gamma : Rat) (infs recs : Option (List Node)) (rho : Option Rat)
    (tmin tmax : Rat) (tcount : Int) (full : Bool) :
    SIR_heterogeneous_meanfield_from_graph_args A tau gamma infs recs rho tmin tmax tcount full =
      (get_Nk_and_IC_as_arrays A infs recs rho true >>= fun r =>
        .ok { Sk0 := r.2.1, Ik0 := r.2.2.1, Rk0 := r.2.2.2, tau := tau, gamma := gamma, tmin := tmin, tmax := tmax,
              tcount := tcount, return_full_data := full }) := by
  unfold SIR_heterogeneous_meanfield_from_graph_args
  cases get_Nk_and_IC_as_arrays A infs recs rho true <;> rfl

/-- `SIS_compact_pairwise_from_graph` with an explicit initial set -/
theorem SIS_cp_sets (A : WArgs) (tau gamma : Rat) (infs : List Node) (tmin tmax : Rat) (tcount : Int) (full : Bool) :
    SIS_compact_pairwise_from_graph_args A tau gamma (some infs) none tmin tmax tcount full =
      if A.nodes = [] then .error "ValueError" else
      (get_Nk_and_IC_sets A.toIArgs infs [] >>= fun r =>
       count_edge_types A.toIArgs infs [] >>= fun c =>
        .ok { Sk0 := r.2.1, Ik0 := r.2.2.1, SI0 := ((c.2.1 : Int) : Rat), SS0 := ((c.1 : Int) : Rat),
              II0 := ((c.2.2 : Int) : Rat), tau := tau, gamma := gamma, tmin := tmin, tmax := tmax, tcount := tcount,
              return_full_data := full }) := by
  unfold SIS_compact_pairwise_from_graph_args
  simp only [Option.isSome_none, Option.isSome_some, Bool.false_and, Bool.false_eq_true, if_false, Option.isNone_none,
    Option.isNone_some, Bool.and_false, pure_eq_ok, ok_bind, arrays_closed, false_and, and_false, and_true,
    Option.getD_none]
  by_cases hN : A.nodes = []
  · simp [hN]
  · simp only [hN, if_false]

/-- `SIR_compact_pairwise_from_graph` with explicit initial sets -/
theorem SIR_cp_sets (A : WArgs) (tau gamma : Rat) (infs : List Node) (recs : Option (List Node)) (tmin tmax : Rat)
    (tcount : Int) (full : Bool) :
    SIR_compact_pairwise_from_graph_args A tau gamma (some infs) recs none tmin tmax tcount full =
      if A.nodes = [] then .error "ValueError" else
      (get_Nk_and_IC_sets A.toIArgs infs (recs.getD []) >>= fun r =>
       count_edge_types A.toIArgs infs (recs.getD []) >>= fun c =>
        .ok { Sk0 := r.2.1, I0 := sumRat r.2.2.1, R0 := sumRat r.2.2.2, SS0 := ((c.1 : Int) : Rat),
              SI0 := ((c.2.1 : Int) : Rat), tau := tau, gamma := gamma, tmin := tmin, tmax := tmax, tcount := tcount,
              return_full_data := full }) := by
  unfold SIR_compact_pairwise_from_graph_args
  simp only [Option.isSome_none, Option.isSome_some, Bool.false_and, Bool.false_eq_true, if_false, Option.isNone_none,
    Option.isNone_some, Bool.and_false, pure_eq_ok, ok_bind, arrays_closed, false_and, and_false, and_true]
  by_cases hN : A.nodes = []
  · simp [hN]
  · simp only [hN, if_false]
    cases get_Nk_and_IC_sets A.toIArgs infs (recs.getD []) with
    | error e => rfl
    | ok r =>
      simp only [ok_bind]
      cases count_edge_types A.toIArgs infs (recs.getD []) <;> rfl

theorem cp_both (A : WArgs) (tau gamma : Rat) (infs : List Node) (recs : Option (List Node)) (r : Rat)
    (tmin tmax : Rat) (tcount : Int) (full : Bool) :
    SIS_compact_pairwise_from_graph_args A tau gamma (some infs) (some r) tmin tmax tcount full = .error "EoNError" ∧
    SIR_compact_pairwise_from_graph_args A tau gamma (some infs) recs (some r) tmin tmax tcount full
      = .error "EoNError" := ⟨rfl, rfl⟩

end GenWrapProofs
