import EoNVerif.Proofs.GenDiscrete
/-!
C12c — the code GENERATED from `discrete_SIR` / `basic_discrete_SIS` / `percolate_network` (`Gen/DiscreteGen.lean`,
namespaces `GenDSIR`, `GenDSIS`, `GenDisc`) refines the hand models of C12 / C12b (`Discrete`, `ReedFrost`).

Conventions.  `GenDiscrete.toArgs0 P iter full infs orecs` / `GenDiscrete.toArgs P iter full infs orecs` are the generated
arguments (`PyDM.DArgs`) for the hand instance `P : DParams`:
`order := |P.nodes|`, `nbrs := P.nbrs`, `tmin`, `tmax`, `initial_infecteds := infs`, `initial_recovereds := orecs`
(`None` or a list; the hand model is run with `orecs.getD []`), and
* `toArgs0`: `testTrans u v := pure (P.rule 0 u v)`, `testRec := none` (default recovery rule);
* `toArgs`: `testTrans u v := ageRule P.rule u v` — answers `P.rule a u v` where `a` is the number of recovery tests of `u`
  in the call log — and `testRec := P.recSteps.map recCb`, `recCb k u` logs the call `[1, u]` and answers True at the
  `k u`-th call for `u`.
`iter` is the iteration order of a Python `set`: every theorem holds for EVERY `iter` with `∀ l, (iter l).Perm l`.
The hypothesis `Discrete.WF P infs recs` (Proofs/Discrete.lean) is the one of C12: `P.nodes` duplicate free, neighbour
lists inside `P.nodes`, `infs`/`recs` duplicate free, inside `P.nodes` and disjoint.
-/
open PyDM

namespace C12c
open GenDiscrete

/-- **A1 — `discrete_SIR`, stateless transmission rule, default recovery rule, `return_full_data=False`.**
For every start state `(d, ts)` of the callback script / random tape and every permutation-valued `iter`:
if the hand model has stopped within `fuel` generations (`Discrete.stopped`: no infecteds left or `t ≥ tmax`), the
generated `discrete_SIR` succeeds with every fuel `n > fuel`, leaves the callback state and the tape untouched, and
returns the rows of the hand model (which keeps them reversed), its `infecteds` up to order, its `susceptible` table
and counters; if the hand model has not stopped after `fuel` generations the generated loop raises `"fuel"` for every
`n ≤ fuel + 1` (the generated loop needs one unit of fuel per generation plus one for the final test). -/
theorem discrete_SIR_refines_default (P : DParams) (iter : List Node → List Node) (hiter : ∀ l, (iter l).Perm l)
    (infs : List Node) (orecs : Option (List Node)) (hwf : Discrete.WF P infs (orecs.getD []))
    (hrec : P.recSteps = none) (fuel : Nat) (d : DSt) (ts : TapeSt) :
    let s := Discrete.run P infs (orecs.getD []) fuel
    (Discrete.stopped P s → ∀ n, fuel < n →
      ∃ σ, GenDSIR.run (toArgs0 P iter false infs orecs) n d ts = .ok ((σ, d), ts) ∧
        σ.t = s.t.reverse ∧ σ.S = s.S.reverse ∧ σ.I = s.I.reverse ∧ σ.R = s.R.reverse ∧
        σ.infecteds.Perm s.inf ∧ σ.susceptible = s.sus ∧ σ.nS = s.nS ∧ σ.totR = s.totR) ∧
    (¬ Discrete.stopped P s → ∀ n, n ≤ fuel + 1 →
      GenDSIR.run (toArgs0 P iter false infs orecs) n d ts = .error "fuel") := by
  intro s
  obtain ⟨h1, h2⟩ := dsir_default' P iter hiter infs orecs hwf hrec fuel d ts
  refine ⟨?_, h2⟩
  intro hst n hn
  obtain ⟨σ, hrun, hr⟩ := h1 hst n hn
  exact ⟨σ, hrun, hr.t, hr.S, hr.I, hr.R, hr.inf, hr.sus, hr.nS, hr.totR⟩

/-- **A2 — `discrete_SIR` with a recovery rule ("recover at the k-th test") and a transmission rule that may depend on
the number of steps the source has been infectious, `return_full_data=False`.**  `P.recSteps` may be `none` (default
rule) or `some k`; the callbacks are the logged ones of `toArgs`.  From every callback state whose log contains no
recovery test (`cnt d u = 0`) and every tape: same conclusion as A1, the tape is untouched, the answer script is
untouched, and the final log counts the ages of the hand model (`cnt d' u = s.age u`). -/
theorem discrete_SIR_refines_recovery (P : DParams) (iter : List Node → List Node) (hiter : ∀ l, (iter l).Perm l)
    (infs : List Node) (orecs : Option (List Node)) (hwf : Discrete.WF P infs (orecs.getD []))
    (fuel : Nat) (d : DSt) (hd : ∀ u, cnt d u = 0) (ts : TapeSt) :
    let s := Discrete.run P infs (orecs.getD []) fuel
    (Discrete.stopped P s → ∀ n, fuel < n →
      ∃ σ d', GenDSIR.run (toArgs P iter false infs orecs) n d ts = .ok ((σ, d'), ts) ∧
        σ.t = s.t.reverse ∧ σ.S = s.S.reverse ∧ σ.I = s.I.reverse ∧ σ.R = s.R.reverse ∧
        σ.infecteds.Perm s.inf ∧ σ.susceptible = s.sus ∧ σ.nS = s.nS ∧ σ.totR = s.totR ∧
        (∀ u, cnt d' u = s.age u) ∧ d'.answers = d.answers) ∧
    (¬ Discrete.stopped P s → ∀ n, n ≤ fuel + 1 →
      GenDSIR.run (toArgs P iter false infs orecs) n d ts = .error "fuel") := by
  intro s
  obtain ⟨h1, h2⟩ := dsir_recovery' P iter hiter infs orecs hwf fuel d hd ts
  refine ⟨?_, h2⟩
  intro hst n hn
  obtain ⟨σ, d', hrun, hr, hage, hans⟩ := h1 hst n hn
  exact ⟨σ, d', hrun, hr.t, hr.S, hr.I, hr.R, hr.inf, hr.sus, hr.nS, hr.totR, hage, hans⟩

/-- for a stateless rule (`Discrete.Ageless P`) the logged transmission callback of `toArgs` is the plain
`test_transmission(u, v) = P.rule 0 u v`: A2 then is the statement for a stateless rule with a recovery rule -/
theorem ageRule_of_ageless (P : DParams) (h : Discrete.Ageless P) :
    ageRule P.rule = fun u v => (pure (P.rule 0 u v) : DM Bool) := by
  funext u v st
  show (pure (P.rule (cnt st u) u v, st) : TM (Bool × DSt)) = pure (P.rule 0 u v, st)
  rw [h (cnt st u) u v]

/-- **A3 — `discrete_SIR` with `return_full_data=True`, on an arbitrary tape** (the extra work consumes one
`random.choice` draw per newly infected node).  If the run with fuel `n` succeeds, then `n = m + 1`, the hand model has
stopped within `m` generations and

* the rows, `infecteds`, `susceptible`, the counters and the age log are those of the hand model, exactly as without
  `return_full_data` — and the run with `return_full_data=False` on the same inputs succeeds with the same rows;
* `transmissions` is the list of initial rows `(tmin-1, None, v)`, `v ∈ infs` (in order), followed by rows `(t, u, v)`
  which, as pairs `(v, t)`, are a permutation of the model's infector records `s.infectors` (one row per newly infected
  node and generation) and, as pairs `(v, t+1)`, a permutation of the model's infection times `s.infTime` (the object of
  `Discrete.bfs_correct`); in every such row `u` is one of the recorded possible infectors of `v` at step `t` (an
  infectious node whose contact `u → v` succeeded at that step) and `v ∈ P.nbrs u`. -/
theorem discrete_SIR_full_data (P : DParams) (iter : List Node → List Node) (hiter : ∀ l, (iter l).Perm l)
    (infs : List Node) (orecs : Option (List Node)) (hwf : Discrete.WF P infs (orecs.getD []))
    (n : Nat) (d : DSt) (hd : ∀ u, cnt d u = 0) (ts : TapeSt) (σ : GenDSIR.Loc) (d' : DSt) (ts' : TapeSt)
    (hrun : GenDSIR.run (toArgs P iter true infs orecs) n d ts = .ok ((σ, d'), ts')) :
    ∃ m, n = m + 1 ∧
      let s := Discrete.run P infs (orecs.getD []) m
      Discrete.stopped P s ∧
      σ.t = s.t.reverse ∧ σ.S = s.S.reverse ∧ σ.I = s.I.reverse ∧ σ.R = s.R.reverse ∧
      σ.infecteds.Perm s.inf ∧ σ.susceptible = s.sus ∧ σ.nS = s.nS ∧ σ.totR = s.totR ∧
      (∀ u, cnt d' u = s.age u) ∧ d'.answers = d.answers ∧
      (∃ σ0 d0, GenDSIR.run (toArgs P iter false infs orecs) n d ts = .ok ((σ0, d0), ts) ∧
        σ0.t = σ.t ∧ σ0.S = σ.S ∧ σ0.I = σ.I ∧ σ0.R = σ.R ∧ σ0.infecteds.Perm σ.infecteds ∧
        σ0.susceptible = σ.susceptible) ∧
      ∃ rows, σ.transmissions = infs.map (fun v => (P.tmin - 1, none, v)) ++ rows ∧
        (rows.map fun r => (r.2.2, r.1)).Perm (s.infectors.map fun e => (e.1, e.2.1)) ∧
        (rows.map fun r => (r.2.2, r.1 + 1)).Perm s.infTime ∧
        ∀ r ∈ rows, ∃ u l, r.2.1 = some u ∧ (r.2.2, r.1, l) ∈ s.infectors ∧ u ∈ l ∧ r.2.2 ∈ P.nbrs u := by
  obtain ⟨m, hm, hst, hr, hage, hans, hT⟩ := dsir_full' P iter hiter infs orecs hwf n d hd ts σ d' ts' hrun
  refine ⟨m, hm, hst, hr.t, hr.S, hr.I, hr.R, hr.inf, hr.sus, hr.nS, hr.totR, hage, hans, ?_, hT⟩
  obtain ⟨σ0, d0, h0, hr0, _, _⟩ := (dsir_recovery' P iter hiter infs orecs hwf m d hd ts).1 hst n (by omega)
  exact ⟨σ0, d0, h0, by rw [hr0.t, hr.t], by rw [hr0.S, hr.S], by rw [hr0.I, hr.I], by rw [hr0.R, hr.R],
    hr0.inf.trans hr.inf.symm, by rw [hr0.sus, hr.sus]⟩

/-- **A3, one generation with `return_full_data=True` under the default recovery rule (`P.recSteps = none`), if it
succeeds** — from locals `σ` related to the model state `s` (`GenDiscrete.Rel`: rows reversed, `infecteds` up to order,
same `susceptible`, `nS`, `totR`) and a log that counts the ages: the new locals are related to `Discrete.step P s`, the
callback state is unchanged; `transmissions` gets exactly one row `(t, u, v)` per newly infected node `v`
(`Discrete.newInf P s`: susceptible with a successful contact from an infectious neighbour), with `t` = the current time
and `u` a currently infectious node with `v ∈ P.nbrs u` whose contact succeeded; and, reading `node_history` as the
`defaultdict(lambda: ([tmin], ['S']))` it is, when `t + 1 ≤ tmax` every newly infected node gets the entry `(t+1, 'I')`,
every currently infectious node the entry `(t+1, 'R')`, nothing else changes; when `t + 1 > tmax` nothing changes.
(Restricted to the default recovery rule: with a recovery rule the `'R'` entries are written by the recovery loop.) -/
theorem discrete_SIR_full_data_generation (P : DParams) (iter : List Node → List Node) (hiter : ∀ l, (iter l).Perm l)
    (infs : List Node) (orecs : Option (List Node)) (hnd : P.nodes.Nodup)
    (hnb : ∀ u ∈ P.nodes, ∀ v ∈ P.nbrs u, v ∈ P.nodes) (hrec : P.recSteps = none)
    (σ : GenDSIR.Loc) (s : DState) (d : DSt) (ts : TapeSt) (σ' : GenDSIR.Loc) (d' : DSt) (ts' : TapeSt)
    (h : Rel P σ s) (hage : ∀ u, cnt d u = s.age u)
    (hg : GenDiscrete.gen (toArgs P iter true infs orecs) σ d ts = .ok ((σ', d'), ts')) :
    Rel P σ' (Discrete.step P s) ∧ d' = d ∧
    (∃ rows, σ'.transmissions = σ.transmissions ++ rows ∧ (rows.map (·.2.2)).Perm (Discrete.newInf P s) ∧
      ∀ r ∈ rows, r.1 = s.t.headD P.tmin ∧ ∃ u ∈ s.inf, r.2.1 = some u ∧ r.2.2 ∈ P.nbrs u ∧
        P.rule (s.age u) u r.2.2 = true) ∧
    ∀ x, alGet σ'.node_history ([P.tmin], [St.S]) x =
      if ERat.le (some (s.t.headD P.tmin + 1)) P.tmax then
        if x ∈ Discrete.newInf P s then
          ((alGet σ.node_history ([P.tmin], [St.S]) x).1 ++ [s.t.headD P.tmin + 1],
           (alGet σ.node_history ([P.tmin], [St.S]) x).2 ++ [St.I])
        else if x ∈ s.inf then
          ((alGet σ.node_history ([P.tmin], [St.S]) x).1 ++ [s.t.headD P.tmin + 1],
           (alGet σ.node_history ([P.tmin], [St.S]) x).2 ++ [St.R])
        else alGet σ.node_history ([P.tmin], [St.S]) x
      else alGet σ.node_history ([P.tmin], [St.S]) x :=
  gen_full_default P iter hiter infs orecs hnd hnb hrec σ s d ts σ' d' ts' h hage hg

/-! ### B — the Bernoulli rule on a tape of uniforms

`GenDiscrete.outerP dec redraw nbrs sus l new xs` is the deterministic PATH function of `ReedFrost.outer`
(Model/ReedFrost.lean): it runs the same two loops and the same case distinction as `ReedFrost.contact`, but instead of
branching on a Bernoulli draw it consumes the next element `x` of the list `xs` and follows the branch `dec x`; it returns
`none` when `xs` runs out and otherwise the final `new_infecteds` together with the unused elements.  With
`dec r := decide (r < p)` the outcomes are exactly the values of `random.random() < p`. -/

/-- the generated loop is `condition ; one generation ; recursion`, where `GenDiscrete.gen P σ` is literally
`contactLoop ; t[-1] ; fullPart ; recPart ; rowsPart` (definitions in Proofs/GenDiscrete.lean, copied from the generated
text) -/
theorem loop_unfold (P : DArgs) (fuel : Nat) (σ : GenDSIR.Loc) :
    GenDSIR.loop P (fuel + 1) σ = (do
      let c ← GenDiscrete.cond P σ
      if c then GenDiscrete.gen P σ >>= GenDSIR.loop P fuel else pure σ) :=
  GenDiscrete.loop_succ P fuel σ

theorem loop_unfold_SIS (P : DArgs) (fuel : Nat) (σ : GenDSIS.Loc) :
    GenDSIS.loop P (fuel + 1) σ = (do
      let c ← SIS.cond P σ
      if c then SIS.gen P σ >>= GenDSIS.loop P fuel else pure σ) :=
  SIS.loop_succ P fuel σ

/-- `basic_discrete_SIR` is `discrete_SIR` with the arguments `basicArgs` (`test_transmission = _simple_test_transmission_`,
default recovery rule) -/
theorem basic_discrete_SIR_eq (A0 : DArgs) (fuel : Nat) :
    GenDisc.basic_discrete_SIR A0 fuel = GenDSIR.run (basicArgs A0) fuel := rfl

/-- **B1 — one generation of the contact loop of `basic_discrete_SIR` follows the path of `ReedFrost.outer`.**
Start the contact loop of a generation (locals `σ`, `new_infecteds = []`) on a tape that begins with the uniforms `rs`
(followed by anything).  If the path function, fed with `rs` and with `redraw := return_full_data`,
`sus := susceptible at the start of the generation`, returns `(new, rs1)`, then the generated loop succeeds, consumes
exactly the draws the path consumed (the tape left is `rs1` followed by the rest: one `random.random()` per contact that
`ReedFrost.contact` treats as a Bernoulli draw, none otherwise), leaves the callback state alone and ends with
`new_infecteds = new` (duplicate free), `susceptible` switched off on `new`, `nS` decreased by `|new|`, every other
observable local unchanged (`CFrame`).  Moreover `new` is an outcome of the law model `ReedFrost.stepDist` carrying the
product weight `∏ (if r_i < p then p else 1 - p)` over the consumed draws. -/
theorem basic_discrete_SIR_contact_path (A0 : DArgs) (σ : GenDSIR.Loc) (d : DSt) (rs : List Rat) (rest : List Draw)
    (tr : Array Call) (new : List Node) (rs1 : List Rat)
    (hpath : outerP (fun r => decide (r < A0.p)) A0.full A0.nbrs σ.susceptible (A0.iter σ.infecteds) [] rs
      = some (new, rs1)) :
    ∃ σ1 tr', GenDiscrete.contactLoop (basicArgs A0) ((basicArgs A0).iter σ.infecteds)
        { σ with new_infecteds := [], infector := [] } d ⟨rs.map Draw.unif ++ rest, tr⟩
        = .ok ((σ1, d), ⟨rs1.map Draw.unif ++ rest, tr'⟩) ∧
      σ1.new_infecteds = new ∧ new.Nodup ∧ (∀ x, σ1.susceptible x = (σ.susceptible x && !new.contains x)) ∧
      σ1.nS = σ.nS - (new.length : Int) ∧ CFrame σ σ1 ∧
      ∃ used, rs = used ++ rs1 ∧
        (new, pathWeight (fun r => decide (r < A0.p)) A0.p used) ∈
          ReedFrost.stepDist A0.p A0.nbrs (A0.iter σ.infecteds) σ.susceptible A0.full :=
  basic_SIR_contact' A0 σ d rs rest tr new rs1 hpath

/-- **B2 — the same for `basic_discrete_SIS`** (`random.random() < p` inline; `redraw := true`,
`sus v := v not in infecteds`): the law model is `ReedFrost.stepDist … true` with that table, i.e.
`ReedFrost.stepDistSIS` up to the iteration order of `infecteds`. -/
theorem basic_discrete_SIS_contact_path (P : DArgs) (σ : GenDSIS.Loc) (d : DSt) (rs : List Rat) (rest : List Draw)
    (tr : Array Call) (new : List Node) (rs1 : List Rat)
    (hpath : outerP (fun r => decide (r < P.p)) true P.nbrs (fun x => !σ.infecteds.contains x) (P.iter σ.infecteds) [] rs
      = some (new, rs1)) :
    ∃ σ1 tr', SIS.contactLoop P (P.iter σ.infecteds) (SIS.resetNew σ) d ⟨rs.map Draw.unif ++ rest, tr⟩
        = .ok ((σ1, d), ⟨rs1.map Draw.unif ++ rest, tr'⟩) ∧
      σ1.new_infecteds = new ∧ σ1.infecteds = σ.infecteds ∧
      ∃ used, rs = used ++ rs1 ∧
        (new, pathWeight (fun r => decide (r < P.p)) P.p used) ∈
          ReedFrost.stepDist P.p P.nbrs (P.iter σ.infecteds) (fun x => !σ.infecteds.contains x) true :=
  basic_SIS_contact' P σ d rs rest tr new rs1 hpath

/-- the path function really is the path of `ReedFrost.outer`: whenever it returns, the consumed outcomes select an
element of the support of `ReedFrost.outer` with the product weight (any decoder, any starting `new`) -/
theorem outerP_in_support {α : Type} (dec : α → Bool) (p : Rat) (redraw : Bool) (nbrs : Node → List Node)
    (sus : Node → Bool) (l new : List Node) (xs : List α) (new' : List Node) (xs' : List α)
    (h : outerP dec redraw nbrs sus l new xs = some (new', xs')) :
    ∃ used, xs = used ++ xs' ∧ (new', pathWeight dec p used) ∈ ReedFrost.outer p redraw nbrs sus l new :=
  outerP_support dec p redraw nbrs sus l new xs new' xs' h

/-- **B3 — `percolate_network`** on a tape that begins with one uniform per edge: succeeds, consumes exactly those draws,
returns the edges whose draw is `< p` in order (`keptBy`, i.e. the filtered zip), a sublist of `edges`, and this outcome
is in the support of the law model `Discrete.percolateDist` (C12 `percolate_edge_law`) with the product weight. -/
theorem percolate_network_tape (edges : List (Node × Node)) (p : Rat) (rs : List Rat) (rest : List Draw)
    (tr : Array Call) (d : DSt) (hl : rs.length = edges.length) :
    ∃ tr', GenDisc.percolate_network edges p d ⟨rs.map Draw.unif ++ rest, tr⟩
        = .ok ((keptBy p edges rs, d), ⟨rest, tr'⟩) ∧
      keptBy p edges rs = ((edges.zip rs).filter fun x => decide (x.2 < p)).map (·.1) ∧
      (keptBy p edges rs).Sublist edges ∧
      (keptBy p edges rs, pathWeight (fun r => decide (r < p)) p rs) ∈ Discrete.percolateDist p edges := by
  obtain ⟨tr', h⟩ := percolate_fold p d rest edges rs [] tr hl
  refine ⟨tr', ?_, keptBy_eq_zip p edges rs, keptBy_sublist p edges rs, keptBy_support p edges rs hl⟩
  rw [percolate_eq, h]; simp

/-! ### C — the rows of `basic_discrete_SIS` -/

/-- **C1 — rows of `basic_discrete_SIS`, for every callback state and every tape on which the run succeeds**
(`initial_infecteds` duplicate free, as after the normalisation of the Python code): the callback state is untouched;
for some `k < fuel` (the number of generations) the times are `tmin, tmin+1, …, tmin+k`; `S`, `I` have `k+1` entries,
`S[i] = G.order() - I[i]` for every `i`; the last `I` is `|infecteds|`, `infecteds` is duplicate free, and the loop has
stopped exactly because `infecteds` is empty or `t[-1] = tmin + k ≥ tmax`. -/
theorem basic_discrete_SIS_rows (P : DArgs) (hnd : P.initial_infecteds.Nodup) (n : Nat) (d : DSt) (ts : TapeSt)
    (σ : GenDSIS.Loc) (d' : DSt) (ts' : TapeSt) (h : GenDSIS.run P n d ts = .ok ((σ, d'), ts')) :
    d' = d ∧ ∃ k, k < n ∧ σ.t = (List.range (k + 1)).map (fun (i : Nat) => P.tmin + (i : Rat)) ∧
      σ.I.length = k + 1 ∧ σ.S.length = k + 1 ∧ σ.S = σ.I.map (fun i => P.order - i) ∧
      σ.infecteds.Nodup ∧ σ.I.getLast? = some (σ.infecteds.length : Int) ∧
      (σ.infecteds = [] ∨ ERat.lt (some (P.tmin + (k : Rat))) P.tmax = false) := by
  obtain ⟨hd, k, hk, hI, hstop⟩ := SIS.run_rows P hnd n d ts _ h
  refine ⟨hd, k, hk, hI.t, hI.lenI, ?_, hI.S, hI.nodup, hI.last, hstop⟩
  rw [show σ.S = σ.I.map (fun i => P.order - i) from hI.S, List.length_map]
  exact hI.lenI

/-- **C2 — one generation of `basic_discrete_SIS`, if it succeeds** (any tape, any `return_full_data`): the callback
state is untouched, one row is appended (`t[-1] + 1`, `N - |infecteds'|`, `|infecteds'|`), the next `infecteds` is duplicate
free, disjoint from the current one and contained in the neighbourhoods of the current one. -/
theorem basic_discrete_SIS_generation (P : DArgs) (hiter : ∀ l, (P.iter l).Perm l) (σ : GenDSIS.Loc) (d : DSt)
    (ts : TapeSt) (σ' : GenDSIS.Loc) (d' : DSt) (ts' : TapeSt) (h : SIS.gen P σ d ts = .ok ((σ', d'), ts')) :
    d' = d ∧ ∃ a, σ.t.getLast? = some a ∧ σ'.t = σ.t ++ [a + 1] ∧
      σ'.S = σ.S ++ [σ.N - (σ'.infecteds.length : Int)] ∧ σ'.I = σ.I ++ [(σ'.infecteds.length : Int)] ∧
      σ'.infecteds.Nodup ∧ ∀ v ∈ σ'.infecteds, v ∉ σ.infecteds ∧ ∃ u ∈ σ.infecteds, v ∈ P.nbrs u := by
  obtain ⟨hd, a, ha, ht, hS, hI, _, hnd, hm⟩ := SIS.gen_pc P σ d ts _ h
  refine ⟨hd, a, ha, ht, hS, hI, hnd, ?_⟩
  intro v hv
  obtain ⟨h1, u, hu, h2⟩ := hm v hv
  exact ⟨h1, u, (hiter _).subset hu, h2⟩

end C12c

/-! ### non-vacuity / concrete instances -/
section Examples
open GenDiscrete

/-- path 0-1-2-3, the contact 2 → 3 fails -/
def exGn (u : Node) : List Node := match u with | 0 => [1] | 1 => [0, 2] | 2 => [1, 3] | 3 => [2] | _ => []
def exG : DParams :=
  { nodes := [0, 1, 2, 3], nbrs := exGn, rule := fun _ u v => !(u == 2 && v == 3), recSteps := none, tmin := 0,
    tmax := none }

theorem exG_wf : Discrete.WF exG [0] [] :=
  ⟨by decide, by decide, by decide, by decide, by decide, by decide, by decide, fun k h => by simp [exG] at h⟩

/-- what a run returns, as comparable data: rows, final `infecteds`, number of logged callback calls, number of
draws left on the tape -/
structure Obs where
  t : List Rat
  S : List Int
  I : List Int
  R : List Int
  infecteds : List Node
  calls : Nat
  tape : Nat
deriving DecidableEq, Repr

def obs (r : Except String ((GenDSIR.Loc × DSt) × TapeSt)) : Option Obs :=
  match r with
  | .ok ((σ, d), ts) => some ⟨σ.t, σ.S, σ.I, σ.R, σ.infecteds, d.calls.size, ts.tape.length⟩
  | .error _ => none

def d0 : DSt := { answers := [] }
def ts0 : TapeSt := { tape := [] }

example : obs (GenDSIR.run (toArgs0 exG id false [0] none) 10 d0 ts0)
    = some ⟨[0, 1, 2, 3], [3, 2, 1, 1], [1, 1, 1, 0], [0, 1, 2, 3], [], 0, 0⟩ := by decide +kernel
example : obs (GenDSIR.run (toArgs0 exG List.reverse false [0] none) 10 d0 ts0)
    = some ⟨[0, 1, 2, 3], [3, 2, 1, 1], [1, 1, 1, 0], [0, 1, 2, 3], [], 0, 0⟩ := by decide +kernel
example : (Discrete.run exG [0] [] 3).t.reverse = [0, 1, 2, 3] ∧ (Discrete.run exG [0] [] 3).S.reverse = [3, 2, 1, 1] := by
  decide +kernel
/-- the hand model has stopped after 3 generations, not after 2: fuel 4 suffices, fuel 3 does not -/
example : Discrete.stopped exG (Discrete.run exG [0] [] 3) := by unfold Discrete.stopped; decide +kernel
example : ¬ Discrete.stopped exG (Discrete.run exG [0] [] 2) := by unfold Discrete.stopped; decide +kernel
example : obs (GenDSIR.run (toArgs0 exG id false [0] none) 3 d0 ts0) = none := by decide +kernel
example : (obs (GenDSIR.run (toArgs0 exG id false [0] none) 4 d0 ts0)).isSome = true := by decide +kernel
/-- the theorem applied -/
example : ∃ σ, GenDSIR.run (toArgs0 exG List.reverse false [0] none) 4 d0 ts0 = .ok ((σ, d0), ts0) ∧
    σ.S = (Discrete.run exG [0] [] 3).S.reverse := by
  obtain ⟨σ, h, _, hS, _⟩ := (C12c.discrete_SIR_refines_default exG List.reverse (fun l => List.reverse_perm l) [0] none
    exG_wf rfl 3 d0 ts0).1 (by unfold Discrete.stopped; decide +kernel) 4 (by omega)
  exact ⟨σ, h, hS⟩

/-- path 0-1-2, every node infectious for two steps, the contact 0 → 1 fails at age 0 and succeeds at age 1
(the instance `exA` of C12): the rule is read through the call log -/
def exHn (u : Node) : List Node := match u with | 0 => [1] | 1 => [0, 2] | 2 => [1] | _ => []
def exH : DParams :=
  { nodes := [0, 1, 2], nbrs := exHn, rule := fun a u v => !(u == 0 && v == 1 && a == 0),
    recSteps := some (fun _ => 2), tmin := 0, tmax := none }
theorem exH_wf : Discrete.WF exH [0] [] :=
  ⟨by decide, by decide, by decide, by decide, by decide, by decide, by decide,
   fun k h => by simp only [exH, Option.some.injEq] at h; subst h; intro _; exact Nat.le_succ 1⟩
example : ∀ u, cnt d0 u = 0 := fun _ => rfl
example : obs (GenDSIR.run (toArgs exH id false [0] none) 10 d0 ts0)
    = some ⟨[0, 1, 2, 3, 4, 5], [2, 2, 1, 0, 0, 0], [1, 1, 1, 2, 1, 0], [0, 0, 1, 1, 2, 3], [], 6, 0⟩ := by
  decide +kernel
example : (Discrete.run exH [0] [] 10).I.reverse = [1, 1, 1, 2, 1, 0] ∧ (Discrete.run exH [0] [] 10).age 0 = 2 := by
  decide +kernel

/-! `return_full_data=True`: diamond 0-{1,2}-3, every contact succeeds; node 3 has two possible infectors, the scripted
`random.choice` index picks one of them (the order of the candidates depends on `iter`) -/
def exQn (u : Node) : List Node := match u with | 0 => [1, 2] | 1 => [0, 3] | 2 => [0, 3] | 3 => [1, 2] | _ => []
def exQ : DParams :=
  { nodes := [0, 1, 2, 3], nbrs := exQn, rule := fun _ _ _ => true, recSteps := none, tmin := 0, tmax := none }
theorem exQ_wf : Discrete.WF exQ [0] [] :=
  ⟨by decide, by decide, by decide, by decide, by decide, by decide, by decide, fun k h => by simp [exQ] at h⟩
def exTape : TapeSt := { tape := [.choice 0, .choice 0, .choice 1, .choice 0] }
def obsT (r : Except String ((GenDSIR.Loc × DSt) × TapeSt)) : Option (List (Rat × Option Node × Node) × Nat) :=
  match r with
  | .ok ((σ, _), ts) => some (σ.transmissions, ts.tape.length)
  | .error _ => none
example : obsT (GenDSIR.run (toArgs exQ id true [0] none) 10 d0 exTape)
    = some ([(-1, none, 0), (0, some 0, 1), (0, some 0, 2), (1, some 2, 3)], 1) := by decide +kernel
example : obsT (GenDSIR.run (toArgs exQ List.reverse true [0] none) 10 d0 exTape)
    = some ([(-1, none, 0), (0, some 0, 1), (0, some 0, 2), (1, some 1, 3)], 1) := by decide +kernel
example : (Discrete.run exQ [0] [] 10).infectors = [(1, 0, [0]), (2, 0, [0]), (3, 1, [1, 2])] := by decide +kernel
example : (Discrete.run exQ [0] [] 10).infTime = [(1, 1), (2, 1), (3, 2)] := by decide +kernel
def obsH (r : Except String ((GenDSIR.Loc × DSt) × TapeSt)) : Option (List (Node × List Rat × List St)) :=
  match r with
  | .ok ((σ, _), _) => some σ.node_history
  | .error _ => none
example : obsH (GenDSIR.run (toArgs exQ id true [0] none) 10 d0 exTape)
    = some [(0, [0, 1], [St.I, St.R]), (1, [0, 1, 2], [St.S, St.I, St.R]), (2, [0, 1, 2], [St.S, St.I, St.R]),
            (3, [0, 2, 3], [St.S, St.I, St.R])] := by decide +kernel
/-- a tape that runs out of `choice` draws: the run fails (the theorem is about successful runs) -/
example : obsT (GenDSIR.run (toArgs exQ id true [0] none) 10 d0 { tape := [.choice 0] }) = none := by decide +kernel

/-! the Bernoulli rule: path 0-1-2-3, node 1 infectious, `p = 1/2`, the draws 1/4 (success, contact 1 → 0) and 3/4
(failure, contact 1 → 2) -/
def exB (full : Bool) (iter : List Node → List Node) : DArgs :=
  { order := 4, nbrs := exGn, iter := iter, tmin := 0, tmax := none, full := full, p := 1/2,
    testTrans := fun _ _ => pure false, testRec := none, initial_infecteds := [1], initial_recovereds := none }
example : outerP (fun r => decide (r < (1/2 : Rat))) false exGn (fun v => v != 1) [1] [] [1/4, 3/4] = some ([0], []) := by
  decide +kernel
example : ReedFrost.stepDist (1/2) exGn [1] (fun v => v != 1) false
    = [([0, 2], 1/4), ([0], 1/4), ([2], 1/4), ([], 1/4)] := by decide +kernel
example : pathWeight (fun r => decide (r < (1/2 : Rat))) (1/2) [1/4, 3/4] = 1/4 := by decide +kernel
/-- the whole run: generation 1 consumes the two draws, generation 2 (node 0 infectious, its only neighbour is not
susceptible) consumes none; one draw is left on the tape -/
example : obs (GenDisc.basic_discrete_SIR (exB false id) 10 d0 { tape := [.unif (1/4), .unif (3/4), .unif (3/4)] })
    = some ⟨[0, 1, 2], [3, 2, 2], [1, 1, 0], [0, 1, 2], [], 0, 1⟩ := by decide +kernel
example : obs (GenDisc.basic_discrete_SIR (exB false List.reverse) 10 d0
      { tape := [.unif (1/4), .unif (3/4), .unif (3/4)] })
    = some ⟨[0, 1, 2], [3, 2, 2], [1, 1, 0], [0, 1, 2], [], 0, 1⟩ := by decide +kernel

/-! `basic_discrete_SIS` on the same path, `tmax = 3`: 1 → {0}, 0 → {1}, 1 → {0}; five draws consumed, three left -/
def obsS (r : Except String ((GenDSIS.Loc × DSt) × TapeSt)) :
    Option (List Rat × List Int × List Int × List Node × Nat) :=
  match r with
  | .ok ((σ, _), ts) => some (σ.t, σ.S, σ.I, σ.infecteds, ts.tape.length)
  | .error _ => none
example : obsS (GenDSIS.run { exB false id with tmax := some 3 } 10 d0
      { tape := [.unif (1/4), .unif (3/4), .unif (1/4), .unif (1/4), .unif (3/4), .unif (3/4), .unif (3/4), .unif (3/4)] })
    = some ([0, 1, 2, 3], [3, 3, 3, 3], [1, 1, 1, 1], [0], 3) := by decide +kernel
example : (exB false id).initial_infecteds.Nodup := by decide

/-! `percolate_network`: three edges, draws 1/4, 3/4, 1/4 with `p = 1/2` -/
example : keptBy (1/2) [(0, 1), (1, 2), (2, 3)] [1/4, 3/4, 1/4] = [(0, 1), (2, 3)] := by decide +kernel
example : ((GenDisc.percolate_network [(0, 1), (1, 2), (2, 3)] (1/2) d0
      { tape := [.unif (1/4), .unif (3/4), .unif (1/4), .unif 0] }).toOption.map fun r => (r.1.1, r.2.tape.length))
    = some ([(0, 1), (2, 3)], 1) := by decide +kernel

end Examples

#print axioms C12c.discrete_SIR_refines_default
#print axioms C12c.discrete_SIR_refines_recovery
#print axioms C12c.ageRule_of_ageless
#print axioms C12c.discrete_SIR_full_data
#print axioms C12c.discrete_SIR_full_data_generation
#print axioms C12c.loop_unfold
#print axioms C12c.loop_unfold_SIS
#print axioms C12c.basic_discrete_SIR_eq
#print axioms C12c.basic_discrete_SIR_contact_path
#print axioms C12c.basic_discrete_SIS_contact_path
#print axioms C12c.outerP_in_support
#print axioms C12c.percolate_network_tape
#print axioms C12c.basic_discrete_SIS_rows
#print axioms C12c.basic_discrete_SIS_generation
