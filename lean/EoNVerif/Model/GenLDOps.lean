import EoNVerif.Gen.ListDictGen
import EoNVerif.Model.ListDict
/-!
Executable glue between the code GENERATED from the Python class `_ListDict_` (`EoNVerif/Gen/ListDictGen.lean`,
namespace `GenLD`) and the operation vocabulary `LD.Op` of the hand-written model: running an operation history
on the generated state.  Core Lean only (no Mathlib) so that a compiled driver can run it.
-/
namespace GenLD
variable {α : Type} [DecidableEq α]

/-- the abstraction function: forget `item_to_position` (the hand-written model recovers positions with `idxOf`) -/
def toLD (s : PyLD α) : LD α :=
  { weighted := s.weighted, items := s.items, weight := s.weight, maxW := s.max_weight,
    maxCnt := s.max_weight_count, total := s.total_weight_ }

/-- one simulator operation on the generated `_ListDict_` state -/
def applyOp (s : PyLD α) : LD.Op α → Except String (PyLD α)
  | .ins x w => insert s x w
  | .upd x w => update s x w
  | .rem x => remove s x

/-- a history of operations; the first Python exception aborts the run -/
def applyOps (s : PyLD α) : List (LD.Op α) → Except String (PyLD α)
  | [] => .ok s
  | o :: os => match applyOp s o with
    | .ok s' => applyOps s' os
    | .error e => .error e

/-- an operation passes a weight exactly when the structure is weighted (`b`); this is how the simulators use
the class (`insert(item, weight)` / `update(item, weight_increment)` on weighted structures, `insert(item)` /
`update(item)` on unweighted ones) -/
def opTyped (b : Bool) : LD.Op α → Bool
  | .ins _ w => w.isSome == b
  | .upd _ w => w.isSome == b
  | .rem _ => true

end GenLD
