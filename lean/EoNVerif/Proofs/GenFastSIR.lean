import EoNVerif.Gen.FastSIRGen
import EoNVerif.Proofs.GenEventSIR
import EoNVerif.Proofs.FastSIRLaw2
/-!
Helper definitions and lemmas for C01f (`EoNVerif/Props/C01f.lean`): the code generated from `fast_SIR`'s own part
(`EoNVerif/Gen/FastSIRGen.lean`) against the scripted random tape — `_truncated_exponential_`,
`_get_rate_functions_`, the constant-`tau` rule, the per-edge rule and the dispatch — and the tape determinisation of
`fast_nonMarkov_SIR` (`GenESIR.run`) for an arbitrary effectful rule.
-/

open GenESIR (tm_pure tm_bind_ok tm_bind_err)
open GenFSIR PyFS GenESIR EventSIR

namespace GenFSIRProofs

/-! ### the tape primitives on a cons tape -/

theorem popExpo_cons {rate : Rat} (h : rate ≠ 0) (d : Rat) (rest : List Draw) (tr : Array Call) :
    TM.popExpo rate ⟨Draw.expo d :: rest, tr⟩ = .ok (d, ⟨rest, tr.push (.expo rate)⟩) := by
  simp only [TM.popExpo, h, if_false]

theorem popExpo_zero (ts : TapeSt) : TM.popExpo 0 ts = .error "ZeroDivisionError" := by
  simp only [TM.popExpo, if_true]

theorem popExpo_nil {rate : Rat} (h : rate ≠ 0) (tr : Array Call) :
    TM.popExpo rate ⟨[], tr⟩ = .error "tape-exhausted" := by
  simp only [TM.popExpo, h, if_false]

theorem popExpo_kind {rate : Rat} (h : rate ≠ 0) (x : Draw) (hx : ∀ d, x ≠ Draw.expo d) (rest : List Draw)
    (tr : Array Call) : TM.popExpo rate ⟨x :: rest, tr⟩ = .error "tape-kind-mismatch:expo" := by
  cases x with
  | expo d => exact absurd rfl (hx d)
  | _ => simp only [TM.popExpo, h, if_false]

theorem popBinom_cons {n k : Nat} (h : k ≤ n) (p : Rat) (rest : List Draw) (tr : Array Call) :
    TM.popBinom n p ⟨Draw.binom k :: rest, tr⟩ = .ok (k, ⟨rest, tr.push (.binom n p)⟩) := by
  simp only [TM.popBinom, h, if_true]

theorem popSample_cons {n k : Nat} (hk : k ≤ n) (idx : List Nat) (hl : idx.length = k) (hlt : ∀ i ∈ idx, i < n)
    (hnd : idx.Nodup) (rest : List Draw) (tr : Array Call) :
    TM.popSample n k ⟨Draw.sample idx :: rest, tr⟩ = .ok (idx, ⟨rest, tr.push (.sample n k)⟩) := by
  have h1 : ¬ k > n := by omega
  have h2 : (idx.all (· < n)) = true := by
    rw [List.all_eq_true]; intro i hi; simpa using hlt i hi
  simp only [TM.popSample, h1, if_false, hl, h2, hnd, and_self, if_true]

theorem liftE_error {α : Type} (m : String) (ts : TapeSt) : PyTM.liftE (.error m : Except String α) ts = .error m := rfl

theorem push_eq (tr : Array Call) (a : Call) : tr.push a = tr ++ [a].toArray := by
  rw [Array.push_eq_append]

theorem append_push (tr : Array Call) (l : List Call) (a : Call) :
    (tr ++ l.toArray).push a = tr ++ (l ++ [a]).toArray := by
  rw [Array.push_append, List.push_toArray]

theorem append_append (tr : Array Call) (l l' : List Call) :
    (tr ++ l.toArray) ++ l'.toArray = tr ++ (l ++ l').toArray := by
  apply Array.ext'
  simp

/-! ### `_truncated_exponential_` -/

/-- `t - int(t/T)*T` on rationals -/
def truncMod (t T : Rat) : Rat := t - ((PyFS.intTrunc (t / T) : Int) : Rat) * T

theorem intTrunc_of_nonneg {x : Rat} (h : 0 ≤ x) : PyFS.intTrunc x = ⌊x⌋ := by
  unfold PyFS.intTrunc
  rw [if_neg (not_lt.2 h)]
  rfl

theorem intTrunc_of_neg {x : Rat} (h : x < 0) : PyFS.intTrunc x = ⌈x⌉ := by
  unfold PyFS.intTrunc
  rw [if_pos h]
  show -⌊-x⌋ = ⌈x⌉
  rw [Int.floor_neg, neg_neg]

theorem truncated_exponential_ok {rate T : Rat} (hr : rate ≠ 0) (hT : T ≠ 0) (t : Rat) (rest : List Draw)
    (tr : Array Call) :
    truncated_exponential rate T ⟨Draw.expo t :: rest, tr⟩ =
      .ok (truncMod t T, ⟨rest, tr.push (.expo rate)⟩) := by
  unfold truncated_exponential
  rw [tm_bind_ok (popExpo_cons hr t rest tr)]
  simp only [PyTM.fdiv, hT, if_false]
  rfl

theorem truncated_exponential_rate_zero (T : Rat) (ts : TapeSt) :
    truncated_exponential 0 T ts = .error "ZeroDivisionError" := by
  unfold truncated_exponential
  rw [tm_bind_err (popExpo_zero ts)]

theorem truncated_exponential_T_zero {rate : Rat} (hr : rate ≠ 0) (t : Rat) (rest : List Draw) (tr : Array Call) :
    truncated_exponential rate 0 ⟨Draw.expo t :: rest, tr⟩ = .error "ZeroDivisionError" := by
  unfold truncated_exponential
  rw [tm_bind_ok (popExpo_cons hr t rest tr)]
  simp only [PyTM.fdiv, if_true]
  rfl

theorem truncated_exponential_kind {rate : Rat} (hr : rate ≠ 0) (T : Rat) (x : Draw) (hx : ∀ d, x ≠ Draw.expo d)
    (rest : List Draw) (tr : Array Call) :
    truncated_exponential rate T ⟨x :: rest, tr⟩ = .error "tape-kind-mismatch:expo" := by
  unfold truncated_exponential
  rw [tm_bind_err (popExpo_kind hr x hx rest tr)]

theorem truncated_exponential_nil {rate : Rat} (hr : rate ≠ 0) (T : Rat) (tr : Array Call) :
    truncated_exponential rate T ⟨[], tr⟩ = .error "tape-exhausted" := by
  unfold truncated_exponential
  rw [tm_bind_err (popExpo_nil hr tr)]

theorem truncMod_eq_floor {t T : Rat} (ht : 0 ≤ t) (hT : 0 < T) : truncMod t T = t - (⌊t / T⌋ : Rat) * T := by
  unfold truncMod
  rw [intTrunc_of_nonneg (div_nonneg ht hT.le)]

theorem truncMod_range {t T : Rat} (ht : 0 ≤ t) (hT : 0 < T) : 0 ≤ truncMod t T ∧ truncMod t T < T := by
  rw [truncMod_eq_floor ht hT]
  have h1 : (⌊t / T⌋ : Rat) ≤ t / T := Int.floor_le _
  have h2 : t / T < (⌊t / T⌋ : Rat) + 1 := Int.lt_floor_add_one _
  have e : t = t / T * T := by field_simp
  constructor
  · have : (⌊t / T⌋ : Rat) * T ≤ t / T * T := mul_le_mul_of_nonneg_right h1 hT.le
    linarith
  · have : t / T * T < ((⌊t / T⌋ : Rat) + 1) * T := mul_lt_mul_of_pos_right h2 hT
    linarith

theorem truncMod_decomp {t T : Rat} (ht : 0 ≤ t) (hT : 0 < T) : ∃ k : Nat, t = truncMod t T + (k : Rat) * T := by
  refine ⟨⌊t / T⌋.toNat, ?_⟩
  rw [truncMod_eq_floor ht hT]
  have h0 : 0 ≤ ⌊t / T⌋ := Int.floor_nonneg.2 (div_nonneg ht hT.le)
  have : ((⌊t / T⌋.toNat : Nat) : Rat) = ((⌊t / T⌋ : Int) : Rat) := by
    have := Int.toNat_of_nonneg h0
    exact_mod_cast congrArg (fun z : Int => (z : Rat)) this
  rw [this]; ring

/-- the rational value is the real-valued folding function of C01c (`FastSIRLaw.reduceMod`) at the same draw -/
theorem truncMod_cast (t T : Rat) : ((truncMod t T : Rat) : ℝ) = FastSIRLaw.reduceMod (T : ℝ) (t : ℝ) := by
  unfold truncMod FastSIRLaw.reduceMod FastSIRLaw.pyInt
  have hc : ((t : ℝ) / (T : ℝ)) = ((t / T : Rat) : ℝ) := by push_cast; rfl
  rw [hc]
  by_cases h : 0 ≤ t / T
  · have h' : (0 : ℝ) ≤ ((t / T : Rat) : ℝ) := by exact_mod_cast h
    rw [intTrunc_of_nonneg h, if_pos h', Rat.floor_cast]
    push_cast; rfl
  · have h' : ¬ (0 : ℝ) ≤ ((t / T : Rat) : ℝ) := by
      intro hh; apply h; exact_mod_cast hh
    rw [intTrunc_of_neg (not_le.1 h), if_neg h', Rat.ceil_cast]
    push_cast; rfl

/-! ### `_get_rate_functions_` -/

theorem get_rate_functions_none_none (tau gamma : Rat) (x y : Node) :
    (get_rate_functions tau gamma none none).1 x y = .ok tau ∧
    (get_rate_functions tau gamma none none).2 x = .ok gamma := ⟨rfl, rfl⟩

theorem get_rate_functions_trans_none (tau gamma : Rat) (rw : Option Rate1) (x y : Node) :
    (get_rate_functions tau gamma none rw).1 x y = .ok tau := rfl

theorem get_rate_functions_rec_none (tau gamma : Rat) (tw : Option Rate2) (x : Node) :
    (get_rate_functions tau gamma tw none).2 x = .ok gamma := rfl

theorem get_rate_functions_trans_some (tau gamma : Rat) (tw : Rate2) (rw : Option Rate1) (x y : Node) :
    (get_rate_functions tau gamma (some tw) rw).1 x y = (tw x y).map (tau * ·) := by
  show (do let w_ ← tw x y; pure (tau * w_)) = _
  cases tw x y <;> rfl

theorem get_rate_functions_rec_some (tau gamma : Rat) (tw : Option Rate2) (rw : Rate1) (x : Node) :
    (get_rate_functions tau gamma tw (some rw)).2 x = (rw x).map (gamma * ·) := by
  show (do let w_ ← rw x; pure (gamma * w_)) = _
  cases rw x <;> rfl

/-! ### `_trans_and_rec_time_Markovian_const_trans_` -/

theorem mapM_listChoice (sus : List Node) : ∀ (idx : List Nat), (∀ i ∈ idx, i < sus.length) →
    idx.mapM (fun i => PyRT.listChoice sus i) = .ok (idx.map (sus.getD · 0)) := by
  intro idx
  induction idx with
  | nil => intro _; rfl
  | cons i idx ih =>
    intro h
    have hi : i < sus.length := h i (List.mem_cons_self ..)
    rw [List.mapM_cons, ih (fun j hj => h j (List.mem_cons_of_mem _ hj))]
    have : PyRT.listChoice sus i = .ok (sus.getD i 0) := by
      unfold PyRT.listChoice
      rw [List.getD_eq_getElem?_getD, List.getElem?_eq_getElem hi]
      rfl
    rw [this]
    rfl

theorem sample_ok (sus : List Node) {k : Nat} (hk : k ≤ sus.length) (idx : List Nat) (hl : idx.length = k)
    (hlt : ∀ i ∈ idx, i < sus.length) (hnd : idx.Nodup) (rest : List Draw) (tr : Array Call) :
    PyFS.sample sus k ⟨Draw.sample idx :: rest, tr⟩ =
      .ok (idx.map (sus.getD · 0), ⟨rest, tr.push (.sample sus.length k)⟩) := by
  unfold PyFS.sample
  rw [tm_bind_ok (popSample_cons hk idx hl hlt hnd rest tr), mapM_listChoice sus idx hlt]
  rfl

/-- the dict built by the loop `for v in transmission_recipients: trans_delay[v] = …` from the values `xs` -/
def dictOf (acc : List (Node × ERat)) : List Node → List ERat → List (Node × ERat)
  | v :: vs, x :: xs => dictOf (alSet acc v x) vs xs
  | _, _ => acc

/-- the body of that loop -/
def ctBody (tau d : Rat) (acc : List (Node × ERat)) (v : Node) : TM (List (Node × ERat)) :=
  truncated_exponential tau d >>= fun t_1 => pure (alSet acc v (some t_1))

theorem ct_loop {tau d : Rat} (htau : tau ≠ 0) (hd : d ≠ 0) : ∀ (vs : List Node) (ts : List Rat)
    (acc : List (Node × ERat)) (rest : List Draw) (tr : Array Call), vs.length = ts.length →
    vs.foldlM (ctBody tau d) acc ⟨ts.map Draw.expo ++ rest, tr⟩ =
      .ok (dictOf acc vs (ts.map fun t => some (truncMod t d)),
        ⟨rest, tr ++ (List.replicate ts.length (Call.expo tau)).toArray⟩) := by
  intro vs
  induction vs with
  | nil =>
    intro ts acc rest tr h
    cases ts with
    | nil => simp [tm_pure, dictOf]
    | cons t ts => cases h
  | cons v vs ih =>
    intro ts acc rest tr h
    cases ts with
    | nil => cases h
    | cons t ts =>
      rw [List.foldlM_cons]
      have h1 : ctBody tau d acc v ⟨(t :: ts).map Draw.expo ++ rest, tr⟩ =
          .ok (alSet acc v (some (truncMod t d)), ⟨ts.map Draw.expo ++ rest, tr.push (.expo tau)⟩) := by
        unfold ctBody
        rw [List.map_cons, List.cons_append, tm_bind_ok (truncated_exponential_ok htau hd t _ tr)]
        rfl
      rw [tm_bind_ok h1, ih ts _ rest _ (by simpa using h)]
      simp only [List.map_cons, dictOf, List.length_cons, List.replicate_succ, push_eq, append_append,
        List.singleton_append]

theorem const_trans_ok (exp : Rat → Rat) (node : Node) (sus : List Node) {tau : Rat} (rrf : Rate1) {r : Rat}
    (hr : rrf node = .ok r) (hr0 : r ≠ 0) (htau : tau ≠ 0) {d : Rat} (hd : d ≠ 0) {k : Nat} (hk : k ≤ sus.length)
    (idx : List Nat) (hl : idx.length = k) (hlt : ∀ i ∈ idx, i < sus.length) (hnd : idx.Nodup)
    (ts : List Rat) (hts : ts.length = k) (rest : List Draw) (tr : Array Call) :
    const_trans exp node sus tau rrf
        ⟨Draw.expo d :: Draw.binom k :: Draw.sample idx :: (ts.map Draw.expo ++ rest), tr⟩ =
      .ok ((dictOf [] (idx.map (sus.getD · 0)) (ts.map fun t => some (truncMod t d)), some d),
        ⟨rest, tr ++ ([Call.expo r, Call.binom sus.length (1 - exp (-tau * d)), Call.sample sus.length k]
                ++ List.replicate k (Call.expo tau)).toArray⟩) := by
  unfold const_trans
  rw [hr, GenESIR.liftE_ok_eq_pure, pure_bind, tm_bind_ok (popExpo_cons hr0 d _ tr),
    tm_bind_ok (popBinom_cons hk _ _ _), tm_bind_ok (sample_ok sus hk idx hl hlt hnd _ _)]
  have := ct_loop htau hd (idx.map (sus.getD · 0)) ts [] rest
    (((tr.push (Call.expo r)).push (Call.binom sus.length (1 - exp (-tau * d)))).push (Call.sample sus.length k))
    (by rw [List.length_map, hl, hts])
  unfold ctBody at this
  rw [tm_bind_ok this, hts]
  simp only [push_eq, append_append, tm_pure]
  rfl

theorem const_trans_k_zero (exp : Rat → Rat) (node : Node) (sus : List Node) (tau : Rat) (rrf : Rate1) {r : Rat}
    (hr : rrf node = .ok r) (hr0 : r ≠ 0) (d : Rat) (rest : List Draw) (tr : Array Call) :
    const_trans exp node sus tau rrf ⟨Draw.expo d :: Draw.binom 0 :: Draw.sample [] :: rest, tr⟩ =
      .ok (([], some d),
        ⟨rest, tr ++ [Call.expo r, Call.binom sus.length (1 - exp (-tau * d)), Call.sample sus.length 0].toArray⟩) := by
  unfold const_trans
  rw [hr, GenESIR.liftE_ok_eq_pure, pure_bind, tm_bind_ok (popExpo_cons hr0 d _ tr),
    tm_bind_ok (popBinom_cons (Nat.zero_le _) _ _ _),
    tm_bind_ok (sample_ok sus (Nat.zero_le _) [] rfl (by intro i hi; cases hi) List.nodup_nil _ _)]
  simp only [push_eq, append_append]
  rfl

theorem const_trans_rate_zero (exp : Rat → Rat) (node : Node) (sus : List Node) (tau : Rat) (rrf : Rate1)
    (hr : rrf node = .ok 0) (ts : TapeSt) :
    const_trans exp node sus tau rrf ts = .error "ZeroDivisionError" := by
  unfold const_trans
  rw [hr, GenESIR.liftE_ok_eq_pure, pure_bind, tm_bind_err (popExpo_zero ts)]

theorem const_trans_rate_error (exp : Rat → Rat) (node : Node) (sus : List Node) (tau : Rat) (rrf : Rate1) {e : String}
    (hr : rrf node = .error e) (ts : TapeSt) :
    const_trans exp node sus tau rrf ts = .error e := by
  unfold const_trans
  rw [hr, tm_bind_err (liftE_error e ts)]

/-! ### the dict `dictOf` -/

theorem alSet_of_not_mem (l : List (Node × ERat)) (x : Node) (v : ERat) (h : x ∉ l.map (·.1)) :
    alSet l x v = l ++ [(x, v)] := by
  induction l with
  | nil => rfl
  | cons a l ih =>
    obtain ⟨k, w⟩ := a
    rw [List.map_cons, List.mem_cons, not_or] at h
    unfold alSet
    rw [if_neg (fun hk => h.1 hk.symm), ih h.2]
    rfl

theorem dictOf_nodup : ∀ (vs : List Node) (xs : List ERat) (acc : List (Node × ERat)), vs.length = xs.length →
    vs.Nodup → (∀ v ∈ vs, v ∉ acc.map (·.1)) → dictOf acc vs xs = acc ++ vs.zip xs := by
  intro vs
  induction vs with
  | nil => intro xs acc _ _ _; simp [dictOf]
  | cons v vs ih =>
    intro xs acc hl hn hd
    cases xs with
    | nil => cases hl
    | cons x xs =>
      rw [List.nodup_cons] at hn
      unfold dictOf
      rw [alSet_of_not_mem acc v x (hd v (List.mem_cons_self ..)), ih xs _ (by simpa using hl) hn.2 ?_]
      · simp
      · intro w hw
        rw [List.map_append, List.mem_append, not_or]
        refine ⟨hd w (List.mem_cons_of_mem _ hw), ?_⟩
        simp only [List.map_cons, List.map_nil, List.mem_singleton]
        rintro rfl
        exact hn.1 hw

theorem dictOf_nil_nodup (vs : List Node) (xs : List ERat) (hl : vs.length = xs.length) (hn : vs.Nodup) :
    dictOf [] vs xs = vs.zip xs := by
  rw [dictOf_nodup vs xs [] hl hn (by intro v _ h; cases h)]
  rfl

theorem mem_alSet {l : List (Node × ERat)} {x : Node} {v : ERat} {p : Node × ERat} (h : p ∈ alSet l x v) :
    p ∈ l ∨ p = (x, v) := by
  induction l with
  | nil => right; simpa [alSet] using h
  | cons a l ih =>
    obtain ⟨k, w⟩ := a
    unfold alSet at h
    split at h
    · rename_i hk
      rcases List.mem_cons.1 h with h | h
      · right; rw [h, hk]
      · left; exact List.mem_cons_of_mem _ h
    · rcases List.mem_cons.1 h with h | h
      · left; rw [h]; exact List.mem_cons_self ..
      · rcases ih h with h | h
        · left; exact List.mem_cons_of_mem _ h
        · right; exact h

/-- every entry of the dict is an old one or carries one of the values (no `Nodup` needed) -/
theorem mem_dictOf : ∀ (vs : List Node) (xs : List ERat) (acc : List (Node × ERat)) (p : Node × ERat),
    p ∈ dictOf acc vs xs → p ∈ acc ∨ (p.1 ∈ vs ∧ p.2 ∈ xs) := by
  intro vs
  induction vs with
  | nil => intro xs acc p h; left; simpa [dictOf] using h
  | cons v vs ih =>
    intro xs acc p h
    cases xs with
    | nil => left; simpa [dictOf] using h
    | cons x xs =>
      unfold dictOf at h
      rcases ih xs _ p h with h | ⟨h1, h2⟩
      · rcases mem_alSet h with h | h
        · left; exact h
        · right; rw [h]; exact ⟨List.mem_cons_self .., List.mem_cons_self ..⟩
      · right; exact ⟨List.mem_cons_of_mem _ h1, List.mem_cons_of_mem _ h2⟩

theorem recipients_nodup {sus : List Node} (hs : sus.Nodup) {idx : List Nat} (hlt : ∀ i ∈ idx, i < sus.length)
    (hnd : idx.Nodup) : (idx.map (sus.getD · 0)).Nodup := by
  refine List.Nodup.map_on ?_ hnd
  intro i hi j hj h
  have h1 := hlt i hi
  have h2 := hlt j hj
  rw [List.getD_eq_getElem?_getD, List.getD_eq_getElem?_getD, List.getElem?_eq_getElem h1,
    List.getElem?_eq_getElem h2] at h
  exact (List.Nodup.getElem_inj_iff hs).1 (by simpa using h)

theorem alGet_zip {vs : List Node} (hn : vs.Nodup) : ∀ (xs : List ERat), vs.length = xs.length →
    ∀ (i : Nat) (h1 : i < vs.length) (h2 : i < xs.length), alGet (vs.zip xs) none vs[i] = xs[i] := by
  induction vs with
  | nil => intro xs _ i h1; cases h1
  | cons v vs ih =>
    intro xs hl i h1 h2
    cases xs with
    | nil => cases h2
    | cons x xs =>
      rw [List.nodup_cons] at hn
      cases i with
      | zero => simp [alGet]
      | succ i =>
        simp only [List.zip_cons_cons, List.getElem_cons_succ, alGet]
        have hne : v ≠ vs[i]'(by simpa using h1) := by
          intro h; apply hn.1; rw [h]; exact List.getElem_mem _
        rw [if_neg hne]
        exact ih hn.2 xs (by simpa using hl) i _ _

theorem alGet_zip_not_mem {vs : List Node} {v : Node} (h : v ∉ vs) (xs : List ERat) : alGet (vs.zip xs) none v = none := by
  induction vs generalizing xs with
  | nil => rfl
  | cons w vs ih =>
    cases xs with
    | nil => rfl
    | cons x xs =>
      rw [List.mem_cons, not_or] at h
      simp only [List.zip_cons_cons, alGet]
      rw [if_neg (fun hw => h.1 hw.symm)]
      exact ih h.2 xs

/-! ### the dispatch of `fast_SIR` and the per-edge rule -/

/-- the nested time functions of `fast_SIR` (`trans_time_fxn`, `rec_time_fxn`, EoN/simulation.py:2296-2309) have the
same body: `rate = …; if rate > 0: return random.expovariate(rate) else: return float('Inf')` -/
def timeOfRate (e : Except String Rat) : TM ERat := do
  let r_1 ← PyTM.liftE e
  if decide (r_1 > 0) then do
    let d_1 ← TM.popExpo r_1
    pure (some d_1)
  else do
    pure (none : ERat)

/-- the rule `fast_SIR` builds from separate time functions -/
def perEdgeRule (tau gamma : Rat) (tw : Option Rate2) (rw : Option Rate1) :
    Node → List Node → TM (List (Node × ERat) × ERat) :=
  fun node sus => find_trans_and_rec_delays_SIR node sus
    (fun u v => timeOfRate ((get_rate_functions tau gamma tw rw).1 u v))
    (fun u => timeOfRate ((get_rate_functions tau gamma tw rw).2 u))

/-- the constant-`tau` rule -/
def constRule (exp : Rat → Rat) (tau gamma : Rat) (tw : Option Rate2) (rw : Option Rate1) :
    Node → List Node → TM (List (Node × ERat) × ERat) :=
  fun node sus => const_trans exp node sus tau (get_rate_functions tau gamma tw rw).2

theorem fast_SIR_rule_eq (exp : Rat → Rat) (tau gamma : Rat) (tw : Option Rate2) (rw : Option Rate1) :
    fast_SIR_rule exp tau gamma tw rw =
      if tw = none ∧ tau * gamma ≠ 0 then constRule exp tau gamma tw rw else perEdgeRule tau gamma tw rw := by
  unfold fast_SIR_rule
  cases tw with
  | some w => simp only [Option.isSome_some, Bool.true_or, if_true, reduceCtorEq, false_and, if_false]; rfl
  | none =>
    by_cases h : tau * gamma = 0
    · simp only [h, Option.isSome_none, decide_true, Bool.or_true, if_true, ne_eq, not_true_eq_false, and_false,
        if_false]; rfl
    · simp only [h, Option.isSome_none, decide_false, Bool.or_false, ne_eq, not_false_eq_true, and_self, if_true]
      rfl

/-- `x` is what a time function returns at rate `r`: a drawn value iff `r > 0`, else `∞` -/
def Fits (r : Rat) (x : ERat) : Prop := (0 < r ↔ x.isSome = true)

/-- the draws consumed for the returned values `xs` (`∞` is not drawn) -/
def drawsOf (xs : List ERat) : List Draw := xs.filterMap fun x => x.map Draw.expo

/-- the calls logged for the rates `rs` (only positive rates are passed to `random.expovariate`) -/
def callsOf (rs : List Rat) : List Call := (rs.filter fun r => decide (0 < r)).map Call.expo

theorem timeOfRate_ok {r : Rat} {x : ERat} (h : Fits r x) (rest : List Draw) (tr : Array Call) :
    timeOfRate (.ok r) ⟨drawsOf [x] ++ rest, tr⟩ = .ok (x, ⟨rest, tr ++ (callsOf [r]).toArray⟩) := by
  unfold timeOfRate
  rw [GenESIR.liftE_ok_eq_pure, pure_bind]
  unfold Fits at h
  cases x with
  | none =>
    have hr : ¬ 0 < r := by intro h'; have := h.1 h'; simp at this
    simp [hr, drawsOf, callsOf, tm_pure]
  | some d =>
    have hr : 0 < r := h.2 rfl
    have hr0 : r ≠ 0 := ne_of_gt hr
    simp only [gt_iff_lt, hr, decide_true, if_true]
    have : drawsOf [some d] ++ rest = Draw.expo d :: rest := rfl
    have hc : callsOf [r] = [Call.expo r] := by simp [callsOf, hr]
    rw [this, tm_bind_ok (popExpo_cons hr0 d rest tr), hc, ← push_eq]
    rfl

theorem timeOfRate_error (e : String) (ts : TapeSt) : timeOfRate (.error e) ts = .error e := by
  unfold timeOfRate
  rw [tm_bind_err (liftE_error e ts)]

theorem timeOfRate_nonpos {r : Rat} (h : ¬ 0 < r) (ts : TapeSt) : timeOfRate (.ok r) ts = .ok (none, ts) := by
  unfold timeOfRate
  rw [GenESIR.liftE_ok_eq_pure, pure_bind]
  simp [h, tm_pure]

theorem timeOfRate_pos {r : Rat} (h : 0 < r) (d : Rat) (rest : List Draw) (tr : Array Call) :
    timeOfRate (.ok r) ⟨Draw.expo d :: rest, tr⟩ = .ok (some d, ⟨rest, tr.push (.expo r)⟩) := by
  have := timeOfRate_ok (r := r) (x := some d) (by simp [Fits, h]) rest tr
  have hc : callsOf [r] = [Call.expo r] := by simp [callsOf, h]
  rw [hc, ← push_eq] at this
  exact this

theorem drawsOf_cons (x : ERat) (xs : List ERat) : drawsOf (x :: xs) = drawsOf [x] ++ drawsOf xs := by
  cases x <;> simp [drawsOf]

theorem callsOf_cons (r : Rat) (rs : List Rat) : callsOf (r :: rs) = callsOf [r] ++ callsOf rs := by
  unfold callsOf
  by_cases h : 0 < r <;> simp [h]

/-- the body of the loop `for target in sus_neighbors: trans_delay[target] = trans_time_fxn(node, target)` -/
def feBody (trf : Rate2) (u : Node) (acc : List (Node × ERat)) (v : Node) : TM (List (Node × ERat)) :=
  timeOfRate (trf u v) >>= fun x_1 => pure (alSet acc v x_1)

theorem fe_loop (trf : Rate2) (u : Node) : ∀ (sus : List Node) (rs : List Rat) (xs : List ERat)
    (acc : List (Node × ERat)) (rest : List Draw) (tr : Array Call),
    List.Forall₂ (fun v r => trf u v = .ok r) sus rs → List.Forall₂ Fits rs xs →
    sus.foldlM (feBody trf u) acc ⟨drawsOf xs ++ rest, tr⟩ =
      .ok (dictOf acc sus xs, ⟨rest, tr ++ (callsOf rs).toArray⟩) := by
  intro sus
  induction sus with
  | nil =>
    intro rs xs acc rest tr h1 h2
    cases h1; cases h2
    simp [drawsOf, callsOf, dictOf, tm_pure]
  | cons v sus ih =>
    intro rs xs acc rest tr h1 h2
    cases h1 with
    | cons hr h1 =>
      cases h2 with
      | cons hx h2 =>
        rename_i r rs x xs
        rw [List.foldlM_cons]
        have hb : feBody trf u acc v ⟨drawsOf (x :: xs) ++ rest, tr⟩ =
            .ok (alSet acc v x, ⟨drawsOf xs ++ rest, tr ++ (callsOf [r]).toArray⟩) := by
          unfold feBody
          rw [hr, drawsOf_cons, List.append_assoc, tm_bind_ok (timeOfRate_ok hx _ tr)]
          rfl
        rw [tm_bind_ok hb, ih rs xs _ rest _ h1 h2, callsOf_cons r rs, append_append]
        rfl

/-- **`_find_trans_and_rec_delays_SIR_` with `fast_SIR`'s time functions** on a tape of the right shape: the
duration is read first (if its rate is positive), then one delay per susceptible neighbour in order (if its rate is
positive); nothing else is consumed -/
theorem find_delays_ok (trf : Rate2) (rrf : Rate1) (u : Node) (sus : List Node) {ru : Rat} (hru : rrf u = .ok ru)
    (rs : List Rat) (hrs : List.Forall₂ (fun v r => trf u v = .ok r) sus rs) {dur : ERat} (hdur : Fits ru dur)
    (xs : List ERat) (hxs : List.Forall₂ Fits rs xs) (rest : List Draw) (tr : Array Call) :
    find_trans_and_rec_delays_SIR u sus (fun a b => timeOfRate (trf a b)) (fun a => timeOfRate (rrf a))
        ⟨drawsOf (dur :: xs) ++ rest, tr⟩ =
      .ok ((dictOf [] sus xs, dur), ⟨rest, tr ++ (callsOf (ru :: rs)).toArray⟩) := by
  unfold find_trans_and_rec_delays_SIR
  dsimp only
  rw [hru, drawsOf_cons, List.append_assoc, tm_bind_ok (timeOfRate_ok hdur _ tr)]
  have := fe_loop trf u sus rs xs [] rest (tr ++ (callsOf [ru]).toArray) hrs hxs
  unfold feBody at this
  rw [tm_bind_ok this, callsOf_cons ru rs, append_append]
  rfl

theorem perEdgeRule_ok (tau gamma : Rat) (tw : Option Rate2) (rw : Option Rate1) (u : Node) (sus : List Node)
    {ru : Rat} (hru : (get_rate_functions tau gamma tw rw).2 u = .ok ru) (rs : List Rat)
    (hrs : List.Forall₂ (fun v r => (get_rate_functions tau gamma tw rw).1 u v = .ok r) sus rs)
    {dur : ERat} (hdur : Fits ru dur) (xs : List ERat) (hxs : List.Forall₂ Fits rs xs) (rest : List Draw)
    (tr : Array Call) :
    perEdgeRule tau gamma tw rw u sus ⟨drawsOf (dur :: xs) ++ rest, tr⟩ =
      .ok ((dictOf [] sus xs, dur), ⟨rest, tr ++ (callsOf (ru :: rs)).toArray⟩) :=
  find_delays_ok _ _ u sus hru rs hrs hdur xs hxs rest tr

theorem find_delays_rate_error (trf : Rate2) (rrf : Rate1) (u : Node) (sus : List Node) {e : String}
    (hru : rrf u = .error e) (ts : TapeSt) :
    find_trans_and_rec_delays_SIR u sus (fun a b => timeOfRate (trf a b)) (fun a => timeOfRate (rrf a)) ts =
      .error e := by
  unfold find_trans_and_rec_delays_SIR
  dsimp only
  rw [hru, tm_bind_err (timeOfRate_error e ts)]

/-! ### tape determinisation -/

/-- what a rule returns -/
abbrev Res := List (Node × ERat) × ERat

/-- a computation in the tape monad which does not look at the tape -/
def Indep {α : Type} (x : TM α) : Prop := ∃ e : Except String α, x = PyTM.liftE e

theorem indep_pure {α : Type} (a : α) : Indep (pure a : TM α) := ⟨.ok a, rfl⟩

theorem indep_liftE {α : Type} (e : Except String α) : Indep (PyTM.liftE e) := ⟨e, rfl⟩

theorem indep_bind {α β : Type} {x : TM α} {f : α → TM β} (hx : Indep x) (hf : ∀ a, Indep (f a)) :
    Indep (x >>= f) := by
  obtain ⟨e, rfl⟩ := hx
  cases e with
  | error m => exact ⟨.error m, rfl⟩
  | ok a =>
    obtain ⟨e', he'⟩ := hf a
    exact ⟨e', by rw [GenESIR.liftE_ok_eq_pure, pure_bind, he']⟩

theorem indep_ite {α : Type} {c : Prop} [Decidable c] {x y : TM α} (hx : Indep x) (hy : Indep y) :
    Indep (if c then x else y) := by
  split
  · exact hx
  · exact hy

theorem indep_foldlM {α β : Type} {f : β → α → TM β} (hf : ∀ b a, Indep (f b a)) :
    ∀ (l : List α) (b : β), Indep (l.foldlM f b) := by
  intro l
  induction l with
  | nil => intro b; exact indep_pure b
  | cons a l ih =>
    intro b
    rw [List.foldlM_cons]
    exact indep_bind (hf b a) ih

theorem Indep.elim {α : Type} {x : TM α} (h : Indep x) {ts ts' : TapeSt} {a : α} (hx : x ts = .ok (a, ts')) :
    ts' = ts ∧ ∀ ts0, x ts0 = .ok (a, ts0) := by
  obtain ⟨e, rfl⟩ := h
  cases e with
  | error m => cases hx
  | ok b =>
    injection hx with hx
    injection hx with h1 h2
    subst h1 h2
    exact ⟨rfl, fun _ => rfl⟩

theorem foldlM_inv {α β : Type} {f : β → α → TM β} (P : β → Prop)
    (hf : ∀ b a ts b' ts', f b a ts = .ok (b', ts') → P b → P b') :
    ∀ (l : List α) (b : β) (ts : TapeSt) (b' : β) (ts' : TapeSt), l.foldlM f b ts = .ok (b', ts') → P b → P b' := by
  intro l
  induction l with
  | nil =>
    intro b ts b' ts' h hb
    injection h with h; injection h with h1 h2; subst h1; exact hb
  | cons a l ih =>
    intro b ts b' ts' h hb
    rw [List.foldlM_cons] at h
    cases h1 : f b a ts with
    | error e => rw [tm_bind_err h1] at h; cases h
    | ok r =>
      obtain ⟨b1, t1⟩ := r
      rw [tm_bind_ok h1] at h
      exact ih b1 t1 b' ts' h (hf b a ts b1 t1 h1 hb)

/-- the part of `_process_trans_SIR_` before the rule is called (bookkeeping; `IndexError` only) -/
def preRule (time : ERat) (source : Option Node) (target : Node) (σ : Loc) : Except String Loc := do
  let σ := { σ with status := fset σ.status target St.I }
  let σ := { σ with times := σ.times ++ [time] }
  let σ := { σ with transmissions := σ.transmissions ++ [(time, source, target)] }
  let v_1 ← PyTM.listLast σ.S
  let σ := { σ with S := σ.S ++ [(v_1 - 1)] }
  let v_2 ← PyTM.listLast σ.I
  let σ := { σ with I := σ.I ++ [(v_2 + 1)] }
  let v_3 ← PyTM.listLast σ.R
  let σ := { σ with R := σ.R ++ [v_3] }
  pure σ

/-- the part after the rule has returned `jr`: the recovery and the transmissions are queued -/
def postRule (time : ERat) (target : Node) (σ : Loc) (jr : Res) : TM Loc := do
  let (trans_delay, rec_delay) := jr
  let σ := { σ with rec_time := fset σ.rec_time target (ERat.add time rec_delay) }
  let σ ← (if (ERat.le (σ.rec_time target) σ.Q.tmax) then do
    let σ := { σ with Q := MyQueue.add σ.Q (σ.rec_time target) (Ev.recov target) }
    pure σ
  else do
    pure σ)
  let σ ← (trans_delay.map (·.1)).foldlM (fun (σ : Loc) (v : Node) => do
    let dl_5 ← PyTM.liftE (PyRT.dictGet trans_delay v)
    let inf_time := (ERat.add time dl_5)
    let σ ← (if ((ERat.le inf_time (σ.rec_time target)) && (ERat.lt inf_time (σ.pred_inf_time v)) && (ERat.le inf_time σ.Q.tmax)) then do
      let σ := { σ with Q := MyQueue.add σ.Q inf_time (Ev.trans (some target) v) }
      let σ := { σ with pred_inf_time := fset σ.pred_inf_time v inf_time }
      pure σ
    else do
      pure σ)
    pure σ) σ
  pure σ

/-- the argument the rule is called with -/
def susOf (A : EArgs) (target : Node) (σ : Loc) : List Node :=
  (A.nbrs target).filter (fun v => decide (σ.status v = St.S))

theorem liftE_bind {α β : Type} (e : Except String α) (f : α → Except String β) :
    PyTM.liftE (e >>= f) = PyTM.liftE e >>= fun a => PyTM.liftE (f a) := by
  cases e <;> rfl

theorem process_trans_eq (A : EArgs) (time : ERat) (source : Option Node) (target : Node) (σ : Loc) :
    process_trans A time source target σ =
      if σ.status target = St.S then
        PyTM.liftE (preRule time source target σ) >>= fun σ1 =>
          A.transRec target (susOf A target σ1) >>= fun jr => postRule time target σ1 jr
      else pure σ := by
  unfold process_trans
  by_cases h : σ.status target = St.S
  · simp only [h, decide_true, if_true, preRule, liftE_bind, bind_assoc, GenESIR.liftE_pure, pure_bind]
    rfl
  · simp only [h, decide_false, if_false]
    rfl

theorem indep_postRule (time : ERat) (target : Node) (σ : Loc) (jr : Res) : Indep (postRule time target σ jr) := by
  obtain ⟨td, rd⟩ := jr
  unfold postRule
  dsimp only
  refine indep_bind (indep_ite (indep_pure _) (indep_pure _)) ?_
  intro σ1
  refine indep_foldlM ?_ _ _
  intro σ2 v
  refine indep_bind (indep_liftE _) ?_
  intro dl
  exact indep_ite (indep_pure _) (indep_pure _)

theorem postRule_status {time : ERat} {target : Node} {σ : Loc} {jr : Res} {ts : TapeSt} {σ' : Loc} {ts' : TapeSt}
    (h : postRule time target σ jr ts = .ok (σ', ts')) : σ'.status = σ.status := by
  obtain ⟨td, rd⟩ := jr
  unfold postRule at h
  dsimp only at h
  split at h
  all_goals
    rw [pure_bind] at h
    refine foldlM_inv (fun τ : Loc => τ.status = σ.status) ?_ _ _ _ _ _ h rfl
    intro b a t b' t' hb hP
    cases hd : PyRT.dictGet td a with
    | error e => rw [hd, tm_bind_err (liftE_error e t)] at hb; cases hb
    | ok dl =>
      rw [hd, GenESIR.liftE_ok_eq_pure, pure_bind] at hb
      try dsimp only at hb
      split at hb
      all_goals
        injection hb with hb; injection hb with h1 h2; subst h1; exact hP

theorem preRule_status {time : ERat} {source : Option Node} {target : Node} {σ σ1 : Loc}
    (h : preRule time source target σ = .ok σ1) : σ1.status = fset σ.status target St.I := by
  unfold preRule at h
  dsimp only at h
  cases h1 : PyTM.listLast σ.S with
  | error e => rw [h1] at h; cases h
  | ok v1 =>
    cases h2 : PyTM.listLast σ.I with
    | error e => rw [h1, h2] at h; cases h
    | ok v2 =>
      cases h3 : PyTM.listLast σ.R with
      | error e => rw [h1, h2, h3] at h; cases h
      | ok v3 =>
        rw [h1, h2, h3] at h
        injection h with h
        subst h
        rfl

/-- one call of the rule: node, argument, returned value -/
abbrev RuleCall := Node × List Node × Res

/-- the rule `R` was called successively with these arguments and returned these values; the tape is threaded through
the calls and nothing else touches it -/
def Chain (R : Node → List Node → TM Res) : TapeSt → List RuleCall → TapeSt → Prop
  | ts, [], ts' => ts' = ts
  | ts, c :: cs, ts' => ∃ t1, R c.1 c.2.1 ts = .ok (c.2.2, t1) ∧ Chain R t1 cs ts'

theorem Chain.append {R : Node → List Node → TM Res} : ∀ {cs : List RuleCall} {ts t1 : TapeSt} {cs' : List RuleCall}
    {ts' : TapeSt}, Chain R ts cs t1 → Chain R t1 cs' ts' → Chain R ts (cs ++ cs') ts' := by
  intro cs
  induction cs with
  | nil => intro ts t1 cs' ts' h1 h2; cases h1; exact h2
  | cons c cs ih =>
    intro ts t1 cs' ts' h1 h2
    obtain ⟨t, e, h1⟩ := h1
    exact ⟨t, e, ih h1 h2⟩

/-- the same arguments with another rule -/
def withRule (A : EArgs) (R : Node → List Node → TM Res) : EArgs := { A with transRec := R }

/-- a pure (tape-independent) rule -/
def pureRule (J : Node → List Node → Res) : Node → List Node → TM Res := fun u sus => pure (J u sus)

/-- what one event does to the rule-call log -/
structure StepDet (A : EArgs) (σ : Loc) (ts : TapeSt) (σ' : Loc) (ts' : TapeSt) (calls : List RuleCall) : Prop where
  chain : Chain A.transRec ts calls ts'
  len : calls.length ≤ 1
  called : ∀ c ∈ calls, σ.status c.1 = St.S ∧ σ'.status c.1 ≠ St.S ∧ ∃ p, c.2.1 = (A.nbrs c.1).filter p
  mono : ∀ v, σ'.status v = St.S → σ.status v = St.S

/-- **one-step determinisation**: a call of `_process_trans_SIR_` with an effectful rule equals the call with any pure
rule that returns the drawn value at the (at most one) argument the rule was called with -/
theorem process_trans_det' (A : EArgs) (time : ERat) (source : Option Node) (target : Node) (σ : Loc) (ts : TapeSt)
    (σ' : Loc) (ts' : TapeSt) (h : process_trans A time source target σ ts = .ok (σ', ts')) :
    ∃ calls, (StepDet A σ ts σ' ts' calls ∧ ∀ c ∈ calls, c.1 = target) ∧
      ∀ J, (∀ c ∈ calls, J c.1 c.2.1 = c.2.2) → ∀ ts0,
        process_trans (withRule A (pureRule J)) time source target σ ts0 = .ok (σ', ts0) := by
  rw [process_trans_eq] at h
  by_cases hst : σ.status target = St.S
  · rw [if_pos hst] at h
    cases hp : preRule time source target σ with
    | error e => rw [hp, tm_bind_err (liftE_error e ts)] at h; cases h
    | ok σ1 =>
      rw [hp, GenESIR.liftE_ok_eq_pure, pure_bind] at h
      cases hr : A.transRec target (susOf A target σ1) ts with
      | error e => rw [tm_bind_err hr] at h; cases h
      | ok r =>
        obtain ⟨jr, t1⟩ := r
        rw [tm_bind_ok hr] at h
        obtain ⟨e1, e2⟩ := (indep_postRule time target σ1 jr).elim h
        subst e1
        have hs1 := preRule_status hp
        have hs' := postRule_status h
        refine ⟨[(target, susOf A target σ1, jr)], ⟨⟨⟨_, hr, rfl⟩, le_refl _, ?_, ?_⟩,
          fun c hc => by rw [List.mem_singleton.1 hc]⟩, ?_⟩
        · intro c hc
          rw [List.mem_singleton] at hc
          subst hc
          refine ⟨hst, ?_, _, rfl⟩
          rw [hs', hs1]; simp [fset]
        · intro v hv
          rw [hs', hs1] at hv
          unfold fset at hv
          split at hv
          · cases hv
          · exact hv
        · intro J hJ ts0
          have hJ' : J target (susOf A target σ1) = jr := hJ _ (List.mem_singleton.2 rfl)
          rw [process_trans_eq, if_pos hst, hp, GenESIR.liftE_ok_eq_pure, pure_bind]
          show (pureRule J target (susOf A target σ1) >>= fun jr => postRule time target σ1 jr) ts0 = _
          unfold pureRule
          rw [pure_bind, hJ']
          exact e2 ts0
  · rw [if_neg hst] at h
    injection h with h; injection h with h1 h2; subst h1 h2
    refine ⟨[], ⟨⟨rfl, Nat.zero_le _, ?_, fun v hv => hv⟩, fun c hc => by cases hc⟩, ?_⟩
    · intro c hc; cases hc
    · intro J _ ts0
      rw [process_trans_eq, if_neg hst]
      rfl

theorem indep_process_rec (A : EArgs) (time : ERat) (node : Node) (σ : Loc) : Indep (process_rec A time node σ) := by
  unfold process_rec
  dsimp only
  refine indep_bind (indep_liftE _) fun v1 => indep_bind (indep_liftE _) fun v2 => indep_bind (indep_liftE _) fun v3 => ?_
  exact indep_pure _

theorem process_rec_status {A : EArgs} {time : ERat} {node : Node} {σ : Loc} {ts : TapeSt} {σ' : Loc} {ts' : TapeSt}
    (h : process_rec A time node σ ts = .ok (σ', ts')) : σ'.status = fset σ.status node St.R := by
  unfold process_rec at h
  dsimp only at h
  cases h1 : PyTM.listLast σ.S with
  | error e => rw [h1, tm_bind_err (liftE_error e ts)] at h; cases h
  | ok v1 =>
    rw [h1, GenESIR.liftE_ok_eq_pure, pure_bind] at h
    cases h2 : PyTM.listLast σ.I with
    | error e => rw [h2, tm_bind_err (liftE_error e ts)] at h; cases h
    | ok v2 =>
      rw [h2, GenESIR.liftE_ok_eq_pure, pure_bind] at h
      cases h3 : PyTM.listLast σ.R with
      | error e => rw [h3, tm_bind_err (liftE_error e ts)] at h; cases h
      | ok v3 =>
        rw [h3, GenESIR.liftE_ok_eq_pure, pure_bind] at h
        injection h with h; injection h with h1 h2
        subst h1
        rfl

theorem pop_and_run_det (A : EArgs) (σ : Loc) (ts : TapeSt) (σ' : Loc) (ts' : TapeSt)
    (h : pop_and_run A σ ts = .ok (σ', ts')) :
    ∃ calls, StepDet A σ ts σ' ts' calls ∧
      ∀ J, (∀ c ∈ calls, J c.1 c.2.1 = c.2.2) → ∀ ts0,
        pop_and_run (withRule A (pureRule J)) σ ts0 = .ok (σ', ts0) := by
  unfold pop_and_run at h
  cases hp : MyQueue.popMin σ.Q with
  | error e => rw [hp, tm_bind_err (liftE_error e ts)] at h; cases h
  | ok r =>
    obtain ⟨m, q⟩ := r
    rw [hp, GenESIR.liftE_ok_eq_pure, pure_bind] at h
    dsimp only at h
    cases hev : m.2.2 with
    | trans source target =>
      rw [hev] at h
      dsimp only at h
      obtain ⟨calls, ⟨hS, _⟩, hJ⟩ := process_trans_det' A m.1 source target { σ with Q := q } ts σ' ts' h
      refine ⟨calls, ⟨hS.chain, hS.len, hS.called, hS.mono⟩, ?_⟩
      intro J hJ' ts0
      unfold pop_and_run
      rw [hp, GenESIR.liftE_ok_eq_pure, pure_bind]
      dsimp only
      rw [hev]
      exact hJ J hJ' ts0
    | recov node =>
      rw [hev] at h
      dsimp only at h
      obtain ⟨e1, e2⟩ := (indep_process_rec A m.1 node { σ with Q := q }).elim h
      subst e1
      have hs := process_rec_status h
      refine ⟨[], ⟨rfl, Nat.zero_le _, ?_, ?_⟩, ?_⟩
      · intro c hc; cases hc
      · intro v hv
        rw [hs] at hv
        unfold fset at hv
        split at hv
        · cases hv
        · exact hv
      · intro J _ ts0
        unfold pop_and_run
        rw [hp, GenESIR.liftE_ok_eq_pure, pure_bind]
        dsimp only
        rw [hev]
        exact e2 ts0

theorem loop_det (A : EArgs) : ∀ (fuel : Nat) (σ : Loc) (ts : TapeSt) (σ' : Loc) (ts' : TapeSt),
    loop A fuel σ ts = .ok (σ', ts') →
    ∃ calls, Chain A.transRec ts calls ts' ∧ (calls.map (·.1)).Nodup ∧
      (∀ c ∈ calls, σ.status c.1 = St.S ∧ ∃ p, c.2.1 = (A.nbrs c.1).filter p) ∧
      ∀ J, (∀ c ∈ calls, J c.1 c.2.1 = c.2.2) → ∀ ts0,
        loop (withRule A (pureRule J)) fuel σ ts0 = .ok (σ', ts0) := by
  intro fuel
  induction fuel with
  | zero => intro σ ts σ' ts' h; cases h
  | succ fuel ih =>
    intro σ ts σ' ts' h
    by_cases hne : σ.Q.q = []
    · rw [loop_succ_empty A fuel σ hne] at h
      injection h with h; injection h with h1 h2; subst h1 h2
      refine ⟨[], rfl, List.nodup_nil, (by intro c hc; cases hc), ?_⟩
      intro J _ ts0
      rw [loop_succ_empty _ fuel σ hne]; rfl
    · rw [loop_succ_nonempty A fuel σ hne] at h
      cases hp : pop_and_run A σ ts with
      | error e => rw [tm_bind_err hp] at h; cases h
      | ok r =>
        obtain ⟨σ1, t1⟩ := r
        rw [tm_bind_ok hp] at h
        obtain ⟨c1, hS, hJ1⟩ := pop_and_run_det A σ ts σ1 t1 hp
        obtain ⟨c2, hC2, hN2, hP2, hJ2⟩ := ih σ1 t1 σ' ts' h
        refine ⟨c1 ++ c2, hS.chain.append hC2, ?_, ?_, ?_⟩
        · rw [List.map_append, List.nodup_append]
          refine ⟨?_, hN2, ?_⟩
          · have := hS.len
            match c1, this with
            | [], _ => exact List.nodup_nil
            | [c], _ => simp
          · intro a ha b hb hab
            obtain ⟨ca, hca, rfl⟩ := List.mem_map.1 ha
            obtain ⟨cb, hcb, rfl⟩ := List.mem_map.1 hb
            have h1 := (hS.called ca hca).2.1
            have h2 := (hP2 cb hcb).1
            rw [hab] at h1
            exact h1 h2
        · intro c hc
          rcases List.mem_append.1 hc with hc | hc
          · exact ⟨(hS.called c hc).1, (hS.called c hc).2.2⟩
          · exact ⟨hS.mono _ (hP2 c hc).1, (hP2 c hc).2⟩
        · intro J hJ ts0
          rw [loop_succ_nonempty _ fuel σ hne,
            tm_bind_ok (hJ1 J (fun c hc => hJ c (List.mem_append_left _ hc)) ts0)]
          exact hJ2 J (fun c hc => hJ c (List.mem_append_right _ hc)) ts0

/-- **tape determinisation of `fast_nonMarkov_SIR`** for an arbitrary effectful rule: a successful run called the rule
at most once per node; the calls consumed the tape one after the other (`Chain`) and nothing else touched it; the run
with any PURE rule that returns the drawn values at the arguments of these calls returns the same objects, on any tape -/
theorem run_det (A : EArgs) (infs recs : List Node) (fuel : Nat) (ts : TapeSt) (σ : Loc) (ts' : TapeSt)
    (h : run A infs recs fuel ts = .ok (σ, ts')) :
    ∃ calls, Chain A.transRec ts calls ts' ∧ (calls.map (·.1)).Nodup ∧
      (∀ c ∈ calls, ∃ p, c.2.1 = (A.nbrs c.1).filter p) ∧
      ∀ J, (∀ c ∈ calls, J c.1 c.2.1 = c.2.2) → ∀ ts0,
        run (withRule A (pureRule J)) infs recs fuel ts0 = .ok (σ, ts0) := by
  rw [run_eq] at h
  cases hl : loop A fuel (genInit A infs recs) ts with
  | error e => rw [tm_bind_err hl] at h; cases h
  | ok r =>
    obtain ⟨σ1, t1⟩ := r
    rw [tm_bind_ok hl] at h
    injection h with h; injection h with h1 h2; subst h1 h2
    obtain ⟨calls, hC, hN, hP, hJ⟩ := loop_det A fuel _ ts σ1 t1 hl
    refine ⟨calls, hC, hN, fun c hc => (hP c hc).2, ?_⟩
    intro J hJ' ts0
    rw [run_eq]
    have : genInit (withRule A (pureRule J)) infs recs = genInit A infs recs := rfl
    rw [this, tm_bind_ok (hJ J hJ' ts0)]
    rfl

/-- the drawn values organised into a table indexed by the node -/
def tableOf (calls : List RuleCall) (u : Node) : Res :=
  match calls.find? (fun c => c.1 == u) with
  | some c => c.2.2
  | none => ([], none)

theorem tableOf_agrees : ∀ (calls : List RuleCall), (calls.map (·.1)).Nodup → ∀ c ∈ calls, tableOf calls c.1 = c.2.2 := by
  intro calls
  induction calls with
  | nil => intro _ c hc; cases hc
  | cons a calls ih =>
    intro hn c hc
    rw [List.map_cons, List.nodup_cons] at hn
    unfold tableOf
    rw [List.find?_cons]
    rcases List.mem_cons.1 hc with rfl | hc
    · simp
    · have hne : a.1 ≠ c.1 := by
        intro h; apply hn.1; rw [h]; exact List.mem_map.2 ⟨c, hc, rfl⟩
      have : (a.1 == c.1) = false := by simpa using hne
      rw [this]
      exact ih hn.2 c hc

theorem tableOf_none {calls : List RuleCall} {u : Node} (h : u ∉ calls.map (·.1)) : tableOf calls u = ([], none) := by
  unfold tableOf
  have : calls.find? (fun c => c.1 == u) = none := by
    rw [List.find?_eq_none]
    intro c hc hcu
    apply h
    exact List.mem_map.2 ⟨c, hc, by simpa using hcu⟩
  rw [this]

theorem tableOf_mem {calls : List RuleCall} {u : Node} (h : u ∈ calls.map (·.1)) :
    ∃ c ∈ calls, c.1 = u ∧ tableOf calls u = c.2.2 := by
  unfold tableOf
  cases hf : calls.find? (fun c => c.1 == u) with
  | none =>
    rw [List.find?_eq_none] at hf
    obtain ⟨c, hc, rfl⟩ := List.mem_map.1 h
    exact absurd (by simp) (hf c hc)
  | some c =>
    exact ⟨c, List.mem_of_find?_eq_some hf, by simpa using List.find?_some hf, rfl⟩

/-- the run depends on the rule only through a table `Node → Res` of the values it drew -/
theorem run_det_table (A : EArgs) (infs recs : List Node) (fuel : Nat) (ts : TapeSt) (σ : Loc) (ts' : TapeSt)
    (h : run A infs recs fuel ts = .ok (σ, ts')) :
    ∃ calls, Chain A.transRec ts calls ts' ∧ (calls.map (·.1)).Nodup ∧
      (∀ c ∈ calls, ∃ p, c.2.1 = (A.nbrs c.1).filter p) ∧
      ∀ ts0, run (withRule A (pureRule fun u _ => tableOf calls u)) infs recs fuel ts0 = .ok (σ, ts0) := by
  obtain ⟨calls, hC, hN, hP, hJ⟩ := run_det A infs recs fuel ts σ ts' h
  exact ⟨calls, hC, hN, hP, hJ _ (tableOf_agrees calls hN)⟩

/-! ### what a successful call of the per-edge rule returned (no assumption on the shape of the tape) -/

theorem timeOfRate_inv {e : Except String Rat} {ts : TapeSt} {x : ERat} {ts' : TapeSt}
    (h : timeOfRate e ts = .ok (x, ts')) :
    (x = none ∧ ts' = ts) ∨ ∃ d rest, ts.tape = Draw.expo d :: rest ∧ x = some d ∧ ts'.tape = rest := by
  cases e with
  | error m => rw [timeOfRate_error] at h; cases h
  | ok r =>
    by_cases hr : 0 < r
    · obtain ⟨tape, tr⟩ := ts
      cases tape with
      | nil =>
        unfold timeOfRate at h
        rw [GenESIR.liftE_ok_eq_pure, pure_bind] at h
        simp only [gt_iff_lt, hr, decide_true, if_true] at h
        rw [tm_bind_err (popExpo_nil (ne_of_gt hr) tr)] at h
        cases h
      | cons y rest =>
        by_cases hy : ∃ d, y = Draw.expo d
        · obtain ⟨d, rfl⟩ := hy
          rw [timeOfRate_pos hr] at h
          injection h with h; injection h with h1 h2
          right
          exact ⟨d, rest, rfl, h1.symm, by rw [← h2]⟩
        · unfold timeOfRate at h
          rw [GenESIR.liftE_ok_eq_pure, pure_bind] at h
          simp only [gt_iff_lt, hr, decide_true, if_true] at h
          rw [tm_bind_err (popExpo_kind (ne_of_gt hr) y (fun d hd => hy ⟨d, hd⟩) rest tr)] at h
          cases h
    · rw [timeOfRate_nonpos hr] at h
      injection h with h; injection h with h1 h2
      left
      exact ⟨h1.symm, h2.symm⟩

theorem timeOfRate_inv' {e : Except String Rat} {ts : TapeSt} {x : ERat} {ts' : TapeSt}
    (h : timeOfRate e ts = .ok (x, ts')) :
    (∀ d, x = some d → Draw.expo d ∈ ts.tape) ∧ ∀ y ∈ ts'.tape, y ∈ ts.tape := by
  rcases timeOfRate_inv h with ⟨rfl, rfl⟩ | ⟨d, rest, h1, rfl, h3⟩
  · exact ⟨fun d hd => (by cases hd), fun y hy => hy⟩
  · refine ⟨?_, ?_⟩
    · intro d' hd'; injection hd' with hd'; subst hd'; rw [h1]; exact List.mem_cons_self ..
    · intro y hy; rw [h1]; rw [h3] at hy; exact List.mem_cons_of_mem _ hy

theorem fe_loop_inv (trf : Rate2) (u : Node) : ∀ (sus : List Node) (acc : List (Node × ERat)) (ts : TapeSt)
    (res : List (Node × ERat)) (ts' : TapeSt), sus.foldlM (feBody trf u) acc ts = .ok (res, ts') →
    ∃ xs : List ERat, xs.length = sus.length ∧ res = dictOf acc sus xs ∧
      (∀ d, some d ∈ xs → Draw.expo d ∈ ts.tape) ∧ ∀ y ∈ ts'.tape, y ∈ ts.tape := by
  intro sus
  induction sus with
  | nil =>
    intro acc ts res ts' h
    injection h with h; injection h with h1 h2; subst h1 h2
    exact ⟨[], rfl, rfl, (by intro d hd; cases hd), fun y hy => hy⟩
  | cons v sus ih =>
    intro acc ts res ts' h
    rw [List.foldlM_cons] at h
    cases ht : timeOfRate (trf u v) ts with
    | error e =>
      have : feBody trf u acc v ts = .error e := by unfold feBody; rw [tm_bind_err ht]
      rw [tm_bind_err this] at h; cases h
    | ok r =>
      obtain ⟨x, t1⟩ := r
      have hb : feBody trf u acc v ts = .ok (alSet acc v x, t1) := by unfold feBody; rw [tm_bind_ok ht]; rfl
      rw [tm_bind_ok hb] at h
      obtain ⟨xs, h1, h2, h3, h4⟩ := ih _ t1 res ts' h
      obtain ⟨g1, g2⟩ := timeOfRate_inv' ht
      refine ⟨x :: xs, by simp [h1], by rw [h2]; rfl, ?_, fun y hy => g2 y (h4 y hy)⟩
      intro d hd
      rcases List.mem_cons.1 hd with hd | hd
      · exact g1 d hd.symm
      · exact g2 _ (h3 d hd)

/-- **a successful call of the per-edge rule** returned the susceptible neighbours zipped (through `alSet`) with values
that are `∞` or `expo` draws of the tape, and a duration of the same kind; the tape left over is a part of the tape -/
theorem find_delays_inv {trf : Rate2} {rrf : Rate1} {u : Node} {sus : List Node} {ts : TapeSt} {r : Res} {ts' : TapeSt}
    (h : find_trans_and_rec_delays_SIR u sus (fun a b => timeOfRate (trf a b)) (fun a => timeOfRate (rrf a)) ts =
      .ok (r, ts')) :
    ∃ xs : List ERat, xs.length = sus.length ∧ r.1 = dictOf [] sus xs ∧
      (∀ d, some d ∈ r.2 :: xs → Draw.expo d ∈ ts.tape) ∧ ∀ y ∈ ts'.tape, y ∈ ts.tape := by
  unfold find_trans_and_rec_delays_SIR at h
  dsimp only at h
  cases ht : timeOfRate (rrf u) ts with
  | error e => rw [tm_bind_err ht] at h; cases h
  | ok r0 =>
    obtain ⟨x0, t1⟩ := r0
    rw [tm_bind_ok ht] at h
    cases hl : sus.foldlM (feBody trf u) [] t1 with
    | error e =>
      unfold feBody at hl
      rw [tm_bind_err hl] at h; cases h
    | ok r1 =>
      obtain ⟨res, t2⟩ := r1
      obtain ⟨xs, h1, h2, h3, h4⟩ := fe_loop_inv trf u sus [] t1 res t2 hl
      unfold feBody at hl
      rw [tm_bind_ok hl] at h
      injection h with h; injection h with g1 g2
      subst g1 g2
      obtain ⟨k1, k2⟩ := timeOfRate_inv' ht
      refine ⟨xs, h1, h2, ?_, fun y hy => k2 y (h4 y hy)⟩
      intro d hd
      rcases List.mem_cons.1 hd with hd | hd
      · exact k1 d hd.symm
      · exact k2 _ (h3 d hd)

theorem map_alGet_zip : ∀ (vs : List Node) (xs : List ERat), vs.Nodup → vs.length = xs.length →
    vs.map (fun v => (v, alGet (vs.zip xs) none v)) = vs.zip xs := by
  intro vs
  induction vs with
  | nil => intro xs _ _; rfl
  | cons v vs ih =>
    intro xs hn hl
    cases xs with
    | nil => cases hl
    | cons x xs =>
      rw [List.nodup_cons] at hn
      rw [List.zip_cons_cons, List.map_cons]
      congr 1
      · simp [alGet]
      · rw [← ih xs hn.2 (by simpa using hl)]
        apply List.map_congr_left
        intro w hw
        have hne : v ≠ w := by rintro rfl; exact hn.1 hw
        simp only [alGet, if_neg hne]
        rw [ih xs hn.2 (by simpa using hl)]

/-- the values in the tape are non-negative (as `random.expovariate` guarantees) -/
def TapeNonneg (ts : TapeSt) : Prop := ∀ d, Draw.expo d ∈ ts.tape → 0 ≤ d

/-- a returned value is a table row: its keys are the argument, its finite values are non-negative -/
def RowOK (c : RuleCall) : Prop :=
  c.2.2.1 = c.2.1.map (fun v => (v, alGet c.2.2.1 none v)) ∧
  (∀ p ∈ c.2.2.1, ∀ d, p.2 = some d → 0 ≤ d) ∧ ∀ d, c.2.2.2 = some d → 0 ≤ d

theorem perEdge_rowOK {tau gamma : Rat} {tw : Option Rate2} {rw : Option Rate1} {u : Node} {sus : List Node}
    {ts : TapeSt} {r : Res} {ts' : TapeSt} (h : perEdgeRule tau gamma tw rw u sus ts = .ok (r, ts'))
    (hs : sus.Nodup) (hn : TapeNonneg ts) : TapeNonneg ts' ∧ RowOK (u, sus, r) := by
  obtain ⟨xs, h1, h2, h3, h4⟩ := find_delays_inv h
  refine ⟨fun d hd => hn d (h4 _ hd), ?_, ?_, ?_⟩
  · show r.1 = sus.map (fun v => (v, alGet r.1 none v))
    rw [h2, dictOf_nil_nodup sus xs h1.symm hs, map_alGet_zip sus xs hs h1.symm]
  · intro p hp d hd
    rw [h2] at hp
    rcases mem_dictOf sus xs [] p hp with hp | ⟨_, hp⟩
    · cases hp
    · rw [hd] at hp
      exact hn d (h3 d (List.mem_cons_of_mem _ hp))
  · intro d hd
    exact hn d (h3 d (by rw [hd]; exact List.mem_cons_self ..))

theorem Chain.forall {R : Node → List Node → TM Res} {I : TapeSt → Prop} {Pre Q : RuleCall → Prop}
    (hR : ∀ u sus ts r ts', I ts → Pre (u, sus, r) → R u sus ts = .ok (r, ts') → I ts' ∧ Q (u, sus, r)) :
    ∀ {calls : List RuleCall} {ts ts' : TapeSt}, Chain R ts calls ts' → I ts → (∀ c ∈ calls, Pre c) →
      I ts' ∧ ∀ c ∈ calls, Q c := by
  intro calls
  induction calls with
  | nil => intro ts ts' h hI _; cases h; exact ⟨hI, by intro c hc; cases hc⟩
  | cons c calls ih =>
    intro ts ts' h hI hP
    obtain ⟨t1, e, h⟩ := h
    obtain ⟨u, sus, r⟩ := c
    obtain ⟨hI1, hQ⟩ := hR u sus ts r t1 hI (hP _ (List.mem_cons_self ..)) e
    obtain ⟨hI', hQ'⟩ := ih h hI1 (fun c hc => hP c (List.mem_cons_of_mem _ hc))
    refine ⟨hI', ?_⟩
    intro c hc
    rcases List.mem_cons.1 hc with rfl | hc
    · exact hQ
    · exact hQ' c hc

/-- the delay table read off the rule-call log (`∞` where the rule was not asked) -/
def delayOf (calls : List RuleCall) (u v : Node) : ERat := alGet (tableOf calls u).1 none v

/-- the duration table read off the rule-call log -/
def durOf (calls : List RuleCall) (u : Node) : ERat := (tableOf calls u).2

theorem jointOfTables_agrees {calls : List RuleCall} (hN : (calls.map (·.1)).Nodup) (hrow : ∀ c ∈ calls, RowOK c) :
    ∀ c ∈ calls, jointOfTables (delayOf calls) (durOf calls) c.1 c.2.1 = c.2.2 := by
  intro c hc
  unfold jointOfTables delayOf durOf
  rw [tableOf_agrees calls hN c hc, ← (hrow c hc).1]

theorem delayOf_nonneg {calls : List RuleCall} (hrow : ∀ c ∈ calls, RowOK c) (u v : Node) (d : Rat)
    (h : delayOf calls u v = some d) : 0 ≤ d := by
  unfold delayOf at h
  by_cases hu : u ∈ calls.map (·.1)
  · obtain ⟨c, hc, _, e⟩ := tableOf_mem hu
    rw [e] at h
    have hmem : ∀ (l : List (Node × ERat)), alGet l none v = some d → (v, some d) ∈ l := by
      intro l
      induction l with
      | nil => intro h; cases h
      | cons a l ih =>
        intro h
        obtain ⟨k, w⟩ := a
        unfold alGet at h
        split at h
        · rename_i hk; rw [hk, h]; exact List.mem_cons_self ..
        · exact List.mem_cons_of_mem _ (ih h)
    exact (hrow c hc).2.1 _ (hmem _ h) d rfl
  · rw [tableOf_none hu] at h
    cases h

theorem durOf_nonneg {calls : List RuleCall} (hrow : ∀ c ∈ calls, RowOK c) (u : Node) (d : Rat)
    (h : durOf calls u = some d) : 0 ≤ d := by
  unfold durOf at h
  by_cases hu : u ∈ calls.map (·.1)
  · obtain ⟨c, hc, _, e⟩ := tableOf_mem hu
    rw [e] at h
    exact (hrow c hc).2.2 d h
  · rw [tableOf_none hu] at h
    cases h

/-! ### `fast_SIR` -/

/-- the arguments `fast_SIR` hands to `fast_nonMarkov_SIR` -/
def fsirArgs (exp : Rat → Rat) (nbrs : Node → List Node) (n : Nat) (tmin : Rat) (tmax : ERat) (tau gamma : Rat)
    (tw : Option Rate2) (rw : Option Rate1) : EArgs :=
  { nbrs := nbrs, order := n, tmin := tmin, tmax := tmax, transRec := fast_SIR_rule exp tau gamma tw rw }

theorem fast_SIR_eq (exp : Rat → Rat) (nbrs : Node → List Node) (n : Nat) (tmin : Rat) (tmax : ERat) (tau gamma : Rat)
    (tw : Option Rate2) (rw : Option Rate1) (infs recs : List Node) (fuel : Nat) :
    fast_SIR exp nbrs n tmin tmax tau gamma tw rw infs recs fuel =
      run (fsirArgs exp nbrs n tmin tmax tau gamma tw rw) infs recs fuel := rfl

theorem bind_ok_inv {α β : Type} {x : TM α} {f : α → TM β} {ts : TapeSt} {b : β} {ts' : TapeSt}
    (h : (x >>= f) ts = .ok (b, ts')) : ∃ a t1, x ts = .ok (a, t1) ∧ f a t1 = .ok (b, ts') := by
  cases hx : x ts with
  | error e => rw [tm_bind_err hx] at h; cases h
  | ok r =>
    obtain ⟨a, t1⟩ := r
    rw [tm_bind_ok hx] at h
    exact ⟨a, t1, rfl, h⟩

theorem alSet_keys_nodup (l : List (Node × ERat)) (x : Node) (v : ERat) (h : (l.map (·.1)).Nodup) :
    ((alSet l x v).map (·.1)).Nodup := by
  induction l with
  | nil => simp [alSet]
  | cons a l ih =>
    obtain ⟨k, w⟩ := a
    rw [List.map_cons, List.nodup_cons] at h
    unfold alSet
    split
    · rw [List.map_cons, List.nodup_cons]; exact h
    · rename_i hk
      rw [List.map_cons, List.nodup_cons]
      refine ⟨?_, ih h.2⟩
      intro hm
      obtain ⟨p, hp, hpk⟩ := List.mem_map.1 hm
      rcases mem_alSet hp with hp | hp
      · apply h.1; rw [← hpk]; exact List.mem_map.2 ⟨p, hp, rfl⟩
      · apply hk; rw [hp] at hpk; exact hpk.symm

theorem dictOf_keys_nodup : ∀ (vs : List Node) (xs : List ERat) (acc : List (Node × ERat)),
    (acc.map (·.1)).Nodup → ((dictOf acc vs xs).map (·.1)).Nodup := by
  intro vs
  induction vs with
  | nil => intro xs acc h; simpa [dictOf] using h
  | cons v vs ih =>
    intro xs acc h
    cases xs with
    | nil => simpa [dictOf] using h
    | cons x xs =>
      unfold dictOf
      exact ih xs _ (alSet_keys_nodup acc v x h)

/-- both rules of `fast_SIR` return a proper Python `dict` (every key once) -/
theorem fast_SIR_rule_keys (exp : Rat → Rat) (tau gamma : Rat) (tw : Option Rate2) (rw : Option Rate1) (u : Node)
    (sus : List Node) (ts : TapeSt) (r : Res) (ts' : TapeSt)
    (h : fast_SIR_rule exp tau gamma tw rw u sus ts = .ok (r, ts')) : (r.1.map (·.1)).Nodup := by
  rw [fast_SIR_rule_eq] at h
  split at h
  · -- the constant-tau rule
    unfold constRule const_trans at h
    obtain ⟨r1, t1, _, h⟩ := bind_ok_inv h
    obtain ⟨d2, t2, _, h⟩ := bind_ok_inv h
    dsimp only at h
    obtain ⟨k, t3, _, h⟩ := bind_ok_inv h
    obtain ⟨s, t4, _, h⟩ := bind_ok_inv h
    obtain ⟨td, t5, hl, h⟩ := bind_ok_inv h
    injection h with h; injection h with h1 h2
    subst h1
    refine foldlM_inv (fun acc : List (Node × ERat) => (acc.map (·.1)).Nodup) ?_ _ _ _ _ _ hl List.nodup_nil
    intro b a t b' t' hb hP
    obtain ⟨x, t1', _, hb⟩ := bind_ok_inv hb
    injection hb with hb; injection hb with g1 g2
    subst g1
    exact alSet_keys_nodup b a _ hP
  · obtain ⟨xs, _, h2, _, _⟩ := find_delays_inv h
    rw [h2]
    exact dictOf_keys_nodup sus xs [] List.nodup_nil

/-- **tape determinisation of `fast_SIR`** (both branches): the run called the rule at most once per node, the calls
threaded the tape, and `fast_nonMarkov_SIR` with any pure rule returning the drawn values gives the same objects -/
theorem fast_SIR_det' (exp : Rat → Rat) (nbrs : Node → List Node) (n : Nat) (tmin : Rat) (tmax : ERat) (tau gamma : Rat)
    (tw : Option Rate2) (rw : Option Rate1) (infs recs : List Node) (fuel : Nat) (ts : TapeSt) (σ : Loc)
    (ts' : TapeSt) (h : fast_SIR exp nbrs n tmin tmax tau gamma tw rw infs recs fuel ts = .ok (σ, ts')) :
    ∃ calls, Chain (fast_SIR_rule exp tau gamma tw rw) ts calls ts' ∧ (calls.map (·.1)).Nodup ∧
      (∀ c ∈ calls, ∃ p, c.2.1 = (nbrs c.1).filter p) ∧
      ∀ J, (∀ c ∈ calls, J c.1 c.2.1 = c.2.2) → ∀ ts0,
        run { nbrs := nbrs, order := n, tmin := tmin, tmax := tmax, transRec := pureRule J } infs recs fuel ts0 =
          .ok (σ, ts0) :=
  run_det (fsirArgs exp nbrs n tmin tmax tau gamma tw rw) infs recs fuel ts σ ts' h

theorem Chain.mem {R : Node → List Node → TM Res} : ∀ {calls : List RuleCall} {ts ts' : TapeSt},
    Chain R ts calls ts' → ∀ c ∈ calls, ∃ t1 t2, R c.1 c.2.1 t1 = .ok (c.2.2, t2) := by
  intro calls
  induction calls with
  | nil => intro ts ts' _ c hc; cases hc
  | cons a calls ih =>
    intro ts ts' h c hc
    obtain ⟨t1, e, h⟩ := h
    rcases List.mem_cons.1 hc with rfl | hc
    · exact ⟨ts, t1, e⟩
    · exact ih h c hc

/-- the model parameters whose rule is the table of drawn values -/
def drawnParams (nodes : List Node) (nbrs : Node → List Node) (tmin : Rat) (tmax : ERat) (calls : List RuleCall) :
    ESParams :=
  { nodes := nodes, nbrs := nbrs, joint := fun u _ => tableOf calls u, tmin := tmin, tmax := tmax }

theorem drawnParams_WFJ (nodes : List Node) (nbrs : Node → List Node) (tmin : Rat) (tmax : ERat)
    (calls : List RuleCall) (hk : ∀ c ∈ calls, (c.2.2.1.map (·.1)).Nodup) :
    WFJ (drawnParams nodes nbrs tmin tmax calls) := by
  intro u p
  show ((tableOf calls u).1.map (·.1)).Nodup
  by_cases hu : u ∈ calls.map (·.1)
  · obtain ⟨c, hc, _, e⟩ := tableOf_mem hu
    rw [e]; exact hk c hc
  · rw [tableOf_none hu]; exact List.nodup_nil

/-- the per-edge branch: the drawn values form delay / duration tables -/
theorem fast_SIR_perEdge_tables (exp : Rat → Rat) (nbrs : Node → List Node) (n : Nat) (tmin : Rat) (tmax : ERat)
    (tau gamma : Rat) (tw : Option Rate2) (rw : Option Rate1) (hbranch : ¬ (tw = none ∧ tau * gamma ≠ 0))
    (hN : ∀ u, (nbrs u).Nodup) (infs recs : List Node) (fuel : Nat) (ts : TapeSt) (hts : TapeNonneg ts) (σ : Loc)
    (ts' : TapeSt) (h : fast_SIR exp nbrs n tmin tmax tau gamma tw rw infs recs fuel ts = .ok (σ, ts')) :
    ∃ calls, Chain (perEdgeRule tau gamma tw rw) ts calls ts' ∧ (calls.map (·.1)).Nodup ∧
      (∀ c ∈ calls, jointOfTables (delayOf calls) (durOf calls) c.1 c.2.1 = c.2.2) ∧
      (∀ u v d, delayOf calls u v = some d → 0 ≤ d) ∧ (∀ u d, durOf calls u = some d → 0 ≤ d) ∧
      ∀ ts0, run { nbrs := nbrs, order := n, tmin := tmin, tmax := tmax,
                   transRec := fun u sus => pure (jointOfTables (delayOf calls) (durOf calls) u sus) }
        infs recs fuel ts0 = .ok (σ, ts0) := by
  obtain ⟨calls, hC, hNd, hP, hJ⟩ := fast_SIR_det' exp nbrs n tmin tmax tau gamma tw rw infs recs fuel ts σ ts' h
  rw [fast_SIR_rule_eq, if_neg hbranch] at hC
  have hpre : ∀ c ∈ calls, c.2.1.Nodup := by
    intro c hc
    obtain ⟨p, hp⟩ := hP c hc
    rw [hp]; exact (hN c.1).filter _
  obtain ⟨_, hrow⟩ := Chain.forall (I := TapeNonneg) (Pre := fun c => c.2.1.Nodup) (Q := RowOK)
    (fun u sus t r t' hI hpre e => perEdge_rowOK e hpre hI) hC hts hpre
  have hag := jointOfTables_agrees hNd hrow
  exact ⟨calls, hC, hNd, hag, delayOf_nonneg hrow, durOf_nonneg hrow, hJ _ hag⟩

/-! ### what a successful call of the constant-`tau` rule returned (no assumption on the shape of the tape) -/

theorem foldlM_inv2 {α β : Type} {f : β → α → TM β} (P : β → TapeSt → Prop) :
    ∀ (l : List α), (∀ b a ts b' ts', a ∈ l → f b a ts = .ok (b', ts') → P b ts → P b' ts') →
    ∀ (b : β) (ts : TapeSt) (b' : β) (ts' : TapeSt), l.foldlM f b ts = .ok (b', ts') → P b ts → P b' ts' := by
  intro l
  induction l with
  | nil =>
    intro _ b ts b' ts' h hb
    injection h with h; injection h with h1 h2; subst h1 h2; exact hb
  | cons a l ih =>
    intro hf b ts b' ts' h hb
    rw [List.foldlM_cons] at h
    obtain ⟨b1, t1, h1, h⟩ := bind_ok_inv h
    exact ih (fun b a' ts b' ts' ha => hf b a' ts b' ts' (List.mem_cons_of_mem _ ha)) b1 t1 b' ts' h
      (hf b a ts b1 t1 (List.mem_cons_self ..) h1 hb)

theorem popExpo_inv {rate : Rat} {ts : TapeSt} {d : Rat} {ts' : TapeSt} (h : TM.popExpo rate ts = .ok (d, ts')) :
    rate ≠ 0 ∧ ts.tape = Draw.expo d :: ts'.tape := by
  obtain ⟨tape, tr⟩ := ts
  by_cases hr : rate = 0
  · subst hr; rw [popExpo_zero] at h; cases h
  · refine ⟨hr, ?_⟩
    cases tape with
    | nil => rw [popExpo_nil hr] at h; cases h
    | cons y rest =>
      by_cases hy : ∃ d, y = Draw.expo d
      · obtain ⟨d', rfl⟩ := hy
        rw [popExpo_cons hr] at h
        injection h with h; injection h with h1 h2
        subst h1 h2; rfl
      · rw [popExpo_kind hr y (fun d hd => hy ⟨d, hd⟩)] at h; cases h

theorem popBinom_inv {n : Nat} {p : Rat} {ts : TapeSt} {k : Nat} {ts' : TapeSt}
    (h : TM.popBinom n p ts = .ok (k, ts')) : ts.tape = Draw.binom k :: ts'.tape := by
  obtain ⟨tape, tr⟩ := ts
  unfold TM.popBinom at h
  dsimp only at h
  split at h
  · split at h
    · injection h with h; injection h with h1 h2; subst h1 h2; rfl
    · cases h
  · cases h
  · cases h

theorem popSample_inv {n k : Nat} {ts : TapeSt} {idx : List Nat} {ts' : TapeSt}
    (h : TM.popSample n k ts = .ok (idx, ts')) : ts.tape = Draw.sample idx :: ts'.tape := by
  obtain ⟨tape, tr⟩ := ts
  unfold TM.popSample at h
  dsimp only at h
  split at h
  · cases h
  · split at h
    · split at h
      · injection h with h; injection h with h1 h2; subst h1 h2; rfl
      · cases h
    · cases h
    · cases h

theorem mapM_listChoice_mem (sus : List Node) : ∀ (idx : List Nat) (s : List Node),
    idx.mapM (fun i => PyRT.listChoice sus i) = .ok s → ∀ v ∈ s, v ∈ sus := by
  intro idx
  induction idx with
  | nil =>
    intro s h v hv
    have : s = [] := by injection h with h; exact h.symm
    subst this; cases hv
  | cons i idx ih =>
    intro s h v hv
    rw [List.mapM_cons] at h
    cases h1 : PyRT.listChoice sus i with
    | error e => rw [h1] at h; cases h
    | ok x =>
      cases h2 : idx.mapM (fun i => PyRT.listChoice sus i) with
      | error e => rw [h1, h2] at h; cases h
      | ok xs =>
        rw [h1, h2] at h
        have hs : s = x :: xs := by injection h with h; exact h.symm
        subst hs
        rcases List.mem_cons.1 hv with rfl | hv
        · unfold PyRT.listChoice at h1
          cases h3 : sus[i]? with
          | none => rw [h3] at h1; cases h1
          | some y =>
            rw [h3] at h1
            have : y = v := by injection h1
            subst this
            exact List.mem_of_getElem? h3
        · exact ih xs h2 v hv

theorem sample_inv {sus : List Node} {k : Nat} {ts : TapeSt} {s : List Node} {ts' : TapeSt}
    (h : PyFS.sample sus k ts = .ok (s, ts')) : (∀ v ∈ s, v ∈ sus) ∧ ∀ y ∈ ts'.tape, y ∈ ts.tape := by
  unfold PyFS.sample at h
  obtain ⟨idx, t1, h1, h⟩ := bind_ok_inv h
  have ht := popSample_inv h1
  cases hm : idx.mapM (fun i => PyRT.listChoice sus i) with
  | error e => rw [hm] at h; cases h
  | ok s' =>
    rw [hm] at h
    injection h with h; injection h with g1 g2
    subst g1 g2
    exact ⟨mapM_listChoice_mem sus idx s' hm, fun y hy => by rw [ht]; exact List.mem_cons_of_mem _ hy⟩

theorem truncated_exponential_inv {rate T : Rat} {ts : TapeSt} {x : Rat} {ts' : TapeSt}
    (h : truncated_exponential rate T ts = .ok (x, ts')) :
    ∃ t, ts.tape = Draw.expo t :: ts'.tape ∧ T ≠ 0 ∧ x = truncMod t T := by
  unfold truncated_exponential at h
  obtain ⟨t, t1, h1, h⟩ := bind_ok_inv h
  obtain ⟨_, ht⟩ := popExpo_inv h1
  by_cases hT : T = 0
  · subst hT
    simp only [PyTM.fdiv, if_true] at h
    cases h
  · simp only [PyTM.fdiv, hT, if_false] at h
    injection h with h; injection h with g1 g2
    subst g2
    exact ⟨t, ht, hT, g1.symm⟩

/-- **a successful call of the constant-`tau` rule** on a tape of non-negative `expovariate` values returned a finite
duration `d ≥ 0` drawn from the tape and a dict whose keys are distinct susceptible neighbours and whose values are
finite, non-negative and strictly below the duration: every recipient is a kept edge -/
theorem const_trans_inv {exp : Rat → Rat} {node : Node} {sus : List Node} {tau : Rat} {rrf : Rate1} {ts : TapeSt}
    {r : Res} {ts' : TapeSt} (h : const_trans exp node sus tau rrf ts = .ok (r, ts')) (hn : TapeNonneg ts) :
    TapeNonneg ts' ∧ (∃ d, r.2 = some d ∧ 0 ≤ d ∧ Draw.expo d ∈ ts.tape) ∧ (r.1.map (·.1)).Nodup ∧
      ∀ p ∈ r.1, p.1 ∈ sus ∧ ∃ x, p.2 = some x ∧ 0 ≤ x ∧ ERat.lt p.2 r.2 = true := by
  unfold const_trans at h
  obtain ⟨r1, t1, h1, ha⟩ := bind_ok_inv h
  have e1 : t1 = ts := by
    cases hr : rrf node with
    | error e => rw [hr] at h1; cases h1
    | ok a => rw [hr] at h1; injection h1 with h1; injection h1 with _ g; exact g.symm
  rw [e1] at ha
  obtain ⟨d, t2, h2, hb⟩ := bind_ok_inv ha
  dsimp only at hb
  obtain ⟨_, ht2⟩ := popExpo_inv h2
  have hd0 : 0 ≤ d := hn d (by rw [ht2]; exact List.mem_cons_self ..)
  have hn2 : TapeNonneg t2 := fun x hx => hn x (by rw [ht2]; exact List.mem_cons_of_mem _ hx)
  obtain ⟨k, t3, h3, hc⟩ := bind_ok_inv hb
  have ht3 := popBinom_inv h3
  have hn3 : TapeNonneg t3 := fun x hx => hn2 x (by rw [ht3]; exact List.mem_cons_of_mem _ hx)
  obtain ⟨s, t4, h4, hd⟩ := bind_ok_inv hc
  obtain ⟨hs, ht4⟩ := sample_inv h4
  have hn4 : TapeNonneg t4 := fun x hx => hn3 x (ht4 _ hx)
  obtain ⟨td, t5, hl, he⟩ := bind_ok_inv hd
  injection he with he; injection he with g1 g2
  subst g1 g2
  have hinv := foldlM_inv2
    (fun (acc : List (Node × ERat)) (t : TapeSt) => TapeNonneg t ∧ (acc.map (·.1)).Nodup ∧
      ∀ p ∈ acc, p.1 ∈ s ∧ ∃ x, p.2 = some x ∧ 0 ≤ x ∧ x < d) s ?_ _ _ _ _ hl
    ⟨hn4, List.nodup_nil, by intro p hp; cases hp⟩
  · obtain ⟨g1, g2, g3⟩ := hinv
    refine ⟨g1, ⟨d, rfl, hd0, by rw [ht2]; exact List.mem_cons_self ..⟩, g2, ?_⟩
    intro p hp
    obtain ⟨q1, x, q2, q3, q4⟩ := g3 p hp
    refine ⟨hs _ q1, x, q2, q3, ?_⟩
    rw [q2]; simpa [ERat.lt] using q4
  · intro b a t b' t' hmem hb ⟨hP1, hP2, hP3⟩
    obtain ⟨x, t1', hx, hb⟩ := bind_ok_inv hb
    injection hb with hb; injection hb with g1 g2
    subst g1 g2
    obtain ⟨t0, ht0, hT, hx'⟩ := truncated_exponential_inv hx
    have ht0n : 0 ≤ t0 := hP1 t0 (by rw [ht0]; exact List.mem_cons_self ..)
    have hdpos : 0 < d := lt_of_le_of_ne hd0 (Ne.symm hT)
    refine ⟨fun y hy => hP1 y (by rw [ht0]; exact List.mem_cons_of_mem _ hy), alSet_keys_nodup b a _ hP2, ?_⟩
    intro p hp
    rcases mem_alSet hp with hp | hp
    · exact hP3 p hp
    · subst hp
      refine ⟨?_, x, rfl, ?_, ?_⟩
      · exact hmem
      · rw [hx']; exact (truncMod_range ht0n hdpos).1
      · rw [hx']; exact (truncMod_range ht0n hdpos).2

theorem alGet_some_mem {v : Node} {d : Rat} : ∀ (l : List (Node × ERat)), alGet l none v = some d → (v, some d) ∈ l := by
  intro l
  induction l with
  | nil => intro h; cases h
  | cons a l ih =>
    intro h
    obtain ⟨k, w⟩ := a
    unfold alGet at h
    split at h
    · rename_i hk; rw [hk, h]; exact List.mem_cons_self ..
    · exact List.mem_cons_of_mem _ (ih h)

/-- a value returned by the constant-`tau` rule: finite non-negative duration, distinct keys among the argument,
finite non-negative delays strictly below the duration -/
def ConstRowOK (c : RuleCall) : Prop :=
  (∃ d, c.2.2.2 = some d ∧ 0 ≤ d) ∧ (c.2.2.1.map (·.1)).Nodup ∧
    ∀ p ∈ c.2.2.1, p.1 ∈ c.2.1 ∧ ∃ x, p.2 = some x ∧ 0 ≤ x ∧ ERat.lt p.2 c.2.2.2 = true

/-- the constant-`tau` branch: determinisation plus the shape of every drawn row -/
theorem fast_SIR_const_rows (exp : Rat → Rat) (nbrs : Node → List Node) (n : Nat) (tmin : Rat) (tmax : ERat)
    (tau gamma : Rat) (tw : Option Rate2) (rw : Option Rate1) (hbranch : tw = none ∧ tau * gamma ≠ 0)
    (infs recs : List Node) (fuel : Nat) (ts : TapeSt) (hts : TapeNonneg ts) (σ : Loc)
    (ts' : TapeSt) (h : fast_SIR exp nbrs n tmin tmax tau gamma tw rw infs recs fuel ts = .ok (σ, ts')) :
    ∃ calls, Chain (constRule exp tau gamma tw rw) ts calls ts' ∧ (calls.map (·.1)).Nodup ∧
      (∀ c ∈ calls, ConstRowOK c) ∧ TapeNonneg ts' ∧ (∀ c ∈ calls, ∃ p, c.2.1 = (nbrs c.1).filter p) ∧
      ∀ J, (∀ c ∈ calls, J c.1 c.2.1 = c.2.2) → ∀ ts0,
        run { nbrs := nbrs, order := n, tmin := tmin, tmax := tmax, transRec := pureRule J } infs recs fuel ts0 =
          .ok (σ, ts0) := by
  obtain ⟨calls, hC, hNd, hP, hJ⟩ := fast_SIR_det' exp nbrs n tmin tmax tau gamma tw rw infs recs fuel ts σ ts' h
  rw [fast_SIR_rule_eq, if_pos hbranch] at hC
  obtain ⟨hn', hrow⟩ := Chain.forall (I := TapeNonneg) (Pre := fun _ => True) (Q := ConstRowOK)
    (fun u sus t r t' hI _ e => by
      obtain ⟨g1, ⟨d, g2, g3, _⟩, g4, g5⟩ := const_trans_inv e hI
      exact ⟨g1, ⟨d, g2, g3⟩, g4, g5⟩) hC hts (fun _ _ => trivial)
  exact ⟨calls, hC, hNd, hrow, hn', hP, hJ⟩

/-- in the tables read off the constant-`tau` calls every finite delay is non-negative and strictly below the (finite)
duration of its source: every edge with a finite delay is a kept edge -/
theorem const_tables_kept {calls : List RuleCall} (hrow : ∀ c ∈ calls, ConstRowOK c) (u v : Node)
    (h : delayOf calls u v ≠ none) :
    (∃ x, delayOf calls u v = some x ∧ 0 ≤ x) ∧ (∃ d, durOf calls u = some d ∧ 0 ≤ d) ∧
      ERat.lt (delayOf calls u v) (durOf calls u) = true := by
  by_cases hu : u ∈ calls.map (·.1)
  · obtain ⟨c, hc, _, e⟩ := tableOf_mem hu
    obtain ⟨g1, _, g3⟩ := hrow c hc
    cases hx : delayOf calls u v with
    | none => exact absurd hx h
    | some x =>
      have hx' := hx
      unfold delayOf at hx'
      rw [e] at hx'
      obtain ⟨_, y, q2, q3, q4⟩ := g3 _ (alGet_some_mem _ hx')
      have : y = x := by injection q2 with q2; exact q2.symm
      subst this
      refine ⟨⟨y, rfl, q3⟩, ?_, ?_⟩
      · unfold durOf; rw [e]; exact g1
      · unfold durOf; rw [e]; exact q4
  · exfalso; apply h
    unfold delayOf
    rw [tableOf_none hu]; rfl

/-! ### first-passage percolation for rules whose rows list the neighbours in any order

`Proofs/EventSIRInv.lean` proves the loop invariant `InvC` for the rule `jointOfTables` (the susceptible neighbours
in `G.neighbors` order).  The constant-`tau` rule lists only the recipients, in *sample* order.  The invariant does not
depend on that order: `InvC.infect'` is `InvC.infect` for an arbitrary row `L tgt` whose entries are neighbours with
their table delay and which contains every finite table delay (`RowsOK`). -/

/-- model parameters with a fixed row per node (what the rule returned for it), whatever the susceptible set -/
def rowParams (nodes : List Node) (nbrs : Node → List Node) (L : Node → List (Node × ERat)) (dur : Node → ERat)
    (tmin : Rat) (tmax : ERat) : ESParams :=
  { nodes := nodes, nbrs := nbrs, joint := fun u _ => (L u, dur u), tmin := tmin, tmax := tmax }

/-- the rows agree with the delay table: entries are neighbours with their table delay; every finite delay is listed -/
structure RowsOK (nbrs : Node → List Node) (delay : Node → Node → ERat) (L : Node → List (Node × ERat)) : Prop where
  mem : ∀ u v d, (v, d) ∈ L u → v ∈ nbrs u ∧ d = delay u v
  fin : ∀ u v d, delay u v = some d → (v, some d) ∈ L u

/-- the scheduling loop on the row of `tgt` -/
def schL (L : Node → List (Node × ERat)) (dur : Node → ERat) (tmax : ERat) (pr : Node → ERat) (q : List QItem)
    (time : Rat) (tgt : Node) : (Node → ERat) × List QItem :=
  schedule tmax time tgt (ERat.add (some time) (dur tgt)) (L tgt) pr (q1B dur tmax q time tgt)

theorem processTrans_S' (nodes : List Node) (nbrs : Node → List Node) (L : Node → List (Node × ERat))
    (dur : Node → ERat) (tmin : Rat) (tmax : ERat) (s : ESState) (time : Rat) (src : Option Node) (tgt : Node)
    (h : s.status tgt = St.S) :
    let s' := processTrans (rowParams nodes nbrs L dur tmin tmax) s time src tgt
    s'.status = fset s.status tgt St.I ∧ s'.recTime = fset s.recTime tgt (ERat.add (some time) (dur tgt)) ∧
    s'.predInf = (schL L dur tmax s.predInf s.queue time tgt).1 ∧
    s'.queue = (schL L dur tmax s.predInf s.queue time tgt).2 ∧
    s'.trans = (time, src, tgt) :: s.trans := by
  unfold processTrans
  rw [if_pos h]
  exact ⟨rfl, rfl, rfl, rfl, rfl⟩

theorem step_some' (nodes : List Node) (nbrs : Node → List Node) (L : Node → List (Node × ERat))
    (dur : Node → ERat) (tmin : Rat) (tmax : ERat) {sel : Nat} {s s' : ESState}
    (h : step (rowParams nodes nbrs L dur tmin tmax) sel s = some s') :
    ∃ x l1 l2, s.queue = l1 ++ x :: l2 ∧ (∀ y ∈ s.queue, x.time ≤ y.time) ∧
      ((∃ src tgt, x.ev = QEv.trans src tgt ∧ s.status tgt ≠ St.S ∧ s'.status = s.status ∧ s'.recTime = s.recTime ∧
          s'.predInf = s.predInf ∧ s'.queue = l1 ++ l2 ∧ s'.trans = s.trans) ∨
       (∃ src tgt, x.ev = QEv.trans src tgt ∧ s.status tgt = St.S ∧ s'.status = fset s.status tgt St.I ∧
          s'.recTime = fset s.recTime tgt (ERat.add (some x.time) (dur tgt)) ∧
          s'.predInf = (schL L dur tmax s.predInf (l1 ++ l2) x.time tgt).1 ∧
          s'.queue = (schL L dur tmax s.predInf (l1 ++ l2) x.time tgt).2 ∧
          s'.trans = (x.time, src, tgt) :: s.trans) ∨
       (∃ u, x.ev = QEv.recov u ∧ s'.status = fset s.status u St.R ∧ s'.recTime = s.recTime ∧
          s'.predInf = s.predInf ∧ s'.queue = l1 ++ l2 ∧ s'.trans = s.trans)) := by
  unfold step at h
  split at h
  · cases h
  · rename_i x q hp
    obtain ⟨l1, l2, h1, h2, h3⟩ := pop_some hp
    refine ⟨x, l1, l2, h1, h3, ?_⟩
    subst h2
    simp only at h
    split at h
    · rename_i src tgt hev
      injection h with h
      by_cases hs : s.status tgt = St.S
      · right; left
        have := processTrans_S' nodes nbrs L dur tmin tmax { s with queue := l1 ++ l2 } x.time src tgt hs
        rw [h] at this
        exact ⟨src, tgt, hev, hs, this⟩
      · left
        rw [processTrans_notS _ { s with queue := l1 ++ l2 } _ _ _ hs] at h
        subst h
        exact ⟨src, tgt, hev, hs, rfl, rfl, rfl, rfl, rfl⟩
    · rename_i u hev
      injection h with h
      right; right
      subst h
      exact ⟨u, hev, rfl, rfl, rfl, rfl, rfl⟩

theorem InvC.infect' {nodes : List Node} {nbrs : Node → List Node} {delay : Node → Node → ERat} {dur : Node → ERat}
    {tmin : Rat} {tmax : ERat} {infs recs : List Node} {st : Node → St} {rt pr : Node → ERat} {tr : List TEv}
    {L : Node → List (Node × ERat)} (hR : RowsOK nbrs delay L)
    (h : WF nodes nbrs delay dur infs recs) {l1 l2 : List QItem} {x : QItem}
    {src : Option Node} {tgt : Node}
    (hI : InvC nodes nbrs delay dur tmin tmax infs recs st rt pr (l1 ++ x :: l2) tr)
    (hmin : ∀ y ∈ l1 ++ x :: l2, x.time ≤ y.time)
    (hev : x.ev = QEv.trans src tgt) (hs : st tgt = St.S) :
    InvC nodes nbrs delay dur tmin tmax infs recs (fset st tgt St.I)
      (fset rt tgt (ERat.add (some x.time) (dur tgt)))
      (schL L dur tmax pr (l1 ++ l2) x.time tgt).1
      (schL L dur tmax pr (l1 ++ l2) x.time tgt).2
      ((x.time, src, tgt) :: tr) := by
  have hx : x ∈ l1 ++ x :: l2 := by simp
  have htlt : ERat.lt (some x.time) tmax = true := hI.q_lt x hx
  obtain ⟨htn, hsrc⟩ := hI.q_tr x hx src tgt hev
  obtain ⟨htr, hno⟩ := (hI.st_S tgt).1 hs
  have hS : ∀ v, fset st tgt St.I v = St.S → v ≠ tgt ∧ st v = St.S := by
    intro v hv
    by_cases hvt : v = tgt
    · subst hvt; rw [fset_same] at hv; cases hv
    · rw [fset_other _ _ _ _ hvt] at hv; exact ⟨hvt, hv⟩
  -- the new node is reached by a walk
  have hwalk : ∃ p, TW nbrs delay dur tmin infs recs tgt p x.time := by
    cases src with
    | none =>
      obtain ⟨h1, h2⟩ := hsrc
      rw [h2]; exact ⟨[], GW.init _ ⟨h1, htr⟩⟩
    | some u =>
      obtain ⟨h1, eu, heu, hu, hadd⟩ := hsrc
      obtain ⟨p, hp⟩ := hI.tr_walk eu heu
      obtain ⟨a, b, ha, hb, hab⟩ := ERat.add_eq_some.1 hadd
      injection ha with ha
      rw [hu] at hp
      rw [← hab, ← ha]
      exact ⟨u :: p, GW.step _ _ _ _ _ hp ⟨h1, htr, hb⟩⟩
  -- and no walk is shorter
  have hopt : ∀ p L, TW nbrs delay dur tmin infs recs tgt p L → x.time ≤ L := by
    intro p L hw
    by_contra hlt
    have hlt : L < x.time := not_le.1 hlt
    have hLt : ERat.lt (some L) tmax = true :=
      ERat.lt_of_le_of_lt (a := some L) (b := some x.time) (by simp; linarith) htlt
    obtain ⟨e, he, hey, _⟩ := hI.claim h x.time hmin hw hlt hLt
    exact hno e he hey
  -- structure of the new queue
  obtain ⟨r, hq1, hrlen, hr1, hr2⟩ := q1B_spec dur tmax (l1 ++ l2) x.time tgt
  obtain ⟨ex, hq2, _, hex⟩ := schedule_struct tmax x.time tgt (ERat.add (some x.time) (dur tgt))
    (L tgt) pr (q1B dur tmax (l1 ++ l2) x.time tgt)
  have hq : (schL L dur tmax pr (l1 ++ l2) x.time tgt).2 = l1 ++ l2 ++ r ++ ex := by
    unfold schL; rw [hq2, hq1]
  have hmono : ∀ w, ERat.le ((schL L dur tmax pr (l1 ++ l2) x.time tgt).1 w) (pr w) = true := by
    intro w; unfold schL; exact schedule_mono ..
  have hmemq : ∀ y, y ∈ (schL L dur tmax pr (l1 ++ l2) x.time tgt).2 ↔
      y ∈ l1 ++ l2 ∨ y ∈ r ∨ y ∈ ex := by
    intro y; rw [hq]; simp only [List.mem_append]; tauto
  have hexev : ∀ y ∈ ex, ∃ v t, y = ⟨t, QEv.trans (some tgt) v⟩ ∧ v ∈ nbrs tgt ∧
      ERat.add (some x.time) (delay tgt v) = some t ∧ ERat.lt (some t) tmax = true ∧
      ERat.le (some t) (ERat.add (some x.time) (dur tgt)) = true := by
    intro y hy
    obtain ⟨v, d, t, hvd, g1, g2, g3, g4⟩ := hex y hy
    obtain ⟨hv', hd'⟩ := hR.mem tgt v d hvd
    subst hd'
    exact ⟨v, t, g1, hv', g2, g3, g4⟩
  have hsub : ∀ e ∈ tr, e ∈ (x.time, src, tgt) :: tr := fun e he => List.mem_cons_of_mem _ he
  exact {
    st_S := by
      intro v
      by_cases hvt : v = tgt
      · subst hvt
        rw [fset_same]
        simp
      · rw [fset_other _ _ _ _ hvt, hI.st_S v]
        simp only [List.forall_mem_cons]
        have : tgt ≠ v := fun e => hvt e.symm
        tauto
    tr_nodup := by
      rw [List.map_cons, List.nodup_cons]
      refine ⟨?_, hI.tr_nodup⟩
      simp only [List.mem_map, not_exists, not_and]
      exact fun e he => hno e he
    tr_lt := by
      intro e he
      rcases List.mem_cons.1 he with rfl | he
      · exact htlt
      · exact hI.tr_lt e he
    tr_src := by
      intro e he
      rcases List.mem_cons.1 he with rfl | he
      · exact hsrc.mono hsub
      · exact (hI.tr_src e he).mono hsub
    tr_walk := by
      intro e he
      rcases List.mem_cons.1 he with rfl | he
      · exact hwalk
      · exact hI.tr_walk e he
    tr_opt := by
      intro e he
      rcases List.mem_cons.1 he with rfl | he
      · exact hopt
      · exact hI.tr_opt e he
    q_lt := by
      intro y hy
      rcases (hmemq y).1 hy with hy | hy | hy
      · exact hI.q_lt y (mem_mid hy)
      · obtain ⟨t, rfl, _, g⟩ := hr1 y hy; exact g
      · obtain ⟨v, t, rfl, _, _, g, _⟩ := hexev y hy; exact g
    q_tr := by
      intro y hy src' v' hev'
      rcases (hmemq y).1 hy with hy | hy | hy
      · obtain ⟨g1, g2⟩ := hI.q_tr y (mem_mid hy) src' v' hev'
        exact ⟨g1, g2.mono hsub⟩
      · obtain ⟨t, rfl, _, g⟩ := hr1 y hy; cases hev'
      · obtain ⟨v, t, rfl, hvn, g1, g2, g3⟩ := hexev y hy
        simp only [QEv.trans.injEq] at hev'
        obtain ⟨rfl, rfl⟩ := hev'
        refine ⟨h.nbr_mem tgt htn v hvn, ?_, (x.time, src, tgt), List.mem_cons_self .., rfl, g1⟩
        unfold keeps
        rw [Bool.and_eq_true, List.contains_iff_mem]
        refine ⟨hvn, ?_⟩
        rw [← g1, ERat.add_le_add_left_iff] at g3
        exact g3
    pred_edge := by
      intro e he v d hk hv hd hlt
      obtain ⟨hvt, hsv⟩ := hS v hv
      rcases List.mem_cons.1 he with rfl | he
      · simp only at hk hd hlt ⊢
        have hvn : v ∈ nbrs tgt := by
          unfold keeps at hk
          rw [Bool.and_eq_true, List.contains_iff_mem] at hk; exact hk.1
        have hkl : ERat.le (delay tgt v) (dur tgt) = true := by
          unfold keeps at hk
          rw [Bool.and_eq_true] at hk; exact hk.2
        unfold schL
        refine schedule_le tmax x.time tgt _ _ pr _ v (delay tgt v) (x.time + d) ?_ ?_ ?_ ?_
        · rw [hd]; exact hR.fin tgt v d hd
        · rw [hd]; rfl
        · have : ERat.add (some x.time) (delay tgt v) = some (x.time + d) := by rw [hd]; rfl
          rw [← this, ERat.add_le_add_left_iff]; exact hkl
        · exact ERat.le_of_lt hlt
      · exact ERat.le_trans (hmono v) (hI.pred_edge e he v d hk hsv hd hlt)
    pred_init := by
      intro v hv hsv
      exact ERat.le_trans (hmono v) (hI.pred_init v hv (hS v hsv).2)
    pred_q := by
      unfold schL
      apply schedule_QJ
      intro v p hv hp hlt
      obtain ⟨hvt, hsv⟩ := hS v hv
      obtain ⟨y, hy, hyt, src', hev'⟩ := hI.pred_q v p hsv hp hlt
      refine ⟨y, ?_, hyt, src', hev'⟩
      rw [hq1]
      refine List.mem_append_left _ (mem_mid' hy ?_)
      rintro rfl
      rw [hev] at hev'; injection hev' with _ h2
      exact hvt h2.symm
    rec_time := by
      intro e he
      rcases List.mem_cons.1 he with rfl | he
      · simp only [fset_same]
      · rw [fset_other _ _ _ _ (hno e he)]; exact hI.rec_time e he
    rec_R := by
      intro v hv hr
      have hvt : v ≠ tgt := by rintro rfl; rw [fset_same] at hv; cases hv
      rw [fset_other _ _ _ _ hvt] at hv ⊢
      exact hI.rec_R v hv hr
    rec_I := by
      intro v r0 h1 h2 h3
      rw [hmemq]
      by_cases hvt : v = tgt
      · subst hvt
        rw [fset_same] at h2
        exact Or.inr (Or.inl (hr2 r0 h2 h3))
      · rw [fset_other _ _ _ _ hvt] at h1 h2
        refine Or.inl (mem_mid' (hI.rec_I v r0 h1 h2 h3) ?_)
        intro heq
        rw [← heq] at hev; cases hev
    rec_q := by
      intro y hy u hev'
      rcases (hmemq y).1 hy with hy | hy | hy
      · obtain ⟨g1, g2⟩ := hI.rec_q y (mem_mid hy) u hev'
        have hut : u ≠ tgt := by rintro rfl; rw [hs] at g1; cases g1
        rw [fset_other _ _ _ _ hut, fset_other _ _ _ _ hut]; exact ⟨g1, g2⟩
      · obtain ⟨t, rfl, g1, _⟩ := hr1 y hy
        simp only [QEv.recov.injEq] at hev'
        subst hev'
        rw [fset_same, fset_same]; exact ⟨rfl, g1⟩
      · obtain ⟨v, t, rfl, _⟩ := hexev y hy; cases hev'
    rec_cnt := by
      intro t u
      rw [hq, List.count_append, List.count_append]
      have h3 : ex.count (⟨t, QEv.recov u⟩ : QItem) = 0 := by
        apply List.count_eq_zero_of_not_mem
        intro hin
        obtain ⟨v, t', g, _⟩ := hexev _ hin
        cases g
      by_cases hut : u = tgt
      · subst hut
        have h1 : (l1 ++ l2).count (⟨t, QEv.recov u⟩ : QItem) = 0 := by
          apply List.count_eq_zero_of_not_mem
          intro hin
          have := (hI.rec_q _ (mem_mid hin) u rfl).1
          rw [hs] at this; cases this
        have h2 := List.count_le_length (a := (⟨t, QEv.recov u⟩ : QItem)) (l := r)
        omega
      · have h2 : r.count (⟨t, QEv.recov u⟩ : QItem) = 0 := by
          apply List.count_eq_zero_of_not_mem
          intro hin
          obtain ⟨t', g, _⟩ := hr1 _ hin
          simp only [QItem.mk.injEq, QEv.recov.injEq] at g
          exact hut g.2
        have h1 := hI.rec_cnt t u
        rw [count_mid] at h1
        omega }

theorem Inv.step' {nodes : List Node} {nbrs : Node → List Node} {delay : Node → Node → ERat} {dur : Node → ERat}
    {tmin : Rat} {tmax : ERat} {infs recs : List Node} {L : Node → List (Node × ERat)} (hR : RowsOK nbrs delay L)
    (h : WF nodes nbrs delay dur infs recs) {sel : Nat} {s s' : ESState}
    (hI : Inv nodes nbrs delay dur tmin tmax infs recs s)
    (hs : step (rowParams nodes nbrs L dur tmin tmax) sel s = some s') :
    Inv nodes nbrs delay dur tmin tmax infs recs s' := by
  obtain ⟨x, l1, l2, hq, hmin, hc⟩ := step_some' nodes nbrs L dur tmin tmax hs
  unfold EventSIR.Inv at hI ⊢
  rw [hq] at hI hmin
  rcases hc with ⟨src, tgt, hev, hst, e1, e2, e3, e4, e5⟩ | ⟨src, tgt, hev, hst, e1, e2, e3, e4, e5⟩ |
    ⟨u, hev, e1, e2, e3, e4, e5⟩
  · rw [e1, e2, e3, e4, e5]; exact hI.dequeue_notS hev hst
  · rw [e1, e2, e3, e4, e5]; exact InvC.infect' hR h hI hmin hev hst
  · rw [e1, e2, e3, e4, e5]; exact hI.recover hev

theorem Inv.loop' {nodes : List Node} {nbrs : Node → List Node} {delay : Node → Node → ERat} {dur : Node → ERat}
    {tmin : Rat} {tmax : ERat} {infs recs : List Node} {L : Node → List (Node × ERat)} (hR : RowsOK nbrs delay L)
    (h : WF nodes nbrs delay dur infs recs) (sel : Nat → Nat) (fuel : Nat) :
    ∀ (k : Nat) (s : ESState), Inv nodes nbrs delay dur tmin tmax infs recs s →
      Inv nodes nbrs delay dur tmin tmax infs recs (EventSIR.loop (rowParams nodes nbrs L dur tmin tmax) sel fuel k s) := by
  induction fuel with
  | zero => intro k s hI; exact hI
  | succ fuel ih =>
    intro k s hI
    unfold EventSIR.loop
    split
    · exact hI
    · rename_i s' hs
      exact ih _ _ (Inv.step' hR h hI hs)

/-- **first-passage percolation for rules returning rows in any order** (every tie-breaking `sel`) -/
theorem rows_fpp {nodes : List Node} {nbrs : Node → List Node} {delay : Node → Node → ERat} {dur : Node → ERat}
    {infs recs : List Node} {L : Node → List (Node × ERat)} (hR : RowsOK nbrs delay L)
    (h : WF nodes nbrs delay dur infs recs) (tmin : Rat) (tmax : ERat) (sel : Nat → Nat) (fuel : Nat)
    (hq : (EventSIR.run (rowParams nodes nbrs L dur tmin tmax) sel infs recs fuel).queue = []) :
    isFPP nodes nbrs delay dur tmin tmax infs recs
      (EventSIR.run (rowParams nodes nbrs L dur tmin tmax) sel infs recs fuel).trans
      (recoveriesOf nodes recs (EventSIR.run (rowParams nodes nbrs L dur tmin tmax) sel infs recs fuel)) = true := by
  have e0 : init (rowParams nodes nbrs L dur tmin tmax) infs recs =
      init (tableParams nodes nbrs delay dur tmin tmax) infs recs := by
    unfold init
    rw [initQueue_eq, initQueue_eq]
    rfl
  have h0 : EventSIR.Inv nodes nbrs delay dur tmin tmax infs recs
      (init (rowParams nodes nbrs L dur tmin tmax) infs recs) := by
    rw [e0]; exact Inv.init h
  exact (Inv.loop' hR h sel fuel 0 _ h0).isFPP h hq

theorem alGet_of_mem_nodup {v : Node} {d : ERat} : ∀ (l : List (Node × ERat)), (l.map (·.1)).Nodup → (v, d) ∈ l →
    alGet l none v = d := by
  intro l
  induction l with
  | nil => intro _ h; cases h
  | cons a l ih =>
    intro hn hm
    obtain ⟨k, w⟩ := a
    rw [List.map_cons, List.nodup_cons] at hn
    unfold alGet
    rcases List.mem_cons.1 hm with hm | hm
    · injection hm with h1 h2
      subst h1 h2
      simp
    · have hne : k ≠ v := by
        rintro rfl
        exact hn.1 (List.mem_map.2 ⟨(k, d), hm, rfl⟩)
      rw [if_neg hne]
      exact ih hn.2 hm

theorem drawnParams_eq_rowParams (nodes : List Node) (nbrs : Node → List Node) (tmin : Rat) (tmax : ERat)
    (calls : List RuleCall) :
    drawnParams nodes nbrs tmin tmax calls =
      rowParams nodes nbrs (fun u => (tableOf calls u).1) (durOf calls) tmin tmax := rfl

/-- the rows drawn by the constant-`tau` rule agree with the delay table read off them -/
theorem const_rowsOK {nbrs : Node → List Node} {calls : List RuleCall} (hrow : ∀ c ∈ calls, ConstRowOK c)
    (hP : ∀ c ∈ calls, ∃ p, c.2.1 = (nbrs c.1).filter p) :
    RowsOK nbrs (delayOf calls) (fun u => (tableOf calls u).1) where
  mem := by
    intro u v d hm
    by_cases hu : u ∈ calls.map (·.1)
    · obtain ⟨c, hc, hcu, e⟩ := tableOf_mem hu
      obtain ⟨_, g2, g3⟩ := hrow c hc
      refine ⟨?_, ?_⟩
      · rw [e] at hm
        obtain ⟨hv, _⟩ := g3 _ hm
        obtain ⟨p, hp⟩ := hP c hc
        rw [hp, hcu] at hv
        exact (List.mem_filter.1 hv).1
      · unfold delayOf
        rw [e] at hm ⊢
        exact (alGet_of_mem_nodup _ g2 hm).symm
    · rw [tableOf_none hu] at hm
      cases hm
  fin := by
    intro u v d h
    exact alGet_some_mem _ h

theorem const_dur_nonneg {calls : List RuleCall} (hrow : ∀ c ∈ calls, ConstRowOK c) (u : Node) (d : Rat)
    (h : durOf calls u = some d) : 0 ≤ d := by
  unfold durOf at h
  by_cases hu : u ∈ calls.map (·.1)
  · obtain ⟨c, hc, _, e⟩ := tableOf_mem hu
    rw [e] at h
    obtain ⟨⟨d', g1, g2⟩, _⟩ := hrow c hc
    rw [g1] at h
    injection h with h
    subst h
    exact g2
  · rw [tableOf_none hu] at h
    cases h

/-! ### both branches at once -/

/-- a value returned by either rule of `fast_SIR` on a tape of non-negative draws: distinct keys among the argument,
non-negative finite delays, a non-negative finite or infinite duration -/
def DrawnRowOK (c : RuleCall) : Prop :=
  (c.2.2.1.map (·.1)).Nodup ∧ (∀ p ∈ c.2.2.1, p.1 ∈ c.2.1 ∧ ∀ d, p.2 = some d → 0 ≤ d) ∧
    ∀ d, c.2.2.2 = some d → 0 ≤ d

theorem ConstRowOK.toDrawn {c : RuleCall} (h : ConstRowOK c) : DrawnRowOK c := by
  obtain ⟨⟨d, g1, g2⟩, g3, g4⟩ := h
  refine ⟨g3, ?_, ?_⟩
  · intro p hp
    obtain ⟨q1, x, q2, q3, _⟩ := g4 p hp
    refine ⟨q1, ?_⟩
    intro d' hd'
    rw [q2] at hd'; injection hd' with hd'; rw [← hd']; exact q3
  · intro d' hd'
    rw [g1] at hd'; injection hd' with hd'; rw [← hd']; exact g2

theorem fast_SIR_rule_drawnRowOK (exp : Rat → Rat) (tau gamma : Rat) (tw : Option Rate2) (rw : Option Rate1) (u : Node)
    (sus : List Node) (ts : TapeSt) (r : Res) (ts' : TapeSt)
    (h : fast_SIR_rule exp tau gamma tw rw u sus ts = .ok (r, ts')) (hn : TapeNonneg ts) :
    TapeNonneg ts' ∧ DrawnRowOK (u, sus, r) := by
  rw [fast_SIR_rule_eq] at h
  split at h
  · obtain ⟨g1, ⟨d, g2, g3, _⟩, g4, g5⟩ := const_trans_inv h hn
    exact ⟨g1, ConstRowOK.toDrawn ⟨⟨d, g2, g3⟩, g4, g5⟩⟩
  · obtain ⟨xs, h1, h2, h3, h4⟩ := find_delays_inv h
    refine ⟨fun d hd => hn d (h4 _ hd), ?_, ?_, ?_⟩
    · show (r.1.map (·.1)).Nodup
      rw [h2]; exact dictOf_keys_nodup sus xs [] List.nodup_nil
    · intro p hp
      have hp' : p ∈ dictOf [] sus xs := by rw [← h2]; exact hp
      rcases mem_dictOf sus xs [] p hp' with hp' | ⟨q1, q2⟩
      · cases hp'
      · refine ⟨q1, ?_⟩
        intro d hd
        rw [hd] at q2
        exact hn d (h3 d (List.mem_cons_of_mem _ q2))
    · intro d hd
      exact hn d (h3 d (by rw [show r.2 = some d from hd]; exact List.mem_cons_self ..))

/-- the drawn rows agree with the delay table read off them -/
theorem drawn_rowsOK {nbrs : Node → List Node} {calls : List RuleCall} (hrow : ∀ c ∈ calls, DrawnRowOK c)
    (hP : ∀ c ∈ calls, ∃ p, c.2.1 = (nbrs c.1).filter p) :
    RowsOK nbrs (delayOf calls) (fun u => (tableOf calls u).1) where
  mem := by
    intro u v d hm
    by_cases hu : u ∈ calls.map (·.1)
    · obtain ⟨c, hc, hcu, e⟩ := tableOf_mem hu
      obtain ⟨g2, g3, _⟩ := hrow c hc
      refine ⟨?_, ?_⟩
      · rw [e] at hm
        obtain ⟨hv, _⟩ := g3 _ hm
        obtain ⟨p, hp⟩ := hP c hc
        rw [hp, hcu] at hv
        exact (List.mem_filter.1 hv).1
      · unfold delayOf
        rw [e] at hm ⊢
        exact (alGet_of_mem_nodup _ g2 hm).symm
    · rw [tableOf_none hu] at hm
      cases hm
  fin := by
    intro u v d h
    exact alGet_some_mem _ h

theorem drawn_delay_nonneg {calls : List RuleCall} (hrow : ∀ c ∈ calls, DrawnRowOK c) (u v : Node) (d : Rat)
    (h : delayOf calls u v = some d) : 0 ≤ d := by
  unfold delayOf at h
  by_cases hu : u ∈ calls.map (·.1)
  · obtain ⟨c, hc, _, e⟩ := tableOf_mem hu
    rw [e] at h
    exact ((hrow c hc).2.1 _ (alGet_some_mem _ h)).2 d rfl
  · rw [tableOf_none hu] at h
    cases h

theorem drawn_dur_nonneg {calls : List RuleCall} (hrow : ∀ c ∈ calls, DrawnRowOK c) (u : Node) (d : Rat)
    (h : durOf calls u = some d) : 0 ≤ d := by
  unfold durOf at h
  by_cases hu : u ∈ calls.map (·.1)
  · obtain ⟨c, hc, _, e⟩ := tableOf_mem hu
    rw [e] at h
    exact (hrow c hc).2.2 d h
  · rw [tableOf_none hu] at h
    cases h

/-- determinisation of `fast_SIR` (either branch) with the shape of every drawn row -/
theorem fast_SIR_rows (exp : Rat → Rat) (nbrs : Node → List Node) (n : Nat) (tmin : Rat) (tmax : ERat)
    (tau gamma : Rat) (tw : Option Rate2) (rw : Option Rate1)
    (infs recs : List Node) (fuel : Nat) (ts : TapeSt) (hts : TapeNonneg ts) (σ : Loc)
    (ts' : TapeSt) (h : fast_SIR exp nbrs n tmin tmax tau gamma tw rw infs recs fuel ts = .ok (σ, ts')) :
    ∃ calls, Chain (fast_SIR_rule exp tau gamma tw rw) ts calls ts' ∧ (calls.map (·.1)).Nodup ∧
      (∀ c ∈ calls, DrawnRowOK c) ∧ TapeNonneg ts' ∧ (∀ c ∈ calls, ∃ p, c.2.1 = (nbrs c.1).filter p) ∧
      ∀ J, (∀ c ∈ calls, J c.1 c.2.1 = c.2.2) → ∀ ts0,
        run { nbrs := nbrs, order := n, tmin := tmin, tmax := tmax, transRec := pureRule J } infs recs fuel ts0 =
          .ok (σ, ts0) := by
  obtain ⟨calls, hC, hNd, hP, hJ⟩ := fast_SIR_det' exp nbrs n tmin tmax tau gamma tw rw infs recs fuel ts σ ts' h
  obtain ⟨hn', hrow⟩ := Chain.forall (I := TapeNonneg) (Pre := fun _ => True) (Q := DrawnRowOK)
    (fun u sus t r t' hI _ e => fast_SIR_rule_drawnRowOK exp tau gamma tw rw u sus t r t' e hI) hC hts
    (fun _ _ => trivial)
  exact ⟨calls, hC, hNd, hrow, hn', hP, hJ⟩

/-! ### reading results in closed examples (`TapeSt` holds an `Array`, compare lists) -/

/-- the returned value, the tape left over and the calls logged -/
def view {α : Type} (r : Except String (α × TapeSt)) : Except String (α × List Draw × List Call) :=
  match r with
  | .ok (a, ts) => .ok (a, ts.tape, ts.trace.toList)
  | .error e => .error e

end GenFSIRProofs

/-! ### data of the closed examples of `Props/C01f.lean` -/
open GenFSIRProofs

/-- the path 0 – 1 – 2 -/
def c01fNb (u : Node) : List Node := match u with | 0 => [1] | 1 => [0, 2] | 2 => [1] | _ => []
def c01fTape : TapeSt :=
  ⟨[Draw.expo 2, Draw.expo 1, Draw.expo 3, Draw.expo (1/2), Draw.expo 1], #[]⟩
/-- the tables the run draws: node 0 lasts 2 and reaches 1 after 1; node 1 lasts 3 and reaches 2 after 1/2; node 2
lasts 1 and has no susceptible neighbour left -/
def c01fDelay (u v : Node) : ERat := if u = 0 ∧ v = 1 then some 1 else if u = 1 ∧ v = 2 then some (1/2) else none
def c01fDur (u : Node) : ERat := if u = 0 then some 2 else if u = 1 then some 3 else if u = 2 then some 1 else none

theorem c01fWF : WF [0, 1, 2] c01fNb (fun _ _ => none) (fun _ => none) [0] [] where
  nodup := by decide
  nbr_nodup := by decide
  nbr_mem := by decide
  delay_nonneg := by intro u v d h; cases h
  dur_nonneg := by intro u d h; cases h
  infs_nodup := by decide
  infs_mem := by decide
  recs_mem := by decide
  disjoint := by decide

theorem c01fNb_nodup : ∀ u, (c01fNb u).Nodup := by
  intro u; unfold c01fNb; split <;> decide

/-- the star 0 – {1, 2} -/
def c01fStar (u : Node) : List Node := match u with | 0 => [1, 2] | 1 => [0] | 2 => [0] | _ => []
def c01fStarTape : TapeSt :=
  ⟨[Draw.expo 2, Draw.binom 2, Draw.sample [1, 0], Draw.expo 1, Draw.expo 1,
    Draw.expo 1, Draw.binom 0, Draw.sample [], Draw.expo 1, Draw.binom 0, Draw.sample []], #[]⟩

theorem c01fStarWF : WF [0, 1, 2] c01fStar (fun _ _ => none) (fun _ => none) [0] [] where
  nodup := by decide
  nbr_nodup := by decide
  nbr_mem := by decide
  delay_nonneg := by intro u v d h; cases h
  dur_nonneg := by intro u d h; cases h
  infs_nodup := by decide
  infs_mem := by decide
  recs_mem := by decide
  disjoint := by decide
