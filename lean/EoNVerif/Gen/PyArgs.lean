import EoNVerif.Gen.PyPM
/-!
Runtime of the code generated from the argument normalisation of the simulators (`harness/pyargs2lean.py`).
-/
namespace PyArgs
open PyPM

/-- what the normalisation reads from the graph -/
structure NArgs where
  nodes : List Node          -- list(G)
deriving Inhabited

def NArgs.order (A : NArgs) : Int := (A.nodes.length : Int)
def NArgs.hasNodeS (A : NArgs) (x : Src) : Bool := match x with | .inl u => A.nodes.contains u | .inr _ => false

/-- Python's `round` on an exactly represented value (half to even), then `int` -/
def intRound (x : Rat) : Int :=
  let f := x.floor
  let d := x - f
  if d < 1/2 then f else if d > 1/2 then f + 1 else if f % 2 = 0 then f else f + 1

/-- `random.sample(population, k)`: ValueError for k < 0 or k > len(population) -/
def sample (population : List Node) (k : Int) : TM (List Node) := do
  if k < 0 then TM.fail "ValueError" else
  let idx ← TM.popSample population.length k.toNat
  PyTM.liftE (idx.mapM fun i => PyRT.listChoice population i)

/-- `[x]` for a node argument -/
def listOf (x : Src) : Except String (List Node) := match x with | .inl u => pure [u] | .inr _ => throw "TypeError"
/-- the argument left as it is, later iterated (`for u in initial_infecteds`, `len(...)`): a non-node scalar is not iterable -/
def asIterable (x : Src) : Except String (List Node) := match x with | .inl _ => throw "TypeError" | .inr l => pure l

end PyArgs
