import EoNVerif.Basic
/-!
Model of the initial-condition builders of `EoN.analytic`: `_initialize_node_status_`, `_count_edge_types_`,
`_get_Nk_and_IC_as_arrays_`, and the per-wrapper initial values (degree-class counts, pair counts), both from
explicit initial sets and from a uniform initial fraction `rho`.
A contact graph is given by adjacency lists indexed by node position; statuses by a function `Nat → St`.
-/
namespace InitCond

def deg (adj : List (List Nat)) (u : Nat) : Nat := (adj.getD u []).length
def nNodes (adj : List (List Nat)) : Nat := adj.length
def maxDeg (adj : List (List Nat)) : Nat := (adj.map (·.length)).foldl max 0

/-- status map from initial sets (`_initialize_node_status_`): recovered overrides infected is impossible – the code
raises on overlap – so the order does not matter for disjoint sets -/
def statusOf (infs recs : List Nat) : Nat → St :=
  fun v => if v ∈ recs then St.R else if v ∈ infs then St.I else St.S

/-- number of nodes of degree `k` with status `x` -/
def classCount (adj : List (List Nat)) (st : Nat → St) (x : St) (k : Nat) : Nat :=
  ((List.range adj.length).filter fun u => deg adj u = k ∧ st u = x).length

def Nk (adj : List (List Nat)) (k : Nat) : Nat := ((List.range adj.length).filter fun u => deg adj u = k).length

/-- number of ordered neighbour pairs `(u,v)` with statuses `(a,b)` -/
def pairCount (adj : List (List Nat)) (st : Nat → St) (a b : St) : Nat :=
  ((List.range adj.length).map fun u => if st u = a then ((adj.getD u []).filter fun v => st v = b).length else 0).sum

/-- population counts -/
def count (adj : List (List Nat)) (st : Nat → St) (x : St) : Nat := ((List.range adj.length).filter fun u => st u = x).length

/-- Σ_k k·N_k = number of ordered neighbour pairs -/
def twoM (adj : List (List Nat)) : Nat := (adj.map (·.length)).sum

/-! rho-based initial values (uniformly random initial infection) -/
def rhoS (adj : List (List Nat)) (rho : Rat) : Rat := (1 - rho) * (adj.length : Rat)
def rhoI (adj : List (List Nat)) (rho : Rat) : Rat := rho * (adj.length : Rat)
def rhoSk (adj : List (List Nat)) (rho : Rat) (k : Nat) : Rat := (1 - rho) * (Nk adj k : Rat)
def rhoIk (adj : List (List Nat)) (rho : Rat) (k : Nat) : Rat := rho * (Nk adj k : Rat)
def rhoSS (adj : List (List Nat)) (rho : Rat) : Rat := (1 - rho) * (1 - rho) * (twoM adj : Rat)
def rhoSI (adj : List (List Nat)) (rho : Rat) : Rat := (1 - rho) * rho * (twoM adj : Rat)
def rhoII (adj : List (List Nat)) (rho : Rat) : Rat := rho * rho * (twoM adj : Rat)

end InitCond
