import EoNVerif.Model.Gillespie
/-!
The continuous-time Markov chain the Gillespie simulators are supposed to sample (specification):
an infectious node `u` recovers at rate `γ·w_u`; an edge `(u,v)` with `u` infectious and `v` susceptible
transmits at rate `τ·w_uv`.  Weights default to 1 when no weight label is given.
-/
namespace Chain

def nodeRate (P : GParams) (u : Node) : Rat := P.gamma * (match P.nw with | some f => f u | none => 1)
def edgeRate (P : GParams) (u v : Node) : Rat := P.tau * (match P.ew with | some f => f u v | none => 1)

/-- enabled recoveries in ground-truth status `st` -/
def enabledRec (P : GParams) (st : Node → St) : List Node := P.nodes.filter fun u => st u = St.I

/-- enabled transmissions: ordered pairs (u,v), v ∈ nbrs u, u infectious, v susceptible -/
def enabledTrans (P : GParams) (st : Node → St) : List (Node × Node) :=
  P.nodes.flatMap fun u => if st u = St.I then ((P.nbrs u).filter fun v => st v = St.S).map fun v => (u, v) else []

def totalRate (P : GParams) (st : Node → St) : Rat :=
  sumRat ((enabledRec P st).map (nodeRate P)) + sumRat ((enabledTrans P st).map fun p => edgeRate P p.1 p.2)

/-- effect of an event on the status map -/
def apply (P : GParams) (st : Node → St) : GEvent → Node → St
  | .recover u => fset st u (if P.sis then St.S else St.R)
  | .transmit _ v => fset st v St.I

end Chain
