import EoNVerif.Gen.GillespieGen
import EoNVerif.Proofs.GenLD
import EoNVerif.Proofs.Gillespie
/-!
Refinement (C01e / C02c): the Lean code GENERATED statement by statement from the Python functions `Gillespie_SIR` /
`Gillespie_SIS` (`EoNVerif/Gen/GillespieGen.lean`) and the hand-written model (`EoNVerif/Model/Gillespie.lean`) simulate
each other on every tape: same final tape state (same logged RNG calls), related final states.
-/
set_option linter.unusedSimpArgs false
set_option linter.unusedVariables false

/-! ### simulation of tape programs -/
namespace TM

/-- `m1` and `m2` simulate each other: on every tape state, a normal return of one is matched by a normal return of the
other with the SAME final tape state (remaining draws and logged calls) and `Q`-related results. -/
def Sim {α β : Type} (m1 : TM α) (m2 : TM β) (Q : α → β → Prop) : Prop :=
  ∀ ts, (∀ b ts', m2 ts = .ok (b, ts') → ∃ a, m1 ts = .ok (a, ts') ∧ Q a b) ∧
        (∀ a ts', m1 ts = .ok (a, ts') → ∃ b, m2 ts = .ok (b, ts') ∧ Q a b)

theorem bind_eval {α β : Type} (m : TM α) (k : α → TM β) (ts ts1 : TapeSt) (a : α) (h : m ts = .ok (a, ts1)) :
    (m >>= k) ts = k a ts1 := by
  simp only [bind, StateT.bind, h]
  rfl

theorem bind_eval_err {α β : Type} (m : TM α) (k : α → TM β) (ts : TapeSt) (e : String) (h : m ts = .error e) :
    (m >>= k) ts = .error e := by
  simp only [bind, StateT.bind, h]
  rfl

theorem Sim.bind {α β α' β' : Type} {m1 : TM α} {m2 : TM β} {Q : α → β → Prop} {k1 : α → TM α'} {k2 : β → TM β'}
    {Q' : α' → β' → Prop} (h1 : Sim m1 m2 Q) (h2 : ∀ a b, Q a b → Sim (k1 a) (k2 b) Q') :
    Sim (m1 >>= k1) (m2 >>= k2) Q' := by
  intro ts
  constructor
  · intro b' ts' h
    obtain ⟨b, ts1, hb, hk⟩ := TM.bind_ok _ _ _ _ _ h
    obtain ⟨a, ha, hq⟩ := (h1 ts).1 b ts1 hb
    obtain ⟨a', ha', hq'⟩ := (h2 a b hq ts1).1 b' ts' hk
    exact ⟨a', by rw [bind_eval _ _ _ _ _ ha]; exact ha', hq'⟩
  · intro a' ts' h
    obtain ⟨a, ts1, ha, hk⟩ := TM.bind_ok _ _ _ _ _ h
    obtain ⟨b, hb, hq⟩ := (h1 ts).2 a ts1 ha
    obtain ⟨b', hb', hq'⟩ := (h2 a b hq ts1).2 a' ts' hk
    exact ⟨b', by rw [bind_eval _ _ _ _ _ hb]; exact hb', hq'⟩

theorem Sim.refl {α : Type} (m : TM α) : Sim m m Eq := by
  intro ts
  exact ⟨fun b ts' h => ⟨b, h, rfl⟩, fun a ts' h => ⟨a, h, rfl⟩⟩

theorem Sim.mono {α β : Type} {m1 : TM α} {m2 : TM β} {Q Q' : α → β → Prop} (h : Sim m1 m2 Q)
    (hq : ∀ a b, Q a b → Q' a b) : Sim m1 m2 Q' := by
  intro ts
  constructor
  · intro b ts' hb
    obtain ⟨a, ha, hab⟩ := (h ts).1 b ts' hb
    exact ⟨a, ha, hq a b hab⟩
  · intro a ts' ha
    obtain ⟨b, hb, hab⟩ := (h ts).2 a ts' ha
    exact ⟨b, hb, hq a b hab⟩

theorem Sim.pure {α β : Type} {Q : α → β → Prop} (a : α) (b : β) (h : Q a b) :
    Sim (pure a : TM α) (pure b : TM β) Q := by
  intro ts
  constructor
  · intro b' ts' hb
    obtain ⟨rfl, rfl⟩ := TM.pure_ok _ _ _ _ hb
    exact ⟨a, rfl, h⟩
  · intro a' ts' ha
    obtain ⟨rfl, rfl⟩ := TM.pure_ok _ _ _ _ ha
    exact ⟨b, rfl, h⟩

/-- two programs that never return normally -/
theorem Sim.of_fail {α β : Type} {m1 : TM α} {m2 : TM β} {Q : α → β → Prop}
    (h1 : ∀ ts, ∃ e, m1 ts = .error e) (h2 : ∀ ts, ∃ e, m2 ts = .error e) : Sim m1 m2 Q := by
  intro ts
  constructor
  · intro b ts' hb
    obtain ⟨e, he⟩ := h2 ts
    rw [he] at hb; cases hb
  · intro a ts' ha
    obtain ⟨e, he⟩ := h1 ts
    rw [he] at ha; cases ha

theorem Sim.ite {α β : Type} {c : Prop} [Decidable c] {a1 b1 : TM α} {a2 b2 : TM β} {Q : α → β → Prop}
    (ha : c → Sim a1 a2 Q) (hb : ¬ c → Sim b1 b2 Q) :
    Sim (if c then a1 else b1) (if c then a2 else b2) Q := by
  by_cases h : c
  · rw [if_pos h, if_pos h]; exact ha h
  · rw [if_neg h, if_neg h]; exact hb h

theorem fail_err {α : Type} (msg : String) (ts : TapeSt) : ∃ e, (TM.fail msg : TM α) ts = .error e := ⟨msg, rfl⟩

theorem bind_fails {α β : Type} (m : TM α) (k : α → TM β) (h : ∀ a ts, ∃ e, k a ts = .error e) (ts : TapeSt) :
    ∃ e, (m >>= k) ts = .error e := by
  cases hm : m ts with
  | error e => exact ⟨e, bind_eval_err _ _ _ _ hm⟩
  | ok p =>
    obtain ⟨a, ts1⟩ := p
    obtain ⟨e, he⟩ := h a ts1
    exact ⟨e, by rw [bind_eval _ _ _ _ _ hm]; exact he⟩

/-- `Option` → tape monad: `none` is the model's `KeyError` -/
def ofOpt {α : Type} (o : Option α) : TM α :=
  match o with
  | some a => pure a
  | none => TM.fail "KeyError"

end TM

namespace PyTM

theorem liftE_ok_bind {α β : Type} (a : α) (k : α → TM β) : (liftE (.ok a) >>= k) = k a := rfl

theorem liftE_ok {α : Type} (a : α) : (liftE (.ok a) : TM α) = pure a := rfl

theorem liftE_error_fails {α β : Type} (e : String) (k : α → TM β) (ts : TapeSt) :
    ∃ e', (liftE (.error e : Except String α) >>= k) ts = .error e' := ⟨e, rfl⟩

theorem fdiv_ok (a b : Rat) (h : b ≠ 0) : fdiv a b = .ok (a / b) := by
  simp [fdiv, h, pure, Except.pure]

theorem fdiv_zero (a : Rat) : fdiv a 0 = .error "ZeroDivisionError" := by
  simp [fdiv, throw, throwThe, MonadExceptOf.throw]

theorem listLast_reverse_cons {α : Type} (a : α) (l : List α) : listLast ((a :: l).reverse) = .ok a := by
  simp [listLast, pure, Except.pure]

end PyTM

/-! ### decomposition of the generated SIR loop into named pieces (each is the generated text, verbatim) -/
namespace GenGSIR
open PyTM

def recBody (recovering_node : Node) : Loc → Node → TM Loc := fun (σ : Loc) (nbr : Node) => do
          let σ ← (if (decide ((σ.status nbr) = St.S)) then do
            let l_14 ← PyTM.liftE (GenLD.remove σ.IS_links (recovering_node, nbr))
            let σ := { σ with IS_links := l_14 }
            pure σ
          else do
            pure σ)
          pure σ

def transBody (P : PyTM.GArgs) (recipient : Node) : Loc → Node → TM Loc := fun (σ : Loc) (nbr : Node) => do
          let σ ← (if (decide ((σ.status nbr) = St.S)) then do
            let l_21 ← PyTM.liftE (GenLD.update σ.IS_links (recipient, nbr) (edgeweight P recipient nbr))
            let σ := { σ with IS_links := l_21 }
            pure σ
          else do
            let σ ← (if ((decide ((σ.status nbr) = St.I)) && (decide (nbr ≠ recipient))) then do
              let l_22 ← PyTM.liftE (GenLD.remove σ.IS_links (nbr, recipient))
              let σ := { σ with IS_links := l_22 }
              pure σ
            else do
              pure σ)
            pure σ)
          pure σ

def recPost (σ : Loc) : TM Loc := do
        let σ := { σ with times := σ.times ++ [σ.t] }
        let v_15 ← PyTM.liftE (PyTM.listLast σ.S)
        let σ := { σ with S := σ.S ++ [v_15] }
        let v_16 ← PyTM.liftE (PyTM.listLast σ.I)
        let σ := { σ with I := σ.I ++ [(v_16 - 1)] }
        let v_17 ← PyTM.liftE (PyTM.listLast σ.R)
        let σ := { σ with R := σ.R ++ [(v_17 + 1)] }
        pure σ

def transPost (σ : Loc) : TM Loc := do
        let σ := { σ with times := σ.times ++ [σ.t] }
        let v_23 ← PyTM.liftE (PyTM.listLast σ.S)
        let σ := { σ with S := σ.S ++ [(v_23 - 1)] }
        let v_24 ← PyTM.liftE (PyTM.listLast σ.I)
        let σ := { σ with I := σ.I ++ [(v_24 + 1)] }
        let v_25 ← PyTM.liftE (PyTM.listLast σ.R)
        let σ := { σ with R := σ.R ++ [v_25] }
        pure σ

/-- the recovery branch after `infecteds.random_removal()` returned `(l_13, c_12)` -/
def recRest (P : PyTM.GArgs) (σ : Loc) (l_13 : GenLD.PyLD Node) (c_12 : Node) : TM Loc := do
        let σ := { σ with infecteds := l_13 }
        let recovering_node := c_12
        let σ := { σ with status := fset σ.status recovering_node St.R }
        let σ ← (if P.full then do
          let σ := { σ with recovery_times := PyTM.ddAppend σ.recovery_times recovering_node σ.t }
          pure σ
        else do
          pure σ)
        let σ ← (P.nbrs recovering_node).foldlM (recBody recovering_node) σ
        recPost σ

/-- the transmission branch after `IS_links.choose_random()` returned `(l_19, c_18)` -/
def transRest (P : PyTM.GArgs) (σ : Loc) (l_19 : GenLD.PyLD (Node × Node)) (c_18 : Node × Node) : TM Loc := do
        let σ := { σ with IS_links := l_19 }
        let (transmitter, recipient) := c_18
        let σ := { σ with status := fset σ.status recipient St.I }
        let σ ← (if P.full then do
          let σ := { σ with transmissions := σ.transmissions ++ [(σ.t, some transmitter, recipient)] }
          let σ := { σ with infection_times := PyTM.ddAppend σ.infection_times recipient σ.t }
          pure σ
        else do
          pure σ)
        let l_20 ← PyTM.liftE (GenLD.update σ.infecteds recipient (nodeweight P recipient))
        let σ := { σ with infecteds := l_20 }
        let σ ← (P.nbrs recipient).foldlM (transBody P recipient) σ
        transPost σ

/-- the statements after the event: both `total_weight()` calls, the clock draw, the new time; then `k` -/
def tail (P : PyTM.GArgs) (k : Loc → TM Loc) (σ : Loc) : TM Loc := do
      let (l_27, w_26) ← PyTM.liftE (GenLD.total_weight σ.infecteds)
      let σ := { σ with infecteds := l_27 }
      let σ := { σ with total_recovery_rate := (P.gamma * w_26) }
      let (l_29, w_28) ← PyTM.liftE (GenLD.total_weight σ.IS_links)
      let σ := { σ with IS_links := l_29 }
      let σ := { σ with total_transmission_rate := (P.tau * w_28) }
      let σ := { σ with total_rate := (σ.total_recovery_rate + σ.total_transmission_rate) }
      let σ ← (if (decide (σ.total_rate > (0 : Rat))) then do
        let d_30 ← TM.popExpo σ.total_rate
        let σ := { σ with delay := (some d_30) }
        pure σ
      else do
        let σ := { σ with delay := none }
        pure σ)
      let σ := { σ with t := (ERat.add σ.t σ.delay) }
      k σ

theorem loop_succ (P : PyTM.GArgs) (fuel : Nat) (σ : Loc) :
    loop P (fuel + 1) σ =
      if ((decide (GenLD.len__ σ.infecteds > 0)) && (ERat.lt σ.t P.tmax)) then do
        let u_10 ← TM.popUnif
        let q_11 ← PyTM.liftE (PyTM.fdiv σ.total_recovery_rate σ.total_rate)
        let σ ← (if (decide (u_10 < q_11)) then do
            let (l_13, c_12) ← GenLD.random_removal_tm PyTM.encNode σ.infecteds P.cfuel
            recRest P σ l_13 c_12
          else do
            let (l_19, c_18) ← GenLD.choose_random_tm PyTM.encLink σ.IS_links P.cfuel
            transRest P σ l_19 c_18)
        tail P (loop P fuel) σ
      else pure σ := by
  rw [loop]
  rfl

end GenGSIR

/-! ### generic facts about the generated neighbour loops -/
namespace GenGillespie
open Gillespie

theorem foldlM_pure {Λ : Type} (g : Λ → Node → Λ) (body : Λ → Node → TM Λ) (hb : ∀ σ n, body σ n = pure (g σ n))
    (l : List Node) (σ : Λ) : l.foldlM body σ = pure (l.foldl g σ) := by
  induction l generalizing σ with
  | nil => rfl
  | cons n rest ih => rw [List.foldlM_cons, hb, pure_bind, ih, List.foldl_cons]

/-- a generated `for nbr in G.neighbors(u)` loop whose body performs at most one `_ListDict_` operation on the link
structure computes what `GenLD.applyOps` computes on the list of those operations -/
theorem foldlM_ops {Λ : Type} (getL : Λ → GenLD.PyLD (Node × Node)) (setL : Λ → GenLD.PyLD (Node × Node) → Λ)
    (f : Λ → Node → Option LOp)
    (hf : ∀ σ p n, f (setL σ p) n = f σ n) (hgs : ∀ σ p, getL (setL σ p) = p)
    (hss : ∀ σ a b, setL (setL σ a) b = setL σ b) (hsg : ∀ σ, setL σ (getL σ) = σ)
    (body : Λ → Node → TM Λ)
    (hb : ∀ σ n, body σ n = match f σ n with
      | none => pure σ
      | some o => PyTM.liftE (GenLD.applyOp (getL σ) o) >>= fun p => pure (setL σ p))
    (l : List Node) (σ : Λ) (p' : GenLD.PyLD (Node × Node))
    (h : GenLD.applyOps (getL σ) (l.filterMap (f σ)) = .ok p') :
    l.foldlM body σ = pure (setL σ p') := by
  induction l generalizing σ with
  | nil =>
    simp only [List.filterMap_nil, GenLD.applyOps] at h
    obtain rfl := Except.ok.inj h
    rw [hsg]; rfl
  | cons n rest ih =>
    rw [List.foldlM_cons, hb]
    cases hfn : f σ n with
    | none =>
      rw [List.filterMap_cons, hfn] at h
      dsimp only
      rw [pure_bind]
      exact ih σ h
    | some o =>
      rw [List.filterMap_cons, hfn] at h
      dsimp only at h ⊢
      simp only [GenLD.applyOps] at h
      cases happ : GenLD.applyOp (getL σ) o with
      | error e => rw [happ] at h; cases h
      | ok p1 =>
        rw [happ] at h
        dsimp only at h
        rw [PyTM.liftE_ok_bind, pure_bind]
        have hf' : f (setL σ p1) = f σ := funext (hf σ p1)
        rw [ih (setL σ p1) (by rw [hgs, hf']; exact h), hss]

end GenGillespie

/-! ### the parameters agree -/
namespace GenGillespie
open Gillespie

/-- the arguments `A` read by the generated code describe the same network / rates / options as the model's `P` -/
structure Agree (A : PyTM.GArgs) (P : GParams) (tmin : Rat) (tmax : ERat) (cfuel : Nat) : Prop where
  nbrs : A.nbrs = P.nbrs
  order : A.order = P.nodes.length
  tau : A.tau = P.tau
  gamma : A.gamma = P.gamma
  tmin : A.tmin = tmin
  tmax : A.tmax = tmax
  cfuel : A.cfuel = cfuel
  hasTW : A.hasTW = P.ew.isSome
  hasRW : A.hasRW = P.nw.isSome
  adjw : ∀ f, P.ew = some f → A.adjw = f
  nodew : ∀ f, P.nw = some f → A.nodew = f

variable {A : PyTM.GArgs} {P : GParams} {tmin : Rat} {tmax : ERat} {cfuel : Nat}

theorem Agree.edgeweight_sir (h : Agree A P tmin tmax cfuel) (u v : Node) :
    GenGSIR.edgeweight A u v = edgeW P u v := by
  unfold GenGSIR.edgeweight edgeW
  rw [h.hasTW]
  cases hf : P.ew with
  | none => rfl
  | some f => simp [h.adjw f hf]

theorem Agree.nodeweight_sir (h : Agree A P tmin tmax cfuel) (u : Node) :
    GenGSIR.nodeweight A u = nodeW P u := by
  unfold GenGSIR.nodeweight nodeW
  rw [h.hasRW]
  cases hf : P.nw with
  | none => rfl
  | some f => simp [h.nodew f hf]

theorem Agree.edgeweight_sis (h : Agree A P tmin tmax cfuel) (u v : Node) :
    GenGSIS.edgeweight A u v = edgeW P u v := h.edgeweight_sir u v

theorem Agree.nodeweight_sis (h : Agree A P tmin tmax cfuel) (u : Node) :
    GenGSIS.nodeweight A u = nodeW P u := h.nodeweight_sir u

end GenGillespie

/-! ### the full-data bookkeeping: `transmissions` against the model's event log -/
namespace GenGillespie
open Gillespie

/-- the `transmissions` entries appended for the model's logged events, oldest first (`s.log` is newest-first) -/
def transLog (log : List (Rat × GEvent)) : List (ERat × Option Node × Node) :=
  log.reverse.filterMap fun x =>
    match x.2 with
    | .transmit u v => some (some x.1, some u, v)
    | .recover _ => none

/-- the entries written for the initial infecteds -/
def initTrans (tmin : Rat) (infs : List Node) : List (ERat × Option Node × Node) :=
  infs.map fun n => (some tmin, none, n)

theorem transLog_nil : transLog [] = [] := rfl

theorem transLog_rec (t : Rat) (u : Node) (log : List (Rat × GEvent)) :
    transLog ((t, .recover u) :: log) = transLog log := by
  simp [transLog, List.filterMap_append]

theorem transLog_trans (t : Rat) (u v : Node) (log : List (Rat × GEvent)) :
    transLog ((t, .transmit u v) :: log) = transLog log ++ [(some t, some u, v)] := by
  simp [transLog, List.filterMap_append]

end GenGillespie

namespace Gillespie

theorem applyRec_log (P : GParams) (s s' : GState) (u : Node) (t : Rat) (h : applyRec P s u t = some s') :
    s'.log = (t, .recover u) :: s.log := by
  unfold applyRec at h
  simp only [bind, Option.bind, pure] at h
  cases h1 : s.inf.remove u with
  | none => rw [h1] at h; simp at h
  | some inf' =>
    rw [h1] at h
    dsimp only at h
    split at h
    · cases h
    · obtain rfl := Option.some.inj h
      rfl

theorem applyTrans_log (P : GParams) (s s' : GState) (u v : Node) (t : Rat) (h : applyTrans P s u v t = some s') :
    s'.log = (t, .transmit u v) :: s.log := by
  unfold applyTrans at h
  simp only [bind, Option.bind, pure] at h
  cases h1 : s.inf.update v (nodeW P v) with
  | none => rw [h1] at h; simp at h
  | some inf' =>
    rw [h1] at h
    dsimp only at h
    split at h
    · cases h
    · obtain rfl := Option.some.inj h
      rfl

end Gillespie

/-! ### SIR: relation, loop bodies, event branches -/
namespace GenGSIR
open Gillespie GenGillespie

/-- **simulation relation** between the locals of the generated `Gillespie_SIR` and the model state.  (The hand model
keeps the output rows newest-first, Python appends.) -/
structure Rel (σ : Loc) (s : GState) : Prop where
  status : σ.status = s.status
  inf : GenLD.R σ.infecteds s.inf
  links : GenLD.R σ.IS_links s.links
  times : σ.times = s.times.reverse.map some
  S : σ.S = s.S.reverse
  I : σ.I = s.I.reverse
  R : σ.R = s.R.reverse

def getL (σ : Loc) : GenLD.PyLD (Node × Node) := σ.IS_links
def setL (σ : Loc) (p : GenLD.PyLD (Node × Node)) : Loc := { σ with IS_links := p }

def recF (u : Node) (σ : Loc) (nbr : Node) : Option LOp :=
  if σ.status nbr = St.S then some (.rem (u, nbr)) else none

theorem recBody_eq (u : Node) (σ : Loc) (n : Node) :
    recBody u σ n = match recF u σ n with
      | none => pure σ
      | some o => PyTM.liftE (GenLD.applyOp (getL σ) o) >>= fun p => pure (setL σ p) := by
  unfold recBody recF
  by_cases h : σ.status n = St.S
  · simp only [h, decide_true, if_true, bind_pure]; rfl
  · simp only [h, decide_false, if_false, bind_pure, Bool.false_eq_true]

def transF (A : PyTM.GArgs) (v : Node) (σ : Loc) (nbr : Node) : Option LOp :=
  if σ.status nbr = St.S then some (.upd (v, nbr) (edgeweight A v nbr))
  else if σ.status nbr = St.I ∧ nbr ≠ v then some (.rem (nbr, v))
  else none

theorem transBody_eq (A : PyTM.GArgs) (v : Node) (σ : Loc) (n : Node) :
    transBody A v σ n = match transF A v σ n with
      | none => pure σ
      | some o => PyTM.liftE (GenLD.applyOp (getL σ) o) >>= fun p => pure (setL σ p) := by
  unfold transBody transF
  by_cases h : σ.status n = St.S
  · simp only [h, decide_true, if_true, bind_pure]; rfl
  · by_cases h2 : σ.status n = St.I ∧ n ≠ v
    · simp only [h, h2, decide_true, decide_false, if_false, if_true, bind_pure, Bool.false_eq_true, Bool.and_self,
        and_self, ne_eq, not_false_eq_true]; rfl
    · have h3 : (decide (σ.status n = St.I) && decide (n ≠ v)) = false := by
        simpa using h2
      simp only [h, h2, h3, decide_false, if_false, bind_pure, Bool.false_eq_true]

end GenGSIR

namespace GenGSIR
open Gillespie GenGillespie

theorem setL_laws :
    (∀ (σ : Loc) p, getL (setL σ p) = p) ∧ (∀ (σ : Loc) a b, setL (setL σ a) b = setL σ b) ∧
    (∀ σ : Loc, setL σ (getL σ) = σ) := ⟨fun _ _ => rfl, fun _ _ _ => rfl, fun _ => rfl⟩

/-- the recovery loop of the generated code, from a state whose link structure is related to the model's -/
theorem rec_fold (A : PyTM.GArgs) (P : GParams) (u : Node) (σ : Loc) (links links' : LD (Node × Node))
    (hR : GenLD.R σ.IS_links links) (hI : LD.Inv links)
    (h : recLoopSIR σ.status u links (A.nbrs u) = some links') :
    ∃ p', (A.nbrs u).foldlM (recBody u) σ = pure (setL σ p') ∧ GenLD.R p' links' := by
  rw [recLoopSIR_eq] at h
  have hw : ∀ o ∈ recSIROps σ.status u (A.nbrs u), o.nonneg := by
    intro o ho
    obtain ⟨n, -, hg⟩ := List.mem_filterMap.1 ho
    split at hg <;> cases hg
    trivial
  obtain ⟨p', hp', hR'⟩ := GenLD.applyOps_sim_from σ.IS_links links links' _ hR hI hw h
  refine ⟨p', ?_, hR'⟩
  exact foldlM_ops getL setL (recF u) (fun _ _ _ => rfl) setL_laws.1 setL_laws.2.1 setL_laws.2.2
    (recBody u) (recBody_eq u) (A.nbrs u) σ p' hp'

end GenGSIR

namespace GenGSIR
open Gillespie GenGillespie
variable {A : PyTM.GArgs} {P : GParams} {tmin : Rat} {tmax : ERat} {cfuel : Nat}

theorem transOps_nonneg (hwf : WF P) (st : Node → St) (v : Node) (l : List Node) :
    ∀ o ∈ transOps P st v l, o.nonneg := by
  intro o ho
  obtain ⟨n, -, hg⟩ := List.mem_filterMap.1 ho
  split at hg
  · cases hg
    cases hw : edgeW P v n with
    | none => trivial
    | some x => exact edgeW_nonneg P hwf v n x hw
  · split at hg <;> cases hg
    trivial

theorem transF_eq (hag : Agree A P tmin tmax cfuel) (hsir : P.sis = false) (v : Node) (σ : Loc) (l : List Node) :
    l.filterMap (transF A v σ) = transOps P σ.status v l := by
  unfold transOps
  congr 1
  funext nbr
  simp only [transF, hag.edgeweight_sir, hsir, Bool.false_eq_true, false_or]

/-- the transmission loop of the generated code -/
theorem trans_fold (hag : Agree A P tmin tmax cfuel) (hwf : WF P) (hsir : P.sis = false) (v : Node) (σ : Loc)
    (links links' : LD (Node × Node)) (hR : GenLD.R σ.IS_links links) (hI : LD.Inv links)
    (h : transLoop P σ.status v links (A.nbrs v) = some links') :
    ∃ p', (A.nbrs v).foldlM (transBody A v) σ = pure (setL σ p') ∧ GenLD.R p' links' := by
  rw [transLoop_eq] at h
  obtain ⟨p', hp', hR'⟩ := GenLD.applyOps_sim_from σ.IS_links links links' _ hR hI
    (transOps_nonneg hwf _ _ _) h
  refine ⟨p', ?_, hR'⟩
  refine foldlM_ops getL setL (transF A v) (fun _ _ _ => rfl) setL_laws.1 setL_laws.2.1 setL_laws.2.2
    (transBody A v) (transBody_eq A v) (A.nbrs v) σ p' ?_
  rw [transF_eq hag hsir]; exact hp'

/-- **recovery branch, forward**: if the model's `applyRec` succeeds, the generated statements after
`random_removal()` return normally, without touching the tape, in a related state -/
theorem recRest_eval (hag : Agree A P tmin tmax cfuel) (hsir : P.sis = false) (σ : Loc) (s s' : GState)
    (hrel : Rel σ s) (hIl : LD.Inv s.links) (hS : s.S ≠ []) (hI : s.I ≠ []) (hR : s.R ≠ [])
    (tv : Rat) (ht : σ.t = some tv) (u : Node) (inf' : LD Node) (l13 : GenLD.PyLD Node)
    (hrem : s.inf.remove u = some inf') (hR13 : GenLD.R l13 inf') (happ : applyRec P s u tv = some s') :
    ∃ σ', recRest A σ l13 u = pure σ' ∧ Rel σ' s' ∧ σ'.t = some tv ∧ σ'.transmissions = σ.transmissions := by
  simp only [applyRec, hrem, hsir, Bool.false_eq_true, if_false, bind, Option.bind] at happ
  cases hl : recLoopSIR (fset s.status u St.R) u s.links (P.nbrs u) with
  | none => rw [hl] at happ; simp at happ
  | some links' =>
    rw [hl] at happ
    simp only [pure, Option.some.injEq] at happ
    subst happ
    obtain ⟨a, Sr, hS'⟩ := List.exists_cons_of_ne_nil hS
    obtain ⟨b, Ir, hI'⟩ := List.exists_cons_of_ne_nil hI
    obtain ⟨c, Rr, hR'⟩ := List.exists_cons_of_ne_nil hR
    cases hfull : A.full
    · obtain ⟨p', hp', hRp⟩ := rec_fold A P u
        { σ with infecteds := l13, status := fset σ.status u St.R } s.links links' hrel.links hIl
        (by rw [hag.nbrs]; show recLoopSIR (fset σ.status u St.R) u s.links (P.nbrs u) = some links'
            rw [hrel.status]; exact hl)
      refine ⟨?w, ?h1, ?h2, ?h3, ?h4⟩
      case h1 =>
        unfold recRest
        simp only [hfull, Bool.false_eq_true, if_false, pure_bind]
        rw [hp', pure_bind]
        simp only [recPost, setL, hrel.S, hrel.I, hrel.R, hS', hI', hR', PyTM.listLast_reverse_cons,
          PyTM.liftE_ok_bind]
        rfl
      · exact ⟨by simp [hrel.status], hR13, hRp, by simp [hrel.times, ht], by simp [hrel.S, hS', hd],
          by simp [hrel.I, hI', hd], by simp [hrel.R, hR', hd]⟩
      · exact ht
      · rfl
    · obtain ⟨p', hp', hRp⟩ := rec_fold A P u
        { σ with infecteds := l13, status := fset σ.status u St.R,
                 recovery_times := PyTM.ddAppend σ.recovery_times u σ.t } s.links links' hrel.links hIl
        (by rw [hag.nbrs]; show recLoopSIR (fset σ.status u St.R) u s.links (P.nbrs u) = some links'
            rw [hrel.status]; exact hl)
      refine ⟨?w', ?h1', ?h2', ?h3', ?h4'⟩
      case h1' =>
        unfold recRest
        simp only [hfull, if_true, pure_bind]
        rw [hp', pure_bind]
        simp only [recPost, setL, hrel.S, hrel.I, hrel.R, hS', hI', hR', PyTM.listLast_reverse_cons,
          PyTM.liftE_ok_bind]
        rfl
      · exact ⟨by simp [hrel.status], hR13, hRp, by simp [hrel.times, ht], by simp [hrel.S, hS', hd],
          by simp [hrel.I, hI', hd], by simp [hrel.R, hR', hd]⟩
      · exact ht
      · rfl

end GenGSIR

namespace GenGSIR
open Gillespie GenGillespie
variable {A : PyTM.GArgs} {P : GParams} {tmin : Rat} {tmax : ERat} {cfuel : Nat}

/-- **transmission branch, forward**: if the model's `applyTrans` succeeds, the generated statements after
`choose_random()` return normally, without touching the tape, in a related state -/
theorem transRest_eval (hag : Agree A P tmin tmax cfuel) (hwf : WF P) (hsir : P.sis = false) (σ : Loc)
    (s s' : GState) (hrel : Rel σ s) (hIl : LD.Inv s.links) (hS : s.S ≠ []) (hI : s.I ≠ []) (hR : s.R ≠ [])
    (tv : Rat) (ht : σ.t = some tv) (u v : Node) (l19 : GenLD.PyLD (Node × Node))
    (hR19 : GenLD.R l19 s.links) (happ : applyTrans P s u v tv = some s') :
    ∃ σ', transRest A σ l19 (u, v) = pure σ' ∧ Rel σ' s' ∧ σ'.t = some tv ∧
      σ'.transmissions =
        if A.full then σ.transmissions ++ [(some tv, some u, v)] else σ.transmissions := by
  simp only [applyTrans, hsir, Bool.false_eq_true, if_false, bind, Option.bind] at happ
  cases hu : s.inf.update v (nodeW P v) with
  | none => rw [hu] at happ; simp at happ
  | some inf' =>
  rw [hu] at happ
  dsimp only at happ
  cases hl : transLoop P (fset s.status v St.I) v s.links (P.nbrs v) with
  | none => rw [hl] at happ; simp at happ
  | some links' =>
    rw [hl] at happ
    simp only [pure, Option.some.injEq] at happ
    subst happ
    obtain ⟨a, Sr, hS'⟩ := List.exists_cons_of_ne_nil hS
    obtain ⟨b, Ir, hI'⟩ := List.exists_cons_of_ne_nil hI
    obtain ⟨c, Rr, hR'⟩ := List.exists_cons_of_ne_nil hR
    obtain ⟨l20, hl20, hR20⟩ := GenLD.update_sim σ.infecteds s.inf inf' v (nodeW P v) hrel.inf hu
    rw [← hag.nodeweight_sir] at hl20
    cases hfull : A.full
    · obtain ⟨p', hp', hRp⟩ := trans_fold hag hwf hsir v
        { σ with IS_links := l19, status := fset σ.status v St.I, infecteds := l20 } s.links links' hR19 hIl
        (by rw [hag.nbrs]; show transLoop P (fset σ.status v St.I) v s.links (P.nbrs v) = some links'
            rw [hrel.status]; exact hl)
      refine ⟨?w, ?h1, ?h2, ?h3, ?h4⟩
      case h1 =>
        unfold transRest
        simp only [hfull, Bool.false_eq_true, if_false, pure_bind, hl20, PyTM.liftE_ok_bind]
        rw [hp', pure_bind]
        simp only [transPost, setL, hrel.S, hrel.I, hrel.R, hS', hI', hR', PyTM.listLast_reverse_cons,
          PyTM.liftE_ok_bind]
        rfl
      · exact ⟨by simp [hrel.status], hR20, hRp, by simp [hrel.times, ht], by simp [hrel.S, hS', hd],
          by simp [hrel.I, hI', hd], by simp [hrel.R, hR', hd]⟩
      · exact ht
      · simp [ht]
    · obtain ⟨p', hp', hRp⟩ := trans_fold hag hwf hsir v
        { σ with IS_links := l19, status := fset σ.status v St.I, infecteds := l20,
                 transmissions := σ.transmissions ++ [(σ.t, some u, v)],
                 infection_times := PyTM.ddAppend σ.infection_times v σ.t } s.links links' hR19 hIl
        (by rw [hag.nbrs]; show transLoop P (fset σ.status v St.I) v s.links (P.nbrs v) = some links'
            rw [hrel.status]; exact hl)
      refine ⟨?w', ?h1', ?h2', ?h3', ?h4'⟩
      case h1' =>
        unfold transRest
        simp only [hfull, if_true, pure_bind, hl20, PyTM.liftE_ok_bind]
        rw [hp', pure_bind]
        simp only [transPost, setL, hrel.S, hrel.I, hrel.R, hS', hI', hR', PyTM.listLast_reverse_cons,
          PyTM.liftE_ok_bind]
        rfl
      · exact ⟨by simp [hrel.status], hR20, hRp, by simp [hrel.times, ht], by simp [hrel.S, hS', hd],
          by simp [hrel.I, hI', hd], by simp [hrel.R, hR', hd]⟩
      · exact ht
      · simp [ht]

end GenGSIR

/-! ### the sampling methods on the tape -/
namespace GenGillespie
open Gillespie TM
variable {α : Type} [DecidableEq α]

/-- **`choose_random()` against the tape**: the generated code and the model pop the same draws, log the same calls,
return the same item; the generated code returns its state unchanged.  (When `max_weight = 0` both fail: the generated
code after popping the uniform draw, the model before.) -/
theorem choose_sim (enc : α → List Nat) (p : GenLD.PyLD α) (l : LD α) (hR : GenLD.R p l) (hI : LD.Inv l)
    (fuel : Nat) :
    Sim (GenLD.choose_random_tm enc p fuel) (chooseTM enc l fuel)
      (fun pc c => pc.1 = p ∧ pc.2 = c ∧ c ∈ l.items) := by
  obtain ⟨itp, items, wd, wt, mw, tw, mc⟩ := p
  obtain ⟨lwd, litems, lwt, lmw, lmc, ltw⟩ := l
  obtain ⟨h1, h2, h3, h4, h5, h6, h7, h8⟩ := hR
  simp only at h1 h2 h3 h4 h5 h6 h7 h8
  subst h1 h2 h3 h4 h5 h6
  induction fuel with
  | zero =>
    rw [GenLD.choose_random_tm, chooseTM]
    exact Sim.of_fail (fail_err _) (fail_err _)
  | succ fuel ih =>
    rw [GenLD.choose_random_tm, chooseTM]
    cases wd with
    | false =>
      simp only [Bool.false_eq_true, if_false]
      refine Sim.bind (Sim.refl _) ?_
      rintro i _ rfl
      cases hi : items[i]? with
      | none =>
        simp only [PyRT.listChoice, hi]
        exact Sim.of_fail (PyTM.liftE_error_fails _ _) (fail_err _)
      | some c =>
        simp only [PyRT.listChoice, hi, GenLD.pure_eq_ok, PyTM.liftE_ok_bind, Bool.not_false, if_true]
        exact Sim.pure _ _ ⟨rfl, rfl, List.mem_of_getElem? hi⟩
    | true =>
      simp only [if_true]
      refine Sim.bind (Sim.refl _) ?_
      rintro i _ rfl
      cases hi : items[i]? with
      | none =>
        simp only [PyRT.listChoice, hi]
        exact Sim.of_fail (PyTM.liftE_error_fails _ _) (fail_err _)
      | some c =>
        have hmem : c ∈ items := List.mem_of_getElem? hi
        have htouch : PyRT.ddTouch wt c = wt := GenLD.ddTouch_of_alHas _ _ ((hI.keys rfl c).2 hmem)
        simp only [PyRT.listChoice, hi, GenLD.pure_eq_ok, PyTM.liftE_ok_bind, Bool.not_true,
          Bool.false_eq_true, if_false, htouch]
        by_cases hm : mw = 0
        · rw [if_pos hm]
          refine Sim.of_fail (bind_fails _ _ ?_) (fail_err _)
          intro r ts
          rw [hm, PyTM.fdiv_zero]
          exact PyTM.liftE_error_fails _ _ _
        · rw [if_neg hm]
          refine Sim.bind (Sim.refl _) ?_
          rintro r _ rfl
          rw [PyTM.fdiv_ok _ _ hm, PyTM.liftE_ok_bind]
          exact Sim.ite (fun _ => Sim.pure _ _ ⟨rfl, rfl, hmem⟩) (fun _ => ih)

end GenGillespie

/-! ### the model loop, regrouped like the generated code (draw; event branch; clock) -/
namespace Gillespie
open TM

def mRec (P : GParams) (s : GState) (cfuel : Nat) (tv : Rat) : TM GState :=
  chooseTM encNode s.inf cfuel >>= fun u => ofOpt (applyRec P s u tv)

def mTrans (P : GParams) (s : GState) (cfuel : Nat) (tv : Rat) : TM GState :=
  chooseTM encLink s.links cfuel >>= fun p => ofOpt (applyTrans P s p.1 p.2 tv)

def mTail (P : GParams) (tv : Rat) (k : GState → ERat → TM GState) (s' : GState) : TM GState :=
  if totalRate P s' > 0 then TM.popExpo (totalRate P s') >>= fun d => k s' (some (tv + d)) else k s' none

theorem ofOpt_bind {α β : Type} (o : Option α) (k : α → TM β) :
    (ofOpt o >>= k) = match o with
      | none => TM.fail "KeyError"
      | some a => k a := by
  cases o with
  | none => rfl
  | some a => rfl

theorem loop_succ_some (P : GParams) (tmax : ERat) (cfuel fuel : Nat) (s : GState) (tv : Rat) :
    loop P tmax cfuel (fuel + 1) s (some tv) =
      if s.inf.items.isEmpty ∨ !(ERat.lt (some tv) tmax) then pure s else
        TM.popUnif >>= fun r =>
          (if r < recThr P s then mRec P s cfuel tv else mTrans P s cfuel tv) >>=
            mTail P tv (loop P tmax cfuel fuel) := by
  rw [loop]
  split
  · rfl
  · unfold pick
    rw [bind_assoc]
    congr 1
    funext r
    split
    · unfold mRec
      rw [bind_assoc, bind_assoc]
      congr 1
      funext u
      rw [pure_bind, ofOpt_bind]
      simp only [applyEvent]
      cases applyRec P s u tv <;> rfl
    · unfold mTrans
      rw [bind_assoc, bind_assoc]
      congr 1
      funext p
      obtain ⟨u, v⟩ := p
      rw [pure_bind, ofOpt_bind]
      simp only [applyEvent]
      cases applyTrans P s u v tv <;> rfl

end Gillespie

namespace Gillespie

theorem applyRec_ne (P : GParams) (s s' : GState) (u : Node) (t : Rat) (h : applyRec P s u t = some s')
    (hR : s.R ≠ []) : s'.S ≠ [] ∧ s'.I ≠ [] ∧ s'.R ≠ [] := by
  unfold applyRec at h
  simp only [bind, Option.bind, pure] at h
  cases h1 : s.inf.remove u with
  | none => rw [h1] at h; simp at h
  | some inf' =>
    rw [h1] at h
    dsimp only at h
    split at h
    · cases h
    · obtain rfl := Option.some.inj h
      refine ⟨by simp, by simp, ?_⟩
      dsimp only
      split
      · exact hR
      · simp

theorem applyTrans_ne (P : GParams) (s s' : GState) (u v : Node) (t : Rat) (h : applyTrans P s u v t = some s')
    (hR : s.R ≠ []) : s'.S ≠ [] ∧ s'.I ≠ [] ∧ s'.R ≠ [] := by
  unfold applyTrans at h
  simp only [bind, Option.bind, pure] at h
  cases h1 : s.inf.update v (nodeW P v) with
  | none => rw [h1] at h; simp at h
  | some inf' =>
    rw [h1] at h
    dsimp only at h
    split at h
    · cases h
    · obtain rfl := Option.some.inj h
      refine ⟨by simp, by simp, ?_⟩
      dsimp only
      split
      · exact hR
      · simp

end Gillespie

/-! ### SIR: the loop invariant and the main loop -/
namespace GenGSIR
open Gillespie GenGillespie TM
variable {A : PyTM.GArgs} {P : GParams} {tmin : Rat} {tmax : ERat} {cfuel : Nat}

/-- the invariant of the two `while` loops: related states, the model's bookkeeping invariant, the same next event
time, the rate variables of the generated code hold the model's rates, and a finite next event time was drawn with a
positive total rate -/
structure LRel (A : PyTM.GArgs) (P : GParams) (σ : Loc) (s : GState) (t : ERat) : Prop where
  rel : Rel σ s
  inv : Gillespie.Inv P s
  ht : σ.t = t
  rr : σ.total_recovery_rate = recRate P s
  tr : σ.total_transmission_rate = transRate P s
  tot : σ.total_rate = totalRate P s
  pos : ∀ tv, t = some tv → 0 < totalRate P s
  hS : s.S ≠ []
  hI : s.I ≠ []
  hR : s.R ≠ []

/-- the state after an event, before the clock statements -/
structure MidRel (P : GParams) (tv : Rat) (σ : Loc) (s : GState) : Prop where
  rel : Rel σ s
  inv : Gillespie.Inv P s
  ht : σ.t = some tv
  hS : s.S ≠ []
  hI : s.I ≠ []
  hR : s.R ≠ []

/-- one event keeps `transmissions = (some prefix) ++ (entries of the model's logged transmissions)` -/
def TrStep (A : PyTM.GArgs) (σ : Loc) (s : GState) (σ' : Loc) (s' : GState) : Prop :=
  A.full = true → ∀ tr0, σ.transmissions = tr0 ++ transLog s.log → σ'.transmissions = tr0 ++ transLog s'.log

/-- **clock**: the statements from `total_recovery_rate = gamma*infecteds.total_weight()` to the new `t` draw
`expovariate` with the model's total rate -/
theorem tail_sim_full (hag : Agree A P tmin tmax cfuel) (σ : Loc) (s : GState) (tv : Rat) (h : MidRel P tv σ s)
    (k : Loc → TM Loc) (k' : GState → ERat → TM GState) (Q : Loc → GState → Prop)
    (hk : ∀ σ' t', LRel A P σ' s t' → σ'.transmissions = σ.transmissions → Sim (k σ') (k' s t') Q) :
    Sim (tail A k σ) (mTail P tv k' s) Q := by
  have htot : A.gamma * s.inf.totalWeight + A.tau * s.links.totalWeight = totalRate P s := by
    rw [hag.gamma, hag.tau]; rfl
  simp only [tail, GenLD.total_weight_sim _ _ h.rel.inf, GenLD.total_weight_sim _ _ h.rel.links,
    PyTM.liftE_ok_bind, htot, mTail]
  by_cases hpos : totalRate P s > 0
  · simp only [hpos, decide_true, if_true, bind_assoc, pure_bind]
    refine Sim.bind (Sim.refl _) ?_
    rintro d _ rfl
    refine hk _ _ ?_ rfl
    exact ⟨⟨h.rel.status, h.rel.inf, h.rel.links, h.rel.times, h.rel.S, h.rel.I, h.rel.R⟩, h.inv,
      (by simp [h.ht, ERat.add]), (by simp [hag.gamma, recRate]), (by simp [hag.tau, transRate]), rfl,
      (fun _ _ => hpos), h.hS, h.hI, h.hR⟩
  · simp only [hpos, decide_false, if_false, pure_bind, Bool.false_eq_true]
    refine hk _ _ ?_ rfl
    exact ⟨⟨h.rel.status, h.rel.inf, h.rel.links, h.rel.times, h.rel.S, h.rel.I, h.rel.R⟩, h.inv,
      (by simp [h.ht, ERat.add]), (by simp [hag.gamma, recRate]), (by simp [hag.tau, transRate]), rfl,
      (fun _ hc => by cases hc), h.hS, h.hI, h.hR⟩

theorem tail_sim (hag : Agree A P tmin tmax cfuel) (σ : Loc) (s : GState) (tv : Rat) (h : MidRel P tv σ s)
    (k : Loc → TM Loc) (k' : GState → ERat → TM GState) (Q : Loc → GState → Prop)
    (hk : ∀ σ' t', LRel A P σ' s t' → Sim (k σ') (k' s t') Q) :
    Sim (tail A k σ) (mTail P tv k' s) Q :=
  tail_sim_full hag σ s tv h k k' Q (fun σ' t' h _ => hk σ' t' h)

end GenGSIR

namespace GenGSIR
open Gillespie GenGillespie TM
variable {A : PyTM.GArgs} {P : GParams} {tmin : Rat} {tmax : ERat} {cfuel : Nat}

theorem applyRec_none_of_not_mem (P : GParams) (s : GState) (u : Node) (t : Rat) (hu : u ∉ s.inf.items) :
    applyRec P s u t = none := by
  have : s.inf.remove u = none := by unfold LD.remove; rw [if_neg hu]
  simp [applyRec, this]

/-- **recovery branch**: `infecteds.random_removal()` and the statements after it, against the model's
`chooseTM` + `applyRec` -/
theorem rec_branch_sim_full (hag : Agree A P tmin tmax cfuel) (hwf : WF P) (hsir : P.sis = false) (σ : Loc) (s : GState)
    (tv : Rat) (h : LRel A P σ s (some tv)) (K : GenLD.PyLD Node × Node → TM Loc)
    (hK : ∀ l c, K (l, c) = recRest A σ l c) :
    Sim (GenLD.random_removal_tm PyTM.encNode σ.infecteds A.cfuel >>= K) (mRec P s cfuel tv)
      (fun σ' s' => MidRel P tv σ' s' ∧ TrStep A σ s σ' s') := by
  unfold GenLD.random_removal_tm mRec
  rw [bind_assoc, hag.cfuel]
  refine Sim.bind (choose_sim PyTM.encNode σ.infecteds s.inf h.rel.inf h.inv.infInv cfuel) ?_
  rintro ⟨p', c'⟩ c ⟨hp, hc, hmem⟩
  simp only at hp hc
  subst hp hc
  dsimp only
  rw [bind_assoc]
  obtain ⟨s', happ, hinv', -⟩ := applyRec_inv' P hwf s h.inv c' tv hmem
  obtain ⟨inf', hrem, -⟩ := LD.remove_shape s.inf c' hmem
  obtain ⟨l13, hl13, hR13⟩ := GenLD.remove_sim σ.infecteds s.inf inf' c' h.rel.inf h.inv.infInv hrem
  obtain ⟨σ', hσ', hrel', ht', htr'⟩ := recRest_eval hag hsir σ s s' h.rel h.inv.linkInv h.hS h.hI h.hR tv h.ht c'
    inf' l13 hrem hR13 happ
  obtain ⟨n1, n2, n3⟩ := applyRec_ne P s s' c' tv happ h.hR
  rw [hl13, PyTM.liftE_ok_bind, pure_bind, hK, hσ', happ]
  exact Sim.pure _ _ ⟨⟨hrel', hinv', ht', n1, n2, n3⟩, fun _ tr0 h0 => by
    rw [htr', h0, applyRec_log P s s' c' tv happ, transLog_rec]⟩

theorem rec_branch_sim (hag : Agree A P tmin tmax cfuel) (hwf : WF P) (hsir : P.sis = false) (σ : Loc) (s : GState)
    (tv : Rat) (h : LRel A P σ s (some tv)) (K : GenLD.PyLD Node × Node → TM Loc)
    (hK : ∀ l c, K (l, c) = recRest A σ l c) :
    Sim (GenLD.random_removal_tm PyTM.encNode σ.infecteds A.cfuel >>= K) (mRec P s cfuel tv) (MidRel P tv) :=
  (rec_branch_sim_full hag hwf hsir σ s tv h K hK).mono (fun _ _ h => h.1)

/-- **transmission branch**: `IS_links.choose_random()` and the statements after it, against the model's
`chooseTM` + `applyTrans` -/
theorem trans_branch_sim_full (hag : Agree A P tmin tmax cfuel) (hwf : WF P) (hsir : P.sis = false) (σ : Loc)
    (s : GState) (tv : Rat) (h : LRel A P σ s (some tv)) (K : GenLD.PyLD (Node × Node) × (Node × Node) → TM Loc)
    (hK : ∀ l c, K (l, c) = transRest A σ l c) :
    Sim (GenLD.choose_random_tm PyTM.encLink σ.IS_links A.cfuel >>= K) (mTrans P s cfuel tv)
      (fun σ' s' => MidRel P tv σ' s' ∧ TrStep A σ s σ' s') := by
  unfold mTrans
  rw [hag.cfuel]
  refine Sim.bind (choose_sim PyTM.encLink σ.IS_links s.links h.rel.links h.inv.linkInv cfuel) ?_
  rintro ⟨p', ⟨u, v⟩⟩ c ⟨hp, hc, hmem⟩
  simp only at hp hc
  subst hp hc
  obtain ⟨s', happ, hinv', -⟩ := applyTrans_inv' P hwf s h.inv u v tv hmem
  obtain ⟨σ', hσ', hrel', ht', htr'⟩ := transRest_eval hag hwf hsir σ s s' h.rel h.inv.linkInv h.hS h.hI h.hR tv h.ht
    u v σ.IS_links h.rel.links happ
  obtain ⟨n1, n2, n3⟩ := applyTrans_ne P s s' u v tv happ h.hR
  rw [hK, hσ']
  dsimp only
  rw [happ]
  exact Sim.pure _ _ ⟨⟨hrel', hinv', ht', n1, n2, n3⟩, fun hf tr0 h0 => by
    rw [htr', if_pos hf, h0, applyTrans_log P s s' u v tv happ, transLog_trans, List.append_assoc]⟩

end GenGSIR

namespace GenGSIR
open Gillespie GenGillespie TM
variable {A : PyTM.GArgs} {P : GParams} {tmin : Rat} {tmax : ERat} {cfuel : Nat}

theorem trans_branch_sim (hag : Agree A P tmin tmax cfuel) (hwf : WF P) (hsir : P.sis = false) (σ : Loc)
    (s : GState) (tv : Rat) (h : LRel A P σ s (some tv)) (K : GenLD.PyLD (Node × Node) × (Node × Node) → TM Loc)
    (hK : ∀ l c, K (l, c) = transRest A σ l c) :
    Sim (GenLD.choose_random_tm PyTM.encLink σ.IS_links A.cfuel >>= K) (mTrans P s cfuel tv) (MidRel P tv) :=
  (trans_branch_sim_full hag hwf hsir σ s tv h K hK).mono (fun _ _ h => h.1)

/-- **the `while` loop**: from related states the generated loop and the model loop simulate each other -/
theorem loop_sim (hag : Agree A P tmin tmax cfuel) (hwf : WF P) (hsir : P.sis = false) (fuel : Nat) :
    ∀ (σ : Loc) (s : GState) (t : ERat), LRel A P σ s t →
      Sim (loop A fuel σ) (Gillespie.loop P tmax cfuel fuel s t) (fun σ' s' => ∃ t', LRel A P σ' s' t') := by
  induction fuel with
  | zero =>
    intro σ s t h
    rw [loop, Gillespie.loop]
    exact Sim.of_fail (fail_err _) (fail_err _)
  | succ fuel ih =>
    intro σ s t h
    rw [loop_succ]
    cases t with
    | none =>
      rw [Gillespie.loop]
      have : ERat.lt σ.t A.tmax = false := by rw [h.ht]; rfl
      simp only [this, Bool.and_false, Bool.false_eq_true, if_false]
      exact Sim.pure _ _ ⟨none, h⟩
    | some tv =>
      rw [loop_succ_some]
      have hlen : GenLD.len__ σ.infecteds = s.inf.items.length := by
        unfold GenLD.len__; rw [h.rel.inf.items]
      by_cases hc : s.inf.items.isEmpty ∨ !(ERat.lt (some tv) tmax)
      · rw [if_pos hc]
        have : (decide (GenLD.len__ σ.infecteds > 0) && ERat.lt σ.t A.tmax) = false := by
          rw [hlen, h.ht, hag.tmax]
          rcases hc with hc | hc
          · have : s.inf.items = [] := List.isEmpty_iff.1 hc
            simp [this]
          · have : ERat.lt (some tv) tmax = false := by simpa using hc
            simp [this]
        simp only [this, Bool.false_eq_true, if_false]
        exact Sim.pure _ _ ⟨some tv, h⟩
      · rw [if_neg hc]
        have : (decide (GenLD.len__ σ.infecteds > 0) && ERat.lt σ.t A.tmax) = true := by
          rw [hlen, h.ht, hag.tmax]
          rw [not_or] at hc
          obtain ⟨h1, h2⟩ := hc
          have h1' : s.inf.items ≠ [] := fun e => h1 (by simp [e])
          have h2' : ERat.lt (some tv) tmax = true := by simpa using h2
          simp [h2', List.length_pos_iff, h1']
        simp only [this, if_true]
        refine Sim.bind (Sim.refl _) ?_
        rintro r _ rfl
        have hpos := h.pos tv rfl
        rw [h.rr, h.tot, PyTM.fdiv_ok _ _ (ne_of_gt hpos), PyTM.liftE_ok_bind]
        simp only [decide_eq_true_eq]
        refine Sim.bind (Q := MidRel P tv) ?_ ?_
        · exact Sim.ite (fun _ => rec_branch_sim hag hwf hsir σ s tv h _ (fun _ _ => rfl))
            (fun _ => trans_branch_sim hag hwf hsir σ s tv h _ (fun _ _ => rfl))
        · intro σ1 s1 hmid
          refine tail_sim hag σ1 s1 tv hmid _ _ _ ?_
          intro σ2 t2 h2
          exact ih σ2 s1 t2 h2

end GenGSIR

/-! ### SIR: the set-up -/
namespace GenGSIR
open Gillespie GenGillespie TM PyTM
variable {A : PyTM.GArgs} {P : GParams} {tmin : Rat} {tmax : ERat} {cfuel : Nat}

def stBodyI (P : PyTM.GArgs) : Loc → Node → TM Loc := fun (σ : Loc) (node : Node) => do
    let σ := { σ with status := fset σ.status node St.I }
    let σ ← (if P.full then do
      let σ := { σ with infection_times := PyTM.ddAppend σ.infection_times node σ.t }
      let σ := { σ with transmissions := σ.transmissions ++ [(σ.t, none, node)] }
      pure σ
    else do
      pure σ)
    pure σ

def stBodyR (P : PyTM.GArgs) : Loc → Node → TM Loc := fun (σ : Loc) (node : Node) => do
    let σ := { σ with status := fset σ.status node St.R }
    let σ ← (if P.full then do
      let σ := { σ with recovery_times := PyTM.ddAppend σ.recovery_times node σ.t }
      pure σ
    else do
      pure σ)
    pure σ

def initInner (P : PyTM.GArgs) (node : Node) : Loc → Node → TM Loc := fun (σ : Loc) (nbr : Node) => do
      let σ ← (if (decide ((σ.status nbr) = St.S)) then do
        let l_4 ← PyTM.liftE (GenLD.update σ.IS_links (node, nbr) (edgeweight P node nbr))
        let σ := { σ with IS_links := l_4 }
        pure σ
      else do
        pure σ)
      pure σ

def initBody (P : PyTM.GArgs) : Loc → Node → TM Loc := fun (σ : Loc) (node : Node) => do
    let l_3 ← PyTM.liftE (GenLD.update σ.infecteds node (nodeweight P node))
    let σ := { σ with infecteds := l_3 }
    let σ ← (P.nbrs node).foldlM (initInner P node) σ
    pure σ

/-- the set-up statements of `Gillespie_SIR` up to (not including) the first `total_weight()`; then `k` -/
def initK (P : PyTM.GArgs) (initial_infecteds initial_recovereds : List Node) (k : Loc → TM Loc) : TM Loc := do
  let σ : Loc := Loc.init
  let σ := { σ with I := [(initial_infecteds.length : Int)] }
  let σ := { σ with R := [(initial_recovereds.length : Int)] }
  let v_1 ← PyTM.liftE (PyTM.listGet σ.I 0)
  let v_2 ← PyTM.liftE (PyTM.listGet σ.R 0)
  let σ := { σ with S := [(((P.order : Int) - v_1) - v_2)] }
  let σ := { σ with times := [some P.tmin] }
  let σ := { σ with transmissions := [] }
  let σ := { σ with t := (some P.tmin) }
  let σ := { σ with status := (fun _ => St.S) }
  let σ ← initial_infecteds.foldlM (stBodyI P) σ
  let σ ← initial_recovereds.foldlM (stBodyR P) σ
  let σ ← (if P.hasRW then do
    let σ := { σ with infecteds := (GenLD.init true) }
    pure σ
  else do
    let σ := { σ with infecteds := (GenLD.init false) }
    pure σ)
  let σ ← (if P.hasTW then do
    let σ := { σ with IS_links := (GenLD.init true) }
    pure σ
  else do
    let σ := { σ with IS_links := (GenLD.init false) }
    pure σ)
  let σ ← initial_infecteds.foldlM (initBody P) σ
  k σ

theorem run_eq (P : PyTM.GArgs) (infs recs : List Node) (fuel : Nat) :
    run P infs recs fuel = initK P infs recs (tail P (loop P fuel)) := rfl

end GenGSIR

namespace GenGillespie

theorem foldl_fset (X : St) (l : List Node) (st0 : Node → St) (v : Node) :
    (l.foldl (fun st n => fset st n X) st0) v = if v ∈ l then X else st0 v := by
  induction l generalizing st0 with
  | nil => simp
  | cons n rest ih =>
    rw [List.foldl_cons, ih]
    by_cases h1 : v ∈ rest
    · simp [h1]
    · by_cases h2 : v = n
      · simp [h1, h2, fset]
      · simp [h1, h2, fset]

theorem initStatus_eq (infs recs : List Node) :
    recs.foldl (fun st n => fset st n St.R) (infs.foldl (fun st n => fset st n St.I) (fun _ => St.S)) =
      Gillespie.initStatus infs recs := by
  funext v
  rw [foldl_fset, foldl_fset]
  rfl

end GenGillespie

namespace GenGSIR
open Gillespie GenGillespie TM PyTM
variable {A : PyTM.GArgs} {P : GParams} {tmin : Rat} {tmax : ERat} {cfuel : Nat}

def gI (P : PyTM.GArgs) (σ : Loc) (node : Node) : Loc :=
  if P.full then
    { σ with status := fset σ.status node St.I,
             infection_times := PyTM.ddAppend σ.infection_times node σ.t,
             transmissions := σ.transmissions ++ [(σ.t, none, node)] }
  else { σ with status := fset σ.status node St.I }

def gR (P : PyTM.GArgs) (σ : Loc) (node : Node) : Loc :=
  if P.full then
    { σ with status := fset σ.status node St.R,
             recovery_times := PyTM.ddAppend σ.recovery_times node σ.t }
  else { σ with status := fset σ.status node St.R }

theorem stBodyI_eq (P : PyTM.GArgs) (σ : Loc) (n : Node) : stBodyI P σ n = pure (gI P σ n) := by
  unfold stBodyI gI
  cases P.full <;> rfl

theorem stBodyR_eq (P : PyTM.GArgs) (σ : Loc) (n : Node) : stBodyR P σ n = pure (gR P σ n) := by
  unfold stBodyR gR
  cases P.full <;> rfl

/-- the fields of the locals that matter for the simulation -/
def core (σ : Loc) := (σ.infecteds, σ.IS_links, σ.times, σ.S, σ.I, σ.R, σ.t)

theorem foldl_gI (P : PyTM.GArgs) (l : List Node) (σ : Loc) :
    (l.foldl (gI P) σ).status = l.foldl (fun st n => fset st n St.I) σ.status ∧
      core (l.foldl (gI P) σ) = core σ := by
  induction l generalizing σ with
  | nil => exact ⟨rfl, rfl⟩
  | cons n rest ih =>
    rw [List.foldl_cons, List.foldl_cons]
    obtain ⟨h1, h2⟩ := ih (gI P σ n)
    rw [h1, h2]
    unfold gI
    cases P.full <;> exact ⟨rfl, rfl⟩

theorem foldl_gR (P : PyTM.GArgs) (l : List Node) (σ : Loc) :
    (l.foldl (gR P) σ).status = l.foldl (fun st n => fset st n St.R) σ.status ∧
      core (l.foldl (gR P) σ) = core σ := by
  induction l generalizing σ with
  | nil => exact ⟨rfl, rfl⟩
  | cons n rest ih =>
    rw [List.foldl_cons, List.foldl_cons]
    obtain ⟨h1, h2⟩ := ih (gR P σ n)
    rw [h1, h2]
    unfold gR
    cases P.full <;> exact ⟨rfl, rfl⟩

theorem foldl_gI_tr (P : PyTM.GArgs) (l : List Node) (σ : Loc) :
    (l.foldl (gI P) σ).transmissions =
      if P.full then σ.transmissions ++ l.map (fun n => (σ.t, none, n)) else σ.transmissions := by
  induction l generalizing σ with
  | nil => simp
  | cons n rest ih =>
    rw [List.foldl_cons, ih]
    unfold gI
    cases P.full <;> simp

theorem foldl_gR_tr (P : PyTM.GArgs) (l : List Node) (σ : Loc) :
    (l.foldl (gR P) σ).transmissions = σ.transmissions := by
  induction l generalizing σ with
  | nil => rfl
  | cons n rest ih =>
    rw [List.foldl_cons, ih]
    unfold gR
    cases P.full <;> rfl

def initF (A : PyTM.GArgs) (node : Node) (σ : Loc) (nbr : Node) : Option LOp :=
  if σ.status nbr = St.S then some (.upd (node, nbr) (edgeweight A node nbr)) else none

theorem initInner_eq (A : PyTM.GArgs) (node : Node) (σ : Loc) (n : Node) :
    initInner A node σ n = match initF A node σ n with
      | none => pure σ
      | some o => PyTM.liftE (GenLD.applyOp (getL σ) o) >>= fun p => pure (setL σ p) := by
  unfold initInner initF
  by_cases h : σ.status n = St.S
  · simp only [h, decide_true, if_true]; rfl
  · simp only [h, decide_false, if_false, Bool.false_eq_true]

theorem initLinksOps_nonneg (hwf : WF P) (st : Node → St) (v : Node) (l : List Node) :
    ∀ o ∈ initLinksOps P st v l, o.nonneg := by
  intro o ho
  obtain ⟨n, -, hg⟩ := List.mem_filterMap.1 ho
  split at hg
  · cases hg
    cases hw : edgeW P v n with
    | none => trivial
    | some x => exact edgeW_nonneg P hwf v n x hw
  · cases hg

theorem initF_eq (hag : Agree A P tmin tmax cfuel) (v : Node) (σ : Loc) (l : List Node) :
    l.filterMap (initF A v σ) = initLinksOps P σ.status v l := by
  unfold initLinksOps
  congr 1
  funext nbr
  simp only [initF, hag.edgeweight_sir]

/-- the set-up loop `for node in initial_infecteds: infecteds.update(...); for nbr ...: IS_links.update(...)` -/
theorem init_fold (hag : Agree A P tmin tmax cfuel) (hwf : WF P) (l : List Node) :
    ∀ (σ : Loc) (inf inf' : LD Node) (links links' : LD (Node × Node)),
      GenLD.R σ.infecteds inf → GenLD.R σ.IS_links links → LD.Inv inf → LD.Inv links →
      initLoop P σ.status l inf links = some (inf', links') →
      ∃ p1 p2, l.foldlM (initBody A) σ = pure { σ with infecteds := p1, IS_links := p2 } ∧
        GenLD.R p1 inf' ∧ GenLD.R p2 links' := by
  induction l with
  | nil =>
    intro σ inf inf' links links' h1 h2 _ _ h
    simp only [initLoop, Option.some.injEq, Prod.mk.injEq] at h
    obtain ⟨rfl, rfl⟩ := h
    exact ⟨σ.infecteds, σ.IS_links, rfl, h1, h2⟩
  | cons node rest ih =>
    intro σ inf inf' links links' h1 h2 hI1 hI2 h
    rw [initLoop] at h
    cases hu : inf.update node (nodeW P node) with
    | none => rw [hu] at h; simp at h
    | some inf1 =>
      rw [hu] at h
      dsimp only at h
      cases hl : initLinks P σ.status node links (P.nbrs node) with
      | none => rw [hl] at h; simp at h
      | some links1 =>
        rw [hl] at h
        dsimp only at h
        obtain ⟨l3, hl3, hR3⟩ := GenLD.update_sim σ.infecteds inf inf1 node (nodeW P node) h1 hu
        rw [← hag.nodeweight_sir] at hl3
        have hInv1 : LD.Inv inf1 := LD.inv_update inf inf1 node (nodeW P node) hI1 (nodeW_nonneg P hwf node) hu
        rw [initLinks_eq] at hl
        have hInv2 : LD.Inv links1 := LD.inv_applyOps links _ links1 hI2 (initLinksOps_nonneg hwf _ _ _) hl
        obtain ⟨p', hp', hRp⟩ := GenLD.applyOps_sim_from σ.IS_links links links1 _ h2 hI2
          (initLinksOps_nonneg hwf _ _ _) hl
        have hfold : (A.nbrs node).foldlM (initInner A node) { σ with infecteds := l3 } =
            pure (setL { σ with infecteds := l3 } p') := by
          refine foldlM_ops getL setL (initF A node) (fun _ _ _ => rfl) setL_laws.1 setL_laws.2.1 setL_laws.2.2
            (initInner A node) (initInner_eq A node) (A.nbrs node) _ p' ?_
          rw [initF_eq hag, hag.nbrs]; exact hp'
        obtain ⟨p1, p2, hfin, hR1, hR2⟩ := ih (setL { σ with infecteds := l3 } p') inf1 inf' links1 links'
          hR3 hRp hInv1 hInv2 h
        refine ⟨p1, p2, ?_, hR1, hR2⟩
        rw [List.foldlM_cons]
        unfold initBody
        simp only [hl3, PyTM.liftE_ok_bind, bind_pure]
        rw [hfold, pure_bind]
        exact hfin

end GenGSIR

namespace GenGSIR
open Gillespie GenGillespie TM PyTM
variable {A : PyTM.GArgs} {P : GParams} {tmin : Rat} {tmax : ERat} {cfuel : Nat}

theorem ite_inf (σ : Loc) (b : Bool) :
    (if b = true then (pure { σ with infecteds := GenLD.init true } : TM Loc)
      else pure { σ with infecteds := GenLD.init false }) = pure { σ with infecteds := GenLD.init b } := by
  cases b <;> rfl

theorem ite_links (σ : Loc) (b : Bool) :
    (if b = true then (pure { σ with IS_links := GenLD.init true } : TM Loc)
      else pure { σ with IS_links := GenLD.init false }) = pure { σ with IS_links := GenLD.init b } := by
  cases b <;> rfl

/-- **set-up, forward**: if the model's `init` succeeds, the generated set-up statements return normally, without
touching the tape, in a related state -/
theorem initK_eval (hag : Agree A P tmin tmax cfuel) (hwf : WF P) (infs recs : List Node) (s0 : GState)
    (h0 : init P infs recs tmin = some s0) (hinv0 : Gillespie.Inv P s0) :
    ∃ σ0, (∀ k, initK A infs recs k = k σ0) ∧ MidRel P tmin σ0 s0 ∧
      (A.full = true → σ0.transmissions = initTrans tmin infs) := by
  simp only [init] at h0
  cases hloop : initLoop P (initStatus infs recs) infs (LD.empty P.nw.isSome) (LD.empty P.ew.isSome) with
  | none => rw [hloop] at h0; simp at h0
  | some pr =>
    obtain ⟨inf', links'⟩ := pr
    rw [hloop] at h0
    simp only [Option.some.injEq] at h0
    subst h0
    -- the state before the main set-up loop
    let σa : Loc :=
      { Loc.init with
        I := [(infs.length : Int)]
        R := [(recs.length : Int)]
        S := [(((A.order : Int) - (infs.length : Int)) - (recs.length : Int))]
        times := [some A.tmin]
        transmissions := []
        t := some A.tmin
        status := fun _ => St.S }
    let σc : Loc := recs.foldl (gR A) (infs.foldl (gI A) σa)
    let σd : Loc := { σc with infecteds := GenLD.init A.hasRW, IS_links := GenLD.init A.hasTW }
    have hst : σc.status = initStatus infs recs := by
      show (recs.foldl (gR A) (infs.foldl (gI A) σa)).status = _
      rw [(foldl_gR A recs _).1, (foldl_gI A infs _).1]
      exact initStatus_eq infs recs
    have hcore : core σc = core σa := by
      show core (recs.foldl (gR A) (infs.foldl (gI A) σa)) = _
      rw [(foldl_gR A recs _).2, (foldl_gI A infs _).2]
    simp only [core, Prod.mk.injEq] at hcore
    obtain ⟨-, -, c3, c4, c5, c6, c7⟩ := hcore
    obtain ⟨p1, p2, hfold, hR1, hR2⟩ := init_fold hag hwf infs σd (LD.empty P.nw.isSome) inf'
      (LD.empty P.ew.isSome) links'
      (by show GenLD.R (GenLD.init A.hasRW) _; rw [hag.hasRW]; exact GenLD.init_R _)
      (by show GenLD.R (GenLD.init A.hasTW) _; rw [hag.hasTW]; exact GenLD.init_R _)
      (LD.inv_empty _) (LD.inv_empty _)
      (by show initLoop P σc.status infs _ _ = _; rw [hst]; exact hloop)
    refine ⟨{ σd with infecteds := p1, IS_links := p2 }, ?_, ?_, ?_⟩
    · intro k
      unfold initK
      simp only [Loc.init, listGet, List.getElem?_cons_zero, GenLD.pure_eq_ok, liftE_ok_bind,
        foldlM_pure _ _ (stBodyI_eq A), foldlM_pure _ _ (stBodyR_eq A), pure_bind, ite_inf, ite_links]
      exact congrArg (· >>= k) hfold |>.trans (pure_bind _ _)
    rotate_left
    · intro hf
      show (recs.foldl (gR A) (infs.foldl (gI A) σa)).transmissions = _
      rw [foldl_gR_tr, foldl_gI_tr, if_pos hf]
      simp [σa, initTrans, hag.tmin]
    · refine ⟨⟨hst, hR1, hR2, ?_, ?_, ?_, ?_⟩, hinv0, ?_, by simp, by simp, by simp⟩
      · show σc.times = _
        rw [c3]; simp [σa, hag.tmin]
      · show σc.S = _
        rw [c4]; simp [σa, hag.order]
      · show σc.I = _
        rw [c5]; simp [σa]
      · show σc.R = _
        rw [c6]; simp [σa]
      · show σc.t = _
        rw [c7]; simp [σa, hag.tmin]

end GenGSIR

namespace GenGSIR
open Gillespie GenGillespie TM PyTM
variable {A : PyTM.GArgs} {P : GParams} {tmin : Rat} {tmax : ERat} {cfuel : Nat}

/-- **the whole function**: the generated `Gillespie_SIR` and the model's `run` simulate each other on every tape -/
theorem run_sim (hag : Agree A P tmin tmax cfuel) (hwf : WF P) (hsir : P.sis = false) (infs recs : List Node)
    (fuel : Nat) (hi : infs.Nodup) (him : ∀ u ∈ infs, u ∈ P.nodes) (hd : ∀ u ∈ infs, u ∉ recs) :
    Sim (run A infs recs fuel) (Gillespie.run P infs recs tmin tmax fuel cfuel)
      (fun σ s => ∃ t, LRel A P σ s t) := by
  obtain ⟨s0, h0, hinv0, -⟩ := init_inv' P hwf infs recs tmin hi him hd (fun h => by rw [hsir] at h; cases h)
  obtain ⟨σ0, hσ0, hmid, htr0⟩ := initK_eval hag hwf infs recs s0 h0 hinv0
  rw [run_eq, hσ0]
  unfold Gillespie.run
  rw [h0]
  exact tail_sim hag σ0 s0 tmin hmid _ (Gillespie.loop P tmax cfuel fuel) _
    (fun σ' t' h => loop_sim hag hwf hsir fuel σ' s0 t' h)

end GenGSIR

/-! ## SIS -/

/-! ### decomposition of the generated SIS loop into named pieces (each is the generated text, verbatim) -/
namespace GenGSIS
open PyTM

def recBody (P : PyTM.GArgs) (recovering_node : Node) : Loc → Node → TM Loc := fun (σ : Loc) (nbr : Node) => do
          let σ ← (if (decide (nbr = recovering_node)) then do
            pure σ
          else do
            let σ ← (if (decide ((σ.status nbr) = St.S)) then do
              let l_13 ← PyTM.liftE (GenLD.remove σ.IS_links (recovering_node, nbr))
              let σ := { σ with IS_links := l_13 }
              pure σ
            else do
              let l_14 ← PyTM.liftE (GenLD.update σ.IS_links (nbr, recovering_node) (edgeweight P recovering_node nbr))
              let σ := { σ with IS_links := l_14 }
              pure σ)
            pure σ)
          pure σ

def transBody (P : PyTM.GArgs) (recipient : Node) : Loc → Node → TM Loc := fun (σ : Loc) (nbr : Node) => do
          let σ ← (if (decide ((σ.status nbr) = St.S)) then do
            let l_20 ← PyTM.liftE (GenLD.update σ.IS_links (recipient, nbr) (edgeweight P recipient nbr))
            let σ := { σ with IS_links := l_20 }
            pure σ
          else do
            let σ ← (if (decide (nbr ≠ recipient)) then do
              let l_21 ← PyTM.liftE (GenLD.remove σ.IS_links (nbr, recipient))
              let σ := { σ with IS_links := l_21 }
              pure σ
            else do
              pure σ)
            pure σ)
          pure σ

def recPost (σ : Loc) : TM Loc := do
        let σ := { σ with times := σ.times ++ [σ.t] }
        let v_15 ← PyTM.liftE (PyTM.listLast σ.S)
        let σ := { σ with S := σ.S ++ [(v_15 + 1)] }
        let v_16 ← PyTM.liftE (PyTM.listLast σ.I)
        let σ := { σ with I := σ.I ++ [(v_16 - 1)] }
        pure σ

def transPost (σ : Loc) : TM Loc := do
        let σ := { σ with times := σ.times ++ [σ.t] }
        let v_22 ← PyTM.liftE (PyTM.listLast σ.S)
        let σ := { σ with S := σ.S ++ [(v_22 - 1)] }
        let v_23 ← PyTM.liftE (PyTM.listLast σ.I)
        let σ := { σ with I := σ.I ++ [(v_23 + 1)] }
        pure σ

/-- the recovery branch after `infecteds.random_removal()` returned `(l_12, c_11)` -/
def recRest (P : PyTM.GArgs) (σ : Loc) (l_12 : GenLD.PyLD Node) (c_11 : Node) : TM Loc := do
        let σ := { σ with infecteds := l_12 }
        let recovering_node := c_11
        let σ := { σ with status := fset σ.status recovering_node St.S }
        let σ ← (if P.full then do
          let σ := { σ with recovery_times := PyTM.ddAppend σ.recovery_times recovering_node σ.t }
          pure σ
        else do
          pure σ)
        let σ ← (P.nbrs recovering_node).foldlM (recBody P recovering_node) σ
        recPost σ

/-- the transmission branch after `IS_links.choose_random()` returned `(l_18, c_17)` -/
def transRest (P : PyTM.GArgs) (σ : Loc) (l_18 : GenLD.PyLD (Node × Node)) (c_17 : Node × Node) : TM Loc := do
        let σ := { σ with IS_links := l_18 }
        let (transmitter, recipient) := c_17
        let σ := { σ with status := fset σ.status recipient St.I }
        let σ ← (if P.full then do
          let σ := { σ with infection_times := PyTM.ddAppend σ.infection_times recipient σ.t }
          let σ := { σ with transmissions := σ.transmissions ++ [(σ.t, some transmitter, recipient)] }
          pure σ
        else do
          pure σ)
        let l_19 ← PyTM.liftE (GenLD.update σ.infecteds recipient (nodeweight P recipient))
        let σ := { σ with infecteds := l_19 }
        let σ ← (P.nbrs recipient).foldlM (transBody P recipient) σ
        transPost σ

/-- the statements after the event: both `total_weight()` calls, the clock draw, the new time; then `k` -/
def tail (P : PyTM.GArgs) (k : Loc → TM Loc) (σ : Loc) : TM Loc := do
      let (l_25, w_24) ← PyTM.liftE (GenLD.total_weight σ.infecteds)
      let σ := { σ with infecteds := l_25 }
      let σ := { σ with total_recovery_rate := (P.gamma * w_24) }
      let (l_27, w_26) ← PyTM.liftE (GenLD.total_weight σ.IS_links)
      let σ := { σ with IS_links := l_27 }
      let σ := { σ with total_transmission_rate := (P.tau * w_26) }
      let σ := { σ with total_rate := (σ.total_recovery_rate + σ.total_transmission_rate) }
      let σ ← (if (decide (σ.total_rate > (0 : Rat))) then do
        let d_28 ← TM.popExpo σ.total_rate
        let σ := { σ with delay := (some d_28) }
        pure σ
      else do
        let σ := { σ with delay := none }
        pure σ)
      let σ := { σ with t := (ERat.add σ.t σ.delay) }
      k σ

theorem loop_succ (P : PyTM.GArgs) (fuel : Nat) (σ : Loc) :
    loop P (fuel + 1) σ =
      if ((decide (GenLD.len__ σ.infecteds > 0)) && (ERat.lt σ.t P.tmax)) then do
        let u_9 ← TM.popUnif
        let q_10 ← PyTM.liftE (PyTM.fdiv σ.total_recovery_rate σ.total_rate)
        let σ ← (if (decide (u_9 < q_10)) then do
            let (l_12, c_11) ← GenLD.random_removal_tm PyTM.encNode σ.infecteds P.cfuel
            recRest P σ l_12 c_11
          else do
            let (l_18, c_17) ← GenLD.choose_random_tm PyTM.encLink σ.IS_links P.cfuel
            transRest P σ l_18 c_17)
        tail P (loop P fuel) σ
      else pure σ := by
  rw [loop]
  rfl

def stBodyI (P : PyTM.GArgs) : Loc → Node → TM Loc := fun (σ : Loc) (node : Node) => do
    let σ := { σ with status := fset σ.status node St.I }
    let σ ← (if P.full then do
      let σ := { σ with infection_times := PyTM.ddAppend σ.infection_times node σ.t }
      let σ := { σ with transmissions := σ.transmissions ++ [(σ.t, none, node)] }
      pure σ
    else do
      pure σ)
    pure σ

def initInner (P : PyTM.GArgs) (node : Node) : Loc → Node → TM Loc := fun (σ : Loc) (nbr : Node) => do
      let σ ← (if (decide ((σ.status nbr) = St.S)) then do
        let l_3 ← PyTM.liftE (GenLD.update σ.IS_links (node, nbr) (edgeweight P node nbr))
        let σ := { σ with IS_links := l_3 }
        pure σ
      else do
        pure σ)
      pure σ

def initBody (P : PyTM.GArgs) : Loc → Node → TM Loc := fun (σ : Loc) (node : Node) => do
    let l_2 ← PyTM.liftE (GenLD.update σ.infecteds node (nodeweight P node))
    let σ := { σ with infecteds := l_2 }
    let σ ← (P.nbrs node).foldlM (initInner P node) σ
    pure σ

/-- the set-up statements of `Gillespie_SIS` up to (not including) the first `total_weight()`; then `k` -/
def initK (P : PyTM.GArgs) (initial_infecteds : List Node) (k : Loc → TM Loc) : TM Loc := do
  let σ : Loc := Loc.init
  let σ := { σ with I := [(initial_infecteds.length : Int)] }
  let v_1 ← PyTM.liftE (PyTM.listGet σ.I 0)
  let σ := { σ with S := [((P.order : Int) - v_1)] }
  let σ := { σ with times := [some P.tmin] }
  let σ := { σ with t := (some P.tmin) }
  let σ := { σ with transmissions := [] }
  let σ := { σ with status := (fun _ => St.S) }
  let σ ← initial_infecteds.foldlM (stBodyI P) σ
  let σ ← (if (!P.hasRW) then do
    let σ := { σ with infecteds := (GenLD.init false) }
    pure σ
  else do
    let σ := { σ with infecteds := (GenLD.init true) }
    pure σ)
  let σ ← (if (!P.hasTW) then do
    let σ := { σ with IS_links := (GenLD.init false) }
    pure σ
  else do
    let σ := { σ with IS_links := (GenLD.init true) }
    pure σ)
  let σ ← initial_infecteds.foldlM (initBody P) σ
  k σ

theorem run_eq (P : PyTM.GArgs) (infs : List Node) (fuel : Nat) :
    run P infs fuel = initK P infs (tail P (loop P fuel)) := rfl

end GenGSIS

/-! ### SIS: relation, loop bodies, event branches -/
namespace GenGSIS
open Gillespie GenGillespie TM PyTM
variable {A : PyTM.GArgs} {P : GParams} {tmin : Rat} {tmax : ERat} {cfuel : Nat}

/-- **simulation relation** between the locals of the generated `Gillespie_SIS` and the model state (`P.sis = true`;
the SIS function has no `R` row) -/
structure Rel (σ : Loc) (s : GState) : Prop where
  status : σ.status = s.status
  inf : GenLD.R σ.infecteds s.inf
  links : GenLD.R σ.IS_links s.links
  times : σ.times = s.times.reverse.map some
  S : σ.S = s.S.reverse
  I : σ.I = s.I.reverse

def getL (σ : Loc) : GenLD.PyLD (Node × Node) := σ.IS_links
def setL (σ : Loc) (p : GenLD.PyLD (Node × Node)) : Loc := { σ with IS_links := p }

theorem setL_laws :
    (∀ (σ : Loc) p, getL (setL σ p) = p) ∧ (∀ (σ : Loc) a b, setL (setL σ a) b = setL σ b) ∧
    (∀ σ : Loc, setL σ (getL σ) = σ) := ⟨fun _ _ => rfl, fun _ _ _ => rfl, fun _ => rfl⟩

def recF (A : PyTM.GArgs) (u : Node) (σ : Loc) (nbr : Node) : Option LOp :=
  if nbr = u then none
  else if σ.status nbr = St.S then some (.rem (u, nbr))
  else some (.upd (nbr, u) (edgeweight A u nbr))

theorem recBody_eq (A : PyTM.GArgs) (u : Node) (σ : Loc) (n : Node) :
    recBody A u σ n = match recF A u σ n with
      | none => pure σ
      | some o => PyTM.liftE (GenLD.applyOp (getL σ) o) >>= fun p => pure (setL σ p) := by
  unfold recBody recF
  by_cases h0 : n = u
  · simp only [h0, decide_true, if_true]
  · by_cases h : σ.status n = St.S
    · simp only [h0, h, decide_true, decide_false, if_true, if_false, Bool.false_eq_true]; rfl
    · simp only [h0, h, decide_false, if_false, Bool.false_eq_true]; rfl

def transF (A : PyTM.GArgs) (v : Node) (σ : Loc) (nbr : Node) : Option LOp :=
  if σ.status nbr = St.S then some (.upd (v, nbr) (edgeweight A v nbr))
  else if nbr ≠ v then some (.rem (nbr, v))
  else none

theorem transBody_eq (A : PyTM.GArgs) (v : Node) (σ : Loc) (n : Node) :
    transBody A v σ n = match transF A v σ n with
      | none => pure σ
      | some o => PyTM.liftE (GenLD.applyOp (getL σ) o) >>= fun p => pure (setL σ p) := by
  unfold transBody transF
  by_cases h : σ.status n = St.S
  · simp only [h, decide_true, if_true]; rfl
  · by_cases h2 : n ≠ v
    · simp only [h, h2, decide_true, decide_false, if_false, if_true, Bool.false_eq_true, ne_eq,
        not_false_eq_true]; rfl
    · simp only [h, h2, decide_false, if_false, Bool.false_eq_true]

theorem recSISOps_nonneg (hwf : WF P) (st : Node → St) (u : Node) (l : List Node) :
    ∀ o ∈ recSISOps P st u l, o.nonneg := by
  intro o ho
  obtain ⟨n, -, hg⟩ := List.mem_filterMap.1 ho
  split at hg
  · cases hg
  · split at hg
    · cases hg; trivial
    · cases hg
      cases hw : edgeW P u n with
      | none => trivial
      | some x => exact edgeW_nonneg P hwf u n x hw

theorem recF_eq (hag : Agree A P tmin tmax cfuel) (u : Node) (σ : Loc) (l : List Node) :
    l.filterMap (recF A u σ) = recSISOps P σ.status u l := by
  unfold recSISOps
  congr 1
  funext nbr
  simp only [recF, hag.edgeweight_sis]

theorem transF_eq (hag : Agree A P tmin tmax cfuel) (hsis : P.sis = true) (v : Node) (σ : Loc) (l : List Node) :
    l.filterMap (transF A v σ) = transOps P σ.status v l := by
  unfold transOps
  congr 1
  funext nbr
  simp only [transF, hag.edgeweight_sis, hsis, true_or, true_and]

/-- the recovery loop of the generated code -/
theorem rec_fold (hag : Agree A P tmin tmax cfuel) (hwf : WF P) (u : Node) (σ : Loc)
    (links links' : LD (Node × Node)) (hR : GenLD.R σ.IS_links links) (hI : LD.Inv links)
    (h : recLoopSIS P σ.status u links (A.nbrs u) = some links') :
    ∃ p', (A.nbrs u).foldlM (recBody A u) σ = pure (setL σ p') ∧ GenLD.R p' links' := by
  rw [recLoopSIS_eq] at h
  obtain ⟨p', hp', hR'⟩ := GenLD.applyOps_sim_from σ.IS_links links links' _ hR hI
    (recSISOps_nonneg hwf _ _ _) h
  refine ⟨p', ?_, hR'⟩
  refine foldlM_ops getL setL (recF A u) (fun _ _ _ => rfl) setL_laws.1 setL_laws.2.1 setL_laws.2.2
    (recBody A u) (recBody_eq A u) (A.nbrs u) σ p' ?_
  rw [recF_eq hag]; exact hp'

/-- the transmission loop of the generated code -/
theorem trans_fold (hag : Agree A P tmin tmax cfuel) (hwf : WF P) (hsis : P.sis = true) (v : Node) (σ : Loc)
    (links links' : LD (Node × Node)) (hR : GenLD.R σ.IS_links links) (hI : LD.Inv links)
    (h : transLoop P σ.status v links (A.nbrs v) = some links') :
    ∃ p', (A.nbrs v).foldlM (transBody A v) σ = pure (setL σ p') ∧ GenLD.R p' links' := by
  rw [transLoop_eq] at h
  obtain ⟨p', hp', hR'⟩ := GenLD.applyOps_sim_from σ.IS_links links links' _ hR hI
    (GenGSIR.transOps_nonneg hwf _ _ _) h
  refine ⟨p', ?_, hR'⟩
  refine foldlM_ops getL setL (transF A v) (fun _ _ _ => rfl) setL_laws.1 setL_laws.2.1 setL_laws.2.2
    (transBody A v) (transBody_eq A v) (A.nbrs v) σ p' ?_
  rw [transF_eq hag hsis]; exact hp'

/-- **recovery branch, forward** -/
theorem recRest_eval (hag : Agree A P tmin tmax cfuel) (hwf : WF P) (hsis : P.sis = true) (σ : Loc)
    (s s' : GState) (hrel : Rel σ s) (hIl : LD.Inv s.links) (hS : s.S ≠ []) (hI : s.I ≠ [])
    (tv : Rat) (ht : σ.t = some tv) (u : Node) (inf' : LD Node) (l12 : GenLD.PyLD Node)
    (hrem : s.inf.remove u = some inf') (hR12 : GenLD.R l12 inf') (happ : applyRec P s u tv = some s') :
    ∃ σ', recRest A σ l12 u = pure σ' ∧ Rel σ' s' ∧ σ'.t = some tv ∧ σ'.transmissions = σ.transmissions := by
  simp only [applyRec, hrem, hsis, if_true, bind, Option.bind] at happ
  cases hl : recLoopSIS P (fset s.status u St.S) u s.links (P.nbrs u) with
  | none => rw [hl] at happ; simp at happ
  | some links' =>
    rw [hl] at happ
    simp only [pure, Option.some.injEq] at happ
    subst happ
    obtain ⟨a, Sr, hS'⟩ := List.exists_cons_of_ne_nil hS
    obtain ⟨b, Ir, hI'⟩ := List.exists_cons_of_ne_nil hI
    cases hfull : A.full
    · obtain ⟨p', hp', hRp⟩ := rec_fold hag hwf u
        { σ with infecteds := l12, status := fset σ.status u St.S } s.links links' hrel.links hIl
        (by rw [hag.nbrs]; show recLoopSIS P (fset σ.status u St.S) u s.links (P.nbrs u) = some links'
            rw [hrel.status]; exact hl)
      refine ⟨?w, ?h1, ?h2, ?h3, ?h4⟩
      case h1 =>
        unfold recRest
        simp only [hfull, Bool.false_eq_true, if_false, pure_bind]
        rw [hp', pure_bind]
        simp only [recPost, setL, hrel.S, hrel.I, hS', hI', PyTM.listLast_reverse_cons, PyTM.liftE_ok_bind]
        rfl
      · exact ⟨by simp [hrel.status], hR12, hRp, by simp [hrel.times, ht], by simp [hrel.S, hS', hd],
          by simp [hrel.I, hI', hd]⟩
      · exact ht
      · rfl
    · obtain ⟨p', hp', hRp⟩ := rec_fold hag hwf u
        { σ with infecteds := l12, status := fset σ.status u St.S,
                 recovery_times := PyTM.ddAppend σ.recovery_times u σ.t } s.links links' hrel.links hIl
        (by rw [hag.nbrs]; show recLoopSIS P (fset σ.status u St.S) u s.links (P.nbrs u) = some links'
            rw [hrel.status]; exact hl)
      refine ⟨?w', ?h1', ?h2', ?h3', ?h4'⟩
      case h1' =>
        unfold recRest
        simp only [hfull, if_true, pure_bind]
        rw [hp', pure_bind]
        simp only [recPost, setL, hrel.S, hrel.I, hS', hI', PyTM.listLast_reverse_cons, PyTM.liftE_ok_bind]
        rfl
      · exact ⟨by simp [hrel.status], hR12, hRp, by simp [hrel.times, ht], by simp [hrel.S, hS', hd],
          by simp [hrel.I, hI', hd]⟩
      · exact ht
      · rfl

/-- **transmission branch, forward** -/
theorem transRest_eval (hag : Agree A P tmin tmax cfuel) (hwf : WF P) (hsis : P.sis = true) (σ : Loc)
    (s s' : GState) (hrel : Rel σ s) (hIl : LD.Inv s.links) (hS : s.S ≠ []) (hI : s.I ≠ [])
    (tv : Rat) (ht : σ.t = some tv) (u v : Node) (l18 : GenLD.PyLD (Node × Node))
    (hR18 : GenLD.R l18 s.links) (happ : applyTrans P s u v tv = some s') :
    ∃ σ', transRest A σ l18 (u, v) = pure σ' ∧ Rel σ' s' ∧ σ'.t = some tv ∧
      σ'.transmissions =
        if A.full then σ.transmissions ++ [(some tv, some u, v)] else σ.transmissions := by
  simp only [applyTrans, hsis, if_true, bind, Option.bind] at happ
  cases hu : s.inf.update v (nodeW P v) with
  | none => rw [hu] at happ; simp at happ
  | some inf' =>
  rw [hu] at happ
  dsimp only at happ
  cases hl : transLoop P (fset s.status v St.I) v s.links (P.nbrs v) with
  | none => rw [hl] at happ; simp at happ
  | some links' =>
    rw [hl] at happ
    simp only [pure, Option.some.injEq] at happ
    subst happ
    obtain ⟨a, Sr, hS'⟩ := List.exists_cons_of_ne_nil hS
    obtain ⟨b, Ir, hI'⟩ := List.exists_cons_of_ne_nil hI
    obtain ⟨l19, hl19, hR19⟩ := GenLD.update_sim σ.infecteds s.inf inf' v (nodeW P v) hrel.inf hu
    rw [← hag.nodeweight_sis] at hl19
    cases hfull : A.full
    · obtain ⟨p', hp', hRp⟩ := trans_fold hag hwf hsis v
        { σ with IS_links := l18, status := fset σ.status v St.I, infecteds := l19 } s.links links' hR18 hIl
        (by rw [hag.nbrs]; show transLoop P (fset σ.status v St.I) v s.links (P.nbrs v) = some links'
            rw [hrel.status]; exact hl)
      refine ⟨?w, ?h1, ?h2, ?h3, ?h4⟩
      case h1 =>
        unfold transRest
        simp only [hfull, Bool.false_eq_true, if_false, pure_bind, hl19, PyTM.liftE_ok_bind]
        rw [hp', pure_bind]
        simp only [transPost, setL, hrel.S, hrel.I, hS', hI', PyTM.listLast_reverse_cons, PyTM.liftE_ok_bind]
        rfl
      · exact ⟨by simp [hrel.status], hR19, hRp, by simp [hrel.times, ht], by simp [hrel.S, hS', hd],
          by simp [hrel.I, hI', hd]⟩
      · exact ht
      · simp [ht]
    · obtain ⟨p', hp', hRp⟩ := trans_fold hag hwf hsis v
        { σ with IS_links := l18, status := fset σ.status v St.I, infecteds := l19,
                 infection_times := PyTM.ddAppend σ.infection_times v σ.t,
                 transmissions := σ.transmissions ++ [(σ.t, some u, v)] } s.links links' hR18 hIl
        (by rw [hag.nbrs]; show transLoop P (fset σ.status v St.I) v s.links (P.nbrs v) = some links'
            rw [hrel.status]; exact hl)
      refine ⟨?w', ?h1', ?h2', ?h3', ?h4'⟩
      case h1' =>
        unfold transRest
        simp only [hfull, if_true, pure_bind, hl19, PyTM.liftE_ok_bind]
        rw [hp', pure_bind]
        simp only [transPost, setL, hrel.S, hrel.I, hS', hI', PyTM.listLast_reverse_cons, PyTM.liftE_ok_bind]
        rfl
      · exact ⟨by simp [hrel.status], hR19, hRp, by simp [hrel.times, ht], by simp [hrel.S, hS', hd],
          by simp [hrel.I, hI', hd]⟩
      · exact ht
      · simp [ht]

end GenGSIS

namespace Gillespie

theorem applyRec_ne2 (P : GParams) (s s' : GState) (u : Node) (t : Rat) (h : applyRec P s u t = some s') :
    s'.S ≠ [] ∧ s'.I ≠ [] := by
  unfold applyRec at h
  simp only [bind, Option.bind, pure] at h
  cases h1 : s.inf.remove u with
  | none => rw [h1] at h; simp at h
  | some inf' =>
    rw [h1] at h
    dsimp only at h
    split at h
    · cases h
    · obtain rfl := Option.some.inj h
      exact ⟨by simp, by simp⟩

theorem applyTrans_ne2 (P : GParams) (s s' : GState) (u v : Node) (t : Rat) (h : applyTrans P s u v t = some s') :
    s'.S ≠ [] ∧ s'.I ≠ [] := by
  unfold applyTrans at h
  simp only [bind, Option.bind, pure] at h
  cases h1 : s.inf.update v (nodeW P v) with
  | none => rw [h1] at h; simp at h
  | some inf' =>
    rw [h1] at h
    dsimp only at h
    split at h
    · cases h
    · obtain rfl := Option.some.inj h
      exact ⟨by simp, by simp⟩

end Gillespie

/-! ### SIS: the loop invariant and the main loop -/
namespace GenGSIS
open Gillespie GenGillespie TM PyTM
variable {A : PyTM.GArgs} {P : GParams} {tmin : Rat} {tmax : ERat} {cfuel : Nat}

/-- the invariant of the two `while` loops (see `GenGSIR.LRel`) -/
structure LRel (A : PyTM.GArgs) (P : GParams) (σ : Loc) (s : GState) (t : ERat) : Prop where
  rel : Rel σ s
  inv : Gillespie.Inv P s
  ht : σ.t = t
  rr : σ.total_recovery_rate = recRate P s
  tr : σ.total_transmission_rate = transRate P s
  tot : σ.total_rate = totalRate P s
  pos : ∀ tv, t = some tv → 0 < totalRate P s
  hS : s.S ≠ []
  hI : s.I ≠ []

/-- the state after an event, before the clock statements -/
structure MidRel (P : GParams) (tv : Rat) (σ : Loc) (s : GState) : Prop where
  rel : Rel σ s
  inv : Gillespie.Inv P s
  ht : σ.t = some tv
  hS : s.S ≠ []
  hI : s.I ≠ []

/-- one event keeps `transmissions = (some prefix) ++ (entries of the model's logged transmissions)` -/
def TrStep (A : PyTM.GArgs) (σ : Loc) (s : GState) (σ' : Loc) (s' : GState) : Prop :=
  A.full = true → ∀ tr0, σ.transmissions = tr0 ++ transLog s.log → σ'.transmissions = tr0 ++ transLog s'.log

/-- **clock** -/
theorem tail_sim_full (hag : Agree A P tmin tmax cfuel) (σ : Loc) (s : GState) (tv : Rat) (h : MidRel P tv σ s)
    (k : Loc → TM Loc) (k' : GState → ERat → TM GState) (Q : Loc → GState → Prop)
    (hk : ∀ σ' t', LRel A P σ' s t' → σ'.transmissions = σ.transmissions → Sim (k σ') (k' s t') Q) :
    Sim (tail A k σ) (mTail P tv k' s) Q := by
  have htot : A.gamma * s.inf.totalWeight + A.tau * s.links.totalWeight = totalRate P s := by
    rw [hag.gamma, hag.tau]; rfl
  simp only [tail, GenLD.total_weight_sim _ _ h.rel.inf, GenLD.total_weight_sim _ _ h.rel.links,
    PyTM.liftE_ok_bind, htot, mTail]
  by_cases hpos : totalRate P s > 0
  · simp only [hpos, decide_true, if_true, bind_assoc, pure_bind]
    refine Sim.bind (Sim.refl _) ?_
    rintro d _ rfl
    refine hk _ _ ?_ rfl
    exact ⟨⟨h.rel.status, h.rel.inf, h.rel.links, h.rel.times, h.rel.S, h.rel.I⟩, h.inv,
      (by simp [h.ht, ERat.add]), (by simp [hag.gamma, recRate]), (by simp [hag.tau, transRate]), rfl,
      (fun _ _ => hpos), h.hS, h.hI⟩
  · simp only [hpos, decide_false, if_false, pure_bind, Bool.false_eq_true]
    refine hk _ _ ?_ rfl
    exact ⟨⟨h.rel.status, h.rel.inf, h.rel.links, h.rel.times, h.rel.S, h.rel.I⟩, h.inv,
      (by simp [h.ht, ERat.add]), (by simp [hag.gamma, recRate]), (by simp [hag.tau, transRate]), rfl,
      (fun _ hc => by cases hc), h.hS, h.hI⟩

theorem tail_sim (hag : Agree A P tmin tmax cfuel) (σ : Loc) (s : GState) (tv : Rat) (h : MidRel P tv σ s)
    (k : Loc → TM Loc) (k' : GState → ERat → TM GState) (Q : Loc → GState → Prop)
    (hk : ∀ σ' t', LRel A P σ' s t' → Sim (k σ') (k' s t') Q) :
    Sim (tail A k σ) (mTail P tv k' s) Q :=
  tail_sim_full hag σ s tv h k k' Q (fun σ' t' h _ => hk σ' t' h)

/-- **recovery branch** -/
theorem rec_branch_sim_full (hag : Agree A P tmin tmax cfuel) (hwf : WF P) (hsis : P.sis = true) (σ : Loc) (s : GState)
    (tv : Rat) (h : LRel A P σ s (some tv)) (K : GenLD.PyLD Node × Node → TM Loc)
    (hK : ∀ l c, K (l, c) = recRest A σ l c) :
    Sim (GenLD.random_removal_tm PyTM.encNode σ.infecteds A.cfuel >>= K) (mRec P s cfuel tv)
      (fun σ' s' => MidRel P tv σ' s' ∧ TrStep A σ s σ' s') := by
  unfold GenLD.random_removal_tm mRec
  rw [bind_assoc, hag.cfuel]
  refine Sim.bind (choose_sim PyTM.encNode σ.infecteds s.inf h.rel.inf h.inv.infInv cfuel) ?_
  rintro ⟨p', c'⟩ c ⟨hp, hc, hmem⟩
  simp only at hp hc
  subst hp hc
  dsimp only
  rw [bind_assoc]
  obtain ⟨s', happ, hinv', -⟩ := applyRec_inv' P hwf s h.inv c' tv hmem
  obtain ⟨inf', hrem, -⟩ := LD.remove_shape s.inf c' hmem
  obtain ⟨l12, hl12, hR12⟩ := GenLD.remove_sim σ.infecteds s.inf inf' c' h.rel.inf h.inv.infInv hrem
  obtain ⟨σ', hσ', hrel', ht', htr'⟩ := recRest_eval hag hwf hsis σ s s' h.rel h.inv.linkInv h.hS h.hI tv h.ht c'
    inf' l12 hrem hR12 happ
  obtain ⟨n1, n2⟩ := applyRec_ne2 P s s' c' tv happ
  rw [hl12, PyTM.liftE_ok_bind, pure_bind, hK, hσ', happ]
  exact Sim.pure _ _ ⟨⟨hrel', hinv', ht', n1, n2⟩, fun _ tr0 h0 => by
    rw [htr', h0, applyRec_log P s s' c' tv happ, transLog_rec]⟩

theorem rec_branch_sim (hag : Agree A P tmin tmax cfuel) (hwf : WF P) (hsis : P.sis = true) (σ : Loc) (s : GState)
    (tv : Rat) (h : LRel A P σ s (some tv)) (K : GenLD.PyLD Node × Node → TM Loc)
    (hK : ∀ l c, K (l, c) = recRest A σ l c) :
    Sim (GenLD.random_removal_tm PyTM.encNode σ.infecteds A.cfuel >>= K) (mRec P s cfuel tv) (MidRel P tv) :=
  (rec_branch_sim_full hag hwf hsis σ s tv h K hK).mono (fun _ _ h => h.1)

/-- **transmission branch** -/
theorem trans_branch_sim_full (hag : Agree A P tmin tmax cfuel) (hwf : WF P) (hsis : P.sis = true) (σ : Loc)
    (s : GState) (tv : Rat) (h : LRel A P σ s (some tv)) (K : GenLD.PyLD (Node × Node) × (Node × Node) → TM Loc)
    (hK : ∀ l c, K (l, c) = transRest A σ l c) :
    Sim (GenLD.choose_random_tm PyTM.encLink σ.IS_links A.cfuel >>= K) (mTrans P s cfuel tv)
      (fun σ' s' => MidRel P tv σ' s' ∧ TrStep A σ s σ' s') := by
  unfold mTrans
  rw [hag.cfuel]
  refine Sim.bind (choose_sim PyTM.encLink σ.IS_links s.links h.rel.links h.inv.linkInv cfuel) ?_
  rintro ⟨p', ⟨u, v⟩⟩ c ⟨hp, hc, hmem⟩
  simp only at hp hc
  subst hp hc
  obtain ⟨s', happ, hinv', -⟩ := applyTrans_inv' P hwf s h.inv u v tv hmem
  obtain ⟨σ', hσ', hrel', ht', htr'⟩ := transRest_eval hag hwf hsis σ s s' h.rel h.inv.linkInv h.hS h.hI tv h.ht
    u v σ.IS_links h.rel.links happ
  obtain ⟨n1, n2⟩ := applyTrans_ne2 P s s' u v tv happ
  rw [hK, hσ']
  dsimp only
  rw [happ]
  exact Sim.pure _ _ ⟨⟨hrel', hinv', ht', n1, n2⟩, fun hf tr0 h0 => by
    rw [htr', if_pos hf, h0, applyTrans_log P s s' u v tv happ, transLog_trans, List.append_assoc]⟩

theorem trans_branch_sim (hag : Agree A P tmin tmax cfuel) (hwf : WF P) (hsis : P.sis = true) (σ : Loc)
    (s : GState) (tv : Rat) (h : LRel A P σ s (some tv)) (K : GenLD.PyLD (Node × Node) × (Node × Node) → TM Loc)
    (hK : ∀ l c, K (l, c) = transRest A σ l c) :
    Sim (GenLD.choose_random_tm PyTM.encLink σ.IS_links A.cfuel >>= K) (mTrans P s cfuel tv) (MidRel P tv) :=
  (trans_branch_sim_full hag hwf hsis σ s tv h K hK).mono (fun _ _ h => h.1)

/-- **the `while` loop** -/
theorem loop_sim (hag : Agree A P tmin tmax cfuel) (hwf : WF P) (hsis : P.sis = true) (fuel : Nat) :
    ∀ (σ : Loc) (s : GState) (t : ERat), LRel A P σ s t →
      Sim (loop A fuel σ) (Gillespie.loop P tmax cfuel fuel s t) (fun σ' s' => ∃ t', LRel A P σ' s' t') := by
  induction fuel with
  | zero =>
    intro σ s t h
    rw [loop, Gillespie.loop]
    exact Sim.of_fail (fail_err _) (fail_err _)
  | succ fuel ih =>
    intro σ s t h
    rw [loop_succ]
    cases t with
    | none =>
      rw [Gillespie.loop]
      have : ERat.lt σ.t A.tmax = false := by rw [h.ht]; rfl
      simp only [this, Bool.and_false, Bool.false_eq_true, if_false]
      exact Sim.pure _ _ ⟨none, h⟩
    | some tv =>
      rw [loop_succ_some]
      have hlen : GenLD.len__ σ.infecteds = s.inf.items.length := by
        unfold GenLD.len__; rw [h.rel.inf.items]
      by_cases hc : s.inf.items.isEmpty ∨ !(ERat.lt (some tv) tmax)
      · rw [if_pos hc]
        have : (decide (GenLD.len__ σ.infecteds > 0) && ERat.lt σ.t A.tmax) = false := by
          rw [hlen, h.ht, hag.tmax]
          rcases hc with hc | hc
          · have : s.inf.items = [] := List.isEmpty_iff.1 hc
            simp [this]
          · have : ERat.lt (some tv) tmax = false := by simpa using hc
            simp [this]
        simp only [this, Bool.false_eq_true, if_false]
        exact Sim.pure _ _ ⟨some tv, h⟩
      · rw [if_neg hc]
        have : (decide (GenLD.len__ σ.infecteds > 0) && ERat.lt σ.t A.tmax) = true := by
          rw [hlen, h.ht, hag.tmax]
          rw [not_or] at hc
          obtain ⟨h1, h2⟩ := hc
          have h1' : s.inf.items ≠ [] := fun e => h1 (by simp [e])
          have h2' : ERat.lt (some tv) tmax = true := by simpa using h2
          simp [h2', List.length_pos_iff, h1']
        simp only [this, if_true]
        refine Sim.bind (Sim.refl _) ?_
        rintro r _ rfl
        have hpos := h.pos tv rfl
        rw [h.rr, h.tot, PyTM.fdiv_ok _ _ (ne_of_gt hpos), PyTM.liftE_ok_bind]
        simp only [decide_eq_true_eq]
        refine Sim.bind (Q := MidRel P tv) ?_ ?_
        · exact Sim.ite (fun _ => rec_branch_sim hag hwf hsis σ s tv h _ (fun _ _ => rfl))
            (fun _ => trans_branch_sim hag hwf hsis σ s tv h _ (fun _ _ => rfl))
        · intro σ1 s1 hmid
          refine tail_sim hag σ1 s1 tv hmid _ _ _ ?_
          intro σ2 t2 h2
          exact ih σ2 s1 t2 h2

end GenGSIS

/-! ### SIS: the set-up -/
namespace GenGSIS
open Gillespie GenGillespie TM PyTM
variable {A : PyTM.GArgs} {P : GParams} {tmin : Rat} {tmax : ERat} {cfuel : Nat}

def gI (P : PyTM.GArgs) (σ : Loc) (node : Node) : Loc :=
  if P.full then
    { σ with status := fset σ.status node St.I,
             infection_times := PyTM.ddAppend σ.infection_times node σ.t,
             transmissions := σ.transmissions ++ [(σ.t, none, node)] }
  else { σ with status := fset σ.status node St.I }

theorem stBodyI_eq (P : PyTM.GArgs) (σ : Loc) (n : Node) : stBodyI P σ n = pure (gI P σ n) := by
  unfold stBodyI gI
  cases P.full <;> rfl

/-- the fields of the locals that matter for the simulation -/
def core (σ : Loc) := (σ.infecteds, σ.IS_links, σ.times, σ.S, σ.I, σ.t)

theorem foldl_gI (P : PyTM.GArgs) (l : List Node) (σ : Loc) :
    (l.foldl (gI P) σ).status = l.foldl (fun st n => fset st n St.I) σ.status ∧
      core (l.foldl (gI P) σ) = core σ := by
  induction l generalizing σ with
  | nil => exact ⟨rfl, rfl⟩
  | cons n rest ih =>
    rw [List.foldl_cons, List.foldl_cons]
    obtain ⟨h1, h2⟩ := ih (gI P σ n)
    rw [h1, h2]
    unfold gI
    cases P.full <;> exact ⟨rfl, rfl⟩

theorem foldl_gI_tr (P : PyTM.GArgs) (l : List Node) (σ : Loc) :
    (l.foldl (gI P) σ).transmissions =
      if P.full then σ.transmissions ++ l.map (fun n => (σ.t, none, n)) else σ.transmissions := by
  induction l generalizing σ with
  | nil => simp
  | cons n rest ih =>
    rw [List.foldl_cons, ih]
    unfold gI
    cases P.full <;> simp

def initF (A : PyTM.GArgs) (node : Node) (σ : Loc) (nbr : Node) : Option LOp :=
  if σ.status nbr = St.S then some (.upd (node, nbr) (edgeweight A node nbr)) else none

theorem initInner_eq (A : PyTM.GArgs) (node : Node) (σ : Loc) (n : Node) :
    initInner A node σ n = match initF A node σ n with
      | none => pure σ
      | some o => PyTM.liftE (GenLD.applyOp (getL σ) o) >>= fun p => pure (setL σ p) := by
  unfold initInner initF
  by_cases h : σ.status n = St.S
  · simp only [h, decide_true, if_true]; rfl
  · simp only [h, decide_false, if_false, Bool.false_eq_true]

theorem initF_eq (hag : Agree A P tmin tmax cfuel) (v : Node) (σ : Loc) (l : List Node) :
    l.filterMap (initF A v σ) = initLinksOps P σ.status v l := by
  unfold initLinksOps
  congr 1
  funext nbr
  simp only [initF, hag.edgeweight_sis]

/-- the set-up loop -/
theorem init_fold (hag : Agree A P tmin tmax cfuel) (hwf : WF P) (l : List Node) :
    ∀ (σ : Loc) (inf inf' : LD Node) (links links' : LD (Node × Node)),
      GenLD.R σ.infecteds inf → GenLD.R σ.IS_links links → LD.Inv inf → LD.Inv links →
      initLoop P σ.status l inf links = some (inf', links') →
      ∃ p1 p2, l.foldlM (initBody A) σ = pure { σ with infecteds := p1, IS_links := p2 } ∧
        GenLD.R p1 inf' ∧ GenLD.R p2 links' := by
  induction l with
  | nil =>
    intro σ inf inf' links links' h1 h2 _ _ h
    simp only [initLoop, Option.some.injEq, Prod.mk.injEq] at h
    obtain ⟨rfl, rfl⟩ := h
    exact ⟨σ.infecteds, σ.IS_links, rfl, h1, h2⟩
  | cons node rest ih =>
    intro σ inf inf' links links' h1 h2 hI1 hI2 h
    rw [initLoop] at h
    cases hu : inf.update node (nodeW P node) with
    | none => rw [hu] at h; simp at h
    | some inf1 =>
      rw [hu] at h
      dsimp only at h
      cases hl : initLinks P σ.status node links (P.nbrs node) with
      | none => rw [hl] at h; simp at h
      | some links1 =>
        rw [hl] at h
        dsimp only at h
        obtain ⟨l3, hl3, hR3⟩ := GenLD.update_sim σ.infecteds inf inf1 node (nodeW P node) h1 hu
        rw [← hag.nodeweight_sis] at hl3
        have hInv1 : LD.Inv inf1 := LD.inv_update inf inf1 node (nodeW P node) hI1 (nodeW_nonneg P hwf node) hu
        rw [initLinks_eq] at hl
        have hInv2 : LD.Inv links1 :=
          LD.inv_applyOps links _ links1 hI2 (GenGSIR.initLinksOps_nonneg hwf _ _ _) hl
        obtain ⟨p', hp', hRp⟩ := GenLD.applyOps_sim_from σ.IS_links links links1 _ h2 hI2
          (GenGSIR.initLinksOps_nonneg hwf _ _ _) hl
        have hfold : (A.nbrs node).foldlM (initInner A node) { σ with infecteds := l3 } =
            pure (setL { σ with infecteds := l3 } p') := by
          refine foldlM_ops getL setL (initF A node) (fun _ _ _ => rfl) setL_laws.1 setL_laws.2.1 setL_laws.2.2
            (initInner A node) (initInner_eq A node) (A.nbrs node) _ p' ?_
          rw [initF_eq hag, hag.nbrs]; exact hp'
        obtain ⟨p1, p2, hfin, hR1, hR2⟩ := ih (setL { σ with infecteds := l3 } p') inf1 inf' links1 links'
          hR3 hRp hInv1 hInv2 h
        refine ⟨p1, p2, ?_, hR1, hR2⟩
        rw [List.foldlM_cons]
        unfold initBody
        simp only [hl3, PyTM.liftE_ok_bind, bind_pure]
        rw [hfold, pure_bind]
        exact hfin

theorem ite_inf (σ : Loc) (b : Bool) :
    (if (!b) = true then (pure { σ with infecteds := GenLD.init false } : TM Loc)
      else pure { σ with infecteds := GenLD.init true }) = pure { σ with infecteds := GenLD.init b } := by
  cases b <;> rfl

theorem ite_links (σ : Loc) (b : Bool) :
    (if (!b) = true then (pure { σ with IS_links := GenLD.init false } : TM Loc)
      else pure { σ with IS_links := GenLD.init true }) = pure { σ with IS_links := GenLD.init b } := by
  cases b <;> rfl

theorem initStatus_nil (infs : List Node) :
    infs.foldl (fun st n => fset st n St.I) (fun _ => St.S) = Gillespie.initStatus infs [] := by
  funext v
  rw [foldl_fset]
  simp [Gillespie.initStatus]

/-- **set-up, forward** -/
theorem initK_eval (hag : Agree A P tmin tmax cfuel) (hwf : WF P) (infs : List Node) (s0 : GState)
    (h0 : init P infs [] tmin = some s0) (hinv0 : Gillespie.Inv P s0) :
    ∃ σ0, (∀ k, initK A infs k = k σ0) ∧ MidRel P tmin σ0 s0 ∧
      (A.full = true → σ0.transmissions = initTrans tmin infs) := by
  simp only [init] at h0
  cases hloop : initLoop P (initStatus infs []) infs (LD.empty P.nw.isSome) (LD.empty P.ew.isSome) with
  | none => rw [hloop] at h0; simp at h0
  | some pr =>
    obtain ⟨inf', links'⟩ := pr
    rw [hloop] at h0
    simp only [Option.some.injEq] at h0
    subst h0
    let σa : Loc :=
      { Loc.init with
        I := [(infs.length : Int)]
        S := [((A.order : Int) - (infs.length : Int))]
        times := [some A.tmin]
        transmissions := []
        t := some A.tmin
        status := fun _ => St.S }
    let σc : Loc := infs.foldl (gI A) σa
    let σd : Loc := { σc with infecteds := GenLD.init A.hasRW, IS_links := GenLD.init A.hasTW }
    have hst : σc.status = initStatus infs [] := by
      show (infs.foldl (gI A) σa).status = _
      rw [(foldl_gI A infs _).1]
      exact initStatus_nil infs
    have hcore : core σc = core σa := (foldl_gI A infs _).2
    simp only [core, Prod.mk.injEq] at hcore
    obtain ⟨-, -, c3, c4, c5, c7⟩ := hcore
    obtain ⟨p1, p2, hfold, hR1, hR2⟩ := init_fold hag hwf infs σd (LD.empty P.nw.isSome) inf'
      (LD.empty P.ew.isSome) links'
      (by show GenLD.R (GenLD.init A.hasRW) _; rw [hag.hasRW]; exact GenLD.init_R _)
      (by show GenLD.R (GenLD.init A.hasTW) _; rw [hag.hasTW]; exact GenLD.init_R _)
      (LD.inv_empty _) (LD.inv_empty _)
      (by show initLoop P σc.status infs _ _ = _; rw [hst]; exact hloop)
    refine ⟨{ σd with infecteds := p1, IS_links := p2 }, ?_, ?_, ?_⟩
    · intro k
      unfold initK
      simp only [Loc.init, listGet, List.getElem?_cons_zero, GenLD.pure_eq_ok, liftE_ok_bind,
        foldlM_pure _ _ (stBodyI_eq A), pure_bind, ite_inf, ite_links]
      exact congrArg (· >>= k) hfold |>.trans (pure_bind _ _)
    rotate_left
    · intro hf
      show (infs.foldl (gI A) σa).transmissions = _
      rw [foldl_gI_tr, if_pos hf]
      simp [σa, initTrans, hag.tmin]
    · refine ⟨⟨hst, hR1, hR2, ?_, ?_, ?_⟩, hinv0, ?_, by simp, by simp⟩
      · show σc.times = _
        rw [c3]; simp [σa, hag.tmin]
      · show σc.S = _
        rw [c4]; simp [σa, hag.order]
      · show σc.I = _
        rw [c5]; simp [σa]
      · show σc.t = _
        rw [c7]; simp [σa, hag.tmin]

/-- **the whole function**: the generated `Gillespie_SIS` and the model's `run` (with `P.sis = true`, no recovered
nodes) simulate each other on every tape -/
theorem run_sim (hag : Agree A P tmin tmax cfuel) (hwf : WF P) (hsis : P.sis = true) (infs : List Node)
    (fuel : Nat) (hi : infs.Nodup) (him : ∀ u ∈ infs, u ∈ P.nodes) :
    Sim (run A infs fuel) (Gillespie.run P infs [] tmin tmax fuel cfuel)
      (fun σ s => ∃ t, LRel A P σ s t) := by
  obtain ⟨s0, h0, hinv0, -⟩ := init_inv' P hwf infs [] tmin hi him (by simp) (fun _ => rfl)
  obtain ⟨σ0, hσ0, hmid, htr0⟩ := initK_eval hag hwf infs s0 h0 hinv0
  rw [run_eq, hσ0]
  unfold Gillespie.run
  rw [h0]
  exact tail_sim hag σ0 s0 tmin hmid _ (Gillespie.loop P tmax cfuel fuel) _
    (fun σ' t' h => loop_sim hag hwf hsis fuel σ' s0 t' h)

end GenGSIS

/-! ### the clock call of the generated code, evaluated -/
namespace GenGSIR
open Gillespie GenGillespie TM PyTM
variable {A : PyTM.GArgs} {P : GParams} {tmin : Rat} {tmax : ERat} {cfuel : Nat}

theorem popExpo_eval (rate d : Rat) (rest : List Draw) (ts : TapeSt) (hr : rate ≠ 0)
    (htape : ts.tape = .expo d :: rest) :
    TM.popExpo rate ts = .ok (d, { tape := rest, trace := ts.trace.push (.expo rate) }) := by
  unfold TM.popExpo
  rw [if_neg hr, htape]

/-- **clock (step level)**: in a state related to a model state `s` with `Inv P s`, when the total rate of the chain in
the current statuses is positive and the next scripted draw is an exponential `d`, the clock statements of the generated
code call `expovariate` with exactly `Chain.totalRate P σ.status` (that call is what gets logged), and continue at time
`t + d` -/
theorem tail_clock (hag : Agree A P tmin tmax cfuel) (hwf : WF P) (σ : Loc) (s : GState) (tv : Rat)
    (hrel : Rel σ s) (hinv : Gillespie.Inv P s) (ht : σ.t = some tv) (k : Loc → TM Loc) (ts : TapeSt) (d : Rat)
    (rest : List Draw) (htape : ts.tape = .expo d :: rest) (hpos : 0 < Chain.totalRate P σ.status) :
    ∃ σ', tail A k σ ts = k σ' { tape := rest, trace := ts.trace.push (.expo (Chain.totalRate P σ.status)) } ∧
      σ'.t = some (tv + d) ∧ σ'.total_rate = Chain.totalRate P σ.status ∧ Rel σ' s := by
  have hclk : totalRate P s = Chain.totalRate P σ.status := by rw [clock_eq' P hwf s hinv, hrel.status]
  have htot : A.gamma * s.inf.totalWeight + A.tau * s.links.totalWeight = Chain.totalRate P σ.status := by
    rw [hag.gamma, hag.tau, ← hclk]; rfl
  refine ⟨?w, ?h1, ?h2⟩
  case h1 =>
    simp only [tail, GenLD.total_weight_sim _ _ hrel.inf, GenLD.total_weight_sim _ _ hrel.links,
      PyTM.liftE_ok_bind, htot, gt_iff_lt, hpos, decide_true, if_true, bind_assoc, pure_bind]
    rw [TM.bind_eval _ _ _ _ _ (popExpo_eval _ d rest ts (ne_of_gt hpos) htape)]
  exact ⟨by simp [ht, ERat.add], rfl, hrel.status, hrel.inf, hrel.links, hrel.times, hrel.S, hrel.I, hrel.R⟩

end GenGSIR

namespace GenGSIS
open Gillespie GenGillespie TM PyTM
variable {A : PyTM.GArgs} {P : GParams} {tmin : Rat} {tmax : ERat} {cfuel : Nat}

/-- **clock (step level)**, SIS -/
theorem tail_clock (hag : Agree A P tmin tmax cfuel) (hwf : WF P) (σ : Loc) (s : GState) (tv : Rat)
    (hrel : Rel σ s) (hinv : Gillespie.Inv P s) (ht : σ.t = some tv) (k : Loc → TM Loc) (ts : TapeSt) (d : Rat)
    (rest : List Draw) (htape : ts.tape = .expo d :: rest) (hpos : 0 < Chain.totalRate P σ.status) :
    ∃ σ', tail A k σ ts = k σ' { tape := rest, trace := ts.trace.push (.expo (Chain.totalRate P σ.status)) } ∧
      σ'.t = some (tv + d) ∧ σ'.total_rate = Chain.totalRate P σ.status ∧ Rel σ' s := by
  have hclk : totalRate P s = Chain.totalRate P σ.status := by rw [clock_eq' P hwf s hinv, hrel.status]
  have htot : A.gamma * s.inf.totalWeight + A.tau * s.links.totalWeight = Chain.totalRate P σ.status := by
    rw [hag.gamma, hag.tau, ← hclk]; rfl
  refine ⟨?w, ?h1, ?h2⟩
  case h1 =>
    simp only [tail, GenLD.total_weight_sim _ _ hrel.inf, GenLD.total_weight_sim _ _ hrel.links,
      PyTM.liftE_ok_bind, htot, gt_iff_lt, hpos, decide_true, if_true, bind_assoc, pure_bind]
    rw [TM.bind_eval _ _ _ _ _ (GenGSIR.popExpo_eval _ d rest ts (ne_of_gt hpos) htape)]
  exact ⟨by simp [ht, ERat.add], rfl, hrel.status, hrel.inf, hrel.links, hrel.times, hrel.S, hrel.I⟩

end GenGSIS

/-! ### no `KeyError` in the generated code -/
namespace TM

/-- the program never raises `KeyError` -/
def NoKE {α : Type} (m : TM α) : Prop := ∀ ts e, m ts = .error e → e ≠ "KeyError"

theorem NoKE.bind' {α β : Type} {m : TM α} {k : α → TM β} (h1 : NoKE m)
    (h2 : ∀ a ts ts1, m ts = .ok (a, ts1) → ∀ e, k a ts1 = .error e → e ≠ "KeyError") : NoKE (m >>= k) := by
  intro ts e h
  rcases TM.bind_err _ _ _ _ h with h | ⟨a, ts1, ha, hk⟩
  · exact h1 ts e h
  · exact h2 a ts ts1 ha e hk

theorem NoKE.bind {α β : Type} {m : TM α} {k : α → TM β} (h1 : NoKE m) (h2 : ∀ a, NoKE (k a)) :
    NoKE (m >>= k) :=
  NoKE.bind' h1 (fun a _ ts1 _ e he => h2 a ts1 e he)

theorem NoKE.pure {α : Type} (a : α) : NoKE (pure a : TM α) := by
  intro ts e h
  exact absurd h (TM.pure_ne_err _ _ _)

theorem NoKE.fail {α : Type} (msg : String) (h : msg ≠ "KeyError") : NoKE (TM.fail msg : TM α) := by
  intro ts e he
  simp only [TM.fail] at he
  cases he
  exact h

theorem NoKE.liftE {α : Type} (x : Except String α) (h : ∀ e, x = .error e → e ≠ "KeyError") :
    NoKE (PyTM.liftE x) := by
  intro ts e he
  cases x with
  | ok a => simp [PyTM.liftE] at he
  | error e' =>
    simp only [PyTM.liftE] at he
    injection he with he
    subst he
    exact h _ rfl

theorem NoKE.ite {α : Type} {c : Prop} [Decidable c] {a b : TM α} (ha : NoKE a) (hb : NoKE b) :
    NoKE (if c then a else b) := by
  split
  · exact ha
  · exact hb

theorem NoKE.popUnif : NoKE TM.popUnif := fun ts e h => TM.popUnif_err ts e h
theorem NoKE.popExpo (r : Rat) : NoKE (TM.popExpo r) := fun ts e h => TM.popExpo_err r ts e h
theorem NoKE.popChoice (seq : List (List Nat)) : NoKE (TM.popChoice seq) := fun ts e h => TM.popChoice_err seq ts e h

end TM

namespace GenGillespie
open Gillespie TM
variable {α : Type} [DecidableEq α]

omit [DecidableEq α] in
theorem listChoice_err (l : List α) (i : Nat) (e : String) (h : PyRT.listChoice l i = .error e) :
    e ≠ "KeyError" := by
  unfold PyRT.listChoice at h
  split at h
  · cases h
  · cases h; decide

theorem fdiv_err (a b : Rat) (e : String) (h : PyTM.fdiv a b = .error e) : e ≠ "KeyError" := by
  unfold PyTM.fdiv at h
  split at h
  · cases h; decide
  · cases h

/-- `choose_random()` never raises `KeyError` (whatever the state) -/
theorem choose_noKE (enc : α → List Nat) (fuel : Nat) :
    ∀ p : GenLD.PyLD α, NoKE (GenLD.choose_random_tm enc p fuel) := by
  induction fuel with
  | zero =>
    intro p
    rw [GenLD.choose_random_tm]
    exact NoKE.fail _ (by decide)
  | succ fuel ih =>
    intro p
    rw [GenLD.choose_random_tm]
    refine NoKE.ite ?_ ?_
    · refine NoKE.bind (NoKE.popChoice _) fun i => ?_
      refine NoKE.bind (NoKE.liftE _ (listChoice_err _ _)) fun c => ?_
      refine NoKE.bind NoKE.popUnif fun r => ?_
      refine NoKE.bind (NoKE.liftE _ (fdiv_err _ _)) fun thr => ?_
      exact NoKE.ite (NoKE.pure _) (ih _)
    · refine NoKE.bind (NoKE.popChoice _) fun i => ?_
      refine NoKE.bind (NoKE.liftE _ (listChoice_err _ _)) fun c => ?_
      exact NoKE.pure _

end GenGillespie

namespace GenGSIR
open Gillespie GenGillespie TM
variable {A : PyTM.GArgs} {P : GParams} {tmin : Rat} {tmax : ERat} {cfuel : Nat}

theorem tail_noKE (hag : Agree A P tmin tmax cfuel) (σ : Loc) (s : GState) (tv : Rat) (h : MidRel P tv σ s)
    (k : Loc → TM Loc) (hk : ∀ σ' t', LRel A P σ' s t' → NoKE (k σ')) : NoKE (tail A k σ) := by
  have htot : A.gamma * s.inf.totalWeight + A.tau * s.links.totalWeight = totalRate P s := by
    rw [hag.gamma, hag.tau]; rfl
  simp only [tail, GenLD.total_weight_sim _ _ h.rel.inf, GenLD.total_weight_sim _ _ h.rel.links,
    PyTM.liftE_ok_bind, htot]
  by_cases hpos : totalRate P s > 0
  · simp only [hpos, decide_true, if_true, bind_assoc, pure_bind]
    refine NoKE.bind (NoKE.popExpo _) fun d => ?_
    apply hk _ (some (tv + d))
    exact ⟨⟨h.rel.status, h.rel.inf, h.rel.links, h.rel.times, h.rel.S, h.rel.I, h.rel.R⟩, h.inv,
      (by simp [h.ht, ERat.add]), (by simp [hag.gamma, recRate]), (by simp [hag.tau, transRate]), rfl,
      (fun _ _ => hpos), h.hS, h.hI, h.hR⟩
  · simp only [hpos, decide_false, if_false, pure_bind, Bool.false_eq_true]
    apply hk _ none
    exact ⟨⟨h.rel.status, h.rel.inf, h.rel.links, h.rel.times, h.rel.S, h.rel.I, h.rel.R⟩, h.inv,
      (by simp [h.ht, ERat.add]), (by simp [hag.gamma, recRate]), (by simp [hag.tau, transRate]), rfl,
      (fun _ hc => by cases hc), h.hS, h.hI, h.hR⟩

theorem rec_branch_noKE (hag : Agree A P tmin tmax cfuel) (hwf : WF P) (hsir : P.sis = false) (σ : Loc)
    (s : GState) (tv : Rat) (h : LRel A P σ s (some tv)) (K : GenLD.PyLD Node × Node → TM Loc)
    (hK : ∀ l c, K (l, c) = recRest A σ l c) :
    NoKE (GenLD.random_removal_tm PyTM.encNode σ.infecteds A.cfuel >>= K) := by
  unfold GenLD.random_removal_tm
  rw [bind_assoc, hag.cfuel]
  refine NoKE.bind' (choose_noKE _ _ _) ?_
  rintro ⟨p', c'⟩ ts ts1 hch e he
  obtain ⟨c, -, hp, hc, hmem⟩ :=
    (choose_sim PyTM.encNode σ.infecteds s.inf h.rel.inf h.inv.infInv cfuel ts).2 _ _ hch
  simp only at hp hc
  subst hp hc
  dsimp only at he
  rw [bind_assoc] at he
  obtain ⟨s', happ, hinv', -⟩ := applyRec_inv' P hwf s h.inv c' tv hmem
  obtain ⟨inf', hrem, -⟩ := LD.remove_shape s.inf c' hmem
  obtain ⟨l13, hl13, hR13⟩ := GenLD.remove_sim σ.infecteds s.inf inf' c' h.rel.inf h.inv.infInv hrem
  obtain ⟨σ', hσ', -, -⟩ := recRest_eval hag hsir σ s s' h.rel h.inv.linkInv h.hS h.hI h.hR tv h.ht c'
    inf' l13 hrem hR13 happ
  rw [hl13, PyTM.liftE_ok_bind, pure_bind, hK, hσ'] at he
  exact absurd he (TM.pure_ne_err _ _ _)

theorem trans_branch_noKE (hag : Agree A P tmin tmax cfuel) (hwf : WF P) (hsir : P.sis = false) (σ : Loc)
    (s : GState) (tv : Rat) (h : LRel A P σ s (some tv)) (K : GenLD.PyLD (Node × Node) × (Node × Node) → TM Loc)
    (hK : ∀ l c, K (l, c) = transRest A σ l c) :
    NoKE (GenLD.choose_random_tm PyTM.encLink σ.IS_links A.cfuel >>= K) := by
  rw [hag.cfuel]
  refine NoKE.bind' (choose_noKE _ _ _) ?_
  rintro ⟨p', ⟨u, v⟩⟩ ts ts1 hch e he
  obtain ⟨c, -, hp, hc, hmem⟩ :=
    (choose_sim PyTM.encLink σ.IS_links s.links h.rel.links h.inv.linkInv cfuel ts).2 _ _ hch
  simp only at hp hc
  subst hp hc
  obtain ⟨s', happ, hinv', -⟩ := applyTrans_inv' P hwf s h.inv u v tv hmem
  obtain ⟨σ', hσ', -, -⟩ := transRest_eval hag hwf hsir σ s s' h.rel h.inv.linkInv h.hS h.hI h.hR tv h.ht
    u v σ.IS_links h.rel.links happ
  rw [hK, hσ'] at he
  exact absurd he (TM.pure_ne_err _ _ _)

/-- **no KeyError**: from a state related to a model state with the bookkeeping invariant, the generated loop never
raises `KeyError`, whatever the draws -/
theorem loop_noKE (hag : Agree A P tmin tmax cfuel) (hwf : WF P) (hsir : P.sis = false) (fuel : Nat) :
    ∀ (σ : Loc) (s : GState) (t : ERat), LRel A P σ s t → NoKE (loop A fuel σ) := by
  induction fuel with
  | zero =>
    intro σ s t h
    rw [loop]
    exact NoKE.fail _ (by decide)
  | succ fuel ih =>
    intro σ s t h
    rw [loop_succ]
    by_cases hcond : (decide (GenLD.len__ σ.infecteds > 0) && ERat.lt σ.t A.tmax) = true
    · rw [if_pos hcond]
      cases t with
      | none => rw [h.ht] at hcond; simp [ERat.lt] at hcond
      | some tv =>
        refine NoKE.bind NoKE.popUnif fun r => ?_
        have hpos := h.pos tv rfl
        rw [h.rr, h.tot, PyTM.fdiv_ok _ _ (ne_of_gt hpos), PyTM.liftE_ok_bind]
        refine NoKE.bind' ?_ ?_
        · exact NoKE.ite (rec_branch_noKE hag hwf hsir σ s tv h _ (fun _ _ => rfl))
            (trans_branch_noKE hag hwf hsir σ s tv h _ (fun _ _ => rfl))
        · intro σ1 ts ts1 hbr
          simp only [decide_eq_true_eq] at hbr
          have hmid : ∃ s1, MidRel P tv σ1 s1 := by
            by_cases hr : r < recRate P s / totalRate P s
            · rw [if_pos hr] at hbr
              obtain ⟨s1, -, hm⟩ := (rec_branch_sim hag hwf hsir σ s tv h _ (fun _ _ => rfl) ts).2 σ1 ts1 hbr
              exact ⟨s1, hm⟩
            · rw [if_neg hr] at hbr
              obtain ⟨s1, -, hm⟩ := (trans_branch_sim hag hwf hsir σ s tv h _ (fun _ _ => rfl) ts).2 σ1 ts1 hbr
              exact ⟨s1, hm⟩
          obtain ⟨s1, hm⟩ := hmid
          exact tail_noKE hag σ1 s1 tv hm _ (fun σ2 t2 h2 => ih σ2 s1 t2 h2) ts1
    · rw [if_neg hcond]
      exact NoKE.pure _

/-- **no KeyError (whole function)**: the generated `Gillespie_SIR` never raises `KeyError`, whatever the draws -/
theorem run_noKE (hag : Agree A P tmin tmax cfuel) (hwf : WF P) (hsir : P.sis = false) (infs recs : List Node)
    (fuel : Nat) (hi : infs.Nodup) (him : ∀ u ∈ infs, u ∈ P.nodes) (hd : ∀ u ∈ infs, u ∉ recs) :
    NoKE (run A infs recs fuel) := by
  obtain ⟨s0, h0, hinv0, -⟩ := init_inv' P hwf infs recs tmin hi him hd (fun h => by rw [hsir] at h; cases h)
  obtain ⟨σ0, hσ0, hmid, htr0⟩ := initK_eval hag hwf infs recs s0 h0 hinv0
  rw [run_eq, hσ0]
  exact tail_noKE hag σ0 s0 tmin hmid _ (fun σ' t' h => loop_noKE hag hwf hsir fuel σ' s0 t' h)

end GenGSIR

namespace GenGSIS
open Gillespie GenGillespie TM
variable {A : PyTM.GArgs} {P : GParams} {tmin : Rat} {tmax : ERat} {cfuel : Nat}

theorem tail_noKE (hag : Agree A P tmin tmax cfuel) (σ : Loc) (s : GState) (tv : Rat) (h : MidRel P tv σ s)
    (k : Loc → TM Loc) (hk : ∀ σ' t', LRel A P σ' s t' → NoKE (k σ')) : NoKE (tail A k σ) := by
  have htot : A.gamma * s.inf.totalWeight + A.tau * s.links.totalWeight = totalRate P s := by
    rw [hag.gamma, hag.tau]; rfl
  simp only [tail, GenLD.total_weight_sim _ _ h.rel.inf, GenLD.total_weight_sim _ _ h.rel.links,
    PyTM.liftE_ok_bind, htot]
  by_cases hpos : totalRate P s > 0
  · simp only [hpos, decide_true, if_true, bind_assoc, pure_bind]
    refine NoKE.bind (NoKE.popExpo _) fun d => ?_
    apply hk _ (some (tv + d))
    exact ⟨⟨h.rel.status, h.rel.inf, h.rel.links, h.rel.times, h.rel.S, h.rel.I⟩, h.inv,
      (by simp [h.ht, ERat.add]), (by simp [hag.gamma, recRate]), (by simp [hag.tau, transRate]), rfl,
      (fun _ _ => hpos), h.hS, h.hI⟩
  · simp only [hpos, decide_false, if_false, pure_bind, Bool.false_eq_true]
    apply hk _ none
    exact ⟨⟨h.rel.status, h.rel.inf, h.rel.links, h.rel.times, h.rel.S, h.rel.I⟩, h.inv,
      (by simp [h.ht, ERat.add]), (by simp [hag.gamma, recRate]), (by simp [hag.tau, transRate]), rfl,
      (fun _ hc => by cases hc), h.hS, h.hI⟩

theorem rec_branch_noKE (hag : Agree A P tmin tmax cfuel) (hwf : WF P) (hsis : P.sis = true) (σ : Loc)
    (s : GState) (tv : Rat) (h : LRel A P σ s (some tv)) (K : GenLD.PyLD Node × Node → TM Loc)
    (hK : ∀ l c, K (l, c) = recRest A σ l c) :
    NoKE (GenLD.random_removal_tm PyTM.encNode σ.infecteds A.cfuel >>= K) := by
  unfold GenLD.random_removal_tm
  rw [bind_assoc, hag.cfuel]
  refine NoKE.bind' (choose_noKE _ _ _) ?_
  rintro ⟨p', c'⟩ ts ts1 hch e he
  obtain ⟨c, -, hp, hc, hmem⟩ :=
    (choose_sim PyTM.encNode σ.infecteds s.inf h.rel.inf h.inv.infInv cfuel ts).2 _ _ hch
  simp only at hp hc
  subst hp hc
  dsimp only at he
  rw [bind_assoc] at he
  obtain ⟨s', happ, hinv', -⟩ := applyRec_inv' P hwf s h.inv c' tv hmem
  obtain ⟨inf', hrem, -⟩ := LD.remove_shape s.inf c' hmem
  obtain ⟨l12, hl12, hR12⟩ := GenLD.remove_sim σ.infecteds s.inf inf' c' h.rel.inf h.inv.infInv hrem
  obtain ⟨σ', hσ', -, -⟩ := recRest_eval hag hwf hsis σ s s' h.rel h.inv.linkInv h.hS h.hI tv h.ht c'
    inf' l12 hrem hR12 happ
  rw [hl12, PyTM.liftE_ok_bind, pure_bind, hK, hσ'] at he
  exact absurd he (TM.pure_ne_err _ _ _)

theorem trans_branch_noKE (hag : Agree A P tmin tmax cfuel) (hwf : WF P) (hsis : P.sis = true) (σ : Loc)
    (s : GState) (tv : Rat) (h : LRel A P σ s (some tv)) (K : GenLD.PyLD (Node × Node) × (Node × Node) → TM Loc)
    (hK : ∀ l c, K (l, c) = transRest A σ l c) :
    NoKE (GenLD.choose_random_tm PyTM.encLink σ.IS_links A.cfuel >>= K) := by
  rw [hag.cfuel]
  refine NoKE.bind' (choose_noKE _ _ _) ?_
  rintro ⟨p', ⟨u, v⟩⟩ ts ts1 hch e he
  obtain ⟨c, -, hp, hc, hmem⟩ :=
    (choose_sim PyTM.encLink σ.IS_links s.links h.rel.links h.inv.linkInv cfuel ts).2 _ _ hch
  simp only at hp hc
  subst hp hc
  obtain ⟨s', happ, hinv', -⟩ := applyTrans_inv' P hwf s h.inv u v tv hmem
  obtain ⟨σ', hσ', -, -⟩ := transRest_eval hag hwf hsis σ s s' h.rel h.inv.linkInv h.hS h.hI tv h.ht
    u v σ.IS_links h.rel.links happ
  rw [hK, hσ'] at he
  exact absurd he (TM.pure_ne_err _ _ _)

/-- **no KeyError**, SIS loop -/
theorem loop_noKE (hag : Agree A P tmin tmax cfuel) (hwf : WF P) (hsis : P.sis = true) (fuel : Nat) :
    ∀ (σ : Loc) (s : GState) (t : ERat), LRel A P σ s t → NoKE (loop A fuel σ) := by
  induction fuel with
  | zero =>
    intro σ s t h
    rw [loop]
    exact NoKE.fail _ (by decide)
  | succ fuel ih =>
    intro σ s t h
    rw [loop_succ]
    by_cases hcond : (decide (GenLD.len__ σ.infecteds > 0) && ERat.lt σ.t A.tmax) = true
    · rw [if_pos hcond]
      cases t with
      | none => rw [h.ht] at hcond; simp [ERat.lt] at hcond
      | some tv =>
        refine NoKE.bind NoKE.popUnif fun r => ?_
        have hpos := h.pos tv rfl
        rw [h.rr, h.tot, PyTM.fdiv_ok _ _ (ne_of_gt hpos), PyTM.liftE_ok_bind]
        refine NoKE.bind' ?_ ?_
        · exact NoKE.ite (rec_branch_noKE hag hwf hsis σ s tv h _ (fun _ _ => rfl))
            (trans_branch_noKE hag hwf hsis σ s tv h _ (fun _ _ => rfl))
        · intro σ1 ts ts1 hbr
          simp only [decide_eq_true_eq] at hbr
          have hmid : ∃ s1, MidRel P tv σ1 s1 := by
            by_cases hr : r < recRate P s / totalRate P s
            · rw [if_pos hr] at hbr
              obtain ⟨s1, -, hm⟩ := (rec_branch_sim hag hwf hsis σ s tv h _ (fun _ _ => rfl) ts).2 σ1 ts1 hbr
              exact ⟨s1, hm⟩
            · rw [if_neg hr] at hbr
              obtain ⟨s1, -, hm⟩ := (trans_branch_sim hag hwf hsis σ s tv h _ (fun _ _ => rfl) ts).2 σ1 ts1 hbr
              exact ⟨s1, hm⟩
          obtain ⟨s1, hm⟩ := hmid
          exact tail_noKE hag σ1 s1 tv hm _ (fun σ2 t2 h2 => ih σ2 s1 t2 h2) ts1
    · rw [if_neg hcond]
      exact NoKE.pure _

/-- **no KeyError (whole function)**: the generated `Gillespie_SIS` never raises `KeyError`, whatever the draws -/
theorem run_noKE (hag : Agree A P tmin tmax cfuel) (hwf : WF P) (hsis : P.sis = true) (infs : List Node)
    (fuel : Nat) (hi : infs.Nodup) (him : ∀ u ∈ infs, u ∈ P.nodes) : NoKE (run A infs fuel) := by
  obtain ⟨s0, h0, hinv0, -⟩ := init_inv' P hwf infs [] tmin hi him (by simp) (fun _ => rfl)
  obtain ⟨σ0, hσ0, hmid, htr0⟩ := initK_eval hag hwf infs s0 h0 hinv0
  rw [run_eq, hσ0]
  exact tail_noKE hag σ0 s0 tmin hmid _ (fun σ' t' h => loop_noKE hag hwf hsis fuel σ' s0 t' h)

end GenGSIS

/-! ### SIR: the `transmissions` list of the full-data bookkeeping -/
namespace Gillespie

theorem init_log (P : GParams) (infs recs : List Node) (tmin : Rat) (s0 : GState)
    (h : init P infs recs tmin = some s0) : s0.log = [] := by
  simp only [init] at h
  split at h
  · cases h
  · obtain rfl := Option.some.inj h
    rfl

end Gillespie

namespace GenGSIR
open Gillespie GenGillespie TM PyTM
variable {A : PyTM.GArgs} {P : GParams} {tmin : Rat} {tmax : ERat} {cfuel : Nat}

/-- the `while` loop, with the full-data bookkeeping: when `return_full_data` is set, `transmissions` stays
`tr0 ++` (the entries of the model's logged transmission events, oldest first) -/
theorem loop_sim_full (hag : Agree A P tmin tmax cfuel) (hwf : WF P) (hsir : P.sis = false)
    (tr0 : List (ERat × Option Node × Node)) (fuel : Nat) :
    ∀ (σ : Loc) (s : GState) (t : ERat), LRel A P σ s t →
      (A.full = true → σ.transmissions = tr0 ++ transLog s.log) →
      Sim (loop A fuel σ) (Gillespie.loop P tmax cfuel fuel s t)
        (fun σ' s' => (∃ t', LRel A P σ' s' t') ∧ (A.full = true → σ'.transmissions = tr0 ++ transLog s'.log)) := by
  induction fuel with
  | zero =>
    intro σ s t h hf
    rw [loop, Gillespie.loop]
    exact Sim.of_fail (fail_err _) (fail_err _)
  | succ fuel ih =>
    intro σ s t h hf
    rw [loop_succ]
    cases t with
    | none =>
      rw [Gillespie.loop]
      have : ERat.lt σ.t A.tmax = false := by rw [h.ht]; rfl
      simp only [this, Bool.and_false, Bool.false_eq_true, if_false]
      exact Sim.pure _ _ ⟨⟨none, h⟩, hf⟩
    | some tv =>
      rw [loop_succ_some]
      have hlen : GenLD.len__ σ.infecteds = s.inf.items.length := by
        unfold GenLD.len__; rw [h.rel.inf.items]
      by_cases hc : s.inf.items.isEmpty ∨ !(ERat.lt (some tv) tmax)
      · rw [if_pos hc]
        have : (decide (GenLD.len__ σ.infecteds > 0) && ERat.lt σ.t A.tmax) = false := by
          rw [hlen, h.ht, hag.tmax]
          rcases hc with hc | hc
          · have : s.inf.items = [] := List.isEmpty_iff.1 hc
            simp [this]
          · have : ERat.lt (some tv) tmax = false := by simpa using hc
            simp [this]
        simp only [this, Bool.false_eq_true, if_false]
        exact Sim.pure _ _ ⟨⟨some tv, h⟩, hf⟩
      · rw [if_neg hc]
        have : (decide (GenLD.len__ σ.infecteds > 0) && ERat.lt σ.t A.tmax) = true := by
          rw [hlen, h.ht, hag.tmax]
          rw [not_or] at hc
          obtain ⟨h1, h2⟩ := hc
          have h1' : s.inf.items ≠ [] := fun e => h1 (by simp [e])
          have h2' : ERat.lt (some tv) tmax = true := by simpa using h2
          simp [h2', List.length_pos_iff, h1']
        simp only [this, if_true]
        refine Sim.bind (Sim.refl _) ?_
        rintro r _ rfl
        have hpos := h.pos tv rfl
        rw [h.rr, h.tot, PyTM.fdiv_ok _ _ (ne_of_gt hpos), PyTM.liftE_ok_bind]
        simp only [decide_eq_true_eq]
        refine Sim.bind (Q := fun σ' s' => MidRel P tv σ' s' ∧ TrStep A σ s σ' s') ?_ ?_
        · exact Sim.ite (fun _ => rec_branch_sim_full hag hwf hsir σ s tv h _ (fun _ _ => rfl))
            (fun _ => trans_branch_sim_full hag hwf hsir σ s tv h _ (fun _ _ => rfl))
        · rintro σ1 s1 ⟨hmid, hstep⟩
          refine tail_sim_full hag σ1 s1 tv hmid _ _ _ ?_
          intro σ2 t2 h2 htr2
          exact ih σ2 s1 t2 h2 (fun hfull => by rw [htr2]; exact hstep hfull tr0 (hf hfull))

/-- the whole function, with the full-data bookkeeping: `transmissions` = the entries of the initial infecteds ++ the
entries of the model's logged transmission events -/
theorem run_sim_full (hag : Agree A P tmin tmax cfuel) (hwf : WF P) (hsir : P.sis = false) (infs recs : List Node)
    (fuel : Nat) (hi : infs.Nodup) (him : ∀ u ∈ infs, u ∈ P.nodes) (hd : ∀ u ∈ infs, u ∉ recs) :
    Sim (run A infs recs fuel) (Gillespie.run P infs recs tmin tmax fuel cfuel)
      (fun σ s => (∃ t, LRel A P σ s t) ∧
        (A.full = true → σ.transmissions = initTrans tmin infs ++ transLog s.log)) := by
  obtain ⟨s0, h0, hinv0, -⟩ := init_inv' P hwf infs recs tmin hi him hd (fun h => by rw [hsir] at h; cases h)
  obtain ⟨σ0, hσ0, hmid, htr0⟩ := initK_eval hag hwf infs recs s0 h0 hinv0
  have hlog : s0.log = [] := init_log P infs recs tmin s0 h0
  rw [run_eq, hσ0]
  unfold Gillespie.run
  rw [h0]
  refine tail_sim_full hag σ0 s0 tmin hmid _ (Gillespie.loop P tmax cfuel fuel) _ ?_
  intro σ' t' h htr
  exact loop_sim_full hag hwf hsir (initTrans tmin infs) fuel σ' s0 t' h
    (fun hf => by rw [htr, htr0 hf, hlog, transLog_nil, List.append_nil])

end GenGSIR

/-! ### SIS: the `transmissions` list of the full-data bookkeeping -/
namespace GenGSIS
open Gillespie GenGillespie TM PyTM
variable {A : PyTM.GArgs} {P : GParams} {tmin : Rat} {tmax : ERat} {cfuel : Nat}

/-- the `while` loop, with the full-data bookkeeping: when `return_full_data` is set, `transmissions` stays
`tr0 ++` (the entries of the model's logged transmission events, oldest first) -/
theorem loop_sim_full (hag : Agree A P tmin tmax cfuel) (hwf : WF P) (hsis : P.sis = true)
    (tr0 : List (ERat × Option Node × Node)) (fuel : Nat) :
    ∀ (σ : Loc) (s : GState) (t : ERat), LRel A P σ s t →
      (A.full = true → σ.transmissions = tr0 ++ transLog s.log) →
      Sim (loop A fuel σ) (Gillespie.loop P tmax cfuel fuel s t)
        (fun σ' s' => (∃ t', LRel A P σ' s' t') ∧ (A.full = true → σ'.transmissions = tr0 ++ transLog s'.log)) := by
  induction fuel with
  | zero =>
    intro σ s t h hf
    rw [loop, Gillespie.loop]
    exact Sim.of_fail (fail_err _) (fail_err _)
  | succ fuel ih =>
    intro σ s t h hf
    rw [loop_succ]
    cases t with
    | none =>
      rw [Gillespie.loop]
      have : ERat.lt σ.t A.tmax = false := by rw [h.ht]; rfl
      simp only [this, Bool.and_false, Bool.false_eq_true, if_false]
      exact Sim.pure _ _ ⟨⟨none, h⟩, hf⟩
    | some tv =>
      rw [loop_succ_some]
      have hlen : GenLD.len__ σ.infecteds = s.inf.items.length := by
        unfold GenLD.len__; rw [h.rel.inf.items]
      by_cases hc : s.inf.items.isEmpty ∨ !(ERat.lt (some tv) tmax)
      · rw [if_pos hc]
        have : (decide (GenLD.len__ σ.infecteds > 0) && ERat.lt σ.t A.tmax) = false := by
          rw [hlen, h.ht, hag.tmax]
          rcases hc with hc | hc
          · have : s.inf.items = [] := List.isEmpty_iff.1 hc
            simp [this]
          · have : ERat.lt (some tv) tmax = false := by simpa using hc
            simp [this]
        simp only [this, Bool.false_eq_true, if_false]
        exact Sim.pure _ _ ⟨⟨some tv, h⟩, hf⟩
      · rw [if_neg hc]
        have : (decide (GenLD.len__ σ.infecteds > 0) && ERat.lt σ.t A.tmax) = true := by
          rw [hlen, h.ht, hag.tmax]
          rw [not_or] at hc
          obtain ⟨h1, h2⟩ := hc
          have h1' : s.inf.items ≠ [] := fun e => h1 (by simp [e])
          have h2' : ERat.lt (some tv) tmax = true := by simpa using h2
          simp [h2', List.length_pos_iff, h1']
        simp only [this, if_true]
        refine Sim.bind (Sim.refl _) ?_
        rintro r _ rfl
        have hpos := h.pos tv rfl
        rw [h.rr, h.tot, PyTM.fdiv_ok _ _ (ne_of_gt hpos), PyTM.liftE_ok_bind]
        simp only [decide_eq_true_eq]
        refine Sim.bind (Q := fun σ' s' => MidRel P tv σ' s' ∧ TrStep A σ s σ' s') ?_ ?_
        · exact Sim.ite (fun _ => rec_branch_sim_full hag hwf hsis σ s tv h _ (fun _ _ => rfl))
            (fun _ => trans_branch_sim_full hag hwf hsis σ s tv h _ (fun _ _ => rfl))
        · rintro σ1 s1 ⟨hmid, hstep⟩
          refine tail_sim_full hag σ1 s1 tv hmid _ _ _ ?_
          intro σ2 t2 h2 htr2
          exact ih σ2 s1 t2 h2 (fun hfull => by rw [htr2]; exact hstep hfull tr0 (hf hfull))

/-- the whole function, with the full-data bookkeeping: `transmissions` = the entries of the initial infecteds ++ the
entries of the model's logged transmission events -/
theorem run_sim_full (hag : Agree A P tmin tmax cfuel) (hwf : WF P) (hsis : P.sis = true) (infs : List Node)
    (fuel : Nat) (hi : infs.Nodup) (him : ∀ u ∈ infs, u ∈ P.nodes) :
    Sim (run A infs fuel) (Gillespie.run P infs [] tmin tmax fuel cfuel)
      (fun σ s => (∃ t, LRel A P σ s t) ∧
        (A.full = true → σ.transmissions = initTrans tmin infs ++ transLog s.log)) := by
  obtain ⟨s0, h0, hinv0, -⟩ := init_inv' P hwf infs [] tmin hi him (by simp) (fun _ => rfl)
  obtain ⟨σ0, hσ0, hmid, htr0⟩ := initK_eval hag hwf infs s0 h0 hinv0
  have hlog : s0.log = [] := init_log P infs [] tmin s0 h0
  rw [run_eq, hσ0]
  unfold Gillespie.run
  rw [h0]
  refine tail_sim_full hag σ0 s0 tmin hmid _ (Gillespie.loop P tmax cfuel fuel) _ ?_
  intro σ' t' h htr
  exact loop_sim_full hag hwf hsis (initTrans tmin infs) fuel σ' s0 t' h
    (fun hf => by rw [htr, htr0 hf, hlog, transLog_nil, List.append_nil])

end GenGSIS
