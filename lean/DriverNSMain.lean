import DriverNS
partial def loopNS (h : IO.FS.Stream) (out : IO.FS.Stream) : IO Unit := do
  let line ← h.getLine
  if line.isEmpty then return ()
  out.putStrLn (DrvGenNS.handle line)
  loopNS h out
def main : IO Unit := do loopNS (← IO.getStdin) (← IO.getStdout)
