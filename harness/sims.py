"""Running the real simulators under scripted randomness and producing model requests.

Every case is a dict (json-able) that fully determines the call; `run_impl_*` returns a canonical output dict,
`req_*` the driver request for the Lean model of the same call.
"""
from fractions import Fraction as F
import numpy as np, networkx as nx
import common, rng as rngmod, gen
from common import fr, rs

ERR = {"EoNError": "EoNError", "KeyError": "KeyError", "ZeroDivisionError": "ZeroDivisionError", "IndexError": "IndexError",
       "NameError": "NameError", "TypeError": "TypeError", "ValueError": "ValueError"}


def err_enum(e):
    n = type(e).__name__
    if n == "TapeError":
        return "TapeError:" + str(e)
    if n == "NetworkXError":
        return "NetworkXError"
    return ERR.get(n, "other:" + n)


def arr(x):
    return [rs(v) for v in x]


def iarr(x):
    out = []
    for v in x:
        f = fr(v)
        out.append(int(f) if f.denominator == 1 else rs(f))
    return out


# ------------------------------------------------------------------------------------------ graph cases
def build_graph(case):
    G = nx.DiGraph() if case.get("directed") else nx.Graph()
    labels = case.get("labels") or list(range(case["n"]))
    lab = lambda i: tuple(labels[i]) if isinstance(labels[i], list) else labels[i]
    for i in case["order"]:
        G.add_node(lab(i))
    for u, v in case["edges"]:
        G.add_edge(lab(u), lab(v))
    if case.get("ew") is not None:
        for (u, v), w in zip(case["edges"], case["ew"]):
            G.edges[lab(u), lab(v)]["w"] = float(F(w))
    if case.get("nw") is not None:
        for i, w in enumerate(case["nw"]):
            G.nodes[lab(i)]["r"] = float(F(w))
    return G, lab


def graph_case(rng, nmin=1, nmax=8, weighted_e=False, weighted_n=False, directed=False, zero_w=False):
    G = gen.random_graph(rng, nmin, nmax, directed=directed)
    n = G.number_of_nodes()
    ws = gen.WEIGHTS + ([F(0)] if zero_w else [])
    case = dict(n=n, order=list(G), edges=[list(e) for e in G.edges()], directed=directed)
    case["ew"] = [str(rng.choice(ws)) for _ in case["edges"]] if weighted_e else None
    case["nw"] = [str(rng.choice(ws)) for _ in range(n)] if weighted_n else None
    return case


def graph_req(G, lab, case):
    """index = position in list(G); returns idx map and adjacency / weight tables in index space"""
    idx = gen.index_of(G)
    adj = gen.adj_lists(G, idx)
    ew = None
    if case.get("ew") is not None:
        ew = []
        for u in G:
            for v in G.neighbors(u):
                ew.append([idx[u], idx[v], rs(G.adj[u][v]["w"])])
    nw = None
    if case.get("nw") is not None:
        nw = [rs(G.nodes[u]["r"]) for u in G]
    return idx, adj, ew, nw


# ------------------------------------------------------------------------------------------ Gillespie SIR / SIS
def gillespie_case(rng, sis, **kw):
    # one weighted case in three also draws zero weights: an edge that never transmits, a node that never recovers
    kw.setdefault("zero_w", rng.random() < 1 / 3)
    c = graph_case(rng, weighted_e=rng.random() < 0.5, weighted_n=rng.random() < 0.5, **kw)
    n = c["n"]
    c["sis"] = sis
    c["tau"] = str(rng.choice(gen.RATES))
    c["gamma"] = str(rng.choice(gen.RATES))
    r = rng.random()
    nodes = list(range(n))
    if r < 0.7:
        k = rng.randint(1, min(n, 3))
        c["init"] = dict(kind="list", nodes=rng.sample(nodes, k))
        c["container"] = rng.choice(["list", "tuple", "set", "array", "range"]) if rng.random() < 0.3 else "list"
    elif r < 0.8:
        c["init"] = dict(kind="single", node=rng.choice(nodes))
    elif r < 0.9:
        c["init"] = dict(kind="rho", rho=str(rng.choice([F(1, 4), F(1, 2), F(1, 8), F(3, 4), F(1), F(0)])))
    else:
        c["init"] = dict(kind="default")
    c["recs"] = []
    if not sis and c["init"]["kind"] in ("list", "single") and rng.random() < 0.4:
        used = c["init"].get("nodes", [c["init"].get("node")])
        rest = [u for u in nodes if u not in used]
        if rest:
            c["recs"] = rng.sample(rest, rng.randint(1, min(2, len(rest))))
    c["tmin"] = str(rng.choice([F(0), F(0), F(1), F(-1, 2), F(5, 2), F(-3)]))
    c["tmax"] = rng.choice(["inf", "inf"] + [str(F(c["tmin"]) + d) for d in (F(1, 2), 2, 5, 20)]) if not sis else str(F(c["tmin"]) + rng.choice([F(1, 2), 2, 4, 8]))
    c["full"] = rng.random() < 0.5
    return c


def _container(kind, nodes):
    if kind == "tuple":
        return tuple(nodes)
    if kind == "set":
        return set(nodes)
    if kind == "array" and all(isinstance(x, int) for x in nodes):
        return np.array(nodes)
    if kind == "range" and nodes == list(range(len(nodes))):
        return range(len(nodes))
    return list(nodes)


def gillespie_call(case, G, lab, tr, full=None):
    import EoN
    fn = EoN.Gillespie_SIS if case["sis"] else EoN.Gillespie_SIR
    kw = dict(tmin=float(F(case["tmin"])), tmax=float("inf") if case["tmax"] == "inf" else float(F(case["tmax"])))
    init = case["init"]
    if init["kind"] == "list":
        kw["initial_infecteds"] = _container(case.get("container", "list"), [lab(i) for i in init["nodes"]])
    elif init["kind"] == "single":
        kw["initial_infecteds"] = lab(init["node"])
    elif init["kind"] == "rho":
        kw["rho"] = float(F(init["rho"]))
    if not case["sis"] and (case["recs"] or case.get("recs_given")):
        kw["initial_recovereds"] = [lab(i) for i in case["recs"]]
    if case.get("ew") is not None:
        kw["transmission_weight"] = "w"
    if case.get("nw") is not None:
        kw["recovery_weight"] = "r"
    kw["return_full_data"] = case["full"] if full is None else full
    kw.update(case.get("_objs", {}))      # caller-owned initial-condition containers (C19)
    with rngmod.scripted(tr):
        return fn(G, float(F(case["tau"])), float(F(case["gamma"])), **kw)


def enc_trace(trace, idx):
    out = []
    for c in trace:
        if c[0] == "e":
            out.append(["e", rs(c[1])])
        elif c[0] == "c":
            out.append(["c", [rngmod.enc_item(x, idx) for x in c[1]]])
        elif c[0] == "b":
            out.append(["b", c[1], c[2]])
        else:
            out.append(list(c))
    return out


def full_data_out(sim, G, idx, sir):
    """canonical dump of a Simulation_Investigation"""
    out = {}
    tr = sim.transmissions()
    out["transmissions"] = [[rs(t), (None if u is None else idx[u]), idx[v]] for (t, u, v) in tr]
    hist = {}
    for u in G:
        ts, ss = sim.node_history(u)
        hist[idx[u]] = [[rs(t), s] for t, s in zip(ts, ss)]
    out["history"] = [hist[i] for i in range(len(idx))]
    summ = sim.summary()
    out["summary"] = dict(t=arr(summ[0]), **{k: iarr(v) for k, v in summ[1].items()})
    return out


def run_impl_gillespie(case, tape=None, rng=None, full=None):
    G, lab = build_graph(case)
    idx = gen.index_of(G)
    tr = rngmod.TapeRandom(rng=rng, tape=tape, idx=idx)
    out = {}
    try:
        res = gillespie_call(case, G, lab, tr, full)
        isfull = case["full"] if full is None else full
        if isfull:
            out.update(full_data_out(res, G, idx, not case["sis"]))
            out["t"] = arr(res.t())
            out["S"] = iarr(res.S()); out["I"] = iarr(res.I())
            if not case["sis"]:
                out["R"] = iarr(res.R())
            out["obj"] = res
        else:
            out["t"] = arr(res[0]); out["S"] = iarr(res[1]); out["I"] = iarr(res[2])
            if not case["sis"]:
                out["R"] = iarr(res[3])
        out["ok"] = True
    except Exception as e:
        out["ok"] = False
        out["err"] = err_enum(e)
    out["tape"] = tr.log
    out["trace"] = enc_trace(tr.trace, idx)
    return out, G, idx


def req_gillespie(case, tape):
    G, lab = build_graph(case)
    idx, adj, ew, nw = graph_req(G, lab, case)
    li = {i: idx[lab(i)] for i in range(case["n"])}
    init = case["init"]
    if init["kind"] == "list":
        nodes = [li[i] for i in init["nodes"]]
        if case.get("container") == "set":
            nodes = [idx[x] for x in set(lab(i) for i in init["nodes"])]
        init_req = dict(kind="list", nodes=nodes)
    elif init["kind"] == "single":
        init_req = dict(kind="list", nodes=[li[init["node"]]])
    else:
        init_req = init
    return dict(op="gillespie", sis=case["sis"], n=case["n"], adj=adj, tau=case["tau"], gamma=case["gamma"], ew=ew, nw=nw,
                init=init_req, recs=[li[i] for i in case["recs"]], tmin=case["tmin"], tmax=case["tmax"], tape=tape)


def compare_gillespie(case, impl, model):
    """returns None if equal else description of the first difference"""
    if not impl["ok"]:
        if model.get("ok"):
            return "impl raised %s, model ran" % impl["err"]
        me = model.get("err", "")
        if me != impl["err"]:
            return "impl raised %s, model error %s" % (impl["err"], me)
        return None
    if not model.get("ok"):
        return "model error %s, impl ran" % model.get("err")
    if model["trace"] != impl["trace"]:
        i = next((i for i in range(min(len(model["trace"]), len(impl["trace"]))) if model["trace"][i] != impl["trace"][i]),
                 min(len(model["trace"]), len(impl["trace"])))
        return "RNG trace differs at call %d: impl %s model %s" % (
            i, impl["trace"][i] if i < len(impl["trace"]) else None, model["trace"][i] if i < len(model["trace"]) else None)
    keys = ["t", "S", "I"] + ([] if case["sis"] else ["R"])
    mm = dict(t=model["times"], S=model["S"], I=model["I"], R=model["R"])
    for k in keys:
        if impl[k] != mm[k]:
            return "array %s differs: impl %s model %s" % (k, impl[k][:12], mm[k][:12])
    return None
