import EoNVerif.Model.EventSIR
/-!
C11 — target statements: the event-queue algorithm of `fast_nonMarkov_SIR` computes first-passage percolation,
for every delay/duration table (ties, 0 and ∞ included) and every order in which simultaneous events are popped.
-/
namespace EventSIR

/-- well-formed inputs -/
structure WF (nodes : List Node) (nbrs : Node → List Node) (delay : Node → Node → ERat) (dur : Node → ERat)
    (infs recs : List Node) : Prop where
  nodup : nodes.Nodup
  nbr_nodup : ∀ u ∈ nodes, (nbrs u).Nodup
  nbr_mem : ∀ u ∈ nodes, ∀ v ∈ nbrs u, v ∈ nodes
  delay_nonneg : ∀ u v d, delay u v = some d → 0 ≤ d
  dur_nonneg : ∀ u d, dur u = some d → 0 ≤ d
  infs_nodup : infs.Nodup
  infs_mem : ∀ u ∈ infs, u ∈ nodes
  recs_mem : ∀ u ∈ recs, u ∈ nodes
  disjoint : ∀ u ∈ infs, u ∉ recs

def tableParams (nodes : List Node) (nbrs : Node → List Node) (delay : Node → Node → ERat) (dur : Node → ERat)
    (tmin : Rat) (tmax : ERat) : ESParams :=
  { nodes := nodes, nbrs := nbrs, joint := jointOfTables delay dur, tmin := tmin, tmax := tmax }

/-- recoveries reported by a run: rows in which `I` decreases are not recorded with the node in the state, so the
recovery list is reconstructed from `recTime` for the nodes whose final status is `R` (this is what the
implementation's full-data bookkeeping does, simulation.py 2370–2371) -/
def recoveriesOf (nodes recs : List Node) (s : ESState) : List (Rat × Node) :=
  nodes.filterMap fun v =>
    if s.status v = St.R ∧ v ∉ recs then (match s.recTime v with | some t => some (t, v) | none => none) else none

/-- **soundness (every fuel, every tie order)**: each reported transmission goes along a kept edge from a node
reported infected `delay` earlier, or is a source-less entry of an initial node at `tmin`; all times are `< tmax`. -/
theorem fpp_sound (nodes : List Node) (nbrs : Node → List Node) (delay : Node → Node → ERat) (dur : Node → ERat)
    (tmin : Rat) (tmax : ERat) (infs recs : List Node) (h : WF nodes nbrs delay dur infs recs)
    (sel : Nat → Nat) (fuel : Nat) :
    let s := run (tableParams nodes nbrs delay dur tmin tmax) sel infs recs fuel
    ∀ e ∈ s.trans, ERat.lt (some e.1) tmax = true ∧
      match e.2.1 with
      | none => e.2.2 ∈ infs ∧ e.1 = tmin
      | some u => keeps nbrs delay dur u e.2.2 = true ∧ u ∉ recs ∧
          ∃ eu ∈ s.trans, eu.2.2 = u ∧ ERat.add (some eu.1) (delay u e.2.2) = some e.1 := sorry

/-- each node is reported infected at most once -/
theorem fpp_once (nodes : List Node) (nbrs : Node → List Node) (delay : Node → Node → ERat) (dur : Node → ERat)
    (tmin : Rat) (tmax : ERat) (infs recs : List Node) (h : WF nodes nbrs delay dur infs recs)
    (sel : Nat → Nat) (fuel : Nat) (v : Node) :
    ((run (tableParams nodes nbrs delay dur tmin tmax) sel infs recs fuel).trans.filter fun e => e.2.2 == v).length ≤ 1 := sorry

/-- **termination**: the queue is empty after at most `(N+1)² + N + 1` pops -/
theorem fpp_terminates (nodes : List Node) (nbrs : Node → List Node) (delay : Node → Node → ERat) (dur : Node → ERat)
    (tmin : Rat) (tmax : ERat) (infs recs : List Node) (h : WF nodes nbrs delay dur infs recs)
    (sel : Nat → Nat) (fuel : Nat) (hf : (nodes.length + 1) * (nodes.length + 1) + nodes.length + 1 ≤ fuel) :
    (run (tableParams nodes nbrs delay dur tmin tmax) sel infs recs fuel).queue = [] := sorry

/-- **first-passage percolation (full statement)**: once the queue is empty the reported infection times are the
shortest-path times of the kept-edge digraph, infectors are shortest-path predecessors, recoveries are `dur` later,
nothing at or after `tmax` is reported — whatever the tie-breaking order. -/
theorem fpp (nodes : List Node) (nbrs : Node → List Node) (delay : Node → Node → ERat) (dur : Node → ERat)
    (tmin : Rat) (tmax : ERat) (infs recs : List Node) (h : WF nodes nbrs delay dur infs recs)
    (sel : Nat → Nat) (fuel : Nat)
    (hq : (run (tableParams nodes nbrs delay dur tmin tmax) sel infs recs fuel).queue = []) :
    let s := run (tableParams nodes nbrs delay dur tmin tmax) sel infs recs fuel
    isFPP nodes nbrs delay dur tmin tmax infs recs s.trans (recoveriesOf nodes recs s) = true := sorry

/-- the kept-edge digraph of the percolation builders and its out-component (`get_infected_nodes`) -/
inductive Reach (nbrs : Node → List Node) (delay : Node → Node → ERat) (dur : Node → ERat) (infs recs : List Node) :
    Node → Prop
  | init (v : Node) : v ∈ infs → v ∉ recs → Reach nbrs delay dur infs recs v
  | step (u v : Node) : Reach nbrs delay dur infs recs u → keeps nbrs delay dur u v = true → v ∉ recs →
      Reach nbrs delay dur infs recs v

theorem outComp_spec (nodes : List Node) (nbrs : Node → List Node) (delay : Node → Node → ERat) (dur : Node → ERat)
    (infs recs : List Node) (h : WF nodes nbrs delay dur infs recs) (v : Node) :
    v ∈ outComp nodes nbrs delay dur infs recs ↔ Reach nbrs delay dur infs recs v := sorry

end EventSIR

/-! non-vacuity: a triangle with a tie, a zero delay and an infinite duration -/
def exNb (u : Node) : List Node := match u with | 0 => [1, 2] | 1 => [0, 2] | 2 => [0, 1] | _ => []
def exDelay (u v : Node) : ERat := if u = 0 ∧ v = 1 then some 1 else if u = 0 ∧ v = 2 then some 1 else if u = 1 ∧ v = 2 then some 0 else some 5
def exDur (u : Node) : ERat := if u = 0 then none else some 2
#eval (EventSIR.run (EventSIR.tableParams [0,1,2] exNb exDelay exDur 0 none) (fun _ => 0) [0] [] 50).trans.reverse
#eval EventSIR.isFPP [0,1,2] exNb exDelay exDur 0 none [0] []
  (EventSIR.run (EventSIR.tableParams [0,1,2] exNb exDelay exDur 0 none) (fun _ => 1) [0] [] 50).trans
  (EventSIR.recoveriesOf [0,1,2] [] (EventSIR.run (EventSIR.tableParams [0,1,2] exNb exDelay exDur 0 none) (fun _ => 1) [0] [] 50))
