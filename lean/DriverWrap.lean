import Driver
import EoNVerif.Gen.WrapGen
open Lean Drv

/-! JSON-lines driver for the code GENERATED from the `*_from_graph` wrappers of EoN/analytic.py (Gen/WrapGen.lean).
Request: `{"fn": <wrapper>, "nodes": [...], "deg": [...], "nbrs": [[...], ...]` (aligned with `nodes`), `"edges": [[u,v], ...]`
(networkx order), `"infs"` / `"recs"`: list or null, `"rho"`: rational or null, `"tau","gamma","p","tmin","tmax"`: rationals,
`"tcount","its"`: ints, `"full"`: bool, `"xs"`: the points where function-valued arguments are evaluated, `"mode"`:
`"args"` (the record of arguments handed to the base function) or `"run"` (wrapper composed with the generated base
function; final-size / discrete-time functions only)`}`.  Response: `{"ok":true,"args":{...}}` or `{"ok":false,"err":"EoNError"}`. -/
namespace DrvGenWrap
open GenWrap PyWrap

def jDict (d : List (Nat × Rat)) : Json := jArr (fun kv => Json.arr #[jNat kv.1, jRat kv.2]) d

def jVal (xs : List Rat) (v : Val) : Json :=
  match v with
  | .rat x => jRat x
  | .int i => jInt i
  | .bool b => Json.bool b
  | .nil => Json.null
  | .vec l => jArr jRat l
  | .mat m => jArr (jArr jRat) m
  | .dict d => jDict d
  | .ddict d => jArr (fun row => Json.arr #[jNat row.1, jDict row.2]) d
  | .fn f => jArr (fun x => match f x with
      | .ok y => Json.mkObj [("ok", Json.bool true), ("value", jRat y)]
      | .error e => errObj e) xs

def optNodes (j : Json) (k : String) : Except String (Option (List Node)) :=
  match fldOpt j k with
  | none => pure none
  | some x => (getList getNat x).map some

def optRat (j : Json) (k : String) : Except String (Option Rat) :=
  match fldOpt j k with
  | none => pure none
  | some x => (getRat x).map some

def ratD (j : Json) (k : String) : Except String Rat :=
  match fldOpt j k with
  | none => pure 0
  | some x => getRat x

def intD (j : Json) (k : String) : Except String Int :=
  match fldOpt j k with
  | none => pure 0
  | some x => x.getInt?

def run (j : Json) : Except String Json := do
  let name ← getStr (← fld j "fn")
  let nodes ← getList getNat (← fld j "nodes")
  let degs ← getList getNat (← fld j "deg")
  let nbrs ← getList (getList getNat) (← fld j "nbrs")
  let edges ← getList (fun e => do
    match ← getArr e with
    | [u, v] => pure ((← getNat u), (← getNat v))
    | _ => .error "bad edge") (← fld j "edges")
  let xs ← match fldOpt j "xs" with | some x => getList getRat x | none => pure []
  let pos : Node → Option Nat := fun u => nodes.idxOf? u
  let A : WArgs := { nodes := nodes, edges := edges,
                     degree := fun u => match pos u with | some i => degs.getD i 0 | none => 0,
                     hasNode := fun u => nodes.contains u,
                     neighbors := fun u => match pos u with | some i => nbrs.getD i [] | none => [] }
  let P : Params := { tau := ← ratD j "tau", gamma := ← ratD j "gamma", p := ← ratD j "p",
                      initial_infecteds := ← optNodes j "infs", initial_recovereds := ← optNodes j "recs", rho := ← optRat j "rho",
                      tmin := ← ratD j "tmin", tmax := ← ratD j "tmax", tcount := ← intD j "tcount", number_its := ← intD j "its",
                      return_full_data := ← (match fldOpt j "full" with | some b => getBool b | none => pure false) }
  let mode ← match fldOpt j "mode" with | some m => getStr m | none => pure "args"
  if mode == "defaults" then
    match defaults_of name with
    | none => .error ("no wrapper generated for " ++ name)
    | some d => pure (Json.mkObj [("ok", Json.bool true), ("tmin", jRat d.tmin), ("tmax", jRat d.tmax), ("tcount", jInt d.tcount),
        ("its", jInt d.number_its), ("full", Json.bool d.return_full_data)])
  else if mode == "run" then
    match run_help name A P with
    | none => .error ("no composition generated for " ++ name)
    | some (.error e) => pure (errObj e)
    | some (.ok v) => pure (Json.mkObj [("ok", Json.bool true), ("value", jVal xs v)])
  else
    match run_args name A P with
    | none => .error ("no wrapper generated for " ++ name)
    | some (.error e) => pure (errObj e)
    | some (.ok l) => pure (Json.mkObj [("ok", Json.bool true), ("args", Json.mkObj (l.map fun kv => (kv.1, jVal xs kv.2)))])

def handle (line : String) : String :=
  match Json.parse line with
  | .ok j => match run j with
    | .ok r => r.compress
    | .error e => (errObj ("driverwrap:" ++ e)).compress
  | .error e => (errObj ("parse:" ++ e)).compress
end DrvGenWrap
