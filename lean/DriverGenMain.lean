import DriverGen
partial def loopGen (h : IO.FS.Stream) (out : IO.FS.Stream) : IO Unit := do
  let line ← h.getLine
  if line.isEmpty then return ()
  out.putStrLn (DrvGenLD.handle line)
  loopGen h out
def main : IO Unit := do loopGen (← IO.getStdin) (← IO.getStdout)
