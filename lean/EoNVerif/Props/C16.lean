import EoNVerif.Model.ListDict
import EoNVerif.Model.ListDictLaw
import EoNVerif.Proofs.ListDict
/-!
C16 — property theorems (all proved).  Helper lemmas are in `EoNVerif/Proofs/ListDict.lean`
(may import single Mathlib modules); this file (final home: `EoNVerif/Props/C16.lean`) keeps only the property
theorems and the non-vacuity examples.
-/
namespace LD
variable {α : Type} [DecidableEq α]

/- `LD.Inv` (the invariant of the candidate structure) is defined, unchanged, in `EoNVerif/Proofs/ListDict.lean`. -/

theorem ld_inv_empty (b : Bool) : Inv (LD.empty b : LD α) := inv_empty b

/-- one operation with a non-negative weight preserves the invariant -/
theorem ld_inv_step (s s' : LD α) (o : Op α) (h : Inv s) (hw : o.nonneg) (hs : s.applyOp o = some s') : Inv s' :=
  inv_step s s' o h hw hs

/-- every finite history of insert / replace / non-negative increment / remove, from empty -/
theorem ld_inv (b : Bool) (ops : List (Op α)) (s : LD α) (hw : ∀ o ∈ ops, o.nonneg)
    (hs : (LD.empty b : LD α).applyOps ops = some s) : Inv s :=
  inv_applyOps _ ops s (inv_empty b) hw hs

/-- the clock uses the sum of the current weights -/
theorem ld_total (b : Bool) (ops : List (Op α)) (s : LD α) (hw : ∀ o ∈ ops, o.nonneg)
    (hs : (LD.empty b : LD α).applyOps ops = some s) :
    s.totalWeight = if s.weighted then s.weightSum else (s.items.length : Rat) := by
  have h := inv_applyOps _ ops s (inv_empty b) hw hs
  unfold totalWeight
  by_cases hwt : s.weighted = true
  · rw [if_pos hwt, if_pos hwt]; exact h.total hwt
  · rw [if_neg hwt, if_neg hwt]

/-- remove never raises KeyError on a present candidate, and deletes exactly that candidate -/
theorem ld_remove_spec (s : LD α) (x : α) (h : Inv s) (hx : x ∈ s.items) :
    ∃ s', s.remove x = some s' ∧ (∀ y, y ∈ s'.items ↔ (y ∈ s.items ∧ y ≠ x)) ∧
      (s.weighted = true → ∀ y ∈ s'.items, s'.getW y = s.getW y) := by
  obtain ⟨s', hs', hit, _, hrest⟩ := remove_shape s x hx
  have hmem : ∀ y, y ∈ s'.items ↔ (y ∈ s.items ∧ y ≠ x) := by
    intro y; rw [hit]; exact mem_swapRemove _ _ _ h.nodup hx
  refine ⟨s', hs', hmem, ?_⟩
  intro hwt y hy
  unfold getW
  rw [(hrest hwt).1]
  exact alGet_alDel_ne _ _ _ _ ((hmem y).1 hy).2

set_option linter.unusedVariables false in -- `hw` is not needed for this spec
/-- update on an absent candidate inserts it with the given weight, on a present one adds the increment;
other candidates keep their weight -/
theorem ld_update_spec (s s' : LD α) (x : α) (w : Rat) (h : Inv s) (hw : 0 ≤ w) (hwt : s.weighted = true)
    (hs : s.update x (some w) = some s') :
    (∀ y, y ∈ s'.items ↔ (y ∈ s.items ∨ y = x)) ∧
    s'.getW x = (if x ∈ s.items then s.getW x else 0) + w ∧
    (∀ y, y ≠ x → s'.getW y = s.getW y) := by
  refine ⟨update_mem s s' x w hs, ?_, fun y hy => update_getW_ne s s' x y w hs hy⟩
  rw [update_getW_self s s' x w hs]
  by_cases hx : x ∈ s.items
  · rw [if_pos hx]
  · rw [if_neg hx, getW_of_not_mem s h hwt x hx]

/-- **selection law**: after any history, within `k` rounds candidate `x` is selected with probability
`w_x/Σw · (1-ρ^k)`; `ρ^k` is the probability that all `k` rounds reject (→ 0). -/
theorem ld_choose_law (s : LD α) (h : Inv s) (hwt : s.weighted = true) (hpos : 0 < s.weightSum)
    (x : α) (hx : x ∈ s.items) (k : Nat) :
    Dist.mass (s.chooseDist k) (fun o => o == some x) = s.getW x / s.weightSum * (1 - s.rejProb ^ k) :=
  choose_law s h hwt hpos x hx k

/-- the rejection probability is in [0,1): the loop terminates with probability 1 -/
theorem ld_rej_lt_one (s : LD α) (h : Inv s) (hwt : s.weighted = true) (hpos : 0 < s.weightSum) :
    0 ≤ s.rejProb ∧ s.rejProb < 1 :=
  rej_bounds s h hwt hpos

/-- unweighted: uniform -/
theorem ld_choose_law_unweighted (s : LD α) (h : Inv s) (hwt : s.weighted = false)
    (x : α) (hx : x ∈ s.items) (k : Nat) :
    Dist.mass (s.chooseDist (k+1)) (fun o => o == some x) = 1 / (s.items.length : Rat) :=
  choose_law_unweighted s h hwt x hx k

/-- zero-weight candidates are never selected (law form) -/
theorem ld_zero_never (s : LD α) (h : Inv s) (hwt : s.weighted = true)
    (x : α) (hx : x ∈ s.items) (h0 : s.getW x = 0) (k : Nat) :
    Dist.mass (s.chooseDist k) (fun o => o == some x) = 0 :=
  zero_never s h hwt x hx h0 k

/-- zero-weight candidates are never selected (pathwise form: for every tape of draws in [0,1)) and the
selected element is always a current candidate -/
theorem ld_choose_tape (s : LD α) (h : Inv s) (draws : List (Nat × Rat)) (hd : ∀ d ∈ draws, 0 ≤ d.2)
    (c : α) (n : Nat) (hc : s.chooseRandom draws = some (c, n)) :
    c ∈ s.items ∧ (s.weighted = true → 0 < s.getW c) :=
  choose_tape s h draws hd c n hc

/-- tie between the tape form and the law form: round 1 of the tape run accepts index `i` exactly on the event
`r < acceptThr`, whose probability is the Bernoulli parameter used in `chooseDist` -/
theorem ld_choose_round (s : LD α) (hwt : s.weighted = true) (i : Nat) (r : Rat) (rest : List (Nat × Rat)) (c : α)
    (hi : s.items[i]? = some c) :
    s.chooseRandom ((i, r) :: rest) =
      if r < s.acceptThr c then some (c, 1) else (s.chooseRandom rest).map fun (c', k) => (c', k + 1) :=
  choose_round s hwt i r rest c hi

end LD

/-! non-vacuity: a concrete history with a change of the heaviest element satisfies every hypothesis -/
example : ((LD.empty true : LD Nat).applyOps
    [.ins 1 (some 3), .ins 2 (some 1), .upd 2 (some (1/2)), .rem 1, .ins 3 (some 2)]).map
      (fun s => (s.items, s.maxW, s.total, s.weightSum)) = some ([2, 3], 2, 7/2, 7/2) := by decide +kernel
