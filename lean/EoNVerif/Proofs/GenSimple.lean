import EoNVerif.Gen.SimpleGen
import EoNVerif.Proofs.GenComplex
import EoNVerif.Proofs.Simple2
/-!
Refinement (C03b): the Lean code GENERATED statement by statement from `Gillespie_simple_contagion`
(`EoNVerif/Gen/SimpleGen.lean`, namespace `GenSC`) and the hand-written model (`EoNVerif/Model/Simple.lean`) compute
related results on EVERY tape state: both fail, or both return, with the same final tape state and related states
(`GenSC.Rel`).
-/

set_option linter.unusedSectionVars false
set_option linter.unusedVariables false
set_option linter.unusedSimpArgs false

/-! ### association lists, `get_weight` tables -/
section AL2
variable {κ ν : Type} [DecidableEq κ]

theorem alGet_alSet_if (d : List (κ × ν)) (x y : κ) (v dflt : ν) :
    alGet (alSet d x v) dflt y = if y = x then v else alGet d dflt y := by
  by_cases h : y = x
  · subst h; rw [if_pos rfl, alGet_alSet_self]
  · rw [if_neg h, alGet_alSet_ne _ _ _ _ _ h]

theorem alHas_alSet_bool (d : List (κ × ν)) (x y : κ) (v : ν) :
    alHas (alSet d x v) y = (alHas d y || decide (y = x)) := by
  rw [Bool.eq_iff_iff, alHas_alSet]; simp

theorem dictGet_of_find (d : List (κ × ν)) (k : κ) (v : ν) (h : PyRT.alFind? d k = some v) :
    PyRT.dictGet d k = .ok v := by
  simp only [PyRT.dictGet, h]; rfl

theorem find_alSet_self (d : List (κ × ν)) (k : κ) (v : ν) : PyRT.alFind? (alSet d k v) k = some v := by
  rw [GenLD.alFind?_alSet, if_pos rfl]

theorem find_alSet_ne (d : List (κ × ν)) (k k' : κ) (v : ν) (h : k' ≠ k) :
    PyRT.alFind? (alSet d k v) k' = PyRT.alFind? d k' := by
  rw [GenLD.alFind?_alSet, if_neg h]

end AL2

namespace GenSC
variable {τ : Type} [DecidableEq τ]

abbrev GW (τ : Type) := List (PyTM.Tr τ × List (Actor × Option Rat))
abbrev PT (τ : Type) := List (PyTM.Tr τ × GenLD.PyLD Actor)

/-- the value `get_weight[t][k]` would return (a missing entry reads as `None`) -/
def gwVal (g : GW τ) (t : PyTM.Tr τ) (k : Actor) : Option Rat := alGet (alGet g [] t) none k

theorem gwHas_def (g : GW τ) (t : PyTM.Tr τ) (k : Actor) : PyTM.gwHas g t k = alHas (alGet g [] t) k := rfl

theorem gwRead_fst (g : GW τ) (t : PyTM.Tr τ) (k : Actor) : (PyTM.gwRead g t k).1 = gwVal g t k := by
  unfold PyTM.gwRead gwVal
  dsimp only
  split
  · rfl
  · rename_i h
    exact (alGet_of_not_alHas _ _ _ (GenLD.alHas_eq_false_of_not _ _ h)).symm

theorem gwVal_gwRead (g : GW τ) (t t' : PyTM.Tr τ) (k k' : Actor) :
    gwVal (PyTM.gwRead g t k).2 t' k' = gwVal g t' k' := by
  unfold PyTM.gwRead gwVal
  dsimp only
  split
  · rfl
  · rename_i h
    dsimp only
    rw [alGet_alSet_if]
    by_cases ht : t' = t
    · subst ht
      rw [if_pos rfl, alGet_alSet_if]
      by_cases hk : k' = k
      · subst hk
        rw [if_pos rfl, alGet_of_not_alHas _ _ _ (GenLD.alHas_eq_false_of_not _ _ h)]
      · rw [if_neg hk]
    · rw [if_neg ht]

theorem gwHas_gwRead (g : GW τ) (t t' : PyTM.Tr τ) (k k' : Actor) (h : PyTM.gwHas g t' k' = true) :
    PyTM.gwHas (PyTM.gwRead g t k).2 t' k' = true := by
  unfold PyTM.gwRead
  dsimp only
  split
  · exact h
  · dsimp only
    rw [gwHas_def, alGet_alSet_if]
    by_cases ht : t' = t
    · subst ht
      rw [if_pos rfl, alHas_alSet_bool, ← gwHas_def, h]; rfl
    · rw [if_neg ht]; exact h

theorem gwVal_gwSet (g : GW τ) (t t' : PyTM.Tr τ) (k k' : Actor) (v : Option Rat) :
    gwVal (PyTM.gwSet g t k v) t' k' = if t' = t ∧ k' = k then v else gwVal g t' k' := by
  unfold PyTM.gwSet gwVal
  rw [alGet_alSet_if]
  by_cases ht : t' = t
  · subst ht
    rw [if_pos rfl, alGet_alSet_if]
    by_cases hk : k' = k
    · rw [if_pos hk, if_pos ⟨rfl, hk⟩]
    · rw [if_neg hk, if_neg (fun hc => hk hc.2)]
  · rw [if_neg ht, if_neg (fun hc => ht hc.1)]

theorem gwHas_gwSet (g : GW τ) (t t' : PyTM.Tr τ) (k k' : Actor) (v : Option Rat)
    (h : PyTM.gwHas g t' k' = true) : PyTM.gwHas (PyTM.gwSet g t k v) t' k' = true := by
  unfold PyTM.gwSet
  rw [gwHas_def, alGet_alSet_if]
  by_cases ht : t' = t
  · subst ht
    rw [if_pos rfl, alHas_alSet_bool, ← gwHas_def, h]; rfl
  · rw [if_neg ht]; exact h

/-! ### keys of the transitions -/

def keyS (tr : SpontTr τ) : τ × τ := (tr.src, tr.dst)
def keyI (tr : IndTr τ) : (τ × τ) × (τ × τ) := ((tr.a, tr.b), (tr.a, tr.c))
def kS (tr : SpontTr τ) : PyTM.Tr τ := Sum.inl (keyS tr)
def kI (tr : IndTr τ) : PyTM.Tr τ := Sum.inr (keyI tr)

/-- **invariant of `get_weight`**: for a weighted transition every node (ordered neighbour pair) is stored with the
tabulated weight; for an unweighted one every read returns `None` -/
structure GWInv (P : SCParams τ) (g : GW τ) : Prop where
  spontW : ∀ tr ∈ P.spont, ∀ f, tr.w = some f → ∀ u ∈ P.nodes,
    PyTM.gwHas g (kS tr) [u] = true ∧ gwVal g (kS tr) [u] = some (f u)
  spontU : ∀ tr ∈ P.spont, tr.w = none → ∀ a, gwVal g (kS tr) a = none
  indW : ∀ tr ∈ P.ind, ∀ f, tr.w = some f → ∀ u ∈ P.nodes, ∀ v ∈ P.succ u,
    PyTM.gwHas g (kI tr) [u, v] = true ∧ gwVal g (kI tr) [u, v] = some (f u v)
  indU : ∀ tr ∈ P.ind, tr.w = none → ∀ a, gwVal g (kI tr) a = none

theorem GWInv.read {P : SCParams τ} {g : GW τ} (h : GWInv P g) (t : PyTM.Tr τ) (k : Actor) :
    GWInv P (PyTM.gwRead g t k).2 := by
  refine ⟨?_, ?_, ?_, ?_⟩
  · intro tr htr f hf u hu
    obtain ⟨h1, h2⟩ := h.spontW tr htr f hf u hu
    exact ⟨gwHas_gwRead _ _ _ _ _ h1, by rw [gwVal_gwRead]; exact h2⟩
  · intro tr htr hf a
    rw [gwVal_gwRead]; exact h.spontU tr htr hf a
  · intro tr htr f hf u hu v hv
    obtain ⟨h1, h2⟩ := h.indW tr htr f hf u hu v hv
    exact ⟨gwHas_gwRead _ _ _ _ _ h1, by rw [gwVal_gwRead]; exact h2⟩
  · intro tr htr hf a
    rw [gwVal_gwRead]; exact h.indU tr htr hf a

theorem GWInv.readS {P : SCParams τ} {g : GW τ} (h : GWInv P g) (tr : SpontTr τ) (htr : tr ∈ P.spont) (u : Node)
    (hu : u ∈ P.nodes) : (PyTM.gwRead g (kS tr) [u]).1 = Simple.wS tr u := by
  rw [gwRead_fst]
  cases hf : tr.w with
  | none => rw [h.spontU tr htr hf]; simp [Simple.wS, hf]
  | some f => rw [(h.spontW tr htr f hf u hu).2, Simple.wS_some tr f hf]

theorem GWInv.readI {P : SCParams τ} {g : GW τ} (h : GWInv P g) (tr : IndTr τ) (htr : tr ∈ P.ind) (u v : Node)
    (hu : u ∈ P.nodes) (hv : v ∈ P.succ u) : (PyTM.gwRead g (kI tr) [u, v]).1 = Simple.wI tr u v := by
  rw [gwRead_fst]
  cases hf : tr.w with
  | none => rw [h.indU tr htr hf]; simp [Simple.wI, hf]
  | some f => rw [(h.indW tr htr f hf u hu v hv).2, Simple.wI_some tr f hf]

/-- the fill-in statement `if k not in get_weight[t]: get_weight[t][k] = get_weight[t][k2]` -/
theorem GWInv.fill {P : SCParams τ} {g : GW τ} (h : GWInv P g) (t : PyTM.Tr τ) (k k2 : Actor)
    (hk : PyTM.gwHas g t k = false) :
    GWInv P (PyTM.gwSet (PyTM.gwRead g t k2).2 t k (PyTM.gwRead g t k2).1) := by
  have hne : ∀ a, PyTM.gwHas g t a = true → a ≠ k := by
    intro a ha hc; subst hc; rw [hk] at ha; cases ha
  refine ⟨?_, ?_, ?_, ?_⟩
  · intro tr htr f hf u hu
    obtain ⟨h1, h2⟩ := h.spontW tr htr f hf u hu
    refine ⟨gwHas_gwSet _ _ _ _ _ _ (gwHas_gwRead _ _ _ _ _ h1), ?_⟩
    rw [gwVal_gwSet, gwVal_gwRead, if_neg, h2]
    rintro ⟨rfl, hc⟩
    exact hne _ h1 hc
  · intro tr htr hf a
    rw [gwVal_gwSet, gwVal_gwRead, gwRead_fst]
    split
    · rename_i hc
      rw [← hc.1]; exact h.spontU tr htr hf k2
    · exact h.spontU tr htr hf a
  · intro tr htr f hf u hu v hv
    obtain ⟨h1, h2⟩ := h.indW tr htr f hf u hu v hv
    refine ⟨gwHas_gwSet _ _ _ _ _ _ (gwHas_gwRead _ _ _ _ _ h1), ?_⟩
    rw [gwVal_gwSet, gwVal_gwRead, if_neg, h2]
    rintro ⟨rfl, hc⟩
    exact hne _ h1 hc
  · intro tr htr hf a
    rw [gwVal_gwSet, gwVal_gwRead, gwRead_fst]
    split
    · rename_i hc
      rw [← hc.1]; exact h.indU tr htr hf k2
    · exact h.indU tr htr hf a

/-! ### frames: statements that only touch `potential_transitions` and `get_weight` -/

def setPG (σ : Loc τ) (pt : PT τ) (gw : GW τ) : Loc τ :=
  { σ with potential_transitions := pt, get_weight := gw }

/-- `σ'` differs from `σ` only in `potential_transitions` and `get_weight` -/
def Frame (σ σ' : Loc τ) : Prop := σ' = setPG σ σ'.potential_transitions σ'.get_weight

theorem Frame.refl (σ : Loc τ) : Frame σ σ := rfl

theorem Frame.trans {σ σ1 σ2 : Loc τ} (h1 : Frame σ σ1) (h2 : Frame σ1 σ2) : Frame σ σ2 := by
  unfold Frame at *
  rw [h2, h1]; rfl

theorem Frame.setPG (σ : Loc τ) (pt : PT τ) (gw : GW τ) : Frame σ (setPG σ pt gw) := rfl

theorem Frame.status {σ σ' : Loc τ} (h : Frame σ σ') : σ'.status = σ.status := by rw [h]; rfl

/-- keys other than `k` keep their structure -/
def Other (k : PyTM.Tr τ) (σ σ' : Loc τ) : Prop :=
  ∀ k', k' ≠ k → PyRT.alFind? σ'.potential_transitions k' = PyRT.alFind? σ.potential_transitions k'

theorem Other.refl (k : PyTM.Tr τ) (σ : Loc τ) : Other k σ σ := fun _ _ => rfl

theorem Other.trans {k : PyTM.Tr τ} {σ σ1 σ2 : Loc τ} (h1 : Other k σ σ1) (h2 : Other k σ1 σ2) : Other k σ σ2 :=
  fun k' hk' => (h2 k' hk').trans (h1 k' hk')

/-- the structure stored under `k` is related to `ld` (which satisfies the `_ListDict_` invariant), and the
`get_weight` invariant holds -/
structure St (P : SCParams τ) (k : PyTM.Tr τ) (σ : Loc τ) (ld : LD Actor) : Prop where
  find : ∃ p, PyRT.alFind? σ.potential_transitions k = some p ∧ GenLD.R p ld
  gw : GWInv P σ.get_weight
  inv : LD.Inv ld

structure Evo (P : SCParams τ) (k : PyTM.Tr τ) (σ σ' : Loc τ) (ld' : LD Actor) : Prop where
  frame : Frame σ σ'
  other : Other k σ σ'
  st : St P k σ' ld'

theorem Evo.refl {P : SCParams τ} {k : PyTM.Tr τ} {σ : Loc τ} {ld : LD Actor} (h : St P k σ ld) : Evo P k σ σ ld :=
  ⟨Frame.refl σ, Other.refl k σ, h⟩

theorem Evo.trans {P : SCParams τ} {k : PyTM.Tr τ} {σ σ1 σ2 : Loc τ} {ld1 ld2 : LD Actor}
    (h1 : Evo P k σ σ1 ld1) (h2 : Evo P k σ1 σ2 ld2) : Evo P k σ σ2 ld2 :=
  ⟨h1.frame.trans h2.frame, h1.other.trans h2.other, h2.st⟩

/-! ### the statements on `potential_transitions[k]` -/

/-- `potential_transitions[k].remove(x)` -/
def stRemove (σ : Loc τ) (k : PyTM.Tr τ) (x : Actor) : TM (Loc τ) := do
  let ld ← PyTM.liftE (PyRT.dictGet σ.potential_transitions k)
  let l ← PyTM.liftE (GenLD.remove ld x)
  let σ := { σ with potential_transitions := alSet σ.potential_transitions k l }
  pure σ

/-- `potential_transitions[k].update(x, weight_increment = get_weight[k][x])` -/
def stUpdate (σ : Loc τ) (k : PyTM.Tr τ) (x : Actor) : TM (Loc τ) := do
  let ld ← PyTM.liftE (PyRT.dictGet σ.potential_transitions k)
  let (gw, g') := PyTM.gwRead σ.get_weight k x
  let σ := { σ with get_weight := g' }
  let l ← PyTM.liftE (GenLD.update ld x gw)
  let σ := { σ with potential_transitions := alSet σ.potential_transitions k l }
  pure σ

/-- `if x not in get_weight[k]: get_weight[k][x] = get_weight[k][x2]` -/
def stFill (σ : Loc τ) (k : PyTM.Tr τ) (x x2 : Actor) : TM (Loc τ) :=
  if (!(PyTM.gwHas σ.get_weight k x)) then do
    let (gw, g') := PyTM.gwRead σ.get_weight k x2
    let σ := { σ with get_weight := PyTM.gwSet g' k x gw }
    pure σ
  else do
    pure σ

theorem stRemove_eval (P : SCParams τ) (σ : Loc τ) (k : PyTM.Tr τ) (x : Actor) (ld ld' : LD Actor)
    (h : St P k σ ld) (hrem : ld.remove x = some ld') :
    ∃ σ', stRemove σ k x = pure σ' ∧ Evo P k σ σ' ld' := by
  obtain ⟨⟨p, hf, hR⟩, hg, hI⟩ := h
  obtain ⟨p', hp', hR'⟩ := GenLD.remove_sim p ld ld' x hR hI hrem
  refine ⟨setPG σ (alSet σ.potential_transitions k p') σ.get_weight, ?_, Frame.setPG _ _ _, ?_, ?_, hg, ?_⟩
  · unfold stRemove
    rw [dictGet_of_find _ _ _ hf, PyTM.liftE_ok, pure_bind, hp', PyTM.liftE_ok, pure_bind]
    rfl
  · intro k' hk'
    exact find_alSet_ne _ _ _ _ hk'
  · exact ⟨p', find_alSet_self _ _ _, hR'⟩
  · exact LD.inv_remove ld ld' x hI (GenLD.mem_of_remove_some ld ld' x hrem) hrem

theorem stUpdate_eval (P : SCParams τ) (σ : Loc τ) (k : PyTM.Tr τ) (x : Actor) (ld ld' : LD Actor) (w : Option Rat)
    (h : St P k σ ld) (hw : (PyTM.gwRead σ.get_weight k x).1 = w) (hnn : ∀ v, w = some v → 0 ≤ v)
    (hupd : ld.update x w = some ld') :
    ∃ σ', stUpdate σ k x = pure σ' ∧ Evo P k σ σ' ld' := by
  obtain ⟨⟨p, hf, hR⟩, hg, hI⟩ := h
  obtain ⟨p', hp', hR'⟩ := GenLD.update_sim p ld ld' x w hR hupd
  refine ⟨setPG σ (alSet σ.potential_transitions k p') (PyTM.gwRead σ.get_weight k x).2, ?_, Frame.setPG _ _ _,
    ?_, ?_, hg.read k x, ?_⟩
  · unfold stUpdate
    rw [dictGet_of_find _ _ _ hf, PyTM.liftE_ok, pure_bind]
    dsimp only
    rw [hw, hp', PyTM.liftE_ok, pure_bind]
    rfl
  · intro k' hk'
    exact find_alSet_ne _ _ _ _ hk'
  · exact ⟨p', find_alSet_self _ _ _, hR'⟩
  · exact LD.inv_update ld ld' x w hI hnn hupd

theorem stFill_eval (P : SCParams τ) (σ : Loc τ) (k : PyTM.Tr τ) (x x2 : Actor) (ld : LD Actor)
    (h : St P k σ ld) : ∃ σ', stFill σ k x x2 = pure σ' ∧ Evo P k σ σ' ld := by
  obtain ⟨⟨p, hf, hR⟩, hg, hI⟩ := h
  unfold stFill
  cases hh : PyTM.gwHas σ.get_weight k x with
  | true =>
    exact ⟨σ, by simp, Evo.refl ⟨⟨p, hf, hR⟩, hg, hI⟩⟩
  | false =>
    refine ⟨setPG σ σ.potential_transitions
      (PyTM.gwSet (PyTM.gwRead σ.get_weight k x2).2 k x (PyTM.gwRead σ.get_weight k x2).1), ?_, Frame.setPG _ _ _,
      fun _ _ => rfl, ⟨p, hf, hR⟩, hg.fill k x x2 hh, hI⟩
    simp only [Bool.not_false, if_true]
    rfl

/-- `if c: potential_transitions[k].remove(x)` against the model's `if c then ld.remove x else some ld` -/
theorem stRemove_if (P : SCParams τ) (σ : Loc τ) (k : PyTM.Tr τ) (x : Actor) (ld ld' : LD Actor) (c : Prop)
    [Decidable c] (b : Bool) (hb : b = true ↔ c) (h : St P k σ ld)
    (hrem : (if c then ld.remove x else some ld) = some ld') :
    ∃ σ', (if b = true then stRemove σ k x else pure σ) = pure σ' ∧ Evo P k σ σ' ld' := by
  by_cases hc : c
  · rw [if_pos hc] at hrem
    rw [if_pos (hb.2 hc)]
    exact stRemove_eval P σ k x ld ld' h hrem
  · rw [if_neg hc] at hrem
    obtain rfl := Option.some.inj hrem
    rw [if_neg (fun hh => hc (hb.1 hh))]
    exact ⟨σ, rfl, Evo.refl h⟩

theorem stUpdate_if (P : SCParams τ) (σ : Loc τ) (k : PyTM.Tr τ) (x : Actor) (ld ld' : LD Actor) (w : Option Rat)
    (c : Prop) [Decidable c] (b : Bool) (hb : b = true ↔ c) (h : St P k σ ld)
    (hw : c → (PyTM.gwRead σ.get_weight k x).1 = w)
    (hnn : ∀ v, w = some v → 0 ≤ v)
    (hupd : (if c then ld.update x w else some ld) = some ld') :
    ∃ σ', (if b = true then stUpdate σ k x else pure σ) = pure σ' ∧ Evo P k σ σ' ld' := by
  by_cases hc : c
  · rw [if_pos hc] at hupd
    rw [if_pos (hb.2 hc)]
    exact stUpdate_eval P σ k x ld ld' w h (hw hc) hnn hupd
  · rw [if_neg hc] at hupd
    obtain rfl := Option.some.inj hupd
    rw [if_neg (fun hh => hc (hb.1 hh))]
    exact ⟨σ, rfl, Evo.refl h⟩

end GenSC

namespace GenSC
variable {τ : Type} [DecidableEq τ]

/-! ### the small-total repair is the identity -/

theorem foldl_ddTouch_id (l : List Actor) (p : GenLD.PyLD Actor) (h : ∀ x ∈ l, alHas p.weight x = true) :
    l.foldl (fun (s : GenLD.PyLD Actor) item => { s with weight := PyRT.ddTouch s.weight item }) p = p := by
  induction l with
  | nil => rfl
  | cons a t ih =>
    rw [List.foldl_cons, GenLD.ddTouch_of_alHas _ _ (h a (by simp))]
    exact ih (fun x hx => h x (by simp [hx]))

/-- `update_total_weight()` recomputes the running total from the weight table: under the `_ListDict_` invariant the
recomputed value IS the running total, and no key is inserted by the reads -/
theorem update_total_weight_id (p : GenLD.PyLD Actor) (ld : LD Actor) (hR : GenLD.R p ld) (hI : LD.Inv ld)
    (hw : ld.weighted = true) : GenLD.update_total_weight p = .ok p := by
  have hk : ∀ x ∈ p.items, alHas p.weight x = true := by
    intro x hx
    rw [hR.weight]; exact (hI.keys hw x).2 (hR.items ▸ hx)
  unfold GenLD.update_total_weight
  rw [foldl_ddTouch_id p.items p hk]
  have ht : sumRat (p.items.map fun item => alGet p.weight (0 : Rat) item) = p.total_weight_ := by
    rw [hR.total, hI.total hw, hR.items, hR.weight]; rfl
  simp only [ht, GenLD.pure_eq_ok]

/-- the statements `if total_weight() < 10**-7 and total_weight() != 0: update_total_weight()` -/
def stRepair (σ : Loc τ) (k : PyTM.Tr τ) : TM (Loc τ) := do
  let ld_26 ← PyTM.liftE (PyRT.dictGet σ.potential_transitions k)
  let (l_28, w_27) ← PyTM.liftE (GenLD.total_weight ld_26)
  let σ := { σ with potential_transitions := alSet σ.potential_transitions k l_28 }
  let (σ, c_32) ← (if (decide (w_27 < ((1 : Rat) / 10000000))) then do
    let ld_29 ← PyTM.liftE (PyRT.dictGet σ.potential_transitions k)
    let (l_31, w_30) ← PyTM.liftE (GenLD.total_weight ld_29)
    let σ := { σ with potential_transitions := alSet σ.potential_transitions k l_31 }
    pure (σ, (decide (w_30 ≠ (0 : Rat))))
  else pure (σ, false))
  let σ ← (if c_32 then do
    let ld_33 ← PyTM.liftE (PyRT.dictGet σ.potential_transitions k)
    let l_34 ← PyTM.liftE (GenLD.update_total_weight ld_33)
    let σ := { σ with potential_transitions := alSet σ.potential_transitions k l_34 }
    pure σ
  else do
    pure σ)
  pure σ

theorem natCast_small (n : Nat) (h : (n : Rat) < 1 / 10000000) : n = 0 := by
  by_contra hn
  have h1 : (1 : Rat) ≤ (n : Rat) := by exact_mod_cast Nat.one_le_iff_ne_zero.2 hn
  have h2 : (1 : Rat) / 10000000 < 1 := by norm_num
  exact absurd (lt_of_le_of_lt h1 (lt_trans h h2)) (lt_irrefl _)

theorem stRepair_eval (P : SCParams τ) (σ : Loc τ) (k : PyTM.Tr τ) (ld : LD Actor) (h : St P k σ ld) :
    ∃ σ', stRepair σ k = pure σ' ∧ Evo P k σ σ' ld := by
  obtain ⟨⟨p, hf, hR⟩, hg, hI⟩ := h
  refine ⟨setPG σ (alSet σ.potential_transitions k p) σ.get_weight, ?_, Frame.setPG _ _ _, ?_,
    ⟨p, find_alSet_self _ _ _, hR⟩, hg, hI⟩
  swap
  · intro k' hk'; exact find_alSet_ne _ _ _ _ hk'
  unfold stRepair
  rw [dictGet_of_find _ _ _ hf, PyTM.liftE_ok, pure_bind, GenLD.total_weight_sim p ld hR, PyTM.liftE_ok, pure_bind]
  dsimp only
  by_cases hsm : ld.totalWeight < 1 / 10000000
  · rw [if_pos (decide_eq_true hsm)]
    rw [dictGet_of_find _ _ _ (find_alSet_self _ _ _), PyTM.liftE_ok, pure_bind, GenLD.total_weight_sim p ld hR,
      PyTM.liftE_ok, pure_bind]
    dsimp only
    rw [pure_bind]
    dsimp only
    by_cases h0 : ld.totalWeight = 0
    · rw [if_neg (by simp [h0])]
      simp only [pure_bind, GenLD.alSet_alSet]
      rfl
    · have hw : ld.weighted = true := by
        cases hwd : ld.weighted with
        | true => rfl
        | false =>
          exfalso
          unfold LD.totalWeight at hsm h0
          simp only [hwd, Bool.false_eq_true, if_false] at hsm h0
          exact h0 (by rw [natCast_small _ hsm]; rfl)
      rw [if_pos (by simp [h0])]
      rw [dictGet_of_find _ _ _ (find_alSet_self _ _ _), PyTM.liftE_ok, pure_bind,
        update_total_weight_id p ld hR hI hw, PyTM.liftE_ok, pure_bind]
      simp only [pure_bind, GenLD.alSet_alSet]
      rfl
  · rw [if_neg (by simpa using hsm)]
    simp only [pure_bind, Bool.false_eq_true, if_false]
    rfl

/-! ### one structure per key: the generated dict against the model's list -/

/-- the structures stored under the keys `trs.map key` are related, position by position, to the model's list -/
def PTRel {κ : Type} (pt : PT τ) (key : κ → PyTM.Tr τ) (trs : List κ) (lds : List (LD Actor)) : Prop :=
  lds.length = trs.length ∧ ∀ (i : Nat) tr ld, trs[i]? = some tr → lds[i]? = some ld →
    (∃ p, PyRT.alFind? pt (key tr) = some p ∧ GenLD.R p ld) ∧ LD.Inv ld

theorem PTRel.congr {κ : Type} {pt pt' : PT τ} {key : κ → PyTM.Tr τ} {trs : List κ} {lds : List (LD Actor)}
    (h : PTRel pt key trs lds) (hk : ∀ tr ∈ trs, PyRT.alFind? pt' (key tr) = PyRT.alFind? pt (key tr)) :
    PTRel pt' key trs lds := by
  refine ⟨h.1, ?_⟩
  intro i tr ld h1 h2
  rw [hk tr (List.mem_of_getElem? h1)]
  exact h.2 i tr ld h1 h2

theorem PTRel.tail {κ : Type} {pt : PT τ} {key : κ → PyTM.Tr τ} {tr : κ} {trs : List κ} {ld : LD Actor}
    {lds : List (LD Actor)} (h : PTRel pt key (tr :: trs) (ld :: lds)) : PTRel pt key trs lds :=
  ⟨by simpa using h.1, fun i tr' ld' h1 h2 => h.2 (i + 1) tr' ld' (by simpa using h1) (by simpa using h2)⟩

theorem PTRel.cons {κ : Type} {pt : PT τ} {key : κ → PyTM.Tr τ} {tr : κ} {trs : List κ} {ld : LD Actor}
    {lds : List (LD Actor)} (h0 : (∃ p, PyRT.alFind? pt (key tr) = some p ∧ GenLD.R p ld) ∧ LD.Inv ld)
    (h : PTRel pt key trs lds) : PTRel pt key (tr :: trs) (ld :: lds) := by
  refine ⟨by simp [h.1], ?_⟩
  intro i tr' ld' h1 h2
  cases i with
  | zero =>
    simp only [List.getElem?_cons_zero, Option.some.injEq] at h1 h2
    subst h1; subst h2; exact h0
  | succ i => exact h.2 i tr' ld' (by simpa using h1) (by simpa using h2)

theorem mapPT_cons_some {κ : Type} (tr : κ) (trs : List κ) (ld : LD Actor) (lds L : List (LD Actor))
    (f : κ → LD Actor → Option (LD Actor)) (h : Simple.mapPT (tr :: trs) (ld :: lds) f = some L) :
    ∃ ld' rest, f tr ld = some ld' ∧ Simple.mapPT trs lds f = some rest ∧ L = ld' :: rest := by
  simp only [Simple.mapPT] at h
  cases h1 : f tr ld with
  | none => rw [h1] at h; simp at h
  | some ld' =>
    cases h2 : Simple.mapPT trs lds f with
    | none => rw [h1, h2] at h; simp at h
    | some rest =>
      rw [h1, h2] at h
      exact ⟨ld', rest, rfl, rfl, (Option.some.inj h).symm⟩

/-- **a loop over the transitions**: every iteration works on the structure of its own key (`hstep`), so the loop
computes, key by key, what the model's `mapPT` computes position by position -/
theorem keyFold {κ : Type} (P : SCParams τ) (key : κ → PyTM.Tr τ) (body : Loc τ → κ → TM (Loc τ))
    (f : κ → LD Actor → Option (LD Actor)) (st : Node → τ) (trs : List κ) (hnd : (trs.map key).Nodup)
    (hstep : ∀ σ tr ld ld', tr ∈ trs → σ.status = st → St P (key tr) σ ld → f tr ld = some ld' →
      ∃ σ', body σ tr = pure σ' ∧ Evo P (key tr) σ σ' ld')
    (σ : Loc τ) (lds lds' : List (LD Actor)) (hst : σ.status = st) (hgw : GWInv P σ.get_weight)
    (hall : PTRel σ.potential_transitions key trs lds) (hm : Simple.mapPT trs lds f = some lds') :
    ∃ σ', trs.foldlM body σ = pure σ' ∧ Frame σ σ' ∧ GWInv P σ'.get_weight ∧
      (∀ k', k' ∉ trs.map key → PyRT.alFind? σ'.potential_transitions k' = PyRT.alFind? σ.potential_transitions k') ∧
      PTRel σ'.potential_transitions key trs lds' := by
  induction trs generalizing σ lds lds' with
  | nil =>
    have : lds' = [] := by
      cases lds <;> simp [Simple.mapPT] at hm <;> exact hm
    subst this
    exact ⟨σ, rfl, Frame.refl σ, hgw, fun _ _ => rfl, rfl, fun i tr ld h1 _ => by simp at h1⟩
  | cons tr trs ih =>
    cases lds with
    | nil => have := hall.1; simp at this
    | cons ld lds =>
      obtain ⟨ld', rest, hf, hrest, rfl⟩ := mapPT_cons_some tr trs ld lds lds' f hm
      rw [List.map_cons, List.nodup_cons] at hnd
      obtain ⟨hfind, hinv⟩ := hall.2 0 tr ld rfl rfl
      obtain ⟨σ1, hb, hfr, hoth, hst1⟩ := hstep σ tr ld ld' (by simp) hst ⟨hfind, hgw, hinv⟩ hf
      have hall1 : PTRel σ1.potential_transitions key trs lds := by
        apply hall.tail.congr
        intro tr' htr'
        apply hoth
        intro hc
        exact hnd.1 (hc ▸ List.mem_map_of_mem htr')
      obtain ⟨σ', h1, h2, h3, h4, h5⟩ := ih hnd.2
        (fun σ tr ld ld' h => hstep σ tr ld ld' (by simp [h])) σ1 lds rest
        (by rw [hfr.status, hst]) hst1.gw hall1 hrest
      refine ⟨σ', ?_, hfr.trans h2, h3, ?_, ?_⟩
      · rw [List.foldlM_cons, hb, pure_bind, h1]
      · intro k' hk'
        rw [List.map_cons, List.mem_cons, not_or] at hk'
        rw [h4 k' hk'.2, hoth k' hk'.1]
      · refine PTRel.cons ⟨?_, hst1.inv⟩ h5
        rw [h4 _ hnd.1]; exact hst1.find

/-! ### the update loops of one event -/

theorem decide_pair_iff {α β : Type} [DecidableEq α] [DecidableEq β] (a a' : α) (b b' : β) :
    decide ((a, b) = (a', b')) = true ↔ (a = a' ∧ b = b') := by
  simp

/-- the body of `for transition in spontaneous_transitions:` after an event -/
def spontBody (m : Node) (old : τ) (σ : Loc τ) (transition : τ × τ) : TM (Loc τ) := do
  let σ ← (if (decide (transition.1 = old)) then stRemove σ (Sum.inl transition) [m] else pure σ)
  let σ ← (if (decide (transition.1 = (σ.status m))) then stUpdate σ (Sum.inl transition) [m] else pure σ)
  stRepair σ (Sum.inl transition)

theorem spontBody_eval (P : SCParams τ) (hwf : Simple.WF P) (m : Node) (hm : m ∈ P.nodes) (old new : τ)
    (st : Node → τ) (hnew : st m = new) (σ : Loc τ) (tr : SpontTr τ) (ld ld' : LD Actor) (htr : tr ∈ P.spont)
    (hst : σ.status = st) (h : St P (kS tr) σ ld) (hm' : Simple.updSpontOne old new m tr ld = some ld') :
    ∃ σ', spontBody m old σ (keyS tr) = pure σ' ∧ Evo P (kS tr) σ σ' ld' := by
  rw [Simple.updSpontOne_eq, Simple.applyOps_B1] at hm'
  obtain ⟨ld1, h1, h2⟩ := Option.bind_eq_some_iff.1 hm'
  obtain ⟨σ1, e1, v1⟩ := stRemove_if P σ (kS tr) [m] ld ld1 (tr.src = old) (decide (tr.src = old)) (by simp) h h1
  have hs1 : σ1.status m = new := by rw [v1.frame.status, hst, hnew]
  obtain ⟨σ2, e2, v2⟩ := stUpdate_if P σ1 (kS tr) [m] ld1 ld' (Simple.wS tr m) (tr.src = new)
    (decide (tr.src = σ1.status m)) (by rw [hs1]; simp) v1.st (fun _ => v1.st.gw.readS tr htr m hm)
    (Simple.wS_nonneg P hwf tr htr m) h2
  obtain ⟨σ3, e3, v3⟩ := stRepair_eval P σ2 (kS tr) ld' v2.st
  refine ⟨σ3, ?_, (v1.trans v2).trans v3⟩
  unfold spontBody
  have e1' : (if decide ((keyS tr).1 = old) = true then stRemove σ (Sum.inl (keyS tr)) [m] else pure σ) = pure σ1 := e1
  rw [e1', pure_bind]
  have e2' : (if decide ((keyS tr).1 = σ1.status m) = true then stUpdate σ1 (Sum.inl (keyS tr)) [m] else pure σ1) =
      pure σ2 := e2
  rw [e2', pure_bind]
  exact e3

/-- the loop over the successors (directed graphs) -/
def succBody (m : Node) (old : τ) (transition : (τ × τ) × (τ × τ)) (σ : Loc τ) (nbr : Node) : TM (Loc τ) := do
  let nbr_status := (σ.status nbr)
  let σ ← stFill σ (Sum.inr transition) [m, nbr] [nbr, m]
  let σ ← (if (decide (transition.1 = (old, nbr_status))) then stRemove σ (Sum.inr transition) [m, nbr] else pure σ)
  let σ ← (if (decide (transition.1 = ((σ.status m), nbr_status))) then stUpdate σ (Sum.inr transition) [m, nbr]
    else pure σ)
  pure σ

/-- the loop over the predecessors (directed graphs) -/
def predBody (m : Node) (old : τ) (transition : (τ × τ) × (τ × τ)) (σ : Loc τ) (pred : Node) : TM (Loc τ) := do
  let pred_status := (σ.status pred)
  let σ ← stFill σ (Sum.inr transition) [pred, m] [pred, m]
  let σ ← (if (decide (transition.1 = (pred_status, old))) then stRemove σ (Sum.inr transition) [pred, m] else pure σ)
  let σ ← (if (decide (transition.1 = (pred_status, (σ.status m)))) then stUpdate σ (Sum.inr transition) [pred, m]
    else pure σ)
  pure σ

/-- the two nested fill-in statements of the undirected loop -/
def stFill2 (σ : Loc τ) (k : PyTM.Tr τ) (x y : Actor) : TM (Loc τ) :=
  if (!(PyTM.gwHas σ.get_weight k x)) then do
    let (gw, g') := PyTM.gwRead σ.get_weight k y
    let σ := { σ with get_weight := PyTM.gwSet g' k x gw }
    pure σ
  else do
    let σ ← stFill σ k y x
    pure σ

theorem stFill2_eval (P : SCParams τ) (σ : Loc τ) (k : PyTM.Tr τ) (x y : Actor) (ld : LD Actor)
    (h : St P k σ ld) : ∃ σ', stFill2 σ k x y = pure σ' ∧ Evo P k σ σ' ld := by
  unfold stFill2
  cases hh : PyTM.gwHas σ.get_weight k x with
  | true =>
    obtain ⟨σ', e, v⟩ := stFill_eval P σ k y x ld h
    refine ⟨σ', ?_, v⟩
    simp only [Bool.not_true, Bool.false_eq_true, if_false, e, pure_bind]
  | false =>
    obtain ⟨σ', e, v⟩ := stFill_eval P σ k x y ld h
    refine ⟨σ', ?_, v⟩
    unfold stFill at e
    rw [hh] at e
    exact e

/-- the loop over the neighbours (undirected graphs) -/
def undirBody (m : Node) (old : τ) (transition : (τ × τ) × (τ × τ)) (σ : Loc τ) (nbr : Node) : TM (Loc τ) := do
  let nbr_status := (σ.status nbr)
  let σ ← stFill2 σ (Sum.inr transition) [m, nbr] [nbr, m]
  let σ ← (if (decide (transition.1 = (nbr_status, old))) then stRemove σ (Sum.inr transition) [nbr, m] else pure σ)
  let σ ← (if (decide (transition.1 = (old, nbr_status))) then stRemove σ (Sum.inr transition) [m, nbr] else pure σ)
  let σ ← (if (decide (transition.1 = (nbr_status, (σ.status m)))) then stUpdate σ (Sum.inr transition) [nbr, m]
    else pure σ)
  let σ ← (if (decide (transition.1 = ((σ.status m), nbr_status))) then stUpdate σ (Sum.inr transition) [m, nbr]
    else pure σ)
  pure σ

/-- a loop over neighbours working on the structure of ONE key -/
theorem nbrFold (P : SCParams τ) (k : PyTM.Tr τ) (body : Loc τ → Node → TM (Loc τ))
    (g : Node → LD Actor → Option (LD Actor)) (rec : List Node → LD Actor → Option (LD Actor))
    (hnil : ∀ ld, rec [] ld = some ld) (hcons : ∀ v rest ld, rec (v :: rest) ld = (g v ld).bind (rec rest))
    (st : Node → τ) (l : List Node)
    (hstep : ∀ σ v ld ld', v ∈ l → σ.status = st → St P k σ ld → g v ld = some ld' →
      ∃ σ', body σ v = pure σ' ∧ Evo P k σ σ' ld')
    (σ : Loc τ) (ld ld' : LD Actor) (hst : σ.status = st) (h : St P k σ ld) (hm : rec l ld = some ld') :
    ∃ σ', l.foldlM body σ = pure σ' ∧ Evo P k σ σ' ld' := by
  induction l generalizing σ ld with
  | nil =>
    rw [hnil] at hm
    obtain rfl := Option.some.inj hm
    exact ⟨σ, rfl, Evo.refl h⟩
  | cons v rest ih =>
    rw [hcons] at hm
    obtain ⟨ld1, h1, h2⟩ := Option.bind_eq_some_iff.1 hm
    obtain ⟨σ1, e1, v1⟩ := hstep σ v ld ld1 (by simp) hst h h1
    obtain ⟨σ2, e2, v2⟩ := ih (fun σ v ld ld' hv => hstep σ v ld ld' (by simp [hv])) σ1 ld1
      (by rw [v1.frame.status, hst]) v1.st h2
    exact ⟨σ2, by rw [List.foldlM_cons, e1, pure_bind, e2], v1.trans v2⟩

/-! the model's loops, one neighbour at a time -/

theorem updIndSucc_cons (st : Node → τ) (old new : τ) (m : Node) (tr : IndTr τ) (v : Node) (rest : List Node)
    (ld : LD Actor) :
    Simple.updIndSucc st old new m tr (v :: rest) ld =
      (ld.applyOps (Simple.B1 [m, v] (tr.a = old ∧ tr.b = st v) (tr.a = new ∧ tr.b = st v) (Simple.wI tr m v))).bind
        (Simple.updIndSucc st old new m tr rest) := by
  rw [Simple.updIndSucc_eq]
  unfold Simple.succOps
  rw [List.flatMap_cons, LD.applyOps_append]
  congr 1
  funext ld1
  exact (Simple.updIndSucc_eq st old new m tr rest ld1).symm

theorem updIndPred_cons (st : Node → τ) (old new : τ) (m : Node) (tr : IndTr τ) (v : Node) (rest : List Node)
    (ld : LD Actor) :
    Simple.updIndPred st old new m tr (v :: rest) ld =
      (ld.applyOps (Simple.B1 [v, m] (tr.a = st v ∧ tr.b = old) (tr.a = st v ∧ tr.b = new) (Simple.wI tr v m))).bind
        (Simple.updIndPred st old new m tr rest) := by
  rw [Simple.updIndPred_eq]
  unfold Simple.predOps
  rw [List.flatMap_cons, LD.applyOps_append]
  congr 1
  funext ld1
  exact (Simple.updIndPred_eq st old new m tr rest ld1).symm

theorem updIndUndir_cons (st : Node → τ) (old new : τ) (m : Node) (tr : IndTr τ) (v : Node) (rest : List Node)
    (ld : LD Actor) :
    Simple.updIndUndir st old new m tr (v :: rest) ld =
      (ld.applyOps (Simple.B2 st old new m tr v)).bind (Simple.updIndUndir st old new m tr rest) := by
  rw [Simple.updIndUndir_eq]
  unfold Simple.undirOps
  rw [List.flatMap_cons, LD.applyOps_append]
  congr 1
  funext ld1
  exact (Simple.updIndUndir_eq st old new m tr rest ld1).symm

theorem applyOps_ite_upd_last (c : Prop) [Decidable c] (k : Actor) (w : Option Rat) (ld : LD Actor) :
    ld.applyOps (if c then [LD.Op.upd k w] else []) = if c then ld.update k w else some ld := by
  by_cases hc : c <;> simp only [hc, if_true, if_false, LD.applyOps, LD.applyOp]
  cases ld.update k w <;> rfl

theorem applyOps_B2 (st : Node → τ) (old new : τ) (m : Node) (tr : IndTr τ) (v : Node) (ld : LD Actor) :
    ld.applyOps (Simple.B2 st old new m tr v) =
      (if tr.a = st v ∧ tr.b = old then ld.remove [v, m] else some ld).bind fun ld1 =>
      (if tr.a = old ∧ tr.b = st v then ld1.remove [m, v] else some ld1).bind fun ld2 =>
      (if tr.a = st v ∧ tr.b = new then ld2.update [v, m] (Simple.wI tr v m) else some ld2).bind fun ld3 =>
      (if tr.a = new ∧ tr.b = st v then ld3.update [m, v] (Simple.wI tr m v) else some ld3) := by
  unfold Simple.B2
  simp only [Simple.applyOps_ite_rem, Simple.applyOps_ite_upd, applyOps_ite_upd_last]

section Steps
variable (P : SCParams τ) (hwf : Simple.WF P) (m : Node) (hm : m ∈ P.nodes) (old new : τ) (st : Node → τ)
  (hnew : st m = new) (tr : IndTr τ) (htr : tr ∈ P.ind)
include hwf hm hnew htr

theorem succStep (σ : Loc τ) (v : Node) (ld ld' : LD Actor) (hv : v ∈ P.succ m) (hst : σ.status = st)
    (h : St P (kI tr) σ ld)
    (hg : ld.applyOps (Simple.B1 [m, v] (tr.a = old ∧ tr.b = st v) (tr.a = new ∧ tr.b = st v)
      (Simple.wI tr m v)) = some ld') :
    ∃ σ', succBody m old (keyI tr) σ v = pure σ' ∧ Evo P (kI tr) σ σ' ld' := by
  rw [Simple.applyOps_B1] at hg
  obtain ⟨ld1, h1, h2⟩ := Option.bind_eq_some_iff.1 hg
  obtain ⟨σ0, e0, v0⟩ := stFill_eval P σ (kI tr) [m, v] [v, m] ld h
  obtain ⟨σ1, e1, v1⟩ := stRemove_if P σ0 (kI tr) [m, v] ld ld1 (tr.a = old ∧ tr.b = st v)
    (decide ((keyI tr).1 = (old, σ.status v))) (by rw [hst]; exact decide_pair_iff _ _ _ _) v0.st h1
  have hs1 : σ1.status m = new := by rw [v1.frame.status, v0.frame.status, hst, hnew]
  obtain ⟨σ2, e2, v2⟩ := stUpdate_if P σ1 (kI tr) [m, v] ld1 ld' (Simple.wI tr m v) (tr.a = new ∧ tr.b = st v)
    (decide ((keyI tr).1 = (σ1.status m, σ.status v))) (by rw [hs1, hst]; exact decide_pair_iff _ _ _ _) v1.st
    (fun _ => v1.st.gw.readI tr htr m v hm hv) (Simple.wI_nonneg P hwf tr htr m v) h2
  refine ⟨σ2, ?_, (v0.trans v1).trans v2⟩
  unfold succBody
  dsimp only
  have e0' : stFill σ (Sum.inr (keyI tr)) [m, v] [v, m] = pure σ0 := e0
  rw [e0', pure_bind]
  have e1' : (if decide ((keyI tr).1 = (old, σ.status v)) = true then stRemove σ0 (Sum.inr (keyI tr)) [m, v]
      else pure σ0) = pure σ1 := e1
  rw [e1', pure_bind]
  have e2' : (if decide ((keyI tr).1 = (σ1.status m, σ.status v)) = true then
      stUpdate σ1 (Sum.inr (keyI tr)) [m, v] else pure σ1) = pure σ2 := e2
  rw [e2']

theorem predStep (σ : Loc τ) (v : Node) (ld ld' : LD Actor) (hv : m ∈ P.succ v) (hst : σ.status = st)
    (h : St P (kI tr) σ ld)
    (hg : ld.applyOps (Simple.B1 [v, m] (tr.a = st v ∧ tr.b = old) (tr.a = st v ∧ tr.b = new)
      (Simple.wI tr v m)) = some ld') :
    ∃ σ', predBody m old (keyI tr) σ v = pure σ' ∧ Evo P (kI tr) σ σ' ld' := by
  have hvn : v ∈ P.nodes := Simple.mem_nodes_of_succ P hwf v m hv
  rw [Simple.applyOps_B1] at hg
  obtain ⟨ld1, h1, h2⟩ := Option.bind_eq_some_iff.1 hg
  obtain ⟨σ0, e0, v0⟩ := stFill_eval P σ (kI tr) [v, m] [v, m] ld h
  obtain ⟨σ1, e1, v1⟩ := stRemove_if P σ0 (kI tr) [v, m] ld ld1 (tr.a = st v ∧ tr.b = old)
    (decide ((keyI tr).1 = (σ.status v, old))) (by rw [hst]; exact decide_pair_iff _ _ _ _) v0.st h1
  have hs1 : σ1.status m = new := by rw [v1.frame.status, v0.frame.status, hst, hnew]
  obtain ⟨σ2, e2, v2⟩ := stUpdate_if P σ1 (kI tr) [v, m] ld1 ld' (Simple.wI tr v m) (tr.a = st v ∧ tr.b = new)
    (decide ((keyI tr).1 = (σ.status v, σ1.status m))) (by rw [hs1, hst]; exact decide_pair_iff _ _ _ _) v1.st
    (fun _ => v1.st.gw.readI tr htr v m hvn hv) (Simple.wI_nonneg P hwf tr htr v m) h2
  refine ⟨σ2, ?_, (v0.trans v1).trans v2⟩
  unfold predBody
  dsimp only
  have e0' : stFill σ (Sum.inr (keyI tr)) [v, m] [v, m] = pure σ0 := e0
  rw [e0', pure_bind]
  have e1' : (if decide ((keyI tr).1 = (σ.status v, old)) = true then stRemove σ0 (Sum.inr (keyI tr)) [v, m]
      else pure σ0) = pure σ1 := e1
  rw [e1', pure_bind]
  have e2' : (if decide ((keyI tr).1 = (σ.status v, σ1.status m)) = true then
      stUpdate σ1 (Sum.inr (keyI tr)) [v, m] else pure σ1) = pure σ2 := e2
  rw [e2']

theorem undirStep (σ : Loc τ) (v : Node) (ld ld' : LD Actor) (hv : v ∈ P.succ m) (hv' : m ∈ P.succ v)
    (hst : σ.status = st) (h : St P (kI tr) σ ld)
    (hg : ld.applyOps (Simple.B2 st old new m tr v) = some ld') :
    ∃ σ', undirBody m old (keyI tr) σ v = pure σ' ∧ Evo P (kI tr) σ σ' ld' := by
  have hvn : v ∈ P.nodes := Simple.mem_nodes_of_succ P hwf v m hv'
  rw [applyOps_B2] at hg
  obtain ⟨ld1, h1, hg⟩ := Option.bind_eq_some_iff.1 hg
  obtain ⟨ld2, h2, hg⟩ := Option.bind_eq_some_iff.1 hg
  obtain ⟨ld3, h3, h4⟩ := Option.bind_eq_some_iff.1 hg
  obtain ⟨σ0, e0, v0⟩ := stFill2_eval P σ (kI tr) [m, v] [v, m] ld h
  obtain ⟨σ1, e1, v1⟩ := stRemove_if P σ0 (kI tr) [v, m] ld ld1 (tr.a = st v ∧ tr.b = old)
    (decide ((keyI tr).1 = (σ.status v, old))) (by rw [hst]; exact decide_pair_iff _ _ _ _) v0.st h1
  obtain ⟨σ2, e2, v2⟩ := stRemove_if P σ1 (kI tr) [m, v] ld1 ld2 (tr.a = old ∧ tr.b = st v)
    (decide ((keyI tr).1 = (old, σ.status v))) (by rw [hst]; exact decide_pair_iff _ _ _ _) v1.st h2
  have hs2 : σ2.status m = new := by rw [v2.frame.status, v1.frame.status, v0.frame.status, hst, hnew]
  obtain ⟨σ3, e3, v3⟩ := stUpdate_if P σ2 (kI tr) [v, m] ld2 ld3 (Simple.wI tr v m) (tr.a = st v ∧ tr.b = new)
    (decide ((keyI tr).1 = (σ.status v, σ2.status m))) (by rw [hs2, hst]; exact decide_pair_iff _ _ _ _) v2.st
    (fun _ => v2.st.gw.readI tr htr v m hvn hv') (Simple.wI_nonneg P hwf tr htr v m) h3
  have hs3 : σ3.status m = new := by rw [v3.frame.status, hs2]
  obtain ⟨σ4, e4, v4⟩ := stUpdate_if P σ3 (kI tr) [m, v] ld3 ld' (Simple.wI tr m v) (tr.a = new ∧ tr.b = st v)
    (decide ((keyI tr).1 = (σ3.status m, σ.status v))) (by rw [hs3, hst]; exact decide_pair_iff _ _ _ _) v3.st
    (fun _ => v3.st.gw.readI tr htr m v hm hv) (Simple.wI_nonneg P hwf tr htr m v) h4
  refine ⟨σ4, ?_, (((v0.trans v1).trans v2).trans v3).trans v4⟩
  unfold undirBody
  dsimp only
  have e0' : stFill2 σ (Sum.inr (keyI tr)) [m, v] [v, m] = pure σ0 := e0
  rw [e0', pure_bind]
  have e1' : (if decide ((keyI tr).1 = (σ.status v, old)) = true then stRemove σ0 (Sum.inr (keyI tr)) [v, m]
      else pure σ0) = pure σ1 := e1
  rw [e1', pure_bind]
  have e2' : (if decide ((keyI tr).1 = (old, σ.status v)) = true then stRemove σ1 (Sum.inr (keyI tr)) [m, v]
      else pure σ1) = pure σ2 := e2
  rw [e2', pure_bind]
  have e3' : (if decide ((keyI tr).1 = (σ.status v, σ2.status m)) = true then
      stUpdate σ2 (Sum.inr (keyI tr)) [v, m] else pure σ2) = pure σ3 := e3
  rw [e3', pure_bind]
  have e4' : (if decide ((keyI tr).1 = (σ3.status m, σ.status v)) = true then
      stUpdate σ3 (Sum.inr (keyI tr)) [m, v] else pure σ3) = pure σ4 := e4
  rw [e4']

end Steps

/-! ### the body of `for transition in induced_transitions:` after an event -/

def indBody (directed : Bool) (nbrs pred : Node → List Node) (m : Node) (old : τ) (σ : Loc τ)
    (transition : (τ × τ) × (τ × τ)) : TM (Loc τ) := do
  let σ ← (if directed then do
    let σ ← (nbrs m).foldlM (succBody m old transition) σ
    let σ ← (pred m).foldlM (predBody m old transition) σ
    pure σ
  else do
    let σ ← (nbrs m).foldlM (undirBody m old transition) σ
    pure σ)
  stRepair σ (Sum.inr transition)

theorem indBody_eval (P : SCParams τ) (hwf : Simple.WF P) (m : Node) (hm : m ∈ P.nodes) (old new : τ)
    (st : Node → τ) (hnew : st m = new) (σ : Loc τ) (tr : IndTr τ) (ld ld' : LD Actor) (htr : tr ∈ P.ind)
    (hst : σ.status = st) (h : St P (kI tr) σ ld) (hm' : Simple.updIndOne P st old new m tr ld = some ld') :
    ∃ σ', indBody P.directed P.succ P.pred m old σ (keyI tr) = pure σ' ∧ Evo P (kI tr) σ σ' ld' := by
  unfold Simple.updIndOne at hm'
  unfold indBody
  cases hd : P.directed with
  | true =>
    rw [hd] at hm'
    simp only [if_true] at hm'
    obtain ⟨ld1, h1, h2⟩ := Option.bind_eq_some_iff.1 hm'
    obtain ⟨σ1, e1, v1⟩ := nbrFold P (kI tr) (succBody m old (keyI tr)) _ (Simple.updIndSucc st old new m tr)
      (fun _ => rfl) (fun v rest ld => updIndSucc_cons st old new m tr v rest ld) st (P.succ m)
      (fun σ v ld ld' hv hs hh hg => succStep P hwf m hm old new st hnew tr htr σ v ld ld' hv hs hh hg)
      σ ld ld1 hst h h1
    obtain ⟨σ2, e2, v2⟩ := nbrFold P (kI tr) (predBody m old (keyI tr)) _ (Simple.updIndPred st old new m tr)
      (fun _ => rfl) (fun v rest ld => updIndPred_cons st old new m tr v rest ld) st (P.pred m)
      (fun σ v ld ld' hv hs hh hg =>
        predStep P hwf m hm old new st hnew tr htr σ v ld ld' ((hwf.pred_iff v m).1 hv) hs hh hg)
      σ1 ld1 ld' (by rw [v1.frame.status, hst]) v1.st h2
    obtain ⟨σ3, e3, v3⟩ := stRepair_eval P σ2 (kI tr) ld' v2.st
    refine ⟨σ3, ?_, (v1.trans v2).trans v3⟩
    simp only [if_true, e1, e2, pure_bind]
    exact e3
  | false =>
    rw [hd] at hm'
    simp only [Bool.false_eq_true, if_false] at hm'
    obtain ⟨σ1, e1, v1⟩ := nbrFold P (kI tr) (undirBody m old (keyI tr)) _ (Simple.updIndUndir st old new m tr)
      (fun _ => rfl) (fun v rest ld => updIndUndir_cons st old new m tr v rest ld) st (P.succ m)
      (fun σ v ld ld' hv hs hh hg =>
        undirStep P hwf m hm old new st hnew tr htr σ v ld ld' hv (hwf.undirected_symm hd m v hv) hs hh hg)
      σ ld ld' hst h hm'
    obtain ⟨σ3, e3, v3⟩ := stRepair_eval P σ1 (kI tr) ld' v1.st
    refine ⟨σ3, ?_, v1.trans v3⟩
    simp only [Bool.false_eq_true, if_false, e1, pure_bind]
    exact e3

/-! ### the initial population -/

theorem foldlM_filter {α β : Type} (p : α → Bool) (body : β → α → TM β) (l : List α) (b : β) :
    (l.filter p).foldlM body b = l.foldlM (fun b x => if p x = true then body b x else pure b) b := by
  induction l generalizing b with
  | nil => rfl
  | cons a t ih =>
    rw [List.filter_cons]
    cases hp : p a with
    | true =>
      simp only [if_true, List.foldlM_cons, hp]
      congr 1; funext b'; exact ih b'
    | false =>
      simp only [Bool.false_eq_true, if_false, List.foldlM_cons, pure_bind, hp]
      exact ih b

theorem mapPT_id {κ : Type} (trs : List κ) (lds : List (LD Actor)) (h : lds.length = trs.length) :
    Simple.mapPT trs lds (fun _ ld => some ld) = some lds := by
  induction trs generalizing lds with
  | nil =>
    cases lds with
    | nil => rfl
    | cons _ _ => simp at h
  | cons tr trs ih =>
    cases lds with
    | nil => simp at h
    | cons ld lds =>
      simp only [Simple.mapPT, ih lds (by simpa using h)]

theorem mapPT_fuse {κ : Type} (trs : List κ) (lds : List (LD Actor)) (g h : κ → LD Actor → Option (LD Actor)) :
    Simple.mapPT trs lds (fun tr ld => (g tr ld).bind (h tr)) =
      (Simple.mapPT trs lds g).bind fun lds1 => Simple.mapPT trs lds1 h := by
  induction trs generalizing lds with
  | nil => cases lds <;> rfl
  | cons tr trs ih =>
    cases lds with
    | nil => rfl
    | cons ld lds =>
      simp only [Simple.mapPT, ih lds]
      cases h1 : g tr ld with
      | none => rfl
      | some ld1 =>
        cases h2 : Simple.mapPT trs lds g with
        | none =>
          simp only [Option.bind_some, Option.bind_none]
          cases h tr ld1 <;> rfl
        | some r1 =>
          simp only [Option.bind_some, Simple.mapPT]

theorem initIndNbrs_cons (st : Node → τ) (u : Node) (tr : IndTr τ) (v : Node) (rest : List Node) (ld : LD Actor) :
    Simple.initIndNbrs st u tr (v :: rest) ld =
      (if st u = tr.a ∧ st v = tr.b then ld.update [u, v] (Simple.wI tr u v) else some ld).bind
        (Simple.initIndNbrs st u tr rest) := by
  rw [Simple.initIndNbrs]
  by_cases hc : st u = tr.a ∧ st v = tr.b
  · rw [if_pos hc, if_pos hc]
    cases ld.update [u, v] (Simple.wI tr u v) <;> rfl
  · rw [if_neg hc, if_neg hc]; rfl

/-- the generated function and the model are run on the same arguments.  `spont`/`induced` are the sorted edge lists
of the two specification graphs (an induced transition `(a, b, c)` of the model is the key `((a, b), (a, c))`),
`spOut`/`inOut` list the out-edges of a specification-graph node in the order of the sorted lists, `pt0` holds one
empty `_ListDict_` per key, and `gw0` satisfies `GWInv`: for every WEIGHTED transition the table holds every node
`[u]` (resp. every ordered neighbour pair `[u, v]`) with the tabulated weight, and for an unweighted transition every
read returns `None` (e.g. no entry at all) -/
structure Agree (A : SArgs τ) (P : SCParams τ) (ic : Node → τ) (tmin : Rat) (tmax : ERat) (cfuel : Nat) : Prop where
  nodes : A.nodes = P.nodes
  nbrs : A.nbrs = P.succ
  pred : A.pred = P.pred
  directed : A.directed = P.directed
  ic : A.ic = ic
  ret : A.ret = P.ret
  spont : A.spont = P.spont.map keyS
  induced : A.induced = P.ind.map keyI
  rateS : ∀ tr ∈ P.spont, A.rate (kS tr) = tr.rate
  rateI : ∀ tr ∈ P.ind, A.rate (kI tr) = tr.rate
  spOut : ∀ x, A.spOut x = A.spont.filter fun k => decide (k.1 = x)
  spHas : ∀ x, A.spHas x = false → A.spOut x = []
  inOut : ∀ x, A.inOut x = A.induced.filter fun k => decide (k.1 = x)
  inHas : ∀ x, A.inHas x = false → A.inOut x = []
  pt0S : ∀ tr ∈ P.spont, PyRT.alFind? A.pt0 (kS tr) = some (GenLD.init tr.w.isSome)
  pt0I : ∀ tr ∈ P.ind, PyRT.alFind? A.pt0 (kI tr) = some (GenLD.init tr.w.isSome)
  gw0 : GWInv P A.gw0
  tmin : A.tmin = tmin
  tmax : A.tmax = tmax
  cfuel : A.cfuel = cfuel

/-- what a loop over all transitions of one kind establishes -/
structure FoldRes {κ : Type} (P : SCParams τ) (key : κ → PyTM.Tr τ) (trs : List κ) (σ σ' : Loc τ)
    (lds' : List (LD Actor)) : Prop where
  frame : Frame σ σ'
  gw : GWInv P σ'.get_weight
  other : ∀ k', k' ∉ trs.map key →
    PyRT.alFind? σ'.potential_transitions k' = PyRT.alFind? σ.potential_transitions k'
  rel : PTRel σ'.potential_transitions key trs lds'

section Init
variable (A : SArgs τ) (P : SCParams τ) (ic : Node → τ) (tmin : Rat) (tmax : ERat) (cfuel : Nat)
  (hAg : Agree A P ic tmin tmax cfuel) (hwf : Simple.WF P) (hndS : (P.spont.map (kS (τ := τ))).Nodup)
  (hndI : (P.ind.map (kI (τ := τ))).Nodup)
include hAg hwf hndS hndI

theorem initSpontPart (st : Node → τ) (u : Node) (hu : u ∈ P.nodes) (σ : Loc τ) (hst : σ.status = st)
    (hgw : GWInv P σ.get_weight) (ps ps' : List (LD Actor)) (hrel : PTRel σ.potential_transitions kS P.spont ps)
    (hm : Simple.mapPT P.spont ps (Simple.initSpontOne st u) = some ps') :
    ∃ σ', (if A.spHas (σ.status u) = true then
        (A.spOut (σ.status u)).foldlM (fun (σ : Loc τ) (transition : τ × τ) => stUpdate σ (Sum.inl transition) [u]) σ
      else pure σ) = pure σ' ∧ FoldRes P kS P.spont σ σ' ps' := by
  have e : (if A.spHas (σ.status u) = true then
        (A.spOut (σ.status u)).foldlM (fun (σ : Loc τ) (transition : τ × τ) => stUpdate σ (Sum.inl transition) [u]) σ
      else pure σ) =
      P.spont.foldlM (fun (σ : Loc τ) (tr : SpontTr τ) =>
        if decide ((keyS tr).1 = st u) = true then stUpdate σ (kS tr) [u] else pure σ) σ := by
    have e1 : (if A.spHas (σ.status u) = true then
        (A.spOut (σ.status u)).foldlM (fun (σ : Loc τ) (transition : τ × τ) => stUpdate σ (Sum.inl transition) [u]) σ
      else pure σ) =
        (A.spOut (σ.status u)).foldlM (fun (σ : Loc τ) (transition : τ × τ) => stUpdate σ (Sum.inl transition) [u]) σ := by
      cases hh : A.spHas (σ.status u) with
      | true => simp
      | false => rw [hAg.spHas _ hh]; simp
    rw [e1, hAg.spOut, foldlM_filter, hAg.spont, List.foldlM_map, hst]
    rfl
  rw [e]
  obtain ⟨σ', h1, h2, h3, h4, h5⟩ := keyFold P kS (fun (σ : Loc τ) (tr : SpontTr τ) =>
        if decide ((keyS tr).1 = st u) = true then stUpdate σ (kS tr) [u] else pure σ)
      (Simple.initSpontOne st u) st P.spont hndS
    (by
      intro σ tr ld ld' htr hs hh hf
      unfold Simple.initSpontOne at hf
      exact stUpdate_if P σ (kS tr) [u] ld ld' (Simple.wS tr u) (st u = tr.src) (decide ((keyS tr).1 = st u))
        (by rw [decide_eq_true_eq]; exact eq_comm) hh (fun _ => hh.gw.readS tr htr u hu) (Simple.wS_nonneg P hwf tr htr u) hf)
    σ ps ps' hst hgw hrel hm
  exact ⟨σ', h1, h2, h3, h4, h5⟩

theorem initIndOne (st : Node → τ) (u v : Node) (hu : u ∈ P.nodes) (hv : v ∈ P.succ u) (σ : Loc τ)
    (hst : σ.status = st) (hgw : GWInv P σ.get_weight) (pi pi' : List (LD Actor))
    (hrel : PTRel σ.potential_transitions kI P.ind pi)
    (hm : Simple.mapPT P.ind pi (fun tr ld =>
      if st u = tr.a ∧ st v = tr.b then ld.update [u, v] (Simple.wI tr u v) else some ld) = some pi') :
    ∃ σ', (if A.inHas (σ.status u, σ.status v) = true then
        (A.inOut (σ.status u, σ.status v)).foldlM
          (fun (σ : Loc τ) (transition : (τ × τ) × (τ × τ)) => stUpdate σ (Sum.inr transition) [u, v]) σ
      else pure σ) = pure σ' ∧ FoldRes P kI P.ind σ σ' pi' := by
  have e : (if A.inHas (σ.status u, σ.status v) = true then
        (A.inOut (σ.status u, σ.status v)).foldlM
          (fun (σ : Loc τ) (transition : (τ × τ) × (τ × τ)) => stUpdate σ (Sum.inr transition) [u, v]) σ
      else pure σ) =
      P.ind.foldlM (fun (σ : Loc τ) (tr : IndTr τ) =>
        if decide ((keyI tr).1 = (st u, st v)) = true then stUpdate σ (kI tr) [u, v] else pure σ) σ := by
    have e1 : (if A.inHas (σ.status u, σ.status v) = true then
        (A.inOut (σ.status u, σ.status v)).foldlM
          (fun (σ : Loc τ) (transition : (τ × τ) × (τ × τ)) => stUpdate σ (Sum.inr transition) [u, v]) σ
      else pure σ) =
        (A.inOut (σ.status u, σ.status v)).foldlM
          (fun (σ : Loc τ) (transition : (τ × τ) × (τ × τ)) => stUpdate σ (Sum.inr transition) [u, v]) σ := by
      cases hh : A.inHas (σ.status u, σ.status v) with
      | true => simp
      | false => rw [hAg.inHas _ hh]; simp
    rw [e1, hAg.inOut, foldlM_filter, hAg.induced, List.foldlM_map, hst]
    rfl
  rw [e]
  obtain ⟨σ', h1, h2, h3, h4, h5⟩ := keyFold P kI (fun (σ : Loc τ) (tr : IndTr τ) =>
        if decide ((keyI tr).1 = (st u, st v)) = true then stUpdate σ (kI tr) [u, v] else pure σ)
      (fun tr ld => if st u = tr.a ∧ st v = tr.b then ld.update [u, v] (Simple.wI tr u v) else some ld) st P.ind hndI
    (by
      intro σ tr ld ld' htr hs hh hf
      exact stUpdate_if P σ (kI tr) [u, v] ld ld' (Simple.wI tr u v) (st u = tr.a ∧ st v = tr.b)
        (decide ((keyI tr).1 = (st u, st v)))
        (by rw [keyI, decide_pair_iff]; exact ⟨fun h => ⟨h.1.symm, h.2.symm⟩, fun h => ⟨h.1.symm, h.2.symm⟩⟩) hh (fun _ => hh.gw.readI tr htr u v hu hv)
        (Simple.wI_nonneg P hwf tr htr u v) hf)
    σ pi pi' hst hgw hrel hm
  exact ⟨σ', h1, h2, h3, h4, h5⟩

theorem FoldRes.trans {κ : Type} {key : κ → PyTM.Tr τ} {trs : List κ} {σ σ1 σ2 : Loc τ} {l1 l2 : List (LD Actor)}
    (h1 : FoldRes P key trs σ σ1 l1) (h2 : FoldRes P key trs σ1 σ2 l2) : FoldRes P key trs σ σ2 l2 :=
  ⟨h1.frame.trans h2.frame, h2.gw, fun k' hk' => (h2.other k' hk').trans (h1.other k' hk'), h2.rel⟩

theorem initIndPart (st : Node → τ) (u : Node) (hu : u ∈ P.nodes) (l : List Node) (hl : ∀ v ∈ l, v ∈ P.succ u)
    (σ : Loc τ) (hst : σ.status = st) (hgw : GWInv P σ.get_weight) (pi pi' : List (LD Actor))
    (hrel : PTRel σ.potential_transitions kI P.ind pi)
    (hm : Simple.mapPT P.ind pi (fun tr ld => Simple.initIndNbrs st u tr l ld) = some pi') :
    ∃ σ', l.foldlM (fun (σ : Loc τ) (nbr : Node) =>
        (if A.inHas (σ.status u, σ.status nbr) = true then
          (A.inOut (σ.status u, σ.status nbr)).foldlM
            (fun (σ : Loc τ) (transition : (τ × τ) × (τ × τ)) => stUpdate σ (Sum.inr transition) [u, nbr]) σ
        else pure σ)) σ = pure σ' ∧ FoldRes P kI P.ind σ σ' pi' := by
  induction l generalizing σ pi with
  | nil =>
    have : pi' = pi := by
      have h1 : Simple.mapPT P.ind pi (fun tr ld => Simple.initIndNbrs st u tr [] ld) = some pi :=
        mapPT_id P.ind pi hrel.1
      rw [h1] at hm; exact (Option.some.inj hm).symm
    subst this
    exact ⟨σ, rfl, Frame.refl σ, hgw, fun _ _ => rfl, hrel⟩
  | cons v rest ih =>
    have hfun : (fun (tr : IndTr τ) ld => Simple.initIndNbrs st u tr (v :: rest) ld) =
        fun tr ld => ((fun (tr : IndTr τ) (ld : LD Actor) =>
          if st u = tr.a ∧ st v = tr.b then ld.update [u, v] (Simple.wI tr u v) else some ld) tr ld).bind
          ((fun (tr : IndTr τ) (ld : LD Actor) => Simple.initIndNbrs st u tr rest ld) tr) := by
      funext tr ld; exact initIndNbrs_cons st u tr v rest ld
    rw [hfun, mapPT_fuse] at hm
    obtain ⟨pi1, hm1, hm2⟩ := Option.bind_eq_some_iff.1 hm
    obtain ⟨σ1, e1, r1⟩ := initIndOne A P ic tmin tmax cfuel hAg hwf hndS hndI st u v hu (hl v (by simp)) σ hst hgw
      pi pi1 hrel hm1
    obtain ⟨σ2, e2, r2⟩ := ih (fun x hx => hl x (by simp [hx])) σ1 (by rw [r1.frame.status, hst]) r1.gw pi1 r1.rel hm2
    refine ⟨σ2, ?_, FoldRes.trans A P ic tmin tmax cfuel hAg hwf hndS hndI r1 r2⟩
    rw [List.foldlM_cons, e1, pure_bind, e2]

end Init

/-! ### total rate and transition choice -/

/-- `total_weight()` as a function of the structure -/
def twP (p : GenLD.PyLD Actor) : Rat := if p.weighted then p.total_weight_ else ((p.items.length : Nat) : Rat)

/-- `potential_transitions[k].total_weight()` -/
def twK (pt : PT τ) (k : PyTM.Tr τ) : Rat :=
  match PyRT.alFind? pt k with
  | some p => twP p
  | none => 0

theorem total_weight_eq (p : GenLD.PyLD Actor) : GenLD.total_weight p = .ok (p, twP p) := by
  unfold GenLD.total_weight twP GenLD.len__
  split <;> rfl

theorem twP_of_R {p : GenLD.PyLD Actor} {ld : LD Actor} (h : GenLD.R p ld) : twP p = ld.totalWeight := by
  unfold twP LD.totalWeight
  rw [h.weighted, h.total, h.items]

theorem twK_of_find {pt : PT τ} {k : PyTM.Tr τ} {p : GenLD.PyLD Actor} (h : PyRT.alFind? pt k = some p) :
    twK pt k = twP p := by
  unfold twK; rw [h]

/-- the rate-summing loop `sum(rate[tr] * potential_transitions[tr].total_weight() for tr in …)` -/
theorem sumFold (pt : PT τ) (rate : PyTM.Tr τ → Rat) (K : List (PyTM.Tr τ))
    (hK : ∀ k ∈ K, ∃ p, PyRT.alFind? pt k = some p) (acc : Rat) :
    K.foldlM (fun (acc : Rat) (transition : PyTM.Tr τ) => do
        let ld ← PyRT.dictGet pt transition
        let (_, w) ← GenLD.total_weight ld
        pure (acc + rate transition * w)) acc =
      (.ok (acc + sumRat (K.map fun k => rate k * twK pt k)) : Except String Rat) := by
  induction K generalizing acc with
  | nil => simp [pure, Except.pure]
  | cons k K ih =>
    obtain ⟨p, hp⟩ := hK k (by simp)
    rw [List.foldlM_cons, dictGet_of_find _ _ _ hp, GenLD.ok_bind, total_weight_eq, GenLD.ok_bind]
    dsimp only
    rw [GenLD.pure_eq_ok, GenLD.ok_bind, ih (fun k' hk' => hK k' (by simp [hk']))]
    rw [List.map_cons, sumRat_cons, twK_of_find hp, add_assoc]

/-- the body of the transition-choice loop -/
def cbody (pt : PT τ) (rate : PyTM.Tr τ → Rat) (tot : Rat) (acc : Rat × Option (PyTM.Tr τ) × Bool)
    (transition : PyTM.Tr τ) : Except String (Rat × Option (PyTM.Tr τ) × Bool) := do
  if acc.2.2 then pure acc else
  let ld ← PyRT.dictGet pt transition
  let (_, w) ← GenLD.total_weight ld
  let share ← PyTM.fdiv (rate transition * w) tot
  let r := acc.1 - share
  pure (r, some transition, decide (r < 0))

theorem cbody_eval (pt : PT τ) (rate : PyTM.Tr τ → Rat) (tot : Rat) (htot : tot ≠ 0)
    (acc : Rat × Option (PyTM.Tr τ) × Bool) (k : PyTM.Tr τ) (p : GenLD.PyLD Actor)
    (hp : PyRT.alFind? pt k = some p) :
    cbody pt rate tot acc k = if acc.2.2 = true then .ok acc else
      .ok (acc.1 - rate k * twK pt k / tot, some k, decide (acc.1 - rate k * twK pt k / tot < 0)) := by
  unfold cbody
  split
  · rfl
  · rw [dictGet_of_find _ _ _ hp, GenLD.ok_bind, total_weight_eq, GenLD.ok_bind]
    dsimp only
    unfold PyTM.fdiv
    rw [if_neg htot, GenLD.pure_eq_ok, GenLD.ok_bind, twK_of_find hp]
    rfl

theorem cfold_done (pt : PT τ) (rate : PyTM.Tr τ → Rat) (tot : Rat) (K : List (PyTM.Tr τ)) (r : Rat)
    (o : Option (PyTM.Tr τ)) : K.foldlM (cbody pt rate tot) (r, o, true) = .ok (r, o, true) := by
  induction K with
  | nil => rfl
  | cons k K ih =>
    rw [List.foldlM_cons]
    have : cbody pt rate tot (r, o, true) k = .ok (r, o, true) := by
      unfold cbody; simp only [if_true]; rfl
    rw [this, GenLD.ok_bind, ih]

theorem cfold_go (pt : PT τ) (rate : PyTM.Tr τ → Rat) (tot : Rat) (htot : tot ≠ 0) (K pre : List (PyTM.Tr τ))
    (hK : ∀ k ∈ K, ∃ p, PyRT.alFind? pt k = some p) (r : Rat) :
    ∃ r' d, K.foldlM (cbody pt rate tot) (r, pre.getLast?, false) =
      .ok (r', (pre ++ K)[Simple.pickIdx.go (K.map fun k => rate k * twK pt k / tot) r pre.length]?, d) := by
  induction K generalizing pre r with
  | nil =>
    refine ⟨r, false, ?_⟩
    simp only [List.foldlM_nil, List.map_nil, Simple.pickIdx.go, List.append_nil]
    rw [List.getLast?_eq_getElem?]; rfl
  | cons k K ih =>
    obtain ⟨p, hp⟩ := hK k (by simp)
    rw [List.foldlM_cons, cbody_eval pt rate tot htot _ k p hp]
    simp only [Bool.false_eq_true, if_false, GenLD.ok_bind, List.map_cons, Simple.pickIdx.go]
    by_cases hlt : r - rate k * twK pt k / tot < 0
    · rw [if_pos hlt, decide_eq_true hlt, cfold_done]
      exact ⟨r - rate k * twK pt k / tot, true, by simp⟩
    · rw [if_neg hlt, decide_eq_false hlt]
      obtain ⟨r', d, h⟩ := ih (pre ++ [k]) (fun k' hk' => hK k' (by simp [hk'])) (r - rate k * twK pt k / tot)
      refine ⟨r', d, ?_⟩
      rw [List.getLast?_concat, List.length_append, List.length_singleton, List.append_assoc] at h
      exact h

theorem chooseFold (pt : PT τ) (rate : PyTM.Tr τ → Rat) (tot : Rat) (htot : tot ≠ 0) (K : List (PyTM.Tr τ))
    (hK : ∀ k ∈ K, ∃ p, PyRT.alFind? pt k = some p) (r : Rat) :
    ∃ r' d, K.foldlM (cbody pt rate tot) (r, none, false) =
      .ok (r', K[Simple.pickIdx (K.map fun k => rate k * twK pt k / tot) r]?, d) := by
  obtain ⟨r', d, h⟩ := cfold_go pt rate tot htot K [] hK r
  exact ⟨r', d, h⟩

/-- the keys of both kinds, in the order of the generated loops -/
def allKeys (P : SCParams τ) : List (PyTM.Tr τ) := P.spont.map kS ++ P.ind.map kI

theorem rates_eq {κ : Type} (pt : PT τ) (key : κ → PyTM.Tr τ) (rate : PyTM.Tr τ → Rat) (r : κ → Rat)
    (trs : List κ) (lds : List (LD Actor)) (h : PTRel pt key trs lds) (hr : ∀ tr ∈ trs, rate (key tr) = r tr) :
    (trs.map key).map (fun k => rate k * twK pt k) = List.zipWith (fun tr ld => r tr * ld.totalWeight) trs lds := by
  induction trs generalizing lds with
  | nil => cases lds <;> rfl
  | cons tr trs ih =>
    cases lds with
    | nil => have := h.1; simp at this
    | cons ld lds =>
      obtain ⟨⟨p, hp, hR⟩, -⟩ := h.2 0 tr ld rfl rfl
      simp only [List.map_cons, List.zipWith_cons_cons]
      rw [twK_of_find hp, twP_of_R hR, hr tr (by simp)]
      congr 1
      exact ih lds h.tail (fun tr' htr' => hr tr' (by simp [htr']))

theorem PTRel.find_of_mem {κ : Type} {pt : PT τ} {key : κ → PyTM.Tr τ} {trs : List κ} {lds : List (LD Actor)}
    (h : PTRel pt key trs lds) (tr : κ) (htr : tr ∈ trs) : ∃ p, PyRT.alFind? pt (key tr) = some p := by
  obtain ⟨i, hi, rfl⟩ := List.getElem_of_mem htr
  have hi' : i < lds.length := by rw [h.1]; exact hi
  obtain ⟨⟨p, hp, -⟩, -⟩ := h.2 i trs[i] lds[i] (List.getElem?_eq_getElem hi) (List.getElem?_eq_getElem hi')
  exact ⟨p, hp⟩

/-! ### the generated loop body, cut into stages (`loop_succ` is proved by `rfl`) -/

def stage5 (P : SArgs τ) (fuel : Nat) (σ : Loc τ) : TM (Loc τ) := do
      let tot_68 ← PyTM.liftE ((P.spont.map Sum.inl ++ P.induced.map Sum.inr).foldlM (fun (acc : Rat) (transition : PyTM.Tr τ) => do
          let ld ← PyRT.dictGet σ.potential_transitions transition
          let (_, w) ← GenLD.total_weight ld
          pure (acc + P.rate transition * w)) 0)
      let σ := { σ with total_rate := tot_68 }
      let σ ← (if (decide (σ.total_rate > (0 : Rat))) then do
        let d_69 ← TM.popExpo σ.total_rate
        let σ := { σ with delay := (some d_69) }
        pure σ
      else do
        let σ := { σ with delay := none }
        pure σ)
      let σ := { σ with t := (ERat.add σ.t σ.delay) }
      loop P fuel σ

def stage4 (P : SArgs τ) (fuel : Nat) (σ : Loc τ) (modified_node : Node) (old_status : τ) : TM (Loc τ) := do
      let σ ← P.spont.foldlM (spontBody modified_node old_status) σ
      let σ ← P.induced.foldlM (indBody P.directed P.nbrs P.pred modified_node old_status) σ
      stage5 P fuel σ

def dataBody (σ : Loc τ) (x : τ) : TM (Loc τ) := do
        let col_14 ← PyTM.liftE (PyRT.dictGet σ.data x)
        let v_15 ← PyTM.liftE (PyTM.listLast col_14)
        let col_16 ← PyTM.liftE (PyRT.dictGet σ.data x)
        let σ := { σ with data := alSet σ.data x (col_16 ++ [v_15]) }
        pure σ

def stage3 (P : SArgs τ) (fuel : Nat) (σ : Loc τ) (modified_node : Node) (old_status new_status : τ) : TM (Loc τ) := do
      let σ := { σ with status := fset σ.status modified_node new_status }
      let σ ← (if P.full then do
        let h_12 ← PyTM.liftE (PyRT.dictGet σ.node_history modified_node)
        let σ := { σ with node_history := alSet σ.node_history modified_node (h_12.1 ++ [σ.t], h_12.2) }
        let h_13 ← PyTM.liftE (PyRT.dictGet σ.node_history modified_node)
        let σ := { σ with node_history := alSet σ.node_history modified_node (h_13.1, h_13.2 ++ [new_status]) }
        pure σ
      else do
        pure σ)
      let σ ← (σ.data.map (·.1)).foldlM dataBody σ
      let σ ← (if (decide (old_status ∈ P.ret)) then do
        let col_17 ← PyTM.liftE (PyRT.dictGet σ.data old_status)
        let x_18 ← PyTM.liftE (PyTM.listLast col_17)
        let σ := { σ with data := alSet σ.data old_status (col_17.dropLast ++ [(x_18 - 1)]) }
        pure σ
      else do
        pure σ)
      let σ ← (if (decide ((σ.status modified_node) ∈ P.ret)) then do
        let col_19 ← PyTM.liftE (PyRT.dictGet σ.data (σ.status modified_node))
        let x_20 ← PyTM.liftE (PyTM.listLast col_19)
        let σ := { σ with data := alSet σ.data (σ.status modified_node) (col_19.dropLast ++ [(x_20 + 1)]) }
        pure σ
      else do
        pure σ)
      stage4 P fuel σ modified_node old_status

def stage2 (P : SArgs τ) (fuel : Nat) (σ : Loc τ) (transition : PyTM.Tr τ) (actor : _root_.Actor) : TM (Loc τ) := do
      let (σ, modified_node, old_status, new_status) ← (match transition with
        | Sum.inl transition => do
          let modified_node ← PyTM.liftE (PyTM.actorNode actor)
          let old_status := transition.1
          let new_status := transition.2
          pure (σ, modified_node, old_status, new_status)
        | Sum.inr transition => do
          let (source, target) ← PyTM.liftE (PyTM.actorPair actor)
          let modified_node := target
          let old_status := transition.1.2
          let new_status := transition.2.2
          let σ ← (if P.full then do
            let σ := { σ with transmissions := σ.transmissions ++ [(σ.t, some source, modified_node)] }
            pure σ
          else do
            pure σ)
          pure (σ, modified_node, old_status, new_status))
      stage3 P fuel σ modified_node old_status new_status

def iter (P : SArgs τ) (fuel : Nat) (σ : Loc τ) : TM (Loc τ) := do
      let σ := { σ with times := σ.times ++ [σ.t] }
      let r ← TM.popUnif
      let (_, tr?, _) ← PyTM.liftE ((P.spont.map Sum.inl ++ P.induced.map Sum.inr).foldlM
          (cbody σ.potential_transitions P.rate σ.total_rate) (r, none, false))
      let transition ← PyTM.liftE (match tr? with | some x => pure x | none => throw "NameError")
      let ld_9 ← PyTM.liftE (PyRT.dictGet σ.potential_transitions transition)
      let (l_11, c_10) ← GenLD.choose_random_tm (fun a => a) ld_9 P.cfuel
      let σ := { σ with potential_transitions := alSet σ.potential_transitions transition l_11 }
      stage2 P fuel σ transition c_10

theorem loop_succ (P : SArgs τ) (fuel : Nat) (σ : Loc τ) :
    loop P (fuel + 1) σ =
      if ((decide (σ.total_rate > (0 : Rat))) && (ERat.lt σ.t P.tmax)) then iter P fuel σ else pure σ := by
  rfl

/-! ### the simulation relation -/

/-- **simulation relation** between the locals of the generated function and the state of the model -/
structure Rel (P : SCParams τ) (σ : Loc τ) (s : SCState τ) : Prop where
  status : σ.status = s.status
  ptS : PTRel σ.potential_transitions kS P.spont s.ptS
  ptI : PTRel σ.potential_transitions kI P.ind s.ptI
  times : σ.times = s.times.reverse.map some
  data : GenCC.DRel P.ret σ.data s.data
  gw : GWInv P σ.get_weight

/-- results of the two programs on one tape state: both raise (neither raises `KeyError`), or both return with the same
tape state and related states -/
def ResRel (P : SCParams τ) : Except String (Loc τ × TapeSt) → Except String (SCState τ × TapeSt) → Prop
  | .ok (σ, t1), .ok (s, t2) => t1 = t2 ∧ Rel P σ s
  | .error e1, .error e2 => e1 ≠ "KeyError" ∧ e2 ≠ "KeyError"
  | _, _ => False

theorem ResRel.of_err {P : SCParams τ} {x : Except String (Loc τ × TapeSt)} {y : Except String (SCState τ × TapeSt)}
    {e1 e2 : String} (hx : x = .error e1) (hy : y = .error e2) (h1 : e1 ≠ "KeyError") (h2 : e2 ≠ "KeyError") :
    ResRel P x y := by
  subst hx hy; exact ⟨h1, h2⟩

theorem ResRel.fwd {P : SCParams τ} {x : Except String (Loc τ × TapeSt)} {y : Except String (SCState τ × TapeSt)}
    (h : ResRel P x y) {s : SCState τ} {ts' : TapeSt} (hy : y = .ok (s, ts')) :
    ∃ σ, x = .ok (σ, ts') ∧ Rel P σ s := by
  subst hy
  cases x with
  | error e => exact absurd h (by simp [ResRel])
  | ok q =>
    obtain ⟨σ, t1⟩ := q
    obtain ⟨rfl, hr⟩ := h
    exact ⟨σ, rfl, hr⟩

theorem ResRel.bwd {P : SCParams τ} {x : Except String (Loc τ × TapeSt)} {y : Except String (SCState τ × TapeSt)}
    (h : ResRel P x y) {σ : Loc τ} {ts' : TapeSt} (hx : x = .ok (σ, ts')) :
    ∃ s, y = .ok (s, ts') ∧ Rel P σ s := by
  subst hx
  cases y with
  | error e => exact absurd h (by simp [ResRel])
  | ok q =>
    obtain ⟨s, t1⟩ := q
    obtain ⟨rfl, hr⟩ := h
    exact ⟨s, rfl, hr⟩

theorem ResRel.no_keyerror {P : SCParams τ} {x : Except String (Loc τ × TapeSt)}
    {y : Except String (SCState τ × TapeSt)} (h : ResRel P x y) : x ≠ .error "KeyError" := by
  intro hx
  subst hx
  cases y with
  | error e => exact h.1 rfl
  | ok q => exact h

/-- loop invariant of the simulation -/
structure LInv (A : SArgs τ) (P : SCParams τ) (σ : Loc τ) (s : SCState τ) : Prop where
  rel : Rel P σ s
  inv : Simple.Inv P s
  tot : σ.total_rate = Simple.totalRate P s
  hist : A.full = true → ∀ u ∈ P.nodes, alHas σ.node_history u = true

theorem kS_map (l : List (SpontTr τ)) : (l.map keyS).map (Sum.inl : _ → PyTM.Tr τ) = l.map kS := by
  rw [List.map_map]; rfl

theorem kI_map (l : List (IndTr τ)) : (l.map keyI).map (Sum.inr : _ → PyTM.Tr τ) = l.map kI := by
  rw [List.map_map]; rfl

theorem Agree.keys {A : SArgs τ} {P : SCParams τ} {ic : Node → τ} {tmin : Rat} {tmax : ERat} {cfuel : Nat}
    (h : Agree A P ic tmin tmax cfuel) : A.spont.map Sum.inl ++ A.induced.map Sum.inr = allKeys P := by
  rw [h.spont, h.induced, kS_map, kI_map]; rfl

theorem rateList_eq {A : SArgs τ} {P : SCParams τ} {ic : Node → τ} {tmin : Rat} {tmax : ERat} {cfuel : Nat}
    (h : Agree A P ic tmin tmax cfuel) (pt : PT τ) (s : SCState τ) (hS : PTRel pt kS P.spont s.ptS)
    (hI : PTRel pt kI P.ind s.ptI) :
    (allKeys P).map (fun k => A.rate k * twK pt k) = Simple.rateList P s := by
  unfold allKeys Simple.rateList
  rw [List.map_append, rates_eq pt kS A.rate (fun tr => tr.rate) P.spont s.ptS hS h.rateS,
    rates_eq pt kI A.rate (fun tr => tr.rate) P.ind s.ptI hI h.rateI]

theorem allKeys_find {P : SCParams τ} {pt : PT τ} {lS lI : List (LD Actor)} (hS : PTRel pt kS P.spont lS)
    (hI : PTRel pt kI P.ind lI) : ∀ k ∈ allKeys P, ∃ p, PyRT.alFind? pt k = some p := by
  intro k hk
  unfold allKeys at hk
  rcases List.mem_append.1 hk with h | h
  · obtain ⟨tr, htr, rfl⟩ := List.mem_map.1 h
    exact hS.find_of_mem tr htr
  · obtain ⟨tr, htr, rfl⟩ := List.mem_map.1 h
    exact hI.find_of_mem tr htr

/-! ### the clock statements (end of `run` and of every iteration) -/

theorem stage5_bisim (A : SArgs τ) (P : SCParams τ) (ic : Node → τ) (tmin : Rat) (tmax : ERat) (cfuel : Nat)
    (hAg : Agree A P ic tmin tmax cfuel) (fuel : Nat)
    (ih : ∀ (σ : Loc τ) (s : SCState τ) (ts : TapeSt), LInv A P σ s →
      ResRel P (loop A fuel σ ts) (Simple.loop P tmax cfuel fuel s σ.t ts))
    (σ : Loc τ) (s : SCState τ) (tv : Rat) (ts : TapeSt) (hR : Rel P σ s) (hI : Simple.Inv P s) (ht : σ.t = some tv)
    (hh : A.full = true → ∀ u ∈ P.nodes, alHas σ.node_history u = true) :
    ResRel P (stage5 A fuel σ ts)
      ((if Simple.totalRate P s > 0 then do
          let d ← TM.popExpo (Simple.totalRate P s)
          Simple.loop P tmax cfuel fuel s (some (tv + d))
        else Simple.loop P tmax cfuel fuel s none) ts) := by
  have key : ∀ (σ' : Loc τ) (t' : ERat) (ts' : TapeSt), σ'.t = t' → LInv A P σ' s →
      ResRel P (loop A fuel σ' ts') (Simple.loop P tmax cfuel fuel s t' ts') := by
    intro σ' t' ts' h1 h2; subst h1; exact ih σ' s ts' h2
  unfold stage5
  rw [hAg.keys, sumFold σ.potential_transitions A.rate (allKeys P) (allKeys_find hR.ptS hR.ptI) 0,
    rateList_eq hAg σ.potential_transitions s hR.ptS hR.ptI, zero_add, PyTM.liftE_ok, pure_bind]
  have hsum : sumRat (Simple.rateList P s) = Simple.totalRate P s := rfl
  rw [hsum]
  dsimp only
  by_cases hpos : Simple.totalRate P s > 0
  · rw [if_pos (decide_eq_true hpos), if_pos hpos]
    simp only [bind_assoc, pure_bind]
    cases hE : TM.popExpo (Simple.totalRate P s) ts with
    | error e =>
      exact ResRel.of_err (TM.bind_of_err hE) (TM.bind_of_err hE) (TM.popExpo_err _ _ _ hE) (TM.popExpo_err _ _ _ hE)
    | ok q =>
      obtain ⟨d, ts2⟩ := q
      rw [TM.bind_of_ok hE, TM.bind_of_ok hE]
      exact key { σ with total_rate := Simple.totalRate P s, delay := some d,
                         t := ERat.add σ.t (some d) } (some (tv + d)) ts2
        (by show ERat.add σ.t (some d) = some (tv + d); rw [ht]; rfl)
        ⟨⟨hR.status, hR.ptS, hR.ptI, hR.times, hR.data, hR.gw⟩, hI, rfl, hh⟩
  · rw [if_neg (by simpa using hpos), if_neg hpos, pure_bind]
    exact key { σ with total_rate := Simple.totalRate P s, delay := none,
                       t := ERat.add σ.t none } none ts
      (by show ERat.add σ.t none = none; rw [ht]; rfl)
      ⟨⟨hR.status, hR.ptS, hR.ptI, hR.times, hR.data, hR.gw⟩, hI, rfl, hh⟩

/-! ### the two update loops of an event -/

theorem kI_not_mem_kS (l : List (SpontTr τ)) (tr : IndTr τ) : kI tr ∉ l.map kS := by
  intro h
  obtain ⟨x, -, hx⟩ := List.mem_map.1 h
  simp [kS, kI] at hx

theorem kS_not_mem_kI (l : List (IndTr τ)) (tr : SpontTr τ) : kS tr ∉ l.map kI := by
  intro h
  obtain ⟨x, -, hx⟩ := List.mem_map.1 h
  simp [kS, kI] at hx

theorem stage4_eval (A : SArgs τ) (P : SCParams τ) (ic : Node → τ) (tmin : Rat) (tmax : ERat) (cfuel : Nat)
    (hAg : Agree A P ic tmin tmax cfuel) (hwf : Simple.WF P) (hndS : (P.spont.map (kS (τ := τ))).Nodup)
    (hndI : (P.ind.map (kI (τ := τ))).Nodup) (fuel : Nat) (σ : Loc τ) (m : Node) (hm : m ∈ P.nodes) (old new : τ)
    (st : Node → τ) (hst : σ.status = st) (hnew : st m = new) (hgw : GWInv P σ.get_weight)
    (lS lI ps pi : List (LD Actor)) (hS : PTRel σ.potential_transitions kS P.spont lS)
    (hI : PTRel σ.potential_transitions kI P.ind lI)
    (hmS : Simple.mapPT P.spont lS (Simple.updSpontOne old new m) = some ps)
    (hmI : Simple.mapPT P.ind lI (Simple.updIndOne P st old new m) = some pi) :
    ∃ σ', stage4 A fuel σ m old = stage5 A fuel σ' ∧ Frame σ σ' ∧ GWInv P σ'.get_weight ∧
      PTRel σ'.potential_transitions kS P.spont ps ∧ PTRel σ'.potential_transitions kI P.ind pi := by
  obtain ⟨σ1, e1, f1, g1, o1, r1⟩ := keyFold P kS (fun (σ : Loc τ) (tr : SpontTr τ) => spontBody m old σ (keyS tr))
    (Simple.updSpontOne old new m) st P.spont hndS
    (fun σ tr ld ld' htr hs hh hf => spontBody_eval P hwf m hm old new st hnew σ tr ld ld' htr hs hh hf)
    σ lS ps hst hgw hS hmS
  have hI1 : PTRel σ1.potential_transitions kI P.ind lI :=
    hI.congr (fun tr _ => o1 _ (kI_not_mem_kS P.spont tr))
  obtain ⟨σ2, e2, f2, g2, o2, r2⟩ := keyFold P kI
    (fun (σ : Loc τ) (tr : IndTr τ) => indBody P.directed P.succ P.pred m old σ (keyI tr))
    (Simple.updIndOne P st old new m) st P.ind hndI
    (fun σ tr ld ld' htr hs hh hf => indBody_eval P hwf m hm old new st hnew σ tr ld ld' htr hs hh hf)
    σ1 lI pi (by rw [f1.status, hst]) g1 hI1 hmI
  refine ⟨σ2, ?_, f1.trans f2, g2, r1.congr (fun tr _ => o2 _ (kS_not_mem_kI P.ind tr)), r2⟩
  unfold stage4
  rw [hAg.spont, hAg.induced, hAg.directed, hAg.nbrs, hAg.pred]
  simp only [List.foldlM_map]
  rw [e1, pure_bind, e2, pure_bind]

/-! ### the bookkeeping statements of an event -/

theorem dataFold_eq (ks : List τ) (σ : Loc τ) (hks : ∀ k ∈ ks, k ∈ alKeys σ.data)
    (hne : ∀ k ∈ alKeys σ.data, alGet σ.data [] k ≠ []) :
    ks.foldlM dataBody σ = pure { σ with data := ks.foldl GenCC.colDup σ.data } := by
  induction ks generalizing σ with
  | nil => rfl
  | cons k ks ih =>
    have hk : alHas σ.data k = true := (alHas_iff_mem_keys _ _).2 (hks k (by simp))
    have hkeys : alKeys (GenCC.colDup σ.data k) = alKeys σ.data := alKeys_alSet_of_has _ _ _ hk
    rw [List.foldlM_cons]
    unfold dataBody
    rw [dictGet_of_has σ.data k [] hk]
    simp only [PyTM.liftE_ok, pure_bind, GenCC.listLast_of_ne _ (hne k (hks k (by simp)))]
    have := ih { σ with data := GenCC.colDup σ.data k }
      (fun k' hk' => by rw [hkeys]; exact hks k' (by simp [hk']))
      (fun k' hk' => by
        rw [hkeys] at hk'
        by_cases hkk : k' = k
        · subst hkk
          show alGet (GenCC.colDup σ.data k') [] k' ≠ []
          rw [GenCC.colDup, alGet_alSet_self]; simp
        · show alGet (GenCC.colDup σ.data k) [] k' ≠ []
          rw [GenCC.colDup, alGet_alSet_ne _ _ _ _ _ hkk]; exact hne k' hk')
    exact this

/-- `if x in return_statuses: data[x][-1] = f(data[x][-1])` -/
theorem editIf (σ : Loc τ) (c : Bool) (x : τ) (f : Int → Int)
    (hx : c = true → x ∈ alKeys σ.data ∧ alGet σ.data [] x ≠ []) :
    (if c = true then
        PyTM.liftE (PyRT.dictGet σ.data x) >>= fun col => PyTM.liftE (PyTM.listLast col) >>= fun v =>
          (pure { σ with data := alSet σ.data x (col.dropLast ++ [f v]) } : TM (Loc τ))
      else pure σ) =
    pure { σ with data := if c = true then GenCC.colEdit σ.data x f else σ.data } := by
  cases c with
  | true =>
    obtain ⟨h1, h2⟩ := hx rfl
    simp only [if_true, dictGet_of_has σ.data x [] ((alHas_iff_mem_keys _ _).2 h1), GenCC.listLast_of_ne _ h2,
      PyTM.liftE_ok, pure_bind, GenCC.colEdit]
  | false => simp only [Bool.false_eq_true, if_false]

/-- the two full-data statements `node_history[node][0].append(t)` / `node_history[node][1].append(new_status)` -/
theorem fullIf (σ : Loc τ) (c : Bool) (m : Node) (tt : ERat) (new : τ)
    (hx : c = true → alHas σ.node_history m = true) :
    ∃ nh', (if c = true then do
        let h_12 ← PyTM.liftE (PyRT.dictGet σ.node_history m)
        let σ := { σ with node_history := alSet σ.node_history m (h_12.1 ++ [tt], h_12.2) }
        let h_13 ← PyTM.liftE (PyRT.dictGet σ.node_history m)
        let σ := { σ with node_history := alSet σ.node_history m (h_13.1, h_13.2 ++ [new]) }
        pure σ
      else do
        pure σ) = (pure { σ with node_history := nh' } : TM (Loc τ)) ∧
      ∀ u, alHas σ.node_history u = true → alHas nh' u = true := by
  cases c with
  | false => exact ⟨σ.node_history, by simp, fun _ h => h⟩
  | true =>
    refine ⟨alSet (alSet σ.node_history m ((alGet σ.node_history ([], []) m).1 ++ [tt],
        (alGet σ.node_history ([], []) m).2)) m ((alGet σ.node_history ([], []) m).1 ++ [tt],
        (alGet σ.node_history ([], []) m).2 ++ [new]), ?_, ?_⟩
    · simp only [if_true, dictGet_of_has σ.node_history m ([], []) (hx rfl), PyTM.liftE_ok, pure_bind,
        GenCC.dictGet_alSet_self]
    · intro u hu
      rw [alHas_alSet, alHas_alSet]
      exact Or.inl (Or.inl hu)

theorem stage3_eval (A : SArgs τ) (P : SCParams τ) (ic : Node → τ) (tmin : Rat) (tmax : ERat) (cfuel : Nat)
    (hAg : Agree A P ic tmin tmax cfuel) (hwf : Simple.WF P) (hndS : (P.spont.map (kS (τ := τ))).Nodup)
    (hndI : (P.ind.map (kI (τ := τ))).Nodup) (hret : P.ret.Nodup) (fuel : Nat) (σ : Loc τ) (s : SCState τ)
    (m : Node) (hm : m ∈ P.nodes) (old new : τ) (hst : σ.status = s.status) (hgw : GWInv P σ.get_weight)
    (hS : PTRel σ.potential_transitions kS P.spont s.ptS) (hI : PTRel σ.potential_transitions kI P.ind s.ptI)
    (hd : GenCC.DRel P.ret σ.data s.data)
    (hh : A.full = true → ∀ u ∈ P.nodes, alHas σ.node_history u = true) (ps pi : List (LD Actor))
    (hmS : Simple.mapPT P.spont s.ptS (Simple.updSpontOne old new m) = some ps)
    (hmI : Simple.mapPT P.ind s.ptI (Simple.updIndOne P (fset s.status m new) old new m) = some pi) :
    ∃ σ', stage3 A fuel σ m old new = stage5 A fuel σ' ∧ σ'.status = fset s.status m new ∧ σ'.times = σ.times ∧
      σ'.t = σ.t ∧ GWInv P σ'.get_weight ∧ PTRel σ'.potential_transitions kS P.spont ps ∧
      PTRel σ'.potential_transitions kI P.ind pi ∧
      GenCC.DRel P.ret σ'.data ((List.zip P.ret s.data).map fun (x, col) =>
        let v := col.headD 0
        let v := if old = x then v - 1 else v
        let v := if new = x then v + 1 else v
        v :: col) ∧
      (A.full = true → ∀ u ∈ P.nodes, alHas σ'.node_history u = true) := by
  obtain ⟨nh', enh, hnh⟩ := fullIf { σ with status := fset σ.status m new } A.full m σ.t new
    (fun hf => hh hf m hm)
  obtain ⟨σ', e4, f4, g4, r4S, r4I⟩ := stage4_eval A P ic tmin tmax cfuel hAg hwf hndS hndI fuel
    { σ with status := fset σ.status m new, node_history := nh', data := GenCC.evData P.ret σ.data old new }
    m hm old new (fset s.status m new) (by rw [← hst]) (Gillespie.fset_self _ _ _) hgw s.ptS s.ptI ps pi hS hI hmS hmI
  refine ⟨σ', ?_, by rw [f4.status]; show fset σ.status m new = _; rw [hst], by rw [f4]; rfl, by rw [f4]; rfl,
    g4, r4S, r4I, ?_, ?_⟩
  · rw [← e4]
    unfold stage3
    dsimp only at enh ⊢
    rw [enh, pure_bind]
    dsimp only
    have hkeys : List.map (fun x : τ × List Int => x.1) σ.data = P.ret := hd.keys
    rw [hkeys, dataFold_eq P.ret _ (fun k hk => by rw [hd.keys]; exact hk)
      (fun k hk => by rw [hd.keys] at hk; exact hd.get_ne k hk), pure_bind]
    dsimp only
    rw [hAg.ret]
    have ed1 := editIf
      ({ σ with status := fset σ.status m new, node_history := nh', data := List.foldl GenCC.colDup σ.data P.ret })
      (decide (old ∈ P.ret)) old (· - 1)
      (fun hc => GenCC.evData_side1 hd hret old (of_decide_eq_true hc))
    dsimp only at ed1
    rw [ed1, pure_bind]
    simp only [Gillespie.fset_self]
    have ed2 := editIf
      ({ σ with status := fset σ.status m new, node_history := nh', data := (if decide (old ∈ P.ret) = true then
          GenCC.colEdit (List.foldl GenCC.colDup σ.data P.ret) old (· - 1) else List.foldl GenCC.colDup σ.data P.ret) })
      (decide (new ∈ P.ret)) new (· + 1)
      (fun hc => by
        have := GenCC.evData_side2 hd hret old (· - 1) new (of_decide_eq_true hc)
        simpa using this)
    dsimp only at ed2
    rw [ed2, pure_bind]
    simp only [decide_eq_true_eq]
    rfl
  · rw [f4]
    exact GenCC.evData_rel P.ret hret σ.data s.data hd old new
  · intro hf u hu
    rw [f4]
    exact hnh u (hh hf u hu)

/-! ### the chosen transition -/

theorem PTRel.get {κ : Type} {pt : PT τ} {key : κ → PyTM.Tr τ} {trs : List κ} {lds : List (LD Actor)}
    (h : PTRel pt key trs lds) (i : Nat) (ld : LD Actor) (hl : lds[i]? = some ld) :
    ∃ tr p, trs[i]? = some tr ∧ (trs.map key)[i]? = some (key tr) ∧ PyRT.alFind? pt (key tr) = some p ∧
      GenLD.R p ld ∧ LD.Inv ld := by
  have hi : i < lds.length := (List.getElem?_eq_some_iff.1 hl).1
  have hi' : i < trs.length := h.1 ▸ hi
  obtain ⟨⟨p, hp, hR⟩, hinv⟩ := h.2 i trs[i] ld (List.getElem?_eq_getElem hi') hl
  exact ⟨trs[i], p, List.getElem?_eq_getElem hi', by simp [hi'], hp, hR, hinv⟩

theorem allKeys_get {P : SCParams τ} {pt : PT τ} {lS lI : List (LD Actor)} (hS : PTRel pt kS P.spont lS)
    (hI : PTRel pt kI P.ind lI) (i : Nat) (ld : LD Actor) (hl : (lS ++ lI)[i]? = some ld) :
    ∃ k p, (allKeys P)[i]? = some k ∧ PyRT.alFind? pt k = some p ∧ GenLD.R p ld ∧ LD.Inv ld ∧
      ((i < P.spont.length ∧ ∃ tr, P.spont[i]? = some tr ∧ lS[i]? = some ld ∧ k = kS tr) ∨
       (¬ i < P.spont.length ∧ ∃ tr, P.ind[i - P.spont.length]? = some tr ∧ lI[i - P.spont.length]? = some ld ∧
          k = kI tr)) := by
  unfold allKeys
  by_cases hlt : i < P.spont.length
  · have hlt' : i < lS.length := by rw [hS.1]; exact hlt
    rw [List.getElem?_append_left hlt'] at hl
    obtain ⟨tr, p, h1, h2, h3, h4, h5⟩ := hS.get i ld hl
    refine ⟨kS tr, p, ?_, h3, h4, h5, Or.inl ⟨hlt, tr, h1, hl, rfl⟩⟩
    rw [List.getElem?_append_left (by simpa using hlt)]; exact h2
  · have hge : lS.length ≤ i := by rw [hS.1]; exact Nat.le_of_not_lt hlt
    rw [List.getElem?_append_right hge, hS.1] at hl
    obtain ⟨tr, p, h1, h2, h3, h4, h5⟩ := hI.get _ ld hl
    refine ⟨kI tr, p, ?_, h3, h4, h5, Or.inr ⟨hlt, tr, h1, hl, rfl⟩⟩
    rw [List.getElem?_append_right (by simpa using Nat.le_of_not_lt hlt)]
    simpa using h2

theorem allKeys_get_none {P : SCParams τ} {pt : PT τ} {lS lI : List (LD Actor)} (hS : PTRel pt kS P.spont lS)
    (hI : PTRel pt kI P.ind lI) (i : Nat) (hl : (lS ++ lI)[i]? = none) : (allKeys P)[i]? = none := by
  rw [List.getElem?_eq_none_iff] at hl ⊢
  unfold allKeys
  simp only [List.length_append, List.length_map] at hl ⊢
  rw [← hS.1, ← hI.1]; exact hl

theorem applyEvent_some (P : SCParams τ) (s s' : SCState τ) (e : SCEvent) (t : Rat) (src : Option Node) (m : Node)
    (old new : τ) (hdec : Simple.decode P e = some (src, m, old, new))
    (h : Simple.applyEvent P s e t = some s') :
    ∃ ps pi, Simple.mapPT P.spont s.ptS (Simple.updSpontOne old new m) = some ps ∧
      Simple.mapPT P.ind s.ptI (Simple.updIndOne P (fset s.status m new) old new m) = some pi ∧
      s' = { status := fset s.status m new, ptS := ps, ptI := pi, times := t :: s.times,
             data := (List.zip P.ret s.data).map fun (x, col) =>
               let v := col.headD 0
               let v := if old = x then v - 1 else v
               let v := if new = x then v + 1 else v
               v :: col,
             log := (t, src, m, new) :: s.log } := by
  unfold Simple.applyEvent at h
  simp only [hdec, Option.bind_eq_bind, Option.bind_some] at h
  cases h1 : Simple.mapPT P.spont s.ptS (Simple.updSpontOne old new m) with
  | none => rw [h1] at h; simp at h
  | some ps =>
    cases h2 : Simple.mapPT P.ind s.ptI (Simple.updIndOne P (fset s.status m new) old new m) with
    | none => rw [h1, h2] at h; simp at h
    | some pi =>
      rw [h1, h2] at h
      simp only [Option.bind_some] at h
      exact ⟨ps, pi, rfl, rfl, (Option.some.inj h).symm⟩

/-! ### one event -/

/-- the model's continuation after an event -/
def mcont (P : SCParams τ) (tmax : ERat) (cfuel fuel : Nat) (s' : SCState τ) (tv : Rat) : TM (SCState τ) :=
  if Simple.totalRate P s' > 0 then do
    let d ← TM.popExpo (Simple.totalRate P s')
    Simple.loop P tmax cfuel fuel s' (some (tv + d))
  else Simple.loop P tmax cfuel fuel s' none

section Event
variable (A : SArgs τ) (P : SCParams τ) (ic : Node → τ) (tmin : Rat) (tmax : ERat) (cfuel : Nat)
  (hAg : Agree A P ic tmin tmax cfuel) (hwf : Simple.WF P) (hndS : (P.spont.map (kS (τ := τ))).Nodup)
  (hndI : (P.ind.map (kI (τ := τ))).Nodup) (hret : P.ret.Nodup) (fuel : Nat)
  (ih : ∀ (σ : Loc τ) (s : SCState τ) (ts : TapeSt), LInv A P σ s →
      ResRel P (loop A fuel σ ts) (Simple.loop P tmax cfuel fuel s σ.t ts))
include hAg hwf hndS hndI hret ih

theorem stage3_bisim (σ : Loc τ) (s s' : SCState τ) (tv : Rat) (ts : TapeSt) (hst : σ.status = s.status)
    (hgw : GWInv P σ.get_weight) (hS : PTRel σ.potential_transitions kS P.spont s.ptS)
    (hI : PTRel σ.potential_transitions kI P.ind s.ptI) (hd : GenCC.DRel P.ret σ.data s.data)
    (hh : A.full = true → ∀ u ∈ P.nodes, alHas σ.node_history u = true)
    (htimes : σ.times = (tv :: s.times).reverse.map some) (ht : σ.t = some tv) (hInv' : Simple.Inv P s')
    (e : SCEvent) (src : Option Node) (m : Node) (hm : m ∈ P.nodes) (old new : τ)
    (hdec : Simple.decode P e = some (src, m, old, new)) (hAE : Simple.applyEvent P s e tv = some s') :
    ResRel P (stage3 A fuel σ m old new ts) (mcont P tmax cfuel fuel s' tv ts) := by
  obtain ⟨ps, pi, hmS, hmI, rfl⟩ := applyEvent_some P s s' e tv src m old new hdec hAE
  obtain ⟨σ', e3, h1, h2, h3, h4, h5, h6, h7, h8⟩ := stage3_eval A P ic tmin tmax cfuel hAg hwf hndS hndI hret fuel σ s
    m hm old new hst hgw hS hI hd hh ps pi hmS hmI
  rw [e3]
  exact stage5_bisim A P ic tmin tmax cfuel hAg fuel ih σ' _ tv ts
    ⟨h1, h5, h6, by rw [h2, htimes], h7, h4⟩ hInv' (by rw [h3, ht]) h8

theorem stage2_bisim (σ : Loc τ) (s : SCState τ) (tv : Rat) (ts : TapeSt) (hst : σ.status = s.status)
    (hgw : GWInv P σ.get_weight) (hS : PTRel σ.potential_transitions kS P.spont s.ptS)
    (hI : PTRel σ.potential_transitions kI P.ind s.ptI) (hd : GenCC.DRel P.ret σ.data s.data)
    (hh : A.full = true → ∀ u ∈ P.nodes, alHas σ.node_history u = true)
    (htimes : σ.times = (tv :: s.times).reverse.map some) (ht : σ.t = some tv) (hInv : Simple.Inv P s)
    (i : Nat) (c : Actor) (ld : LD Actor) (hc : c ∈ ld.items) (k : PyTM.Tr τ)
    (hk : (i < P.spont.length ∧ ∃ tr, P.spont[i]? = some tr ∧ s.ptS[i]? = some ld ∧ k = kS tr) ∨
       (¬ i < P.spont.length ∧ ∃ tr, P.ind[i - P.spont.length]? = some tr ∧ s.ptI[i - P.spont.length]? = some ld ∧
          k = kI tr)) :
    ∃ s', Simple.applyEvent P s { idx := i, actor := c } tv = some s' ∧
      ResRel P (stage2 A fuel σ k c ts) (mcont P tmax cfuel fuel s' tv ts) := by
  rcases hk with ⟨hlt, tr, htr, hld, rfl⟩ | ⟨hlt, tr, htr, hld, rfl⟩
  · obtain ⟨-, -, hmem, -⟩ := hInv.spont i tr ld htr hld
    obtain ⟨u, rfl, hun, hsu⟩ := (hmem c).1 hc
    have hdec : Simple.decode P { idx := i, actor := [u] } = some (none, u, tr.src, tr.dst) := by
      unfold Simple.decode
      simp only [hlt, if_true, htr]
    obtain ⟨s', hAE, hInv', -⟩ := Simple.applyEvent_core P hwf s hInv _ tv none u _ tr.dst hdec hun hsu
    refine ⟨s', hAE, ?_⟩
    have e2 : stage2 A fuel σ (kS tr) [u] = stage3 A fuel σ u tr.src tr.dst := rfl
    rw [e2]
    exact stage3_bisim A P ic tmin tmax cfuel hAg hwf hndS hndI hret fuel ih σ s s' tv ts hst hgw hS hI hd hh htimes ht
      hInv' _ none u hun tr.src tr.dst hdec hAE
  · obtain ⟨-, -, hmem, -⟩ := hInv.ind _ tr ld htr hld
    obtain ⟨u, v, rfl, hun, hvu, hsu, hsv⟩ := (hmem c).1 hc
    have hvn : v ∈ P.nodes := hwf.succ_mem u hun v hvu
    have hdec : Simple.decode P { idx := i, actor := [u, v] } = some (some u, v, tr.b, tr.c) := by
      unfold Simple.decode
      simp only [hlt, if_false, htr]
    obtain ⟨s', hAE, hInv', -⟩ := Simple.applyEvent_core P hwf s hInv _ tv (some u) v _ tr.c hdec hvn hsv
    refine ⟨s', hAE, ?_⟩
    cases hf : A.full with
    | true =>
      have e2 : stage2 A fuel σ (kI tr) [u, v] =
          stage3 A fuel { σ with transmissions := σ.transmissions ++ [(σ.t, some u, v)] } v tr.b tr.c := by
        unfold stage2
        simp only [hf, if_true]
        rfl
      rw [e2]
      exact stage3_bisim A P ic tmin tmax cfuel hAg hwf hndS hndI hret fuel ih
        ({ σ with transmissions := σ.transmissions ++ [(σ.t, some u, v)] }) s s' tv ts hst hgw hS hI hd hh htimes
        ht hInv' _ (some u) v hvn tr.b tr.c hdec hAE
    | false =>
      have e2 : stage2 A fuel σ (kI tr) [u, v] = stage3 A fuel σ v tr.b tr.c := by
        unfold stage2
        simp only [hf, Bool.false_eq_true, if_false]
        rfl
      rw [e2]
      exact stage3_bisim A P ic tmin tmax cfuel hAg hwf hndS hndI hret fuel ih σ s s' tv ts hst hgw hS hI hd hh htimes
        ht hInv' _ (some u) v hvn tr.b tr.c hdec hAE

end Event

/-! ### the loop -/

theorem find_alSet_same {κ ν : Type} [DecidableEq κ] (d : List (κ × ν)) (k k' : κ) (v : ν)
    (h : PyRT.alFind? d k = some v) : PyRT.alFind? (alSet d k v) k' = PyRT.alFind? d k' := by
  rw [GenLD.alFind?_alSet]
  split
  · rename_i hk; rw [hk, h]
  · rfl

theorem pick_eval (P : SCParams τ) (s : SCState τ) (cfuel : Nat) (ts ts1 : TapeSt) (r : Rat)
    (hpu : TM.popUnif ts = .ok (r, ts1)) :
    Simple.pick P s cfuel ts =
      (match (s.ptS ++ s.ptI)[Simple.pickIdx ((Simple.rateList P s).map fun x => x / Simple.totalRate P s) r]? with
        | none => TM.fail "IndexError"
        | some ld => do
          let a ← Gillespie.chooseTM Simple.encActor ld cfuel
          pure ({ idx := Simple.pickIdx ((Simple.rateList P s).map fun x => x / Simple.totalRate P s) r,
                  actor := a } : SCEvent))
        ts1 := by
  unfold Simple.pick
  exact TM.bind_of_ok hpu

theorem loop_bisim (A : SArgs τ) (P : SCParams τ) (ic : Node → τ) (tmin : Rat) (tmax : ERat) (cfuel : Nat)
    (hAg : Agree A P ic tmin tmax cfuel) (hwf : Simple.WF P) (hndS : (P.spont.map (kS (τ := τ))).Nodup)
    (hndI : (P.ind.map (kI (τ := τ))).Nodup) (hret : P.ret.Nodup) (fuel : Nat) (σ : Loc τ) (s : SCState τ)
    (ts : TapeSt) (hL : LInv A P σ s) :
    ResRel P (loop A fuel σ ts) (Simple.loop P tmax cfuel fuel s σ.t ts) := by
  induction fuel generalizing σ s ts with
  | zero => exact ResRel.of_err rfl rfl (by decide) (by decide)
  | succ fuel ih =>
    rw [loop_succ, Simple.loop.eq_def]
    cases ht : σ.t with
    | none =>
      simp only [ERat.lt, Bool.and_false, Bool.false_eq_true, if_false]
      exact ⟨rfl, hL.rel⟩
    | some tv =>
      simp only []
      rw [hAg.tmax, hL.tot]
      by_cases hc : Simple.totalRate P s > 0 ∧ ERat.lt (some tv) tmax = true
      · have hc1 : (decide (Simple.totalRate P s > 0) && ERat.lt (some tv) tmax) = true := by simp [hc.1, hc.2]
        have hc2 : ¬ ((!decide (Simple.totalRate P s > 0)) = true ∨ (!ERat.lt (some tv) tmax) = true) := by
          simp [hc.1, hc.2]
        rw [if_pos hc1, if_neg hc2]
        have hS := hL.rel.ptS
        have hI := hL.rel.ptI
        have htot : σ.total_rate ≠ 0 := by rw [hL.tot]; exact ne_of_gt hc.1
        unfold iter
        dsimp only
        cases hpu : TM.popUnif ts with
        | error e =>
          refine ResRel.of_err (TM.bind_of_err hpu) (TM.bind_of_err ?_) (TM.popUnif_err _ _ hpu)
            (TM.popUnif_err _ _ hpu)
          unfold Simple.pick
          exact TM.bind_of_err hpu
        | ok q =>
          obtain ⟨r, ts1⟩ := q
          rw [TM.bind_of_ok hpu]
          obtain ⟨r', d, hfold⟩ := chooseFold σ.potential_transitions A.rate σ.total_rate htot (allKeys P)
            (allKeys_find hS hI) r
          have hsh : (allKeys P).map (fun k => A.rate k * twK σ.potential_transitions k / σ.total_rate) =
              (Simple.rateList P s).map (fun x => x / Simple.totalRate P s) := by
            rw [← rateList_eq hAg σ.potential_transitions s hS hI, List.map_map, hL.tot]; rfl
          rw [hsh] at hfold
          have hpk := pick_eval P s cfuel ts ts1 r hpu
          generalize Simple.pickIdx ((Simple.rateList P s).map fun x => x / Simple.totalRate P s) r = i at hfold hpk
          rw [hAg.keys, hfold, PyTM.liftE_ok, pure_bind]
          dsimp only
          cases hld : (s.ptS ++ s.ptI)[i]? with
          | none =>
            rw [hld] at hpk
            rw [allKeys_get_none hS hI _ hld]
            exact ResRel.of_err (PyTM.liftE_err_bind _ _ _) (TM.bind_of_err hpk) (by decide) (by decide)
          | some ld =>
            rw [hld] at hpk
            obtain ⟨k, p, hk1, hk2, hR, hinv, hk3⟩ := allKeys_get hS hI _ ld hld
            rw [hk1]
            have hlp : PyTM.liftE (pure k : Except String (PyTM.Tr τ)) = (pure k : TM (PyTM.Tr τ)) := rfl
            simp only [hlp, PyTM.liftE_ok, pure_bind, dictGet_of_find _ _ _ hk2]
            rw [hAg.cfuel]
            rcases GenLD.choose_bisim Simple.encActor p ld hR hinv cfuel ts1 with
              ⟨e1, e2, h1, h2, h3⟩ | ⟨c, ts2, h1, h2⟩
            · have h1' : GenLD.choose_random_tm (fun a => a) p cfuel ts1 = .error e1 := h1
              refine ResRel.of_err (TM.bind_of_err h1') (TM.bind_of_err ?_) h3
                (Gillespie.chooseTM_err _ _ _ _ _ h2)
              rw [hpk]; exact TM.bind_of_err h2
            · have h1' : GenLD.choose_random_tm (fun a => a) p cfuel ts1 = .ok ((p, c), ts2) := h1
              have hpk' : Simple.pick P s cfuel ts = .ok (({ idx := i, actor := c } : SCEvent), ts2) := by
                rw [hpk]; exact TM.bind_of_ok h2
              rw [TM.bind_of_ok h1', TM.bind_of_ok hpk']
              dsimp only
              have hcm : c ∈ ld.items := Gillespie.chooseTM_mem _ _ _ _ _ _ h2
              obtain ⟨s', hAE, hres⟩ := stage2_bisim A P ic tmin tmax cfuel hAg hwf hndS hndI hret fuel
                (fun σ s ts h => ih σ s ts h)
                ({ σ with times := σ.times ++ [σ.t],
                          potential_transitions := alSet σ.potential_transitions k p }) s tv ts2
                hL.rel.status hL.rel.gw
                (hS.congr fun tr _ => find_alSet_same _ _ _ _ hk2)
                (hI.congr fun tr _ => find_alSet_same _ _ _ _ hk2)
                hL.rel.data hL.hist
                (by show σ.times ++ [σ.t] = _; rw [hL.rel.times, ht]; simp)
                ht hL.inv _ c ld hcm k hk3
              rw [hAE]
              exact hres
      · have hc1 : ¬ (decide (Simple.totalRate P s > 0) && ERat.lt (some tv) tmax) = true := by
          intro h; apply hc; simpa using h
        have hc2 : (!decide (Simple.totalRate P s > 0)) = true ∨ (!ERat.lt (some tv) tmax) = true := by
          by_contra h; apply hc; simpa using h
        rw [if_neg hc1, if_pos hc2]
        exact ⟨rfl, hL.rel⟩

/-! ### set-up and `run` -/

/-- the body of `for node in G.nodes():` (initial population of the candidate structures) -/
def initNodeBody (P : SArgs τ) (σ : Loc τ) (node : Node) : TM (Loc τ) := do
    let σ ← (if (P.spHas (σ.status node)) then do
      let σ ← (P.spOut (σ.status node)).foldlM (fun (σ : Loc τ) (transition : τ × τ) =>
        stUpdate σ (Sum.inl transition) [node]) σ
      pure σ
    else do
      pure σ)
    let σ ← (P.nbrs node).foldlM (fun (σ : Loc τ) (nbr : Node) => do
      let σ ← (if (P.inHas (σ.status node, σ.status nbr)) then do
        let σ ← (P.inOut (σ.status node, σ.status nbr)).foldlM (fun (σ : Loc τ) (transition : (τ × τ) × (τ × τ)) =>
          stUpdate σ (Sum.inr transition) [node, nbr]) σ
        pure σ
      else do
        pure σ)
      pure σ) σ
    pure σ

def run' (P : SArgs τ) (fuel : Nat) : TM (Loc τ) := do
  let σ : Loc τ := Loc.init P
  let σ := { σ with status := P.ic }
  let σ ← (if P.full then do
    let σ := { σ with transmissions := [] }
    let σ := { σ with node_history := P.nodes.map (fun node => (node, ([some P.tmin], [σ.status node]))) }
    pure σ
  else do
    pure σ)
  let σ := { σ with times := [some P.tmin] }
  let σ := { σ with data := [] }
  let C := σ.status
  let σ ← P.ret.foldlM (fun (σ : Loc τ) (return_status : τ) => do
    let σ := { σ with data := alSet σ.data return_status [(PyTM.countSt P.nodes C return_status)] }
    pure σ) σ
  let σ ← P.nodes.foldlM (initNodeBody P) σ
  let σ := { σ with t := (some P.tmin) }
  stage5 P fuel σ

theorem run_eq (P : SArgs τ) (fuel : Nat) : run P fuel = run' P fuel := rfl

theorem retFold_eq (cnt : τ → Int) (l : List τ) (σ : Loc τ) :
    l.foldlM (fun (σ : Loc τ) (x : τ) => (pure { σ with data := alSet σ.data x [cnt x] } : TM (Loc τ))) σ =
      pure { σ with data := l.foldl (fun d x => alSet d x [cnt x]) σ.data } := by
  induction l generalizing σ with
  | nil => rfl
  | cons x l ih => rw [List.foldlM_cons, pure_bind, ih]; rfl

theorem init_data_rel (P : SCParams τ) (ic : Node → τ) (hnd : P.ret.Nodup) :
    GenCC.DRel P.ret (List.foldl (fun d x => alSet d x [PyTM.countSt P.nodes ic x]) [] P.ret)
      (P.ret.map fun x => [Simple.countSt P ic x]) := by
  rw [GenCC.foldl_alSet_fresh _ P.ret hnd [] (fun x _ => rfl), List.nil_append]
  refine ⟨?_, by simp, ?_, ?_⟩
  · simp [alKeys, Function.comp_def]
  · intro i hi
    rw [GenCC.alGet_map_mk (fun x => [PyTM.countSt P.nodes ic x]) P.ret _ (List.getElem_mem hi)]
    simp [List.getD_eq_getElem?_getD, hi, PyTM.countSt, Simple.countSt]
  · intro c hc
    simp only [List.mem_map] at hc
    obtain ⟨x, -, rfl⟩ := hc
    simp

theorem initNodes_cons_some (P : SCParams τ) (st : Node → τ) (u : Node) (rest : List Node)
    (ps pi ps' pi' : List (LD Actor)) (h : Simple.initNodes P st (u :: rest) ps pi = some (ps', pi')) :
    ∃ ps1 pi1, Simple.mapPT P.spont ps (Simple.initSpontOne st u) = some ps1 ∧
      Simple.mapPT P.ind pi (fun tr ld => Simple.initIndNbrs st u tr (P.succ u) ld) = some pi1 ∧
      Simple.initNodes P st rest ps1 pi1 = some (ps', pi') := by
  rw [Simple.initNodes] at h
  cases h1 : Simple.mapPT P.spont ps (Simple.initSpontOne st u) with
  | none => rw [h1] at h; simp at h
  | some ps1 =>
    cases h2 : Simple.mapPT P.ind pi (fun tr ld => Simple.initIndNbrs st u tr (P.succ u) ld) with
    | none => rw [h1, h2] at h; simp at h
    | some pi1 =>
      rw [h1, h2] at h
      exact ⟨ps1, pi1, rfl, rfl, h⟩

theorem initNodes_fold (A : SArgs τ) (P : SCParams τ) (ic : Node → τ) (tmin : Rat) (tmax : ERat) (cfuel : Nat)
    (hAg : Agree A P ic tmin tmax cfuel) (hwf : Simple.WF P) (hndS : (P.spont.map (kS (τ := τ))).Nodup)
    (hndI : (P.ind.map (kI (τ := τ))).Nodup) (st : Node → τ) (l : List Node) (hl : ∀ u ∈ l, u ∈ P.nodes)
    (σ : Loc τ) (hst : σ.status = st) (hgw : GWInv P σ.get_weight) (ps pi ps' pi' : List (LD Actor))
    (hS : PTRel σ.potential_transitions kS P.spont ps) (hI : PTRel σ.potential_transitions kI P.ind pi)
    (hm : Simple.initNodes P st l ps pi = some (ps', pi')) :
    ∃ σ', l.foldlM (initNodeBody A) σ = pure σ' ∧ Frame σ σ' ∧ GWInv P σ'.get_weight ∧
      PTRel σ'.potential_transitions kS P.spont ps' ∧ PTRel σ'.potential_transitions kI P.ind pi' := by
  induction l generalizing σ ps pi with
  | nil =>
    rw [Simple.initNodes] at hm
    obtain ⟨rfl, rfl⟩ := Prod.mk.inj (Option.some.inj hm)
    exact ⟨σ, rfl, Frame.refl σ, hgw, hS, hI⟩
  | cons u rest ih =>
    obtain ⟨ps1, pi1, hm1, hm2, hm3⟩ := initNodes_cons_some P st u rest ps pi ps' pi' hm
    have hu : u ∈ P.nodes := hl u (by simp)
    obtain ⟨σ1, e1, r1⟩ := initSpontPart A P ic tmin tmax cfuel hAg hwf hndS hndI st u hu σ hst hgw ps ps1 hS hm1
    have hI1 : PTRel σ1.potential_transitions kI P.ind pi :=
      hI.congr (fun tr _ => r1.other _ (kI_not_mem_kS P.spont tr))
    have hst1 : σ1.status = st := by rw [r1.frame.status, hst]
    obtain ⟨σ2, e2, r2⟩ := initIndPart A P ic tmin tmax cfuel hAg hwf hndS hndI st u hu (P.succ u) (fun v hv => hv)
      σ1 hst1 r1.gw pi pi1 hI1 hm2
    have hS2 : PTRel σ2.potential_transitions kS P.spont ps1 :=
      r1.rel.congr (fun tr _ => r2.other _ (kS_not_mem_kI P.ind tr))
    obtain ⟨σ3, e3, f3, g3, hS3, hI3⟩ := ih (fun x hx => hl x (by simp [hx])) σ2
      (by rw [r2.frame.status, hst1]) r2.gw ps1 pi1 hS2 r2.rel hm3
    refine ⟨σ3, ?_, (r1.frame.trans r2.frame).trans f3, g3, hS3, hI3⟩
    rw [List.foldlM_cons]
    have eb : initNodeBody A σ u = pure σ2 := by
      unfold initNodeBody
      rw [e1, pure_bind]
      rw [hAg.nbrs]
      exact e2
    rw [eb, pure_bind, e3]

theorem ite_pure_tm {α : Type} (c : Prop) [Decidable c] (a b : α) :
    (if c then (pure a : TM α) else pure b) = pure (if c then a else b) := by
  split <;> rfl

theorem init_some (P : SCParams τ) (ic : Node → τ) (tmin : Rat) (s0 : SCState τ)
    (h : Simple.init P ic tmin = some s0) :
    ∃ ps pi, Simple.initNodes P ic P.nodes (P.spont.map fun tr => LD.empty tr.w.isSome)
        (P.ind.map fun tr => LD.empty tr.w.isSome) = some (ps, pi) ∧
      s0 = { status := ic, ptS := ps, ptI := pi, times := [tmin],
             data := P.ret.map fun x => [Simple.countSt P ic x], log := [] } := by
  unfold Simple.init at h
  cases hin : Simple.initNodes P ic P.nodes (P.spont.map fun tr => LD.empty tr.w.isSome)
      (P.ind.map fun tr => LD.empty tr.w.isSome) with
  | none => rw [hin] at h; simp at h
  | some q =>
    obtain ⟨ps, pi⟩ := q
    rw [hin] at h
    exact ⟨ps, pi, rfl, (Option.some.inj h).symm⟩

theorem PTRel_init {κ : Type} (pt : PT τ) (key : κ → PyTM.Tr τ) (w : κ → Bool) (trs : List κ)
    (h : ∀ tr ∈ trs, PyRT.alFind? pt (key tr) = some (GenLD.init (w tr))) :
    PTRel pt key trs (trs.map fun tr => LD.empty (w tr)) := by
  refine ⟨by simp, ?_⟩
  intro i tr ld h1 h2
  rw [List.getElem?_map, h1] at h2
  obtain rfl := Option.some.inj h2
  exact ⟨⟨_, h tr (List.mem_of_getElem? h1), GenLD.init_R _⟩, LD.inv_empty _⟩

theorem run_tail (A : SArgs τ) (P : SCParams τ) (ic : Node → τ) (tmin : Rat) (tmax : ERat) (cfuel : Nat)
    (hAg : Agree A P ic tmin tmax cfuel) (hwf : Simple.WF P) (hndS : (P.spont.map (kS (τ := τ))).Nodup)
    (hndI : (P.ind.map (kI (τ := τ))).Nodup) (hret : P.ret.Nodup) (fuel : Nat) (ts : TapeSt)
    (nh : List (Node × (List ERat × List τ))) (trm : List (ERat × Option Node × Node))
    (hnh : A.full = true → ∀ u ∈ P.nodes, alHas nh u = true) (s0 : SCState τ) (ps pi : List (LD Actor))
    (hin : Simple.initNodes P ic P.nodes (P.spont.map fun tr => LD.empty tr.w.isSome)
        (P.ind.map fun tr => LD.empty tr.w.isSome) = some (ps, pi))
    (hs0 : s0 = { status := ic, ptS := ps, ptI := pi, times := [tmin],
                  data := P.ret.map fun x => [Simple.countSt P ic x], log := [] })
    (hinv0 : Simple.Inv P s0) :
    ResRel P
      ((P.nodes.foldlM (initNodeBody A)
          ({ status := ic, times := [some tmin], t := none, delay := none, total_rate := 0,
             data := List.foldl (fun d x => alSet d x [PyTM.countSt P.nodes ic x]) [] P.ret,
             potential_transitions := A.pt0, get_weight := A.gw0, node_history := nh, transmissions := trm } : Loc τ)
        >>= fun σ => stage5 A fuel { σ with t := some tmin }) ts)
      ((if Simple.totalRate P s0 > 0 then do
          let d ← TM.popExpo (Simple.totalRate P s0)
          Simple.loop P tmax cfuel fuel s0 (some (tmin + d))
        else Simple.loop P tmax cfuel fuel s0 none) ts) := by
  obtain ⟨σ', e1, f1, g1, hS1, hI1⟩ := initNodes_fold A P ic tmin tmax cfuel hAg hwf hndS hndI ic P.nodes
    (fun u hu => hu)
    ({ status := ic, times := [some tmin], t := none, delay := none, total_rate := 0,
       data := List.foldl (fun d x => alSet d x [PyTM.countSt P.nodes ic x]) [] P.ret,
       potential_transitions := A.pt0, get_weight := A.gw0, node_history := nh, transmissions := trm })
    rfl hAg.gw0 _ _ ps pi
    (PTRel_init A.pt0 kS (fun tr => tr.w.isSome) P.spont hAg.pt0S)
    (PTRel_init A.pt0 kI (fun tr => tr.w.isSome) P.ind hAg.pt0I) hin
  rw [e1, pure_bind]
  have hrel : Rel P ({ σ' with t := some tmin } : Loc τ) s0 := by
    subst hs0
    refine ⟨?_, hS1, hI1, ?_, ?_, g1⟩
    · show σ'.status = ic
      rw [f1.status]
    · show σ'.times = _
      rw [f1]; rfl
    · show GenCC.DRel P.ret σ'.data _
      rw [f1]
      exact init_data_rel P ic hret
  refine stage5_bisim A P ic tmin tmax cfuel hAg fuel
    (fun σ s ts h => loop_bisim A P ic tmin tmax cfuel hAg hwf hndS hndI hret fuel σ s ts h)
    { σ' with t := some tmin } s0 tmin ts hrel hinv0 rfl ?_
  intro hf u hu
  show alHas σ'.node_history u = true
  rw [f1]
  exact hnh hf u hu

theorem run_bisim (A : SArgs τ) (P : SCParams τ) (ic : Node → τ) (tmin : Rat) (tmax : ERat) (cfuel : Nat)
    (hAg : Agree A P ic tmin tmax cfuel) (hwf : Simple.WF P) (hndS : (P.spont.map (kS (τ := τ))).Nodup)
    (hndI : (P.ind.map (kI (τ := τ))).Nodup) (hret : P.ret.Nodup) (fuel : Nat) (ts : TapeSt) :
    ResRel P (run A fuel ts) (Simple.run P ic tmin tmax fuel cfuel ts) := by
  obtain ⟨s0, h0, hinv0, -⟩ := Simple.init_inv' P hwf ic tmin
  obtain ⟨ps, pi, hin, hs0⟩ := init_some P ic tmin s0 h0
  rw [run_eq]
  unfold run' Simple.run
  rw [h0]
  cases hf : A.full with
  | true =>
    simp only [Loc.init, if_true, pure_bind]
    rw [retFold_eq (fun x => PyTM.countSt A.nodes A.ic x)]
    simp only [pure_bind]
    rw [hAg.nodes, hAg.ic, hAg.ret, hAg.tmin]
    exact run_tail A P ic tmin tmax cfuel hAg hwf hndS hndI hret fuel ts _ _
      (fun _ u hu => GenCC.alHas_map_mk _ _ _ hu) s0 ps pi hin hs0 hinv0
  | false =>
    simp only [Loc.init, Bool.false_eq_true, if_false, pure_bind]
    rw [retFold_eq (fun x => PyTM.countSt A.nodes A.ic x)]
    simp only [pure_bind]
    rw [hAg.nodes, hAg.ic, hAg.ret, hAg.tmin]
    exact run_tail A P ic tmin tmax cfuel hAg hwf hndS hndI hret fuel ts _ _
      (fun h => by rw [hf] at h; cases h) s0 ps pi hin hs0 hinv0

/-! ### consequences: the C03 invariant on the generated state -/

/-- the C03 invariant restated on the locals of the generated function: the generated state is related to a model
state satisfying `Simple.Inv` -/
def GInv (P : SCParams τ) (σ : Loc τ) : Prop := ∃ s, Rel P σ s ∧ Simple.Inv P s

theorem LInv.of_inv {A : SArgs τ} {P : SCParams τ} {σ : Loc τ} {s : SCState τ} (hR : Rel P σ s)
    (hI : Simple.Inv P s) (htot : σ.total_rate = Simple.totalRate P s)
    (hh : A.full = true → ∀ u ∈ P.nodes, alHas σ.node_history u = true) : LInv A P σ s :=
  ⟨hR, hI, htot, hh⟩

theorem Rel.spont_get {P : SCParams τ} {σ : Loc τ} {s : SCState τ} (hR : Rel P σ s) (tr : SpontTr τ)
    (htr : tr ∈ P.spont) : ∃ (i : Nat) (ld : LD Actor) (p : GenLD.PyLD Actor), P.spont[i]? = some tr ∧ s.ptS[i]? = some ld ∧
      PyRT.alFind? σ.potential_transitions (kS tr) = some p ∧ GenLD.R p ld := by
  obtain ⟨i, hi, rfl⟩ := List.getElem_of_mem htr
  have hi' : i < s.ptS.length := by rw [hR.ptS.1]; exact hi
  obtain ⟨⟨p, hp, hRp⟩, -⟩ := hR.ptS.2 i P.spont[i] s.ptS[i] (List.getElem?_eq_getElem hi)
    (List.getElem?_eq_getElem hi')
  exact ⟨i, s.ptS[i], p, List.getElem?_eq_getElem hi, List.getElem?_eq_getElem hi', hp, hRp⟩

theorem Rel.ind_get {P : SCParams τ} {σ : Loc τ} {s : SCState τ} (hR : Rel P σ s) (tr : IndTr τ)
    (htr : tr ∈ P.ind) : ∃ (i : Nat) (ld : LD Actor) (p : GenLD.PyLD Actor), P.ind[i]? = some tr ∧ s.ptI[i]? = some ld ∧
      PyRT.alFind? σ.potential_transitions (kI tr) = some p ∧ GenLD.R p ld := by
  obtain ⟨i, hi, rfl⟩ := List.getElem_of_mem htr
  have hi' : i < s.ptI.length := by rw [hR.ptI.1]; exact hi
  obtain ⟨⟨p, hp, hRp⟩, -⟩ := hR.ptI.2 i P.ind[i] s.ptI[i] (List.getElem?_eq_getElem hi)
    (List.getElem?_eq_getElem hi')
  exact ⟨i, s.ptI[i], p, List.getElem?_eq_getElem hi, List.getElem?_eq_getElem hi', hp, hRp⟩

/-- what `GInv` says in terms of the generated state only: the structure stored under a spontaneous key -/
theorem GInv.spont {P : SCParams τ} {σ : Loc τ} (hG : GInv P σ) (tr : SpontTr τ) (htr : tr ∈ P.spont) :
    ∃ p, PyRT.dictGet σ.potential_transitions (kS tr) = .ok p ∧ p.weighted = tr.w.isSome ∧ p.items.Nodup ∧
      (∀ a, a ∈ p.items ↔ ∃ u, a = [u] ∧ u ∈ P.nodes ∧ σ.status u = tr.src) ∧
      (∀ f, tr.w = some f → ∀ u, [u] ∈ p.items → alGet p.weight 0 [u] = f u) := by
  obtain ⟨s, hR, hI⟩ := hG
  obtain ⟨i, ld, p, h1, h2, h3, h4⟩ := hR.spont_get tr htr
  obtain ⟨hinv, hwd, hmem, hgw⟩ := hI.spont i tr ld h1 h2
  refine ⟨p, dictGet_of_find _ _ _ h3, by rw [h4.weighted, hwd], by rw [h4.items]; exact hinv.nodup, ?_, ?_⟩
  · intro a; rw [h4.items, hR.status]; exact hmem a
  · intro f hf u hu
    rw [h4.weight]; rw [h4.items] at hu
    exact hgw f hf u hu

/-- … and under an induced key -/
theorem GInv.ind {P : SCParams τ} {σ : Loc τ} (hG : GInv P σ) (tr : IndTr τ) (htr : tr ∈ P.ind) :
    ∃ p, PyRT.dictGet σ.potential_transitions (kI tr) = .ok p ∧ p.weighted = tr.w.isSome ∧ p.items.Nodup ∧
      (∀ a, a ∈ p.items ↔ ∃ u v, a = [u, v] ∧ u ∈ P.nodes ∧ v ∈ P.succ u ∧ σ.status u = tr.a ∧ σ.status v = tr.b) ∧
      (∀ f, tr.w = some f → ∀ u v, [u, v] ∈ p.items → alGet p.weight 0 [u, v] = f u v) := by
  obtain ⟨s, hR, hI⟩ := hG
  obtain ⟨i, ld, p, h1, h2, h3, h4⟩ := hR.ind_get tr htr
  obtain ⟨hinv, hwd, hmem, hgw⟩ := hI.ind i tr ld h1 h2
  refine ⟨p, dictGet_of_find _ _ _ h3, by rw [h4.weighted, hwd], by rw [h4.items]; exact hinv.nodup, ?_, ?_⟩
  · intro a; rw [h4.items, hR.status]; exact hmem a
  · intro f hf u v hu
    rw [h4.weight]; rw [h4.items] at hu
    exact hgw f hf u v hu

/-- **clock**: the rate-summing loop of the generated code, run on a state satisfying the invariant, returns the total
rate of the specified chain -/
theorem GInv.clock {A : SArgs τ} {P : SCParams τ} {ic : Node → τ} {tmin : Rat} {tmax : ERat} {cfuel : Nat}
    (hAg : Agree A P ic tmin tmax cfuel) (hwf : Simple.WF P) {σ : Loc τ} (hG : GInv P σ) :
    (A.spont.map Sum.inl ++ A.induced.map Sum.inr).foldlM (fun (acc : Rat) (transition : PyTM.Tr τ) => do
        let ld ← PyRT.dictGet σ.potential_transitions transition
        let (_, w) ← GenLD.total_weight ld
        pure (acc + A.rate transition * w)) 0 =
      (.ok (Simple.specTotal P σ.status) : Except String Rat) := by
  obtain ⟨s, hR, hI⟩ := hG
  rw [hAg.keys, sumFold σ.potential_transitions A.rate (allKeys P) (allKeys_find hR.ptS hR.ptI) 0,
    rateList_eq hAg σ.potential_transitions s hR.ptS hR.ptI, zero_add, hR.status, ← Simple.clock_eq' P hwf s hI]
  rfl

/-- **counts**: the last entry of every reported column is the number of nodes in that status -/
theorem GInv.counts {P : SCParams τ} {σ : Loc τ} (hG : GInv P σ) (x : τ) (hx : x ∈ P.ret) :
    GenCC.lastI (alGet σ.data [] x) = PyTM.countSt P.nodes σ.status x := by
  obtain ⟨s, hR, hI⟩ := hG
  obtain ⟨i, hi, rfl⟩ := List.getElem_of_mem hx
  have hc := hI.counts.2 i hi
  have hret : ∀ d, P.ret.getD i d = P.ret[i] := by
    intro d; simp [List.getD_eq_getElem?_getD, hi]
  rw [hret] at hc
  rw [hR.data.cols i hi, GenCC.lastI_reverse, hc, hR.status]
  rfl

theorem run_ginv (A : SArgs τ) (P : SCParams τ) (ic : Node → τ) (tmin : Rat) (tmax : ERat) (cfuel : Nat)
    (hAg : Agree A P ic tmin tmax cfuel) (hwf : Simple.WF P) (hndS : (P.spont.map (kS (τ := τ))).Nodup)
    (hndI : (P.ind.map (kI (τ := τ))).Nodup) (hret : P.ret.Nodup) (fuel : Nat) (ts ts' : TapeSt) (σ : Loc τ)
    (h : run A fuel ts = .ok (σ, ts')) : GInv P σ := by
  obtain ⟨s, hs, hR⟩ := (run_bisim A P ic tmin tmax cfuel hAg hwf hndS hndI hret fuel ts).bwd h
  exact ⟨s, hR, Simple.run_inv' P hwf ic tmin tmax fuel cfuel ts ts' s hs⟩

theorem loop_ginv (A : SArgs τ) (P : SCParams τ) (ic : Node → τ) (tmin : Rat) (tmax : ERat) (cfuel : Nat)
    (hAg : Agree A P ic tmin tmax cfuel) (hwf : Simple.WF P) (hndS : (P.spont.map (kS (τ := τ))).Nodup)
    (hndI : (P.ind.map (kI (τ := τ))).Nodup) (hret : P.ret.Nodup) (fuel : Nat) (ts ts' : TapeSt) (σ σ' : Loc τ)
    (s : SCState τ) (hL : LInv A P σ s) (h : loop A fuel σ ts = .ok (σ', ts')) : GInv P σ' := by
  obtain ⟨s', hs', hR'⟩ := (loop_bisim A P ic tmin tmax cfuel hAg hwf hndS hndI hret fuel σ s ts hL).bwd h
  exact ⟨s', hR', Simple.loop_inv' P hwf tmax cfuel fuel s s' σ.t ts ts' hL.inv hs'⟩

end GenSC
