import EoNVerif.Model.Simple
