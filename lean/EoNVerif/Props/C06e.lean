import EoNVerif.Proofs.GenWrap
import EoNVerif.Props.C06c
import EoNVerif.Props.C06d
/-!
C06e — "the initial vector matches the request and sums to N", from the GRAPH to the returned arrays, for the
`*_from_graph` wrappers of `EoN/analytic.py` as GENERATED into `Gen/WrapGen.lean` (namespace `GenWrap`; regenerated from
the Python source on every run).  Lemmas: `Proofs/GenWrap.lean`.

Hypotheses (those of C06c): `GraphOK A.toIArgs adj` ties what the generated code reads from the graph (node list, edge
list with every undirected edge once, `degree`, `has_node`) to the adjacency lists `adj` of the model
`Model/InitCond.lean`; `SetsOK adj infs recs` = the initial lists are disjoint lists of graph nodes.  Where a statement
identifies `len(initial_infecteds)` with a number of NODES, `infs.Nodup` (`recs.Nodup`) is assumed in addition, and the
counter-examples below show that it cannot be dropped.  `N = adj.length = A.nodes.length`, `2|E| = twoM adj`.

For each wrapper `f`:
* `f_args_sets / _rho / _default` — the argument record handed to the base function (A);
* `f_args_error`                  — exactly when which exception is raised, with the precedence of the code (B);
* `f_args_total`                  — the initial state sums to `N` (C);
* `f_from_graph_init / _conserve` — composed with the generated base function of C06d: the returned series start from
                                    the requested state of the graph and keep `S+I(+R) = N` (D).
-/
namespace GenWrapProps
open GenInit InitCond GenInitProofs GenWrap GenWrapProofs GenGlueProofs
open Gen PyGlue

/-! ## 0. counting -/

/-- `len(initial_infecteds)` / `len(initial_recovereds)` / `N - len - len` are the numbers of nodes with status
`I` / `R` / `S` — for duplicate-free, disjoint lists of graph nodes -/
theorem request_counts (adj : List (List Nat)) (infs recs : List Node) (hS : SetsOK adj infs recs)
    (hi : infs.Nodup) (hr : recs.Nodup) :
    (count adj (statusOf infs recs) St.I : Rat) = (infs.length : Rat) ∧
    (count adj (statusOf infs recs) St.R : Rat) = (recs.length : Rat) ∧
    (count adj (statusOf infs recs) St.S : Rat) = (adj.length : Rat) - (infs.length : Rat) - (recs.length : Rat) := by
  refine ⟨by rw [count_I adj infs recs hi hS], by rw [count_R adj infs recs hr hS.recIn], ?_⟩
  have := count_S adj infs recs hi hr hS
  exact_mod_cast this

/-- `Nodup` is necessary: `len()` counts a repeated node twice, the status map (hence every edge / class count) once -/
example : SetsOK C06c.exAdj [0, 0] [] ∧ count C06c.exAdj (statusOf [0, 0] []) St.I = 1 ∧ [0, 0].length = 2 := by
  refine ⟨⟨by decide, by decide, by decide⟩, by decide +kernel, rfl⟩

/-- `2·G.size()/G.order()` is the mean degree `Σ_u deg u / N` -/
theorem kave_eq (A : WArgs) (adj : List (List Nat)) (hG : GraphOK A.toIArgs adj) :
    kave A = (twoM adj : Rat) / (adj.length : Rat) ∧ meanK (A.nodes.map A.degree) = kave A := by
  have h1 : kave A = (twoM adj : Rat) / (adj.length : Rat) := by
    unfold kave
    rw [nodes_length A.toIArgs adj hG, ← two_edges A.toIArgs adj hG]
    push_cast; rfl
  exact ⟨h1, by rw [h1, meanK_graph A.toIArgs adj hG]⟩

/-! ## 1. `SIS_homogeneous_meanfield_from_graph` -/

/-- (B) exactly three outcomes, for ALL inputs (no hypothesis): `EoNError` iff `rho` and `initial_infecteds` are both
given; otherwise `ZeroDivisionError` iff the graph has no nodes (`2|E|/N`); otherwise a record.  The initial set is NOT
validated by this wrapper (no `EoNError` for a foreign node). -/
theorem SIS_homogeneous_meanfield_args_error (A : WArgs) (tau gamma : Rat) (infs : Option (List Node))
    (rho : Option Rat) (tmin tmax : Rat) (tcount : Int) :
    (rho.isSome ∧ infs.isSome →
      SIS_homogeneous_meanfield_from_graph_args A tau gamma infs rho tmin tmax tcount = .error "EoNError") ∧
    (¬ (rho.isSome ∧ infs.isSome) → A.nodes.length = 0 →
      SIS_homogeneous_meanfield_from_graph_args A tau gamma infs rho tmin tmax tcount = .error "ZeroDivisionError") ∧
    (¬ (rho.isSome ∧ infs.isSome) → A.nodes.length ≠ 0 →
      ∃ a, SIS_homogeneous_meanfield_from_graph_args A tau gamma infs rho tmin tmax tcount = .ok a) := by
  rw [SIS_hom_mf_closed]
  refine ⟨fun h => by rw [if_pos h], fun h hN => by rw [if_neg h, if_pos hN], fun h hN => ?_⟩
  rw [if_neg h, if_neg hN]; exact ⟨_, rfl⟩

/-- (A) explicit initial set, ANY list (not validated): `I0 = len(infs)`, `S0 = N - len(infs)`, `n = 2|E|/N`, the
remaining arguments are passed through -/
theorem SIS_homogeneous_meanfield_args_sets (A : WArgs) (tau gamma : Rat) (infs : List Node) (tmin tmax : Rat)
    (tcount : Int) (hN : A.nodes.length ≠ 0) :
    SIS_homogeneous_meanfield_from_graph_args A tau gamma (some infs) none tmin tmax tcount =
      .ok { S0 := (A.nodes.length : Rat) - (infs.length : Rat), I0 := (infs.length : Rat), n := kave A, tau := tau,
            gamma := gamma, tmin := tmin, tmax := tmax, tcount := tcount } := by
  rw [SIS_hom_mf_closed]; simp [hN]

/-- (A) for a duplicate-free list of graph nodes the record is the requested state of the graph -/
theorem SIS_homogeneous_meanfield_args_spec (A : WArgs) (adj : List (List Nat)) (hG : GraphOK A.toIArgs adj)
    (tau gamma : Rat) (infs : List Node) (hin : ∀ u ∈ infs, u < adj.length) (hnd : infs.Nodup) (hN : adj.length ≠ 0)
    (tmin tmax : Rat) (tcount : Int) :
    ∃ a, SIS_homogeneous_meanfield_from_graph_args A tau gamma (some infs) none tmin tmax tcount = .ok a ∧
      a.I0 = (infs.length : Rat) ∧ a.I0 = (count adj (statusOf infs []) St.I : Rat) ∧
      a.S0 = (count adj (statusOf infs []) St.S : Rat) ∧ a.n = (twoM adj : Rat) / (adj.length : Rat) := by
  have hN' : A.nodes.length ≠ 0 := by rw [nodes_length A.toIArgs adj hG]; exact hN
  obtain ⟨cI, -, cS⟩ := request_counts adj infs [] (SetsOK.nil_recs hin) hnd List.nodup_nil
  refine ⟨_, SIS_homogeneous_meanfield_args_sets A tau gamma infs tmin tmax tcount hN', rfl, cI.symm, ?_,
    (kave_eq A adj hG).1⟩
  rw [cS, nodes_length A.toIArgs adj hG]; simp

/-- (A) `rho` given: `I0 = rho·N`, `S0 = N - rho·N = (1-rho)·N` -/
theorem SIS_homogeneous_meanfield_args_rho (A : WArgs) (adj : List (List Nat)) (hG : GraphOK A.toIArgs adj)
    (tau gamma r : Rat) (hN : adj.length ≠ 0) (tmin tmax : Rat) (tcount : Int) :
    ∃ a, SIS_homogeneous_meanfield_from_graph_args A tau gamma none (some r) tmin tmax tcount = .ok a ∧
      a.I0 = rhoI adj r ∧ a.S0 = rhoS adj r ∧ a.n = (twoM adj : Rat) / (adj.length : Rat) := by
  have hN' : A.nodes.length ≠ 0 := by rw [nodes_length A.toIArgs adj hG]; exact hN
  rw [SIS_hom_mf_closed]
  simp only [Option.isSome_none, and_false, if_false, hN']
  refine ⟨_, rfl, ?_, ?_, (kave_eq A adj hG).1⟩
  · simp only [rhoI, nodes_length A.toIArgs adj hG]
  · simp only [rhoS, nodes_length A.toIArgs adj hG]; ring

/-- (A) neither given: ONE infected node, `I0 = 1` exactly (an int in Python), `S0 = N - 1` -/
theorem SIS_homogeneous_meanfield_args_default (A : WArgs) (tau gamma : Rat) (tmin tmax : Rat) (tcount : Int)
    (hN : A.nodes.length ≠ 0) :
    SIS_homogeneous_meanfield_from_graph_args A tau gamma none none tmin tmax tcount =
      .ok { S0 := (A.nodes.length : Rat) - 1, I0 := 1, n := kave A, tau := tau, gamma := gamma, tmin := tmin,
            tmax := tmax, tcount := tcount } := by
  rw [SIS_hom_mf_closed]; simp [hN]

/-- (C) in EVERY non-error case (any inputs, no hypothesis) `S0 + I0 = G.order()` -/
theorem SIS_homogeneous_meanfield_args_total (A : WArgs) (tau gamma : Rat) (infs : Option (List Node))
    (rho : Option Rat) (tmin tmax : Rat) (tcount : Int) (a : SIS_homogeneous_meanfield_Args)
    (h : SIS_homogeneous_meanfield_from_graph_args A tau gamma infs rho tmin tmax tcount = .ok a) :
    a.S0 + a.I0 = (A.nodes.length : Rat) := by
  rw [SIS_hom_mf_closed] at h
  split at h
  · cases h
  · split at h
    · cases h
    · injection h with h; subst h; simp

theorem SIS_homogeneous_meanfield_from_graph_inv (odeint : Solver) (A : WArgs) (tau gamma : Rat)
    (infs : Option (List Node)) (rho : Option Rat) (tmin tmax : Rat) (tcount : Int) (l : List Ser)
    (h : SIS_homogeneous_meanfield_from_graph odeint A tau gamma infs rho tmin tmax tcount = .ok l) :
    ∃ a, SIS_homogeneous_meanfield_from_graph_args A tau gamma infs rho tmin tmax tcount = .ok a ∧
      GenGlue.SIS_homogeneous_meanfield odeint a.S0 a.I0 a.n a.tau a.gamma a.tmin a.tmax a.tcount.toNat = .ok l := by
  unfold SIS_homogeneous_meanfield_from_graph at h
  cases ha : SIS_homogeneous_meanfield_from_graph_args A tau gamma infs rho tmin tmax tcount with
  | error e => rw [ha] at h; cases h
  | ok a => rw [ha] at h; exact ⟨a, rfl, h⟩

/-- (D) end to end, every solver with `odeint rhs X0 0 = X0`, ANY inputs: the returned `S`, `I` at time index 0 sum to
`G.order()` -/
theorem SIS_homogeneous_meanfield_from_graph_conserve0 (odeint : Solver) (h0 : RowZero odeint) (A : WArgs)
    (tau gamma : Rat) (infs : Option (List Node)) (rho : Option Rat) (tmin tmax : Rat) (tcount : Int) (l : List Ser)
    (h : SIS_homogeneous_meanfield_from_graph odeint A tau gamma infs rho tmin tmax tcount = .ok l) :
    get l 1 0 + get l 2 0 = (A.nodes.length : Rat) := by
  obtain ⟨a, ha, hl⟩ := SIS_homogeneous_meanfield_from_graph_inv odeint A tau gamma infs rho tmin tmax tcount l h
  rw [C06d.SIS_homogeneous_meanfield_conserve0 odeint h0 _ _ _ _ _ _ _ _ l hl]
  exact SIS_homogeneous_meanfield_args_total A tau gamma infs rho tmin tmax tcount a ha

/-- (D) end to end: the returned series start from the requested state of the graph -/
theorem SIS_homogeneous_meanfield_from_graph_init (odeint : Solver) (h0 : RowZero odeint) (A : WArgs)
    (adj : List (List Nat)) (hG : GraphOK A.toIArgs adj) (tau gamma : Rat) (infs : List Node)
    (hin : ∀ u ∈ infs, u < adj.length) (hnd : infs.Nodup) (tmin tmax : Rat) (tcount : Int) (l : List Ser)
    (h : SIS_homogeneous_meanfield_from_graph odeint A tau gamma (some infs) none tmin tmax tcount = .ok l) :
    get l 1 0 = (count adj (statusOf infs []) St.S : Rat) ∧ get l 2 0 = (infs.length : Rat) ∧
    get l 2 0 = (count adj (statusOf infs []) St.I : Rat) ∧ get l 1 0 + get l 2 0 = (adj.length : Rat) := by
  obtain ⟨a, ha, hl⟩ := SIS_homogeneous_meanfield_from_graph_inv odeint A tau gamma _ _ tmin tmax tcount l h
  have hN : adj.length ≠ 0 := by
    intro e
    have : A.nodes.length = 0 := by rw [nodes_length A.toIArgs adj hG]; exact e
    rw [(SIS_homogeneous_meanfield_args_error A tau gamma (some infs) none tmin tmax tcount).2.1 (by simp) this] at ha
    cases ha
  obtain ⟨a', ha', e1, e2, e3, -⟩ :=
    SIS_homogeneous_meanfield_args_spec A adj hG tau gamma infs hin hnd hN tmin tmax tcount
  rw [ha] at ha'; injection ha' with ha'; subst ha'
  obtain ⟨i1, i2⟩ := C06d.SIS_homogeneous_meanfield_init odeint h0 _ _ _ _ _ _ _ _ l hl
  refine ⟨i1.trans e3, i2.trans e1, i2.trans e2, ?_⟩
  rw [i1, i2, SIS_homogeneous_meanfield_args_total A tau gamma _ _ tmin tmax tcount a ha,
    nodes_length A.toIArgs adj hG]

/-! ## 2. `SIR_homogeneous_meanfield_from_graph` -/

/-- (B) for ALL inputs: `EoNError` iff `rho` is given together with `initial_infecteds` or `initial_recovereds`;
otherwise `ZeroDivisionError` iff the graph has no nodes; otherwise a record.  The sets are not validated. -/
theorem SIR_homogeneous_meanfield_args_error (A : WArgs) (tau gamma : Rat) (infs recs : Option (List Node))
    (rho : Option Rat) (tmin tmax : Rat) (tcount : Int) :
    (rho.isSome ∧ (infs.isSome ∨ recs.isSome) →
      SIR_homogeneous_meanfield_from_graph_args A tau gamma infs recs rho tmin tmax tcount = .error "EoNError") ∧
    (¬ (rho.isSome ∧ (infs.isSome ∨ recs.isSome)) → A.nodes.length = 0 →
      SIR_homogeneous_meanfield_from_graph_args A tau gamma infs recs rho tmin tmax tcount
        = .error "ZeroDivisionError") ∧
    (¬ (rho.isSome ∧ (infs.isSome ∨ recs.isSome)) → A.nodes.length ≠ 0 →
      ∃ a, SIR_homogeneous_meanfield_from_graph_args A tau gamma infs recs rho tmin tmax tcount = .ok a) := by
  rw [SIR_hom_mf_closed]
  refine ⟨fun h => ?_, fun h hN => ?_, fun h hN => ?_⟩
  · by_cases h1 : rho.isSome ∧ infs.isSome
    · rw [if_pos h1]
    · rw [if_neg h1, if_pos]
      rcases h with ⟨hr, hi | hr'⟩
      · exact absurd ⟨hr, hi⟩ h1
      · exact ⟨hr, hr'⟩
  · rw [if_neg (fun h1 => h ⟨h1.1, Or.inl h1.2⟩), if_neg (fun h1 => h ⟨h1.1, Or.inr h1.2⟩), if_pos hN]
  · rw [if_neg (fun h1 => h ⟨h1.1, Or.inl h1.2⟩), if_neg (fun h1 => h ⟨h1.1, Or.inr h1.2⟩), if_neg hN]
    exact ⟨_, rfl⟩

/-- (A) explicit sets (`initial_recovereds=None` is the empty list), ANY lists: `I0 = len(infs)`, `R0 = len(recs)`,
`S0 = N - I0 - R0` -/
theorem SIR_homogeneous_meanfield_args_sets (A : WArgs) (tau gamma : Rat) (infs : List Node)
    (recs : Option (List Node)) (tmin tmax : Rat) (tcount : Int) (hN : A.nodes.length ≠ 0) :
    SIR_homogeneous_meanfield_from_graph_args A tau gamma (some infs) recs none tmin tmax tcount =
      .ok { S0 := (A.nodes.length : Rat) - (infs.length : Rat) - ((recs.getD []).length : Rat),
            I0 := (infs.length : Rat), R0 := ((recs.getD []).length : Rat), n := kave A, tau := tau,
            gamma := gamma, tmin := tmin, tmax := tmax, tcount := tcount } := by
  rw [SIR_hom_mf_closed]; simp [hN]

/-- (A) for duplicate-free disjoint lists of graph nodes the record is the requested state of the graph -/
theorem SIR_homogeneous_meanfield_args_spec (A : WArgs) (adj : List (List Nat)) (hG : GraphOK A.toIArgs adj)
    (tau gamma : Rat) (infs : List Node) (recs : Option (List Node)) (hS : SetsOK adj infs (recs.getD []))
    (hi : infs.Nodup) (hr : (recs.getD []).Nodup) (hN : adj.length ≠ 0) (tmin tmax : Rat) (tcount : Int) :
    ∃ a, SIR_homogeneous_meanfield_from_graph_args A tau gamma (some infs) recs none tmin tmax tcount = .ok a ∧
      a.I0 = (infs.length : Rat) ∧ a.R0 = ((recs.getD []).length : Rat) ∧
      a.I0 = (count adj (statusOf infs (recs.getD [])) St.I : Rat) ∧
      a.R0 = (count adj (statusOf infs (recs.getD [])) St.R : Rat) ∧
      a.S0 = (count adj (statusOf infs (recs.getD [])) St.S : Rat) ∧ a.n = (twoM adj : Rat) / (adj.length : Rat) := by
  have hN' : A.nodes.length ≠ 0 := by rw [nodes_length A.toIArgs adj hG]; exact hN
  obtain ⟨cI, cR, cS⟩ := request_counts adj infs (recs.getD []) hS hi hr
  refine ⟨_, SIR_homogeneous_meanfield_args_sets A tau gamma infs recs tmin tmax tcount hN', rfl, rfl, cI.symm,
    cR.symm, ?_, (kave_eq A adj hG).1⟩
  rw [cS, nodes_length A.toIArgs adj hG]

/-- (A) without `initial_infecteds`: `I0 = rho·N`, or `I0 = 1` when `rho` is absent too; `R0 = len(recs)` (only
possible without `rho`), `S0 = N - I0 - R0` -/
theorem SIR_homogeneous_meanfield_args_rho (A : WArgs) (tau gamma : Rat) (recs : Option (List Node))
    (rho : Option Rat) (hrr : ¬ (rho.isSome ∧ recs.isSome)) (tmin tmax : Rat) (tcount : Int)
    (hN : A.nodes.length ≠ 0) :
    SIR_homogeneous_meanfield_from_graph_args A tau gamma none recs rho tmin tmax tcount =
      .ok { S0 := (A.nodes.length : Rat) - (match rho with | some r => r * (A.nodes.length : Rat) | none => 1)
                    - ((recs.getD []).length : Rat),
            I0 := (match rho with | some r => r * (A.nodes.length : Rat) | none => 1),
            R0 := ((recs.getD []).length : Rat), n := kave A, tau := tau,
            gamma := gamma, tmin := tmin, tmax := tmax, tcount := tcount } := by
  rw [SIR_hom_mf_closed]
  cases rho <;> cases recs <;> simp [hN] at hrr ⊢

/-- (C) in EVERY non-error case `S0 + I0 + R0 = G.order()` -/
theorem SIR_homogeneous_meanfield_args_total (A : WArgs) (tau gamma : Rat) (infs recs : Option (List Node))
    (rho : Option Rat) (tmin tmax : Rat) (tcount : Int) (a : SIR_homogeneous_meanfield_Args)
    (h : SIR_homogeneous_meanfield_from_graph_args A tau gamma infs recs rho tmin tmax tcount = .ok a) :
    a.S0 + a.I0 + a.R0 = (A.nodes.length : Rat) := by
  rw [SIR_hom_mf_closed] at h
  split at h
  · cases h
  · split at h
    · cases h
    · split at h
      · cases h
      · injection h with h; subst h; simp only []; ring

theorem SIR_homogeneous_meanfield_from_graph_inv (odeint : Solver) (A : WArgs) (tau gamma : Rat)
    (infs recs : Option (List Node)) (rho : Option Rat) (tmin tmax : Rat) (tcount : Int) (l : List Ser)
    (h : SIR_homogeneous_meanfield_from_graph odeint A tau gamma infs recs rho tmin tmax tcount = .ok l) :
    ∃ a, SIR_homogeneous_meanfield_from_graph_args A tau gamma infs recs rho tmin tmax tcount = .ok a ∧
      GenGlue.SIR_homogeneous_meanfield odeint a.S0 a.I0 a.R0 a.n a.tau a.gamma a.tmin a.tmax a.tcount.toNat
        = .ok l := by
  unfold SIR_homogeneous_meanfield_from_graph at h
  cases ha : SIR_homogeneous_meanfield_from_graph_args A tau gamma infs recs rho tmin tmax tcount with
  | error e => rw [ha] at h; cases h
  | ok a => rw [ha] at h; exact ⟨a, rfl, h⟩

/-- (D) end to end, EVERY solver, ANY inputs, EVERY time index: `S + I + R = G.order()` -/
theorem SIR_homogeneous_meanfield_from_graph_conserve (odeint : Solver) (A : WArgs)
    (tau gamma : Rat) (infs recs : Option (List Node)) (rho : Option Rat) (tmin tmax : Rat) (tcount : Int)
    (l : List Ser)
    (h : SIR_homogeneous_meanfield_from_graph odeint A tau gamma infs recs rho tmin tmax tcount = .ok l) (i : Nat) :
    get l 1 i + get l 2 i + get l 3 i = (A.nodes.length : Rat) := by
  obtain ⟨a, ha, hl⟩ := SIR_homogeneous_meanfield_from_graph_inv odeint A tau gamma infs recs rho tmin tmax tcount l h
  rw [C06d.SIR_homogeneous_meanfield_conserve odeint _ _ _ _ _ _ _ _ _ l hl i]
  exact SIR_homogeneous_meanfield_args_total A tau gamma infs recs rho tmin tmax tcount a ha

/-- (D) end to end: the returned series start from the requested state of the graph -/
theorem SIR_homogeneous_meanfield_from_graph_init (odeint : Solver) (h0 : RowZero odeint) (A : WArgs)
    (adj : List (List Nat)) (hG : GraphOK A.toIArgs adj) (tau gamma : Rat) (infs : List Node)
    (recs : Option (List Node)) (hS : SetsOK adj infs (recs.getD []))
    (hi : infs.Nodup) (hr : (recs.getD []).Nodup) (tmin tmax : Rat) (tcount : Int) (l : List Ser)
    (h : SIR_homogeneous_meanfield_from_graph odeint A tau gamma (some infs) recs none tmin tmax tcount = .ok l) :
    get l 1 0 = (count adj (statusOf infs (recs.getD [])) St.S : Rat) ∧
    get l 2 0 = (infs.length : Rat) ∧ get l 3 0 = ((recs.getD []).length : Rat) ∧
    get l 2 0 = (count adj (statusOf infs (recs.getD [])) St.I : Rat) ∧
    get l 3 0 = (count adj (statusOf infs (recs.getD [])) St.R : Rat) := by
  obtain ⟨a, ha, hl⟩ := SIR_homogeneous_meanfield_from_graph_inv odeint A tau gamma _ _ _ tmin tmax tcount l h
  have hN : adj.length ≠ 0 := by
    intro e
    have : A.nodes.length = 0 := by rw [nodes_length A.toIArgs adj hG]; exact e
    rw [(SIR_homogeneous_meanfield_args_error A tau gamma (some infs) recs none tmin tmax tcount).2.1 (by simp) this]
      at ha
    cases ha
  obtain ⟨a', ha', e1, e2, e3, e4, e5, -⟩ :=
    SIR_homogeneous_meanfield_args_spec A adj hG tau gamma infs recs hS hi hr hN tmin tmax tcount
  rw [ha] at ha'; injection ha' with ha'; subst ha'
  obtain ⟨i1, i2, i3⟩ := C06d.SIR_homogeneous_meanfield_init odeint h0 _ _ _ _ _ _ _ _ _ l hl
  exact ⟨i1.trans e5, i2.trans e1, i3.trans e2, i2.trans e3, i3.trans e4⟩

/-! ## 3. `SIS_homogeneous_pairwise_from_graph` -/

theorem pair_from_ec (A : IArgs) (adj : List (List Nat)) (hG : GraphOK A adj) (st : Nat → St) :
    ((ec st A.edges St.S St.I + ec st A.edges St.I St.S : Nat) : Int) = (pairCount adj st St.S St.I : Int) ∧
    (2 * (ec st A.edges St.S St.S : Int)) = (pairCount adj st St.S St.S : Int) := by
  rw [pairCount_eq_edges A adj hG, pairCount_eq_edges A adj hG]
  constructor <;> push_cast <;> ring

/-- (A) explicit initial set of graph nodes: `I0 = len(infs)`, `S0 = N - I0`, `SI0` = number of ordered neighbour
pairs (S,I) = number of S–I edges, `SS0` = number of ordered pairs (S,S) = TWICE the number of S–S edges,
`n = Σ_k k·Pk[k] = 2|E|/N`.  (`Nodup` only for the identification of `len` with the status counts.) -/
theorem SIS_homogeneous_pairwise_args_spec (A : WArgs) (adj : List (List Nat)) (hG : GraphOK A.toIArgs adj)
    (tau gamma : Rat) (infs : List Node) (hin : ∀ u ∈ infs, u < adj.length)
    (tmin tmax : Rat) (tcount : Int) (full : Bool) :
    ∃ a, SIS_homogeneous_pairwise_from_graph_args A tau gamma (some infs) none tmin tmax tcount full = .ok a ∧
      a.I0 = (infs.length : Rat) ∧ a.S0 = (adj.length : Rat) - (infs.length : Rat) ∧
      (infs.Nodup → a.I0 = (count adj (statusOf infs []) St.I : Rat) ∧
        a.S0 = (count adj (statusOf infs []) St.S : Rat)) ∧
      a.SI0 = (pairCount adj (statusOf infs []) St.S St.I : Rat) ∧
      a.SS0 = (pairCount adj (statusOf infs []) St.S St.S : Rat) ∧
      a.n = (twoM adj : Rat) / (adj.length : Rat) ∧
      a.tau = tau ∧ a.gamma = gamma ∧ a.tmin = tmin ∧ a.tmax = tmax ∧ a.tcount = tcount ∧
      a.return_full_data = full := by
  have hst := C06c.gen_status_eq A.toIArgs adj hG.hasNode infs [] (by simp) hin (by simp)
  refine ⟨_, SIS_hom_pw_sets A tau gamma infs tmin tmax tcount full _ hst, rfl, ?_, ?_, ?_, ?_, ?_,
    rfl, rfl, rfl, rfl, rfl, rfl⟩
  · simp only [nodes_length A.toIArgs adj hG]
  · intro hnd
    obtain ⟨cI, -, cS⟩ := request_counts adj infs [] (SetsOK.nil_recs hin) hnd List.nodup_nil
    refine ⟨cI.symm, ?_⟩
    simp only [nodes_length A.toIArgs adj hG, cS]; simp
  · rw [foldl_sisPwStep _ (statusOf_nil_ne_R infs)]
    simp only [zero_add]
    exact_mod_cast congrArg (fun z : Int => (z : Rat)) (pair_from_ec A.toIArgs adj hG (statusOf infs [])).1
  · rw [foldl_sisPwStep _ (statusOf_nil_ne_R infs)]
    simp only [zero_add]
    exact_mod_cast congrArg (fun z : Int => (z : Rat)) (pair_from_ec A.toIArgs adj hG (statusOf infs [])).2
  · rw [(kave_eq A adj hG).2, (kave_eq A adj hG).1]

/-- (A) without `initial_infecteds`: `rho` (default `1/N`), `S0 = (1-rho)N`, `I0 = rho·N`, `SI0 = (1-rho)·N·n·rho`,
`SS0 = (1-rho)·N·n·(1-rho)`; on a graph with nodes these are `rhoS, rhoI, rhoSI, rhoSS` of the model -/
theorem SIS_homogeneous_pairwise_args_rho (A : WArgs) (adj : List (List Nat)) (hG : GraphOK A.toIArgs adj)
    (tau gamma : Rat) (rho : Option Rat) (hN : adj.length ≠ 0) (tmin tmax : Rat) (tcount : Int) (full : Bool) :
    ∃ a, SIS_homogeneous_pairwise_from_graph_args A tau gamma none rho tmin tmax tcount full = .ok a ∧
      a.S0 = rhoS adj (rho.getD (1 / (adj.length : Rat))) ∧ a.I0 = rhoI adj (rho.getD (1 / (adj.length : Rat))) ∧
      a.SI0 = rhoSI adj (rho.getD (1 / (adj.length : Rat))) ∧ a.SS0 = rhoSS adj (rho.getD (1 / (adj.length : Rat))) ∧
      a.n = (twoM adj : Rat) / (adj.length : Rat) := by
  have hN' : A.nodes.length ≠ 0 := by rw [nodes_length A.toIArgs adj hG]; exact hN
  have hNr : (adj.length : Rat) ≠ 0 := by exact_mod_cast hN
  have hr : rhoOr A rho = .ok (rho.getD (1 / (adj.length : Rat))) := by
    cases rho with
    | some r => rfl
    | none => simp [rhoOr, nodes_length A.toIArgs adj hG, hN]
  rw [SIS_hom_pw_rho, hr]
  refine ⟨_, rfl, ?_, ?_, ?_, ?_, ?_⟩ <;>
    simp only [rhoS, rhoI, rhoSI, rhoSS, (kave_eq A adj hG).2, (kave_eq A adj hG).1, nodes_length A.toIArgs adj hG]
  · field_simp
  · field_simp

/-- (B) `EoNError` when both are given; `EoNError` for an initial node that is not in the graph; ZeroDivisionError
(from the default `rho = 1/N`) on the empty graph when neither is given — but NOT when `rho` is given (`get_Pk` of
no degrees is the empty dict, `n = 0`) -/
theorem SIS_homogeneous_pairwise_args_error (A : WArgs) (adj : List (List Nat)) (hG : GraphOK A.toIArgs adj)
    (tau gamma : Rat) (tmin tmax : Rat) (tcount : Int) (full : Bool) :
    (∀ infs r, SIS_homogeneous_pairwise_from_graph_args A tau gamma (some infs) (some r) tmin tmax tcount full
        = .error "EoNError") ∧
    (∀ infs u, u ∈ infs → adj.length ≤ u →
      SIS_homogeneous_pairwise_from_graph_args A tau gamma (some infs) none tmin tmax tcount full
        = .error "EoNError") ∧
    (adj.length = 0 → SIS_homogeneous_pairwise_from_graph_args A tau gamma none none tmin tmax tcount full
        = .error "ZeroDivisionError") ∧
    (∀ r, ∃ a, SIS_homogeneous_pairwise_from_graph_args A tau gamma none (some r) tmin tmax tcount full = .ok a) := by
  refine ⟨fun infs r => rfl, fun infs u hu hf => ?_, fun hN => ?_, fun r => ?_⟩
  · exact SIS_hom_pw_sets_error A tau gamma infs tmin tmax tcount full _
      (C06c.gen_status_error_foreign A.toIArgs adj hG.hasNode infs [] (by simp) u (Or.inl hu) hf)
  · rw [SIS_hom_pw_rho]
    simp [rhoOr, nodes_length A.toIArgs adj hG, hN]
  · rw [SIS_hom_pw_rho]; exact ⟨_, rfl⟩

/-- (C) `S0 + I0 = N` in every non-error case (explicit set of graph nodes; or `rho`) -/
theorem SIS_homogeneous_pairwise_args_total (A : WArgs) (adj : List (List Nat)) (hG : GraphOK A.toIArgs adj)
    (tau gamma : Rat) (infs : Option (List Node)) (rho : Option Rat) (tmin tmax : Rat) (tcount : Int) (full : Bool)
    (a : SIS_homogeneous_pairwise_Args)
    (h : SIS_homogeneous_pairwise_from_graph_args A tau gamma infs rho tmin tmax tcount full = .ok a) :
    a.S0 + a.I0 = (adj.length : Rat) := by
  cases infs with
  | some l =>
    cases rho with
    | some r => cases h
    | none =>
      cases hst : initialize_node_status A.toIArgs l [] with
      | error e => rw [SIS_hom_pw_sets_error A tau gamma l tmin tmax tcount full e hst] at h; cases h
      | ok st =>
        rw [SIS_hom_pw_sets A tau gamma l tmin tmax tcount full st hst] at h
        injection h with h; subst h
        simp [nodes_length A.toIArgs adj hG]
  | none =>
    rw [SIS_hom_pw_rho] at h
    cases hr : rhoOr A rho with
    | error e => rw [hr] at h; cases h
    | ok r =>
      rw [hr] at h
      injection h with h; subst h
      simp only [nodes_length A.toIArgs adj hG]; ring

theorem SIS_homogeneous_pairwise_from_graph_inv (odeint : Solver) (A : WArgs) (tau gamma : Rat)
    (infs : Option (List Node)) (rho : Option Rat) (tmin tmax : Rat) (tcount : Int) (full : Bool) (l : List Ser)
    (h : SIS_homogeneous_pairwise_from_graph odeint A tau gamma infs rho tmin tmax tcount full = .ok l) :
    ∃ a, SIS_homogeneous_pairwise_from_graph_args A tau gamma infs rho tmin tmax tcount full = .ok a ∧
      GenGlue.SIS_homogeneous_pairwise odeint a.S0 a.I0 a.SI0 a.SS0 a.n a.tau a.gamma a.tmin a.tmax a.tcount.toNat
        a.return_full_data = .ok l := by
  unfold SIS_homogeneous_pairwise_from_graph at h
  cases ha : SIS_homogeneous_pairwise_from_graph_args A tau gamma infs rho tmin tmax tcount full with
  | error e => rw [ha] at h; cases h
  | ok a => rw [ha] at h; exact ⟨a, rfl, h⟩

/-- (D) end to end, EVERY solver, EVERY time index, any request: `S + I = N` -/
theorem SIS_homogeneous_pairwise_from_graph_conserve (odeint : Solver) (A : WArgs) (adj : List (List Nat))
    (hG : GraphOK A.toIArgs adj) (tau gamma : Rat) (infs : Option (List Node)) (rho : Option Rat) (tmin tmax : Rat)
    (tcount : Int) (full : Bool) (l : List Ser)
    (h : SIS_homogeneous_pairwise_from_graph odeint A tau gamma infs rho tmin tmax tcount full = .ok l) (i : Nat) :
    get l 1 i + get l 2 i = (adj.length : Rat) := by
  obtain ⟨a, ha, hl⟩ := SIS_homogeneous_pairwise_from_graph_inv odeint A tau gamma infs rho tmin tmax tcount full l h
  rw [C06d.SIS_homogeneous_pairwise_conserve odeint _ _ _ _ _ _ _ _ _ _ _ l hl i]
  exact SIS_homogeneous_pairwise_args_total A adj hG tau gamma infs rho tmin tmax tcount full a ha

/-- (D) end to end: the returned `S`, `I` start from the requested state of the graph -/
theorem SIS_homogeneous_pairwise_from_graph_init (odeint : Solver) (h0 : RowZero odeint) (A : WArgs)
    (adj : List (List Nat)) (hG : GraphOK A.toIArgs adj) (tau gamma : Rat) (infs : List Node)
    (hin : ∀ u ∈ infs, u < adj.length) (hnd : infs.Nodup) (tmin tmax : Rat) (tcount : Int) (full : Bool)
    (l : List Ser)
    (h : SIS_homogeneous_pairwise_from_graph odeint A tau gamma (some infs) none tmin tmax tcount full = .ok l) :
    get l 1 0 = (count adj (statusOf infs []) St.S : Rat) ∧ get l 2 0 = (infs.length : Rat) ∧
    get l 2 0 = (count adj (statusOf infs []) St.I : Rat) := by
  obtain ⟨a, ha, hl⟩ := SIS_homogeneous_pairwise_from_graph_inv odeint A tau gamma _ _ tmin tmax tcount full l h
  obtain ⟨a', ha', e1, -, e3, -⟩ :=
    SIS_homogeneous_pairwise_args_spec A adj hG tau gamma infs hin tmin tmax tcount full
  rw [ha] at ha'; injection ha' with ha'; subst ha'
  obtain ⟨i1, i2⟩ := C06d.SIS_homogeneous_pairwise_init odeint h0 _ _ _ _ _ _ _ _ _ _ _ l hl
  exact ⟨i1.trans (e3 hnd).2, i2.trans e1, i2.trans (e3 hnd).1⟩

/-! ## 4. `SIR_homogeneous_pairwise_from_graph` -/

/-- (A) explicit disjoint sets of graph nodes: `I0 = len(infs)`, `R0 = len(recs)`, `S0 = N - I0 - R0`, `SI0` = number
of ordered neighbour pairs (S,I) (= S–I edges), `SS0` = number of ordered pairs (S,S) (= twice the S–S edges) -/
theorem SIR_homogeneous_pairwise_args_spec (A : WArgs) (adj : List (List Nat)) (hG : GraphOK A.toIArgs adj)
    (tau gamma : Rat) (infs : List Node) (recs : Option (List Node)) (hS : SetsOK adj infs (recs.getD []))
    (tmin tmax : Rat) (tcount : Int) (full : Bool) :
    ∃ a, SIR_homogeneous_pairwise_from_graph_args A tau gamma (some infs) recs none tmin tmax tcount full = .ok a ∧
      a.I0 = (infs.length : Rat) ∧ a.R0 = ((recs.getD []).length : Rat) ∧
      a.S0 = (adj.length : Rat) - (infs.length : Rat) - ((recs.getD []).length : Rat) ∧
      (infs.Nodup → (recs.getD []).Nodup →
        a.I0 = (count adj (statusOf infs (recs.getD [])) St.I : Rat) ∧
        a.R0 = (count adj (statusOf infs (recs.getD [])) St.R : Rat) ∧
        a.S0 = (count adj (statusOf infs (recs.getD [])) St.S : Rat)) ∧
      a.SI0 = (pairCount adj (statusOf infs (recs.getD [])) St.S St.I : Rat) ∧
      a.SS0 = (pairCount adj (statusOf infs (recs.getD [])) St.S St.S : Rat) ∧
      a.n = (twoM adj : Rat) / (adj.length : Rat) ∧
      a.tau = tau ∧ a.gamma = gamma ∧ a.tmin = tmin ∧ a.tmax = tmax ∧ a.tcount = tcount ∧
      a.return_full_data = full := by
  have hst := C06c.gen_status_eq A.toIArgs adj hG.hasNode infs (recs.getD []) hS.disj hS.infIn hS.recIn
  refine ⟨_, SIR_hom_pw_sets A tau gamma infs recs tmin tmax tcount full _ hst, rfl, rfl, ?_, ?_, ?_, ?_, ?_,
    rfl, rfl, rfl, rfl, rfl, rfl⟩
  · simp only [nodes_length A.toIArgs adj hG]
  · intro hi hr
    obtain ⟨cI, cR, cS⟩ := request_counts adj infs (recs.getD []) hS hi hr
    refine ⟨cI.symm, cR.symm, ?_⟩
    simp only [nodes_length A.toIArgs adj hG, cS]
  · rw [foldl_sirPwStep]
    simp only [zero_add]
    exact_mod_cast congrArg (fun z : Int => (z : Rat))
      (pair_from_ec A.toIArgs adj hG (statusOf infs (recs.getD []))).1
  · rw [foldl_sirPwStep]
    simp only [zero_add]
    exact_mod_cast congrArg (fun z : Int => (z : Rat))
      (pair_from_ec A.toIArgs adj hG (statusOf infs (recs.getD []))).2
  · rw [(kave_eq A adj hG).2, (kave_eq A adj hG).1]

/-- (A) without `initial_infecteds` (an `initial_recovereds` given without `rho` is IGNORED: `R0 = 0`) -/
theorem SIR_homogeneous_pairwise_args_rho (A : WArgs) (adj : List (List Nat)) (hG : GraphOK A.toIArgs adj)
    (tau gamma : Rat) (recs : Option (List Node)) (rho : Option Rat) (hrr : ¬ (rho.isSome ∧ recs.isSome))
    (hN : adj.length ≠ 0) (tmin tmax : Rat) (tcount : Int) (full : Bool) :
    ∃ a, SIR_homogeneous_pairwise_from_graph_args A tau gamma none recs rho tmin tmax tcount full = .ok a ∧
      a.S0 = rhoS adj (rho.getD (1 / (adj.length : Rat))) ∧ a.I0 = rhoI adj (rho.getD (1 / (adj.length : Rat))) ∧
      a.R0 = 0 ∧
      a.SI0 = rhoSI adj (rho.getD (1 / (adj.length : Rat))) ∧ a.SS0 = rhoSS adj (rho.getD (1 / (adj.length : Rat))) ∧
      a.n = (twoM adj : Rat) / (adj.length : Rat) := by
  have hNr : (adj.length : Rat) ≠ 0 := by exact_mod_cast hN
  have hr : rhoOr A rho = .ok (rho.getD (1 / (adj.length : Rat))) := by
    cases rho with
    | some r => rfl
    | none => simp [rhoOr, nodes_length A.toIArgs adj hG, hN]
  rw [SIR_hom_pw_rho A tau gamma recs rho hrr, hr]
  refine ⟨_, rfl, ?_, ?_, rfl, ?_, ?_, ?_⟩ <;>
    simp only [rhoS, rhoI, rhoSI, rhoSS, (kave_eq A adj hG).2, (kave_eq A adj hG).1, nodes_length A.toIArgs adj hG]
  · field_simp
  · field_simp

/-- (B) `EoNError`: `rho` with a set; a node in both sets; a node outside the graph.  ZeroDivisionError: neither given,
no nodes. -/
theorem SIR_homogeneous_pairwise_args_error (A : WArgs) (adj : List (List Nat)) (hG : GraphOK A.toIArgs adj)
    (tau gamma : Rat) (tmin tmax : Rat) (tcount : Int) (full : Bool) :
    (∀ infs recs r, infs.isSome ∨ recs.isSome →
      SIR_homogeneous_pairwise_from_graph_args A tau gamma infs recs (some r) tmin tmax tcount full
        = .error "EoNError") ∧
    (∀ infs recs u, u ∈ infs → u ∈ recs.getD [] →
      SIR_homogeneous_pairwise_from_graph_args A tau gamma (some infs) recs none tmin tmax tcount full
        = .error "EoNError") ∧
    (∀ infs recs u, (∀ v ∈ infs, v ∉ recs.getD []) → (u ∈ infs ∨ u ∈ recs.getD []) → adj.length ≤ u →
      SIR_homogeneous_pairwise_from_graph_args A tau gamma (some infs) recs none tmin tmax tcount full
        = .error "EoNError") ∧
    (∀ recs, adj.length = 0 →
      SIR_homogeneous_pairwise_from_graph_args A tau gamma none recs none tmin tmax tcount full
        = .error "ZeroDivisionError") := by
  refine ⟨fun infs recs r h => SIR_hom_pw_both A tau gamma infs recs r tmin tmax tcount full h,
    fun infs recs u hu hu' => ?_, fun infs recs u hd hu hf => ?_, fun recs hN => ?_⟩
  · exact SIR_hom_pw_sets_error A tau gamma infs recs tmin tmax tcount full _
      (C06c.gen_status_error_overlap A.toIArgs infs (recs.getD []) u hu hu')
  · exact SIR_hom_pw_sets_error A tau gamma infs recs tmin tmax tcount full _
      (C06c.gen_status_error_foreign A.toIArgs adj hG.hasNode infs (recs.getD []) hd u hu hf)
  · rw [SIR_hom_pw_rho A tau gamma recs none (by simp)]
    simp [rhoOr, nodes_length A.toIArgs adj hG, hN]

/-- (C) `S0 + I0 + R0 = N` in every non-error case -/
theorem SIR_homogeneous_pairwise_args_total (A : WArgs) (adj : List (List Nat)) (hG : GraphOK A.toIArgs adj)
    (tau gamma : Rat) (infs recs : Option (List Node)) (rho : Option Rat) (tmin tmax : Rat) (tcount : Int)
    (full : Bool) (a : SIR_homogeneous_pairwise_Args)
    (h : SIR_homogeneous_pairwise_from_graph_args A tau gamma infs recs rho tmin tmax tcount full = .ok a) :
    a.S0 + a.I0 + a.R0 = (adj.length : Rat) := by
  by_cases hb : rho.isSome ∧ (infs.isSome ∨ recs.isSome)
  · obtain ⟨r, rfl⟩ := Option.isSome_iff_exists.mp hb.1
    rw [SIR_hom_pw_both A tau gamma infs recs r tmin tmax tcount full hb.2] at h; cases h
  · cases infs with
    | some l =>
      have : rho = none := by
        cases rho with
        | none => rfl
        | some r => exact absurd ⟨rfl, Or.inl rfl⟩ hb
      subst this
      cases hst : initialize_node_status A.toIArgs l (recs.getD []) with
      | error e => rw [SIR_hom_pw_sets_error A tau gamma l recs tmin tmax tcount full e hst] at h; cases h
      | ok st =>
        rw [SIR_hom_pw_sets A tau gamma l recs tmin tmax tcount full st hst] at h
        injection h with h; subst h
        simp only [nodes_length A.toIArgs adj hG]; ring
    | none =>
      rw [SIR_hom_pw_rho A tau gamma recs rho (fun hh => hb ⟨hh.1, Or.inr hh.2⟩)] at h
      cases hr : rhoOr A rho with
      | error e => rw [hr] at h; cases h
      | ok r =>
        rw [hr] at h
        injection h with h; subst h
        simp only [nodes_length A.toIArgs adj hG]; ring

theorem SIR_homogeneous_pairwise_from_graph_inv (odeint : Solver) (A : WArgs) (tau gamma : Rat)
    (infs recs : Option (List Node)) (rho : Option Rat) (tmin tmax : Rat) (tcount : Int) (full : Bool) (l : List Ser)
    (h : SIR_homogeneous_pairwise_from_graph odeint A tau gamma infs recs rho tmin tmax tcount full = .ok l) :
    ∃ a, SIR_homogeneous_pairwise_from_graph_args A tau gamma infs recs rho tmin tmax tcount full = .ok a ∧
      GenGlue.SIR_homogeneous_pairwise odeint a.S0 a.I0 a.R0 a.SI0 a.SS0 a.n a.tau a.gamma a.tmin a.tmax
        a.tcount.toNat a.return_full_data = .ok l := by
  unfold SIR_homogeneous_pairwise_from_graph at h
  cases ha : SIR_homogeneous_pairwise_from_graph_args A tau gamma infs recs rho tmin tmax tcount full with
  | error e => rw [ha] at h; cases h
  | ok a => rw [ha] at h; exact ⟨a, rfl, h⟩

/-- (D) end to end, EVERY solver, EVERY time index, any request: `S + I + R = N` -/
theorem SIR_homogeneous_pairwise_from_graph_conserve (odeint : Solver) (A : WArgs) (adj : List (List Nat))
    (hG : GraphOK A.toIArgs adj) (tau gamma : Rat) (infs recs : Option (List Node)) (rho : Option Rat)
    (tmin tmax : Rat) (tcount : Int) (full : Bool) (l : List Ser)
    (h : SIR_homogeneous_pairwise_from_graph odeint A tau gamma infs recs rho tmin tmax tcount full = .ok l)
    (i : Nat) : get l 1 i + get l 2 i + get l 3 i = (adj.length : Rat) := by
  obtain ⟨a, ha, hl⟩ :=
    SIR_homogeneous_pairwise_from_graph_inv odeint A tau gamma infs recs rho tmin tmax tcount full l h
  rw [C06d.SIR_homogeneous_pairwise_conserve odeint _ _ _ _ _ _ _ _ _ _ _ _ l hl i]
  exact SIR_homogeneous_pairwise_args_total A adj hG tau gamma infs recs rho tmin tmax tcount full a ha

/-- (D) end to end: the returned `S`, `I`, `R` start from the requested state of the graph -/
theorem SIR_homogeneous_pairwise_from_graph_init (odeint : Solver) (h0 : RowZero odeint) (A : WArgs)
    (adj : List (List Nat)) (hG : GraphOK A.toIArgs adj) (tau gamma : Rat) (infs : List Node)
    (recs : Option (List Node)) (hS : SetsOK adj infs (recs.getD [])) (hi : infs.Nodup) (hr : (recs.getD []).Nodup)
    (tmin tmax : Rat) (tcount : Int) (full : Bool) (l : List Ser)
    (h : SIR_homogeneous_pairwise_from_graph odeint A tau gamma (some infs) recs none tmin tmax tcount full = .ok l) :
    get l 1 0 = (count adj (statusOf infs (recs.getD [])) St.S : Rat) ∧
    get l 2 0 = (infs.length : Rat) ∧ get l 3 0 = ((recs.getD []).length : Rat) ∧
    get l 2 0 = (count adj (statusOf infs (recs.getD [])) St.I : Rat) ∧
    get l 3 0 = (count adj (statusOf infs (recs.getD [])) St.R : Rat) := by
  obtain ⟨a, ha, hl⟩ := SIR_homogeneous_pairwise_from_graph_inv odeint A tau gamma _ _ _ tmin tmax tcount full l h
  obtain ⟨a', ha', e1, e2, -, e4, -⟩ :=
    SIR_homogeneous_pairwise_args_spec A adj hG tau gamma infs recs hS tmin tmax tcount full
  rw [ha] at ha'; injection ha' with ha'; subst ha'
  obtain ⟨i1, i2, i3⟩ := C06d.SIR_homogeneous_pairwise_init odeint h0 _ _ _ _ _ _ _ _ _ _ _ _ l hl
  obtain ⟨c1, c2, c3⟩ := e4 hi hr
  exact ⟨i1.trans c3, i2.trans e1, i3.trans e2, i2.trans c1, i3.trans c2⟩

/-! ## 5. `SIS/SIR_heterogeneous_meanfield_from_graph` -/

theorem sumTo_ofList (l : List Rat) : ODE.sumTo (V.ofList l).n (V.ofList l).f = l.sum := by
  unfold ODE.sumTo
  rw [sumRat_eq_sum]
  congr 1
  apply List.ext_getElem
  · simp
  · intro i h1 h2
    simp at h1
    simp [V.ofList, List.getD_eq_getElem?_getD, h1]

/-- (A) SIR, explicit disjoint sets of graph nodes: `Sk0/Ik0/Rk0[k]` = number of nodes of degree `k` and status
`S/I/R`, `k = 0..maxdeg` -/
theorem SIR_heterogeneous_meanfield_args_spec (A : WArgs) (adj : List (List Nat)) (hG : GraphOK A.toIArgs adj)
    (tau gamma : Rat) (infs : List Node) (recs : Option (List Node)) (hS : SetsOK adj infs (recs.getD []))
    (hN : adj.length ≠ 0) (tmin tmax : Rat) (tcount : Int) (full : Bool) :
    SIR_heterogeneous_meanfield_from_graph_args A tau gamma (some infs) recs none tmin tmax tcount full =
      .ok { Sk0 := vec (maxDeg adj) (fun k => (classCount adj (statusOf infs (recs.getD [])) St.S k : Rat)),
            Ik0 := vec (maxDeg adj) (fun k => (classCount adj (statusOf infs (recs.getD [])) St.I k : Rat)),
            Rk0 := vec (maxDeg adj) (fun k => (classCount adj (statusOf infs (recs.getD [])) St.R k : Rat)),
            tau := tau, gamma := gamma, tmin := tmin, tmax := tmax, tcount := tcount, return_full_data := full } := by
  have hne : A.nodes ≠ [] := by
    intro e
    have := nodes_length A.toIArgs adj hG
    rw [e] at this; exact hN this.symm
  rw [SIR_het_mf_closed, arrays_closed]
  simp only [Option.isSome_none, false_and, if_false, Bool.true_eq_false, hne,
    C06c.gen_sets_eq_vec A.toIArgs adj hG infs (recs.getD []) hS.disj hS.infIn hS.recIn]
  rfl

/-- (A) SIS, explicit set of graph nodes -/
theorem SIS_heterogeneous_meanfield_args_spec (A : WArgs) (adj : List (List Nat)) (hG : GraphOK A.toIArgs adj)
    (tau gamma : Rat) (infs : List Node) (hin : ∀ u ∈ infs, u < adj.length)
    (hN : adj.length ≠ 0) (tmin tmax : Rat) (tcount : Int) (full : Bool) :
    SIS_heterogeneous_meanfield_from_graph_args A tau gamma (some infs) none tmin tmax tcount full =
      .ok { Sk0 := vec (maxDeg adj) (fun k => (classCount adj (statusOf infs []) St.S k : Rat)),
            Ik0 := vec (maxDeg adj) (fun k => (classCount adj (statusOf infs []) St.I k : Rat)),
            tau := tau, gamma := gamma, tmin := tmin, tmax := tmax, tcount := tcount, return_full_data := full } := by
  have hne : A.nodes ≠ [] := by
    intro e
    have := nodes_length A.toIArgs adj hG
    rw [e] at this; exact hN this.symm
  have hS := SetsOK.nil_recs (adj := adj) hin
  rw [SIS_het_mf_closed, arrays_closed]
  simp only [Option.isSome_none, false_and, and_false, if_false, hne, Option.getD_none,
    C06c.gen_sets_eq_vec A.toIArgs adj hG infs [] hS.disj hS.infIn hS.recIn]
  rfl

/-- (A) without initial sets: `rho` (default `1/N`): `Sk0[k] = (1-rho)·N_k`, `Ik0[k] = rho·N_k`, `Rk0 = 0` -/
theorem SIR_heterogeneous_meanfield_args_rho (A : WArgs) (adj : List (List Nat)) (hG : GraphOK A.toIArgs adj)
    (tau gamma : Rat) (rho : Option Rat) (hN : adj.length ≠ 0) (tmin tmax : Rat) (tcount : Int) (full : Bool) :
    SIR_heterogeneous_meanfield_from_graph_args A tau gamma none none rho tmin tmax tcount full =
      .ok { Sk0 := vec (maxDeg adj) (fun k => rhoSk adj (rho.getD (1 / (adj.length : Rat))) k),
            Ik0 := vec (maxDeg adj) (fun k => rhoIk adj (rho.getD (1 / (adj.length : Rat))) k),
            Rk0 := vec (maxDeg adj) (fun _ => 0),
            tau := tau, gamma := gamma, tmin := tmin, tmax := tmax, tcount := tcount, return_full_data := full } := by
  have hne : A.nodes ≠ [] := by
    intro e
    have := nodes_length A.toIArgs adj hG
    rw [e] at this; exact hN this.symm
  rw [SIR_het_mf_closed, arrays_closed]
  simp only [Option.isSome_none, Bool.false_eq_true, and_false, if_false, Bool.true_eq_false, false_and, hne,
    C06c.gen_rho_eq_vec A.toIArgs adj hG, nodes_length A.toIArgs adj hG]
  rfl

theorem SIS_heterogeneous_meanfield_args_rho (A : WArgs) (adj : List (List Nat)) (hG : GraphOK A.toIArgs adj)
    (tau gamma : Rat) (rho : Option Rat) (hN : adj.length ≠ 0) (tmin tmax : Rat) (tcount : Int) (full : Bool) :
    SIS_heterogeneous_meanfield_from_graph_args A tau gamma none rho tmin tmax tcount full =
      .ok { Sk0 := vec (maxDeg adj) (fun k => rhoSk adj (rho.getD (1 / (adj.length : Rat))) k),
            Ik0 := vec (maxDeg adj) (fun k => rhoIk adj (rho.getD (1 / (adj.length : Rat))) k),
            tau := tau, gamma := gamma, tmin := tmin, tmax := tmax, tcount := tcount, return_full_data := full } := by
  have hne : A.nodes ≠ [] := by
    intro e
    have := nodes_length A.toIArgs adj hG
    rw [e] at this; exact hN this.symm
  rw [SIS_het_mf_closed, arrays_closed]
  simp only [Option.isSome_none, Bool.false_eq_true, and_false, if_false, hne,
    C06c.gen_rho_eq_vec A.toIArgs adj hG, nodes_length A.toIArgs adj hG]
  rfl

/-- (B) SIR: `EoNError` for `rho` with a set, ValueError (NOT ZeroDivisionError: `max` of no degrees comes before
`1/N`) for a graph without nodes, `EoNError` of the status builder (overlap / foreign node) afterwards -/
theorem SIR_heterogeneous_meanfield_args_error (A : WArgs) (tau gamma : Rat) (infs recs : Option (List Node))
    (rho : Option Rat) (tmin tmax : Rat) (tcount : Int) (full : Bool) :
    (rho.isSome ∧ (infs.isSome ∨ recs.isSome) →
      SIR_heterogeneous_meanfield_from_graph_args A tau gamma infs recs rho tmin tmax tcount full
        = .error "EoNError") ∧
    (¬ (rho.isSome ∧ (infs.isSome ∨ recs.isSome)) → A.nodes = [] →
      SIR_heterogeneous_meanfield_from_graph_args A tau gamma infs recs rho tmin tmax tcount full
        = .error "ValueError") ∧
    (∀ l e, infs = some l → rho = none → A.nodes ≠ [] →
      initialize_node_status A.toIArgs l (recs.getD []) = .error e →
      SIR_heterogeneous_meanfield_from_graph_args A tau gamma infs recs rho tmin tmax tcount full = .error e) ∧
    (infs = none → ¬ (rho.isSome ∧ recs.isSome) → A.nodes ≠ [] →
      ∃ a, SIR_heterogeneous_meanfield_from_graph_args A tau gamma infs recs rho tmin tmax tcount full = .ok a) := by
  rw [SIR_het_mf_closed, arrays_closed]
  refine ⟨fun h => ?_, fun h hN => ?_, fun l e hl hr hN he => ?_, fun hi hrr hN => ?_⟩
  · by_cases h1 : rho.isSome ∧ infs.isSome
    · rw [if_pos h1]; rfl
    · rw [if_neg h1, if_pos]
      · rfl
      · rcases h with ⟨hr, hi | hr'⟩
        · exact absurd ⟨hr, hi⟩ h1
        · exact ⟨hr, hr'⟩
  · rw [if_neg (fun h1 => h ⟨h1.1, Or.inl h1.2⟩), if_neg (fun h1 => h ⟨h1.1, Or.inr h1.2⟩), if_neg (by simp),
      if_pos hN]; rfl
  · subst hl; subst hr
    simp only [Option.isSome_none, false_and, if_false, Bool.true_eq_false, hN, C06c.gen_sets_error _ _ _ e he]
    rfl
  · subst hi
    simp only [Option.isSome_none, Bool.false_eq_true, and_false, if_false, Bool.true_eq_false, false_and, hN, hrr]
    exact ⟨_, rfl⟩

/-- (C) SIR: `Σ_k (Sk0 + Ik0 + Rk0)[k] = N`, and the class sums are the status counts -/
theorem SIR_heterogeneous_meanfield_args_total (A : WArgs) (adj : List (List Nat)) (hG : GraphOK A.toIArgs adj)
    (tau gamma : Rat) (infs : List Node) (recs : Option (List Node)) (hS : SetsOK adj infs (recs.getD []))
    (tmin tmax : Rat) (tcount : Int) (full : Bool) (a : SIR_heterogeneous_meanfield_Args)
    (h : SIR_heterogeneous_meanfield_from_graph_args A tau gamma (some infs) recs none tmin tmax tcount full = .ok a) :
    a.Sk0.sum + a.Ik0.sum + a.Rk0.sum = (adj.length : Rat) ∧
    a.Sk0.sum = (count adj (statusOf infs (recs.getD [])) St.S : Rat) ∧
    a.Ik0.sum = (count adj (statusOf infs (recs.getD [])) St.I : Rat) ∧
    a.Rk0.sum = (count adj (statusOf infs (recs.getD [])) St.R : Rat) := by
  have hN : adj.length ≠ 0 := by
    intro e
    have hne : A.nodes = [] := List.length_eq_zero_iff.mp (by rw [nodes_length A.toIArgs adj hG]; exact e)
    rw [(SIR_heterogeneous_meanfield_args_error A tau gamma (some infs) recs none tmin tmax tcount full).2.1
      (by simp) hne] at h
    cases h
  rw [SIR_heterogeneous_meanfield_args_spec A adj hG tau gamma infs recs hS hN] at h
  injection h with h; subst h
  obtain ⟨t1, -, t2, t3, t4⟩ := C06c.gen_sets_total A.toIArgs adj hG infs (recs.getD []) hS.disj hS.infIn hS.recIn
    _ _ _ _ (C06c.gen_sets_eq_vec A.toIArgs adj hG infs (recs.getD []) hS.disj hS.infIn hS.recIn)
  exact ⟨t1, t2, t3, t4⟩

/-- (C) rho branch: `Σ_k (Sk0 + Ik0)[k] = N`, `Σ Rk0 = 0` -/
theorem SIR_heterogeneous_meanfield_args_total_rho (A : WArgs) (adj : List (List Nat)) (hG : GraphOK A.toIArgs adj)
    (tau gamma : Rat) (rho : Option Rat) (hN : adj.length ≠ 0) (tmin tmax : Rat) (tcount : Int) (full : Bool)
    (a : SIR_heterogeneous_meanfield_Args)
    (h : SIR_heterogeneous_meanfield_from_graph_args A tau gamma none none rho tmin tmax tcount full = .ok a) :
    a.Sk0.sum + a.Ik0.sum + a.Rk0.sum = (adj.length : Rat) ∧
    a.Sk0.sum = rhoS adj (rho.getD (1 / (adj.length : Rat))) ∧
    a.Ik0.sum = rhoI adj (rho.getD (1 / (adj.length : Rat))) := by
  rw [SIR_heterogeneous_meanfield_args_rho A adj hG tau gamma rho hN] at h
  injection h with h; subst h
  have := C06c.gen_rho_total A.toIArgs adj hG (rho.getD (1 / (adj.length : Rat)))
  rw [C06c.gen_rho_eq_vec A.toIArgs adj hG] at this
  obtain ⟨t1, t2, t3, t4⟩ := this
  refine ⟨?_, t2, t3⟩
  simp only [] at t1 t4 ⊢
  rw [t4, add_zero]; exact t1

theorem SIR_heterogeneous_meanfield_from_graph_inv (odeint : Solver) (A : WArgs) (tau gamma : Rat)
    (infs recs : Option (List Node)) (rho : Option Rat) (tmin tmax : Rat) (tcount : Int) (full : Bool) (l : List Ser)
    (h : SIR_heterogeneous_meanfield_from_graph odeint A tau gamma infs recs rho tmin tmax tcount full = .ok l) :
    ∃ a, SIR_heterogeneous_meanfield_from_graph_args A tau gamma infs recs rho tmin tmax tcount full = .ok a ∧
      GenGlue.SIR_heterogeneous_meanfield odeint (V.ofList a.Sk0) (V.ofList a.Ik0) (V.ofList a.Rk0) a.tau a.gamma
        a.tmin a.tmax a.tcount.toNat a.return_full_data = .ok l := by
  unfold SIR_heterogeneous_meanfield_from_graph at h
  cases ha : SIR_heterogeneous_meanfield_from_graph_args A tau gamma infs recs rho tmin tmax tcount full with
  | error e => rw [ha] at h; cases h
  | ok a => rw [ha] at h; exact ⟨a, rfl, h⟩

/-- (D) end to end (`return_full_data=False`), EVERY solver: `S + I + R = N` at EVERY time index, and with
`odeint rhs X0 0 = X0` the series start from the status counts of the graph -/
theorem SIR_heterogeneous_meanfield_from_graph_init_conserve (odeint : Solver) (A : WArgs)
    (adj : List (List Nat)) (hG : GraphOK A.toIArgs adj) (tau gamma : Rat) (infs : List Node)
    (recs : Option (List Node)) (hS : SetsOK adj infs (recs.getD []))
    (tmin tmax : Rat) (tcount : Int) (l : List Ser)
    (h : SIR_heterogeneous_meanfield_from_graph odeint A tau gamma (some infs) recs none tmin tmax tcount false
      = .ok l) :
    (∀ i, get l 1 i + get l 2 i + get l 3 i = (adj.length : Rat)) ∧
    (RowZero odeint →
      get l 1 0 = (count adj (statusOf infs (recs.getD [])) St.S : Rat) ∧
      get l 2 0 = (count adj (statusOf infs (recs.getD [])) St.I : Rat) ∧
      get l 3 0 = (count adj (statusOf infs (recs.getD [])) St.R : Rat) ∧
      (infs.Nodup → (recs.getD []).Nodup →
        get l 2 0 = (infs.length : Rat) ∧ get l 3 0 = ((recs.getD []).length : Rat))) := by
  obtain ⟨a, ha, hl⟩ := SIR_heterogeneous_meanfield_from_graph_inv odeint A tau gamma _ _ _ tmin tmax tcount false l h
  obtain ⟨t1, t2, t3, t4⟩ := SIR_heterogeneous_meanfield_args_total A adj hG tau gamma infs recs hS tmin tmax tcount
    false a ha
  have hf : a.return_full_data = false := by
    have hN : adj.length ≠ 0 := by
      intro e
      have hne : A.nodes = [] := List.length_eq_zero_iff.mp (by rw [nodes_length A.toIArgs adj hG]; exact e)
      rw [(SIR_heterogeneous_meanfield_args_error A tau gamma (some infs) recs none tmin tmax tcount false).2.1
        (by simp) hne] at ha
      cases ha
    rw [SIR_heterogeneous_meanfield_args_spec A adj hG tau gamma infs recs hS hN] at ha
    injection ha with ha; subst ha; rfl
  rw [hf] at hl
  refine ⟨fun i => ?_, fun h0 => ?_⟩
  · rw [C06d.SIR_heterogeneous_meanfield_conserve odeint _ _ _ _ _ _ _ _ l hl i, sumTo_ofList, sumTo_ofList,
      sumTo_ofList]
    exact t1
  · obtain ⟨i1, i2, i3⟩ := C06d.SIR_heterogeneous_meanfield_init odeint h0 _ _ _ _ _ _ _ _ l hl
    rw [sumTo_ofList] at i1 i2 i3
    refine ⟨i1.trans t2, i2.trans t3, i3.trans t4, fun hi hr => ?_⟩
    obtain ⟨cI, cR, -⟩ := request_counts adj infs (recs.getD []) hS hi hr
    exact ⟨(i2.trans t3).trans cI, (i3.trans t4).trans cR⟩

/-! ## 6. `SIS/SIR_compact_pairwise_from_graph` (explicit sets) -/

/-- (A) SIS: class vectors and the three ordered-pair counts (`SS0`, `II0` count every edge twice, `SI0` once) -/
theorem SIS_compact_pairwise_args_spec (A : WArgs) (adj : List (List Nat)) (hG : GraphOK A.toIArgs adj)
    (tau gamma : Rat) (infs : List Node) (hin : ∀ u ∈ infs, u < adj.length)
    (hN : adj.length ≠ 0) (tmin tmax : Rat) (tcount : Int) (full : Bool) :
    SIS_compact_pairwise_from_graph_args A tau gamma (some infs) none tmin tmax tcount full =
      .ok { Sk0 := vec (maxDeg adj) (fun k => (classCount adj (statusOf infs []) St.S k : Rat)),
            Ik0 := vec (maxDeg adj) (fun k => (classCount adj (statusOf infs []) St.I k : Rat)),
            SI0 := (pairCount adj (statusOf infs []) St.S St.I : Rat),
            SS0 := (pairCount adj (statusOf infs []) St.S St.S : Rat),
            II0 := (pairCount adj (statusOf infs []) St.I St.I : Rat),
            tau := tau, gamma := gamma, tmin := tmin, tmax := tmax, tcount := tcount, return_full_data := full } := by
  have hne : A.nodes ≠ [] := by
    intro e
    have := nodes_length A.toIArgs adj hG
    rw [e] at this; exact hN this.symm
  have hS := SetsOK.nil_recs (adj := adj) hin
  rw [SIS_cp_sets, if_neg hne, C06c.gen_sets_eq_vec A.toIArgs adj hG infs [] hS.disj hS.infIn hS.recIn,
    C06c.gen_count_edges_eq A.toIArgs adj hG infs [] hS.disj hS.infIn hS.recIn]
  simp [GenHelpProofs.ok_bind]

/-- (A) SIR: `Sk0` class vector, `I0`/`R0` = number of infected / recovered nodes (sums of the class vectors),
`SS0`, `SI0` ordered-pair counts -/
theorem SIR_compact_pairwise_args_spec (A : WArgs) (adj : List (List Nat)) (hG : GraphOK A.toIArgs adj)
    (tau gamma : Rat) (infs : List Node) (recs : Option (List Node)) (hS : SetsOK adj infs (recs.getD []))
    (hN : adj.length ≠ 0) (tmin tmax : Rat) (tcount : Int) (full : Bool) :
    ∃ a, SIR_compact_pairwise_from_graph_args A tau gamma (some infs) recs none tmin tmax tcount full = .ok a ∧
      a.Sk0 = vec (maxDeg adj) (fun k => (classCount adj (statusOf infs (recs.getD [])) St.S k : Rat)) ∧
      a.Sk0.sum = (count adj (statusOf infs (recs.getD [])) St.S : Rat) ∧
      a.I0 = (count adj (statusOf infs (recs.getD [])) St.I : Rat) ∧
      a.R0 = (count adj (statusOf infs (recs.getD [])) St.R : Rat) ∧
      (infs.Nodup → (recs.getD []).Nodup → a.I0 = (infs.length : Rat) ∧ a.R0 = ((recs.getD []).length : Rat)) ∧
      a.SS0 = (pairCount adj (statusOf infs (recs.getD [])) St.S St.S : Rat) ∧
      a.SI0 = (pairCount adj (statusOf infs (recs.getD [])) St.S St.I : Rat) ∧
      a.Sk0.sum + a.I0 + a.R0 = (adj.length : Rat) ∧ a.return_full_data = full := by
  have hne : A.nodes ≠ [] := by
    intro e
    have := nodes_length A.toIArgs adj hG
    rw [e] at this; exact hN this.symm
  have hv := C06c.gen_sets_eq_vec A.toIArgs adj hG infs (recs.getD []) hS.disj hS.infIn hS.recIn
  obtain ⟨t1, -, t2, t3, t4⟩ := C06c.gen_sets_total A.toIArgs adj hG infs (recs.getD []) hS.disj hS.infIn hS.recIn
    _ _ _ _ hv
  rw [SIR_cp_sets, if_neg hne, hv,
    C06c.gen_count_edges_eq A.toIArgs adj hG infs (recs.getD []) hS.disj hS.infIn hS.recIn]
  refine ⟨_, rfl, rfl, t2, ?_, ?_, ?_, ?_, ?_, ?_, rfl⟩
  · simp only [sumRat_eq_sum]; exact t3
  · simp only [sumRat_eq_sum]; exact t4
  · intro hi hr
    obtain ⟨cI, cR, -⟩ := request_counts adj infs (recs.getD []) hS hi hr
    simp only [sumRat_eq_sum]
    exact ⟨t3.trans cI, t4.trans cR⟩
  · simp
  · simp
  · simp only [sumRat_eq_sum]; exact t1

theorem SIR_compact_pairwise_from_graph_inv (odeint : Solver) (A : WArgs) (tau gamma : Rat)
    (infs recs : Option (List Node)) (rho : Option Rat) (tmin tmax : Rat) (tcount : Int) (full : Bool) (l : List Ser)
    (h : SIR_compact_pairwise_from_graph odeint A tau gamma infs recs rho tmin tmax tcount full = .ok l) :
    ∃ a, SIR_compact_pairwise_from_graph_args A tau gamma infs recs rho tmin tmax tcount full = .ok a ∧
      GenGlue.SIR_compact_pairwise odeint (V.ofList a.Sk0) a.I0 a.R0 a.SS0 a.SI0 a.tau a.gamma
        a.tmin a.tmax a.tcount.toNat a.return_full_data = .ok l := by
  unfold SIR_compact_pairwise_from_graph at h
  cases ha : SIR_compact_pairwise_from_graph_args A tau gamma infs recs rho tmin tmax tcount full with
  | error e => rw [ha] at h; cases h
  | ok a => rw [ha] at h; exact ⟨a, rfl, h⟩

/-- (D) end to end (`return_full_data=False`), EVERY solver: `S + I + R = N` at EVERY time index, and with
`odeint rhs X0 0 = X0` the series start from the status counts of the graph -/
theorem SIR_compact_pairwise_from_graph_init_conserve (odeint : Solver) (A : WArgs)
    (adj : List (List Nat)) (hG : GraphOK A.toIArgs adj) (tau gamma : Rat) (infs : List Node)
    (recs : Option (List Node)) (hS : SetsOK adj infs (recs.getD [])) (hN : adj.length ≠ 0)
    (tmin tmax : Rat) (tcount : Int) (l : List Ser)
    (h : SIR_compact_pairwise_from_graph odeint A tau gamma (some infs) recs none tmin tmax tcount false = .ok l) :
    (∀ i, get l 1 i + get l 2 i + get l 3 i = (adj.length : Rat)) ∧
    (RowZero odeint →
      get l 1 0 = (count adj (statusOf infs (recs.getD [])) St.S : Rat) ∧
      get l 2 0 = (count adj (statusOf infs (recs.getD [])) St.I : Rat) ∧
      get l 3 0 = (count adj (statusOf infs (recs.getD [])) St.R : Rat) ∧
      (infs.Nodup → (recs.getD []).Nodup →
        get l 2 0 = (infs.length : Rat) ∧ get l 3 0 = ((recs.getD []).length : Rat))) := by
  obtain ⟨a, ha, hl⟩ := SIR_compact_pairwise_from_graph_inv odeint A tau gamma _ _ _ tmin tmax tcount false l h
  obtain ⟨a', ha', -, e2, e3, e4, e5, -, -, e8, e9⟩ :=
    SIR_compact_pairwise_args_spec A adj hG tau gamma infs recs hS hN tmin tmax tcount false
  rw [ha] at ha'; injection ha' with ha'; subst ha'
  rw [e9] at hl
  refine ⟨fun i => ?_, fun h0 => ?_⟩
  · rw [C06d.SIR_compact_pairwise_conserve odeint _ _ _ _ _ _ _ _ _ _ l hl i, sumTo_ofList]
    exact e8
  · obtain ⟨i1, i2, i3⟩ := C06d.SIR_compact_pairwise_init odeint h0 _ _ _ _ _ _ _ _ _ _ l hl
    rw [sumTo_ofList] at i1
    refine ⟨i1.trans e2, i2.trans e3, i3.trans e4, fun hi hr => ?_⟩
    exact ⟨i2.trans (e5 hi hr).1, i3.trans (e5 hi hr).2⟩

/-! ## 7. non-vacuity: the triangle 0–1–2 with the pendant node 3 of C06c -/

/-- the graph of C06c as the wrappers read it -/
def exW : WArgs := { C06c.exA with neighbors := fun u => C06c.exAdj.getD u [] }

theorem exW_ok : GraphOK exW.toIArgs C06c.exAdj := C06c.exOK

/-- node 0 infected, node 3 recovered: `S0 I0 R0 SI0 SS0 n = 2 1 1 2 2 2` (edges 0–1, 0–2 are S–I, edge 1–2 is S–S and
counts twice, `n = 8/4`) -/
example : ((SIR_homogeneous_pairwise_from_graph_args exW 1 1 (some [0]) (some [3]) none 0 10 11 false).toOption.map
    fun a => (a.S0, a.I0, a.R0, a.SI0, a.SS0, a.n)) = some (2, 1, 1, 2, 2, 2) := by decide +kernel
/-- the default: ONE infected node for the homogeneous mean-field wrapper … -/
example : ((SIS_homogeneous_meanfield_from_graph_args exW 1 1 none none 0 10 11).toOption.map
    fun a => (a.S0, a.I0, a.n)) = some (3, 1, 2) := by decide +kernel
/-- … and `rho = 1/N` for the pairwise wrapper: `S0 I0 SI0 SS0 = 3 1 3/2 9/2` -/
example : ((SIS_homogeneous_pairwise_from_graph_args exW 1 1 none none 0 10 11 false).toOption.map
    fun a => (a.S0, a.I0, a.SI0, a.SS0, a.n)) = some (3, 1, 3 / 2, 9 / 2, 2) := by decide +kernel
/-- class vectors over degrees `0..3` -/
example : ((SIR_heterogeneous_meanfield_from_graph_args exW 1 1 (some [0]) (some [3]) none 0 10 11 false).toOption.map
    fun a => (a.Sk0, a.Ik0, a.Rk0)) = some ([0, 0, 1, 1], [0, 0, 1, 0], [0, 1, 0, 0]) := by decide +kernel
example : ((SIR_compact_pairwise_from_graph_args exW 1 1 (some [0]) (some [3]) none 0 10 11 false).toOption.map
    fun a => (a.Sk0, a.I0, a.R0, a.SS0, a.SI0)) = some ([0, 0, 1, 1], 1, 1, 2, 2) := by decide +kernel
/-- error cases: `rho` with a set; node 1 in both sets; a foreign node; the empty graph -/
example : (match SIR_homogeneous_pairwise_from_graph_args exW 1 1 (some [0]) none (some (1 / 4)) 0 10 11 false with
    | .error e => e == "EoNError" | .ok _ => false) = true := by decide +kernel
example : (match SIR_homogeneous_pairwise_from_graph_args exW 1 1 (some [0, 1]) (some [1]) none 0 10 11 false with
    | .error e => e == "EoNError" | .ok _ => false) = true := by decide +kernel
example : (match SIS_compact_pairwise_from_graph_args exW 1 1 (some [7]) none 0 10 11 false with
    | .error e => e == "EoNError" | .ok _ => false) = true := by decide +kernel
def emptyW : WArgs := { nodes := [], edges := [], degree := fun _ => 0, hasNode := fun _ => false,
                        neighbors := fun _ => [] }
example : (match SIS_homogeneous_meanfield_from_graph_args emptyW 1 1 none none 0 10 11 with
    | .error e => e == "ZeroDivisionError" | .ok _ => false) = true := by decide +kernel
/-- the heterogeneous wrapper raises ValueError (`max` of no degrees) on the empty graph, the compact pairwise wrapper
ZeroDivisionError (it computes the default `rho = 1/N` first) -/
example : (match SIS_heterogeneous_meanfield_from_graph_args emptyW 1 1 none none 0 10 11 false with
    | .error e => e == "ValueError" | .ok _ => false) = true := by decide +kernel
example : (match SIS_compact_pairwise_from_graph_args emptyW 1 1 none none 0 10 11 false with
    | .error e => e == "ZeroDivisionError" | .ok _ => false) = true := by decide +kernel
/-- the homogeneous mean-field wrappers do not validate the sets: a foreign node and an overlap are accepted, and a
repeated node is counted twice (`I0 = 3`, `S0 = 1` on four nodes with ONE infected node in the status map) -/
example : ((SIR_homogeneous_meanfield_from_graph_args exW 1 1 (some [0, 0, 7]) (some [0]) none 0 10 11).toOption.map
    fun a => (a.S0, a.I0, a.R0)) = some (0, 3, 1) := by decide +kernel
/-- `Nodup` is necessary in `…_args_spec` / `…_from_graph_init`: `I0 = len = 2` but one infected node; the pair counts
are those of the status map (one infected node) -/
example : ((SIS_homogeneous_pairwise_from_graph_args exW 1 1 (some [0, 0]) none 0 10 11 false).toOption.map
    fun a => (a.S0, a.I0, a.SI0, a.SS0)) = some (2, 2, 2, 4) ∧ count C06c.exAdj (statusOf [0, 0] []) St.I = 1 := by
  constructor <;> decide +kernel
/-- `initial_recovereds` without `initial_infecteds` (and without `rho`) is silently ignored by the pairwise wrapper -/
example : ((SIR_homogeneous_pairwise_from_graph_args exW 1 1 none (some [3]) none 0 10 11 false).toOption.map
    fun a => (a.S0, a.I0, a.R0)) = some (3, 1, 0) := by decide +kernel
/-- the theorems instantiated; end to end with the toy solver of C06d -/
example : ∃ a, SIR_homogeneous_pairwise_from_graph_args exW 1 1 (some [0]) (some [3]) none 0 10 11 false = .ok a ∧
    a.SI0 = (pairCount C06c.exAdj (statusOf [0] [3]) St.S St.I : Rat) := by
  obtain ⟨a, h, -, -, -, -, h5, -⟩ := SIR_homogeneous_pairwise_args_spec exW C06c.exAdj exW_ok 1 1 [0] (some [3])
    ⟨by decide, by decide, by decide⟩ 0 10 11 false
  exact ⟨a, h, h5⟩
example : ∃ l, SIR_homogeneous_meanfield_from_graph toyOdeint exW 1 1 (some [0]) (some [3]) none 0 10 11 = .ok l ∧
    (∀ i, get l 1 i + get l 2 i + get l 3 i = 4) ∧ get l 1 0 = 2 ∧ get l 2 0 = 1 ∧ get l 3 0 = 1 := by
  have hex : ∃ l, SIR_homogeneous_meanfield_from_graph toyOdeint exW 1 1 (some [0]) (some [3]) none 0 10 11 = .ok l :=
    ⟨_, rfl⟩
  obtain ⟨l, h⟩ := hex
  have hc := SIR_homogeneous_meanfield_from_graph_conserve toyOdeint exW 1 1 _ _ _ 0 10 11 l h
  obtain ⟨-, i2, i3, -, -⟩ := SIR_homogeneous_meanfield_from_graph_init toyOdeint toyOdeint_zero exW C06c.exAdj exW_ok
    1 1 [0] (some [3]) ⟨by decide, by decide, by decide⟩ (by decide) (by decide) 0 10 11 l h
  have h4 : ((exW.nodes.length : Nat) : Rat) = 4 := by decide +kernel
  have hs := hc 0
  rw [h4] at hc hs
  refine ⟨l, h, hc, ?_, ?_, ?_⟩
  · rw [i2, i3] at hs; simp at hs; linarith
  · rw [i2]; simp
  · rw [i3]; simp

end GenWrapProps

section
open GenWrapProps
end
