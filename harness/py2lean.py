#!/usr/bin/env python3
"""py2lean — translator from the NumPy-subset used by the 1-D ODE right-hand sides of EoN/analytic.py to Lean 4.

On every run the source of each listed function is read from /repo's working tree (ast), translated, and written to
lean/EoNVerif/Gen/Analytic.lean; `Proofs/GenEq.lean` proves each generated function equal to the hand-written model
(`Model/ODE.lean`) that all C06/C07/C08 theorems are stated about.  A semantic change of a right-hand side therefore
breaks a proof obligation (`gen_*` theorem), an unsupported construct breaks the translation; both are reported by
check.py, which then searches for a failing input with the sampling correspondence.

Supported subset (anything else raises Unsupported):
  statements : assignment to a name / tuple of names, `if c: x = e [else: x = e']`, `return e`
  scalars    : + - * / unary-, ** <int literal>, numeric literals, float(e), calls of a function parameter f(e),
               v[i], len(v), sum(v), v.sum(), v.dot(w), comparisons == 0
  vectors    : parameters declared 'V', X[:a], X[a:], X[:-c], X[-c:], np.array(v), np.arange(n), pointwise
               + - * / with scalar broadcasting, s ** ks (ks an arange), shift(v, -1) (zero fill),
               np.array([s,..]), np.concatenate((v|[s,..], ...), axis=0)
Vectors are `Gen.V` = (length, index function); a vector expression is compiled pointwise.
The parameter kinds (scalar / vector / nat / function) are the only hand-supplied input (SIGS).
"""
import ast, sys, os, hashlib

REPO = os.environ.get("EON_REPO", "/repo")

class Unsupported(Exception):
    pass

# name -> (lean name, [(param, kind)])   kinds: S scalar, V vector, N nat, F scalar function, - ignored
SIGS = {
    "_dSIS_homogeneous_meanfield_": ("dSIS_homogeneous_meanfield", "X:V t:- n_over_N:S tau:S gamma:S"),
    "_dSIR_homogeneous_meanfield_": ("dSIR_homogeneous_meanfield", "X:V t:- n_over_N:S tau:S gamma:S"),
    "_dSIS_homogeneous_pairwise_": ("dSIS_homogeneous_pairwise", "X:V t:- N:S n:S tau:S gamma:S"),
    "_dSIR_homogeneous_pairwise_": ("dSIR_homogeneous_pairwise", "X:V t:- n:S tau:S gamma:S"),
    "_dSIS_heterogeneous_meanfield_": ("dSIS_heterogeneous_meanfield", "X:V t:- kcount:N tau:S gamma:S"),
    "_dSIR_heterogeneous_meanfield_": ("dSIR_heterogeneous_meanfield", "X:V t:- S0:V Nk:V tau:S gamma:S"),
    "_dSIS_compact_pairwise_": ("dSIS_compact_pairwise", "X:V t:- Nk:V twoM:S tau:S gamma:S"),
    "_dSIR_compact_pairwise_": ("dSIR_compact_pairwise", "X:V t:- N:S tau:S gamma:S"),
    "_dSIS_super_compact_pairwise_": ("dSIS_super_compact_pairwise",
                                      "X:V t:- tau:S gamma:S N:S k_ave:S ksquare_ave:S kcube_ave:S"),
    "_dSIR_super_compact_pairwise_": ("dSIR_super_compact_pairwise",
                                      "X:V t:- tau:S gamma:S psihat:F psihatPrime:F psihatDPrime:F N:S"),
    "_dSIR_compact_effective_degree_": ("dSIR_compact_effective_degree", "X:V t:- N:S tau:S gamma:S"),
    "_dEBCM_": ("dEBCM", "X:V t:- N:S tau:S gamma:S psihat:F psihatPrime:F phiS0:S phiR0:S"),
}

def lit(v):
    if isinstance(v, bool):
        raise Unsupported("bool literal")
    if isinstance(v, int):
        return f"({v} : Rat)"
    if isinstance(v, float):
        if v == int(v):
            return f"({int(v)} : Rat)"
        from fractions import Fraction
        fr = Fraction(repr(v))
        return f"(({fr.numerator} : Rat) / {fr.denominator})"
    raise Unsupported(f"literal {v!r}")

class Fn:
    def __init__(self, node, lean_name, sig):
        self.node, self.lean_name = node, lean_name
        self.kinds = {}
        self.params = []
        for item in sig.split():
            p, k = item.split(":")
            self.params.append((p, k))
        names = [a.arg for a in node.args.args]
        if names != [p for p, _ in self.params]:
            raise Unsupported(f"{node.name}: parameter list changed: {names}")
        self.env = {}      # python name -> kind  ('S','V','N','F','A' arange)
        self.lines = []
        self.counter = {}
        for p, k in self.params:
            if k != "-":
                self.env[p] = k
        self.cur = {p: p for p, k in self.params if k != "-"}   # python name -> current lean name (SSA)

    # ---------- names (SSA renaming for reassigned variables)
    def fresh(self, name):
        n = self.counter.get(name, 0)
        self.counter[name] = n + 1
        base = name if not name.startswith("_") else "u" + name
        return base if n == 0 and name not in [p for p, _ in self.params] else f"{base}_{n}"

    def bind(self, name, kind, term, ty=None):
        ln = self.fresh(name)
        ty = ty or {"S": "Rat", "V": "V", "A": "V", "N": "Nat"}[kind]
        self.lines.append(f"  let {ln} : {ty} := {term}")
        self.env[name] = kind
        self.cur[name] = ln

    # ---------- kinds
    def kind(self, e):
        if isinstance(e, ast.Constant):
            return "S"
        if isinstance(e, ast.Name):
            if e.id not in self.env:
                raise Unsupported(f"unknown name {e.id}")
            k = self.env[e.id]
            return "V" if k == "A" else k
        if isinstance(e, ast.UnaryOp):
            return self.kind(e.operand)
        if isinstance(e, ast.BinOp):
            a, b = self.kind(e.left), self.kind(e.right)
            if "V" in (a, b):
                return "V"
            return "S"
        if isinstance(e, ast.Subscript):
            return "V" if isinstance(e.slice, ast.Slice) else "S"
        if isinstance(e, ast.Call):
            f = e.func
            if isinstance(f, ast.Name):
                if f.id in ("float", "sum"):
                    return "S"
                if f.id == "len":
                    return "N"
                if f.id == "shift":
                    return "V"
                if self.env.get(f.id) == "F":
                    return "S"
            if isinstance(f, ast.Attribute):
                if f.attr in ("dot", "sum"):
                    return "S"
                if isinstance(f.value, ast.Name) and f.value.id == "np" and f.attr in ("array", "arange", "concatenate"):
                    return "V"
        if isinstance(e, (ast.List, ast.Tuple)):
            return "L"
        raise Unsupported(f"kind of {ast.dump(e)[:80]}")

    # ---------- nat expressions (lengths, slice bounds)
    def nat(self, e):
        if isinstance(e, ast.Constant) and isinstance(e.value, int) and e.value >= 0:
            return str(e.value)
        if isinstance(e, ast.Name) and self.env.get(e.id) == "N":
            return self.cur[e.id]
        if isinstance(e, ast.Call) and isinstance(e.func, ast.Name) and e.func.id == "len":
            return self.vlen(e.args[0])
        raise Unsupported(f"nat expr {ast.dump(e)[:80]}")

    # ---------- vector expressions: length and pointwise value
    def vlen(self, e):
        if isinstance(e, ast.Name):
            return f"{self.cur[e.id]}.n"
        if isinstance(e, ast.UnaryOp):
            return self.vlen(e.operand)
        if isinstance(e, ast.BinOp):
            return self.vlen(e.left) if self.kind(e.left) == "V" else self.vlen(e.right)
        if isinstance(e, ast.Subscript) and isinstance(e.slice, ast.Slice):
            base = self.vlen(e.value)
            lo, hi = e.slice.lower, e.slice.upper
            if e.slice.step is not None:
                raise Unsupported("slice step")
            if lo is None and hi is not None:
                if isinstance(hi, ast.UnaryOp) and isinstance(hi.op, ast.USub):
                    return f"({base} - {self.nat(hi.operand)})"
                return self.nat(hi)
            if hi is None and lo is not None:
                if isinstance(lo, ast.UnaryOp) and isinstance(lo.op, ast.USub):
                    return self.nat(lo.operand)
                return f"({base} - {self.nat(lo)})"
            raise Unsupported("slice form")
        if isinstance(e, ast.Call):
            f = e.func
            if isinstance(f, ast.Name) and f.id == "shift":
                return self.vlen(e.args[0])
            if isinstance(f, ast.Attribute) and isinstance(f.value, ast.Name) and f.value.id == "np":
                if f.attr == "array" and self.kind(e.args[0]) == "V":
                    return self.vlen(e.args[0])
                if f.attr == "arange":
                    return self.nat(e.args[0])
        raise Unsupported(f"vlen of {ast.dump(e)[:80]}")

    def at(self, e, i):
        """Lean scalar term: value of expression e (scalar, or vector at index term i)"""
        if isinstance(e, ast.Constant):
            return lit(e.value)
        if isinstance(e, ast.Name):
            k = self.env.get(e.id)
            if k == "S":
                return self.cur[e.id]
            if k == "A":
                return f"(({i} : Nat) : Rat)"
            if k == "V":
                return f"{self.cur[e.id]}.f {i}"
            if k == "N":
                return f"(({self.cur[e.id]} : Nat) : Rat)"
            raise Unsupported(f"name {e.id} of kind {k} in arithmetic")
        if isinstance(e, ast.UnaryOp):
            if isinstance(e.op, ast.USub):
                return f"(-{self.at(e.operand, i)})"
            if isinstance(e.op, ast.UAdd):
                return self.at(e.operand, i)
            raise Unsupported("unary op")
        if isinstance(e, ast.BinOp):
            if isinstance(e.op, ast.Pow):
                r = e.right
                if isinstance(r, ast.Constant) and isinstance(r.value, int) and r.value >= 0:
                    return f"({self.at(e.left, i)} ^ {r.value})"
                if isinstance(r, ast.Name) and self.env.get(r.id) == "A":
                    return f"({self.at(e.left, i)} ^ {i})"
                raise Unsupported("power with non-literal, non-arange exponent")
            op = {ast.Add: "+", ast.Sub: "-", ast.Mult: "*", ast.Div: "/"}.get(type(e.op))
            if op is None:
                raise Unsupported(f"operator {type(e.op).__name__}")
            return f"({self.at(e.left, i)} {op} {self.at(e.right, i)})"
        if isinstance(e, ast.Subscript):
            if isinstance(e.slice, ast.Slice):
                base = e.value
                lo, hi = e.slice.lower, e.slice.upper
                if lo is None:
                    return self.at(base, i)
                if isinstance(lo, ast.UnaryOp) and isinstance(lo.op, ast.USub):
                    return self.at(base, f"({self.vlen(base)} - {self.nat(lo.operand)} + {i})")
                return self.at(base, f"({self.nat(lo)} + {i})")
            idx = e.slice
            if isinstance(idx, ast.Constant) and isinstance(idx.value, int) and idx.value >= 0:
                return self.at(e.value, str(idx.value))
            raise Unsupported("index form")
        if isinstance(e, ast.Call):
            f = e.func
            if isinstance(f, ast.Name):
                if f.id == "float":
                    return self.at(e.args[0], i)
                if f.id == "sum" and len(e.args) == 1:
                    return self.total(e.args[0])
                if f.id == "shift":
                    v, s = e.args
                    if not (isinstance(s, ast.UnaryOp) and isinstance(s.op, ast.USub)
                            and isinstance(s.operand, ast.Constant) and s.operand.value == 1) or e.keywords:
                        raise Unsupported("shift other than shift(v, -1)")
                    return f"(if {i} + 1 < {self.vlen(v)} then {self.at(v, f'({i} + 1)')} else 0)"
                if self.env.get(f.id) == "F":
                    if len(e.args) != 1:
                        raise Unsupported("function arity")
                    return f"({self.cur[f.id]} {self.at(e.args[0], i)})"
            if isinstance(f, ast.Attribute):
                if f.attr == "dot" and len(e.args) == 1:
                    a, b = f.value, e.args[0]
                    return f"(sumTo {self.vlen(a)} (fun j => {self.at(a, 'j')} * {self.at(b, 'j')}))"
                if f.attr == "sum" and not e.args:
                    return self.total(f.value)
                if isinstance(f.value, ast.Name) and f.value.id == "np" and f.attr == "array":
                    return self.at(e.args[0], i)
                if isinstance(f.value, ast.Name) and f.value.id == "np" and f.attr == "arange":
                    return f"(({i} : Nat) : Rat)"
        raise Unsupported(f"expression {ast.dump(e)[:100]}")

    def total(self, v):
        return f"(sumTo {self.vlen(v)} (fun j => {self.at(v, 'j')}))"

    def vec(self, e):
        """Lean term of type V for a vector-valued expression"""
        if isinstance(e, ast.Name) and self.env.get(e.id) == "V":
            return self.cur[e.id]
        if isinstance(e, ast.Call) and isinstance(e.func, ast.Attribute) and isinstance(e.func.value, ast.Name) \
                and e.func.value.id == "np":
            if e.func.attr == "array" and isinstance(e.args[0], (ast.List, ast.Tuple)):
                return self.vlist(e.args[0])
            if e.func.attr == "concatenate":
                for kw in e.keywords:
                    if not (kw.arg == "axis" and isinstance(kw.value, ast.Constant) and kw.value.value == 0):
                        raise Unsupported("concatenate keyword")
                parts = e.args[0]
                if not isinstance(parts, (ast.Tuple, ast.List)):
                    raise Unsupported("concatenate argument")
                terms = [self.vlist(p) if isinstance(p, (ast.List, ast.Tuple)) else self.vec(p) for p in parts.elts]
                out = terms[-1]
                for t in reversed(terms[:-1]):
                    out = f"(V.append {t} {out})"
                return out
        if self.kind(e) != "V":
            raise Unsupported("scalar where a vector is expected")
        return f"⟨{self.vlen(e)}, fun i => {self.at(e, 'i')}⟩"

    def vlist(self, l):
        return "(V.ofList [" + ", ".join(self.at(x, "0") for x in l.elts) + "])"

    # ---------- statements
    def assign(self, tgt, val):
        if isinstance(tgt, ast.Name):
            k = self.kind(val)
            if k == "S":
                self.bind(tgt.id, "S", self.at(val, "0"))
            elif k == "N":
                self.bind(tgt.id, "N", self.nat(val))
            elif k == "V":
                is_arange = (isinstance(val, ast.Call) and isinstance(val.func, ast.Attribute)
                             and val.func.attr == "arange")
                if is_arange:
                    self.bind(tgt.id, "A", f"V.arange {self.nat(val.args[0])}")
                else:
                    self.bind(tgt.id, "V", self.vec(val))
            else:
                raise Unsupported(f"assignment of kind {k}")
        elif isinstance(tgt, (ast.Tuple, ast.List)):
            if not all(isinstance(t, ast.Name) for t in tgt.elts):
                raise Unsupported("nested unpacking")
            if self.kind(val) != "V":
                raise Unsupported("unpacking a non-vector")
            for j, t in enumerate(tgt.elts):
                self.bind(t.id, "S", self.at(val, str(j)))
        else:
            raise Unsupported("assignment target")

    def cond(self, c):
        if isinstance(c, ast.Compare) and len(c.ops) == 1 and isinstance(c.ops[0], ast.Eq):
            return f"{self.at(c.left, '0')} = {self.at(c.comparators[0], '0')}"
        raise Unsupported("condition")

    def stmt(self, s):
        if isinstance(s, ast.Expr) and isinstance(s.value, ast.Constant) and isinstance(s.value.value, str):
            return None
        if isinstance(s, ast.Assign):
            if len(s.targets) != 1:
                raise Unsupported("chained assignment")
            self.assign(s.targets[0], s.value)
            return None
        if isinstance(s, ast.If):
            def single(body):
                if len(body) == 1 and isinstance(body[0], ast.Assign) and len(body[0].targets) == 1 \
                        and isinstance(body[0].targets[0], ast.Name):
                    return body[0].targets[0].id, body[0].value
                raise Unsupported("if body")
            c = self.cond(s.test)
            n1, v1 = single(s.body)
            if self.kind(v1) != "S":
                raise Unsupported("conditional vector assignment")
            t1 = self.at(v1, "0")
            if s.orelse:
                n2, v2 = single(s.orelse)
                if n2 != n1:
                    raise Unsupported("if/else assign different names")
                t2 = self.at(v2, "0")
            else:
                if self.env.get(n1) != "S":
                    raise Unsupported("conditional reassignment of an unbound name")
                t2 = self.cur[n1]
            self.bind(n1, "S", f"if {c} then {t1} else {t2}")
            return None
        if isinstance(s, ast.Return):
            return self.vec(s.value)
        raise Unsupported(f"statement {type(s).__name__}")

    def emit(self):
        ret = None
        for s in self.node.body:
            if ret is not None:
                raise Unsupported("code after return")
            ret = self.stmt(s)
        if ret is None:
            raise Unsupported("no return")
        tys = {"S": "Rat", "V": "V", "N": "Nat", "F": "Rat → Rat"}
        ps = " ".join(f"({p} : {tys[k]})" for p, k in self.params if k != "-")
        head = f"/-- generated from `{self.node.name}` (EoN/analytic.py:{self.node.lineno}) -/\n" \
               f"def {self.lean_name} {ps} : V :=\n"
        return head + "\n".join(self.lines) + ("\n" if self.lines else "") + f"  {ret}\n"

HEADER = '''import EoNVerif.Gen.Vec
/-!
GENERATED by harness/py2lean.py from EoN/analytic.py — do not edit; regenerated on every check run.
source sha1: {sha}
-/
namespace Gen
open ODE (sumTo)

'''

def translate(repo=REPO):
    path = os.path.join(repo, "EoN", "analytic.py")
    src = open(path).read()
    tree = ast.parse(src)
    fns = {n.name: n for n in tree.body if isinstance(n, ast.FunctionDef)}
    out, errors, sources = [], {}, {}
    for name, (lean_name, sig) in SIGS.items():
        if name not in fns:
            errors[name] = "function not found"
            continue
        try:
            out.append(Fn(fns[name], lean_name, sig).emit())
            sources[name] = ast.unparse(fns[name])
        except Unsupported as ex:
            errors[name] = f"unsupported: {ex}"
            # keep the Lean file well-formed: the missing definition makes the gen_* theorem fail to elaborate
    sha = hashlib.sha1("\n".join(sources.get(n, "") for n in SIGS).encode()).hexdigest()
    text = HEADER.format(sha=sha) + "\n".join(out) + "\nend Gen\n"
    return text, errors

def regenerate():
    """translate from the current working tree; rewrite Gen/Analytic.lean atomically when its text changed.
    returns (changed, errors)"""
    import warnings
    target = os.path.join(os.path.dirname(os.path.abspath(__file__)), "..", "lean", "EoNVerif", "Gen", "Analytic.lean")
    with warnings.catch_warnings():
        warnings.simplefilter("ignore")
        text, errors = translate()
    old = open(target).read() if os.path.exists(target) else None
    if old != text:
        os.makedirs(os.path.dirname(target), exist_ok=True)
        tmp = target + ".tmp%d" % os.getpid()
        with open(tmp, "w") as f:
            f.write(text)
        os.replace(tmp, target)
    return old != text, errors


def main():
    changed, errors = regenerate()
    print("py2lean: Gen/Analytic.lean %s (%d functions)" % ("rewritten" if changed else "up to date", len(SIGS) - len(errors)))
    for n, e in errors.items():
        print(f"py2lean: {n}: {e}")
    return 1 if errors else 0

if __name__ == "__main__":
    sys.exit(main())
