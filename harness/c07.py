"""C07 — equivalent ODE models agree (end-to-end numerical comparison of the real solvers; the semiconjugacy theorems
are in Props/C07.lean).
* rho-initialised SIR hierarchy on arbitrary degree distributions: EBCM, compact pairwise, super-compact pairwise,
  effective degree, compact effective degree;
* pref-mix EBCM (continuous, discrete) with uncorrelated mixing vs EBCM / EBCM_discrete;
* regular graphs: heterogeneous / compact / pair-based / homogeneous pairwise; heterogeneous mean-field /
  individual-based / homogeneous mean-field — SIS and SIR."""
import numpy as np, networkx as nx
import common, odes

TOL = 1e-4


def curves(name, G, rho, tau, gamma, tmax, tcount, tmin=0.0, **kw):
    """(S, I[, R]) over a report window of length `tmax` that STARTS AT `tmin`: the models are autonomous, so the curves on
    [tmin, tmin + tmax] from a state given at tmin are those on [0, tmax] — whatever integrator a model uses"""
    import EoN
    res = odes.call(name, G, dict(rho=rho), tau, gamma, tmin, tmin + tmax, tcount, False, **kw)
    t = np.asarray(res[0], dtype=float)
    if abs(t[0] - tmin) > 1e-12 or abs(t[-1] - (tmin + tmax)) > 1e-9:
        raise AssertionError("report times of %s do not span [tmin, tmax]" % name)
    return [np.asarray(x, dtype=float) for x in res[1:]]


def maxdiff(a, b):
    return max(float(np.max(np.abs(x - y))) for x, y in zip(a, b))


def compare(ctx, rep, group, results, N):
    ref_name, ref = results[0]
    for name, cur in results[1:]:
        if len(cur) != len(ref) or not np.all(np.isfinite(np.concatenate(cur))):
            ctx.violation("%s: %s returned non-finite / differently shaped curves" % (group, name), dict(rep, model=name))
            continue
        d = maxdiff(ref, cur)
        ctx.count("%s:compared" % group)
        if d > TOL * N:
            ctx.violation("%s: %s and %s disagree: max |difference| = %.3g (N=%d)" % (group, ref_name, name, d, N),
                          dict(rep, models=[ref_name, name], maxdiff=d))


def run(ctx):
    import EoN
    import genpm
    genpm.run_stream(ctx)      # the preferential-mixing right-hand side regenerated from the source (Gen/PrefMixGen.lean)
    # --- SIR hierarchy with rho on arbitrary degree distributions
    for k in range(ctx.scale(12, 80)):
        seed = ctx.rng.randrange(10 ** 6)
        kind = ["gnp", "ba", "regular", "star+cycle", "gnp+isolated", "ba+isolated"][k % 6]
        n = ctx.rng.randint(20, 60)
        if kind == "gnp":
            G = nx.gnp_random_graph(n, 5.0 / n, seed=seed)
        elif kind == "ba":
            G = nx.barabasi_albert_graph(n, 2, seed=seed)
        elif kind == "regular":
            G = nx.random_regular_graph(3, n + n % 2, seed=seed)
        elif kind == "star+cycle":
            G = nx.disjoint_union(nx.star_graph(6), nx.cycle_graph(n))
        elif kind == "gnp+isolated":
            G = nx.gnp_random_graph(n, 5.0 / n, seed=seed)
            G.add_nodes_from(range(n, n + ctx.rng.randint(2, 10)))          # isolated nodes: a degree-0 class
        else:
            G = nx.barabasi_albert_graph(n, 2, seed=seed)
            G.add_nodes_from(range(n, n + ctx.rng.randint(2, 10)))
        if min(dict(G.degree()).values()) == 0 and "isolated" not in kind:
            G.remove_nodes_from([u for u, d in G.degree() if d == 0])
        N = G.order()
        rho = ctx.rng.choice([0.05, 0.1, 0.25])
        tau, gamma = ctx.rng.choice([(0.4, 1.0), (1.0, 0.5), (2.0, 1.0)])
        # stage 0: the graph as built; stage 1 (every other case): the SAME graph object after in-place rewiring that
        # changes the degree distribution but not the node / edge counts — the models must describe the graph as it is
        for stage in range(2 if k % 2 == 0 else 1):
            if stage == 1:
                es = list(G.edges())
                for (u, v) in ctx.rng.sample(es, max(1, len(es) // 8)):
                    hub = max(G, key=lambda x: G.degree(x))
                    cand = [w for w in (u, v) if w != hub and not G.has_edge(hub, w)]
                    if cand and G.has_edge(u, v):
                        G.remove_edge(u, v)
                        G.add_edge(hub, cand[0])
            rep = dict(entry="SIR-hierarchy", graph=dict(kind=kind, n=N, seed=seed), rho=rho, tau=tau, gamma=gamma, inplace_stage=stage)
            ctx.case(rep, nontrivial=True, sample=rep)
            ctx.count("SIR-hierarchy:stage%d" % stage)
            names = ["EBCM_from_graph", "SIR_compact_pairwise_from_graph", "SIR_super_compact_pairwise_from_graph",
                     "SIR_compact_effective_degree_from_graph"]
            if max(dict(G.degree()).values()) <= 12:
                names.append("SIR_effective_degree_from_graph")
            res = []
            for nm in names:
                try:
                    res.append((nm, curves(nm, G, rho, tau, gamma, 8.0, 17, tmin=[0.0, 2.5, -1.0][k % 3])))
                except Exception as e:
                    ctx.violation("SIR hierarchy: %s raised %s" % (nm, type(e).__name__), dict(rep, model=nm))
            compare(ctx, rep, "SIR-hierarchy", res, N)
        # pref-mix with uncorrelated mixing (direct functions)
        Pk = EoN.get_Pk(G)
        if 0 in Pk:
            continue
        kave = sum(kk * p for kk, p in Pk.items())
        Pnk = {k1: {k2: k2 * Pk[k2] / kave for k2 in Pk} for k1 in Pk}
        psi = lambda x: sum(Pk[k_] * x ** k_ for k_ in Pk)              # array-capable (EBCM evaluates psihat on the whole theta series)
        psiP = lambda x: sum(k_ * Pk[k_] * x ** (k_ - 1) for k_ in Pk)
        try:
            a = [np.asarray(x, dtype=float) for x in EoN.EBCM_uniform_introduction(N, psi, psiP, tau, gamma, rho, tmax=8.0, tcount=17)[1:]]
            b = [np.asarray(x, dtype=float) for x in EoN.EBCM_pref_mix(N, Pk, Pnk, tau, gamma, rho=rho, tmax=8.0, tcount=17)[1:]]
            compare(ctx, dict(rep, entry="pref-mix"), "pref-mix", [("EBCM_uniform_introduction", a), ("EBCM_pref_mix", b)], N)
            p = ctx.rng.choice([0.2, 0.5])
            a = [np.asarray(x, dtype=float) for x in EoN.EBCM_discrete_uniform_introduction(N, psi, psiP, p, rho, tmax=8)[1:]]
            b = [np.asarray(x, dtype=float) for x in EoN.EBCM_pref_mix_discrete(N, Pk, Pnk, p, rho=rho, tmax=8)[1:]]
            compare(ctx, dict(rep, entry="pref-mix-discrete", p=p), "pref-mix-discrete",
                    [("EBCM_discrete_uniform_introduction", a), ("EBCM_pref_mix_discrete", b)], N)
        except Exception as e:
            ctx.violation("pref-mix comparison raised %s" % type(e).__name__, dict(rep, error=type(e).__name__))
    # --- regular graph reductions
    for k in range(ctx.scale(8, 60)):
        d = ctx.rng.choice([2, 3, 4])
        n = ctx.rng.choice([6, 8, 10])
        if n <= d:
            n = d + 2
        seed = ctx.rng.randrange(10 ** 6)
        G = nx.random_regular_graph(d, n, seed=seed)
        if k % 2 == 1:
            odes.decorate(ctx.rng, G)          # unused 'weight' attributes
            ctx.count("regular:with-unused-attributes")
        N = G.order()
        rho = ctx.rng.choice([0.1, 0.25])
        tau, gamma = ctx.rng.choice([(0.4, 1.0), (1.0, 0.5)])
        tmin = [0.0, 1.5, -2.0][k % 3]          # two windows in three do not start at 0
        rep = dict(entry="regular-reductions", graph=dict(kind="regular", degree=d, n=N, seed=seed), rho=rho, tau=tau, gamma=gamma, tmin=tmin)
        ctx.case(rep, nontrivial=True)
        ctx.count("regular:tmin=%s" % tmin)
        for kind_ in ("SIS", "SIR"):
            pair = ["%s_homogeneous_pairwise_from_graph", "%s_heterogeneous_pairwise_from_graph", "%s_compact_pairwise_from_graph", "%s_pair_based"]
            mf = ["%s_homogeneous_meanfield_from_graph", "%s_heterogeneous_meanfield_from_graph", "%s_individual_based"]
            for group, names in (("pairwise", pair), ("meanfield", mf)):
                res = []
                for nm in names:
                    nm = nm % kind_
                    try:
                        res.append((nm, curves(nm, G, rho, tau, gamma, 4.0, 9, tmin=tmin)))
                    except Exception as e:
                        ctx.violation("regular reductions: %s raised %s" % (nm, type(e).__name__), dict(rep, model=nm))
                compare(ctx, rep, "regular-%s-%s" % (kind_, group), res, N)
