import EoNVerif.Basic
