#!/usr/bin/env python3
"""pysimple2lean — translator for `Gillespie_simple_contagion` of EoN/simulation.py -> lean/EoNVerif/Gen/SimpleGen.lean.

Built on the statement translator of pyfunc2lean.py.  Translated: the bookkeeping set-up (`status`, `times`, `data`,
`node_history`), the initial population of `potential_transitions` and the whole main `while` loop (transition choice
by cumulative share with `break`, actor choice, status change, counts, incremental update of every spontaneous and
induced transition in the directed and the undirected branch, the small-total repair, the clock).
NOT translated (modelled as parameters `SArgs`, documented in DESIGN): the sorting of the specification edges and the
set-up loops that read the two specification `DiGraph`s and build `rate`, `get_weight` and the empty
`potential_transitions` — the generated code receives the sorted transition lists, `rate`, the initial `get_weight`
tables, the initial (empty, weighted or not) `_ListDict_`s and the out-edges of a status / status pair in the
specification graphs.

Representation: a spontaneous transition is `(a, b) : τ × τ`, an induced one `((a, b), (c, d))`; the keys of
`potential_transitions` / `get_weight` / `rate` are the sum type `Tr τ`; candidates of both kinds are `Actor = List
Nat` (`[u]` a node, `[u, v]` an ordered pair).  `get_weight` is a `defaultdict(lambda: defaultdict(lambda: None))`:
reading a missing inner key inserts it with `None` (`PyTM.gwRead`), `in` tests only stored keys (`gwHas`).
"""
import ast, os, sys, hashlib
import pyfunc2lean as pf
from pyfunc2lean import Unsupported

REPO = os.environ.get("EON_REPO", "/repo")

FIELDS = [("status", "statusσ"), ("times", "list:erat"), ("t", "erat"), ("delay", "erat"), ("total_rate", "rat"), ("data", "counts"),
          ("potential_transitions", "pt"), ("get_weight", "gw"), ("node_history", "hist"), ("transmissions", "trans")]
pf.LEAN_TY.update({"pt": "List (Tr τ × GenLD.PyLD Actor)", "gw": "List (Tr τ × List (Actor × Option Rat))"})
pf.DEFAULT.update({"pt": "P.pt0", "gw": "P.gw0"})
PARAMS = {"tmin": ("P.tmin", "rat"), "tmax": ("P.tmax", "erat"), "return_full_data": ("P.full", "bool"),
          "return_statuses": ("P.ret", "sigmas"), "spontaneous_transitions": ("P.spont", "trSs"),
          "induced_transitions": ("P.induced", "trIs")}


class SimpleFn(pf.Fn):
    def __init__(self, node):
        super().__init__(node, FIELDS, "GenSC", params=PARAMS, profile="complex")
        self.loc_ty = "Loc τ"

    # ---- transitions
    def trkey(self, term, kind):
        return {"trS": f"(Sum.inl {term})", "trI": f"(Sum.inr {term})", "trAny": term}[kind]

    def actor(self, term, kind):
        if kind == "node":
            return f"[{term}]"
        if kind == "link":
            return f"[{term}.1, {term}.2]"
        if kind == "actor":
            return term
        raise Unsupported("candidate of kind " + kind)

    def expr(self, e, ind):
        src = ast.unparse(e)
        if src == "10 ** (-7)":
            return [], "((1 : Rat) / 10000000)", "rat"
        if src == "G.is_directed()":
            return [], "P.directed", "bool"
        if src == "spontaneous_transitions + induced_transitions":
            return [], "(P.spont.map Sum.inl ++ P.induced.map Sum.inr)", "trAnys"
        if isinstance(e, ast.Subscript) and isinstance(e.value, ast.Name) and e.value.id == "rate":
            p, t, k = self.expr(e.slice, ind)
            return p, f"(P.rate {self.trkey(t, k)})", "rat"
        if isinstance(e, ast.Subscript) and isinstance(e.value, ast.Name) and e.value.id == "transition" \
                and isinstance(e.slice, ast.Constant) and e.slice.value in (0, 1):
            k = self.temps.get("transition")
            i = e.slice.value + 1
            if k == "trS":
                return [], f"transition.{i}", "sigma"
            if k == "trI":
                return [], f"transition.{i}", "sigpair"
            raise Unsupported("component of a transition of unknown kind")
        if isinstance(e, ast.Subscript) and isinstance(e.value, ast.Subscript) and ast.unparse(e.value.value) == "transition" \
                and isinstance(e.slice, ast.Constant) and e.slice.value in (0, 1) and self.temps.get("transition") == "trI":
            i, j = e.value.slice.value + 1, e.slice.value + 1
            return [], f"transition.{i}.{j}", "sigma"
        if isinstance(e, ast.Tuple) and len(e.elts) == 2:
            parts = [self.expr(x, ind) for x in e.elts]
            ks = [k for _, _, k in parts]
            pre = sum((p for p, _, _ in parts), [])
            if ks == ["sigma", "sigma"]:
                return pre, f"({parts[0][1]}, {parts[1][1]})", "sigpair"
            if ks == ["node", "node"]:
                return pre, f"({parts[0][1]}, {parts[1][1]})", "link"
        if isinstance(e, ast.Compare) and len(e.ops) == 1 and isinstance(e.ops[0], (ast.Eq, ast.NotEq)):
            pa, a, ka = self.expr(e.left, ind)
            pb, b, kb = self.expr(e.comparators[0], ind)
            if ka == kb and ka in ("sigma", "sigpair"):
                sym = "=" if isinstance(e.ops[0], ast.Eq) else "≠"
                return pa + pb, f"(decide ({a} {sym} {b}))", "bool"
            if ka == "rat" and kb == "num":
                sym = "=" if isinstance(e.ops[0], ast.Eq) else "≠"
                return pa + pb, f"(decide ({a} {sym} ({b} : Rat)))", "bool"
        if isinstance(e, ast.BoolOp) and isinstance(e.op, ast.And) and len(e.values) == 2:
            p1, c1 = self.truth(e.values[0], ind)
            p2, c2 = self.truth(e.values[1], ind + "  ")
            if p2:      # short circuit: the right operand (and its effects) is evaluated only when the left one holds
                c = self.tmp("c")
                return p1 + [f"{ind}let (σ, {c}) ← (if {c1} then do"] + p2 + [f"{ind}  pure (σ, {c2})", f"{ind}else pure (σ, false))"], c, "bool"
        if isinstance(e, ast.Compare) and len(e.ops) == 1 and isinstance(e.ops[0], (ast.In, ast.NotIn)):
            # `key not in get_weight[transition]`, `transition in spontaneous_transitions`, `x in return_statuses`
            right = e.comparators[0]
            if isinstance(right, ast.Subscript) and ast.unparse(right.value) == "get_weight":
                pk, key, kk = self.expr(e.left, ind)
                pt, tr, kt = self.expr(right.slice, ind)
                has = f"(PyTM.gwHas σ.get_weight {self.trkey(tr, kt)} {self.actor(key, kk)})"
                return pk + pt, (has if isinstance(e.ops[0], ast.In) else f"(!{has})"), "bool"
            if ast.unparse(right) == "spontaneous_transitions" and self.temps.get(ast.unparse(e.left)) == "trAny":
                return [], f"(PyTM.isSpont {ast.unparse(e.left)})", "bool"
        return super().expr(e, ind)

    def call(self, e, ind):
        f = e.func
        src = ast.unparse(e)
        # out-edges of a status / status pair in the specification graphs
        if src == "spontaneous_transition_graph.has_node(status[node])":
            return [], "(P.spHas (σ.status node))", "bool"
        if src == "spontaneous_transition_graph.edges(status[node])":
            return [], "(P.spOut (σ.status node))", "trSs"
        if src == "nbr_induced_transition_graph.has_node((status[node], status[nbr]))":
            return [], "(P.inHas (σ.status node, σ.status nbr))", "bool"
        if src == "nbr_induced_transition_graph.edges((status[node], status[nbr]))":
            return [], "(P.inOut (σ.status node, σ.status nbr))", "trIs"
        if src == "G.predecessors(modified_node)":
            return [], "(P.pred modified_node)", "nodes"
        if src in ("G.neighbors(modified_node)", "G.neighbors(node)"):
            return [], f"(P.nbrs {src[12:-1]})", "nodes"
        if src == "sum((rate[transition] * potential_transitions[transition].total_weight() for transition in spontaneous_transitions + induced_transitions))":
            t = self.tmp("tot")
            return [f"{ind}let {t} ← PyTM.liftE ((P.spont.map Sum.inl ++ P.induced.map Sum.inr).foldlM (fun (acc : Rat) (transition : Tr τ) => do",
                    f"{ind}    let ld ← PyRT.dictGet σ.potential_transitions transition",
                    f"{ind}    let (_, w) ← GenLD.total_weight ld",
                    f"{ind}    pure (acc + P.rate transition * w)) 0)"], t, "rat"
        # methods of potential_transitions[transition]
        if isinstance(f, ast.Attribute) and isinstance(f.value, ast.Subscript) and ast.unparse(f.value.value) == "potential_transitions":
            pt, tr, kt = self.expr(f.value.slice, ind)
            key = self.trkey(tr, kt)
            ld = self.tmp("ld")
            get = pt + [f"{ind}let {ld} ← PyTM.liftE (PyRT.dictGet σ.potential_transitions {key})"]
            put = lambda new: [f"{ind}let σ := {{ σ with potential_transitions := alSet σ.potential_transitions {key} {new} }}"]
            if f.attr == "total_weight" and not e.args:
                w, l2 = self.tmp("w"), self.tmp("l")
                return get + [f"{ind}let ({l2}, {w}) ← PyTM.liftE (GenLD.total_weight {ld})"] + put(l2), w, "rat"
            if f.attr == "choose_random" and not e.args:
                c, l2 = self.tmp("c"), self.tmp("l")
                return get + [f"{ind}let ({l2}, {c}) ← GenLD.choose_random_tm (fun a => a) {ld} P.cfuel"] + put(l2), c, "actor"
            if f.attr == "update_total_weight" and not e.args:
                l2 = self.tmp("l")
                return get + [f"{ind}let {l2} ← PyTM.liftE (GenLD.update_total_weight {ld})"] + put(l2), "()", "unit"
            if f.attr == "remove" and len(e.args) == 1:
                p1, a, ka = self.expr(e.args[0], ind)
                l2 = self.tmp("l")
                return p1 + get + [f"{ind}let {l2} ← PyTM.liftE (GenLD.remove {ld} {self.actor(a, ka)})"] + put(l2), "()", "unit"
            if f.attr == "update" and len(e.args) == 1 and len(e.keywords) == 1 and e.keywords[0].arg == "weight_increment":
                p1, a, ka = self.expr(e.args[0], ind)
                g = e.keywords[0].value
                if not (isinstance(g, ast.Subscript) and isinstance(g.value, ast.Subscript) and ast.unparse(g.value.value) == "get_weight"):
                    raise Unsupported("weight_increment is not a get_weight look-up")
                ptg, trg, ktg = self.expr(g.value.slice, ind)
                pk, k2, kk2 = self.expr(g.slice, ind)
                w, l2 = self.tmp("gw"), self.tmp("l")
                read = [f"{ind}let ({w}, g') := PyTM.gwRead σ.get_weight {self.trkey(trg, ktg)} {self.actor(k2, kk2)}",
                        f"{ind}let σ := {{ σ with get_weight := g' }}"]
                # Python evaluates the receiver (potential_transitions[transition]) first, then the arguments
                return p1 + ptg + pk + get + read + [f"{ind}let {l2} ← PyTM.liftE (GenLD.update {ld} {self.actor(a, ka)} {w})"] + put(l2), "()", "unit"
            raise Unsupported("method of potential_transitions[...]: " + src[:60])
        return super().call(e, ind)

    def block(self, stmts, ind, in_loop=False):
        out = []
        i = 0
        while i < len(stmts):
            st = stmts[i]
            src = ast.unparse(st)
            last = i == len(stmts) - 1
            # r = random.random(); for transition in A+B: r -= share; if r < 0: break
            if src == "r = random.random()" and i + 1 < len(stmts) and isinstance(stmts[i + 1], ast.For):
                lp = stmts[i + 1]
                want = ("for transition in spontaneous_transitions + induced_transitions:\n"
                        "    r -= rate[transition] * potential_transitions[transition].total_weight() / total_rate\n"
                        "    if r < 0:\n        break")
                if ast.unparse(lp) != want:
                    raise Unsupported("transition-choice loop changed: " + ast.unparse(lp)[:80])
                out += [f"{ind}let r ← TM.popUnif",
                        f"{ind}-- the loop variable keeps the transition at which `r < 0` first holds, or the last one",
                        f"{ind}let (_, tr?, _) ← PyTM.liftE ((P.spont.map Sum.inl ++ P.induced.map Sum.inr).foldlM",
                        f"{ind}    (fun (acc : Rat × Option (Tr τ) × Bool) (transition : Tr τ) => do",
                        f"{ind}      if acc.2.2 then pure acc else",
                        f"{ind}      let ld ← PyRT.dictGet σ.potential_transitions transition",
                        f"{ind}      let (_, w) ← GenLD.total_weight ld",
                        f"{ind}      let share ← PyTM.fdiv (P.rate transition * w) σ.total_rate",
                        f"{ind}      let r := acc.1 - share",
                        f"{ind}      pure (r, some transition, decide (r < 0))) (r, none, false))",
                        f"{ind}let transition ← PyTM.liftE (match tr? with | some x => pure x | none => throw \"NameError\")"]
                self.temps["transition"] = "trAny"
                i += 2
                continue
            if src == "if transition in spontaneous_transitions:\n    spontaneous = True\nelse:\n    spontaneous = False":
                out.append(f"{ind}let spontaneous := PyTM.isSpont transition")
                self.temps["spontaneous"] = "bool"
                i += 1
                continue
            if isinstance(st, ast.If) and ast.unparse(st.test) == "spontaneous":
                # the two branches bind modified_node / old_status / new_status; in each the transition has a known kind
                def branch(body, kind, var):
                    saved = dict(self.temps)
                    self.temps["transition"] = kind
                    lines = self.block(body, ind + "    ")
                    self.temps = saved
                    return lines
                for nm, k in (("modified_node", "node"), ("old_status", "sigma"), ("new_status", "sigma")):
                    self.temps[nm] = k
                b1 = branch(st.body, "trS", "inl")
                b2 = branch(st.orelse, "trI", "inr")
                out += [f"{ind}let (σ, modified_node, old_status, new_status) ← (match transition with",
                        f"{ind}  | Sum.inl transition => do"] + b1 + [f"{ind}    pure (σ, modified_node, old_status, new_status)",
                        f"{ind}  | Sum.inr transition => do"] + b2 + [f"{ind}    pure (σ, modified_node, old_status, new_status))"]
                i += 1
                continue
            if src == "modified_node = actor":
                out.append(f"{ind}let modified_node ← PyTM.liftE (PyTM.actorNode actor)")
                i += 1
                continue
            if src in ("source, target = actor", "(source, target) = actor"):
                out.append(f"{ind}let (source, target) ← PyTM.liftE (PyTM.actorPair actor)")
                self.temps["source"] = self.temps["target"] = "node"
                i += 1
                continue
            if isinstance(st, ast.Assign) and isinstance(st.targets[0], ast.Name) and st.targets[0].id in ("old_status", "new_status", "nbr_status", "pred_status", "modified_node", "actor"):
                p, t, k = self.expr(st.value, ind)
                self.temps[st.targets[0].id] = k
                out += p + [f"{ind}let {st.targets[0].id} := {t}"]
                i += 1
                continue
            # get_weight[transition][k1] = get_weight[transition][k2]
            if isinstance(st, ast.Assign) and isinstance(st.targets[0], ast.Subscript) and isinstance(st.targets[0].value, ast.Subscript) \
                    and ast.unparse(st.targets[0].value.value) == "get_weight":
                tgt, val = st.targets[0], st.value
                if not (isinstance(val, ast.Subscript) and isinstance(val.value, ast.Subscript) and ast.unparse(val.value.value) == "get_weight"
                        and ast.unparse(val.value.slice) == ast.unparse(tgt.value.slice)):
                    raise Unsupported(src)
                pt, tr, kt = self.expr(tgt.value.slice, ind)
                pk1, k1, kk1 = self.expr(tgt.slice, ind)
                pk2, k2, kk2 = self.expr(val.slice, ind)
                key = self.trkey(tr, kt)
                w = self.tmp("gw")
                out += pt + pk2 + pk1 + [f"{ind}let ({w}, g') := PyTM.gwRead σ.get_weight {key} {self.actor(k2, kk2)}",
                                         f"{ind}let σ := {{ σ with get_weight := PyTM.gwSet g' {key} {self.actor(k1, kk1)} {w} }}"]
                i += 1
                continue
            if isinstance(st, ast.For) and ast.unparse(st.iter) in ("spontaneous_transitions", "induced_transitions") \
                    or (isinstance(st, ast.For) and isinstance(st.iter, ast.Call) and ast.unparse(st.iter.func).endswith("_transition_graph.edges")):
                p, seq, k = self.expr(st.iter, ind)
                kind = {"trSs": "trS", "trIs": "trI"}[k]
                ty = "τ × τ" if kind == "trS" else "(τ × τ) × (τ × τ)"
                saved = dict(self.temps)
                self.temps["transition"] = kind
                body = self.block(st.body, ind + "  ", in_loop=True)
                self.temps = saved
                out += p + [f"{ind}let σ ← {seq}.foldlM (fun (σ : Loc τ) (transition : {ty}) => do"] + body + [f"{ind}  pure σ) σ"]
                i += 1
                continue
            out += super().block([st], ind, in_loop and last)
            i += 1
        return out

    def emit(self):
        body = self.node.body
        sA = next((i for i, s in enumerate(body) if ast.unparse(s).startswith("status = {node: IC[node]")), None)
        eA = next((i for i, s in enumerate(body) if isinstance(s, ast.Try)), None)
        sB = next((i for i, s in enumerate(body) if isinstance(s, ast.For) and ast.unparse(s.iter) == "G.nodes()"), None)
        wi = next((i for i, s in enumerate(body) if isinstance(s, ast.While)), None)
        if None in (sA, eA, sB, wi) or not (sA < eA < sB < wi):
            raise Unsupported("slice markers not found")
        wh = body[wi]
        preA = [s for s in body[sA:eA]]
        # `if return_full_data: transmissions = []; node_history = {...}`
        linesA = self.block(preA, "  ")
        linesB = self.block(body[sB:wi], "  ")
        pc, cond = self.truth(wh.test, "    ")
        wbody = self.block(wh.body, "      ")
        name = self.node.name
        loc = "structure Loc (τ : Type) where\n" + "\n".join(f"  {f} : {pf.LEAN_TY[k]}" for f, k in self.fields.items()) + "\n"
        init = ("def Loc.init (P : SArgs τ) : Loc τ :=\n  { " + ", ".join(f"{f} := {pf.DEFAULT[k]}" for f, k in self.fields.items()) + " }\n")
        loop = (f"/-- generated from the `while` loop of `{name}` (EoN/simulation.py:{wh.lineno}); `fuel` bounds the number of events -/\n"
                f"def loop (P : SArgs τ) : Nat → Loc τ → TM (Loc τ)\n  | 0, _ => TM.fail \"fuel\"\n  | fuel + 1, σ => do\n"
                + "\n".join(pc) + ("\n" if pc else "") + f"    if {cond} then do\n" + "\n".join(wbody) + "\n      loop P fuel σ\n    else pure σ\n")
        run = (f"/-- generated from `{name}` (EoN/simulation.py:{body[sA].lineno}-{wh.lineno}, without the specification set-up {body[eA].lineno}-{body[sB].lineno - 1}) -/\n"
               f"def run (P : SArgs τ) (fuel : Nat) : TM (Loc τ) := do\n  let σ : Loc τ := Loc.init P\n" + "\n".join(linesA) + "\n" + "\n".join(linesB)
               + "\n  loop P fuel σ\n")
        src = ast.unparse(ast.Module(body=preA + body[sB:wi + 1], type_ignores=[]))
        return f"/-- the mutable locals of `{name}` -/\n{loc}\n{init}\n{loop}\n{run}", src


HEADER = '''import EoNVerif.Gen.ListDictTM
/-!
GENERATED by harness/pysimple2lean.py from `Gillespie_simple_contagion` of EoN/simulation.py — do not edit; regenerated
on every check run.   source sha1: {sha}
-/
open PyTM

namespace GenSC
variable {{τ : Type}} [DecidableEq τ]

/-- what the (untranslated) specification set-up hands to the translated part -/
structure SArgs (τ : Type) where
  nodes : List Node                                   -- G.nodes()
  nbrs : Node → List Node                             -- G.neighbors (successors of a DiGraph)
  pred : Node → List Node                             -- G.predecessors
  directed : Bool                                     -- G.is_directed()
  ic : Node → τ                                       -- IC[node]
  ret : List τ                                        -- return_statuses
  spont : List (τ × τ)                                -- sorted(spontaneous_transition_graph.edges())
  induced : List ((τ × τ) × (τ × τ))                  -- sorted(nbr_induced_transition_graph.edges())
  rate : Tr τ → Rat                                   -- rate[transition]
  spHas : τ → Bool                                    -- spontaneous_transition_graph.has_node(s)
  spOut : τ → List (τ × τ)                            -- spontaneous_transition_graph.edges(s)
  inHas : τ × τ → Bool                                -- nbr_induced_transition_graph.has_node(p)
  inOut : τ × τ → List ((τ × τ) × (τ × τ))            -- nbr_induced_transition_graph.edges(p)
  pt0 : List (Tr τ × GenLD.PyLD Actor)                -- potential_transitions after the set-up (empty structures)
  gw0 : List (Tr τ × List (Actor × Option Rat))       -- get_weight after the set-up
  tmin : Rat
  tmax : ERat
  full : Bool
  cfuel : Nat

'''


def translate(repo=REPO):
    src = open(os.path.join(repo, "EoN", "simulation.py")).read()
    tree = ast.parse(src)
    fns = {n.name: n for n in tree.body if isinstance(n, ast.FunctionDef)}
    errors, text, s = {}, "", ""
    try:
        text, s = SimpleFn(fns["Gillespie_simple_contagion"]).emit()
    except (Unsupported, KeyError) as ex:
        errors["Gillespie_simple_contagion"] = f"unsupported: {ex}"
    sha = hashlib.sha1(s.encode()).hexdigest()
    return HEADER.format(sha=sha) + text + "\nend GenSC\n", errors


def regenerate():
    import warnings
    target = os.path.join(os.path.dirname(os.path.abspath(__file__)), "..", "lean", "EoNVerif", "Gen", "SimpleGen.lean")
    with warnings.catch_warnings():
        warnings.simplefilter("ignore")
        text, errors = translate()
    old = open(target).read() if os.path.exists(target) else None
    if text and not errors and old != text:
        tmp = target + ".tmp%d" % os.getpid()
        with open(tmp, "w") as f:
            f.write(text)
        os.replace(tmp, target)
    return old != text, errors


def main():
    changed, errors = regenerate()
    print("pysimple2lean: Gen/SimpleGen.lean %s" % ("rewritten" if changed else "up to date"))
    for n, e in errors.items():
        print(f"pysimple2lean: {n}: {e}")
    return 1 if errors else 0


if __name__ == "__main__":
    sys.exit(main())
