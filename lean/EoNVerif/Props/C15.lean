import EoNVerif.Proofs.Complex
/-!
C15 — property theorems for the model of `Gillespie_complex_contagion` (all proved).  `InfluenceCovers`, `WF`, `Inv`
are defined (unchanged) in `EoNVerif/Proofs/Complex.lean` together with the helper lemmas; this file keeps only the
property theorems and the non-vacuity example.
-/
namespace Complex
variable {σ : Type} [DecidableEq σ]

theorem init_inv (P : CCParams σ) (h : WF P) (ic : Node → σ) (tmin : Rat) :
    ∃ s, init P ic tmin = some s ∧ Inv P s ∧ s.status = ic := init_inv' P h ic tmin

/-- one event on a candidate node: no KeyError, the new status is the chooser's answer, the invariant is restored -/
theorem applyEvent_inv (P : CCParams σ) (h : WF P) (s : CCState σ) (hs : Inv P s) (node : Node) (t : Rat)
    (hn : node ∈ s.ld.items) :
    ∃ s', applyEvent P s node t = some s' ∧ Inv P s' ∧
      s'.status = fset s.status node (P.choose s.status node) := applyEvent_inv' P h s hs node t hn

/-- for every tape: every state reached by the loop satisfies the invariant -/
theorem loop_inv (P : CCParams σ) (h : WF P) (tmax : ERat) (cfuel fuel : Nat) (s s' : CCState σ) (t : ERat)
    (ts ts' : TapeSt) (hs : Inv P s) (hl : loop P tmax cfuel fuel s t ts = .ok (s', ts')) : Inv P s' :=
  loop_inv' P h tmax cfuel fuel s s' t ts ts' hs hl

theorem run_inv (P : CCParams σ) (h : WF P) (ic : Node → σ) (tmin : Rat) (tmax : ERat) (fuel cfuel : Nat)
    (ts ts' : TapeSt) (s' : CCState σ) (hr : run P ic tmin tmax fuel cfuel ts = .ok (s', ts')) : Inv P s' :=
  run_inv' P h ic tmin tmax fuel cfuel ts ts' s' hr

/-- **clock**: the rate handed to `expovariate` is the sum of the user rates on the current statuses -/
theorem clock_eq (P : CCParams σ) (h : WF P) (s : CCState σ) (hs : Inv P s) :
    s.ld.totalWeight = sumRat (P.nodes.map (P.rate s.status)) := clock_eq' P h s hs

/-- **stop condition**: the loop's guard `total_weight() > 0` is "some node has a positive rate" -/
theorem stop_iff (P : CCParams σ) (h : WF P) (s : CCState σ) (hs : Inv P s) :
    (0 < s.ld.totalWeight) ↔ ∃ x ∈ P.nodes, 0 < P.rate s.status x := stop_iff' P h s hs

/-- **selection law**: the next node is `x` with probability rate(x)/Σ rates (times `1-ρ^k`, the probability that the
rejection sampler has stopped within `k` rounds) -/
theorem next_node_law (P : CCParams σ) (h : WF P) (s : CCState σ) (hs : Inv P s) (x : Node) (hx : x ∈ P.nodes)
    (hpos : 0 < P.rate s.status x) (k : Nat) :
    Dist.mass (s.ld.chooseDist k) (fun o => o == some x) =
      P.rate s.status x / sumRat (P.nodes.map (P.rate s.status)) * (1 - s.ld.rejProb ^ k) :=
  next_node_law' P h s hs x hx hpos k

/-- a node of rate zero is never selected -/
theorem zero_rate_never (P : CCParams σ) (h : WF P) (s : CCState σ) (hs : Inv P s) (x : Node) (hx : x ∈ P.nodes)
    (h0 : P.rate s.status x = 0) (k : Nat) :
    Dist.mass (s.ld.chooseDist k) (fun o => o == some x) = 0 := zero_rate_never' P h s hs x hx h0 k

/-- the loop never fails with `KeyError` from a state satisfying the invariant (extra, not in the target list) -/
theorem loop_no_keyerror_inv (P : CCParams σ) (h : WF P) (tmax : ERat) (cfuel fuel : Nat) (s : CCState σ) (t : ERat)
    (ts : TapeSt) (hs : Inv P s) : loop P tmax cfuel fuel s t ts ≠ .error "KeyError" :=
  loop_no_keyerror P h tmax cfuel fuel s t ts hs

end Complex

/-! ### non-vacuity: the SIR-like family of the harness on the path 0 – 1 – 2 satisfies every hypothesis -/
namespace Complex.Example

def nbrs3 : Node → List Node
  | 0 => [1]
  | 1 => [0, 2]
  | 2 => [1]
  | _ => []

def P3 : CCParams St where
  nodes := [0, 1, 2]
  rate := ComplexFam.rateOf "sir" [0, 1, 2] nbrs3 1 (1/2) 1
  choose := ComplexFam.chooseOf "sir"
  infl := fun _ u => ComplexFam.inflOf "sir" [0, 1, 2] nbrs3 u
  ret := [St.S, St.I, St.R]

def ic3 : Node → St := fun u => if u = 0 then St.I else St.S

/-- `init` succeeds: node 0 (infected, rate γ = 1/2) and node 1 (one infected neighbour, rate τ = 1) are the candidates -/
example : ((init P3 ic3 0).map fun s => (s.ld.items, s.ld.weight, s.ld.total, s.data)) =
    some ([0, 1], [(0, 1/2), (1, 1)], 3/2, [[2], [1], [0]]) := by decide +kernel

/-- the event "node 1 becomes infected": node 1 is re-weighted to γ, its neighbour 2 enters with rate τ, the counters move -/
example : ((init P3 ic3 0).bind fun s => (applyEvent P3 s 1 1).map fun s' =>
      (s'.ld.items, s'.ld.weight, s'.ld.total, s'.data)) =
    some ([1, 0, 2], [(1, 1/2), (0, 1/2), (2, 1)], 2, [[1, 2], [2, 1], [0, 0]]) := by decide +kernel

theorem P3_rate_nonneg (st : Node → St) (u : Node) : 0 ≤ P3.rate st u := by
  show 0 ≤ ComplexFam.rateOf "sir" [0, 1, 2] nbrs3 1 (1/2) 1 st u
  unfold ComplexFam.rateOf
  cases st u with
  | S => simp
  | I => norm_num
  | R => simp

theorem P3_covers : InfluenceCovers P3 := by
  intro st u x hx hxu hne
  by_contra hni
  apply hne
  have hfx : fset st u (P3.choose st u) x = st x := Gillespie.fset_ne _ _ _ _ hxu
  show ComplexFam.rateOf "sir" [0, 1, 2] nbrs3 1 (1/2) 1 _ x = ComplexFam.rateOf "sir" [0, 1, 2] nbrs3 1 (1/2) 1 st x
  unfold ComplexFam.rateOf
  rw [hfx]
  have hn : ComplexFam.nInf nbrs3 (fset st u (P3.choose st u)) x = ComplexFam.nInf nbrs3 st x := by
    unfold ComplexFam.nInf
    congr 1
    apply List.filter_congr
    intro v hv
    have hvu : v ≠ u := by
      rintro rfl
      apply hni
      show x ∈ ComplexFam.inflOf "sir" [0, 1, 2] nbrs3 v
      have hx' : x = 0 ∨ x = 1 ∨ x = 2 := by simpa [P3] using hx
      rcases hx' with rfl | rfl | rfl <;> simp [nbrs3] at hv <;> rcases hv with rfl | rfl <;> decide
    rw [Gillespie.fset_ne _ _ _ _ hvu]
  have e1 : ¬ ("sir" = "twohop") := by decide
  simp only [if_neg e1, hn]

theorem P3_wf : WF P3 where
  nodup := by decide
  rate_nonneg := P3_rate_nonneg
  infl_mem := by
    intro st u x hx
    have : x ∈ ComplexFam.inflOf "sir" [0, 1, 2] nbrs3 u := hx
    unfold ComplexFam.inflOf at this
    simp only [show ("sir" = "twohop") = False by decide, if_false] at this
    exact (List.mem_filter.1 this).1
  covers := P3_covers

/-- all hypotheses of the property theorems (including `InfluenceCovers`) hold for the concrete parameters, so the
theorems apply: e.g. every state reached by `run` satisfies the invariant -/
example (tmax : ERat) (fuel cfuel : Nat) (ts ts' : TapeSt) (s' : CCState St)
    (hr : run P3 ic3 0 tmax fuel cfuel ts = .ok (s', ts')) : Inv P3 s' :=
  run_inv P3 P3_wf ic3 0 tmax fuel cfuel ts ts' s' hr

end Complex.Example
