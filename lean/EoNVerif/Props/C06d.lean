import EoNVerif.Proofs.GenGlue
/-!
C06d — "ODE outputs conserve the population and start from the requested state", for the twelve ODE entry points
GENERATED from `EoN/analytic.py` into `Gen/OdeGlue.lean` (namespace `GenGlue`).

The solver is a parameter `odeint : Solver` (`(V → V) → V → Nat → V`: right-hand side, initial vector ↦ row `i` of the
solution at time index `i`).  Theorems named `…_conserve…` hold for EVERY solver; theorems named `…_init…` and
`…_conserve0` assume `RowZero odeint` (`odeint rhs X0 0 = X0`, the documented contract of `scipy.integrate.odeint`).

For each entry point `f`:
* `f_call`     — `f odeint args` is (guard ? `.error "EoNError"` :) `.ok (out… (odeint rhs X0))` with the generated
                 right-hand side `rhs = fun Y => Gen.d… Y params` and the packed initial vector `X0` written out; the
                 closed forms `out…` (the returned arrays as functions of the solution) are in `Proofs/GenGlue.lean`;
* `f_error` / `f_shape` — exactly when a guard fires; number of returned arrays; the first one is the time grid;
* `f_conserve…` — population conservation at every time index (and the classwise / pair identities by subtraction);
* `f_init…`     — the series start from the requested state.
Accessors: `get l j i` = value at time index `i` of the `j`-th returned array (a series), `getM l j i k` = entry of
class `k` at time index `i` of the `j`-th returned array (a class × time array), `getN l j i` = its number of classes.
The `ValueError` unpack guards of the generated code never fire (they do not occur in the `…_call` closed forms).
-/
namespace C06d
open Gen PyGlue GenGlueProofs
open ODE (sumTo)

/-! ## 0. the time grid -/

theorem times_first (tmin tmax : Rat) (tcount : Nat) : linspace tmin tmax tcount 0 = tmin :=
  linspace_zero tmin tmax tcount

theorem times_last (tmin tmax : Rat) (tcount : Nat) (h : 2 ≤ tcount) : linspace tmin tmax tcount (tcount - 1) = tmax :=
  linspace_last tmin tmax tcount h

/-! ## 1. `SIS_homogeneous_meanfield` (returns the solver's columns `S, I = X.T`) -/

theorem SIS_homogeneous_meanfield_call (odeint : Solver) (S0 I0 n tau gamma tmin tmax : Rat) (tcount : Nat) :
    GenGlue.SIS_homogeneous_meanfield odeint S0 I0 n tau gamma tmin tmax tcount =
      .ok (outSISHomMF (linspace tmin tmax tcount)
        (odeint (fun Y => Gen.dSIS_homogeneous_meanfield Y (n / (S0 + I0)) tau gamma) (V.ofList [S0, I0]))) := rfl

theorem SIS_homogeneous_meanfield_shape (odeint : Solver) (S0 I0 n tau gamma tmin tmax : Rat) (tcount : Nat) :
    ∃ l, GenGlue.SIS_homogeneous_meanfield odeint S0 I0 n tau gamma tmin tmax tcount = .ok l ∧
      l.length = 3 ∧ l[0]? = some (Ser.s (linspace tmin tmax tcount)) :=
  ⟨_, SIS_homogeneous_meanfield_call .., rfl, rfl⟩

/-- start from the requested state, hence conservation at index 0 -/
theorem SIS_homogeneous_meanfield_init (odeint : Solver) (h0 : RowZero odeint)
    (S0 I0 n tau gamma tmin tmax : Rat) (tcount : Nat) (l : List Ser)
    (h : GenGlue.SIS_homogeneous_meanfield odeint S0 I0 n tau gamma tmin tmax tcount = .ok l) :
    get l 1 0 = S0 ∧ get l 2 0 = I0 := by
  rw [SIS_homogeneous_meanfield_call] at h
  obtain rfl := ok_inj h
  simp [outSISHomMF, h0 _ _]

theorem SIS_homogeneous_meanfield_conserve0 (odeint : Solver) (h0 : RowZero odeint)
    (S0 I0 n tau gamma tmin tmax : Rat) (tcount : Nat) (l : List Ser)
    (h : GenGlue.SIS_homogeneous_meanfield odeint S0 I0 n tau gamma tmin tmax tcount = .ok l) :
    get l 1 0 + get l 2 0 = S0 + I0 := by
  obtain ⟨h1, h2⟩ := SIS_homogeneous_meanfield_init odeint h0 S0 I0 n tau gamma tmin tmax tcount l h
  rw [h1, h2]

/-- conservation at index `i` for a solver whose row `i` preserves the linear invariant "sum of the state" -/
theorem SIS_homogeneous_meanfield_conserve_of_sum (odeint : Solver)
    (S0 I0 n tau gamma tmin tmax : Rat) (tcount : Nat) (l : List Ser)
    (h : GenGlue.SIS_homogeneous_meanfield odeint S0 I0 n tau gamma tmin tmax tcount = .ok l) (i : Nat)
    (hsum : sumTo 2 (odeint (fun Y => Gen.dSIS_homogeneous_meanfield Y (n / (S0 + I0)) tau gamma)
        (V.ofList [S0, I0]) i).f = sumTo 2 (V.ofList [S0, I0]).f) :
    get l 1 i + get l 2 i = S0 + I0 := by
  rw [SIS_homogeneous_meanfield_call] at h
  obtain rfl := ok_inj h
  rw [sumTo_two, sumTo_two] at hsum
  simpa [outSISHomMF] using hsum

/-! ## 2. `SIR_homogeneous_meanfield` (`R = N - S - I`) -/

theorem SIR_homogeneous_meanfield_call (odeint : Solver) (S0 I0 R0 n tau gamma tmin tmax : Rat) (tcount : Nat) :
    GenGlue.SIR_homogeneous_meanfield odeint S0 I0 R0 n tau gamma tmin tmax tcount =
      .ok (outSIRHomMF (linspace tmin tmax tcount) (S0 + I0 + R0)
        (odeint (fun Y => Gen.dSIR_homogeneous_meanfield Y (n / (S0 + I0 + R0)) tau gamma) (V.ofList [S0, I0]))) := rfl

theorem SIR_homogeneous_meanfield_shape (odeint : Solver) (S0 I0 R0 n tau gamma tmin tmax : Rat) (tcount : Nat) :
    ∃ l, GenGlue.SIR_homogeneous_meanfield odeint S0 I0 R0 n tau gamma tmin tmax tcount = .ok l ∧
      l.length = 4 ∧ l[0]? = some (Ser.s (linspace tmin tmax tcount)) :=
  ⟨_, SIR_homogeneous_meanfield_call .., rfl, rfl⟩

theorem SIR_homogeneous_meanfield_conserve (odeint : Solver) (S0 I0 R0 n tau gamma tmin tmax : Rat) (tcount : Nat)
    (l : List Ser) (h : GenGlue.SIR_homogeneous_meanfield odeint S0 I0 R0 n tau gamma tmin tmax tcount = .ok l)
    (i : Nat) : get l 1 i + get l 2 i + get l 3 i = S0 + I0 + R0 := by
  rw [SIR_homogeneous_meanfield_call] at h
  obtain rfl := ok_inj h
  simp [outSIRHomMF]

theorem SIR_homogeneous_meanfield_init (odeint : Solver) (h0 : RowZero odeint)
    (S0 I0 R0 n tau gamma tmin tmax : Rat) (tcount : Nat) (l : List Ser)
    (h : GenGlue.SIR_homogeneous_meanfield odeint S0 I0 R0 n tau gamma tmin tmax tcount = .ok l) :
    get l 1 0 = S0 ∧ get l 2 0 = I0 ∧ get l 3 0 = R0 := by
  rw [SIR_homogeneous_meanfield_call] at h
  obtain rfl := ok_inj h
  simp only [outSIRHomMF, get_succ, get_zero_s, h0 _ _, ofList_f_zero, ofList_f_succ]
  refine ⟨trivial, trivial, ?_⟩
  ring

/-! ## 3. `SIS_homogeneous_pairwise` (`I = N - S`, `II = N*n - SS - 2*SI`) -/

theorem SIS_homogeneous_pairwise_call (odeint : Solver) (S0 I0 SI0 SS0 n tau gamma tmin tmax : Rat) (tcount : Nat)
    (full : Bool) :
    GenGlue.SIS_homogeneous_pairwise odeint S0 I0 SI0 SS0 n tau gamma tmin tmax tcount full =
      if SS0 + SI0 * 2 > n * (S0 + I0) * (1 + 1 / 10000000000) then .error "EoNError" else
      .ok (outSISHomPW (linspace tmin tmax tcount) (S0 + I0) n full
        (odeint (fun Y => Gen.dSIS_homogeneous_pairwise Y (S0 + I0) n tau gamma) (V.ofList [S0, SI0, SS0]))) := by
  unfold GenGlue.SIS_homogeneous_pairwise
  by_cases h : SS0 + SI0 * 2 > n * (S0 + I0) * (1 + 1 / 10000000000)
  · simp only [h, decide_true, if_true]; rfl
  · simp only [h, decide_false, if_false]
    cases full <;> rfl

theorem SIS_homogeneous_pairwise_error (odeint : Solver) (S0 I0 SI0 SS0 n tau gamma tmin tmax : Rat) (tcount : Nat)
    (full : Bool) (hg : SS0 + SI0 * 2 > n * (S0 + I0) * (1 + 1 / 10000000000)) :
    GenGlue.SIS_homogeneous_pairwise odeint S0 I0 SI0 SS0 n tau gamma tmin tmax tcount full = .error "EoNError" := by
  rw [SIS_homogeneous_pairwise_call, if_pos hg]

theorem SIS_homogeneous_pairwise_shape (odeint : Solver) (S0 I0 SI0 SS0 n tau gamma tmin tmax : Rat) (tcount : Nat)
    (full : Bool) (hg : ¬ SS0 + SI0 * 2 > n * (S0 + I0) * (1 + 1 / 10000000000)) :
    ∃ l, GenGlue.SIS_homogeneous_pairwise odeint S0 I0 SI0 SS0 n tau gamma tmin tmax tcount full = .ok l ∧
      l.length = (if full then 6 else 3) ∧ l[0]? = some (Ser.s (linspace tmin tmax tcount)) := by
  rw [SIS_homogeneous_pairwise_call, if_neg hg]
  refine ⟨_, rfl, ?_, ?_⟩ <;> cases full <;> rfl

theorem SIS_homogeneous_pairwise_ok_iff (odeint : Solver) (S0 I0 SI0 SS0 n tau gamma tmin tmax : Rat) (tcount : Nat)
    (full : Bool) :
    (∃ l, GenGlue.SIS_homogeneous_pairwise odeint S0 I0 SI0 SS0 n tau gamma tmin tmax tcount full = .ok l) ↔
      SS0 + SI0 * 2 ≤ n * (S0 + I0) * (1 + 1 / 10000000000) := by
  rw [SIS_homogeneous_pairwise_call]
  by_cases hg : SS0 + SI0 * 2 > n * (S0 + I0) * (1 + 1 / 10000000000)
  · rw [if_pos hg]
    exact ⟨fun ⟨_, h⟩ => (nomatch h), fun hle => absurd hg (not_lt.mpr hle)⟩
  · rw [if_neg hg]
    exact ⟨fun _ => not_lt.mp hg, fun _ => ⟨_, rfl⟩⟩

theorem SIS_homogeneous_pairwise_conserve (odeint : Solver) (S0 I0 SI0 SS0 n tau gamma tmin tmax : Rat) (tcount : Nat)
    (full : Bool) (l : List Ser)
    (h : GenGlue.SIS_homogeneous_pairwise odeint S0 I0 SI0 SS0 n tau gamma tmin tmax tcount full = .ok l) (i : Nat) :
    get l 1 i + get l 2 i = S0 + I0 := by
  rw [SIS_homogeneous_pairwise_call] at h
  obtain ⟨-, rfl⟩ := ok_of_ite h
  cases full <;> simp [outSISHomPW]

/-- full data: the pairs `SS + 2 SI + II = N n` at every time index -/
theorem SIS_homogeneous_pairwise_conserve_pairs (odeint : Solver) (S0 I0 SI0 SS0 n tau gamma tmin tmax : Rat)
    (tcount : Nat) (l : List Ser)
    (h : GenGlue.SIS_homogeneous_pairwise odeint S0 I0 SI0 SS0 n tau gamma tmin tmax tcount true = .ok l) (i : Nat) :
    get l 4 i + 2 * get l 3 i + get l 5 i = (S0 + I0) * n := by
  rw [SIS_homogeneous_pairwise_call] at h
  obtain ⟨-, rfl⟩ := ok_of_ite h
  simp only [outSISHomPW, if_true, get_succ, get_zero_s]
  ring

theorem SIS_homogeneous_pairwise_init (odeint : Solver) (h0 : RowZero odeint)
    (S0 I0 SI0 SS0 n tau gamma tmin tmax : Rat) (tcount : Nat) (full : Bool) (l : List Ser)
    (h : GenGlue.SIS_homogeneous_pairwise odeint S0 I0 SI0 SS0 n tau gamma tmin tmax tcount full = .ok l) :
    get l 1 0 = S0 ∧ get l 2 0 = I0 := by
  rw [SIS_homogeneous_pairwise_call] at h
  obtain ⟨-, rfl⟩ := ok_of_ite h
  cases full <;> simp [outSISHomPW, h0 _ _]

theorem SIS_homogeneous_pairwise_init_full (odeint : Solver) (h0 : RowZero odeint)
    (S0 I0 SI0 SS0 n tau gamma tmin tmax : Rat) (tcount : Nat) (l : List Ser)
    (h : GenGlue.SIS_homogeneous_pairwise odeint S0 I0 SI0 SS0 n tau gamma tmin tmax tcount true = .ok l) :
    get l 3 0 = SI0 ∧ get l 4 0 = SS0 ∧ get l 5 0 = (S0 + I0) * n - SS0 - 2 * SI0 := by
  rw [SIS_homogeneous_pairwise_call] at h
  obtain ⟨-, rfl⟩ := ok_of_ite h
  simp [outSISHomPW, h0 _ _]

/-! ## 4. `SIR_homogeneous_pairwise` (`R = N - S - I`) -/

theorem SIR_homogeneous_pairwise_call (odeint : Solver) (S0 I0 R0 SI0 SS0 n tau gamma tmin tmax : Rat) (tcount : Nat)
    (full : Bool) :
    GenGlue.SIR_homogeneous_pairwise odeint S0 I0 R0 SI0 SS0 n tau gamma tmin tmax tcount full =
      if SS0 + 2 * SI0 > n * (S0 + I0 + R0) * (1 + 1 / 10000000000) then .error "EoNError" else
      .ok (outSIRHomPW (linspace tmin tmax tcount) (S0 + I0 + R0) full
        (odeint (fun Y => Gen.dSIR_homogeneous_pairwise Y n tau gamma) (V.ofList [S0, I0, SI0, SS0]))) := by
  unfold GenGlue.SIR_homogeneous_pairwise
  by_cases h : SS0 + 2 * SI0 > n * (S0 + I0 + R0) * (1 + 1 / 10000000000)
  · simp only [h, decide_true, if_true]; rfl
  · simp only [h, decide_false, if_false]
    cases full <;> rfl

theorem SIR_homogeneous_pairwise_error (odeint : Solver) (S0 I0 R0 SI0 SS0 n tau gamma tmin tmax : Rat) (tcount : Nat)
    (full : Bool) (hg : SS0 + 2 * SI0 > n * (S0 + I0 + R0) * (1 + 1 / 10000000000)) :
    GenGlue.SIR_homogeneous_pairwise odeint S0 I0 R0 SI0 SS0 n tau gamma tmin tmax tcount full = .error "EoNError" := by
  rw [SIR_homogeneous_pairwise_call, if_pos hg]

theorem SIR_homogeneous_pairwise_shape (odeint : Solver) (S0 I0 R0 SI0 SS0 n tau gamma tmin tmax : Rat) (tcount : Nat)
    (full : Bool) (hg : ¬ SS0 + 2 * SI0 > n * (S0 + I0 + R0) * (1 + 1 / 10000000000)) :
    ∃ l, GenGlue.SIR_homogeneous_pairwise odeint S0 I0 R0 SI0 SS0 n tau gamma tmin tmax tcount full = .ok l ∧
      l.length = (if full then 6 else 4) ∧ l[0]? = some (Ser.s (linspace tmin tmax tcount)) := by
  rw [SIR_homogeneous_pairwise_call, if_neg hg]
  refine ⟨_, rfl, ?_, ?_⟩ <;> cases full <;> rfl

theorem SIR_homogeneous_pairwise_ok_iff (odeint : Solver) (S0 I0 R0 SI0 SS0 n tau gamma tmin tmax : Rat) (tcount : Nat)
    (full : Bool) :
    (∃ l, GenGlue.SIR_homogeneous_pairwise odeint S0 I0 R0 SI0 SS0 n tau gamma tmin tmax tcount full = .ok l) ↔
      SS0 + 2 * SI0 ≤ n * (S0 + I0 + R0) * (1 + 1 / 10000000000) := by
  rw [SIR_homogeneous_pairwise_call]
  by_cases hg : SS0 + 2 * SI0 > n * (S0 + I0 + R0) * (1 + 1 / 10000000000)
  · rw [if_pos hg]
    exact ⟨fun ⟨_, h⟩ => (nomatch h), fun hle => absurd hg (not_lt.mpr hle)⟩
  · rw [if_neg hg]
    exact ⟨fun _ => not_lt.mp hg, fun _ => ⟨_, rfl⟩⟩

theorem SIR_homogeneous_pairwise_conserve (odeint : Solver) (S0 I0 R0 SI0 SS0 n tau gamma tmin tmax : Rat) (tcount : Nat)
    (full : Bool) (l : List Ser)
    (h : GenGlue.SIR_homogeneous_pairwise odeint S0 I0 R0 SI0 SS0 n tau gamma tmin tmax tcount full = .ok l) (i : Nat) :
    get l 1 i + get l 2 i + get l 3 i = S0 + I0 + R0 := by
  rw [SIR_homogeneous_pairwise_call] at h
  obtain ⟨-, rfl⟩ := ok_of_ite h
  cases full <;> simp [outSIRHomPW]

theorem SIR_homogeneous_pairwise_init (odeint : Solver) (h0 : RowZero odeint)
    (S0 I0 R0 SI0 SS0 n tau gamma tmin tmax : Rat) (tcount : Nat) (full : Bool) (l : List Ser)
    (h : GenGlue.SIR_homogeneous_pairwise odeint S0 I0 R0 SI0 SS0 n tau gamma tmin tmax tcount full = .ok l) :
    get l 1 0 = S0 ∧ get l 2 0 = I0 ∧ get l 3 0 = R0 := by
  rw [SIR_homogeneous_pairwise_call] at h
  obtain ⟨-, rfl⟩ := ok_of_ite h
  cases full <;>
    simp only [outSIRHomPW, Bool.false_eq_true, if_false, if_true, get_succ, get_zero_s, h0 _ _, ofList_f_zero,
      ofList_f_succ] <;>
    refine ⟨trivial, trivial, ?_⟩ <;> ring

theorem SIR_homogeneous_pairwise_init_full (odeint : Solver) (h0 : RowZero odeint)
    (S0 I0 R0 SI0 SS0 n tau gamma tmin tmax : Rat) (tcount : Nat) (l : List Ser)
    (h : GenGlue.SIR_homogeneous_pairwise odeint S0 I0 R0 SI0 SS0 n tau gamma tmin tmax tcount true = .ok l) :
    get l 4 0 = SI0 ∧ get l 5 0 = SS0 := by
  rw [SIR_homogeneous_pairwise_call] at h
  obtain ⟨-, rfl⟩ := ok_of_ite h
  simp [outSIRHomPW, h0 _ _]


/-! ### closed examples (homogeneous models): the toy solver `toyOdeint` (row `i` moves `i` units from component 0 to
component 1; `RowZero toyOdeint`), the result read at a time index by `rowAt` -/
example : RowZero toyOdeint := toyOdeint_zero
/-- the `EoNError` guard fires: `SS0 + 2 SI0 = 1060 > n N (1 + 1e-10)` -/
example : rowAt (GenGlue.SIR_homogeneous_pairwise toyOdeint 90 10 0 80 900 10 1 1 0 10 11 false) 3 = .inl "EoNError" := by
  decide +kernel
example : rowAt (GenGlue.SIS_homogeneous_pairwise toyOdeint 90 10 80 900 10 1 1 0 10 11 true) 3 = .inl "EoNError" := by
  decide +kernel
/-- normal returns `[t, S, I, R]`, `[t, S, I, R, SI, SS]`, `[t, S, I, SI, SS, II]`, `[t, S, I]` at time indices 3, 10 -/
example : rowAt (GenGlue.SIR_homogeneous_pairwise toyOdeint 90 10 0 80 700 10 1 1 0 10 11 false) 3
    = .inr [[3], [87], [13], [0]] := by decide +kernel
example : rowAt (GenGlue.SIR_homogeneous_pairwise toyOdeint 90 10 0 80 700 10 1 1 0 10 11 true) 10
    = .inr [[10], [80], [20], [0], [80], [700]] := by decide +kernel
example : rowAt (GenGlue.SIS_homogeneous_pairwise toyOdeint 90 10 80 700 10 1 1 0 10 11 true) 3
    = .inr [[3], [87], [13], [83], [700], [134]] := by decide +kernel
example : rowAt (GenGlue.SIR_homogeneous_meanfield toyOdeint 90 10 0 5 1 1 0 10 11) 3
    = .inr [[3], [87], [13], [0]] := by decide +kernel
example : rowAt (GenGlue.SIS_homogeneous_meanfield toyOdeint 90 10 5 1 1 0 10 11) 3 = .inr [[3], [87], [13]] := by
  decide +kernel
/-- `SIS_homogeneous_meanfield` returns the solver's columns: for a solver that does not preserve the sum of the state
the output does not conserve the population (so the hypothesis of `…_conserve_of_sum` cannot be dropped) -/
example : rowAt (GenGlue.SIS_homogeneous_meanfield badOdeint 90 10 5 1 1 0 10 11) 1 = .inr [[1], [91], [11]] := by
  decide +kernel
/-- the hypotheses of the conservation / initial-state theorems are satisfiable -/
example : ∃ l, GenGlue.SIR_homogeneous_pairwise toyOdeint 90 10 0 80 700 10 1 1 0 10 11 true = .ok l ∧
    (∀ i, get l 1 i + get l 2 i + get l 3 i = 90 + 10 + 0) ∧ get l 1 0 = 90 ∧ get l 2 0 = 10 ∧ get l 3 0 = 0 := by
  obtain ⟨l, h, -⟩ := SIR_homogeneous_pairwise_shape toyOdeint 90 10 0 80 700 10 1 1 0 10 11 true (by norm_num)
  exact ⟨l, h, SIR_homogeneous_pairwise_conserve _ _ _ _ _ _ _ _ _ _ _ _ _ l h,
    SIR_homogeneous_pairwise_init _ toyOdeint_zero _ _ _ _ _ _ _ _ _ _ _ _ l h⟩

/-! ## 5. `SIS_super_compact_pairwise` (`S = N - I`) -/

theorem SIS_super_compact_pairwise_call (odeint : Solver)
    (S0 I0 SS0 SI0 II0 tau gamma k_ave ksquare_ave kcube_ave tmin tmax : Rat) (tcount : Nat) (full : Bool) :
    GenGlue.SIS_super_compact_pairwise odeint S0 I0 SS0 SI0 II0 tau gamma k_ave ksquare_ave kcube_ave tmin tmax tcount full =
      .ok (outSISSuperCompactPW (linspace tmin tmax tcount) (S0 + I0) full
        (odeint (fun Y => Gen.dSIS_super_compact_pairwise Y tau gamma (S0 + I0) k_ave ksquare_ave kcube_ave)
          (V.ofList [I0, SS0, SI0, II0]))) := by
  cases full <;> rfl

theorem SIS_super_compact_pairwise_shape (odeint : Solver)
    (S0 I0 SS0 SI0 II0 tau gamma k_ave ksquare_ave kcube_ave tmin tmax : Rat) (tcount : Nat) (full : Bool) :
    ∃ l, GenGlue.SIS_super_compact_pairwise odeint S0 I0 SS0 SI0 II0 tau gamma k_ave ksquare_ave kcube_ave tmin tmax
        tcount full = .ok l ∧
      l.length = (if full then 6 else 3) ∧ l[0]? = some (Ser.s (linspace tmin tmax tcount)) := by
  rw [SIS_super_compact_pairwise_call]
  refine ⟨_, rfl, ?_, ?_⟩ <;> cases full <;> rfl

theorem SIS_super_compact_pairwise_conserve (odeint : Solver)
    (S0 I0 SS0 SI0 II0 tau gamma k_ave ksquare_ave kcube_ave tmin tmax : Rat) (tcount : Nat) (full : Bool) (l : List Ser)
    (h : GenGlue.SIS_super_compact_pairwise odeint S0 I0 SS0 SI0 II0 tau gamma k_ave ksquare_ave kcube_ave tmin tmax
        tcount full = .ok l) (i : Nat) :
    get l 1 i + get l 2 i = S0 + I0 := by
  rw [SIS_super_compact_pairwise_call] at h
  obtain rfl := ok_inj h
  cases full <;> simp [outSISSuperCompactPW]

theorem SIS_super_compact_pairwise_init (odeint : Solver) (h0 : RowZero odeint)
    (S0 I0 SS0 SI0 II0 tau gamma k_ave ksquare_ave kcube_ave tmin tmax : Rat) (tcount : Nat) (full : Bool) (l : List Ser)
    (h : GenGlue.SIS_super_compact_pairwise odeint S0 I0 SS0 SI0 II0 tau gamma k_ave ksquare_ave kcube_ave tmin tmax
        tcount full = .ok l) :
    get l 1 0 = S0 ∧ get l 2 0 = I0 := by
  rw [SIS_super_compact_pairwise_call] at h
  obtain rfl := ok_inj h
  cases full <;> simp [outSISSuperCompactPW, h0 _ _]

theorem SIS_super_compact_pairwise_init_full (odeint : Solver) (h0 : RowZero odeint)
    (S0 I0 SS0 SI0 II0 tau gamma k_ave ksquare_ave kcube_ave tmin tmax : Rat) (tcount : Nat) (l : List Ser)
    (h : GenGlue.SIS_super_compact_pairwise odeint S0 I0 SS0 SI0 II0 tau gamma k_ave ksquare_ave kcube_ave tmin tmax
        tcount true = .ok l) :
    get l 3 0 = SS0 ∧ get l 4 0 = SI0 ∧ get l 5 0 = II0 := by
  rw [SIS_super_compact_pairwise_call] at h
  obtain rfl := ok_inj h
  simp [outSISSuperCompactPW, h0 _ _]

/-! ## 6. `SIR_super_compact_pairwise` (`S = N psihat(theta)`, `I = N - S - R`) -/

theorem SIR_super_compact_pairwise_call (odeint : Solver) (R0 SS0 SI0 N tau gamma : Rat)
    (psihat psihatPrime psihatDPrime : Rat → Rat) (tmin tmax : Rat) (tcount : Nat) (full : Bool) :
    GenGlue.SIR_super_compact_pairwise odeint R0 SS0 SI0 N tau gamma psihat psihatPrime psihatDPrime tmin tmax tcount full =
      .ok (outSIRSuperCompactPW (linspace tmin tmax tcount) N psihat full
        (odeint (fun Y => Gen.dSIR_super_compact_pairwise Y tau gamma psihat psihatPrime psihatDPrime N)
          (V.ofList [1, SS0, SI0, R0]))) := by
  cases full <;> rfl

theorem SIR_super_compact_pairwise_shape (odeint : Solver) (R0 SS0 SI0 N tau gamma : Rat)
    (psihat psihatPrime psihatDPrime : Rat → Rat) (tmin tmax : Rat) (tcount : Nat) (full : Bool) :
    ∃ l, GenGlue.SIR_super_compact_pairwise odeint R0 SS0 SI0 N tau gamma psihat psihatPrime psihatDPrime tmin tmax
        tcount full = .ok l ∧
      l.length = (if full then 6 else 4) ∧ l[0]? = some (Ser.s (linspace tmin tmax tcount)) := by
  rw [SIR_super_compact_pairwise_call]
  refine ⟨_, rfl, ?_, ?_⟩ <;> cases full <;> rfl

theorem SIR_super_compact_pairwise_conserve (odeint : Solver) (R0 SS0 SI0 N tau gamma : Rat)
    (psihat psihatPrime psihatDPrime : Rat → Rat) (tmin tmax : Rat) (tcount : Nat) (full : Bool) (l : List Ser)
    (h : GenGlue.SIR_super_compact_pairwise odeint R0 SS0 SI0 N tau gamma psihat psihatPrime psihatDPrime tmin tmax
        tcount full = .ok l) (i : Nat) :
    get l 1 i + get l 2 i + get l 3 i = N := by
  rw [SIR_super_compact_pairwise_call] at h
  obtain rfl := ok_inj h
  cases full <;> simp [outSIRSuperCompactPW] <;> ring

theorem SIR_super_compact_pairwise_init (odeint : Solver) (h0 : RowZero odeint) (R0 SS0 SI0 N tau gamma : Rat)
    (psihat psihatPrime psihatDPrime : Rat → Rat) (tmin tmax : Rat) (tcount : Nat) (full : Bool) (l : List Ser)
    (h : GenGlue.SIR_super_compact_pairwise odeint R0 SS0 SI0 N tau gamma psihat psihatPrime psihatDPrime tmin tmax
        tcount full = .ok l) :
    get l 1 0 = N * psihat 1 ∧ get l 2 0 = N - N * psihat 1 - R0 ∧ get l 3 0 = R0 := by
  rw [SIR_super_compact_pairwise_call] at h
  obtain rfl := ok_inj h
  cases full <;> simp [outSIRSuperCompactPW, h0 _ _]

theorem SIR_super_compact_pairwise_init_full (odeint : Solver) (h0 : RowZero odeint) (R0 SS0 SI0 N tau gamma : Rat)
    (psihat psihatPrime psihatDPrime : Rat → Rat) (tmin tmax : Rat) (tcount : Nat) (l : List Ser)
    (h : GenGlue.SIR_super_compact_pairwise odeint R0 SS0 SI0 N tau gamma psihat psihatPrime psihatDPrime tmin tmax
        tcount true = .ok l) :
    get l 4 0 = SS0 ∧ get l 5 0 = SI0 := by
  rw [SIR_super_compact_pairwise_call] at h
  obtain rfl := ok_inj h
  simp [outSIRSuperCompactPW, h0 _ _]

/-! ## 7. `EBCM` (`S = N psihat(theta)`, `I = N - S - R`) -/

theorem EBCM_call (odeint : Solver) (N : Rat) (psihat psihatPrime : Rat → Rat) (tau gamma phiS0 phiR0 R0 tmin tmax : Rat)
    (tcount : Nat) (full : Bool) :
    GenGlue.EBCM odeint N psihat psihatPrime tau gamma phiS0 phiR0 R0 tmin tmax tcount full =
      .ok (outEBCM (linspace tmin tmax tcount) N psihat full
        (odeint (fun Y => Gen.dEBCM Y N tau gamma psihat psihatPrime phiS0 phiR0) (V.ofList [1, R0]))) := by
  cases full <;> rfl

theorem EBCM_shape (odeint : Solver) (N : Rat) (psihat psihatPrime : Rat → Rat)
    (tau gamma phiS0 phiR0 R0 tmin tmax : Rat) (tcount : Nat) (full : Bool) :
    ∃ l, GenGlue.EBCM odeint N psihat psihatPrime tau gamma phiS0 phiR0 R0 tmin tmax tcount full = .ok l ∧
      l.length = (if full then 5 else 4) ∧ l[0]? = some (Ser.s (linspace tmin tmax tcount)) := by
  rw [EBCM_call]
  refine ⟨_, rfl, ?_, ?_⟩ <;> cases full <;> rfl

theorem EBCM_conserve (odeint : Solver) (N : Rat) (psihat psihatPrime : Rat → Rat)
    (tau gamma phiS0 phiR0 R0 tmin tmax : Rat) (tcount : Nat) (full : Bool) (l : List Ser)
    (h : GenGlue.EBCM odeint N psihat psihatPrime tau gamma phiS0 phiR0 R0 tmin tmax tcount full = .ok l) (i : Nat) :
    get l 1 i + get l 2 i + get l 3 i = N := by
  rw [EBCM_call] at h
  obtain rfl := ok_inj h
  cases full <;> simp [outEBCM] <;> ring

theorem EBCM_init (odeint : Solver) (h0 : RowZero odeint) (N : Rat) (psihat psihatPrime : Rat → Rat)
    (tau gamma phiS0 phiR0 R0 tmin tmax : Rat) (tcount : Nat) (full : Bool) (l : List Ser)
    (h : GenGlue.EBCM odeint N psihat psihatPrime tau gamma phiS0 phiR0 R0 tmin tmax tcount full = .ok l) :
    get l 1 0 = N * psihat 1 ∧ get l 2 0 = N - N * psihat 1 - R0 ∧ get l 3 0 = R0 := by
  rw [EBCM_call] at h
  obtain rfl := ok_inj h
  cases full <;> simp [outEBCM, h0 _ _]

/-- full data: `theta` starts at 1 and `S = N psihat(theta)` at every time index -/
theorem EBCM_full (odeint : Solver) (N : Rat) (psihat psihatPrime : Rat → Rat)
    (tau gamma phiS0 phiR0 R0 tmin tmax : Rat) (tcount : Nat) (l : List Ser)
    (h : GenGlue.EBCM odeint N psihat psihatPrime tau gamma phiS0 phiR0 R0 tmin tmax tcount true = .ok l) :
    (∀ i, get l 1 i = N * psihat (get l 4 i)) ∧ (RowZero odeint → get l 4 0 = 1) := by
  rw [EBCM_call] at h
  obtain rfl := ok_inj h
  refine ⟨fun i => by simp [outEBCM], fun h0 => by simp [outEBCM, h0 _ _]⟩


/-! ### closed examples (super-compact models and EBCM), `psihat x = x^2` -/
example : rowAt (GenGlue.SIS_super_compact_pairwise toyOdeint 90 10 700 80 20 1 1 4 20 120 0 10 11 true) 3
    = .inr [[3], [93], [7], [703], [80], [20]] := by decide +kernel
example : rowAt (GenGlue.SIR_super_compact_pairwise toyOdeint 0 700 80 100 1 1 (fun x => x ^ 2) (fun x => 2 * x)
    (fun _ => 2) 0 10 11 true) 1 = .inr [[1], [0], [100], [0], [701], [80]] := by decide +kernel
/-- `[t, S, I, R, theta]` at time index 1 and `[t, S, I, R]` at time index 0 (`S 0 = N psihat(1)`) -/
example : rowAt (GenGlue.EBCM toyOdeint 100 (fun x => x ^ 2) (fun x => 2 * x) 1 1 (9 / 10) 0 0 0 10 11 true) 1
    = .inr [[1], [0], [99], [1], [0]] := by decide +kernel
example : rowAt (GenGlue.EBCM toyOdeint 100 (fun x => x ^ 2) (fun x => 2 * x) 1 1 (9 / 10) 0 0 0 10 11 false) 0
    = .inr [[0], [100], [0], [0]] := by decide +kernel

/-! ## 8. `SIS_heterogeneous_meanfield` (returns the solver's rows `Sk, Ik = X.T[:K], X.T[K:]` and their sums) -/

theorem SIS_heterogeneous_meanfield_call (odeint : Solver) (Sk0 Ik0 : V) (tau gamma tmin tmax : Rat) (tcount : Nat)
    (full : Bool) :
    GenGlue.SIS_heterogeneous_meanfield odeint Sk0 Ik0 tau gamma tmin tmax tcount full =
      if Sk0.n ≠ Ik0.n then .error "EoNError" else
      .ok (outSISHetMF (linspace tmin tmax tcount) Sk0.n Ik0.n full
        (odeint (fun Y => Gen.dSIS_heterogeneous_meanfield Y Sk0.n tau gamma) (V.append Sk0 Ik0))) := by
  unfold GenGlue.SIS_heterogeneous_meanfield
  by_cases h : Sk0.n ≠ Ik0.n
  · rw [if_pos h, if_pos (by simpa using h)]; rfl
  · rw [if_neg h, if_neg (by simpa using h)]
    cases full <;>
      simp only [outSISHetMF, V.append_n, Nat.sub_zero, Nat.zero_add, Nat.add_sub_cancel_left] <;> rfl

theorem SIS_heterogeneous_meanfield_error (odeint : Solver) (Sk0 Ik0 : V) (tau gamma tmin tmax : Rat) (tcount : Nat)
    (full : Bool) (hg : Sk0.n ≠ Ik0.n) :
    GenGlue.SIS_heterogeneous_meanfield odeint Sk0 Ik0 tau gamma tmin tmax tcount full = .error "EoNError" := by
  rw [SIS_heterogeneous_meanfield_call, if_pos hg]

theorem SIS_heterogeneous_meanfield_shape (odeint : Solver) (Sk0 Ik0 : V) (tau gamma tmin tmax : Rat) (tcount : Nat)
    (full : Bool) (hg : Sk0.n = Ik0.n) :
    ∃ l, GenGlue.SIS_heterogeneous_meanfield odeint Sk0 Ik0 tau gamma tmin tmax tcount full = .ok l ∧
      l.length = (if full then 5 else 3) ∧ l[0]? = some (Ser.s (linspace tmin tmax tcount)) := by
  rw [SIS_heterogeneous_meanfield_call, if_neg (not_not.mpr hg)]
  refine ⟨_, rfl, ?_, ?_⟩ <;> cases full <;> rfl

theorem SIS_heterogeneous_meanfield_ok_iff (odeint : Solver) (Sk0 Ik0 : V) (tau gamma tmin tmax : Rat) (tcount : Nat)
    (full : Bool) :
    (∃ l, GenGlue.SIS_heterogeneous_meanfield odeint Sk0 Ik0 tau gamma tmin tmax tcount full = .ok l) ↔
      Sk0.n = Ik0.n := by
  rw [SIS_heterogeneous_meanfield_call]
  by_cases hg : Sk0.n = Ik0.n
  · rw [if_neg (not_not.mpr hg)]; simp [hg]
  · rw [if_pos hg]; simp [hg]

/-- full data: both class arrays have `K` classes, the returned totals are their sums, and they are the solver's
rows -/
theorem SIS_heterogeneous_meanfield_full (odeint : Solver) (Sk0 Ik0 : V) (tau gamma tmin tmax : Rat) (tcount : Nat)
    (l : List Ser) (h : GenGlue.SIS_heterogeneous_meanfield odeint Sk0 Ik0 tau gamma tmin tmax tcount true = .ok l)
    (i : Nat) :
    getN l 3 i = Sk0.n ∧ getN l 4 i = Sk0.n ∧
    get l 1 i = sumTo Sk0.n (getM l 3 i) ∧ get l 2 i = sumTo Sk0.n (getM l 4 i) ∧
    (∀ k, getM l 3 i k =
      (odeint (fun Y => Gen.dSIS_heterogeneous_meanfield Y Sk0.n tau gamma) (V.append Sk0 Ik0) i).f k) ∧
    (∀ k, getM l 4 i k =
      (odeint (fun Y => Gen.dSIS_heterogeneous_meanfield Y Sk0.n tau gamma) (V.append Sk0 Ik0) i).f (Sk0.n + k)) := by
  rw [SIS_heterogeneous_meanfield_call] at h
  obtain ⟨hg, rfl⟩ := ok_of_ite h
  have hn : Ik0.n = Sk0.n := (not_not.mp hg).symm
  have := outSISHetMF_full (linspace tmin tmax tcount)
    (odeint (fun Y => Gen.dSIS_heterogeneous_meanfield Y Sk0.n tau gamma) (V.append Sk0 Ik0)) Sk0.n Ik0.n i
  rw [hn] at this ⊢
  exact this

theorem SIS_heterogeneous_meanfield_init (odeint : Solver) (h0 : RowZero odeint) (Sk0 Ik0 : V)
    (tau gamma tmin tmax : Rat) (tcount : Nat) (full : Bool) (l : List Ser)
    (h : GenGlue.SIS_heterogeneous_meanfield odeint Sk0 Ik0 tau gamma tmin tmax tcount full = .ok l) :
    get l 1 0 = sumTo Sk0.n Sk0.f ∧ get l 2 0 = sumTo Ik0.n Ik0.f := by
  rw [SIS_heterogeneous_meanfield_call] at h
  obtain ⟨-, rfl⟩ := ok_of_ite h
  exact outSISHetMF_init _ _ Sk0 Ik0 full (h0 _ _)

theorem SIS_heterogeneous_meanfield_init_full (odeint : Solver) (h0 : RowZero odeint) (Sk0 Ik0 : V)
    (tau gamma tmin tmax : Rat) (tcount : Nat) (l : List Ser)
    (h : GenGlue.SIS_heterogeneous_meanfield odeint Sk0 Ik0 tau gamma tmin tmax tcount true = .ok l) :
    (∀ k, k < Sk0.n → getM l 3 0 k = Sk0.f k) ∧ (∀ k, getM l 4 0 k = Ik0.f k) := by
  obtain ⟨-, -, -, -, h3, h4⟩ := SIS_heterogeneous_meanfield_full odeint Sk0 Ik0 tau gamma tmin tmax tcount l h 0
  refine ⟨fun k hk => ?_, fun k => ?_⟩
  · rw [h3, h0 _ _, V.append_f_lt _ _ k hk]
  · rw [h4, h0 _ _, V.append_f_ge]

theorem SIS_heterogeneous_meanfield_conserve0 (odeint : Solver) (h0 : RowZero odeint) (Sk0 Ik0 : V)
    (tau gamma tmin tmax : Rat) (tcount : Nat) (full : Bool) (l : List Ser)
    (h : GenGlue.SIS_heterogeneous_meanfield odeint Sk0 Ik0 tau gamma tmin tmax tcount full = .ok l) :
    get l 1 0 + get l 2 0 = sumTo Sk0.n Sk0.f + sumTo Ik0.n Ik0.f := by
  obtain ⟨h1, h2⟩ := SIS_heterogeneous_meanfield_init odeint h0 Sk0 Ik0 tau gamma tmin tmax tcount full l h
  rw [h1, h2]

/-- conservation at index `i` for a solver whose row `i` preserves the linear invariant "sum of the state" -/
theorem SIS_heterogeneous_meanfield_conserve_of_sum (odeint : Solver) (Sk0 Ik0 : V)
    (tau gamma tmin tmax : Rat) (tcount : Nat) (full : Bool) (l : List Ser)
    (h : GenGlue.SIS_heterogeneous_meanfield odeint Sk0 Ik0 tau gamma tmin tmax tcount full = .ok l) (i : Nat)
    (hsum : sumTo (V.append Sk0 Ik0).n
        (odeint (fun Y => Gen.dSIS_heterogeneous_meanfield Y Sk0.n tau gamma) (V.append Sk0 Ik0) i).f
      = sumTo (V.append Sk0 Ik0).n (V.append Sk0 Ik0).f) :
    get l 1 i + get l 2 i = sumTo Sk0.n Sk0.f + sumTo Ik0.n Ik0.f := by
  rw [SIS_heterogeneous_meanfield_call] at h
  obtain ⟨-, rfl⟩ := ok_of_ite h
  rw [outSISHetMF_sum, ← sumTo_append]
  exact hsum

/-! ## 9. `SIR_heterogeneous_meanfield` (`Sk = Sk0 theta^k`, `Ik = Nk - Sk - Rk` classwise) -/

theorem SIR_heterogeneous_meanfield_call (odeint : Solver) (Sk0 Ik0 Rk0 : V) (tau gamma tmin tmax : Rat) (tcount : Nat)
    (full : Bool) :
    GenGlue.SIR_heterogeneous_meanfield odeint Sk0 Ik0 Rk0 tau gamma tmin tmax tcount full =
      if Sk0.n ≠ Ik0.n ∨ Sk0.n ≠ Rk0.n then .error "EoNError" else
      .ok (outSIRHetMF (linspace tmin tmax tcount) Sk0 (vadd (vadd Sk0 Ik0) Rk0) Rk0.n full
        (odeint (fun Y => Gen.dSIR_heterogeneous_meanfield Y Sk0 (vadd (vadd Sk0 Ik0) Rk0) tau gamma)
          (V.append (V.ofList [1]) Rk0))) := by
  unfold GenGlue.SIR_heterogeneous_meanfield
  by_cases h : Sk0.n ≠ Ik0.n ∨ Sk0.n ≠ Rk0.n
  · rw [if_pos h, if_pos (by simpa using h)]; rfl
  · rw [if_neg h, if_neg (by simpa using h)]
    cases full <;>
      simp only [outSIRHetMF, V.append_n, V.ofList_n, List.length_cons, List.length_nil, Nat.zero_add,
        Nat.add_sub_cancel_left] <;> rfl

theorem SIR_heterogeneous_meanfield_error (odeint : Solver) (Sk0 Ik0 Rk0 : V) (tau gamma tmin tmax : Rat) (tcount : Nat)
    (full : Bool) (hg : Sk0.n ≠ Ik0.n ∨ Sk0.n ≠ Rk0.n) :
    GenGlue.SIR_heterogeneous_meanfield odeint Sk0 Ik0 Rk0 tau gamma tmin tmax tcount full = .error "EoNError" := by
  rw [SIR_heterogeneous_meanfield_call, if_pos hg]

theorem SIR_heterogeneous_meanfield_shape (odeint : Solver) (Sk0 Ik0 Rk0 : V) (tau gamma tmin tmax : Rat) (tcount : Nat)
    (full : Bool) (hI : Sk0.n = Ik0.n) (hR : Sk0.n = Rk0.n) :
    ∃ l, GenGlue.SIR_heterogeneous_meanfield odeint Sk0 Ik0 Rk0 tau gamma tmin tmax tcount full = .ok l ∧
      l.length = 4 ∧ l[0]? = some (Ser.s (linspace tmin tmax tcount)) := by
  rw [SIR_heterogeneous_meanfield_call, if_neg (by rintro (h | h); exacts [h hI, h hR])]
  refine ⟨_, rfl, ?_, ?_⟩ <;> cases full <;> rfl

theorem SIR_heterogeneous_meanfield_ok_iff (odeint : Solver) (Sk0 Ik0 Rk0 : V) (tau gamma tmin tmax : Rat)
    (tcount : Nat) (full : Bool) :
    (∃ l, GenGlue.SIR_heterogeneous_meanfield odeint Sk0 Ik0 Rk0 tau gamma tmin tmax tcount full = .ok l) ↔
      Sk0.n = Ik0.n ∧ Sk0.n = Rk0.n := by
  rw [SIR_heterogeneous_meanfield_call]
  by_cases hg : Sk0.n ≠ Ik0.n ∨ Sk0.n ≠ Rk0.n
  · rw [if_pos hg]
    constructor
    · rintro ⟨l, h⟩; cases h
    · rintro ⟨h1, h2⟩; rcases hg with h | h; exacts [absurd h1 h, absurd h2 h]
  · rw [if_neg hg]
    refine ⟨fun _ => ?_, fun _ => ⟨_, rfl⟩⟩
    constructor <;> by_contra hne
    · exact hg (Or.inl hne)
    · exact hg (Or.inr hne)

/-- `S + I + R` is the total of the requested initial state at every time index, for every solver -/
theorem SIR_heterogeneous_meanfield_conserve (odeint : Solver) (Sk0 Ik0 Rk0 : V) (tau gamma tmin tmax : Rat)
    (tcount : Nat) (l : List Ser)
    (h : GenGlue.SIR_heterogeneous_meanfield odeint Sk0 Ik0 Rk0 tau gamma tmin tmax tcount false = .ok l) (i : Nat) :
    get l 1 i + get l 2 i + get l 3 i = sumTo Sk0.n Sk0.f + sumTo Ik0.n Ik0.f + sumTo Rk0.n Rk0.f := by
  rw [SIR_heterogeneous_meanfield_call] at h
  obtain ⟨hg, rfl⟩ := ok_of_ite h
  have hI : Ik0.n = Sk0.n := by
    by_contra hne; exact hg (Or.inl (fun e => hne e.symm))
  have hR : Rk0.n = Sk0.n := by
    by_contra hne; exact hg (Or.inr (fun e => hne e.symm))
  rw [hR, hI, outSIRHetMF_conserve _ _ Sk0 (vadd (vadd Sk0 Ik0) Rk0) i rfl]
  exact sumTo_add3 _ _ _ _

/-- full data: classwise `Sk + Ik + Rk = Sk0 + Ik0 + Rk0`, all three arrays have `K` classes, and the sums over the
classes conserve the total -/
theorem SIR_heterogeneous_meanfield_conserve_full (odeint : Solver) (Sk0 Ik0 Rk0 : V) (tau gamma tmin tmax : Rat)
    (tcount : Nat) (l : List Ser)
    (h : GenGlue.SIR_heterogeneous_meanfield odeint Sk0 Ik0 Rk0 tau gamma tmin tmax tcount true = .ok l) (i : Nat) :
    (∀ k, getM l 1 i k + getM l 2 i k + getM l 3 i k = Sk0.f k + Ik0.f k + Rk0.f k) ∧
    getN l 1 i = Sk0.n ∧ getN l 2 i = Sk0.n ∧ getN l 3 i = Sk0.n ∧
    sumTo Sk0.n (getM l 1 i) + sumTo Sk0.n (getM l 2 i) + sumTo Sk0.n (getM l 3 i)
      = sumTo Sk0.n Sk0.f + sumTo Ik0.n Ik0.f + sumTo Rk0.n Rk0.f := by
  rw [SIR_heterogeneous_meanfield_call] at h
  obtain ⟨hg, rfl⟩ := ok_of_ite h
  have hI : Ik0.n = Sk0.n := by
    by_contra hne; exact hg (Or.inl (fun e => hne e.symm))
  have hR : Rk0.n = Sk0.n := by
    by_contra hne; exact hg (Or.inr (fun e => hne e.symm))
  have hk := outSIRHetMF_conserve_full (linspace tmin tmax tcount)
    (odeint (fun Y => Gen.dSIR_heterogeneous_meanfield Y Sk0 (vadd (vadd Sk0 Ik0) Rk0) tau gamma)
      (V.append (V.ofList [1]) Rk0)) Sk0 (vadd (vadd Sk0 Ik0) Rk0) Rk0.n i
  obtain ⟨c1, c2, c3⟩ := outSIRHetMF_classes (linspace tmin tmax tcount)
    (odeint (fun Y => Gen.dSIR_heterogeneous_meanfield Y Sk0 (vadd (vadd Sk0 Ik0) Rk0) tau gamma)
      (V.append (V.ofList [1]) Rk0)) Sk0 (vadd (vadd Sk0 Ik0) Rk0) Rk0.n i
  refine ⟨hk, c1, c2, c3.trans hR, ?_⟩
  rw [← sumTo_add3, hI, hR, ← sumTo_add3]
  exact ODE.sumTo_congr _ _ _ (fun k _ => hk k)

theorem SIR_heterogeneous_meanfield_init (odeint : Solver) (h0 : RowZero odeint) (Sk0 Ik0 Rk0 : V)
    (tau gamma tmin tmax : Rat) (tcount : Nat) (l : List Ser)
    (h : GenGlue.SIR_heterogeneous_meanfield odeint Sk0 Ik0 Rk0 tau gamma tmin tmax tcount false = .ok l) :
    get l 1 0 = sumTo Sk0.n Sk0.f ∧ get l 2 0 = sumTo Ik0.n Ik0.f ∧ get l 3 0 = sumTo Rk0.n Rk0.f := by
  rw [SIR_heterogeneous_meanfield_call] at h
  obtain ⟨hg, rfl⟩ := ok_of_ite h
  have hI : Ik0.n = Sk0.n := by
    by_contra hne; exact hg (Or.inl (fun e => hne e.symm))
  rw [hI]
  exact outSIRHetMF_init _ _ Sk0 Ik0 Rk0 (h0 _ _)

/-- full data: `theta 0 = 1`, so the class arrays start from the requested class vectors -/
theorem SIR_heterogeneous_meanfield_init_full (odeint : Solver) (h0 : RowZero odeint) (Sk0 Ik0 Rk0 : V)
    (tau gamma tmin tmax : Rat) (tcount : Nat) (l : List Ser)
    (h : GenGlue.SIR_heterogeneous_meanfield odeint Sk0 Ik0 Rk0 tau gamma tmin tmax tcount true = .ok l) (k : Nat) :
    getM l 1 0 k = Sk0.f k ∧ getM l 2 0 k = Ik0.f k ∧ getM l 3 0 k = Rk0.f k := by
  rw [SIR_heterogeneous_meanfield_call] at h
  obtain ⟨-, rfl⟩ := ok_of_ite h
  exact outSIRHetMF_init_full _ _ Sk0 Ik0 Rk0 (h0 _ _) k

/-! ## 10. `SIS_compact_pairwise` (`Ik = Nk - Sk` classwise, `II = twoM - SS - 2 SI`).
The generated code (as NumPy for equal lengths) forms `Nk = Sk0 + Ik0` on the `Sk0.n` classes of `Sk0`; the totals of
`Ik0` are therefore taken over `Sk0.n` classes (`= Ik0.n` classes for arrays of equal length). -/

theorem SIS_compact_pairwise_call (odeint : Solver) (Sk0 Ik0 : V) (SI0 SS0 II0 tau gamma tmin tmax : Rat)
    (tcount : Nat) (full : Bool) :
    GenGlue.SIS_compact_pairwise odeint Sk0 Ik0 SI0 SS0 II0 tau gamma tmin tmax tcount full =
      .ok (outSISCompactPW (linspace tmin tmax tcount) (vadd Sk0 Ik0) (SS0 + II0 + 2 * SI0) Sk0.n full
        (odeint (fun Y => Gen.dSIS_compact_pairwise Y (vadd Sk0 Ik0) (SS0 + II0 + 2 * SI0) tau gamma)
          (V.append Sk0 (V.ofList [SI0, SS0])))) := by
  unfold GenGlue.SIS_compact_pairwise
  cases full <;>
    simp only [outSISCompactPW, V.append_n, V.ofList_n, List.length_cons, List.length_nil, Nat.zero_add,
      Nat.add_sub_cancel_left, Nat.add_sub_cancel, Nat.sub_zero, Nat.add_zero, ne_eq, not_true_eq_false, if_false] <;> rfl

theorem SIS_compact_pairwise_shape (odeint : Solver) (Sk0 Ik0 : V) (SI0 SS0 II0 tau gamma tmin tmax : Rat)
    (tcount : Nat) (full : Bool) :
    ∃ l, GenGlue.SIS_compact_pairwise odeint Sk0 Ik0 SI0 SS0 II0 tau gamma tmin tmax tcount full = .ok l ∧
      l.length = (if full then 8 else 3) ∧ l[0]? = some (Ser.s (linspace tmin tmax tcount)) := by
  rw [SIS_compact_pairwise_call]
  refine ⟨_, rfl, ?_, ?_⟩ <;> cases full <;> rfl

theorem SIS_compact_pairwise_conserve (odeint : Solver) (Sk0 Ik0 : V) (SI0 SS0 II0 tau gamma tmin tmax : Rat)
    (tcount : Nat) (full : Bool) (l : List Ser)
    (h : GenGlue.SIS_compact_pairwise odeint Sk0 Ik0 SI0 SS0 II0 tau gamma tmin tmax tcount full = .ok l) (i : Nat) :
    get l 1 i + get l 2 i = sumTo Sk0.n Sk0.f + sumTo Sk0.n Ik0.f := by
  rw [SIS_compact_pairwise_call] at h
  obtain rfl := ok_inj h
  rw [← ODE.sumTo_add]
  exact outSISCompactPW_conserve _ _ (vadd Sk0 Ik0) _ full i

/-- full data: classwise `Sk + Ik = Sk0 + Ik0`, `K` classes, totals are the class sums, and the pair identity
`SS + 2 SI + II = SS0 + 2 SI0 + II0` at every time index -/
theorem SIS_compact_pairwise_conserve_full (odeint : Solver) (Sk0 Ik0 : V) (SI0 SS0 II0 tau gamma tmin tmax : Rat)
    (tcount : Nat) (l : List Ser)
    (h : GenGlue.SIS_compact_pairwise odeint Sk0 Ik0 SI0 SS0 II0 tau gamma tmin tmax tcount true = .ok l) (i : Nat) :
    (∀ k, getM l 3 i k + getM l 4 i k = Sk0.f k + Ik0.f k) ∧
    getN l 3 i = Sk0.n ∧ getN l 4 i = Sk0.n ∧
    get l 1 i = sumTo Sk0.n (getM l 3 i) ∧ get l 2 i = sumTo Sk0.n (getM l 4 i) ∧
    get l 6 i + 2 * get l 5 i + get l 7 i = SS0 + 2 * SI0 + II0 := by
  rw [SIS_compact_pairwise_call] at h
  obtain rfl := ok_inj h
  obtain ⟨a, b, c, d, e, f⟩ := outSISCompactPW_full (linspace tmin tmax tcount)
    (odeint (fun Y => Gen.dSIS_compact_pairwise Y (vadd Sk0 Ik0) (SS0 + II0 + 2 * SI0) tau gamma)
      (V.append Sk0 (V.ofList [SI0, SS0]))) (vadd Sk0 Ik0) (SS0 + II0 + 2 * SI0) Sk0.n i
  refine ⟨e, a, b, c, d, ?_⟩
  rw [f]; ring

theorem SIS_compact_pairwise_init (odeint : Solver) (h0 : RowZero odeint) (Sk0 Ik0 : V)
    (SI0 SS0 II0 tau gamma tmin tmax : Rat) (tcount : Nat) (full : Bool) (l : List Ser)
    (h : GenGlue.SIS_compact_pairwise odeint Sk0 Ik0 SI0 SS0 II0 tau gamma tmin tmax tcount full = .ok l) :
    get l 1 0 = sumTo Sk0.n Sk0.f ∧ get l 2 0 = sumTo Sk0.n Ik0.f := by
  rw [SIS_compact_pairwise_call] at h
  obtain rfl := ok_inj h
  exact outSISCompactPW_init _ _ Sk0 Ik0 _ SI0 SS0 full (h0 _ _)

theorem SIS_compact_pairwise_init_full (odeint : Solver) (h0 : RowZero odeint) (Sk0 Ik0 : V)
    (SI0 SS0 II0 tau gamma tmin tmax : Rat) (tcount : Nat) (l : List Ser)
    (h : GenGlue.SIS_compact_pairwise odeint Sk0 Ik0 SI0 SS0 II0 tau gamma tmin tmax tcount true = .ok l) :
    (∀ k, k < Sk0.n → getM l 3 0 k = Sk0.f k) ∧ (∀ k, k < Sk0.n → getM l 4 0 k = Ik0.f k) ∧
    get l 5 0 = SI0 ∧ get l 6 0 = SS0 ∧ get l 7 0 = II0 := by
  rw [SIS_compact_pairwise_call] at h
  obtain rfl := ok_inj h
  obtain ⟨a, b, c, d, e⟩ := outSISCompactPW_init_full (linspace tmin tmax tcount) _ Sk0 Ik0 (SS0 + II0 + 2 * SI0)
    SI0 SS0 (h0 (fun Y => Gen.dSIS_compact_pairwise Y (vadd Sk0 Ik0) (SS0 + II0 + 2 * SI0) tau gamma)
      (V.append Sk0 (V.ofList [SI0, SS0])))
  refine ⟨a, b, c, d, ?_⟩
  rw [e]; ring

/-! ## 11. `SIR_compact_pairwise` (`I = N - R - S`, `N = I0 + R0 + Σ Sk0`) -/

theorem SIR_compact_pairwise_call (odeint : Solver) (Sk0 : V) (I0 R0 SS0 SI0 tau gamma tmin tmax : Rat)
    (tcount : Nat) (full : Bool) :
    GenGlue.SIR_compact_pairwise odeint Sk0 I0 R0 SS0 SI0 tau gamma tmin tmax tcount full =
      .ok (outSIRCompactPW (linspace tmin tmax tcount) (I0 + R0 + sumTo Sk0.n Sk0.f) Sk0.n full
        (odeint (fun Y => Gen.dSIR_compact_pairwise Y (I0 + R0 + sumTo Sk0.n Sk0.f) tau gamma)
          (V.append Sk0 (V.ofList [SS0, SI0, R0])))) := by
  unfold GenGlue.SIR_compact_pairwise
  cases full <;>
    simp only [outSIRCompactPW, V.append_n, V.ofList_n, List.length_cons, List.length_nil, Nat.zero_add,
      Nat.add_sub_cancel_left, Nat.add_sub_cancel, Nat.sub_zero, Nat.add_zero, ne_eq, not_true_eq_false, if_false] <;> rfl

theorem SIR_compact_pairwise_shape (odeint : Solver) (Sk0 : V) (I0 R0 SS0 SI0 tau gamma tmin tmax : Rat)
    (tcount : Nat) (full : Bool) :
    ∃ l, GenGlue.SIR_compact_pairwise odeint Sk0 I0 R0 SS0 SI0 tau gamma tmin tmax tcount full = .ok l ∧
      l.length = (if full then 6 else 4) ∧ l[0]? = some (Ser.s (linspace tmin tmax tcount)) := by
  rw [SIR_compact_pairwise_call]
  refine ⟨_, rfl, ?_, ?_⟩ <;> cases full <;> rfl

theorem SIR_compact_pairwise_conserve (odeint : Solver) (Sk0 : V) (I0 R0 SS0 SI0 tau gamma tmin tmax : Rat)
    (tcount : Nat) (l : List Ser)
    (h : GenGlue.SIR_compact_pairwise odeint Sk0 I0 R0 SS0 SI0 tau gamma tmin tmax tcount false = .ok l) (i : Nat) :
    get l 1 i + get l 2 i + get l 3 i = sumTo Sk0.n Sk0.f + I0 + R0 := by
  rw [SIR_compact_pairwise_call] at h
  obtain rfl := ok_inj h
  rw [outSIRCompactPW_conserve]; ring

/-- full data (`Sk, I, R` returned): `Σ_k Sk + I + R = N` at every time index, `K` classes -/
theorem SIR_compact_pairwise_conserve_full (odeint : Solver) (Sk0 : V) (I0 R0 SS0 SI0 tau gamma tmin tmax : Rat)
    (tcount : Nat) (l : List Ser)
    (h : GenGlue.SIR_compact_pairwise odeint Sk0 I0 R0 SS0 SI0 tau gamma tmin tmax tcount true = .ok l) (i : Nat) :
    getN l 1 i = Sk0.n ∧ sumTo Sk0.n (getM l 1 i) + get l 2 i + get l 3 i = sumTo Sk0.n Sk0.f + I0 + R0 := by
  rw [SIR_compact_pairwise_call] at h
  obtain rfl := ok_inj h
  obtain ⟨a, b⟩ := outSIRCompactPW_conserve_full (linspace tmin tmax tcount)
    (odeint (fun Y => Gen.dSIR_compact_pairwise Y (I0 + R0 + sumTo Sk0.n Sk0.f) tau gamma)
      (V.append Sk0 (V.ofList [SS0, SI0, R0]))) (I0 + R0 + sumTo Sk0.n Sk0.f) Sk0.n i
  refine ⟨a, ?_⟩
  rw [b]; ring

theorem SIR_compact_pairwise_init (odeint : Solver) (h0 : RowZero odeint) (Sk0 : V)
    (I0 R0 SS0 SI0 tau gamma tmin tmax : Rat) (tcount : Nat) (l : List Ser)
    (h : GenGlue.SIR_compact_pairwise odeint Sk0 I0 R0 SS0 SI0 tau gamma tmin tmax tcount false = .ok l) :
    get l 1 0 = sumTo Sk0.n Sk0.f ∧ get l 2 0 = I0 ∧ get l 3 0 = R0 := by
  rw [SIR_compact_pairwise_call] at h
  obtain rfl := ok_inj h
  exact outSIRCompactPW_init _ _ Sk0 I0 R0 SS0 SI0 (h0 _ _)

theorem SIR_compact_pairwise_init_full (odeint : Solver) (h0 : RowZero odeint) (Sk0 : V)
    (I0 R0 SS0 SI0 tau gamma tmin tmax : Rat) (tcount : Nat) (l : List Ser)
    (h : GenGlue.SIR_compact_pairwise odeint Sk0 I0 R0 SS0 SI0 tau gamma tmin tmax tcount true = .ok l) :
    (∀ k, k < Sk0.n → getM l 1 0 k = Sk0.f k) ∧ get l 2 0 = I0 ∧ get l 3 0 = R0 ∧ get l 4 0 = SS0 ∧ get l 5 0 = SI0 := by
  rw [SIR_compact_pairwise_call] at h
  obtain rfl := ok_inj h
  exact outSIRCompactPW_init_full _ _ Sk0 I0 R0 SS0 SI0 (h0 _ _)

/-! ## 12. `SIR_compact_effective_degree` (`I = N - S - R`, `N = Σ Skappa0 + I0 + R0`) -/

theorem SIR_compact_effective_degree_call (odeint : Solver) (Skappa0 : V) (I0 R0 SI0 tau gamma tmin tmax : Rat)
    (tcount : Nat) (full : Bool) :
    GenGlue.SIR_compact_effective_degree odeint Skappa0 I0 R0 SI0 tau gamma tmin tmax tcount full =
      .ok (outSIRCompactED (linspace tmin tmax tcount) (sumTo Skappa0.n Skappa0.f + I0 + R0) Skappa0.n full
        (odeint (fun Y => Gen.dSIR_compact_effective_degree Y (sumTo Skappa0.n Skappa0.f + I0 + R0) tau gamma)
          (V.append Skappa0 (V.ofList [R0, SI0])))) := by
  unfold GenGlue.SIR_compact_effective_degree
  cases full <;>
    simp only [outSIRCompactED, V.append_n, V.ofList_n, List.length_cons, List.length_nil, Nat.zero_add,
      Nat.add_sub_cancel_left, Nat.add_sub_cancel, Nat.sub_zero, Nat.add_zero, ne_eq, not_true_eq_false, if_false] <;> rfl

theorem SIR_compact_effective_degree_shape (odeint : Solver) (Skappa0 : V) (I0 R0 SI0 tau gamma tmin tmax : Rat)
    (tcount : Nat) (full : Bool) :
    ∃ l, GenGlue.SIR_compact_effective_degree odeint Skappa0 I0 R0 SI0 tau gamma tmin tmax tcount full = .ok l ∧
      l.length = (if full then 6 else 4) ∧ l[0]? = some (Ser.s (linspace tmin tmax tcount)) := by
  rw [SIR_compact_effective_degree_call]
  refine ⟨_, rfl, ?_, ?_⟩ <;> cases full <;> rfl

theorem SIR_compact_effective_degree_conserve (odeint : Solver) (Skappa0 : V) (I0 R0 SI0 tau gamma tmin tmax : Rat)
    (tcount : Nat) (full : Bool) (l : List Ser)
    (h : GenGlue.SIR_compact_effective_degree odeint Skappa0 I0 R0 SI0 tau gamma tmin tmax tcount full = .ok l)
    (i : Nat) : get l 1 i + get l 2 i + get l 3 i = sumTo Skappa0.n Skappa0.f + I0 + R0 := by
  rw [SIR_compact_effective_degree_call] at h
  obtain rfl := ok_inj h
  exact outSIRCompactED_conserve _ _ _ _ full i

theorem SIR_compact_effective_degree_init (odeint : Solver) (h0 : RowZero odeint) (Skappa0 : V)
    (I0 R0 SI0 tau gamma tmin tmax : Rat) (tcount : Nat) (full : Bool) (l : List Ser)
    (h : GenGlue.SIR_compact_effective_degree odeint Skappa0 I0 R0 SI0 tau gamma tmin tmax tcount full = .ok l) :
    get l 1 0 = sumTo Skappa0.n Skappa0.f ∧ get l 2 0 = I0 ∧ get l 3 0 = R0 := by
  rw [SIR_compact_effective_degree_call] at h
  obtain rfl := ok_inj h
  exact outSIRCompactED_init _ _ Skappa0 I0 R0 SI0 full (h0 _ _)

/-- full data: `K` classes, `S` is the class sum at every time index; the class array and `SI` start from the
requested values -/
theorem SIR_compact_effective_degree_full (odeint : Solver) (Skappa0 : V) (I0 R0 SI0 tau gamma tmin tmax : Rat)
    (tcount : Nat) (l : List Ser)
    (h : GenGlue.SIR_compact_effective_degree odeint Skappa0 I0 R0 SI0 tau gamma tmin tmax tcount true = .ok l) :
    (∀ i, getN l 4 i = Skappa0.n ∧ get l 1 i = sumTo Skappa0.n (getM l 4 i)) ∧
    (RowZero odeint → (∀ k, k < Skappa0.n → getM l 4 0 k = Skappa0.f k) ∧ get l 5 0 = SI0) := by
  rw [SIR_compact_effective_degree_call] at h
  obtain rfl := ok_inj h
  exact ⟨fun i => outSIRCompactED_full _ _ _ _ i, fun h0 => outSIRCompactED_init_full _ _ Skappa0 _ R0 SI0 (h0 _ _)⟩


/-! ### closed examples (class-structured models), three degree classes -/
/-- the length guard fires -/
example : rowAt (GenGlue.SIS_heterogeneous_meanfield toyOdeint (V.ofList [0, 30, 60]) (V.ofList [0, 4]) 1 1 0 10 11 true) 3
    = .inl "EoNError" := by decide +kernel
example : rowAt (GenGlue.SIR_heterogeneous_meanfield toyOdeint (V.ofList [10, 30, 50]) (V.ofList [0, 4, 6])
    (V.ofList [0, 0]) 1 1 0 10 11 true) 1 = .inl "EoNError" := by decide +kernel
/-- `[t, S, I, Sk, Ik]` -/
example : rowAt (GenGlue.SIS_heterogeneous_meanfield toyOdeint (V.ofList [10, 30, 50]) (V.ofList [0, 4, 6]) 1 1 0 10 11
    true) 3 = .inr [[3], [90], [10], [7, 33, 50], [0, 4, 6]] := by decide +kernel
/-- `[t, Sk, Ik, Rk]` and `[t, S, I, R]` at time index 2 (`theta = -1` for the toy solver): 30 + 68 + 2 = 100 -/
example : rowAt (GenGlue.SIR_heterogeneous_meanfield toyOdeint (V.ofList [10, 30, 50]) (V.ofList [0, 4, 6])
    (V.ofList [0, 0, 0]) 1 1 0 10 11 true) 2 = .inr [[2], [10, -30, 50], [-2, 64, 6], [2, 0, 0]] := by decide +kernel
example : rowAt (GenGlue.SIR_heterogeneous_meanfield toyOdeint (V.ofList [10, 30, 50]) (V.ofList [0, 4, 6])
    (V.ofList [0, 0, 0]) 1 1 0 10 11 false) 2 = .inr [[2], [30], [68], [2]] := by decide +kernel
/-- `[t, S, I, Sk, Ik, SI, SS, II]` -/
example : rowAt (GenGlue.SIS_compact_pairwise toyOdeint (V.ofList [10, 30, 50]) (V.ofList [0, 4, 6]) 30 150 4 1 1 0 10 11
    true) 3 = .inr [[3], [90], [10], [7, 33, 50], [3, 1, 6], [30], [150], [4]] := by decide +kernel
/-- `[t, Sk, I, R, SS, SI]` and `[t, S, I, R]` -/
example : rowAt (GenGlue.SIR_compact_pairwise toyOdeint (V.ofList [10, 30, 50]) 10 0 150 30 1 1 0 10 11 true) 3
    = .inr [[3], [7, 33, 50], [10], [0], [150], [30]] := by decide +kernel
example : rowAt (GenGlue.SIR_compact_pairwise toyOdeint (V.ofList [10, 30, 50]) 10 0 150 30 1 1 0 10 11 false) 3
    = .inr [[3], [90], [10], [0]] := by decide +kernel
/-- `[t, S, I, R, Skappa, SI]` -/
example : rowAt (GenGlue.SIR_compact_effective_degree toyOdeint (V.ofList [10, 30, 50]) 10 0 30 1 1 0 10 11 true) 3
    = .inr [[3], [90], [10], [0], [7, 33, 50], [30]] := by decide +kernel
/-- the hypotheses of the class-model theorems are satisfiable -/
example : ∃ l, GenGlue.SIR_heterogeneous_meanfield toyOdeint (V.ofList [10, 30, 50]) (V.ofList [0, 4, 6])
      (V.ofList [0, 0, 0]) 1 1 0 10 11 true = .ok l ∧
    (∀ i k, getM l 1 i k + getM l 2 i k + getM l 3 i k
      = (V.ofList [10, 30, 50]).f k + (V.ofList [0, 4, 6]).f k + (V.ofList [0, 0, 0]).f k) ∧
    (∀ k, getM l 1 0 k = (V.ofList [10, 30, 50]).f k) := by
  obtain ⟨l, h, -⟩ := SIR_heterogeneous_meanfield_shape toyOdeint (V.ofList [10, 30, 50]) (V.ofList [0, 4, 6])
    (V.ofList [0, 0, 0]) 1 1 0 10 11 true rfl rfl
  exact ⟨l, h, fun i => (SIR_heterogeneous_meanfield_conserve_full _ _ _ _ _ _ _ _ _ l h i).1,
    fun k => (SIR_heterogeneous_meanfield_init_full _ toyOdeint_zero _ _ _ _ _ _ _ _ l h k).1⟩

/-! ## 13. the `ValueError` unpack guards of the generated code never fire -/

theorem SIS_homogeneous_meanfield_no_ValueError (odeint : Solver) (S0 I0 n tau gamma tmin tmax : Rat) (tcount : Nat) :
    GenGlue.SIS_homogeneous_meanfield odeint S0 I0 n tau gamma tmin tmax tcount ≠ .error "ValueError" := by
  rw [SIS_homogeneous_meanfield_call]; intro h; cases h

theorem SIR_homogeneous_meanfield_no_ValueError (odeint : Solver) (S0 I0 R0 n tau gamma tmin tmax : Rat) (tcount : Nat) :
    GenGlue.SIR_homogeneous_meanfield odeint S0 I0 R0 n tau gamma tmin tmax tcount ≠ .error "ValueError" := by
  rw [SIR_homogeneous_meanfield_call]; intro h; cases h

theorem SIS_homogeneous_pairwise_no_ValueError (odeint : Solver) (S0 I0 SI0 SS0 n tau gamma tmin tmax : Rat) (tcount : Nat)
    (full : Bool) :
    GenGlue.SIS_homogeneous_pairwise odeint S0 I0 SI0 SS0 n tau gamma tmin tmax tcount full ≠ .error "ValueError" := by
  rw [SIS_homogeneous_pairwise_call]; exact ite_ne_valueError

theorem SIR_homogeneous_pairwise_no_ValueError (odeint : Solver) (S0 I0 R0 SI0 SS0 n tau gamma tmin tmax : Rat) (tcount : Nat)
    (full : Bool) :
    GenGlue.SIR_homogeneous_pairwise odeint S0 I0 R0 SI0 SS0 n tau gamma tmin tmax tcount full ≠ .error "ValueError" := by
  rw [SIR_homogeneous_pairwise_call]; exact ite_ne_valueError

theorem SIS_super_compact_pairwise_no_ValueError (odeint : Solver)
    (S0 I0 SS0 SI0 II0 tau gamma k_ave ksquare_ave kcube_ave tmin tmax : Rat) (tcount : Nat) (full : Bool) :
    GenGlue.SIS_super_compact_pairwise odeint S0 I0 SS0 SI0 II0 tau gamma k_ave ksquare_ave kcube_ave tmin tmax tcount full ≠ .error "ValueError" := by
  rw [SIS_super_compact_pairwise_call]; intro h; cases h

theorem SIR_super_compact_pairwise_no_ValueError (odeint : Solver) (R0 SS0 SI0 N tau gamma : Rat)
    (psihat psihatPrime psihatDPrime : Rat → Rat) (tmin tmax : Rat) (tcount : Nat) (full : Bool) :
    GenGlue.SIR_super_compact_pairwise odeint R0 SS0 SI0 N tau gamma psihat psihatPrime psihatDPrime tmin tmax tcount full ≠ .error "ValueError" := by
  rw [SIR_super_compact_pairwise_call]; intro h; cases h

theorem EBCM_no_ValueError (odeint : Solver) (N : Rat) (psihat psihatPrime : Rat → Rat) (tau gamma phiS0 phiR0 R0 tmin tmax : Rat)
    (tcount : Nat) (full : Bool) :
    GenGlue.EBCM odeint N psihat psihatPrime tau gamma phiS0 phiR0 R0 tmin tmax tcount full ≠ .error "ValueError" := by
  rw [EBCM_call]; intro h; cases h

theorem SIS_heterogeneous_meanfield_no_ValueError (odeint : Solver) (Sk0 Ik0 : V) (tau gamma tmin tmax : Rat) (tcount : Nat)
    (full : Bool) :
    GenGlue.SIS_heterogeneous_meanfield odeint Sk0 Ik0 tau gamma tmin tmax tcount full ≠ .error "ValueError" := by
  rw [SIS_heterogeneous_meanfield_call]; exact ite_ne_valueError

theorem SIR_heterogeneous_meanfield_no_ValueError (odeint : Solver) (Sk0 Ik0 Rk0 : V) (tau gamma tmin tmax : Rat) (tcount : Nat)
    (full : Bool) :
    GenGlue.SIR_heterogeneous_meanfield odeint Sk0 Ik0 Rk0 tau gamma tmin tmax tcount full ≠ .error "ValueError" := by
  rw [SIR_heterogeneous_meanfield_call]; exact ite_ne_valueError

theorem SIS_compact_pairwise_no_ValueError (odeint : Solver) (Sk0 Ik0 : V) (SI0 SS0 II0 tau gamma tmin tmax : Rat)
    (tcount : Nat) (full : Bool) :
    GenGlue.SIS_compact_pairwise odeint Sk0 Ik0 SI0 SS0 II0 tau gamma tmin tmax tcount full ≠ .error "ValueError" := by
  rw [SIS_compact_pairwise_call]; intro h; cases h

theorem SIR_compact_pairwise_no_ValueError (odeint : Solver) (Sk0 : V) (I0 R0 SS0 SI0 tau gamma tmin tmax : Rat)
    (tcount : Nat) (full : Bool) :
    GenGlue.SIR_compact_pairwise odeint Sk0 I0 R0 SS0 SI0 tau gamma tmin tmax tcount full ≠ .error "ValueError" := by
  rw [SIR_compact_pairwise_call]; intro h; cases h

theorem SIR_compact_effective_degree_no_ValueError (odeint : Solver) (Skappa0 : V) (I0 R0 SI0 tau gamma tmin tmax : Rat)
    (tcount : Nat) (full : Bool) :
    GenGlue.SIR_compact_effective_degree odeint Skappa0 I0 R0 SI0 tau gamma tmin tmax tcount full ≠ .error "ValueError" := by
  rw [SIR_compact_effective_degree_call]; intro h; cases h

/-! ## axioms -/
#print axioms times_first
#print axioms times_last
#print axioms SIS_homogeneous_meanfield_call
#print axioms SIS_homogeneous_meanfield_shape
#print axioms SIS_homogeneous_meanfield_init
#print axioms SIS_homogeneous_meanfield_conserve0
#print axioms SIS_homogeneous_meanfield_conserve_of_sum
#print axioms SIR_homogeneous_meanfield_call
#print axioms SIR_homogeneous_meanfield_shape
#print axioms SIR_homogeneous_meanfield_conserve
#print axioms SIR_homogeneous_meanfield_init
#print axioms SIS_homogeneous_pairwise_call
#print axioms SIS_homogeneous_pairwise_error
#print axioms SIS_homogeneous_pairwise_shape
#print axioms SIS_homogeneous_pairwise_ok_iff
#print axioms SIS_homogeneous_pairwise_conserve
#print axioms SIS_homogeneous_pairwise_conserve_pairs
#print axioms SIS_homogeneous_pairwise_init
#print axioms SIS_homogeneous_pairwise_init_full
#print axioms SIR_homogeneous_pairwise_call
#print axioms SIR_homogeneous_pairwise_error
#print axioms SIR_homogeneous_pairwise_shape
#print axioms SIR_homogeneous_pairwise_ok_iff
#print axioms SIR_homogeneous_pairwise_conserve
#print axioms SIR_homogeneous_pairwise_init
#print axioms SIR_homogeneous_pairwise_init_full
#print axioms SIS_super_compact_pairwise_call
#print axioms SIS_super_compact_pairwise_shape
#print axioms SIS_super_compact_pairwise_conserve
#print axioms SIS_super_compact_pairwise_init
#print axioms SIS_super_compact_pairwise_init_full
#print axioms SIR_super_compact_pairwise_call
#print axioms SIR_super_compact_pairwise_shape
#print axioms SIR_super_compact_pairwise_conserve
#print axioms SIR_super_compact_pairwise_init
#print axioms SIR_super_compact_pairwise_init_full
#print axioms EBCM_call
#print axioms EBCM_shape
#print axioms EBCM_conserve
#print axioms EBCM_init
#print axioms EBCM_full
#print axioms SIS_heterogeneous_meanfield_call
#print axioms SIS_heterogeneous_meanfield_error
#print axioms SIS_heterogeneous_meanfield_shape
#print axioms SIS_heterogeneous_meanfield_ok_iff
#print axioms SIS_heterogeneous_meanfield_full
#print axioms SIS_heterogeneous_meanfield_init
#print axioms SIS_heterogeneous_meanfield_init_full
#print axioms SIS_heterogeneous_meanfield_conserve0
#print axioms SIS_heterogeneous_meanfield_conserve_of_sum
#print axioms SIR_heterogeneous_meanfield_call
#print axioms SIR_heterogeneous_meanfield_error
#print axioms SIR_heterogeneous_meanfield_shape
#print axioms SIR_heterogeneous_meanfield_ok_iff
#print axioms SIR_heterogeneous_meanfield_conserve
#print axioms SIR_heterogeneous_meanfield_conserve_full
#print axioms SIR_heterogeneous_meanfield_init
#print axioms SIR_heterogeneous_meanfield_init_full
#print axioms SIS_compact_pairwise_call
#print axioms SIS_compact_pairwise_shape
#print axioms SIS_compact_pairwise_conserve
#print axioms SIS_compact_pairwise_conserve_full
#print axioms SIS_compact_pairwise_init
#print axioms SIS_compact_pairwise_init_full
#print axioms SIR_compact_pairwise_call
#print axioms SIR_compact_pairwise_shape
#print axioms SIR_compact_pairwise_conserve
#print axioms SIR_compact_pairwise_conserve_full
#print axioms SIR_compact_pairwise_init
#print axioms SIR_compact_pairwise_init_full
#print axioms SIR_compact_effective_degree_call
#print axioms SIR_compact_effective_degree_shape
#print axioms SIR_compact_effective_degree_conserve
#print axioms SIR_compact_effective_degree_init
#print axioms SIR_compact_effective_degree_full
#print axioms SIS_homogeneous_meanfield_no_ValueError
#print axioms SIR_homogeneous_meanfield_no_ValueError
#print axioms SIS_homogeneous_pairwise_no_ValueError
#print axioms SIR_homogeneous_pairwise_no_ValueError
#print axioms SIS_super_compact_pairwise_no_ValueError
#print axioms SIR_super_compact_pairwise_no_ValueError
#print axioms EBCM_no_ValueError
#print axioms SIS_heterogeneous_meanfield_no_ValueError
#print axioms SIR_heterogeneous_meanfield_no_ValueError
#print axioms SIS_compact_pairwise_no_ValueError
#print axioms SIR_compact_pairwise_no_ValueError
#print axioms SIR_compact_effective_degree_no_ValueError

end C06d
