import Driver
import EoNVerif.Gen.EventSIRGen
open Lean Drv

/-! JSON-lines driver for the code GENERATED from `fast_nonMarkov_SIR`, its event handlers and `myQueue`
(Gen/EventSIRGen.lean): the same request as op "esir" of Driver.lean (`DrvES.run`), run on the generated functions with
the harness's delay / duration tables as the user rule. -/
namespace DrvGenES
open GenESIR

def run (j : Json) : Except String Json := do
  let n ← getNat (← fld j "n")
  let adj ← getList (getList getNat) (← fld j "adj")
  let tmin ← getRat (← fld j "tmin")
  let tmax ← getERat (← fld j "tmax")
  let infs ← getList getNat (← fld j "infs")
  let recs ← getList getNat (← fld j "recs")
  let nbrs := listFn adj []
  let joint ← (match fldOpt j "joint" with
    | some jj => do
      let l ← getList (fun e => do
        match ← getArr e with
        | [ds, d] =>
          let ds ← getList (fun p => do
            match ← getArr p with
            | [v, w] => pure ((← getNat v), (← getERat w))
            | _ => .error "bad joint pair") ds
          pure (ds, (← getERat d))
        | _ => .error "bad joint entry") jj
      let jf : Node → List Node → List (Node × ERat) × ERat := fun u _ => l.getD u ([], none)
      pure jf
    | none => do
      let delay ← DrvES.getPairTableE (← fld j "delay")
      let durl ← getList getERat (← fld j "dur")
      let dur : Node → ERat := fun u => durl.getD u none
      pure (EventSIR.jointOfTables delay dur))
  let A : EArgs := { nbrs := nbrs, order := n, tmin := tmin, tmax := tmax, transRec := fun u sus => pure (joint u sus) }
  match (GenESIR.run A infs recs (4 * n * n + 4 * n + 10)) { tape := [] } with
  | .error e => pure (errObj e)
  | .ok (s, _) =>
    pure (Json.mkObj [("ok", Json.bool true), ("times", jArr jERat s.times), ("S", jArr jInt s.S), ("I", jArr jInt s.I),
      ("R", jArr jInt s.R),
      ("trans", jArr (fun e => Json.arr #[jERat e.1, (match e.2.1 with | some u => jNat u | none => Json.null), jNat e.2.2]) s.transmissions),
      ("queue_left", jNat s.Q.q.length),
      ("status", jArr (fun u => jSt (s.status u)) (List.range n)),
      ("rec_time", jArr (fun u => jERat (s.rec_time u)) (List.range n))])

def handle (line : String) : String :=
  match Json.parse line with
  | .ok j => match run j with
    | .ok r => r.compress
    | .error e => (errObj ("driveres:" ++ e)).compress
  | .error e => (errObj ("parse:" ++ e)).compress
end DrvGenES
