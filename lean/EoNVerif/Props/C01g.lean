import EoNVerif.Props.C01
import EoNVerif.Proofs.GillespieTraj
/-!
C01g — **the induction over events**: the one-step jump law of `Gillespie_SIR` / `Gillespie_SIS` (`Props/C01`,
`Props/C02`) lifted to the law of whole finite histories.  (`P.sis` selects the variant; every theorem is for both;
the SIS instances are at the end.)

Definitions (in `Proofs/GillespieTraj.lean`, restated here in words):

* `Gillespie.trajDist P k n s : Dist (List (GEvent × Rat))` — law of the first `n` events of the model's loop
  started in `s`, each event recorded with the rate of the `expovariate` draw made in the state it was selected in.
  Stop test = the loop's (`Gillespie.halted`: `infecteds` empty, or next event time `inf` i.e. `total_rate > 0`
  fails; no time horizon, `tmax = ∞`); selection = `Gillespie.pickDist P s k`; continuation from `applyEvent`.
  **Deviations from the plan, forced by the model**: (1) "sampler budget exhausted" (`none`) is an *error* of the
  tape model (`chooseTM … 0 = fail "fuel"`), not a stop, so it contributes no history: `trajDist` is a
  sub-distribution (had it ended the history with `[]`, the mass of the truncated history would be polluted by
  unfinished runs and law 3 would be false); same for `applyEvent = none` (KeyError), which is unreachable
  (`traj_status`).  (2) the loop does not test `total_rate = 0`: it tests `halted`; under `WF`/`Inv` the two agree
  (`halt_iff_absorbing`), so `recThr`'s division by zero is never evaluated.  (3) `applyEvent` takes the event
  time; it is only recorded (`times`, `log`), `trajDist` passes `0` and `traj_time_irrelevant` shows any other
  supply of times gives the same law.
* `Chain.jumpDist P n st` — first `n` jumps of the specification CTMC (`Spec/Chain.lean`): absorbing status ⇒ `[]`,
  else enabled event `e` w.p. `Chain.rate P e / Chain.totalRate P st`, record `(e, totalRate)`, continue from
  `Chain.apply P st e`.
* `Gillespie.accProd P k s h` = `Π_i c_i`, `c_i = 1 - ρ_i^k` (`Gillespie.stepFactor`) the acceptance factor of the
  candidate structure used by the `i`-th event in the state reached after `i-1` events (`1` if it is unweighted);
  `Gillespie.defectSum P k s h` = `Σ_i ρ_i^k`.
* `Chain.Legal P st h` — `h` is a path of the chain from `st`; `Chain.applyHist`, `Gillespie.applyHist` — status /
  model state after a history.
-/
namespace GillespieTraj
open Gillespie

/-- the loop's stop test is, under the invariant, "the chain is absorbed" (total rate 0) -/
theorem halt_iff_absorbing (P : GParams) (h : WF P) (s : GState) (hs : Inv P s) :
    halted P s ↔ Chain.totalRate P s.status = 0 :=
  halted_iff P h s hs

/-- `trajDist` mirrors `Gillespie.loop` (no time horizon, next-event time computed as `loop`/`run` do from the
current total rate): on `halted` the tape loop returns the current state … -/
theorem loop_stops (P : GParams) (cfuel fuel : Nat) (s : GState) (tv : Rat) (hh : halted P s) :
    loop P none cfuel (fuel + 1) s (if totalRate P s > 0 then some tv else none) = pure s :=
  loop_halted P cfuel fuel s tv hh

/-- … and otherwise it selects an event with `pick` (whose law is `pickDist`) in `s`, applies it, and draws the next
holding time with the total rate of the new state -/
theorem loop_continues (P : GParams) (cfuel fuel : Nat) (s : GState) (tv : Rat) (hh : ¬ halted P s) :
    loop P none cfuel (fuel + 1) s (if totalRate P s > 0 then some tv else none) =
      (do
        let e ← pick P s cfuel
        match applyEvent P s e tv with
        | none => TM.fail "KeyError"
        | some s' =>
          let tot := totalRate P s'
          if tot > 0 then do
            let d ← TM.popExpo tot
            loop P none cfuel fuel s' (some (tv + d))
          else loop P none cfuel fuel s' none) :=
  loop_running P cfuel fuel s tv hh

/-- **trajectory law, general (weighted) case**: for every history `h = [(e₁,r₁),…,(e_m,r_m)]`, every length `n`
and every budget `k ≥ 1` of rejection rounds, the model produces `h` with the probability the jump chain gives it,
times `Π_i (1 - ρ_i^k)` — the probability that none of the `m` rejection samplers ran out of rounds -/
theorem traj_law_weighted (P : GParams) (h : WF P) (k : Nat) (hk : 0 < k) (n : Nat) (s : GState) (hs : Inv P s)
    (hist : List (GEvent × Rat)) :
    Dist.mass (trajDist P k n s) (fun x => x == hist) =
      Dist.mass (Chain.jumpDist P n s.status) (fun x => x == hist) * accProd P k s hist :=
  traj_law P h k hk n s hs hist

/-- **trajectory law, unweighted case** (`P.nw = none`, `P.ew = none`; equivalently, under `Inv`, neither candidate
structure is weighted — no rejection sampling): the model's law of histories *is* the jump chain's -/
theorem traj_law_unweighted (P : GParams) (h : WF P) (k : Nat) (hk : 0 < k) (n : Nat) (s : GState) (hs : Inv P s)
    (hinf : s.inf.weighted = false) (hlinks : s.links.weighted = false) (hist : List (GEvent × Rat)) :
    Dist.mass (trajDist P k n s) (fun x => x == hist) =
      Dist.mass (Chain.jumpDist P n s.status) (fun x => x == hist) := by
  rw [traj_law P h k hk n s hs hist, accProd_unweighted P h k s hs hinf hlinks hist, mul_one]

/-- the same with the hypothesis on the parameters -/
theorem traj_law_unweighted' (P : GParams) (h : WF P) (k : Nat) (hk : 0 < k) (n : Nat) (s : GState) (hs : Inv P s)
    (hnw : P.nw = none) (hew : P.ew = none) (hist : List (GEvent × Rat)) :
    Dist.mass (trajDist P k n s) (fun x => x == hist) =
      Dist.mass (Chain.jumpDist P n s.status) (fun x => x == hist) :=
  traj_law_unweighted P h k hk n s hs (by rw [hs.infW, hnw]; rfl) (by rw [hs.linkW, hew]; rfl) hist

/-- the acceptance product is a probability -/
theorem accProd_unit (P : GParams) (h : WF P) (k : Nat) (s : GState) (hs : Inv P s) (hist : List (GEvent × Rat)) :
    0 ≤ accProd P k s hist ∧ accProd P k s hist ≤ 1 :=
  ⟨(accProd_bounds P h k s hs hist).1, (accProd_bounds P h k s hs hist).2.1⟩

/-- the chain's masses are non-negative -/
theorem jump_mass_nonneg (P : GParams) (h : WF P) (n : Nat) (st : Node → St) (Q : List (GEvent × Rat) → Bool) :
    0 ≤ Dist.mass (Chain.jumpDist P n st) Q :=
  Dist.mass_nonneg _ (jumpDist_nonneg P h n st) Q

/-- the model never over-weights a history -/
theorem traj_law_le (P : GParams) (h : WF P) (k : Nat) (hk : 0 < k) (n : Nat) (s : GState) (hs : Inv P s)
    (hist : List (GEvent × Rat)) :
    Dist.mass (trajDist P k n s) (fun x => x == hist) ≤
      Dist.mass (Chain.jumpDist P n s.status) (fun x => x == hist) := by
  rw [traj_law P h k hk n s hs hist]
  have h1 := jump_mass_nonneg P h n s.status (fun x => x == hist)
  have h2 := (accProd_bounds P h k s hs hist).2.1
  nlinarith

/-- … and under-weights it by at most the relative defect `Σ_i ρ_i^k` (union bound over the `m` samplers) -/
theorem traj_law_ge (P : GParams) (h : WF P) (k : Nat) (hk : 0 < k) (n : Nat) (s : GState) (hs : Inv P s)
    (hist : List (GEvent × Rat)) :
    Dist.mass (Chain.jumpDist P n s.status) (fun x => x == hist) * (1 - defectSum P k s hist) ≤
      Dist.mass (trajDist P k n s) (fun x => x == hist) := by
  rw [traj_law P h k hk n s hs hist]
  have h1 := jump_mass_nonneg P h n s.status (fun x => x == hist)
  have h2 := (accProd_bounds P h k s hs hist).2.2.1
  exact mul_le_mul_of_nonneg_left h2 h1

/-- the jump chain's law is a probability distribution (total mass 1), whatever the network -/
theorem jump_total (P : GParams) (n : Nat) (st : Node → St) :
    Dist.mass (Chain.jumpDist P n st) (fun _ => true) = 1 :=
  jumpDist_total P n st

/-- **the defect vanishes as `k → ∞`** (stated without analysis): for every history and every `ε > 0` there is a
budget `K` of rejection rounds from which on the model's mass of the history is within `ε` below the chain's
(it is never above: `traj_law_le`).  Uses `ρ_i < 1` (C16 `ld_rej_lt_one`) at every step of a path of positive
chain mass. -/
theorem traj_law_limit (P : GParams) (h : WF P) (n : Nat) (s : GState) (hs : Inv P s)
    (hist : List (GEvent × Rat)) (ε : Rat) (hε : 0 < ε) :
    ∃ K : Nat, ∀ k, K ≤ k →
      Dist.mass (Chain.jumpDist P n s.status) (fun x => x == hist) - ε ≤
        Dist.mass (trajDist P k n s) (fun x => x == hist) := by
  have hm0 := jump_mass_nonneg P h n s.status (fun x => x == hist)
  by_cases hm : Dist.mass (Chain.jumpDist P n s.status) (fun x => x == hist) = 0
  · refine ⟨1, fun k hk => ?_⟩
    rw [traj_law P h k hk n s hs hist, hm]; linarith
  · have hpos : 0 < Dist.mass (Chain.jumpDist P n s.status) (fun x => x == hist) :=
      lt_of_le_of_ne hm0 (Ne.symm hm)
    obtain ⟨K, hK⟩ := defect_small P h s hs hist (chain_support P h n s.status hist hm).1
      (chain_support_rate P h n s.status hist hm) _ (div_pos hε hpos)
    refine ⟨max K 1, fun k hk => ?_⟩
    have h1 := traj_law_ge P h k (lt_of_lt_of_le Nat.one_pos (le_trans (le_max_right _ _) hk)) n s hs hist
    have h2 := hK k (le_trans (le_max_left _ _) hk)
    have h3 := mul_le_mul_of_nonneg_left h2 hm0
    rw [mul_div_cancel₀ _ hm] at h3
    linarith

/-- **support**: a history the model produces with positive probability is a legal path of the chain — each `e_i`
is enabled in the status reached by `Chain.apply` of its predecessors and `r_i` (the rate of the `Exp` holding-time
draw) is the chain's total rate in that status —, has at most `n` events, and fewer only if the chain is absorbed -/
theorem traj_support (P : GParams) (h : WF P) (k : Nat) (hk : 0 < k) (n : Nat) (s : GState) (hs : Inv P s)
    (hist : List (GEvent × Rat)) (hm : Dist.mass (trajDist P k n s) (fun x => x == hist) ≠ 0) :
    Chain.Legal P s.status hist ∧ hist.length ≤ n ∧
      (hist.length < n → Chain.totalRate P (Chain.applyHist P s.status hist) = 0) := by
  rw [traj_law P h k hk n s hs hist] at hm
  exact chain_support P h n s.status hist (left_ne_zero_of_mul hm)

/-- **status along a history**: after every prefix of a positive-probability history the model is in a state
(no KeyError) that satisfies `Inv` and whose status is the iterated `Chain.apply` -/
theorem traj_status (P : GParams) (h : WF P) (k : Nat) (hk : 0 < k) (n : Nat) (s : GState) (hs : Inv P s)
    (hist : List (GEvent × Rat)) (hm : Dist.mass (trajDist P k n s) (fun x => x == hist) ≠ 0)
    (h1 h2 : List (GEvent × Rat)) (hsplit : hist = h1 ++ h2) :
    ∃ s', applyHist P s h1 = some s' ∧ Inv P s' ∧ s'.status = Chain.applyHist P s.status h1 := by
  have hl := (traj_support P h k hk n s hs hist hm).1
  rw [hsplit] at hl
  exact legal_applyHist P h s hs h1 (legal_prefix P s.status h1 h2 hl)

/-- the same for legal paths of the chain, whether or not `n` and `k` let the model reach them -/
theorem legal_status (P : GParams) (h : WF P) (s : GState) (hs : Inv P s) (hist : List (GEvent × Rat))
    (hl : Chain.Legal P s.status hist) :
    ∃ s', applyHist P s hist = some s' ∧ Inv P s' ∧ s'.status = Chain.applyHist P s.status hist :=
  legal_applyHist P h s hs hist hl

/-- the recorded event time does not influence what `applyEvent` does to the rest of the state -/
theorem applyEvent_time (P : GParams) (s : GState) (e : GEvent) (t t' : Rat) :
    match applyEvent P s e t, applyEvent P s e t' with
    | some a, some b => Core a b
    | none, none => True
    | _, _ => False :=
  applyEvent_core P s s (core_refl s) e t t'

/-- **times do not influence event selection**: whatever event times are recorded (`ts`, one per event), the law
of the first `ts.length` events is `trajDist` -/
theorem traj_time_irrelevant (P : GParams) (k : Nat) (ts : List Rat) (s : GState) :
    trajDistT P k ts s = trajDist P k ts.length s :=
  trajDistT_eq' P k ts s s (core_refl s)

/-! ### SIS instances (`Gillespie_SIS`, C02) -/

theorem gSIS_traj_law (P : GParams) (_hsis : P.sis = true) (h : WF P) (k : Nat) (hk : 0 < k) (n : Nat)
    (s : GState) (hs : Inv P s) (hist : List (GEvent × Rat)) :
    Dist.mass (trajDist P k n s) (fun x => x == hist) =
      Dist.mass (Chain.jumpDist P n s.status) (fun x => x == hist) * accProd P k s hist :=
  traj_law P h k hk n s hs hist

theorem gSIS_traj_law_unweighted (P : GParams) (_hsis : P.sis = true) (h : WF P) (k : Nat) (hk : 0 < k) (n : Nat)
    (s : GState) (hs : Inv P s) (hnw : P.nw = none) (hew : P.ew = none) (hist : List (GEvent × Rat)) :
    Dist.mass (trajDist P k n s) (fun x => x == hist) =
      Dist.mass (Chain.jumpDist P n s.status) (fun x => x == hist) :=
  traj_law_unweighted' P h k hk n s hs hnw hew hist

/-- SIS: along a positive-probability history a recovering node returns to `S` and no node is ever `R` -/
theorem gSIS_traj_status (P : GParams) (hsis : P.sis = true) (h : WF P) (k : Nat) (hk : 0 < k) (n : Nat)
    (s : GState) (hs : Inv P s) (hist : List (GEvent × Rat))
    (hm : Dist.mass (trajDist P k n s) (fun x => x == hist) ≠ 0) :
    Chain.Legal P s.status hist ∧
      ∃ s', applyHist P s hist = some s' ∧ Inv P s' ∧ s'.status = Chain.applyHist P s.status hist ∧
        ∀ u, s'.status u ≠ St.R := by
  obtain ⟨s', a1, a2, a3⟩ := traj_status P h k hk n s hs hist hm hist [] (by simp)
  exact ⟨(traj_support P h k hk n s hs hist hm).1, s', a1, a2, a3, a2.sis_noR hsis⟩

end GillespieTraj

/-! ### non-vacuity

The weighted 4-node path `exP` of `Props/C01` (γ = 1, τ = 2, node weights `u+1`, edge weights 2, 2, ½), infecteds
`[1,3]`, recovered `[0]`.  Rates: recover 1: 2, recover 3: 4, transmit (1,2): 1, transmit (3,2): 4; total 11.
After `recover 1`: recover 3: 4, transmit (3,2): 4; total 8.  History `[(recover 1, 11), (transmit 3 2, 8)]`:
chain mass `2/11 · 4/8 = 1/11`; `ρ₁ = 1 - 6/(2·4) = 1/4` (`infecteds`: weights 2, 4), `ρ₂ = 0` (`IS_links`: one
candidate), so the model's mass is `1/11 · (1 - 4^{-k})`. -/
open Gillespie

def exH : List (GEvent × Rat) := [(.recover 1, 11), (.transmit 3 2, 8)]

example : Dist.mass (Chain.jumpDist exP 2 (initStatus [1, 3] [0])) (fun x => x == exH) = 1 / 11 := by
  decide +kernel
example : (init exP [1, 3] [0] 0).map (fun s => accProd exP 2 s exH) = some (15 / 16) := by decide +kernel
example : (init exP [1, 3] [0] 0).map (fun s => Dist.mass (trajDist exP 1 2 s) (fun x => x == exH))
    = some (1 / 11 * (1 - (1/4)^1)) := by decide +kernel
example : (init exP [1, 3] [0] 0).map (fun s => Dist.mass (trajDist exP 2 2 s) (fun x => x == exH))
    = some (15 / 176) := by decide +kernel
example : (init exP [1, 3] [0] 0).map (fun s => Dist.mass (trajDist exP 3 2 s) (fun x => x == exH))
    = some (1 / 11 * (1 - (1/4)^3)) := by decide +kernel
/-- a history with a wrong recorded rate, or an event that is not enabled, has mass 0 in both laws -/
example : (init exP [1, 3] [0] 0).map (fun s =>
      (Dist.mass (trajDist exP 2 2 s) (fun x => x == [(.recover 1, 11), (.transmit 3 2, 7)]),
       Dist.mass (trajDist exP 2 2 s) (fun x => x == [(.recover 1, 11), (.transmit 1 2, 8)])))
    = some (0, 0) := by decide +kernel
example : Dist.mass (Chain.jumpDist exP 2 (initStatus [1, 3] [0])) (fun _ => true) = 1 := by decide +kernel

/-- the unweighted variant of the same network (no rejection sampling) and its SIS variant -/
def exPu : GParams := { exP with ew := none, nw := none }
def exPs : GParams := { exPu with sis := true }
def exHu : List (GEvent × Rat) := [(.recover 1, 6), (.transmit 3 2, 3)]
def exHs : List (GEvent × Rat) := [(.recover 1, 8), (.transmit 3 2, 3)]

example : Dist.mass (Chain.jumpDist exPu 2 (initStatus [1, 3] [0])) (fun x => x == exHu) = 1 / 9 := by
  decide +kernel
example : (init exPu [1, 3] [0] 0).map (fun s => Dist.mass (trajDist exPu 1 2 s) (fun x => x == exHu))
    = some (1 / 9) := by decide +kernel
example : Dist.mass (Chain.jumpDist exPs 2 (initStatus [1, 3] [])) (fun x => x == exHs) = 1 / 12 := by
  decide +kernel
example : (init exPs [1, 3] [] 0).map (fun s => Dist.mass (trajDist exPs 1 2 s) (fun x => x == exHs))
    = some (1 / 12) := by decide +kernel

/-- the hypotheses of the theorems are satisfiable: `exP` is well-formed (as in `Props/C01`) … -/
theorem exP_wf : Gillespie.WF exP where
  nodup := by decide
  nbr_nodup := by decide
  nbr_mem := by decide
  nbr_out := by
    intro u hu
    simp only [exP, List.mem_cons, List.not_mem_nil, or_false, not_or] at hu
    obtain ⟨h0, h1, h2, h3⟩ := hu
    show exNbrs u = []
    unfold exNbrs
    split <;> first | rfl | contradiction
  symm := by
    intro u v
    show v ∈ exNbrs u → u ∈ exNbrs v
    unfold exNbrs
    split <;> simp <;> (try rintro (rfl | rfl)) <;> simp
  noloop := by
    intro u
    show u ∉ exNbrs u
    unfold exNbrs
    split <;> simp
  ew_nonneg := by
    intro f hf u v
    obtain rfl : (fun u v => if u + v = 3 then (1/2 : Rat) else 2) = f := Option.some.inj hf
    dsimp only; split <;> decide +kernel
  ew_symm := by
    intro f hf u v
    obtain rfl : (fun u v => if u + v = 3 then (1/2 : Rat) else 2) = f := Option.some.inj hf
    dsimp only; rw [Nat.add_comm]
  nw_nonneg := by
    intro f hf u
    obtain rfl : (fun u : Node => (u : Rat) + 1) = f := Option.some.inj hf
    dsimp only
    have : (0 : Rat) ≤ (u : Rat) := Nat.cast_nonneg u
    linarith
  tau_nonneg := by decide +kernel
  gamma_nonneg := by decide +kernel

/-- … its initial state satisfies `Inv`, and the general theorem, instantiated, gives for **every** budget `k ≥ 1`
the value the direct computations above give for `k = 1, 2, 3` -/
example (k : Nat) (hk : 0 < k) :
    ∃ s, init exP [1, 3] [0] 0 = some s ∧
      Dist.mass (trajDist exP k 2 s) (fun x => x == exH) = 1 / 11 * accProd exP k s exH := by
  obtain ⟨s, h1, h2, h3⟩ := init_inv exP exP_wf [1, 3] [0] 0 (by decide) (by decide) (by decide) (by decide)
    (by intro hc; exact absurd hc (by decide))
  refine ⟨s, h1, ?_⟩
  rw [GillespieTraj.traj_law_weighted exP exP_wf k hk 2 s h2 exH, h3]
  congr 1
  decide +kernel

