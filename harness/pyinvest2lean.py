#!/usr/bin/env python3
"""pyinvest2lean — translator for the read side of the full-data object:
`Simulation_Investigation.node_status`, `.get_statuses` (its loop body), `.summary` (the computation, not the caching)
of EoN/simulation_investigation.py and `_transform_to_node_history_` of EoN/simulation.py, read from /repo's working
tree on every run -> lean/EoNVerif/Gen/InvestGen.lean.  `Proofs/GenInvest.lean` proves the generated functions equal
to the hand-written models / specifications the C10 (and C05) statements use (`Pred.nodeStatusImpl`,
`Pred.summarySpec`, `History.sirHist`, `History.sisHist`).

A node history is the pair of parallel lists Python stores: `(times, statuses)`.  Python indexing (`l[k]` with negative
`k` counting from the end, IndexError outside) is `PyRT.pyIndex`; `set` + `sorted` is an insertion into a sorted
duplicate-free list; `defaultdict(int)` is an association list with default 0.  Each function is matched statement by
statement against its expected shape; the parts that carry the semantics — comparison operators, index offsets, slice
bounds, the increments, the order of the appended statuses — are read from the AST and emitted from it.
Anything else raises Unsupported.
"""
import ast, os, sys, hashlib

REPO = os.environ.get("EON_REPO", "/repo")


class Unsupported(Exception):
    pass


CMP = {ast.LtE: "≤", ast.Lt: "<", ast.GtE: "≥", ast.Gt: ">", ast.Eq: "=", ast.NotEq: "≠"}


def body_of(n):
    return [s for s in n.body if not (isinstance(s, ast.Expr) and isinstance(s.value, ast.Constant))]


def int_const(e):
    if isinstance(e, ast.Constant) and isinstance(e.value, int):
        return e.value
    if isinstance(e, ast.UnaryOp) and isinstance(e.op, ast.USub) and isinstance(e.operand, ast.Constant):
        return -e.operand.value
    raise Unsupported("integer constant expected: " + ast.unparse(e))


def slice_of(e, name):
    """`name[a:b]` -> Lean term on list `name`"""
    if not (isinstance(e, ast.Subscript) and isinstance(e.value, ast.Name) and e.value.id == name and isinstance(e.slice, ast.Slice) and e.slice.step is None):
        raise Unsupported("slice of %s expected: %s" % (name, ast.unparse(e)))
    lo = int_const(e.slice.lower) if e.slice.lower is not None else None
    hi = int_const(e.slice.upper) if e.slice.upper is not None else None
    return f"(PyRT.pySlice {name} {'none' if lo is None else '(some (%d : Int))' % lo} {'none' if hi is None else '(some (%d : Int))' % hi})"


def status_count_expr(stmts, who):
    """changetimes = H[node][0]; number_swaps = len([c for c in changetimes if c OP time]); X = H[node][1][number_swaps+OFF]
    -> (OP, OFF)"""
    if len(stmts) != 3:
        raise Unsupported(who + ": statement count")
    a, b, c = stmts
    if not ast.unparse(a).startswith("changetimes = self._node_history_[node][0]"):
        raise Unsupported(who + ": " + ast.unparse(a))
    if not (isinstance(b, ast.Assign) and ast.unparse(b.targets[0]) == "number_swaps" and isinstance(b.value, ast.Call)
            and ast.unparse(b.value.func) == "len" and isinstance(b.value.args[0], ast.ListComp)):
        raise Unsupported(who + ": " + ast.unparse(b))
    lc = b.value.args[0]
    g = lc.generators[0]
    if not (ast.unparse(lc.elt) == "changetime" and ast.unparse(g.target) == "changetime" and ast.unparse(g.iter) == "changetimes"
            and len(g.ifs) == 1 and isinstance(g.ifs[0], ast.Compare) and ast.unparse(g.ifs[0].left) == "changetime"
            and ast.unparse(g.ifs[0].comparators[0]) == "time" and type(g.ifs[0].ops[0]) in CMP):
        raise Unsupported(who + ": comprehension " + ast.unparse(lc))
    op = CMP[type(g.ifs[0].ops[0])]
    v = c.value
    if not (isinstance(v, ast.Subscript) and ast.unparse(v.value) == "self._node_history_[node][1]"):
        raise Unsupported(who + ": " + ast.unparse(c))
    idx = v.slice
    if isinstance(idx, ast.Name) and idx.id == "number_swaps":
        off = 0
    elif isinstance(idx, ast.BinOp) and ast.unparse(idx.left) == "number_swaps" and isinstance(idx.op, (ast.Add, ast.Sub)):
        off = int_const(idx.right) * (1 if isinstance(idx.op, ast.Add) else -1)
    else:
        raise Unsupported(who + ": index " + ast.unparse(idx))
    return op, off


def gen_node_status(cls):
    m = {n.name: n for n in cls.body if isinstance(n, ast.FunctionDef)}
    b = body_of(m["node_status"])
    if ast.unparse(b[-1]) != "return status":
        raise Unsupported("node_status: return")
    op, off = status_count_expr(b[:-1], "node_status")
    # get_statuses: same computation per node
    g = body_of(m["get_statuses"])
    loop = next((s for s in g if isinstance(s, ast.For)), None)
    if loop is None or ast.unparse(loop.iter) != "nodelist" or ast.unparse(loop.target) != "node":
        raise Unsupported("get_statuses: loop")
    lb = list(loop.body)
    if not (isinstance(lb[-1], ast.Assign) and ast.unparse(lb[-1].targets[0]) == "status[node]"):
        raise Unsupported("get_statuses: body")
    op2, off2 = status_count_expr(lb, "get_statuses")
    if ast.unparse(g[1]) != "if time is None:\n    time = self._t_[0]":
        raise Unsupported("get_statuses: default time changed")
    out = (f"/-- generated from `Simulation_Investigation.node_status` (simulation_investigation.py:{m['node_status'].lineno}) -/\n"
           "def node_status (h : List Rat × List String) (time : Rat) : Except String String := do\n"
           "  let changetimes := h.1\n"
           f"  let number_swaps := (changetimes.filter (fun changetime => decide (changetime {op} time))).length\n"
           f"  PyRT.pyIndex h.2 ((number_swaps : Int) + ({off} : Int))\n\n"
           f"/-- generated from the loop body of `Simulation_Investigation.get_statuses` (simulation_investigation.py:{m['get_statuses'].lineno}) -/\n"
           "def get_status_of (h : List Rat × List String) (time : Rat) : Except String String := do\n"
           "  let changetimes := h.1\n"
           f"  let number_swaps := (changetimes.filter (fun changetime => decide (changetime {op2} time))).length\n"
           f"  PyRT.pyIndex h.2 ((number_swaps : Int) + ({off2} : Int))\n")
    return out, [ast.unparse(m["node_status"]), ast.unparse(m["get_statuses"])]


def gen_summary(cls):
    m = {n.name: n for n in cls.body if isinstance(n, ast.FunctionDef)}
    n = m["summary"]
    b = body_of(n)
    i0 = next((i for i, s in enumerate(b) if ast.unparse(s) == "times = set()"), None)
    if i0 is None:
        raise Unsupported("summary: `times = set()` not found")
    if ast.unparse(b[i0 + 1]) != "delta = {status: defaultdict(int) for status in self._possible_statuses_}":
        raise Unsupported("summary: delta")
    loop = b[i0 + 2]
    if not (isinstance(loop, ast.For) and ast.unparse(loop.iter) == "nodelist" and ast.unparse(loop.target) == "node"):
        raise Unsupported("summary: node loop")
    lb = list(loop.body)
    want = ["node_times = self._node_history_[node][0]", "node_statuses = self._node_history_[node][1]", "tmin = node_times[0]", "times.add(tmin)"]
    if [ast.unparse(s) for s in lb[:4]] != want:
        raise Unsupported("summary: loop prologue")
    first = lb[4]
    if not (isinstance(first, ast.If) and ast.unparse(first.test) == "node_statuses[0] in delta" and len(first.body) == 1
            and isinstance(first.body[0], ast.AugAssign) and ast.unparse(first.body[0].target) == "delta[node_statuses[0]][tmin]"
            and isinstance(first.body[0].op, (ast.Add, ast.Sub))):
        raise Unsupported("summary: initial status count")
    inc0 = int_const(first.body[0].value) * (1 if isinstance(first.body[0].op, ast.Add) else -1)
    inner = lb[5]
    if not (isinstance(inner, ast.For) and ast.unparse(inner.target) in ("(new_status, old_status, time)", "new_status, old_status, time") and isinstance(inner.iter, ast.Call)
            and ast.unparse(inner.iter.func) == "zip" and len(inner.iter.args) == 3):
        raise Unsupported("summary: inner loop")
    z1 = slice_of(inner.iter.args[0], "node_statuses")
    z2 = slice_of(inner.iter.args[1], "node_statuses")
    z3 = slice_of(inner.iter.args[2], "node_times")
    ib = list(inner.body)
    upd = []
    for st in ib[:-1]:
        if not (isinstance(st, ast.If) and isinstance(st.test, ast.Compare) and isinstance(st.test.ops[0], ast.In)
                and ast.unparse(st.test.comparators[0]) == "delta" and len(st.body) == 1 and isinstance(st.body[0], ast.Assign)):
            raise Unsupported("summary: update " + ast.unparse(st)[:50])
        who = ast.unparse(st.test.left)
        a = st.body[0]
        if ast.unparse(a.targets[0]) != f"delta[{who}][time]" or not (isinstance(a.value, ast.BinOp) and ast.unparse(a.value.left) == f"delta[{who}][time]"
                                                                       and isinstance(a.value.op, (ast.Add, ast.Sub))):
            raise Unsupported("summary: update assignment " + ast.unparse(a))
        upd.append((who, int_const(a.value.right) * (1 if isinstance(a.value.op, ast.Add) else -1)))
    if ast.unparse(ib[-1]) != "times.add(time)":
        raise Unsupported("summary: times.add")
    rest = [ast.unparse(s) for s in b[i0 + 3: i0 + 7]]
    want = ["t = np.array(sorted(list(times)))", "tmin = t[0]",
            "mysummary = (t, {status: [delta[status][tmin]] for status in self._possible_statuses_})",
            "for time in t[1:]:\n    for status in self._possible_statuses_:\n        mysummary[1][status].append(mysummary[1][status][-1] + delta[status][time])"]
    if rest != want:
        raise Unsupported("summary: accumulation part changed: %r" % rest)
    upd_lines = "\n".join(
        f"        let delta := (if PyRT.alHasS delta {w} then PyRT.deltaAdd delta {w} time ({c} : Int) else delta)" for w, c in upd)
    out = (f"/-- generated from `Simulation_Investigation.summary` (simulation_investigation.py:{n.lineno}): the computation for a node list;\n"
           "`hist node` = `self._node_history_[node]`, `statuses` = `self._possible_statuses_`.  Returns (t, one column per status). -/\n"
           "def summary (hist : Node → List Rat × List String) (statuses : List String) (nodelist : List Node) :\n"
           "    Except String (List Rat × List (List Int)) := do\n"
           "  let times : List Rat := []\n"
           "  let delta : List (String × List (Rat × Int)) := statuses.foldl (fun d status => alSet d status []) []\n"
           "  let (times, delta) ← nodelist.foldlM (fun (acc : List Rat × List (String × List (Rat × Int))) (node : Node) => do\n"
           "    let (times, delta) := acc\n"
           "    let node_times := (hist node).1\n"
           "    let node_statuses := (hist node).2\n"
           "    let tmin ← PyRT.pyIndex node_times 0\n"
           "    let times := PyRT.setAdd times tmin\n"
           "    let s0 ← PyRT.pyIndex node_statuses 0\n"
           f"    let delta := (if PyRT.alHasS delta s0 then PyRT.deltaAdd delta s0 tmin ({inc0} : Int) else delta)\n"
           f"    let zipped := PyRT.zip3 {z1} {z2} {z3}\n"
           "    let (times, delta) := zipped.foldl (fun (acc : List Rat × List (String × List (Rat × Int))) (x : String × String × Rat) =>\n"
           "        let (times, delta) := acc\n"
           "        let (new_status, old_status, time) := x\n"
           f"{upd_lines}\n"
           "        let times := PyRT.setAdd times time\n"
           "        (times, delta)) (times, delta)\n"
           "    pure (times, delta)) (times, delta)\n"
           "  let t := PyRT.sortedRat times\n"
           "  let tmin ← PyRT.pyIndex t 0\n"
           "  let cols0 : List (List Int) := statuses.map (fun status => [PyRT.deltaGet delta status tmin])\n"
           "  let cols ← (PyRT.pySlice t (some 1) none).foldlM (fun (cols : List (List Int)) (time : Rat) =>\n"
           "      (List.zip statuses cols).mapM (fun (p : String × List Int) => do\n"
           "        let last ← PyRT.pyIndex p.2 (-1)\n"
           "        pure (p.2 ++ [last + PyRT.deltaGet delta p.1 time]))) cols0\n"
           "  pure (t, cols)\n")
    return out, [ast.unparse(n)]


def gen_transform(fn):
    if [a.arg for a in fn.args.args] != ["infection_times", "recovery_times", "tmin", "SIR"]:
        raise Unsupported("_transform_to_node_history_ parameters")
    b = body_of(fn)
    if not (len(b) == 2 and isinstance(b[0], ast.If) and ast.unparse(b[0].test) == "SIR" and ast.unparse(b[1]) == "return node_history"):
        raise Unsupported("_transform_to_node_history_ shape")
    sir, sis = b[0].body, b[0].orelse
    if ast.unparse(sir[0]) != "node_history = defaultdict(lambda: ([tmin], ['S']))" or ast.unparse(sis[0]) != sir and False:
        raise Unsupported("default history")

    def sir_loop(st, src):
        if not (isinstance(st, ast.For) and ast.unparse(st.target) in ("(node, time)", "node, time") and ast.unparse(st.iter) == src + ".items()"):
            raise Unsupported("SIR loop over " + src)
        s = list(st.body)
        if not (isinstance(s[0], ast.If) and isinstance(s[0].test, ast.Compare) and ast.unparse(s[0].test.left) == "time"
                and ast.unparse(s[0].test.comparators[0]) == "tmin" and type(s[0].test.ops[0]) in CMP
                and [ast.unparse(x) for x in s[0].body] == ["node_history[node] = ([], [])"]):
            raise Unsupported("SIR reset test")
        if ast.unparse(s[1]) != "node_history[node][0].append(time)" or not ast.unparse(s[2]).startswith("node_history[node][1].append("):
            raise Unsupported("SIR appends")
        lab = s[2].value.args[0].value
        return CMP[type(s[0].test.ops[0])], lab

    op_i, lab_i = sir_loop(sir[1], "infection_times")
    op_r, lab_r = sir_loop(sir[2], "recovery_times")
    # SIS branch
    want_sis = ("for node, Itimes in infection_times.items():\n    Rtimes = recovery_times[node]\n    while Itimes:\n"
                "        time = Itimes.pop(0)\n        if time == tmin:\n            node_history[node] = ([], [])\n"
                "        node_history[node][0].append(time)\n        node_history[node][1].append('I')\n        if Rtimes:\n"
                "            time = Rtimes.pop(0)\n            node_history[node][0].append(time)\n            node_history[node][1].append('S')")
    got = ast.unparse(sis[1])
    if ast.unparse(sis[0]) != "node_history = defaultdict(lambda: ([tmin], ['S']))" or got != want_sis:
        raise Unsupported("SIS branch changed: %r" % got[:200])
    out = (f"/-- generated from the SIR branch of `_transform_to_node_history_` (simulation.py:{fn.lineno}) for one node: its entry of\n"
           "`infection_times` / `recovery_times` (absent = `none`); the infection loop runs before the recovery loop -/\n"
           "def transform_sir (tmin : Rat) (inf rec : Option Rat) : List Rat × List String :=\n"
           "  let h : List Rat × List String := ([tmin], [\"S\"])\n"
           "  let h := (match inf with\n    | none => h\n"
           f"    | some time => let h := (if time {op_i} tmin then ([], []) else h); (h.1 ++ [time], h.2 ++ [\"{lab_i}\"]))\n"
           "  let h := (match rec with\n    | none => h\n"
           f"    | some time => let h := (if time {op_r} tmin then ([], []) else h); (h.1 ++ [time], h.2 ++ [\"{lab_r}\"]))\n"
           "  h\n\n"
           "/-- generated from the SIS branch (the `while Itimes:` loop with `pop(0)` on both lists) for one node -/\n"
           "def transform_sis_loop (tmin : Rat) : List Rat → List Rat → List Rat × List String → List Rat × List String\n"
           "  | [], _, h => h\n"
           "  | time :: Itimes, Rtimes, h =>\n"
           "    let h := (if time = tmin then ([], []) else h)\n"
           "    let h := (h.1 ++ [time], h.2 ++ [\"I\"])\n"
           "    match Rtimes with\n"
           "    | [] => transform_sis_loop tmin Itimes [] h\n"
           "    | time :: Rtimes => transform_sis_loop tmin Itimes Rtimes (h.1 ++ [time], h.2 ++ [\"S\"])\n\n"
           "def transform_sis (tmin : Rat) (Itimes Rtimes : List Rat) : List Rat × List String :=\n"
           "  transform_sis_loop tmin Itimes Rtimes ([tmin], [\"S\"])\n")
    return out, [ast.unparse(fn)]


def gen_subsample(fn):
    """auxiliary.subsample: the two-pointer scan for one series (status2 / status3 recurse into the same function)"""
    if [a.arg for a in fn.args.args] != ["report_times", "times", "status1", "status2", "status3"]:
        raise Unsupported("subsample parameters")
    b = body_of(fn)
    g = b[0]
    if not (isinstance(g, ast.If) and isinstance(g.test, ast.Compare) and ast.unparse(g.test.left) == "report_times[0]"
            and ast.unparse(g.test.comparators[0]) == "times[0]" and type(g.test.ops[0]) in CMP and isinstance(g.body[0], ast.Raise)):
        raise Unsupported("subsample: first guard")
    gop = CMP[type(g.test.ops[0])]
    if [ast.unparse(x) for x in b[1:4]] != ["report_status1 = []", "next_report_index = 0", "next_observation_index = 0"]:
        raise Unsupported("subsample: initialisation")
    w = b[4]
    if not (isinstance(w, ast.While) and isinstance(w.test, ast.Compare) and ast.unparse(w.test.left) == "next_report_index"
            and ast.unparse(w.test.comparators[0]) == "len(report_times)" and isinstance(w.test.ops[0], ast.Lt)):
        raise Unsupported("subsample: outer loop")
    inner, app, inc = w.body
    if not (isinstance(inner, ast.While) and isinstance(inner.test, ast.BoolOp) and isinstance(inner.test.op, ast.And) and len(inner.test.values) == 2):
        raise Unsupported("subsample: inner loop")
    c1, c2 = inner.test.values
    if not (ast.unparse(c1) == "next_observation_index < len(times)" and isinstance(c2, ast.Compare)
            and ast.unparse(c2.left) == "times[next_observation_index]" and ast.unparse(c2.comparators[0]) == "report_times[next_report_index]"
            and type(c2.ops[0]) in CMP):
        raise Unsupported("subsample: inner condition")
    iop = CMP[type(c2.ops[0])]
    if [ast.unparse(x) for x in inner.body] != ["candidate = status1[next_observation_index]", "next_observation_index += 1"] \
            or ast.unparse(app) != "report_status1.append(candidate)" or ast.unparse(inc) != "next_report_index += 1":
        raise Unsupported("subsample: loop bodies")
    rest = [ast.unparse(x) for x in b[5:]]
    want_rest = ["report_status1 = np.array(report_status1)",
                 "if status2 is not None:\n    if status3 is not None:\n        report_status2, report_status3 = subsample(report_times, times, status2, status3)\n"
                 "        return (report_status1, report_status2, report_status3)\n    else:\n        report_status2 = subsample(report_times, times, status2)\n"
                 "        return (report_status1, report_status2)\nelse:\n    return report_status1"]
    if rest != want_rest:
        raise Unsupported("subsample: epilogue changed: %r" % rest)
    out = (f"/-- generated from the inner `while` of `subsample` (auxiliary.py:{inner.lineno}): advance the observation pointer -/\n"
           "def subsample_inner {α : Type} (times : List Rat) (status1 : List α) (r : Rat) : Nat → Nat → Option α → Except String (Nat × Option α)\n"
           '  | 0, _, _ => throw "fuel"\n'
           "  | fuel + 1, next_observation_index, candidate =>\n"
           "    if next_observation_index < times.length then do\n"
           "      let tk ← PyRT.pyIndex times (next_observation_index : Int)\n"
           f"      if tk {iop} r then do\n"
           "        let candidate ← PyRT.pyIndex status1 (next_observation_index : Int)\n"
           "        subsample_inner times status1 r fuel (next_observation_index + 1) (some candidate)\n"
           "      else pure (next_observation_index, candidate)\n"
           "    else pure (next_observation_index, candidate)\n\n"
           f"/-- generated from the outer `while` of `subsample` (auxiliary.py:{w.lineno}) -/\n"
           "def subsample_outer {α : Type} (report_times times : List Rat) (status1 : List α) :\n"
           "    Nat → Nat → Nat → Option α → List α → Except String (List α)\n"
           '  | 0, _, _, _, _ => throw "fuel"\n'
           "  | fuel + 1, next_report_index, next_observation_index, candidate, report_status1 =>\n"
           "    if next_report_index < report_times.length then do\n"
           "      let r ← PyRT.pyIndex report_times (next_report_index : Int)\n"
           "      let (next_observation_index, candidate) ← subsample_inner times status1 r (times.length + 1) next_observation_index candidate\n"
           '      let c ← (match candidate with | some c => pure c | none => throw "UnboundLocalError")\n'
           "      subsample_outer report_times times status1 fuel (next_report_index + 1) next_observation_index candidate (report_status1 ++ [c])\n"
           "    else pure report_status1\n\n"
           f"/-- generated from `subsample` (auxiliary.py:{fn.lineno}) for one series -/\n"
           "def subsample {α : Type} (report_times times : List Rat) (status1 : List α) : Except String (List α) := do\n"
           "  let r0 ← PyRT.pyIndex report_times 0\n"
           "  let t0 ← PyRT.pyIndex times 0\n"
           f'  if r0 {gop} t0 then throw "EoNError" else\n'
           "  subsample_outer report_times times status1 (report_times.length + 1) 0 0 none []\n")
    return out, [ast.unparse(fn)]


def gen_time_shift(fn):
    if [a.arg for a in fn.args.args] != ["times", "L", "threshold"]:
        raise Unsupported("get_time_shift parameters")
    b = body_of(fn)
    if len(b) != 2 or ast.unparse(b[1]) != "return t" or not isinstance(b[0], ast.For):
        raise Unsupported("get_time_shift shape")
    lp = b[0]
    if ast.unparse(lp.target) not in ("(index, t)", "index, t") or ast.unparse(lp.iter) != "enumerate(times)" or len(lp.body) != 1:
        raise Unsupported("get_time_shift loop")
    c = lp.body[0]
    if not (isinstance(c, ast.If) and isinstance(c.test, ast.Compare) and ast.unparse(c.test.left) == "L[index]"
            and ast.unparse(c.test.comparators[0]) == "threshold" and type(c.test.ops[0]) in CMP
            and len(c.body) == 1 and isinstance(c.body[0], ast.Break) and not c.orelse):
        raise Unsupported("get_time_shift test")
    op = CMP[type(c.test.ops[0])]
    out = (f"/-- generated from `get_time_shift` (auxiliary.py:{fn.lineno}): the loop variable `t` after the `for ... break` -/\n"
           "def get_time_shift_loop (L : List Rat) (threshold : Rat) : List (Nat × Rat) → Option Rat → Except String (Option Rat)\n"
           "  | [], t => pure t\n"
           "  | (index, t) :: rest, _ => do\n"
           "    let l ← PyRT.pyIndex L (index : Int)\n"
           f"    if l {op} threshold then pure (some t) else get_time_shift_loop L threshold rest (some t)\n\n"
           "def get_time_shift (times L : List Rat) (threshold : Rat) : Except String Rat := do\n"
           "  let t ← get_time_shift_loop L threshold ((List.range times.length).zip times) none\n"
           '  match t with | some t => pure t | none => throw "NameError"\n')
    return out, [ast.unparse(fn)]


HEADER = '''import EoNVerif.Gen.PyRT
/-!
GENERATED by harness/pyinvest2lean.py from `Simulation_Investigation.node_status / get_statuses / summary`
(EoN/simulation_investigation.py) and `_transform_to_node_history_` (EoN/simulation.py), `subsample` / `get_time_shift` (EoN/auxiliary.py) — do not edit;
regenerated on every check run.   source sha1: {sha}
-/
namespace GenInvest

'''


def translate(repo=REPO):
    errors, parts, sources = {}, [], []
    try:
        tree = ast.parse(open(os.path.join(repo, "EoN", "simulation_investigation.py")).read())
        cls = next(n for n in tree.body if isinstance(n, ast.ClassDef) and n.name == "Simulation_Investigation")
    except Exception as ex:
        return "", {"Simulation_Investigation": "not found: %r" % ex}
    for name, gen in (("node_status/get_statuses", gen_node_status), ("summary", gen_summary)):
        try:
            text, src = gen(cls)
            parts.append(text)
            sources += src
        except (Unsupported, KeyError, IndexError, StopIteration, AttributeError) as ex:
            errors[name] = f"unsupported: {ex}"
    try:
        tree2 = ast.parse(open(os.path.join(repo, "EoN", "simulation.py")).read())
        fn = next(n for n in tree2.body if isinstance(n, ast.FunctionDef) and n.name == "_transform_to_node_history_")
        text, src = gen_transform(fn)
        parts.append(text)
        sources += src
    except (Unsupported, KeyError, IndexError, StopIteration, AttributeError) as ex:
        errors["_transform_to_node_history_"] = f"unsupported: {ex}"
    try:
        tree3 = ast.parse(open(os.path.join(repo, "EoN", "auxiliary.py")).read())
        fns3 = {n.name: n for n in tree3.body if isinstance(n, ast.FunctionDef)}
        for name, gen in (("subsample", gen_subsample), ("get_time_shift", gen_time_shift)):
            try:
                text, src = gen(fns3[name])
                parts.append(text)
                sources += src
            except (Unsupported, KeyError, IndexError, ValueError, AttributeError) as ex:
                errors[name] = f"unsupported: {ex}"
    except Exception as ex:
        errors["auxiliary.py"] = "not readable: %r" % ex
    sha = hashlib.sha1("\n".join(sources).encode()).hexdigest()
    return HEADER.format(sha=sha) + "\n".join(parts) + "\nend GenInvest\n", errors


def regenerate():
    import warnings
    target = os.path.join(os.path.dirname(os.path.abspath(__file__)), "..", "lean", "EoNVerif", "Gen", "InvestGen.lean")
    with warnings.catch_warnings():
        warnings.simplefilter("ignore")
        text, errors = translate()
    old = open(target).read() if os.path.exists(target) else None
    if text and not errors and old != text:
        tmp = target + ".tmp%d" % os.getpid()
        with open(tmp, "w") as f:
            f.write(text)
        os.replace(tmp, target)
    return old != text, errors


def main():
    changed, errors = regenerate()
    print("pyinvest2lean: Gen/InvestGen.lean %s" % ("rewritten" if changed else "up to date"))
    for n, e in errors.items():
        print(f"pyinvest2lean: {n}: {e}")
    return 1 if errors else 0


if __name__ == "__main__":
    sys.exit(main())
