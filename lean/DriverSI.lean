import Driver
import EoNVerif.Gen.InvestState
open Lean Drv

/-! JSON-lines driver for the code GENERATED from the stateful part of `Simulation_Investigation` (Gen/InvestState.lean):
a request is the node histories + a sequence of calls; the reply lists what each call returned. -/
namespace DrvGenSI
open GenSI

def getHist (j : Json) : Except String (List Rat × List String) := do
  let l ← getList (fun e => do
    match ← getArr e with
    | [t, s] => pure ((← getRat t), (← getStr s))
    | _ => .error "bad history entry") j
  pure (l.map (·.1), l.map (·.2))

def jSumm (s : Summ) : Json := Json.mkObj [("times", jArr jRat s.1), ("cols", jArr (jArr jInt) s.2)]
def jRes {α : Type} (f : α → Json) : Except String α → Json
  | .ok a => f a
  | .error e => Json.mkObj [("err", Json.str e)]

def run (j : Json) : Except String Json := do
  let hs ← getList getHist (← fld j "hists")
  let statuses ← getList getStr (← fld j "statuses")
  let hist : Node → List Rat × List String := fun v => hs.getD v ([], [])
  let all := List.range hs.length
  let ops ← getArr (← fld j "ops")
  match init hist statuses all with
  | .error e => pure (errObj e)
  | .ok st0 =>
    let (_, outs) ← ops.foldlM (fun (acc : GenSI.St × List Json) (o : Json) => do
      let (st, outs) := acc
      match ← getArr o with
      | [k] =>
        match ← getStr k with
        | "t" => pure (st, outs ++ [jRes (jArr jRat) (t st)])
        | "S" => pure (st, outs ++ [jRes (jArr jInt) (S statuses st)])
        | "I" => pure (st, outs ++ [jRes (jArr jInt) (I statuses st)])
        | "R" => pure (st, outs ++ [jRes (jArr jInt) (R statuses st)])
        | x => .error ("op " ++ x)
      | [_, a] =>
        let nl ← (match a with
          | .null => pure NL.none
          | .str "G" => pure NL.graph
          | x => (getList getNat x).map NL.list)
        match summary hist statuses all st nl with
        | .ok (r, st') => pure (st', outs ++ [jSumm r])
        | .error e => pure (st, outs ++ [Json.mkObj [("err", Json.str e)]])
      | _ => .error "bad op") (st0, [])
    pure (Json.mkObj [("ok", Json.bool true), ("outs", Json.arr outs.toArray)])

def handle (line : String) : String :=
  match Json.parse line with
  | .ok j => match run j with
    | .ok r => r.compress
    | .error e => (errObj ("driversi:" ++ e)).compress
  | .error e => (errObj ("parse:" ++ e)).compress
end DrvGenSI
