import EoNVerif.Proofs.FastSIRLaw2
import Mathlib.MeasureTheory.Measure.Prod
import Mathlib.MeasureTheory.Constructions.Pi
import Mathlib.MeasureTheory.Measure.Lebesgue.Basic
import Mathlib.Analysis.SpecialFunctions.Integrals.Basic
import Mathlib.Analysis.SpecialFunctions.Pow.Real
/-!
Helper lemmas for C01d: competing exponential clocks and memorylessness in the uniform-draw model of
`Proofs/FastSIRLaw2.lean` (`random.expovariate(r)` = `expovariate r u = -log(1-u)/r`, `u` uniform on `[0,1)`;
independent draws = product Lebesgue measure on the unit square / unit cube).

* `survival_volume`          : `P(X > t) = exp(-r t)`
* `min_survival_volume`      : `P(min(X,Y) > t) = exp(-(a+b) t)`
* `competing_general`        : Tonelli + the one-dimensional integral `∫ (1-u)^(B/a) du`, for one clock of rate
                               `a` against any family of clocks whose joint survival function is `exp(-B x)`
* `first_and_when_volume`    : `P(X < Y, X > t) = a/(a+b) * exp(-(a+b) t)`
* `first_volume`             : `P(X < Y) = a/(a+b)`
* `pi_min_survival_volume`, `pi_first_and_when_volume`, `pi_first_volume` : the same for `n` clocks.
-/
namespace FastSIRLaw
open MeasureTheory Set

/-! ### one clock -/

theorem lt_expovariate_iff {r u : ℝ} (hr : 0 < r) (h1 : u < 1) (t : ℝ) :
    t < expovariate r u ↔ 1 - Real.exp (-r * t) < u := by
  rw [← not_le, expovariate_le_iff hr h1, not_le]

theorem one_sub_exp_nonneg {r t : ℝ} (hr : 0 < r) (ht : 0 ≤ t) : 0 ≤ 1 - Real.exp (-r * t) := by
  have : Real.exp (-r * t) ≤ 1 := by rw [Real.exp_le_one_iff]; nlinarith
  linarith

/-- the survival event `{X > t}` is the interval of uniform draws `(1 - exp(-r t), 1)` -/
theorem survival_event_eq {r : ℝ} (hr : 0 < r) {t : ℝ} (ht : 0 ≤ t) :
    {u : ℝ | u ∈ Ico (0 : ℝ) 1 ∧ t < expovariate r u} = Ioo (1 - Real.exp (-r * t)) 1 := by
  have hc := one_sub_exp_nonneg hr ht
  ext u
  simp only [Set.mem_ofPred_eq, mem_Ico, mem_Ioo]
  constructor
  · rintro ⟨⟨_, h1⟩, h⟩; exact ⟨(lt_expovariate_iff hr h1 t).mp h, h1⟩
  · rintro ⟨h, h1⟩; exact ⟨⟨by linarith, h1⟩, (lt_expovariate_iff hr h1 t).mpr h⟩

theorem survival_volume {r : ℝ} (hr : 0 < r) {t : ℝ} (ht : 0 ≤ t) :
    volume {u : ℝ | u ∈ Ico (0 : ℝ) 1 ∧ t < expovariate r u} = ENNReal.ofReal (Real.exp (-r * t)) := by
  rw [survival_event_eq hr ht, Real.volume_Ioo]
  congr 1; ring

theorem measurable_expovariate (r : ℝ) : Measurable (expovariate r) := by
  unfold expovariate
  exact ((Real.measurable_log.comp (measurable_const.sub measurable_id)).neg).div_const r

theorem measurableSet_unit : MeasurableSet {u : ℝ | u ∈ Ico (0 : ℝ) 1} := measurableSet_Ico

/-! ### two clocks: the minimum -/

theorem min_survival_event_eq (a b t : ℝ) :
    {p : ℝ × ℝ | p.1 ∈ Ico (0 : ℝ) 1 ∧ p.2 ∈ Ico (0 : ℝ) 1 ∧ t < min (expovariate a p.1) (expovariate b p.2)}
      = {u : ℝ | u ∈ Ico (0 : ℝ) 1 ∧ t < expovariate a u} ×ˢ {v : ℝ | v ∈ Ico (0 : ℝ) 1 ∧ t < expovariate b v} := by
  ext p
  simp only [Set.mem_ofPred_eq, mem_prod, lt_min_iff]
  tauto

theorem min_survival_volume {a b : ℝ} (ha : 0 < a) (hb : 0 < b) {t : ℝ} (ht : 0 ≤ t) :
    (volume : Measure (ℝ × ℝ))
      {p : ℝ × ℝ | p.1 ∈ Ico (0 : ℝ) 1 ∧ p.2 ∈ Ico (0 : ℝ) 1 ∧ t < min (expovariate a p.1) (expovariate b p.2)}
      = ENNReal.ofReal (Real.exp (-(a + b) * t)) := by
  rw [min_survival_event_eq, Measure.volume_eq_prod, Measure.prod_prod, survival_volume ha ht,
    survival_volume hb ht, ← ENNReal.ofReal_mul (Real.exp_pos _).le, ← Real.exp_add]
  congr 2; ring

/-! ### the one-dimensional integral -/

theorem lintegral_one_sub_rpow {p c : ℝ} (hp : -1 < p) (hc : c ≤ 1) :
    ∫⁻ u in Ioc c 1, ENNReal.ofReal ((1 - u) ^ p) = ENNReal.ofReal ((1 - c) ^ (p + 1) / (p + 1)) := by
  have hint : IntervalIntegrable (fun u : ℝ => (1 - u) ^ p) volume c 1 := by
    have := (intervalIntegral.intervalIntegrable_rpow' (a := 1 - c) (b := 0) hp).comp_sub_left 1
    simpa using this
  rw [← ofReal_integral_eq_lintegral_ofReal]
  · rw [← intervalIntegral.integral_of_le hc, intervalIntegral.integral_comp_sub_left (fun x => x ^ p) 1,
      integral_rpow (Or.inl hp)]
    have : p + 1 ≠ 0 := by linarith
    simp [Real.zero_rpow this]
  · exact (intervalIntegrable_iff_integrableOn_Ioc_of_le hc).mp hint
  · filter_upwards [ae_restrict_mem measurableSet_Ioc] with u hu
    exact Real.rpow_nonneg (by linarith [hu.2]) p

/-- `exp(-B X) = (1-u)^(B/a)` for `X = expovariate a u` -/
theorem exp_neg_mul_expovariate {a : ℝ} (ha : 0 < a) (B : ℝ) {u : ℝ} (h1 : u < 1) :
    Real.exp (-B * expovariate a u) = (1 - u) ^ (B / a) := by
  rw [Real.rpow_def_of_pos (by linarith), expovariate]
  congr 1
  field_simp

/-! ### one clock against a family with joint survival function `exp(-B x)` -/

theorem competing_general {β : Type*} [MeasurableSpace β] (ν : Measure β) [SFinite ν]
    {a B c : ℝ} (ha : 0 < a) (hB : 0 ≤ B) (hc : c ≤ 1)
    {J : Set ℝ} (hJ : J ⊆ Ico 0 1) (hJc : J =ᵐ[volume] Ioc c 1) (hJm : MeasurableSet J)
    {T : ℝ → Set β} (hT : ∀ x, 0 ≤ x → ν (T x) = ENNReal.ofReal (Real.exp (-B * x)))
    {S : Set (ℝ × β)} (hS : MeasurableSet S)
    (hSdef : S = {q | q.1 ∈ J ∧ q.2 ∈ T (expovariate a q.1)}) :
    ((volume : Measure ℝ).prod ν) S = ENNReal.ofReal ((1 - c) ^ (B / a + 1) / (B / a + 1)) := by
  have hp : -1 < B / a := lt_of_lt_of_le (by norm_num) (div_nonneg hB ha.le)
  rw [Measure.prod_apply hS]
  have hfun : (fun u => ν (Prod.mk u ⁻¹' S)) = J.indicator (fun u => ENNReal.ofReal ((1 - u) ^ (B / a))) := by
    funext u
    by_cases hu : u ∈ J
    · have h01 := hJ hu
      have hpre : Prod.mk u ⁻¹' S = T (expovariate a u) := by
        ext w; simp [hSdef, hu]
      rw [hpre, indicator_of_mem hu, hT _ (expovariate_nonneg ha h01.1 h01.2),
        exp_neg_mul_expovariate ha B h01.2]
    · have hpre : Prod.mk u ⁻¹' S = ∅ := by
        ext w; simp [hSdef, hu]
      rw [hpre, indicator_of_notMem hu, measure_empty]
  rw [hfun, lintegral_indicator hJm, Measure.restrict_congr_set hJc, lintegral_one_sub_rpow hp hc]

/-! ### two clocks: who fires first, and when -/

theorem measurableSet_first_pair (a b : ℝ) {J : Set ℝ} (hJm : MeasurableSet J) :
    MeasurableSet {q : ℝ × ℝ | q.1 ∈ J ∧ q.2 ∈ {v : ℝ | v ∈ Ico (0 : ℝ) 1 ∧ expovariate a q.1 < expovariate b v}} := by
  have h1 : MeasurableSet {q : ℝ × ℝ | q.1 ∈ J} := measurable_fst hJm
  have h2 : MeasurableSet {q : ℝ × ℝ | q.2 ∈ Ico (0 : ℝ) 1} := measurable_snd measurableSet_Ico
  have h3 : MeasurableSet {q : ℝ × ℝ | expovariate a q.1 < expovariate b q.2} :=
    measurableSet_lt ((measurable_expovariate a).comp measurable_fst)
      ((measurable_expovariate b).comp measurable_snd)
  exact h1.inter (h2.inter h3)

theorem first_and_when_volume {a b : ℝ} (ha : 0 < a) (hb : 0 < b) {t : ℝ} (ht : 0 ≤ t) :
    (volume : Measure (ℝ × ℝ))
      {p : ℝ × ℝ | p.1 ∈ Ico (0 : ℝ) 1 ∧ p.2 ∈ Ico (0 : ℝ) 1 ∧
        expovariate a p.1 < expovariate b p.2 ∧ t < expovariate a p.1}
      = ENNReal.ofReal (a / (a + b) * Real.exp (-(a + b) * t)) := by
  have hc := one_sub_exp_nonneg ha ht
  have hc1 : 1 - Real.exp (-a * t) ≤ 1 := by linarith [Real.exp_pos (-a * t)]
  have hset : {p : ℝ × ℝ | p.1 ∈ Ico (0 : ℝ) 1 ∧ p.2 ∈ Ico (0 : ℝ) 1 ∧
        expovariate a p.1 < expovariate b p.2 ∧ t < expovariate a p.1}
      = {q : ℝ × ℝ | q.1 ∈ Ioo (1 - Real.exp (-a * t)) 1 ∧
          q.2 ∈ {v : ℝ | v ∈ Ico (0 : ℝ) 1 ∧ expovariate a q.1 < expovariate b v}} := by
    rw [← survival_event_eq ha ht]
    ext p
    simp only [Set.mem_ofPred_eq]
    tauto
  rw [Measure.volume_eq_prod, hset,
    competing_general volume ha hb.le hc1 (J := Ioo (1 - Real.exp (-a * t)) 1)
      (fun u hu => ⟨by linarith [hu.1], hu.2⟩) Ioo_ae_eq_Ioc measurableSet_Ioo
      (T := fun x => {v : ℝ | v ∈ Ico (0 : ℝ) 1 ∧ x < expovariate b v})
      (fun x hx => survival_volume hb hx) (measurableSet_first_pair a b measurableSet_Ioo) rfl]
  congr 1
  rw [sub_sub_cancel, ← Real.exp_mul]
  have : -a * t * (b / a + 1) = -(a + b) * t := by field_simp; ring
  rw [this]
  field_simp
  ring

theorem first_volume {a b : ℝ} (ha : 0 < a) (hb : 0 < b) :
    (volume : Measure (ℝ × ℝ))
      {p : ℝ × ℝ | p.1 ∈ Ico (0 : ℝ) 1 ∧ p.2 ∈ Ico (0 : ℝ) 1 ∧ expovariate a p.1 < expovariate b p.2}
      = ENNReal.ofReal (a / (a + b)) := by
  have hset : {p : ℝ × ℝ | p.1 ∈ Ico (0 : ℝ) 1 ∧ p.2 ∈ Ico (0 : ℝ) 1 ∧ expovariate a p.1 < expovariate b p.2}
      = {q : ℝ × ℝ | q.1 ∈ Ico (0 : ℝ) 1 ∧
          q.2 ∈ {v : ℝ | v ∈ Ico (0 : ℝ) 1 ∧ expovariate a q.1 < expovariate b v}} := by
    ext p
    simp only [Set.mem_ofPred_eq]
  rw [Measure.volume_eq_prod, hset,
    competing_general volume ha hb.le zero_le_one (J := Ico 0 1) subset_rfl Ico_ae_eq_Ioc measurableSet_Ico
      (T := fun x => {v : ℝ | v ∈ Ico (0 : ℝ) 1 ∧ x < expovariate b v})
      (fun x hx => survival_volume hb hx) (measurableSet_first_pair a b measurableSet_Ico) rfl]
  congr 1
  rw [sub_zero, Real.one_rpow]
  field_simp
  ring

/-! ### `n` clocks -/

/-- the minimum of finitely many independent clocks: all of them exceed `t` with probability `exp(-(Σ r) t)` -/
theorem pi_min_survival_volume {ι : Type*} [Fintype ι] {r : ι → ℝ} (hr : ∀ i, 0 < r i) {t : ℝ} (ht : 0 ≤ t) :
    (volume : Measure (ι → ℝ)) {w : ι → ℝ | ∀ i, w i ∈ Ico (0 : ℝ) 1 ∧ t < expovariate (r i) (w i)}
      = ENNReal.ofReal (Real.exp (-(∑ i, r i) * t)) := by
  have hset : {w : ι → ℝ | ∀ i, w i ∈ Ico (0 : ℝ) 1 ∧ t < expovariate (r i) (w i)}
      = Set.pi univ (fun i => {u : ℝ | u ∈ Ico (0 : ℝ) 1 ∧ t < expovariate (r i) u}) := by
    ext w; simp
  rw [hset, volume_pi_pi]
  simp only [survival_volume (hr _) ht]
  rw [← ENNReal.ofReal_prod_of_nonneg (fun i _ => (Real.exp_pos _).le), ← Real.exp_sum]
  congr 2
  rw [neg_mul, Finset.sum_mul, ← Finset.sum_neg_distrib]
  exact Finset.sum_congr rfl (fun i _ => by ring)

theorem measurableSet_first_pi {n : ℕ} (a : ℝ) (ρ : Fin n → ℝ) {J : Set ℝ} (hJm : MeasurableSet J) :
    MeasurableSet {q : ℝ × (Fin n → ℝ) | q.1 ∈ J ∧
      q.2 ∈ {z : Fin n → ℝ | ∀ k, z k ∈ Ico (0 : ℝ) 1 ∧ expovariate a q.1 < expovariate (ρ k) (z k)}} := by
  have h1 : MeasurableSet {q : ℝ × (Fin n → ℝ) | q.1 ∈ J} := measurable_fst hJm
  have h2 : ∀ k, MeasurableSet {q : ℝ × (Fin n → ℝ) | q.2 k ∈ Ico (0 : ℝ) 1} := fun k =>
    ((measurable_pi_apply k).comp measurable_snd) measurableSet_Ico
  have h3 : ∀ k, MeasurableSet {q : ℝ × (Fin n → ℝ) | expovariate a q.1 < expovariate (ρ k) (q.2 k)} := fun k =>
    measurableSet_lt ((measurable_expovariate a).comp measurable_fst)
      ((measurable_expovariate (ρ k)).comp ((measurable_pi_apply k).comp measurable_snd))
  have : {q : ℝ × (Fin n → ℝ) | q.1 ∈ J ∧
      q.2 ∈ {z : Fin n → ℝ | ∀ k, z k ∈ Ico (0 : ℝ) 1 ∧ expovariate a q.1 < expovariate (ρ k) (z k)}}
      = {q : ℝ × (Fin n → ℝ) | q.1 ∈ J} ∩ ⋂ k, ({q : ℝ × (Fin n → ℝ) | q.2 k ∈ Ico (0 : ℝ) 1} ∩
          {q : ℝ × (Fin n → ℝ) | expovariate a q.1 < expovariate (ρ k) (q.2 k)}) := by
    ext q; simp
  rw [this]
  exact h1.inter (MeasurableSet.iInter fun k => (h2 k).inter (h3 k))

/-- the event "clock `i` fires first (and its draw lies in `J`)" after separating coordinate `i` -/
theorem pi_first_event_eq {n : ℕ} (r : Fin (n + 1) → ℝ) (i : Fin (n + 1)) (J : Set ℝ) (hJ : J ⊆ Ico 0 1) :
    {w : Fin (n + 1) → ℝ | (∀ j, w j ∈ Ico (0 : ℝ) 1) ∧
        (∀ j, j ≠ i → expovariate (r i) (w i) < expovariate (r j) (w j)) ∧ w i ∈ J}
      = (MeasurableEquiv.piFinSuccAbove (fun _ => ℝ) i) ⁻¹'
        {q : ℝ × (Fin n → ℝ) | q.1 ∈ J ∧ q.2 ∈ {z : Fin n → ℝ | ∀ k, z k ∈ Ico (0 : ℝ) 1 ∧
          expovariate (r i) q.1 < expovariate (r (i.succAbove k)) (z k)}} := by
  ext w
  simp only [Set.mem_ofPred_eq, mem_preimage, MeasurableEquiv.piFinSuccAbove_apply,
    Fin.insertNthEquiv_symm_apply, Fin.removeNth]
  rw [Fin.forall_iff_succAbove (P := fun j => w j ∈ Ico (0 : ℝ) 1) i,
    Fin.forall_iff_succAbove (P := fun j => j ≠ i → expovariate (r i) (w i) < expovariate (r j) (w j)) i]
  constructor
  · rintro ⟨⟨_, h1⟩, ⟨_, h2⟩, h3⟩
    exact ⟨h3, fun k => ⟨h1 k, h2 k (Fin.succAbove_ne i k)⟩⟩
  · rintro ⟨h3, h⟩
    exact ⟨⟨hJ h3, fun k => (h k).1⟩, ⟨fun hne => absurd rfl hne, fun k _ => (h k).2⟩, h3⟩

theorem pi_first_general {n : ℕ} {r : Fin (n + 1) → ℝ} (hr : ∀ j, 0 < r j) (i : Fin (n + 1))
    {c : ℝ} (hc : c ≤ 1) {J : Set ℝ} (hJ : J ⊆ Ico 0 1) (hJc : J =ᵐ[volume] Ioc c 1) (hJm : MeasurableSet J) :
    (volume : Measure (Fin (n + 1) → ℝ))
      {w : Fin (n + 1) → ℝ | (∀ j, w j ∈ Ico (0 : ℝ) 1) ∧
        (∀ j, j ≠ i → expovariate (r i) (w i) < expovariate (r j) (w j)) ∧ w i ∈ J}
      = ENNReal.ofReal ((1 - c) ^ ((∑ k, r (i.succAbove k)) / r i + 1) / ((∑ k, r (i.succAbove k)) / r i + 1)) := by
  rw [pi_first_event_eq r i J hJ, volume_pi,
    (measurePreserving_piFinSuccAbove (fun _ : Fin (n + 1) => (volume : Measure ℝ)) i).measure_preimage_equiv]
  exact competing_general (Measure.pi fun _ => volume) (hr i)
    (Finset.sum_nonneg fun k _ => (hr _).le) hc hJ hJc hJm
    (T := fun x => {z : Fin n → ℝ | ∀ k, z k ∈ Ico (0 : ℝ) 1 ∧ x < expovariate (r (i.succAbove k)) (z k)})
    (fun x hx => by rw [← volume_pi]; exact pi_min_survival_volume (fun k => hr _) hx)
    (measurableSet_first_pi (r i) (fun k => r (i.succAbove k)) hJm) rfl

theorem competing_arith {a B : ℝ} (ha : 0 < a) (hB : 0 ≤ B) (t : ℝ) :
    (1 - (1 - Real.exp (-a * t))) ^ (B / a + 1) / (B / a + 1) = a / (a + B) * Real.exp (-(a + B) * t) := by
  have hab : 0 < a + B := by linarith
  rw [sub_sub_cancel, ← Real.exp_mul]
  have : -a * t * (B / a + 1) = -(a + B) * t := by field_simp; ring
  rw [this]
  field_simp
  ring

theorem competing_arith0 {a B : ℝ} (ha : 0 < a) (hB : 0 ≤ B) :
    (1 - (0 : ℝ)) ^ (B / a + 1) / (B / a + 1) = a / (a + B) := by
  have hab : 0 < a + B := by linarith
  rw [sub_zero, Real.one_rpow]
  field_simp
  ring

/-- clock `i` is the first of `n+1` clocks and fires after `t`: rate share × Exp(total rate) survival -/
theorem pi_first_and_when_volume {n : ℕ} {r : Fin (n + 1) → ℝ} (hr : ∀ j, 0 < r j) (i : Fin (n + 1))
    {t : ℝ} (ht : 0 ≤ t) :
    (volume : Measure (Fin (n + 1) → ℝ))
      {w : Fin (n + 1) → ℝ | (∀ j, w j ∈ Ico (0 : ℝ) 1) ∧
        (∀ j, j ≠ i → expovariate (r i) (w i) < expovariate (r j) (w j)) ∧ t < expovariate (r i) (w i)}
      = ENNReal.ofReal (r i / (∑ j, r j) * Real.exp (-(∑ j, r j) * t)) := by
  have hc1 : 1 - Real.exp (-r i * t) ≤ 1 := by linarith [Real.exp_pos (-r i * t)]
  have hsub : Ioo (1 - Real.exp (-r i * t)) 1 ⊆ Ico (0 : ℝ) 1 :=
    fun u hu => ⟨by linarith [hu.1, one_sub_exp_nonneg (hr i) ht], hu.2⟩
  have hset : {w : Fin (n + 1) → ℝ | (∀ j, w j ∈ Ico (0 : ℝ) 1) ∧
        (∀ j, j ≠ i → expovariate (r i) (w i) < expovariate (r j) (w j)) ∧ t < expovariate (r i) (w i)}
      = {w : Fin (n + 1) → ℝ | (∀ j, w j ∈ Ico (0 : ℝ) 1) ∧
        (∀ j, j ≠ i → expovariate (r i) (w i) < expovariate (r j) (w j)) ∧
          w i ∈ Ioo (1 - Real.exp (-r i * t)) 1} := by
    rw [← survival_event_eq (hr i) ht]
    ext w
    simp only [Set.mem_ofPred_eq]
    constructor
    · rintro ⟨h1, h2, h3⟩; exact ⟨h1, h2, h1 i, h3⟩
    · rintro ⟨h1, h2, _, h3⟩; exact ⟨h1, h2, h3⟩
  rw [hset, pi_first_general hr i hc1 hsub Ioo_ae_eq_Ioc measurableSet_Ioo,
    competing_arith (hr i) (Finset.sum_nonneg fun k _ => (hr _).le), ← Fin.sum_univ_succAbove r i]

/-- clock `i` is the first of `n+1` clocks with probability `r i / Σ r` -/
theorem pi_first_volume {n : ℕ} {r : Fin (n + 1) → ℝ} (hr : ∀ j, 0 < r j) (i : Fin (n + 1)) :
    (volume : Measure (Fin (n + 1) → ℝ))
      {w : Fin (n + 1) → ℝ | (∀ j, w j ∈ Ico (0 : ℝ) 1) ∧
        (∀ j, j ≠ i → expovariate (r i) (w i) < expovariate (r j) (w j))}
      = ENNReal.ofReal (r i / (∑ j, r j)) := by
  have hset : {w : Fin (n + 1) → ℝ | (∀ j, w j ∈ Ico (0 : ℝ) 1) ∧
        (∀ j, j ≠ i → expovariate (r i) (w i) < expovariate (r j) (w j))}
      = {w : Fin (n + 1) → ℝ | (∀ j, w j ∈ Ico (0 : ℝ) 1) ∧
        (∀ j, j ≠ i → expovariate (r i) (w i) < expovariate (r j) (w j)) ∧ w i ∈ Ico (0 : ℝ) 1} := by
    ext w
    simp only [Set.mem_ofPred_eq]
    constructor
    · rintro ⟨h1, h2⟩; exact ⟨h1, h2, h1 i⟩
    · rintro ⟨h1, h2, _⟩; exact ⟨h1, h2⟩
  rw [hset, pi_first_general hr i zero_le_one subset_rfl Ico_ae_eq_Ioc measurableSet_Ico,
    competing_arith0 (hr i) (Finset.sum_nonneg fun k _ => (hr _).le), ← Fin.sum_univ_succAbove r i]

end FastSIRLaw
