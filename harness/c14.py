"""C14 — results depend on network structure, not on node names or ordering.
Metamorphic: each ODE entry point and each deterministic-rule simulator is run on G and on copies relabelled to
strings, tuples, frozensets, shuffled / offset ints, with shuffled node and edge insertion order (and shuffled
`nodelist` for the node-level models); outputs are compared through the relabelling."""
from fractions import Fraction as F
import numpy as np, networkx as nx
import common, odes, gen, allsims, sims
from sims import err_enum
from predchecks import strip

KINDS = ["str", "tuple", "frozenset", "perm", "offset", "fresh-tuple", "fresh-int", "fresh-str"]


def flat(res):
    out = []
    for x in res:
        if isinstance(x, dict):
            for k in sorted(x, key=repr):
                out.append(np.asarray(x[k], dtype=float).ravel())
        else:
            out.append(np.asarray(x, dtype=float).ravel())
    return out


def close_all(a, b, tol):
    if len(a) != len(b):
        return False
    for x, y in zip(a, b):
        if x.shape != y.shape or not np.allclose(x, y, rtol=1e-6, atol=tol, equal_nan=True):
            return False
    return True


def ode_part(ctx):
    for name, e in odes.E.items():
        # wrappers that build their tables edge by edge from explicit node sets are the ones in which the ORIENTATION in which
        # G.edges() reports an edge (= insertion order of its end points) can leak into the result: four times as many cases,
        # all with explicit sets
        edgewise = "heterogeneous_pairwise_from_graph" in name or "effective_degree_from_graph" in name
        sets_styles = [st for st in e["ic"] if st.startswith("sets")]
        for k in range(ctx.scale(4, 16) * (4 if edgewise and sets_styles else 1)):
            style = e["ic"][k % len(e["ic"])]
            if edgewise and sets_styles and k >= ctx.scale(4, 16):
                style = sets_styles[k % len(sets_styles)]
            G, gkind = odes.graph(ctx.rng, small=e["small"])
            N = G.order()
            if len(set(dict(G.degree()).values())) == 1 and name.startswith("SIS_super_compact"):
                continue        # known finding (nan on regular graphs)
            kw, desc = odes.ic_kwargs(name, style, G, ctx.rng)
            # node-level entry points: in half of the cases the rates come from node / edge attributes (recovery_weight,
            # transmission_weight) — a per-node rate must follow the node, whatever its name and insertion position
            extra = None
            if e["nodelevel"] and k % 2 == 1:
                for u, v in G.edges():
                    G.edges[u, v]["w"] = ctx.rng.choice([0.5, 1.0, 2.0])
                for u in G:
                    G.nodes[u]["r"] = ctx.rng.choice([0.25, 0.5, 1.0, 2.0, 3.0])
                extra = dict(transmission_weight="w", recovery_weight="r")
                ctx.count("ode:weighted-node-level")
                # (and the integer names 0..N-1 are inserted in a shuffled order, as when a graph is read from an edge list)
                G0, order_ = G, list(G)
                ctx.rng.shuffle(order_)
                G = G0.__class__()
                for u in order_:
                    G.add_node(u, **G0.nodes[u])
                es_ = list(G0.edges(data=True))
                ctx.rng.shuffle(es_)
                for u, v, d_ in es_:
                    G.add_edge(u, v, **d_)
            kind = KINDS[ctx.rng.randrange(len(KINDS))]
            H, m = gen.relabel(ctx.rng, G, kind)
            kw2 = dict(kw)
            for key in ("initial_infecteds", "initial_recovereds"):
                if key in kw2:
                    kw2[key] = [m[u] for u in kw2[key]]
            tau, gamma = ctx.rng.choice([(0.5, 1.0), (1.0, 0.5)])
            args = (tau, gamma, 0 if e["discrete"] else 0.0, 3 if e["discrete"] else 2.0, 5)
            full = bool(e["full"])
            rep = dict(entry=name, relabel=kind, ic=style, graph=dict(kind=gkind, n=N, edges=[list(map(repr, ed)) for ed in G.edges()]))
            ctx.count("ode:%s" % kind)
            nl1 = nl2 = None
            if e["nodelevel"]:
                nl1 = list(G)
                ctx.rng.shuffle(nl1)
                perm = list(range(N))
                ctx.rng.shuffle(perm)
                nl2 = [m[nl1[i]] for i in perm]
            try:
                r1 = odes.call(name, G, kw, *args, full, nodelist=nl1, p=0.5, extra=extra)
            except Exception as ex:
                ctx.case(rep, nontrivial=False)
                continue        # C06's business
            # half of the cases: not a relabelled copy but THE SAME graph object relabelled in place after the first call
            # (results must not depend on what the object looked like in an earlier call)
            inplace = k % 2 == 1
            if inplace:
                tmp = {u: ("__tmp__", i) for i, u in enumerate(list(G))}
                nx.relabel_nodes(G, tmp, copy=False)
                nx.relabel_nodes(G, {tmp[u]: m[u] for u in tmp}, copy=False)
                H = G
                rep["relabel"] = kind + ":in-place"
                ctx.count("ode:in-place")
            try:
                r2 = odes.call(name, H, kw2, *args, full, nodelist=nl2, p=0.5, extra=extra)
            except Exception as ex:
                ctx.case(rep, nontrivial=True)
                ctx.violation("%s fails on a relabelled copy of a graph it accepts (%s labels): %s" % (name, kind, type(ex).__name__),
                              dict(rep, error=err_enum(ex)))
                continue
            ctx.case(rep, nontrivial=True, sample=rep)
            if e["scalar"]:
                ok = abs(float(r1) - float(r2)) <= 1e-9
            else:
                f1, f2 = flat(r1), flat(r2)
                if e["nodelevel"] and full:
                    # per-node series: map rows through nodelist permutation
                    ok = compare_nodelevel(r1, r2, perm, N)
                else:
                    ok = close_all(f1, f2, 1e-7 * N)
            if not ok:
                ctx.violation("%s: output changes under relabelling (%s labels) / reordering of nodes and edges" % (name, kind), rep)


def compare_nodelevel(r1, r2, perm, N):
    """entries with first axis of length N (per node rows) are permuted: row j of r2 corresponds to row perm[j] of r1"""
    if len(r1) != len(r2):
        return False
    for x, y in zip(r1, r2):
        x, y = np.asarray(x, dtype=float), np.asarray(y, dtype=float)
        if x.shape != y.shape:
            return False
        if x.ndim == 3 and x.shape[0] == N and x.shape[1] == N:
            x = x[np.ix_(perm, perm)]
        elif x.ndim == 2 and x.shape[0] == N:
            x = x[perm]
        if not np.allclose(x, y, rtol=1e-6, atol=1e-7 * N, equal_nan=True):
            return False
    return True


def sim_part(ctx):
    for sim_ in ("fast_nonMarkov_SIR", "fast_nonMarkov_SIS", "discrete_SIR", "fast_nonMarkov_SIR:ties"):
        sim, ties = sim_.split(":")[0], sim_.endswith(":ties")
        for _ in range(ctx.scale(300, 2000) if ties else ctx.scale(60, 400)):
            c = allsims.gen_case(ctx.rng, sim)
            if c["init"]["kind"] not in ("list", "single"):
                c["init"] = dict(kind="list", nodes=[0])
            if sim == "fast_nonMarkov_SIS" and ctx.rng.random() < 0.5:
                # tie-heavy deterministic rules: integer durations and delays, so that attempts coincide with
                # recoveries and with each other; the outcome must still not depend on names / insertion order
                c["dur"] = [[str(ctx.rng.randint(1, 4)) for _ in per] for per in c["dur"]]
                c["delay"] = [[u, v, [[str(x) for x in sorted(ctx.rng.sample(range(1, 5), ctx.rng.choice([0, 1, 2, 3])))]
                                      for _ in per]] for u, v, per in c["delay"]]
                c["tmax"] = str(F(c["tmin"]) + ctx.rng.choice([4, 8, 12]))
                ctx.count("sis:tie-heavy")
            if sim == "fast_nonMarkov_SIR" and (ties or ctx.rng.random() < 0.5):
                # tie-heavy deterministic rules: integer durations and delays and several nodes infected at the same
                # instant, so that a contact coincides with its source's recovery and competing sources are processed
                # in adjacency order; the outcome must still not depend on names / insertion order
                c["dur"] = [str(ctx.rng.randint(1, 3)) for _ in c["dur"]]
                c["delay"] = [[u, v, str(ctx.rng.randint(1, 3))] for u, v, _ in c["delay"]]
                if c["n"] >= 3:
                    c["init"] = dict(kind="list", nodes=sorted(ctx.rng.sample(range(c["n"]), ctx.rng.randint(2, min(3, c["n"] - 1)))))
                    c["recs"] = [r_ for r_ in c.get("recs", []) if r_ not in c["init"]["nodes"]]
                c["tmax"] = "inf" if ctx.rng.random() < 0.5 else str(F(c["tmin"]) + ctx.rng.choice([3, 5, 8]))
                ctx.count("sir:tie-heavy")
            base, G, idx = allsims.run_impl(c, rng=ctx.rng, full=True)
            if not base["ok"]:
                continue
            times = [t for h in base["history"] for t, s in h[1:]]
            kind = KINDS[ctx.rng.randrange(len(KINDS))]
            labels = gen.relabel(ctx.rng, nx.empty_graph(c["n"]), kind)[1]
            c2 = dict(c)
            c2["labels"] = [labels[i] if not isinstance(labels[i], (tuple, frozenset)) else labels[i] for i in range(c["n"])]
            order = list(c["order"]); ctx.rng.shuffle(order)
            edges = [list(e) if ctx.rng.random() < 0.5 else [e[1], e[0]] for e in c["edges"]]
            perm = list(range(len(edges))); ctx.rng.shuffle(perm)
            c2["order"] = order
            c2["edges"] = [edges[i] for i in perm]
            if c["init"]["kind"] == "list":
                # the initially infected nodes are a set of nodes: the order in which the caller lists them is not structure
                nodes_ = list(c["init"]["nodes"]); ctx.rng.shuffle(nodes_)
                c2["init"] = dict(c["init"], nodes=nodes_)
            rep = dict(entry=sim, relabel=kind, case=strip(c))
            ctx.count("sim:%s" % kind)
            out2, G2, idx2 = run_relabelled(c2, ctx)
            ctx.case(rep, nontrivial=len(times) > 0)
            if not out2["ok"]:
                ctx.violation("%s fails on a relabelled copy (%s labels): %s" % (sim, kind, out2["err"]), dict(rep, tb=out2.get("tb")))
                continue
            # histories per original node index i: base index li[i], relabelled index li2[i]
            li, li2 = base["lab_index"], out2["lab_index"]
            h1 = [base["history"][li[i]] for i in range(c["n"])]
            h2 = [out2["history"][li2[i]] for i in range(c["n"])]
            if h1 != h2:
                i = next(i for i in range(c["n"]) if h1[i] != h2[i])
                ctx.violation("%s: per-node histories change under relabelling (%s labels) / reordering" % (sim, kind),
                              dict(rep, node=i, original=h1[i], relabelled=h2[i]))


def run_relabelled(c2, ctx):
    """like allsims.run_impl but with arbitrary hashable labels (tuple / frozenset labels are kept as objects)"""
    import rng as rngmod
    labels = c2["labels"]
    G = nx.Graph()
    lab = lambda i: labels[i]
    for i in c2["order"]:
        G.add_node(lab(i))
    for u, v in c2["edges"]:
        G.add_edge(lab(u), lab(v))
    idx = gen.index_of(G)
    tr = rngmod.TapeRandom(rng=ctx.rng, idx=idx)
    rules = allsims.Rules(c2, lab, idx)
    out = {"full": True}
    try:
        res = allsims.call_sim(c2, G, lab, tr, True, rules)
        out.update(allsims.dump_full(res, G, idx, c2))
        out["ok"] = True
    except Exception as e:
        import traceback
        out["ok"] = False
        out["err"] = err_enum(e)
        out["tb"] = traceback.format_exc()[-500:]
    out["lab_index"] = {i: idx[lab(i)] for i in range(c2["n"])}
    return out, G, idx


def run(ctx):
    ode_part(ctx)
    sim_part(ctx)
