#!/usr/bin/env python3
"""pyargs2lean — translator for the argument normalisation at the head of every SIR/SIS simulator of
EoN/simulation.py -> lean/EoNVerif/Gen/ArgsGen.lean (namespace GenArgs; runtime Gen/PyArgs.lean).

For each of discrete_SIR, basic_discrete_SIS, fast_nonMarkov_SIR, fast_SIS, fast_nonMarkov_SIS, Gillespie_SIR,
Gillespie_SIS the translated statements are, in source order: every top-level `if rho is not None and <X> is not None:
raise EoN.EoNError(...)` guard and the chain

    if initial_infecteds is None:
        if rho is None: initial_number = 1
        else: initial_number = int(round(G.order()*rho))
        initial_infecteds = random.sample(list(G), initial_number)
    elif G.has_node(initial_infecteds):
        initial_infecteds = [initial_infecteds]

(expressions translated structurally).  For the forwarding wrappers fast_SIR, basic_discrete_SIR,
percolation_based_discrete_SIR it is checked that `initial_infecteds`, `initial_recovereds` and `rho` are forwarded
unchanged.  Anything else raises Unsupported — a failed translation is an undischarged obligation.
"""
import ast, os, sys, hashlib

REPO = os.environ.get("EON_REPO", "/repo")
SIMS = ["discrete_SIR", "basic_discrete_SIS", "fast_nonMarkov_SIR", "fast_SIS", "fast_nonMarkov_SIS", "Gillespie_SIR", "Gillespie_SIS"]
WRAPPERS = {"fast_SIR": "fast_nonMarkov_SIR", "basic_discrete_SIR": "discrete_SIR", "percolation_based_discrete_SIR": "discrete_SIR"}
OPT = ("rho", "initial_infecteds", "initial_recovereds")


class Unsupported(Exception):
    pass


def is_none_test(e, positive=None):
    """`X is None` / `X is not None` for one of the optional arguments -> (name, is_none)"""
    if isinstance(e, ast.Compare) and len(e.ops) == 1 and isinstance(e.ops[0], (ast.Is, ast.IsNot)) \
            and isinstance(e.comparators[0], ast.Constant) and e.comparators[0].value is None \
            and isinstance(e.left, ast.Name) and e.left.id in OPT:
        return e.left.id, isinstance(e.ops[0], ast.Is)
    return None


def expr(e, env):
    """-> (pre-lines, term, kind) for the handful of expressions of the chain"""
    src = ast.unparse(e)
    if isinstance(e, ast.Constant) and isinstance(e.value, int) and not isinstance(e.value, bool):
        return [], f"({e.value} : Int)", "int"
    if isinstance(e, ast.Name) and e.id in env:
        return [], e.id, env[e.id]
    if src == "G.order()":
        return [], "A.order", "int"
    if src == "list(G)":
        return [], "A.nodes", "nodes"
    if isinstance(e, ast.BinOp) and isinstance(e.op, (ast.Mult, ast.Add, ast.Sub)):
        pa, a, ka = expr(e.left, env)
        pb, b, kb = expr(e.right, env)
        sym = {ast.Mult: "*", ast.Add: "+", ast.Sub: "-"}[type(e.op)]
        conv = lambda t, k: t if k == "rat" else f"(({t} : Int) : Rat)"
        if "rat" in (ka, kb) and {ka, kb} <= {"rat", "int"}:
            return pa + pb, f"({conv(a, ka)} {sym} {conv(b, kb)})", "rat"
        if ka == kb == "int":
            return pa + pb, f"({a} {sym} {b})", "int"
        raise Unsupported("arithmetic " + src)
    if isinstance(e, ast.Call) and isinstance(e.func, ast.Name) and e.func.id == "int" and len(e.args) == 1 \
            and isinstance(e.args[0], ast.Call) and isinstance(e.args[0].func, ast.Name) and e.args[0].func.id == "round" and len(e.args[0].args) == 1:
        p, a, k = expr(e.args[0].args[0], env)
        if k != "rat":
            raise Unsupported("int(round(" + k + "))")
        return p, f"(PyArgs.intRound {a})", "int"
    if isinstance(e, ast.Call) and ast.unparse(e.func) == "random.sample" and len(e.args) == 2:
        pa, a, ka = expr(e.args[0], env)
        pb, b, kb = expr(e.args[1], env)
        if (ka, kb) != ("nodes", "int"):
            raise Unsupported(src)
        return pa + pb + [f"let s_ ← PyArgs.sample {a} {b}"], "s_", "nodes"
    if isinstance(e, ast.List) and len(e.elts) == 1:
        p, a, k = expr(e.elts[0], env)
        if k != "src":
            raise Unsupported(src)
        return p + [f"let l_ ← PyTM.liftE (PyArgs.listOf {a})"], "l_", "nodes"
    raise Unsupported("expression " + src[:60])


def translate_sim(fn):
    body = [s for s in fn.body if not (isinstance(s, ast.Expr) and isinstance(s.value, ast.Constant))]
    params = [a.arg for a in fn.args.args]
    has_recs = "initial_recovereds" in params
    lines, chain_seen, srcs = [], False, []
    for st in body:
        if isinstance(st, ast.If) and len(st.body) == 1 and isinstance(st.body[0], ast.Raise) and not st.orelse \
                and isinstance(st.test, ast.BoolOp) and isinstance(st.test.op, ast.And) and all(is_none_test(v) for v in st.test.values) \
                and any(is_none_test(v)[0] == "rho" for v in st.test.values):
            if chain_seen:
                raise Unsupported("rho guard after the normalisation")
            exc = ast.unparse(st.body[0].exc)
            if not exc.startswith("EoN.EoNError("):
                raise Unsupported("raise " + exc[:40])
            conds = []
            for v in st.test.values:
                nm, is_none = is_none_test(v)
                if nm == "initial_recovereds" and not has_recs:
                    raise Unsupported("initial_recovereds is not a parameter")
                conds.append(f"{nm}.isNone" if is_none else f"{nm}.isSome")
            lines.append(f"  if ({' && '.join(conds)}) then TM.fail \"EoNError\" else")
            srcs.append(ast.unparse(st))
            continue
        nt = is_none_test(st.test) if isinstance(st, ast.If) else None
        if nt == ("initial_infecteds", True):
            if chain_seen:
                raise Unsupported("two normalisation chains")
            chain_seen = True
            srcs.append(ast.unparse(st))
            # none branch
            nb = st.body
            if len(nb) != 2 or not isinstance(nb[0], ast.If) or is_none_test(nb[0].test) != ("rho", True) or len(nb[0].body) != 1 \
                    or len(nb[0].orelse) != 1 or not all(isinstance(x, ast.Assign) and ast.unparse(x.targets[0]) == "initial_number"
                                                         for x in (nb[0].body[0], nb[0].orelse[0])) \
                    or not isinstance(nb[1], ast.Assign) or ast.unparse(nb[1].targets[0]) != "initial_infecteds":
                raise Unsupported("shape of the `initial_infecteds is None` branch")
            p1, t1, k1 = expr(nb[0].body[0].value, {})
            p2, t2, k2 = expr(nb[0].orelse[0].value, {"rho": "rat"})
            if p1 or p2 or (k1, k2) != ("int", "int"):
                raise Unsupported("initial_number")
            p3, t3, k3 = expr(nb[1].value, {"initial_number": "int"})
            if k3 != "nodes":
                raise Unsupported("initial_infecteds = " + ast.unparse(nb[1].value))
            # elif branch
            ob = st.orelse
            if len(ob) != 1 or not isinstance(ob[0], ast.If) or ob[0].orelse or ast.unparse(ob[0].test) != "G.has_node(initial_infecteds)" \
                    or len(ob[0].body) != 1 or not isinstance(ob[0].body[0], ast.Assign) or ast.unparse(ob[0].body[0].targets[0]) != "initial_infecteds":
                raise Unsupported("shape of the `elif G.has_node(initial_infecteds)` branch")
            p4, t4, k4 = expr(ob[0].body[0].value, {"initial_infecteds": "src"})
            if k4 != "nodes":
                raise Unsupported("initial_infecteds = " + ast.unparse(ob[0].body[0].value))
            lines += ["  let initial_infecteds ← (match initial_infecteds with",
                      "    | none => do",
                      f"      let initial_number : Int := (match rho with | none => {t1} | some rho => {t2})"] + \
                     ["      " + x for x in p3] + [f"      pure {t3}",
                      "    | some initial_infecteds => do",
                      "      if A.hasNodeS initial_infecteds then do"] + ["        " + x for x in p4] + [f"        pure {t4}",
                      "      else PyTM.liftE (PyArgs.asIterable initial_infecteds))"]
            continue
        # any other statement that rebinds one of the three arguments before the chain would change the semantics
        if not chain_seen:
            for node in ast.walk(st):
                if isinstance(node, ast.Assign) and any(isinstance(t, ast.Name) and t.id in ("rho", "initial_infecteds") for t in node.targets):
                    raise Unsupported("argument rebound before the normalisation: " + ast.unparse(node)[:50])
    if not chain_seen:
        raise Unsupported("normalisation chain not found")
    recs_b = "(initial_recovereds : Option Src)" if has_recs else "(_initial_recovereds : Option Src)"
    if has_recs and not any("initial_recovereds" in l for l in lines):
        recs_b = "(_initial_recovereds : Option Src)"
    head = (f"/-- generated from the head of `{fn.name}` (EoN/simulation.py:{fn.lineno}) -/\n"
            f"def norm_{fn.name} (A : NArgs) (rho : Option Rat) (initial_infecteds : Option Src) {recs_b} : TM (List Node) := do\n")
    return head + "\n".join(lines) + "\n  pure initial_infecteds\n", "\n".join(srcs), has_recs


def check_wrapper(fn, target):
    body = [s for s in fn.body if not (isinstance(s, ast.Expr) and isinstance(s.value, ast.Constant))]
    calls = [n for st in body for n in ast.walk(st) if isinstance(n, ast.Call) and ast.unparse(n.func) == target]
    if not calls:
        raise Unsupported(f"{fn.name}: no call of {target}")
    for st in body:
        for node in ast.walk(st):
            if isinstance(node, ast.Assign) and any(isinstance(t, ast.Name) and t.id in OPT for t in node.targets):
                raise Unsupported(f"{fn.name}: rebinds {ast.unparse(node.targets[0])}")
    params = [a.arg for a in fn.args.args]
    for c in calls:
        kws = {k.arg: ast.unparse(k.value) for k in c.keywords}
        for nm in OPT:
            if nm in params and kws.get(nm) != nm:
                raise Unsupported(f"{fn.name}: does not forward {nm} unchanged to {target}")
    return "\n".join(ast.unparse(c) for c in calls)


HEADER = '''import EoNVerif.Gen.PyArgs
/-!
GENERATED by harness/pyargs2lean.py from the argument normalisation at the head of the simulators of EoN/simulation.py
— do not edit; regenerated on every check run.   source sha1: {sha}
-/
open PyPM PyArgs

namespace GenArgs

'''


def translate(repo=REPO):
    src = open(os.path.join(repo, "EoN", "simulation.py")).read()
    tree = ast.parse(src)
    fns = {n.name: n for n in tree.body if isinstance(n, ast.FunctionDef)}
    errors, parts, srcs = {}, [], []
    for name in SIMS:
        try:
            text, s, _ = translate_sim(fns[name])
            parts.append(text)
            srcs.append(s)
        except (Unsupported, KeyError) as ex:
            errors[name] = f"unsupported: {ex}"
    for name, target in WRAPPERS.items():
        try:
            srcs.append(check_wrapper(fns[name], target))
            parts.append(f"/-- `{name}` forwards `initial_infecteds`, `initial_recovereds`, `rho` unchanged to `{target}` (checked on the ast) -/\n"
                         f"abbrev norm_{name} := @norm_{target}\n")
        except (Unsupported, KeyError) as ex:
            errors[name] = f"unsupported: {ex}"
    sha = hashlib.sha1("\n".join(srcs).encode()).hexdigest()
    return HEADER.format(sha=sha) + "\n".join(parts) + "\nend GenArgs\n", errors


def regenerate():
    import warnings
    target = os.path.join(os.path.dirname(os.path.abspath(__file__)), "..", "lean", "EoNVerif", "Gen", "ArgsGen.lean")
    with warnings.catch_warnings():
        warnings.simplefilter("ignore")
        text, errors = translate()
    old = open(target).read() if os.path.exists(target) else None
    if text and not errors and old != text:
        tmp = target + ".tmp%d" % os.getpid()
        with open(tmp, "w") as f:
            f.write(text)
        os.replace(tmp, target)
    return (old != text and not errors), errors


def main():
    changed, errors = regenerate()
    print("pyargs2lean: Gen/ArgsGen.lean %s" % ("rewritten" if changed else "up to date"))
    for n, e in errors.items():
        print(f"pyargs2lean: {n}: {e}")
    return 1 if errors else 0


if __name__ == "__main__":
    sys.exit(main())
