import EoNVerif.Basic
import EoNVerif.Model.ListDict
import EoNVerif.Model.ListDictLaw
import EoNVerif.Rand.Dist
import EoNVerif.Model.Tape
import EoNVerif.Model.Gillespie
import EoNVerif.Spec.Chain
import EoNVerif.Spec.Predicates
