import DriverGlue
partial def loopGlue (h : IO.FS.Stream) (out : IO.FS.Stream) : IO Unit := do
  let line ← h.getLine
  if line.isEmpty then return ()
  out.putStrLn (DrvGenGlue.handle line)
  loopGlue h out
def main : IO Unit := do loopGlue (← IO.getStdin) (← IO.getStdout)
