import EoNVerif.Proofs.EventSIRInv
/-!
Helper lemmas for C11, part 4: the invariant along `loop`, the termination measure, and the final comparison of
a terminated run with the first-passage-percolation specification `isFPP`.
-/
namespace EventSIR

section Loop
variable {nodes : List Node} {nbrs : Node → List Node} {delay : Node → Node → ERat} {dur : Node → ERat}
  {tmin : Rat} {tmax : ERat} {infs recs : List Node}

/-- the invariant on a state -/
def Inv (nodes : List Node) (nbrs : Node → List Node) (delay : Node → Node → ERat) (dur : Node → ERat)
    (tmin : Rat) (tmax : ERat) (infs recs : List Node) (s : ESState) : Prop :=
  InvC nodes nbrs delay dur tmin tmax infs recs s.status s.recTime s.predInf s.queue s.trans

theorem Inv.step (h : WF nodes nbrs delay dur infs recs) {sel : Nat} {s s' : ESState}
    (hI : Inv nodes nbrs delay dur tmin tmax infs recs s)
    (hs : step (tableParams nodes nbrs delay dur tmin tmax) sel s = some s') :
    Inv nodes nbrs delay dur tmin tmax infs recs s' := by
  obtain ⟨x, l1, l2, hq, hmin, hc⟩ := step_some nodes nbrs delay dur tmin tmax hs
  unfold Inv at hI ⊢
  rw [hq] at hI hmin
  rcases hc with ⟨src, tgt, hev, hst, e1, e2, e3, e4, e5⟩ | ⟨src, tgt, hev, hst, e1, e2, e3, e4, e5⟩ |
    ⟨u, hev, e1, e2, e3, e4, e5⟩
  · rw [e1, e2, e3, e4, e5]; exact hI.dequeue_notS hev hst
  · rw [e1, e2, e3, e4, e5]; exact hI.infect h hmin hev hst
  · rw [e1, e2, e3, e4, e5]; exact hI.recover hev

theorem initQueue_eq (P : ESParams) (l : List Node) (q : List QItem) :
    initQueue P l q = q ++ (if ERat.lt (some P.tmin) P.tmax = true then
      l.map (fun u => (⟨P.tmin, QEv.trans none u⟩ : QItem)) else []) := by
  induction l generalizing q with
  | nil => simp [initQueue]
  | cons u rest ih =>
    rw [initQueue, ih, qadd_eq]
    split <;> simp

theorem initQueue_table (l : List Node) (q : List QItem) :
    initQueue (tableParams nodes nbrs delay dur tmin tmax) l q = q ++ (if ERat.lt (some tmin) tmax = true then
      l.map (fun u => (⟨tmin, QEv.trans none u⟩ : QItem)) else []) :=
  initQueue_eq _ _ _

theorem InvC_init (h : WF nodes nbrs delay dur infs recs) :
    InvC nodes nbrs delay dur tmin tmax infs recs (fun v => if v ∈ recs then St.R else St.S)
      (fun v => if v ∈ recs then some tmin else some (tmin - 1))
      (fun v => if v ∈ infs then some tmin else none)
      (initQueue (tableParams nodes nbrs delay dur tmin tmax) infs []) [] := by
  have hmem : ∀ x ∈ initQueue (tableParams nodes nbrs delay dur tmin tmax) infs [],
      ERat.lt (some tmin) tmax = true ∧ ∃ u ∈ infs, x = ⟨tmin, QEv.trans none u⟩ := by
    intro x hx
    rw [initQueue_table, List.nil_append] at hx
    split at hx
    · rename_i hlt
      simp only [List.mem_map] at hx
      obtain ⟨u, hu, rfl⟩ := hx
      exact ⟨hlt, u, hu, rfl⟩
    · simp at hx
  exact {
    st_S := by intro v; by_cases hv : v ∈ recs <;> simp [hv]
    tr_nodup := by simp
    tr_lt := by simp
    tr_src := by simp
    tr_walk := by simp
    tr_opt := by simp
    q_lt := by
      intro x hx
      obtain ⟨hlt, u, _, rfl⟩ := hmem x hx
      exact hlt
    q_tr := by
      intro x hx src v hev
      obtain ⟨hlt, u, hu, rfl⟩ := hmem x hx
      simp only [QEv.trans.injEq] at hev
      obtain ⟨rfl, rfl⟩ := hev
      exact ⟨h.infs_mem _ hu, hu, rfl⟩
    pred_edge := by simp
    pred_init := by
      intro v hv _
      simp [hv]
    pred_q := by
      intro v p hv hp hlt
      simp only at hp
      split at hp
      · rename_i hvi
        injection hp with hp; subst hp
        refine ⟨⟨tmin, QEv.trans none v⟩, ?_, rfl, none, rfl⟩
        rw [initQueue_table, List.nil_append, if_pos hlt]
        exact List.mem_map.2 ⟨v, hvi, rfl⟩
      · cases hp
    rec_time := by simp
    rec_R := by
      intro v hv hr
      have hv' : (if v ∈ recs then St.R else St.S) = St.R := hv
      rw [if_neg hr] at hv'; cases hv'
    rec_I := by
      intro v r hv
      have hv' : (if v ∈ recs then St.R else St.S) = St.I := hv
      split at hv' <;> cases hv'
    rec_q := by
      intro x hx u hev
      obtain ⟨_, u', _, rfl⟩ := hmem x hx
      cases hev
    rec_cnt := by
      intro t u
      have : (initQueue (tableParams nodes nbrs delay dur tmin tmax) infs []).count (⟨t, QEv.recov u⟩ : QItem) = 0 := by
        apply List.count_eq_zero_of_not_mem
        intro hin
        obtain ⟨_, u', _, g⟩ := hmem _ hin
        cases g
      omega }

theorem Inv.init (h : WF nodes nbrs delay dur infs recs) :
    Inv nodes nbrs delay dur tmin tmax infs recs (init (tableParams nodes nbrs delay dur tmin tmax) infs recs) :=
  InvC_init h

theorem Inv.loop (h : WF nodes nbrs delay dur infs recs) (sel : Nat → Nat) (fuel : Nat) :
    ∀ (k : Nat) (s : ESState), Inv nodes nbrs delay dur tmin tmax infs recs s →
      Inv nodes nbrs delay dur tmin tmax infs recs (loop (tableParams nodes nbrs delay dur tmin tmax) sel fuel k s) := by
  induction fuel with
  | zero => intro k s hI; exact hI
  | succ fuel ih =>
    intro k s hI
    unfold EventSIR.loop
    split
    · exact hI
    · rename_i s' hs
      exact ih _ _ (hI.step h hs)

theorem Inv.run (h : WF nodes nbrs delay dur infs recs) (sel : Nat → Nat) (fuel : Nat) :
    Inv nodes nbrs delay dur tmin tmax infs recs (run (tableParams nodes nbrs delay dur tmin tmax) sel infs recs fuel) :=
  Inv.loop h sel fuel 0 _ (Inv.init h)

/-! ### termination -/

/-- the termination measure -/
def mu (nodes : List Node) (s : ESState) : Nat :=
  nodes.countP (fun v => s.status v = St.S) * (nodes.length + 1) + s.queue.length

theorem countP_succ_le {α : Type} {p p' : α → Bool} {l : List α} (hmono : ∀ x ∈ l, p' x = true → p x = true)
    {a : α} (ha : a ∈ l) (hpa : p a = true) (hpa' : p' a = false) : l.countP p' + 1 ≤ l.countP p := by
  induction l with
  | nil => simp at ha
  | cons b l ih =>
    have hml : ∀ x ∈ l, p' x = true → p x = true := fun x hx => hmono x (List.mem_cons_of_mem _ hx)
    rcases List.mem_cons.1 ha with rfl | ha
    · have := List.countP_mono_left (l := l) hml
      simp only [List.countP_cons, hpa, hpa']
      simp; omega
    · have := ih hml ha
      have hb := hmono b (List.mem_cons_self ..)
      simp only [List.countP_cons]
      by_cases hb' : p' b = true
      · simp [hb', hb hb']; omega
      · simp [hb']; omega

theorem nodup_length_le {l nodes : List Node} (hn : l.Nodup) (hs : ∀ x ∈ l, x ∈ nodes) : l.length ≤ nodes.length :=
  (List.subperm_of_subset hn hs).length_le

theorem schB_length (st : Node → St) (pr : Node → ERat) (q : List QItem) (time : Rat) (tgt : Node) :
    (schB nbrs delay dur tmax st pr q time tgt).2.length ≤ q.length + 1 + (nbrs tgt).length := by
  obtain ⟨r, hq1, hrlen, _, _⟩ := q1B_spec dur tmax q time tgt
  obtain ⟨ex, hq2, hexlen, _⟩ := schedule_struct tmax time tgt (ERat.add (some time) (dur tgt))
    ((susB nbrs st tgt).map fun v => (v, delay tgt v)) pr (q1B dur tmax q time tgt)
  unfold schB
  rw [hq2, hq1]
  simp only [List.length_append, List.length_map] at hexlen ⊢
  have : (susB nbrs st tgt).length ≤ (nbrs tgt).length := by
    unfold susB; exact List.length_filter_le _ _
  omega

theorem mu_step (h : WF nodes nbrs delay dur infs recs) {sel : Nat} {s s' : ESState}
    (hI : Inv nodes nbrs delay dur tmin tmax infs recs s)
    (hs : step (tableParams nodes nbrs delay dur tmin tmax) sel s = some s') : mu nodes s' < mu nodes s := by
  obtain ⟨x, l1, l2, hq, hmin, hc⟩ := step_some nodes nbrs delay dur tmin tmax hs
  unfold mu
  rcases hc with ⟨src, tgt, hev, hst, e1, e2, e3, e4, e5⟩ | ⟨src, tgt, hev, hst, e1, e2, e3, e4, e5⟩ |
    ⟨u, hev, e1, e2, e3, e4, e5⟩
  · rw [e1, e4, hq]; simp only [List.length_append, List.length_cons]; omega
  · have hx : x ∈ s.queue := by rw [hq]; simp
    have htn : tgt ∈ nodes := (hI.q_tr x hx src tgt hev).1
    have hc : nodes.countP (fun v => decide (s'.status v = St.S)) + 1 ≤
        nodes.countP (fun v => decide (s.status v = St.S)) := by
      apply countP_succ_le (a := tgt) _ htn
      · simp [hst]
      · rw [e1]; simp [fset_same]
      · intro v _ hv
        rw [e1] at hv
        simp only [decide_eq_true_eq] at hv ⊢
        by_cases hvt : v = tgt
        · subst hvt; exact hst
        · rwa [fset_other _ _ _ _ hvt] at hv
    have hlen := schB_length (nbrs := nbrs) (delay := delay) (dur := dur) (tmax := tmax) s.status s.predInf
      (l1 ++ l2) x.time tgt
    have hnb : (nbrs tgt).length ≤ nodes.length :=
      nodup_length_le (h.nbr_nodup tgt htn) (h.nbr_mem tgt htn)
    have hmul := Nat.mul_le_mul_right (nodes.length + 1) hc
    rw [Nat.add_mul] at hmul
    rw [e4, hq]
    simp only [List.length_append, List.length_cons] at hlen ⊢
    omega
  · have hc : nodes.countP (fun v => decide (s'.status v = St.S)) ≤
        nodes.countP (fun v => decide (s.status v = St.S)) := by
      apply List.countP_mono_left
      intro v _ hv
      rw [e1] at hv
      simp only [decide_eq_true_eq] at hv ⊢
      by_cases hvu : v = u
      · subst hvu; rw [fset_same] at hv; cases hv
      · rwa [fset_other _ _ _ _ hvu] at hv
    have hmul := Nat.mul_le_mul_right (nodes.length + 1) hc
    rw [e4, hq]
    simp only [List.length_append, List.length_cons]
    omega

theorem loop_queue_empty (h : WF nodes nbrs delay dur infs recs) (sel : Nat → Nat) (fuel : Nat) :
    ∀ (k : Nat) (s : ESState), Inv nodes nbrs delay dur tmin tmax infs recs s → mu nodes s ≤ fuel →
      (loop (tableParams nodes nbrs delay dur tmin tmax) sel fuel k s).queue = [] := by
  induction fuel with
  | zero =>
    intro k s _ hm
    unfold mu at hm
    unfold EventSIR.loop
    exact List.length_eq_zero_iff.1 (by omega)
  | succ fuel ih =>
    intro k s hI hm
    unfold EventSIR.loop
    split
    · rename_i hs; exact step_none hs
    · rename_i s' hs
      have := mu_step h hI hs
      exact ih _ _ (hI.step h hs) (by omega)

theorem mu_init (h : WF nodes nbrs delay dur infs recs) :
    mu nodes (init (tableParams nodes nbrs delay dur tmin tmax) infs recs) ≤
      (nodes.length + 1) * (nodes.length + 1) + nodes.length := by
  unfold mu
  have h1 : nodes.countP (fun v => decide ((init (tableParams nodes nbrs delay dur tmin tmax) infs recs).status v = St.S))
      ≤ nodes.length := List.countP_le_length
  have h2 : (init (tableParams nodes nbrs delay dur tmin tmax) infs recs).queue.length ≤ nodes.length := by
    show (initQueue (tableParams nodes nbrs delay dur tmin tmax) infs []).length ≤ nodes.length
    rw [initQueue_table]
    have := nodup_length_le h.infs_nodup h.infs_mem
    split
    · simpa using this
    · simp
  have hmul := Nat.mul_le_mul_right (nodes.length + 1) h1
  have : nodes.length * (nodes.length + 1) ≤ (nodes.length + 1) * (nodes.length + 1) :=
    Nat.mul_le_mul_right _ (by omega)
  omega

end Loop

end EventSIR
