import EoNVerif.Proofs.GenGillespie
/-!
C01e — the Lean code GENERATED statement by statement from the Python function `Gillespie_SIR`
(`EoNVerif/Gen/GillespieGen.lean`, namespace `GenGSIR`, over the generated `_ListDict_` code) REFINES the hand-written
model `Gillespie.run` (`EoNVerif/Model/Gillespie.lean`) with `P.sis = false`, in both directions and on every tape.
Hence every C01 theorem about the model (`Props/C01.lean`) holds for the code generated from the source.

* `GenGillespie.Agree A P tmin tmax cfuel` — the arguments read by the generated code describe the model's parameters;
* `GenGSIR.Rel σ s` — the simulation relation (statuses equal, both `_ListDict_`s related by `GenLD.R`, output rows
  equal up to the model's newest-first order);
* `gen_run_refines` / `gen_run_refines_back` — forward / backward simulation with the SAME final tape state (remaining
  draws and the log of RNG calls with their arguments: clock rates, candidate lists);
* `gen_run_inv`, `gen_run_clock`, `gen_clock`, `gen_run_counts`, `gen_run_no_keyerror`, `gen_run_fails_iff`,
  `gen_run_transmissions` — the C01 facts transferred.
-/
namespace GenGSIR
open Gillespie GenGillespie

variable {A : PyTM.GArgs} {P : GParams} {tmin : Rat} {tmax : ERat} {cfuel : Nat}

/-- **simulation, both directions at once** (`TM.Sim`: every normal return of one program is matched by a normal return
of the other with the same final tape state and related results), with the full loop invariant `LRel` -/
theorem gen_run_sim (hag : Agree A P tmin tmax cfuel) (hwf : WF P) (hsir : P.sis = false) (infs recs : List Node)
    (fuel : Nat) (hi : infs.Nodup) (him : ∀ u ∈ infs, u ∈ P.nodes) (hd : ∀ u ∈ infs, u ∉ recs) :
    TM.Sim (run A infs recs fuel) (Gillespie.run P infs recs tmin tmax fuel cfuel)
      (fun σ s => ∃ t, LRel A P σ s t) :=
  run_sim hag hwf hsir infs recs fuel hi him hd

/-- **forward simulation**: every normal return of the model is a normal return of the generated code, in a related
state, with the same final tape state — the same draws were consumed and the same RNG calls with the same arguments
(clock rates, candidate lists) were logged -/
theorem gen_run_refines (hag : Agree A P tmin tmax cfuel) (hwf : WF P) (hsir : P.sis = false) (infs recs : List Node)
    (fuel : Nat) (hi : infs.Nodup) (him : ∀ u ∈ infs, u ∈ P.nodes) (hd : ∀ u ∈ infs, u ∉ recs)
    (ts ts' : TapeSt) (s : GState)
    (h : Gillespie.run P infs recs tmin tmax fuel cfuel ts = .ok (s, ts')) :
    ∃ σ, run A infs recs fuel ts = .ok (σ, ts') ∧ Rel σ s := by
  obtain ⟨σ, h1, t, h2⟩ := (run_sim hag hwf hsir infs recs fuel hi him hd ts).1 s ts' h
  exact ⟨σ, h1, h2.rel⟩

/-- **backward simulation**: every normal return of the generated code is a run of the model -/
theorem gen_run_refines_back (hag : Agree A P tmin tmax cfuel) (hwf : WF P) (hsir : P.sis = false)
    (infs recs : List Node) (fuel : Nat) (hi : infs.Nodup) (him : ∀ u ∈ infs, u ∈ P.nodes)
    (hd : ∀ u ∈ infs, u ∉ recs) (ts ts' : TapeSt) (σ : Loc)
    (h : run A infs recs fuel ts = .ok (σ, ts')) :
    ∃ s, Gillespie.run P infs recs tmin tmax fuel cfuel ts = .ok (s, ts') ∧ Rel σ s := by
  obtain ⟨s, h1, t, h2⟩ := (run_sim hag hwf hsir infs recs fuel hi him hd ts).2 σ ts' h
  exact ⟨s, h1, h2.rel⟩

/-- the two `while` loops simulate each other from related states (any fuel, any tape) -/
theorem gen_loop_refines (hag : Agree A P tmin tmax cfuel) (hwf : WF P) (hsir : P.sis = false) (fuel : Nat)
    (σ : Loc) (s : GState) (t : ERat) (h : LRel A P σ s t) :
    TM.Sim (loop A fuel σ) (Gillespie.loop P tmax cfuel fuel s t) (fun σ' s' => ∃ t', LRel A P σ' s' t') :=
  loop_sim hag hwf hsir fuel σ s t h

/-- **C01 invariant, transferred**: after every normally returning run of the generated code the two candidate
structures list exactly the events enabled in the final statuses — `infecteds` the infectious nodes, `IS_links` the
infectious–susceptible edges — without duplicates -/
theorem gen_run_inv (hag : Agree A P tmin tmax cfuel) (hwf : WF P) (hsir : P.sis = false)
    (infs recs : List Node) (fuel : Nat) (hi : infs.Nodup) (him : ∀ u ∈ infs, u ∈ P.nodes)
    (hd : ∀ u ∈ infs, u ∉ recs) (ts ts' : TapeSt) (σ : Loc)
    (h : run A infs recs fuel ts = .ok (σ, ts')) :
    (∀ u, u ∈ σ.infecteds.items ↔ u ∈ Chain.enabledRec P σ.status) ∧
    (∀ p, p ∈ σ.IS_links.items ↔ p ∈ Chain.enabledTrans P σ.status) ∧
    σ.infecteds.items.Nodup ∧ σ.IS_links.items.Nodup := by
  obtain ⟨s, -, t, h2⟩ := (run_sim hag hwf hsir infs recs fuel hi him hd ts).2 σ ts' h
  obtain ⟨e1, e2⟩ := enabled_iff' P s h2.inv
  rw [h2.rel.status, h2.rel.inf.items, h2.rel.links.items]
  exact ⟨fun u => (e1 u).symm, fun p => (e2 p).symm, h2.inv.infInv.nodup, h2.inv.linkInv.nodup⟩

/-- **C01 clock, transferred (final state)**: the rate variables of the generated code hold the chain's rates in the
final statuses -/
theorem gen_run_clock (hag : Agree A P tmin tmax cfuel) (hwf : WF P) (hsir : P.sis = false)
    (infs recs : List Node) (fuel : Nat) (hi : infs.Nodup) (him : ∀ u ∈ infs, u ∈ P.nodes)
    (hd : ∀ u ∈ infs, u ∉ recs) (ts ts' : TapeSt) (σ : Loc)
    (h : run A infs recs fuel ts = .ok (σ, ts')) :
    σ.total_rate = Chain.totalRate P σ.status ∧
      σ.total_rate = σ.total_recovery_rate + σ.total_transmission_rate := by
  obtain ⟨s, -, t, h2⟩ := (run_sim hag hwf hsir infs recs fuel hi him hd ts).2 σ ts' h
  refine ⟨?_, ?_⟩
  · rw [h2.tot, clock_eq' P hwf s h2.inv, h2.rel.status]
  · rw [h2.tot, h2.rr, h2.tr]; rfl

/-- **C01 clock, transferred (every step)**: in a state related to a model state `s` with `Inv P s`, the clock
statements of the generated code call `expovariate` with exactly the chain's total rate in the current statuses (the
logged call), and move the time by the drawn amount -/
theorem gen_clock (hag : Agree A P tmin tmax cfuel) (hwf : WF P) (σ : Loc) (s : GState) (tv : Rat)
    (hrel : Rel σ s) (hinv : Gillespie.Inv P s) (ht : σ.t = some tv) (k : Loc → TM Loc) (ts : TapeSt) (d : Rat)
    (rest : List Draw) (htape : ts.tape = .expo d :: rest) (hpos : 0 < Chain.totalRate P σ.status) :
    ∃ σ', tail A k σ ts = k σ' { tape := rest, trace := ts.trace.push (.expo (Chain.totalRate P σ.status)) } ∧
      σ'.t = some (tv + d) ∧ σ'.total_rate = Chain.totalRate P σ.status ∧ Rel σ' s :=
  tail_clock hag hwf σ s tv hrel hinv ht k ts d rest htape hpos

/-- **output rows**: the last entries of the returned `S`, `I`, `R`, `times` lists are the model's current counts /
time, and all four lists are non-empty and the model's lists reversed -/
theorem gen_run_counts (hag : Agree A P tmin tmax cfuel) (hwf : WF P) (hsir : P.sis = false)
    (infs recs : List Node) (fuel : Nat) (hi : infs.Nodup) (him : ∀ u ∈ infs, u ∈ P.nodes)
    (hd : ∀ u ∈ infs, u ∉ recs) (ts ts' : TapeSt) (σ : Loc)
    (h : run A infs recs fuel ts = .ok (σ, ts')) :
    ∃ s, Gillespie.run P infs recs tmin tmax fuel cfuel ts = .ok (s, ts') ∧
      σ.S.getLast? = some (Gillespie.hd s.S) ∧ σ.I.getLast? = some (Gillespie.hd s.I) ∧
      σ.R.getLast? = some (Gillespie.hd s.R) ∧
      σ.S = s.S.reverse ∧ σ.I = s.I.reverse ∧ σ.R = s.R.reverse ∧ σ.times = s.times.reverse.map some := by
  obtain ⟨s, h1, t, h2⟩ := (run_sim hag hwf hsir infs recs fuel hi him hd ts).2 σ ts' h
  refine ⟨s, h1, ?_, ?_, ?_, h2.rel.S, h2.rel.I, h2.rel.R, h2.rel.times⟩
  · obtain ⟨a, r, e⟩ := List.exists_cons_of_ne_nil h2.hS
    rw [h2.rel.S, e]; simp [Gillespie.hd]
  · obtain ⟨a, r, e⟩ := List.exists_cons_of_ne_nil h2.hI
    rw [h2.rel.I, e]; simp [Gillespie.hd]
  · obtain ⟨a, r, e⟩ := List.exists_cons_of_ne_nil h2.hR
    rw [h2.rel.R, e]; simp [Gillespie.hd]

/-- **C01 no-KeyError, transferred**: the generated `Gillespie_SIR` never raises `KeyError` (`_ListDict_.remove` of an
absent candidate), whatever the draws -/
theorem gen_run_no_keyerror (hag : Agree A P tmin tmax cfuel) (hwf : WF P) (hsir : P.sis = false)
    (infs recs : List Node) (fuel : Nat) (hi : infs.Nodup) (him : ∀ u ∈ infs, u ∈ P.nodes)
    (hd : ∀ u ∈ infs, u ∉ recs) (ts : TapeSt) : run A infs recs fuel ts ≠ .error "KeyError" :=
  fun h => run_noKE hag hwf hsir infs recs fuel hi him hd ts _ h rfl

/-- the generated loop never raises `KeyError` from a state related to a model state with the invariant -/
theorem gen_loop_no_keyerror (hag : Agree A P tmin tmax cfuel) (hwf : WF P) (hsir : P.sis = false) (fuel : Nat)
    (σ : Loc) (s : GState) (t : ERat) (h : LRel A P σ s t) (ts : TapeSt) : loop A fuel σ ts ≠ .error "KeyError" :=
  fun he => loop_noKE hag hwf hsir fuel σ s t h ts _ he rfl

/-- the generated code raises an exception (or runs out of draws / fuel) exactly when the model does -/
theorem gen_run_fails_iff (hag : Agree A P tmin tmax cfuel) (hwf : WF P) (hsir : P.sis = false)
    (infs recs : List Node) (fuel : Nat) (hi : infs.Nodup) (him : ∀ u ∈ infs, u ∈ P.nodes)
    (hd : ∀ u ∈ infs, u ∉ recs) (ts : TapeSt) :
    (∃ e, run A infs recs fuel ts = .error e) ↔
      (∃ e, Gillespie.run P infs recs tmin tmax fuel cfuel ts = .error e) := by
  have hs := run_sim hag hwf hsir infs recs fuel hi him hd ts
  constructor
  · rintro ⟨e, he⟩
    cases hm : Gillespie.run P infs recs tmin tmax fuel cfuel ts with
    | error e' => exact ⟨e', rfl⟩
    | ok r =>
      obtain ⟨s, ts'⟩ := r
      obtain ⟨σ, hσ, -⟩ := hs.1 s ts' hm
      rw [he] at hσ; cases hσ
  · rintro ⟨e, he⟩
    cases hm : run A infs recs fuel ts with
    | error e' => exact ⟨e', rfl⟩
    | ok r =>
      obtain ⟨σ, ts'⟩ := r
      obtain ⟨s, hs', -⟩ := hs.2 σ ts' hm
      rw [he] at hs'; cases hs'

/-- **full-data bookkeeping**: with `return_full_data` set, the `transmissions` list of the generated code is the
entries `(tmin, None, node)` of the initial infecteds followed by one entry `(t, u, v)` per transmission event logged
by the model, oldest first -/
theorem gen_run_transmissions (hag : Agree A P tmin tmax cfuel) (hwf : WF P) (hsir : P.sis = false)
    (infs recs : List Node) (fuel : Nat) (hi : infs.Nodup) (him : ∀ u ∈ infs, u ∈ P.nodes)
    (hd : ∀ u ∈ infs, u ∉ recs) (hfull : A.full = true) (ts ts' : TapeSt) (σ : Loc)
    (h : run A infs recs fuel ts = .ok (σ, ts')) :
    ∃ s, Gillespie.run P infs recs tmin tmax fuel cfuel ts = .ok (s, ts') ∧
      σ.transmissions = initTrans tmin infs ++ transLog s.log := by
  obtain ⟨s, h1, -, h2⟩ := (run_sim_full hag hwf hsir infs recs fuel hi him hd ts).2 σ ts' h
  exact ⟨s, h1, h2 hfull⟩

end GenGSIR

/-! ### non-vacuity: the weighted 4-node path of `Props/C01.lean` (re-declared), full data on -/
namespace C01e
open Gillespie GenGillespie

def exNbrs (u : Node) : List Node :=
  match u with
  | 0 => [1] | 1 => [0, 2] | 2 => [1, 3] | 3 => [2] | _ => []
def exP : GParams :=
  { nodes := [0, 1, 2, 3], nbrs := exNbrs, tau := 2, gamma := 1,
    ew := some (fun u v => if u + v = 3 then 1/2 else 2), nw := some (fun u => (u : Rat) + 1), sis := false }
/-- what the generated code reads from its arguments for the same network -/
def exA : PyTM.GArgs :=
  { nbrs := exNbrs, order := 4, tau := 2, gamma := 1, tmin := 0, tmax := some 10, hasTW := true, hasRW := true,
    adjw := fun u v => if u + v = 3 then 1/2 else 2, nodew := fun u => (u : Rat) + 1, full := true, cfuel := 5 }

/-- the hypothesis `Agree` of every theorem above is satisfiable -/
theorem exAgree : Agree exA exP 0 (some 10) 5 where
  nbrs := rfl
  order := rfl
  tau := rfl
  gamma := rfl
  tmin := rfl
  tmax := rfl
  cfuel := rfl
  hasTW := rfl
  hasRW := rfl
  adjw := by intro f hf; exact Option.some.inj hf
  nodew := by intro f hf; exact Option.some.inj hf

/-- ... and so is `WF` -/
theorem exWF : Gillespie.WF exP where
  nodup := by decide
  nbr_nodup := by decide
  nbr_mem := by decide
  nbr_out := by
    intro u hu
    simp only [exP, List.mem_cons, List.not_mem_nil, or_false, not_or] at hu
    obtain ⟨h0, h1, h2, h3⟩ := hu
    show exNbrs u = []
    unfold exNbrs
    split <;> first | rfl | contradiction
  symm := by
    intro u v
    show v ∈ exNbrs u → u ∈ exNbrs v
    unfold exNbrs
    split <;> simp <;> (try rintro (rfl | rfl)) <;> simp
  noloop := by
    intro u
    show u ∉ exNbrs u
    unfold exNbrs
    split <;> simp
  ew_nonneg := by
    intro f hf u v
    obtain rfl : (fun u v => if u + v = 3 then (1/2 : Rat) else 2) = f := Option.some.inj hf
    dsimp only; split <;> decide +kernel
  ew_symm := by
    intro f hf u v
    obtain rfl : (fun u v => if u + v = 3 then (1/2 : Rat) else 2) = f := Option.some.inj hf
    dsimp only; rw [Nat.add_comm]
  nw_nonneg := by
    intro f hf u
    obtain rfl : (fun u : Node => (u : Rat) + 1) = f := Option.some.inj hf
    dsimp only
    have : (0 : Rat) ≤ (u : Rat) := Nat.cast_nonneg u
    linarith
  tau_nonneg := by decide +kernel
  gamma_nonneg := by decide +kernel

/-- scripted draws: clock, transmission 1→2, clock, recovery of 1, clock, recovery of 3, clock (beyond `tmax`) -/
def exTape : List Draw :=
  [.expo (1/2), .unif (9/10), .choice 0, .unif 0, .expo 1, .unif 0, .choice 0, .unif 0, .expo 3,
   .unif (1/100), .choice 1, .unif 0, .expo 20]

def viewA (r : Except String (GenGSIR.Loc × TapeSt)) :=
  r.toOption.map fun (σ, _) => (σ.infecteds.items, σ.IS_links.items, σ.times)
def viewB (r : Except String (GenGSIR.Loc × TapeSt)) :=
  r.toOption.map fun (σ, _) => (σ.S, σ.I, σ.R)
def viewT {α : Type} (r : Except String (α × TapeSt)) :=
  r.toOption.map fun (_, ts) => (ts.trace.toList, ts.tape)
def viewMA (r : Except String (GState × TapeSt)) :=
  r.toOption.map fun (s, _) => (s.inf.items, s.links.items, s.times)
def viewMB (r : Except String (GState × TapeSt)) :=
  r.toOption.map fun (s, _) => (s.S, s.I, s.R)

/-- the generated code runs three events on this tape and stops at `tmax` ... -/
example : viewA (GenGSIR.run exA [1, 3] [0] 10 ⟨exTape, #[]⟩) =
    some ([2], [], [some 0, some (1/2), some (3/2), some (9/2)]) := by decide +kernel
example : viewB (GenGSIR.run exA [1, 3] [0] 10 ⟨exTape, #[]⟩) =
    some ([1, 0, 0, 0], [2, 3, 2, 1], [1, 1, 2, 3]) := by decide +kernel
/-- ... the log shows the clock rates 11, 9, 7, 3 and the candidate lists handed to `random.choice` -/
example : viewT (GenGSIR.run exA [1, 3] [0] 10 ⟨exTape, #[]⟩) =
    some ([.expo 11, .unif, .choice [[1, 2], [3, 2]], .unif, .expo 9, .unif, .choice [[1], [3], [2]], .unif, .expo 7,
       .unif, .choice [[2], [3]], .unif, .expo 3], []) := by decide +kernel

/-- ... and the full-data `transmissions` list: two initial entries, then the transmission 1→2 at time 1/2 -/
example : (GenGSIR.run exA [1, 3] [0] 10 ⟨exTape, #[]⟩).toOption.map (fun r => r.1.transmissions) =
    some [(some 0, none, 1), (some 0, none, 3), (some (1/2), some 1, 2)] := by decide +kernel

/-- the model on the same tape: same log, same (reversed) rows -/
example : viewMA (Gillespie.run exP [1, 3] [0] 0 (some 10) 10 5 ⟨exTape, #[]⟩) =
    some ([2], [], [9/2, 3/2, 1/2, 0]) := by decide +kernel
example : viewMB (Gillespie.run exP [1, 3] [0] 0 (some 10) 10 5 ⟨exTape, #[]⟩) =
    some ([0, 0, 0, 1], [1, 2, 3, 2], [3, 2, 1, 1]) := by decide +kernel
example : viewT (Gillespie.run exP [1, 3] [0] 0 (some 10) 10 5 ⟨exTape, #[]⟩) =
    some ([.expo 11, .unif, .choice [[1, 2], [3, 2]], .unif, .expo 9, .unif, .choice [[1], [3], [2]], .unif, .expo 7,
       .unif, .choice [[2], [3]], .unif, .expo 3], []) := by decide +kernel

/-- the refinement theorem applies to this run: the generated code's result is a result of the model (same final
tape state), and the C01 invariant holds in the generated code's final state -/
example (σ : GenGSIR.Loc) (ts' : TapeSt) (h : GenGSIR.run exA [1, 3] [0] 10 ⟨exTape, #[]⟩ = .ok (σ, ts')) :
    (∃ s, Gillespie.run exP [1, 3] [0] 0 (some 10) 10 5 ⟨exTape, #[]⟩ = .ok (s, ts') ∧ GenGSIR.Rel σ s) ∧
    (∀ u, u ∈ σ.infecteds.items ↔ u ∈ Chain.enabledRec exP σ.status) :=
  ⟨GenGSIR.gen_run_refines_back exAgree exWF rfl [1, 3] [0] 10 (by decide) (by decide) (by decide) _ ts' σ h,
   (GenGSIR.gen_run_inv exAgree exWF rfl [1, 3] [0] 10 (by decide) (by decide) (by decide) _ ts' σ h).1⟩

/-- ... and the run does return normally -/
example : (GenGSIR.run exA [1, 3] [0] 10 ⟨exTape, #[]⟩).toOption.isSome = true := by decide +kernel

end C01e
