import EoNVerif.Model.Perc
import Mathlib.Tactic.Linarith
import Mathlib.Algebra.Order.Field.Rat
import Mathlib.Algebra.Order.Field.Basic
import Mathlib.Data.List.Nodup
import Mathlib.Data.List.Perm.Subperm
/-!
Helper lemmas for C17 (percolation estimators): the fixed-point iteration `Perc.reach` computes the
reflexive–transitive closure `Perc.Path` on well-formed graphs.
-/
namespace Perc

structure WF (nodes : List Node) (succ : Node → List Node) : Prop where
  nodup : nodes.Nodup
  succ_mem : ∀ u ∈ nodes, ∀ v ∈ succ u, v ∈ nodes

/-- reachability along edges (reflexive–transitive closure) -/
inductive Path (succ : Node → List Node) : Node → Node → Prop
  | refl (u : Node) : Path succ u u
  | step (u v w : Node) : Path succ u v → w ∈ succ v → Path succ u w

section
variable {nodes : List Node} {succ : Node → List Node}

/-! ### `Path` -/

theorem Path.trans {u v w : Node} (h1 : Path succ u v) (h2 : Path succ v w) : Path succ u w := by
  induction h2 with
  | refl => exact h1
  | step x y _ hy ih => exact Path.step _ x y ih hy

theorem Path.single {u v : Node} (h : v ∈ succ u) : Path succ u v := Path.step u u v (Path.refl u) h

theorem Path.mem_nodes (h : WF nodes succ) {u v : Node} (hu : u ∈ nodes) (hp : Path succ u v) : v ∈ nodes := by
  induction hp with
  | refl => exact hu
  | step x y _ hy ih => exact h.succ_mem x ih y hy

theorem Path.symm (hs : ∀ u v, v ∈ succ u → u ∈ succ v) {u v : Node} (hp : Path succ u v) : Path succ v u := by
  induction hp with
  | refl => exact Path.refl _
  | step x y _ hy ih => exact (Path.single (hs x y hy)).trans ih

/-! ### the expansion chain -/

theorem iter_succ' {α : Type} (f : α → α) (n : Nat) (x : α) : iter f (n + 1) x = f (iter f n x) := by
  induction n generalizing x with
  | zero => rfl
  | succ n ih => rw [iter, ih (f x), iter]

def expandF (nodes : List Node) (succ : Node → List Node) (cur : List Node) : List Node :=
  nodes.filter fun v => cur.contains v || cur.any fun u => (succ u).contains v

/-- the set after `k` rounds of expansion started from `{u}` -/
def Ck (nodes : List Node) (succ : Node → List Node) (u : Node) (k : Nat) : List Node :=
  iter (expandF nodes succ) k (nodes.filter fun v => [u].contains v)

theorem reachFrom_eq (u : Node) : reachFrom nodes succ [u] = Ck nodes succ u nodes.length := rfl

theorem mem_Ck_zero (u v : Node) : v ∈ Ck nodes succ u 0 ↔ v ∈ nodes ∧ v = u := by
  simp [Ck, iter]

theorem mem_expandF (cur : List Node) (v : Node) : v ∈ expandF nodes succ cur ↔
    v ∈ nodes ∧ (v ∈ cur ∨ ∃ x ∈ cur, v ∈ succ x) := by
  unfold expandF; simp

theorem mem_Ck_succ (u : Node) (k : Nat) (v : Node) : v ∈ Ck nodes succ u (k + 1) ↔
    v ∈ nodes ∧ (v ∈ Ck nodes succ u k ∨ ∃ x ∈ Ck nodes succ u k, v ∈ succ x) := by
  unfold Ck; rw [iter_succ', mem_expandF]

theorem Ck_sub_nodes (u : Node) (k : Nat) {v : Node} (hv : v ∈ Ck nodes succ u k) : v ∈ nodes := by
  cases k with
  | zero => exact ((mem_Ck_zero u v).1 hv).1
  | succ k => exact ((mem_Ck_succ u k v).1 hv).1

theorem Ck_sublist (u : Node) (k : Nat) : (Ck nodes succ u k).Sublist nodes := by
  cases k with
  | zero => exact List.filter_sublist
  | succ k => unfold Ck; rw [iter_succ']; exact List.filter_sublist

theorem Ck_path (u : Node) (k : Nat) : ∀ v, v ∈ Ck nodes succ u k → Path succ u v := by
  induction k with
  | zero => intro v hv; rw [mem_Ck_zero] at hv; rw [hv.2]; exact Path.refl u
  | succ k ih =>
    intro v hv; rw [mem_Ck_succ] at hv
    rcases hv.2 with h | ⟨x, hx, hk⟩
    · exact ih v h
    · exact Path.step u x v (ih x hx) hk

theorem Ck_mono (u : Node) (k : Nat) {v : Node} (hv : v ∈ Ck nodes succ u k) : v ∈ Ck nodes succ u (k + 1) := by
  rw [mem_Ck_succ]; exact ⟨Ck_sub_nodes u k hv, Or.inl hv⟩

theorem Ck_mono_le (u : Node) {k j : Nat} (hkj : k ≤ j) {v : Node} (hv : v ∈ Ck nodes succ u k) :
    v ∈ Ck nodes succ u j := by
  induction hkj with
  | refl => exact hv
  | step _ ih => exact Ck_mono u _ ih

/-- a stationary stage is closed under `succ`, hence contains everything reachable -/
theorem Ck_closed (h : WF nodes succ) (u : Node) (hu : u ∈ nodes) (k : Nat)
    (hst : ∀ v, v ∈ Ck nodes succ u (k + 1) → v ∈ Ck nodes succ u k) {v : Node} (hp : Path succ u v) :
    v ∈ Ck nodes succ u k := by
  induction hp with
  | refl => exact Ck_mono_le u (Nat.zero_le k) ((mem_Ck_zero u u).2 ⟨hu, rfl⟩)
  | step x y _ hy ih =>
    apply hst
    rw [mem_Ck_succ]
    exact ⟨h.succ_mem x (Ck_sub_nodes u k ih) y hy, Or.inr ⟨x, ih, hy⟩⟩

theorem Ck_length_lt (h : WF nodes succ) (u : Node) (k : Nat)
    (hns : ¬ ∀ v, v ∈ Ck nodes succ u (k + 1) → v ∈ Ck nodes succ u k) :
    (Ck nodes succ u k).length < (Ck nodes succ u (k + 1)).length := by
  have hnd : (Ck nodes succ u k).Nodup := (Ck_sublist u k).nodup h.nodup
  have hsp : List.Subperm (Ck nodes succ u k) (Ck nodes succ u (k + 1)) :=
    List.subperm_of_subset hnd (fun v hv => Ck_mono u k hv)
  rcases Nat.lt_or_ge (Ck nodes succ u k).length (Ck nodes succ u (k + 1)).length with hlt | hge
  · exact hlt
  · exact absurd (fun v hv => (hsp.perm_of_length_le hge).mem_iff.2 hv) hns

/-- pigeonhole: some stage `k ≤ nodes.length` is stationary -/
theorem exists_stationary (h : WF nodes succ) (u : Node) (hu : u ∈ nodes) :
    ∃ k, k ≤ nodes.length ∧ ∀ v, v ∈ Ck nodes succ u (k + 1) → v ∈ Ck nodes succ u k := by
  by_contra hcon
  have hns : ∀ k, k ≤ nodes.length → ¬ ∀ v, v ∈ Ck nodes succ u (k + 1) → v ∈ Ck nodes succ u k :=
    fun k hk hst => hcon ⟨k, hk, hst⟩
  have hlen : ∀ k, k ≤ nodes.length + 1 → k + 1 ≤ (Ck nodes succ u k).length := by
    intro k
    induction k with
    | zero =>
      intro _
      exact List.length_pos_of_mem ((mem_Ck_zero u u).2 ⟨hu, rfl⟩)
    | succ k ih =>
      intro hk
      have h1 := ih (by omega)
      have h2 := Ck_length_lt h u k (hns k (by omega))
      omega
  have h1 := hlen (nodes.length + 1) (Nat.le_refl _)
  have h2 := (Ck_sublist (nodes := nodes) (succ := succ) u (nodes.length + 1)).length_le
  omega

theorem reach_iff_path (h : WF nodes succ) {u : Node} (hu : u ∈ nodes) (v : Node) :
    reach nodes succ u v = true ↔ Path succ u v := by
  unfold reach
  rw [reachFrom_eq, List.contains_iff_mem]
  constructor
  · exact Ck_path u _ v
  · intro hp
    obtain ⟨k, hk, hst⟩ := exists_stationary h u hu
    exact Ck_mono_le u hk (Ck_closed h u hu k hst hp)

theorem reach_self (h : WF nodes succ) {u : Node} (hu : u ∈ nodes) : reach nodes succ u u = true :=
  (reach_iff_path h hu u).2 (Path.refl u)

theorem mem_scc {u v : Node} : v ∈ scc nodes succ u ↔
    v ∈ nodes ∧ reach nodes succ u v = true ∧ reach nodes succ v u = true := by
  unfold scc; simp

theorem mem_inC {u v : Node} : v ∈ inC nodes succ u ↔ v ∈ nodes ∧ reach nodes succ v u = true := by
  unfold inC; simp

theorem mem_outC {u v : Node} : v ∈ outC nodes succ u ↔ v ∈ nodes ∧ reach nodes succ u v = true := by
  unfold outC; simp

theorem inC_length_bounds (h : WF nodes succ) {u : Node} (hu : u ∈ nodes) :
    0 < (inC nodes succ u).length ∧ (inC nodes succ u).length ≤ nodes.length :=
  ⟨List.length_pos_of_mem (mem_inC.2 ⟨hu, reach_self h hu⟩), List.length_filter_le _ _⟩

theorem outC_length_bounds (h : WF nodes succ) {u : Node} (hu : u ∈ nodes) :
    0 < (outC nodes succ u).length ∧ (outC nodes succ u).length ≤ nodes.length :=
  ⟨List.length_pos_of_mem (mem_outC.2 ⟨hu, reach_self h hu⟩), List.length_filter_le _ _⟩

theorem frac_bounds {a n : Nat} (ha : 0 < a) (han : a ≤ n) : (0 : Rat) < (a : Rat) / (n : Rat) ∧ (a : Rat) / (n : Rat) ≤ 1 := by
  have hn : (0 : Rat) < (n : Rat) := by exact_mod_cast Nat.lt_of_lt_of_le ha han
  have ha' : (0 : Rat) < (a : Rat) := by exact_mod_cast ha
  have han' : (a : Rat) ≤ (n : Rat) := by exact_mod_cast han
  exact ⟨div_pos ha' hn, (div_le_one hn).2 han'⟩

end

end Perc
