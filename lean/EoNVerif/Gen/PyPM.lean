import EoNVerif.Gen.PyDM
/-!
Runtime of the code generated from the percolation builders / estimators (`harness/pyperc2lean.py`).

* `PM`: the scripted random tape plus scripted answers of the user's time functions (`rec_time_fxn(u, *args)`,
  `trans_time_fxn(u, v, *args)`): each call is logged with its arguments and answered from a script.
* `DiG`: the part of `networkx.DiGraph` the translated code uses (`add_node`, `add_edge` — which also creates missing
  end points —, `remove_node`, `has_node`, `order`), nodes and edges in insertion order, one optional attribute each.
* `NX`: the networkx routines the code calls (`descendants`, `ancestors`, `strongly_connected_components`,
  `connected_components`) are PARAMETERS; the theorems assume their documented meaning (reachability), the driver
  instantiates them with the reachability model `Model/Perc.lean`.
* A Python `set` is a duplicate-free list; `for x in <set>` / `list(<set>)` use `iter` (a parameter, see `Gen/PyDM.lean`).
-/
namespace PyPM
open PyDM

structure PSt where
  vals : List ERat
  calls : Array (List Nat) := #[]

abbrev PM := StateT PSt TM

def liftT {α : Type} (x : TM α) : PM α := fun s => do let a ← x; pure (a, s)
def liftE {α : Type} (x : Except String α) : PM α := liftT (PyTM.liftE x)
def fail {α : Type} (msg : String) : PM α := liftT (TM.fail msg)

/-- a call of a user time function: logged with its arguments, answered from the script -/
def askVal (call : List Nat) : PM ERat := fun st =>
  match st.vals with
  | [] => TM.fail "answers-exhausted"
  | b :: r => pure (b, { st with vals := r, calls := st.calls.push call })

/-- `random.expovariate(rate)` as an extended rational -/
def expo (rate : Rat) : PM ERat := do
  let x ← liftT (TM.popExpo rate)
  pure (some x)

structure DiG where
  nodes : List (Node × Option ERat)               -- node, `duration` attribute
  edges : List ((Node × Node) × Option ERat)      -- (u, v), `delay_to_infection` attribute
deriving Inhabited

namespace DiG
def empty : DiG := { nodes := [], edges := [] }
def hasNode (H : DiG) (u : Node) : Bool := alHas H.nodes u
def order (H : DiG) : Int := (H.nodes.length : Int)
def nodeList (H : DiG) : List Node := H.nodes.map (·.1)
/-- `H.add_node(u)` / `H.add_node(u, duration=d)`: a new node goes last; an existing one keeps its place (attributes updated) -/
def addNode (H : DiG) (u : Node) (dur : Option ERat) : DiG :=
  if alHas H.nodes u then
    (match dur with
     | some d => { H with nodes := alSet H.nodes u (some d) }
     | none => H)
  else { H with nodes := H.nodes ++ [(u, dur)] }
/-- `H.add_edge(u, v)` / `H.add_edge(u, v, delay_to_infection=d)`: missing end points are created -/
def addEdge (H : DiG) (u v : Node) (a : Option ERat) : DiG :=
  let H := addNode (addNode H u none) v none
  if alHas H.edges (u, v) then
    (match a with
     | some d => { H with edges := alSet H.edges (u, v) (some d) }
     | none => H)
  else { H with edges := H.edges ++ [((u, v), a)] }
/-- `H.remove_node(u)`: NetworkXError when absent; incident edges go too -/
def removeNode (H : DiG) (u : Node) : Except String DiG :=
  if alHas H.nodes u then
    pure { nodes := H.nodes.filter (fun p => p.1 != u), edges := H.edges.filter (fun e => e.1.1 != u && e.1.2 != u) }
  else throw "NetworkXError"
def succ (H : DiG) (u : Node) : List Node := (H.edges.filter (fun e => e.1.1 == u)).map (·.1.2)
end DiG

/-- a `source` / `target` / `initial_infecteds` argument: one node or an iterable of nodes -/
abbrev Src := Node ⊕ List Node

/-- `G.has_node(x)` for such an argument (an iterable is never a node) -/
def hasNodeS (H : DiG) (x : Src) : Bool := match x with | .inl u => H.hasNode u | .inr _ => false
/-- `{x}` -/
def singletonS (x : Src) : Except String (List Node) := match x with | .inl u => pure [u] | .inr _ => throw "TypeError"
/-- `set(x)`: a node that is not in the graph is not iterable -/
def setOfS (x : Src) : Except String (List Node) := match x with | .inl _ => throw "TypeError" | .inr l => pure (setOf l)
/-- `a.union(b)` -/
def union (a b : List Node) : List Node := b.foldl setAdd a
/-- `a.intersection(b)` -/
def inter (a b : List Node) : List Node := a.filter fun x => b.contains x

/-- the contact graph `G` as the translated code reads it -/
structure Contact where
  nodes : List Node                 -- G.nodes() / list(G)
  nbrs : Node → List Node           -- G.neighbors(u)
  edges : List (Node × Node)        -- G.edges()
deriving Inhabited

def Contact.order (C : Contact) : Int := (C.nodes.length : Int)
def Contact.hasNodeS (C : Contact) (x : Src) : Bool := match x with | .inl u => C.nodes.contains u | .inr _ => false

/-- a computation of the discrete-time code that uses no callbacks, inside `PM` -/
def liftDM {α : Type} (x : DM α) : PM α := fun s => do
  let (a, _) ← x { answers := [] }
  pure (a, s)

/-- `random.choice(seq)` for a list of nodes -/
def choiceNode (seq : List Node) : PM Node := do
  let i ← liftT (TM.popChoice (seq.map PyTM.encNode))
  liftE (PyRT.listChoice seq i)

/-- the networkx routines used by the translated code -/
structure NX where
  descendants : DiG → Node → Except String (List Node)       -- NetworkXError when the node is absent
  ancestors : DiG → Node → Except String (List Node)
  sccs : DiG → List (List Node)                              -- nx.strongly_connected_components, in generator order
  ccs : List Node → List (Node × Node) → List (List Node)    -- nx.connected_components of the Graph (nodes, edges)
  iter : List Node → List Node                               -- iteration order of a `set`

/-- `max(seq, key=len)`: the first longest; ValueError on an empty sequence -/
def maxByLen (l : List (List Node)) : Except String (List Node) :=
  match l with
  | [] => throw "ValueError"
  | x :: xs => pure (xs.foldl (fun best y => if y.length > best.length then y else best) x)

/-- `max(len(c) for c in seq)` -/
def maxLen (l : List (List Node)) : Except String Int :=
  match l with
  | [] => throw "ValueError"
  | x :: xs => pure ((xs.foldl (fun best y => max best y.length) x.length : Nat) : Int)

end PyPM
