import EoNVerif.Proofs.EventSIRLoop
/-!
Helper lemmas for C11, part 5: a state satisfying the invariant with an empty queue passes `isFPP`.
-/
namespace EventSIR

theorem nodup_filter_le_one {α : Type} {l : List α} (hn : l.Nodup) (p : α → Bool)
    (heq : ∀ x ∈ l, ∀ y ∈ l, p x = true → p y = true → x = y) : (l.filter p).length ≤ 1 := by
  have hn' : (l.filter p).Nodup := hn.filter _
  match hf : l.filter p with
  | [] => simp
  | [a] => simp
  | a :: b :: t =>
    exfalso
    rw [hf] at hn'
    have ha : a ∈ l.filter p := by rw [hf]; simp
    have hb : b ∈ l.filter p := by rw [hf]; simp
    rw [List.mem_filter] at ha hb
    have := heq a ha.1 b hb.1 ha.2 hb.2
    subst this
    simp at hn'

section Final
variable {nodes : List Node} {nbrs : Node → List Node} {delay : Node → Node → ERat} {dur : Node → ERat}
  {tmin : Rat} {tmax : ERat} {infs recs : List Node}

theorem mem_recoveriesOf {s : ESState} {t : Rat} {v : Node} :
    (t, v) ∈ recoveriesOf nodes recs s ↔ v ∈ nodes ∧ s.status v = St.R ∧ v ∉ recs ∧ s.recTime v = some t := by
  unfold recoveriesOf
  simp only [List.mem_filterMap]
  constructor
  · rintro ⟨a, ha, hf⟩
    split at hf
    · rename_i hc
      split at hf
      · rename_i t' ht'
        simp only [Option.some.injEq, Prod.mk.injEq] at hf
        obtain ⟨rfl, rfl⟩ := hf
        exact ⟨ha, hc.1, hc.2, ht'⟩
      · cases hf
    · cases hf
  · rintro ⟨h1, h2, h3, h4⟩
    exact ⟨v, h1, by rw [if_pos ⟨h2, h3⟩, h4]⟩

theorem recoveriesOf_snd {s : ESState} {e : Rat × Node} (he : e ∈ recoveriesOf nodes recs s) :
    e.2 ∈ nodes ∧ s.status e.2 = St.R ∧ e.2 ∉ recs ∧ s.recTime e.2 = some e.1 :=
  mem_recoveriesOf.1 he

theorem recoveriesOf_nodup (hn : nodes.Nodup) (s : ESState) : (recoveriesOf nodes recs s).Nodup := by
  unfold recoveriesOf
  apply List.Nodup.filterMap _ hn
  intro a a' b hb hb'
  have key : ∀ a : Node, b ∈ (if s.status a = St.R ∧ a ∉ recs then
      (match s.recTime a with | some t => some (t, a) | none => none) else none) → b.2 = a := by
    intro a hb
    split at hb
    · split at hb
      · simp only [Option.mem_def, Option.some.injEq] at hb; rw [← hb]
      · cases hb
    · cases hb
  rw [← key a hb, ← key a' hb']

variable {s : ESState}

theorem Inv.find_some (hI : Inv nodes nbrs delay dur tmin tmax infs recs s) {e : TEv} (he : e ∈ s.trans) :
    (s.trans.find? fun e' => e'.2.2 == e.2.2) = some e := by
  cases hf : s.trans.find? fun e' => e'.2.2 == e.2.2 with
  | none =>
    rw [List.find?_eq_none] at hf
    have := hf e he
    simp at this
  | some e' =>
    have h1 := List.find?_some hf
    have h2 := List.mem_of_find?_eq_some hf
    simp only [beq_iff_eq] at h1
    rw [List.inj_on_of_nodup_map hI.tr_nodup h2 he h1]

theorem Inv.find_none (v : Node) (hv : ∀ e ∈ s.trans, e.2.2 ≠ v) :
    (s.trans.find? fun e' => e'.2.2 == v) = none := by
  rw [List.find?_eq_none]
  intro e he
  simpa using hv e he

theorem Inv.trans_ge (h : WF nodes nbrs delay dur infs recs) (hI : Inv nodes nbrs delay dur tmin tmax infs recs s)
    {e : TEv} (he : e ∈ s.trans) : ERat.le (fppTime nodes nbrs delay dur tmin infs recs e.2.2) (some e.1) = true := by
  obtain ⟨p, hp⟩ := hI.tr_walk e he
  exact fppTime_le_walk h hp

/-- the main comparison -/
theorem Inv.isFPP (h : WF nodes nbrs delay dur infs recs) (hI : Inv nodes nbrs delay dur tmin tmax infs recs s)
    (hq : s.queue = []) :
    isFPP nodes nbrs delay dur tmin tmax infs recs s.trans (recoveriesOf nodes recs s) = true := by
  have hIq : InvC nodes nbrs delay dur tmin tmax infs recs s.status s.recTime s.predInf [] s.trans := by
    have := hI; unfold Inv at this; rwa [hq] at this
  -- every node with a first-passage time before tmax is reported, at that time
  have hrep : ∀ v t, fppTime nodes nbrs delay dur tmin infs recs v = some t → ERat.lt (some t) tmax = true →
      ∃ e ∈ s.trans, e.2.2 = v ∧ e.1 = t := by
    intro v t hv hlt
    obtain ⟨p, hp⟩ := fppTime_walk hv
    obtain ⟨e, he, hev, hle⟩ := hIq.claim h (t + 1) (by simp) hp (by linarith) hlt
    refine ⟨e, he, hev, le_antisymm hle ?_⟩
    have := hI.trans_ge h he
    rw [hev, hv] at this
    simpa using this
  have hnotS : ∀ e ∈ s.trans, s.status e.2.2 ≠ St.S := by
    intro e he hs
    exact ((hI.st_S e.2.2).1 hs).2 e he rfl
  have hnr : ∀ e ∈ s.trans, e.2.2 ∉ recs := by
    intro e he
    obtain ⟨p, hp⟩ := hI.tr_walk e he
    exact TW.not_recs hp
  have hnorec : ∀ v, (s.status v = St.R → v ∉ recs → False) →
      (!(recoveriesOf nodes recs s).any fun e => e.2 == v) = true := by
    intro v hv
    rw [Bool.not_eq_true', List.any_eq_false]
    intro e he heq
    simp only [beq_iff_eq] at heq
    obtain ⟨_, g1, g2, _⟩ := recoveriesOf_snd he
    rw [heq] at g1 g2
    exact hv g1 g2
  unfold EventSIR.isFPP
  simp only [Bool.and_eq_true, List.all_eq_true]
  refine ⟨?_, ?_⟩
  · intro v hvn
    refine ⟨⟨⟨?_, ?_⟩, ?_⟩, ?_⟩
    · -- reported iff fppTime < tmax, at that time
      cases hT : fppTime nodes nbrs delay dur tmin infs recs v with
      | none =>
        simp only
        rw [Inv.find_none v]; · rfl
        intro e he hev
        have := hI.trans_ge h he
        rw [hev, hT] at this; simp at this
      | some t =>
        simp only
        split
        · rename_i hlt
          obtain ⟨e, he, hev, het⟩ := hrep v t hT hlt
          have := hI.find_some he
          rw [hev] at this
          rw [this, ← het]; simp
        · rename_i hlt
          rw [Inv.find_none v]; · rfl
          intro e he hev
          have h1 := hI.trans_ge h he
          rw [hev, hT] at h1
          exact hlt (ERat.lt_of_le_of_lt h1 (hI.tr_lt e he))
    · -- at most one report
      rw [decide_eq_true_eq]
      apply nodup_filter_le_one (List.Nodup.of_map _ hI.tr_nodup)
      intro x hx y hy hxv hyv
      simp only [beq_iff_eq] at hxv hyv
      exact List.inj_on_of_nodup_map hI.tr_nodup hx hy (by rw [hxv, hyv])
    · -- at most one recovery
      rw [decide_eq_true_eq]
      apply nodup_filter_le_one (recoveriesOf_nodup h.nodup s)
      intro x hx y hy hxv hyv
      simp only [beq_iff_eq] at hxv hyv
      obtain ⟨_, _, _, g1⟩ := recoveriesOf_snd hx
      obtain ⟨_, _, _, g2⟩ := recoveriesOf_snd hy
      rw [hxv] at g1; rw [hyv, g1] at g2
      injection g2 with g2
      exact Prod.ext g2 (by rw [hxv, hyv])
    · -- recovery
      cases hf : s.trans.find? fun e => e.2.2 == v with
      | none =>
        simp only [Option.map_none, Bool.or_eq_true]
        by_cases hvr : v ∈ recs
        · right; simpa using hvr
        · left
          apply hnorec
          intro hR _
          rw [List.find?_eq_none] at hf
          have : s.status v = St.S := by
            rw [hI.st_S]
            exact ⟨hvr, fun e he hev => by simpa [hev] using hf e he⟩
          rw [this] at hR; cases hR
      | some e =>
        have he := List.mem_of_find?_eq_some hf
        have hev : e.2.2 = v := by simpa using List.find?_some hf
        have hrt := hI.rec_time e he
        rw [hev] at hrt
        simp only [Option.map_some]
        cases hr : ERat.add (some e.1) (dur v) with
        | none =>
          simp only
          apply hnorec
          intro hR hvr
          obtain ⟨r, g, _⟩ := hI.rec_R v hR hvr
          rw [hrt, hr] at g; cases g
        | some r =>
          simp only
          split
          · rename_i hlt
            rw [List.contains_iff_mem, mem_recoveriesOf]
            refine ⟨hvn, ?_, hev ▸ hnr e he, by rw [hrt, hr]⟩
            have hns := hnotS e he
            rw [hev] at hns
            cases hst : s.status v with
            | S => exact absurd hst hns
            | I =>
              have := hIq.rec_I v r hst (by rw [hrt, hr]) hlt
              simp at this
            | R => rfl
          · rename_i hlt
            apply hnorec
            intro hR hvr
            obtain ⟨r', g, g'⟩ := hI.rec_R v hR hvr
            rw [hrt, hr] at g
            injection g with g; subst g
            exact hlt g'
  · -- every reported transmission is along a kept edge from a reported node
    intro e he
    have hsrc := hI.tr_src e he
    obtain ⟨t, src, v⟩ := e
    cases src with
    | none =>
      obtain ⟨h1, h2⟩ := hsrc
      simp only at h1 h2 ⊢
      simp [h1, h2]
    | some u =>
      obtain ⟨h1, eu, heu, hu, hadd⟩ := hsrc
      simp only at h1 hadd ⊢
      have hfu := hI.find_some heu
      rw [hu] at hfu
      rw [hfu]
      have hur : u ∉ recs := hu ▸ hnr eu heu
      simp [h1, hur, hadd]

end Final

end EventSIR
