import EoNVerif.Proofs.GenComplex
import EoNVerif.Props.C15
/-!
C15b — refinement: the Lean code GENERATED statement by statement from `Gillespie_complex_contagion`
(`/repo/EoN/simulation.py` 3699-3760; generated file `EoNVerif/Gen/ComplexGen.lean`, namespace `GenCC`, regenerated from
the Python source on every verification run, calling the generated `_ListDict_` code `Gen/ListDictGen.lean` /
`Gen/ListDictTM.lean`) and the hand-written model `Complex.run` (`EoNVerif/Model/Complex.lean`) are BISIMILAR on every
tape state, so the C15 theorems proved about the model hold for the generated code.

* `GenCC.Agree A P ic tmin tmax cfuel` — the two programs are given the same arguments.
* `GenCC.Rel A σ s` (defined in `EoNVerif/Proofs/GenComplex.lean`) — same status map; `GenLD.R σ.nodes_by_rate s.ld`
  (the C16b relation between the two `_ListDict_` states); `σ.times = s.times.reverse.map some`; the dict `σ.data` has
  the keys `return_statuses` in order, and the column stored under the `i`-th return status is the `i`-th (reversed)
  column of the model (`GenCC.DRel`; all columns non-empty).  `node_history` (full data) is not related.
* Hypotheses: `Complex.WF P` (only `rate_nonneg` and `infl_mem` are used by the refinement itself, see
  `gen_run_bisim_weak`) and `P.ret.Nodup` (with a repeated entry in `return_statuses` the Python dict has one key where
  the model keeps two columns).
* Part 1: simulation in both directions, same final tape state (same draws consumed, same calls logged with the same
  arguments).  Part 2: the C15 facts transported to the generated code.
Helper lemmas are in `EoNVerif/Proofs/GenComplex.lean`.
-/
namespace GenCC
variable {τ : Type} [DecidableEq τ]

/-! ## Part 1 — simulation -/

/-- **bisimulation of `run`** on every tape state: the generated function and the model both raise (and then neither
raises `KeyError`), or both return with the same tape state and related states.  Only the non-negativity of the rates, `infl ⊆ nodes` and
`return_statuses` duplicate-free are needed. -/
theorem gen_run_bisim_weak (A : PyTM.CArgs τ) (hnn : ∀ st u, 0 ≤ A.rate st u)
    (hmem : ∀ st u, ∀ x ∈ A.infl st u, x ∈ A.nodes) (hnd : A.ret.Nodup) (fuel : Nat) (ts : TapeSt) :
    ResRel A (run A fuel ts) (Complex.run (toP A) A.ic A.tmin A.tmax fuel A.cfuel ts) :=
  run_bisim A ⟨hnn, hmem, hnd⟩ fuel ts

theorem gen_run_bisim (A : PyTM.CArgs τ) (P : CCParams τ) (ic : Node → τ) (tmin : Rat) (tmax : ERat) (cfuel : Nat)
    (hAg : Agree A P ic tmin tmax cfuel) (hwf : Complex.WF P) (hnd : P.ret.Nodup) (fuel : Nat) (ts : TapeSt) :
    ResRel A (run A fuel ts) (Complex.run P ic tmin tmax fuel cfuel ts) := by
  obtain rfl := hAg.toP_eq
  obtain rfl := hAg.ic
  obtain rfl := hAg.tmin
  obtain rfl := hAg.tmax
  obtain rfl := hAg.cfuel
  exact run_bisim A (Hyp.of_wf hwf hnd) fuel ts

/-- **forward simulation**: every normally returning run of the model, on every tape state, is matched by the
generated code: it returns normally, with the SAME final tape state and a related state. -/
theorem gen_run_refines (A : PyTM.CArgs τ) (P : CCParams τ) (ic : Node → τ) (tmin : Rat) (tmax : ERat) (cfuel : Nat)
    (hAg : Agree A P ic tmin tmax cfuel) (hwf : Complex.WF P) (hnd : P.ret.Nodup) (fuel : Nat) (ts ts' : TapeSt)
    (s : CCState τ) (h : Complex.run P ic tmin tmax fuel cfuel ts = .ok (s, ts')) :
    ∃ σ, run A fuel ts = .ok (σ, ts') ∧ Rel A σ s :=
  (gen_run_bisim A P ic tmin tmax cfuel hAg hwf hnd fuel ts).fwd h

/-- **backward simulation**: every normally returning run of the generated code is a run of the model, with the same
final tape state and a related state. -/
theorem gen_run_refines_back (A : PyTM.CArgs τ) (P : CCParams τ) (ic : Node → τ) (tmin : Rat) (tmax : ERat)
    (cfuel : Nat) (hAg : Agree A P ic tmin tmax cfuel) (hwf : Complex.WF P) (hnd : P.ret.Nodup) (fuel : Nat)
    (ts ts' : TapeSt) (σ : Loc τ) (h : run A fuel ts = .ok (σ, ts')) :
    ∃ s, Complex.run P ic tmin tmax fuel cfuel ts = .ok (s, ts') ∧ Rel A σ s :=
  (gen_run_bisim A P ic tmin tmax cfuel hAg hwf hnd fuel ts).bwd h

/-- the two programs raise on the same tape states -/
theorem gen_run_fails_iff (A : PyTM.CArgs τ) (P : CCParams τ) (ic : Node → τ) (tmin : Rat) (tmax : ERat)
    (cfuel : Nat) (hAg : Agree A P ic tmin tmax cfuel) (hwf : Complex.WF P) (hnd : P.ret.Nodup) (fuel : Nat)
    (ts : TapeSt) :
    (∃ e, run A fuel ts = .error e) ↔ (∃ e, Complex.run P ic tmin tmax fuel cfuel ts = .error e) := by
  have hb := gen_run_bisim A P ic tmin tmax cfuel hAg hwf hnd fuel ts
  constructor
  · rintro ⟨e, he⟩
    rw [he] at hb
    cases hm : Complex.run P ic tmin tmax fuel cfuel ts with
    | error e' => exact ⟨e', rfl⟩
    | ok q => rw [hm] at hb; exact absurd hb (by simp [ResRel])
  · rintro ⟨e, he⟩
    rw [he] at hb
    cases hm : run A fuel ts with
    | error e' => exact ⟨e', rfl⟩
    | ok q => rw [hm] at hb; exact absurd hb (by simp [ResRel])

/-- the loop alone, from any related pair of states satisfying the simulation's loop invariant (the model's clock
argument is the generated local `t`) -/
theorem gen_loop_bisim (A : PyTM.CArgs τ) (hwf : Complex.WF (toP A)) (hnd : A.ret.Nodup) (fuel : Nat) (σ : Loc τ)
    (s : CCState τ) (ts : TapeSt) (hR : Rel A σ s) (hI : Complex.Inv (toP A) s)
    (hh : A.full = true → ∀ u ∈ A.nodes, alHas σ.node_history u = true) :
    ResRel A (loop A fuel σ ts) (Complex.loop (toP A) A.tmax A.cfuel fuel s σ.t ts) :=
  loop_bisim A (Hyp.of_wf hwf hnd) fuel σ s ts (LInv.of_inv hR hI hh)

/-- what `Rel` says about the reported data: the column of the `i`-th return status -/
theorem rel_column (A : PyTM.CArgs τ) (σ : Loc τ) (s : CCState τ) (h : Rel A σ s) (i : Nat) (hi : i < A.ret.length) :
    alGet σ.data [] (A.ret[i]) = (s.data.getD i []).reverse ∧ σ.data.map (·.1) = A.ret ∧
      s.data.length = A.ret.length :=
  ⟨h.data.cols i hi, h.data.keys, h.data.len⟩

/-! ## Part 2 — the C15 facts, for the generated code -/

/-- **invariant (C15 `run_inv`)**: in the state returned by the generated function, on every tape, the candidate
structure `nodes_by_rate` lists exactly the nodes of positive rate, without repetition, with weight = the user's rate
function on the final statuses; **clock (C15 `clock_eq`)**: `nodes_by_rate.total_weight()` — the argument the generated
loop hands to `random.expovariate` — is the sum of the user rates; **counts**: the last entry of every reported column
is the number of nodes in that status. -/
theorem gen_run_inv (A : PyTM.CArgs τ) (P : CCParams τ) (ic : Node → τ) (tmin : Rat) (tmax : ERat) (cfuel : Nat)
    (hAg : Agree A P ic tmin tmax cfuel) (hwf : Complex.WF P) (hnd : P.ret.Nodup) (fuel : Nat) (ts ts' : TapeSt)
    (σ : Loc τ) (h : run A fuel ts = .ok (σ, ts')) :
    (∀ x ∈ A.nodes, 0 < A.rate σ.status x →
      x ∈ σ.nodes_by_rate.items ∧ alGet σ.nodes_by_rate.weight 0 x = A.rate σ.status x) ∧
    (∀ x ∈ A.nodes, A.rate σ.status x = 0 → x ∉ σ.nodes_by_rate.items) ∧
    (∀ x ∈ σ.nodes_by_rate.items, x ∈ A.nodes ∧ 0 < A.rate σ.status x) ∧
    σ.nodes_by_rate.items.Nodup ∧
    GenLD.total_weight σ.nodes_by_rate =
      .ok (σ.nodes_by_rate, sumRat (A.nodes.map (A.rate σ.status))) ∧
    (∀ x ∈ A.ret, lastI (alGet σ.data [] x) = PyTM.countSt A.nodes σ.status x) := by
  obtain rfl := hAg.toP_eq
  exact (run_ginv A hwf hnd fuel ts ts' σ h).facts hwf

/-- the same facts hold after the generated loop from any state that satisfies them in the sense of `GInv` (i.e. at
every iteration, not only at the end of `run`) -/
theorem gen_loop_inv (A : PyTM.CArgs τ) (hwf : Complex.WF (toP A)) (hnd : A.ret.Nodup) (fuel : Nat) (ts ts' : TapeSt)
    (σ σ' : Loc τ) (hG : GInv A σ) (hh : A.full = true → ∀ u ∈ A.nodes, alHas σ.node_history u = true)
    (h : loop A fuel σ ts = .ok (σ', ts')) : GInv A σ' :=
  loop_ginv A hwf hnd fuel ts ts' σ σ' hG hh h

/-- **stop condition (C15 `stop_iff`)** on a generated state satisfying the invariant: the loop guard
`total_weight() > 0` holds iff some node has a positive rate -/
theorem gen_stop_iff (A : PyTM.CArgs τ) (hwf : Complex.WF (toP A)) (σ : Loc τ) (hG : GInv A σ) :
    (∃ w, GenLD.total_weight σ.nodes_by_rate = .ok (σ.nodes_by_rate, w) ∧ 0 < w) ↔
      ∃ x ∈ A.nodes, 0 < A.rate σ.status x := by
  obtain ⟨s, hR, hI⟩ := hG
  rw [GenLD.total_weight_sim _ _ hR.ld, hR.status]
  constructor
  · rintro ⟨w, hw, hp⟩
    obtain ⟨-, rfl⟩ := Prod.mk.inj (Except.ok.inj hw)
    exact (Complex.stop_iff (toP A) hwf s hI).1 hp
  · intro hx
    exact ⟨_, rfl, (Complex.stop_iff (toP A) hwf s hI).2 hx⟩

/-- **selection law (C15 `next_node_law`)** for the generated candidate structure: the rejection sampler run on
(the abstraction of) `σ.nodes_by_rate` returns `x` with probability rate(x)/Σ rates, times the probability `1-ρ^k`
of having stopped within `k` rounds -/
theorem gen_next_node_law (A : PyTM.CArgs τ) (hwf : Complex.WF (toP A)) (σ : Loc τ) (hG : GInv A σ) (x : Node)
    (hx : x ∈ A.nodes) (hpos : 0 < A.rate σ.status x) (k : Nat) :
    Dist.mass ((GenLD.toLD σ.nodes_by_rate).chooseDist k) (fun o => o == some x) =
      A.rate σ.status x / sumRat (A.nodes.map (A.rate σ.status)) *
        (1 - (GenLD.toLD σ.nodes_by_rate).rejProb ^ k) := by
  obtain ⟨s, hR, hI⟩ := hG
  rw [← GenLD.R_toLD hR.ld, hR.status] at *
  exact Complex.next_node_law (toP A) hwf s hI x hx hpos k

/-- a node of rate zero is never selected (C15 `zero_rate_never`) -/
theorem gen_zero_rate_never (A : PyTM.CArgs τ) (hwf : Complex.WF (toP A)) (σ : Loc τ) (hG : GInv A σ) (x : Node)
    (hx : x ∈ A.nodes) (h0 : A.rate σ.status x = 0) (k : Nat) :
    Dist.mass ((GenLD.toLD σ.nodes_by_rate).chooseDist k) (fun o => o == some x) = 0 := by
  obtain ⟨s, hR, hI⟩ := hG
  rw [← GenLD.R_toLD hR.ld, hR.status] at *
  exact Complex.zero_rate_never (toP A) hwf s hI x hx h0 k

/-- **no `KeyError`** (C15 `loop_no_keyerror_inv`, for the generated code and for the whole function): on every tape
state the generated function does not raise `KeyError` — neither from `nodes_by_rate` (`remove` of an unlisted node)
nor from the dict reads `data[status]`, `node_history[node]`.  Needs only non-negative rates, `infl ⊆ nodes` (for
`node_history[node]` with full data) and duplicate-free `return_statuses`. -/
theorem gen_run_no_keyerror (A : PyTM.CArgs τ) (hnn : ∀ st u, 0 ≤ A.rate st u)
    (hmem : ∀ st u, ∀ x ∈ A.infl st u, x ∈ A.nodes) (hnd : A.ret.Nodup) (fuel : Nat) (ts : TapeSt) :
    run A fuel ts ≠ .error "KeyError" :=
  (run_bisim A ⟨hnn, hmem, hnd⟩ fuel ts).no_keyerror

/-- the same for the loop from any state satisfying the transported invariant -/
theorem gen_loop_no_keyerror (A : PyTM.CArgs τ) (hwf : Complex.WF (toP A)) (hnd : A.ret.Nodup) (fuel : Nat)
    (σ : Loc τ) (ts : TapeSt) (hG : GInv A σ) (hh : A.full = true → ∀ u ∈ A.nodes, alHas σ.node_history u = true) :
    loop A fuel σ ts ≠ .error "KeyError" := by
  obtain ⟨s, hR, hI⟩ := hG
  exact (loop_bisim A (Hyp.of_wf hwf hnd) fuel σ s ts (LInv.of_inv hR hI hh)).no_keyerror

end GenCC

/-! ## non-vacuity: the SIR-like family on the path 0 – 1 – 2 (`P3`, `ic3` of `Props/C15.lean`) -/
namespace GenCC.Example
open Complex.Example

/-- the arguments of the generated function for the example of C15, full data on -/
def A3 : PyTM.CArgs St where
  nodes := [0, 1, 2]
  ic := ic3
  rate := P3.rate
  choose := P3.choose
  infl := P3.infl
  ret := [St.S, St.I, St.R]
  tmin := 0
  tmax := some 1
  full := true
  cfuel := 5

theorem A3_agree : Agree A3 P3 ic3 0 (some 1) 5 := ⟨rfl, rfl, rfl, rfl, rfl, rfl, rfl, rfl, rfl⟩

theorem P3_ret_nodup : P3.ret.Nodup := by decide

/-- a short explicit tape: first clock draw 1/2, `random.choice` index 1 (node 1), uniform 0 (accepted), second clock
draw 1 (the next event time 3/2 exceeds `tmax = 1`) -/
def tape3 : TapeSt := { tape := [.expo (1/2), .choice 1, .unif 0, .expo 1] }

/-- the GENERATED code on that tape: node 1 is infected at time 1/2, the reported columns move, node 1 is re-weighted
to γ = 1/2 and its neighbour 2 enters with rate τ = 1 -/
example : ((run A3 2 tape3).toOption.map fun (σ, _) => (σ.times, σ.data)) =
    some ([some 0, some (1/2)], [(St.S, [2, 1]), (St.I, [1, 2]), (St.R, [0, 0])]) := by decide +kernel

example : ((run A3 2 tape3).toOption.map fun (σ, _) => (σ.nodes_by_rate.items, σ.nodes_by_rate.weight)) =
    some ([1, 0, 2], [(1, 1/2), (0, 1/2), (2, 1)]) := by decide +kernel

/-- … the next event time is 3/2 > tmax, the tape is consumed, and the logged calls carry the clock rates 3/2 and 2 and
the candidate list `[0, 1]` -/
example : ((run A3 2 tape3).toOption.map fun (σ, ts) => (σ.t, ts.tape, ts.trace.toList)) =
    some (some (3/2), [], [Call.expo (3/2), Call.choice [[0], [1]], Call.unif, Call.expo 2]) := by decide +kernel

/-- the MODEL on the same tape: same results, reversed lists … -/
example : ((Complex.run P3 ic3 0 (some 1) 2 5 tape3).toOption.map fun (s, _) =>
      (s.times, s.data, s.ld.items, s.ld.weight)) =
    some ([1/2, 0], [[1, 2], [2, 1], [0, 0]], [1, 0, 2], [(1, 1/2), (0, 1/2), (2, 1)]) := by decide +kernel

/-- … and the same tape state -/
example : ((Complex.run P3 ic3 0 (some 1) 2 5 tape3).toOption.map fun (_, ts) => (ts.tape, ts.trace.toList)) =
    some ([], [Call.expo (3/2), Call.choice [[0], [1]], Call.unif, Call.expo 2]) := by decide +kernel

/-- a failing tape (the uniform draw is missing): both programs raise -/
example : (run A3 2 { tape := [.expo (1/2), .choice 1] }).toOption.isNone = true ∧
    (Complex.run P3 ic3 0 (some 1) 2 5 { tape := [.expo (1/2), .choice 1] }).toOption.isNone = true := by
  decide +kernel

/-- all hypotheses of the refinement theorems hold for the concrete arguments, so they apply: the two programs are
bisimilar on EVERY tape state and every amount of fuel -/
example (fuel : Nat) (ts : TapeSt) : ResRel A3 (run A3 fuel ts) (Complex.run P3 ic3 0 (some 1) fuel 5 ts) :=
  gen_run_bisim A3 P3 ic3 0 (some 1) 5 A3_agree P3_wf P3_ret_nodup fuel ts

/-- … and every state returned by the generated code satisfies the transported C15 invariant, e.g. the clock -/
example (fuel : Nat) (ts ts' : TapeSt) (σ : Loc St) (h : run A3 fuel ts = .ok (σ, ts')) :
    GenLD.total_weight σ.nodes_by_rate = .ok (σ.nodes_by_rate, sumRat (A3.nodes.map (A3.rate σ.status))) :=
  (gen_run_inv A3 P3 ic3 0 (some 1) 5 A3_agree P3_wf P3_ret_nodup fuel ts ts' σ h).2.2.2.2.1

/-- the run above is a successful one (the hypothesis of the previous example is satisfiable) -/
example : ∃ σ ts', run A3 2 tape3 = .ok (σ, ts') := by
  cases h : run A3 2 tape3 with
  | ok q => exact ⟨q.1, q.2, rfl⟩
  | error e =>
    have : (run A3 2 tape3).toOption.isSome = true := by decide +kernel
    rw [h] at this; simp [Except.toOption] at this

end GenCC.Example

/-! axioms -/
#print axioms GenCC.gen_run_bisim_weak
#print axioms GenCC.gen_run_bisim
#print axioms GenCC.gen_run_refines
#print axioms GenCC.gen_run_refines_back
#print axioms GenCC.gen_run_fails_iff
#print axioms GenCC.gen_loop_bisim
#print axioms GenCC.rel_column
#print axioms GenCC.gen_run_inv
#print axioms GenCC.gen_loop_inv
#print axioms GenCC.gen_stop_iff
#print axioms GenCC.gen_next_node_law
#print axioms GenCC.gen_zero_rate_never
#print axioms GenCC.gen_run_no_keyerror
#print axioms GenCC.gen_loop_no_keyerror
